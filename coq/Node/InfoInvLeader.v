(* C19: the leader side preserves [core] and [ldr_ok]. *)
From Coq Require Import List NArith ZArith Bool Lia ZifyN ZifyNat ZifyBool.
From RecordUpdate Require Import RecordUpdate.
From Verif Require Import Base.Bytes Codec.Messages Node.Types Node.Handlers Node.Leader Node.Snap Node.Step Node.Run
  Node.InfoInvDefs Node.InfoInvPrims Node.InfoInvFollower.
Import ListNotations.
Open Scope N_scope.

Definition G (s0 s : nstate) : Prop := core s /\ ldr_ok s /\ mono s0 s.

(* ---------------------------------------------------------------- leader records *)
Definition lsame (l l' : ldrst) : Prop :=
  ld_removelte l' = ld_removelte l /\
  forall b, Forall (fun r => rp_match r <= b) (ld_repls l) -> Forall (fun r => rp_match r <= b) (ld_repls l').

Definition lle (a b : option ldrst) : Prop :=
  match a, b with
  | _, None => True
  | None, Some _ => False
  | Some l, Some l' => lsame l l'
  end.

Lemma lsame_refl l : lsame l l.
Proof. split; auto. Qed.
Lemma lsame_eq l l' : ld_removelte l' = ld_removelte l -> ld_repls l' = ld_repls l -> lsame l l'.
Proof. intros A B. split; [assumption|]. rewrite B. auto. Qed.
Lemma lsame_trans a b c : lsame a b -> lsame b c -> lsame a c.
Proof. intros [A1 A2] [B1 B2]. split; [congruence|auto]. Qed.
Lemma lle_refl a : lle a a.
Proof. destruct a; cbn; [apply lsame_refl|exact I]. Qed.
Lemma lle_trans a b c : lle a b -> lle b c -> lle a c.
Proof.
  destruct a, b, c; cbn; try tauto; try apply lsame_trans.
Qed.

Lemma ldr_ok_lle s s' : ldr_ok s -> lle (st_ldr s) (st_ldr s') ->
  st_snapidx s <= st_snapidx s' -> st_lastidx s <= st_lastidx s' -> ldr_ok s'.
Proof.
  unfold ldr_ok, lle. destruct (st_ldr s) as [l|], (st_ldr s') as [l'|]; try tauto.
  intros [A B] [C D] L1 L2. split; [lia|].
  apply D in B. eapply Forall_impl; [|exact B]. cbn. intros; lia.
Qed.

Lemma G_frame s0 s s' : G s0 s -> K s' = K s -> KM s' = KM s -> lle (st_ldr s) (st_ldr s') -> G s0 s'.
Proof.
  intros (C & L & M) E1 E2 E3. split; [eapply core_ext; eassumption|].
  split; [|eapply mono_ext_r; eassumption].
  destruct (K_inv _ _ E1) as (_ & _ & Q3 & Q4 & _).
  eapply ldr_ok_lle; [exact L|exact E3|lia|lia].
Qed.

Lemma lle_put s l l' : st_ldr s = Some l -> lsame l l' -> lle (st_ldr s) (st_ldr (put_ldr s l')).
Proof. intros -> H. exact H. Qed.

Lemma lle_upd_ldr s f : (forall l, lsame l (f l)) -> lle (st_ldr s) (st_ldr (upd_ldr s f)).
Proof. intros H. unfold upd_ldr. destruct (st_ldr s) eqn:E; [|rewrite E; exact I]. cbn. apply H. Qed.

Lemma lsame_map l f : (forall r, rp_match (f r) = rp_match r) ->
  lsame l (l <| ld_repls := map f (ld_repls l) |>).
Proof.
  intros H. split; [reflexivity|]. cbn. intros b Hb. apply Forall_map. eapply Forall_impl; [|exact Hb].
  cbn. intros r Hr. rewrite H. exact Hr.
Qed.

Lemma lsame_filter l p : lsame l (l <| ld_repls := filter p (ld_repls l) |>).
Proof.
  split; [reflexivity|]. cbn. intros b Hb. rewrite Forall_forall in *. intros r Hr.
  apply filter_In in Hr. apply Hb. tauto.
Qed.

Lemma Forall_put_repl_sorted (P : replst -> Prop) r l : P r -> Forall P l -> Forall P (put_repl_sorted r l).
Proof.
  intros Pr. induction l as [|x t IH]; intros H; cbn.
  - constructor; auto.
  - inversion H; subst. destruct (rp_id x =? rp_id r); [constructor; auto|].
    destruct (rp_id r <? rp_id x); constructor; auto.
Qed.

Lemma upd_ldr_K s f : K (upd_ldr s f) = K s /\ KM (upd_ldr s f) = KM s /\ st_role (upd_ldr s f) = st_role s /\
  st_closed (upd_ldr s f) = st_closed s.
Proof. unfold upd_ldr. destruct (st_ldr s); auto. Qed.

Lemma get_ldr_inv s l : get_ldr s = Done l -> st_ldr s = Some l.
Proof. unfold get_ldr. destruct (st_ldr s); intros H; inversion H; reflexivity. Qed.

Lemma find_repl_In id l r : find_repl id l = Some r -> In r l.
Proof.
  induction l as [|x t IH]; cbn; [discriminate|].
  destruct (rp_id x =? id); [intros H; inversion H; auto|auto].
Qed.

(* ---------------------------------------------------------------- small leader functions *)
Lemma notify_flr_G s0 s b s' : G s0 s -> notify_flr s b = Done s' -> G s0 s' /\ st_role s' = st_role s /\ st_closed s' = st_closed s.
Proof.
  intros HG H. unfold notify_flr in H.
  apply obind_inv in H. destruct H as (l & HL & H). apply get_ldr_inv in HL.
  apply obind_inv in H. destruct H as (vp & _ & H). inversion H; subst s'. clear H.
  split; [|auto]. eapply G_frame; [exact HG|reflexivity|reflexivity|].
  eapply lle_put; [eassumption|]. apply lsame_map. reflexivity.
Qed.

Lemma add_replication_G s0 s n s' : G s0 s -> add_replication s n = Done s' ->
  G s0 s' /\ st_role s' = st_role s /\ st_closed s' = st_closed s /\ st_nid s' = st_nid s.
Proof.
  intros HG H. unfold add_replication in H.
  apply obind_inv in H. destruct H as (l & HL & H). apply get_ldr_inv in HL.
  destruct (n_id n =? st_nid s); [discriminate|].
  apply obind_inv in H. destruct H as (vp & _ & H). inversion H; subst s'. clear H.
  split; [|auto]. eapply G_frame; [exact HG|reflexivity|reflexivity|].
  eapply lle_put; [eassumption|]. split; [reflexivity|]. cbn. intros b Hb.
  apply Forall_put_repl_sorted; [cbn; lia|assumption].
Qed.

Lemma add_replications_G ns : forall s0 s s', G s0 s -> add_replications s ns = Done s' ->
  G s0 s' /\ st_role s' = st_role s /\ st_closed s' = st_closed s.
Proof.
  induction ns as [|n r IH]; intros s0 s s' HG H; cbn [add_replications] in H.
  - inversion H; subst; auto.
  - destruct (n_id n =? st_nid s); [eauto|].
    apply obind_inv in H. destruct H as (s1 & H1 & H2).
    destruct (add_replication_G _ _ _ _ HG H1) as (G1 & R1 & C1 & _).
    destruct (IH _ _ _ G1 H2) as (G2 & R2 & C2). split; [assumption|]. split; congruence.
Qed.

(* everything the invariant reads, except the applied index *)
Definition KF (s : nstate) :=
  (st_logprev s, st_log s, st_lastidx s, st_snapidx s, st_snapcfg s, st_committed s, st_latest s,
   st_commit s, st_snapreq s, st_ldr s, st_term s, st_role s, st_closed s).

Lemma apply_queue_KF q : forall s out s' r, apply_queue s q out = Done (s', r) -> KF s' = KF s.
Proof.
  induction q as [|ne t IH]; intros s out s' r H; cbn [apply_queue] in H.
  - inversion H; reflexivity.
  - destruct (negb _); [discriminate|]. apply IH in H. rewrite H.
    destruct (is_log_entry _); reflexivity.
Qed.

Lemma G_fsm s0 s s' : G s0 s -> KF s' = KF s -> st_fsmidx s' = st_commit s' -> G s0 s'.
Proof.
  intros (C & L & M) E F. unfold KF in E. injection E as Q1 Q2 Q3 Q4 Q5 Q6 Q7 Q8 Q9 Q10 Q11 Q12 Q13.
  pose proof C as [H1 H2 H3 H4 H5 H6 H7 H8 H9 H10 H11].
  split.
  { assert (CK : K (set_fsm s (st_commit s) 0) = K s').
    { unfold K; cbn. rewrite F, Q1, Q2, Q3, Q4, Q5, Q6, Q7, Q8, Q9. reflexivity. }
    eapply core_ext; [symmetry; exact CK|]. apply core_set_fsm; [assumption|lia]. }
  split.
  { unfold ldr_ok in *. rewrite Q10, Q4, Q3. exact L. }
  unfold mono in *. rewrite Q11, Q8, Q4, F, Q8. lia.
Qed.

Lemma leader_apply_committed_G s0 s w : G s0 s -> leader_apply_committed s = Done w ->
  G s0 (fst w) /\ st_role (fst w) = st_role s /\ st_closed (fst w) = st_closed s.
Proof.
  intros HG H. unfold leader_apply_committed in H.
  apply obind_inv in H. destruct H as (l & HL & H). apply get_ldr_inv in HL.
  destruct (split_queue (st_commit s) (ld_queue l)) as [head rest].
  set (s1 := put_ldr s (l <| ld_queue := rest |>)) in *.
  assert (G1 : G s0 s1).
  { subst s1. eapply G_frame; [exact HG|reflexivity|reflexivity|]. eapply lle_put; [eassumption|apply lsame_eq; reflexivity]. }
  assert (R1 : st_role s1 = st_role s /\ st_closed s1 = st_closed s) by auto.
  clearbody s1.
  destruct (log_lastindex s1 <? st_commit s1); [discriminate|].
  destruct (st_commit s1 <? st_logprev s1); [discriminate|].
  match type of H with (if ?b then _ else _) = _ => destruct b end.
  - apply obind_inv in H. destruct H as ([s2 reps] & HQ & H).
    destruct (st_fsmidx s2 =? st_commit s2) eqn:T; [|discriminate]. inversion H; subst w. cbn [fst].
    apply apply_queue_KF in HQ.
    split; [eapply G_fsm; [exact G1|exact HQ|lia]|].
    unfold KF in HQ. injection HQ as _ _ _ _ _ _ _ _ _ _ _ Q12 Q13. destruct R1. split; congruence.
  - destruct (terms_upto _ _ _ _) as [t|]; [|discriminate].
    apply obind_inv in H. destruct H as ([s3 reps] & HQ & H).
    destruct (st_fsmidx s3 =? st_commit s3) eqn:T; [|discriminate]. inversion H; subst w. cbn [fst].
    apply apply_queue_KF in HQ.
    assert (E2 : KF s3 = KF s1) by (rewrite HQ; destruct (_ <? _); reflexivity).
    split; [eapply G_fsm; [exact G1|exact E2|lia]|].
    unfold KF in E2. injection E2 as _ _ _ _ _ _ _ _ _ _ _ Q12 Q13. destruct R1. split; congruence.
Qed.

(* ---------------------------------------------------------------- majority *)
Lemma insert_desc_In x y l : In y (insert_desc x l) -> y = x \/ In y l.
Proof.
  induction l as [|z t IH]; cbn; [intuition auto|].
  destruct (z <? x); cbn; [intuition auto|]. intros [->|H]; [auto|]. apply IH in H. tauto.
Qed.

Lemma sort_desc_In y l : In y (sort_desc l) -> In y l.
Proof.
  induction l as [|x t IH]; cbn; [auto|]. intros H. apply insert_desc_In in H. destruct H; [auto|]. right; auto.
Qed.

Lemma voter_matches_le s l : ldr_ok s -> st_ldr s = Some l -> forall ns ms,
  fold_right (fun n acc =>
      a <~ acc ;;
      if n_voter n then
        if n_id n =? st_nid s then Done (st_lastidx s :: a)
        else match find_repl (n_id n) (ld_repls l) with
             | Some r => Done (rp_match r :: a)
             | None => Err EBug
             end
      else Done a) (Done []) ns = Done ms -> forall m, In m ms -> m <= st_lastidx s.
Proof.
  intros L E. unfold ldr_ok in L. rewrite E in L. destruct L as [_ L]. rewrite Forall_forall in L.
  induction ns as [|n t IH]; intros ms H m Hm; cbn [fold_right] in H.
  - inversion H; subst. destruct Hm.
  - apply obind_inv in H. destruct H as (a & Ha & H).
    destruct (n_voter n); [|inversion H; subst; eapply IH; eauto].
    destruct (n_id n =? st_nid s).
    + inversion H; subst. destruct Hm as [<-|Hm]; [lia|eapply IH; eauto].
    + destruct (find_repl _ _) as [r|] eqn:F; [|discriminate]. inversion H; subst.
      destruct Hm as [<-|Hm]; [apply L; eapply find_repl_In; eassumption|eapply IH; eauto].
Qed.

Lemma majority_match_le s l m : ldr_ok s -> st_ldr s = Some l -> majority_match s l = Done m -> m <= st_lastidx s.
Proof.
  intros L E H. unfold majority_match in H.
  destruct (_ && _); [inversion H; lia|].
  apply obind_inv in H. destruct H as (ms & HM & H).
  destruct (nth_error _ _) as [m'|] eqn:N; [|discriminate]. inversion H; subst m'.
  apply nth_error_In in N. apply in_app_or in N. destruct N as [N|N].
  - apply sort_desc_In in N. eapply voter_matches_le; eassumption.
  - apply repeat_spec in N. lia.
Qed.

(* ---------------------------------------------------------------- steps inside the mutual block *)
Definition leader_pre (s0 s : nstate) (c : config) : Prop :=
  core (set_configs s (st_latest s) c) /\ ldr_ok s /\ mono s0 s.

Lemma G_put_ldr s0 s l l' : G s0 s -> st_ldr s = Some l -> lsame l l' -> G s0 (put_ldr s l').
Proof.
  intros HG E S. eapply G_frame; [exact HG|reflexivity|reflexivity|]. eapply lle_put; eassumption.
Qed.

Lemma G_upd_ldr s0 s f : G s0 s -> (forall l, lsame l (f l)) -> G s0 (upd_ldr s f).
Proof.
  intros HG S. destruct (upd_ldr_K s f) as (A & B & _).
  eapply G_frame; [exact HG|exact A|exact B|]. apply lle_upd_ldr; assumption.
Qed.

Lemma G_upd_repl s0 s id f : G s0 s -> (forall r, rp_match (f r) = rp_match r) -> G s0 (upd_repl s id f).
Proof.
  intros HG S. unfold upd_repl. apply G_upd_ldr; [assumption|]. intros l. apply lsame_map.
  intros r. destruct (rp_id r =? id); [apply S|reflexivity].
Qed.

Lemma G_append_plain s0 s e s2 : G s0 s -> append_entry s e = Done s2 -> config_of_entry e = None -> G s0 s2.
Proof.
  intros (C & L & M) HA D. apply append_entry_inv in HA. destruct HA as [EA ->].
  split; [apply core_append_plain; assumption|]. split; [|exact M].
  eapply ldr_ok_lle; [exact L|apply lle_refl|cbn; lia|cbn; lia].
Qed.

Lemma G_append_cfg s0 s e s2 c : G s0 s -> append_entry s e = Done s2 -> config_of_entry e = Some c ->
  leader_pre s0 s2 c.
Proof.
  intros (C & L & M) HA D. apply append_entry_inv in HA. destruct HA as [EA ->].
  split; [exact (core_append_cfg s e c C EA D)|]. split; [|exact M].
  eapply ldr_ok_lle; [exact L|apply lle_refl|cbn; lia|cbn; lia].
Qed.

Lemma wreply_inv s t r s1 o : wreply s t r = Done (s1, o) -> s1 = s.
Proof. unfold wreply. intros H; inversion H; reflexivity. Qed.

Lemma config_of_entry_typ e : (e_typ e =? entryConfig) = false -> config_of_entry e = None.
Proof. unfold config_of_entry. intros ->. reflexivity. Qed.

Lemma wbind_match_inv (o : outcome W) (out : lout) w :
  match o with
  | Done (s', out') => Done (s', out_app out out')
  | Err e => Err e
  end = Done w -> exists w2, o = Done w2 /\ fst w = fst w2.
Proof. destruct o as [[s' o']|]; [|discriminate]. intros H; inversion H; subst. eexists; split; reflexivity. Qed.

Definition core_ok (opt : options) (f : nat) : Prop :=
  (forall s nes w s0, store_entry opt f s nes = Done w -> G s0 s -> G s0 (fst w)) /\
  (forall s c w s0, leader_change_config opt f s c = Done w -> leader_pre s0 s c -> G s0 (fst w)) /\
  (forall s tid c w s0, check_config_actions opt f s tid c = Done w -> G s0 s -> G s0 (fst w)) /\
  (forall s tid c id w s0, check_config_action opt f s tid c id = Done w -> G s0 s -> G s0 (fst w)) /\
  (forall s tid c w s0, do_change_config opt f s tid c = Done w -> G s0 s -> G s0 (fst w)) /\
  (forall s w s0, on_majority_commit opt f s = Done w -> G s0 s -> G s0 (fst w)) /\
  (forall s i w s0, leader_set_commit_index opt f s i = Done w -> G s0 s ->
     st_commit s <= i -> i <= st_lastidx s -> G s0 (fst w)).

Ltac refold opt H :=
  fold (store_entry opt) in H; fold (leader_change_config opt) in H;
  fold (check_config_actions opt) in H; fold (check_config_action opt) in H;
  fold (do_change_config opt) in H; fold (on_majority_commit opt) in H;
  fold (leader_set_commit_index opt) in H.

Lemma core_G opt f : core_ok opt f.
Proof.
  induction f as [|f IH].
  { unfold core_ok. refine (conj _ (conj _ (conj _ (conj _ (conj _ (conj _ _)))))); intros; discriminate. }
  destruct IH as (I1 & I2 & I3 & I4 & I5 & I6 & I7).
  unfold core_ok. refine (conj _ (conj _ (conj _ (conj _ (conj _ (conj _ _)))))).
  - (* store_entry *)
    intros s nes w s0 H HG. cbn [store_entry] in H. refold opt H.
    match type of H with wbind (?L s nes) _ = _ => set (loop := L) in H end.
    assert (HL : forall nes s w, loop s nes = Done w -> G s0 s -> G s0 (fst w)).
    { clear H HG. clear s nes w. intros nes. induction nes as [|ne rest IHl]; intros s w H HG; cbn in H.
      - inversion H; exact HG.
      - fold loop in H.
        apply obind_inv in H. destruct H as (l & HLd & H). apply get_ldr_inv in HLd.
        destruct (transfer_in_progress l).
        { apply wbind_match_inv in H. destruct H as (w2 & H & E). rewrite E. eapply IHl; eassumption. }
        destruct (negb (ld_voter l)).
        { apply wbind_match_inv in H. destruct H as (w2 & H & E). rewrite E. eapply IHl; eassumption. }
        match type of H with context [put_ldr s ?L'] => set (l' := L') in H end.
        assert (G1 : G s0 (put_ldr s l')).
        { eapply G_put_ldr; [exact HG|exact HLd|]. apply lsame_eq; reflexivity. }
        set (s1 := put_ldr s l') in *. clearbody s1. clear l'.
        destruct (is_log_entry (nq_typ ne)); [|eapply IHl; eassumption].
        apply obind_inv in H. destruct H as (s2 & HA & H).
        destruct (nq_typ ne =? entryConfig) eqn:TY.
        + match type of H with match config_of_entry ?E with _ => _ end = _ =>
            destruct (config_of_entry E) as [c|] eqn:D end; [|discriminate].
          apply wbind_inv in H. destruct H as (s3 & o3 & w2 & HC & H & E). rewrite E.
          pose proof (G_append_cfg _ _ _ _ _ G1 HA D) as PRE.
          pose proof (I2 _ _ _ _ HC PRE) as G3. cbn [fst] in G3.
          eapply IHl; eassumption.
        + eapply IHl; [exact H|]. eapply G_append_plain; [exact G1|exact HA|].
          apply config_of_entry_typ. exact TY. }
    apply wbind_inv in H. destruct H as (s1 & o1 & w2 & HLoop & H & E). rewrite E. clear E.
    pose proof (HL _ _ _ HLoop HG) as G1. cbn [fst] in G1. clear HLoop HL loop.
    apply obind_inv in H. destruct H as (l1 & _ & H).
    apply wbind_inv in H. destruct H as (s2 & o2 & w3 & HAp & H & E). rewrite E. clear E.
    assert (G2 : G s0 s2).
    { destruct (ld_queue l1) as [|ne q].
      - inversion HAp; subst; assumption.
      - destruct (negb (is_log_entry (ne_typ ne))).
        + destruct (leader_apply_committed_G _ _ _ G1 HAp) as [X _]. exact X.
        + inversion HAp; subst; assumption. }
    clear HAp.
    destruct (_ <? st_lastidx s2); [|inversion H; subst; exact G2].
    apply obind_inv in H. destruct H as (s4 & HN & H).
    assert (G3 : G s0 (begin_finished_rounds s2)).
    { unfold begin_finished_rounds. apply G_upd_ldr; [assumption|]. intros l. apply lsame_map.
      intros r. destruct (rp_round r) as [rd|]; [destruct (rd_finished rd)|]; reflexivity. }
    destruct (notify_flr_G _ _ _ _ G3 HN) as [G4 _].
    apply obind_inv in H. destruct H as (l4 & _ & H).
    destruct (_ && _); [eapply I6; eassumption|inversion H; subst; exact G4].
  - (* leader_change_config *)
    intros s c w s0 H (PC & PL & PM). cbn [leader_change_config] in H. refold opt H.
    apply obind_inv in H. destruct H as (l & HLd & H). apply get_ldr_inv in HLd.
    match type of H with context [change_config (put_ldr s ?L1) c] => set (l1 := L1) in H end.
    assert (G1 : G s0 (change_config (put_ldr s l1) c)).
    { split.
      - eapply core_ext; [apply change_config_K|]. eapply core_ext; [|exact PC]. reflexivity.
      - destruct (change_config_frame (put_ldr s l1) c) as (A1 & A2 & _).
        split; [|eapply mono_ext_r; [exact A1|exact PM]].
        pose proof (change_config_K (put_ldr s l1) c) as KK. destruct (K_inv _ _ KK) as (_ & _ & Q3 & Q4 & _).
        eapply ldr_ok_lle; [exact PL| |rewrite Q4; cbn; lia|rewrite Q3; cbn; lia].
        rewrite A2. eapply lle_put; [exact HLd|]. apply lsame_eq; reflexivity. }
    set (s1 := change_config (put_ldr s l1) c) in *. clearbody s1. clear l1.
    apply obind_inv in H. destruct H as (s3 & HF & H).
    match type of HF with fold_left ?F _ (Done ?S2) = _ =>
      assert (HF' : forall x, fold_left F (c_nodes c) (Done S2) = Done x -> G s0 x) end.
    { apply fold_left_inv.
      - intros x Hx; inversion Hx; subst x. apply G_upd_ldr; [assumption|]. intros l'. apply lsame_filter.
      - intros acc n Hacc x Hx.
        apply obind_inv in Hx. destruct Hx as (sa & -> & Hx). specialize (Hacc _ eq_refl).
        destruct (n_id n =? st_nid sa); [inversion Hx; subst; assumption|].
        apply obind_inv in Hx. destruct Hx as (la & _ & Hx).
        destruct (find_repl (n_id n) (ld_repls la)).
        + inversion Hx; subst x. apply G_upd_repl; [assumption|reflexivity].
        + destruct (add_replication_G _ _ _ _ Hacc Hx) as [X _]. exact X. }
    apply HF' in HF. eapply I3; eassumption.
  - (* check_config_actions *)
    intros s tid c w s0 H HG. cbn [check_config_actions] in H. refold opt H.
    apply obind_inv in H. destruct H as (l & _ & H).
    apply obind_inv in H. destruct H as ([[s1 out1] c1] & HR & H).
    assert (G1 : G s0 s1).
    { destruct (_ && _); [|inversion HR; subst; assumption].
      destruct (n_action _ =? ActDemote).
      - apply obind_inv in HR. destruct HR as (w1 & HD & HR). inversion HR; subst w1. 
        exact (I5 _ _ _ _ _ HD HG).
      - destruct (_ || _); [|discriminate].
        apply obind_inv in HR. destruct HR as (w1 & HD & HR). inversion HR; subst w1.
        exact (I5 _ _ _ _ _ HD HG). }
    clear HR. apply obind_inv in H. destruct H as (l1 & _ & H).
    revert w H. apply fold_left_inv.
    + intros w Hw; inversion Hw; subst. exact G1.
    + intros acc id Hacc w Hw.
      apply wbind_inv in Hw. destruct Hw as (sa & oa & w2 & -> & Hw & E). rewrite E.
      specialize (Hacc _ eq_refl). cbn [fst] in Hacc.
      apply obind_inv in Hw. destruct Hw as (la & _ & Hw).
      destruct (find_repl id (ld_repls la)); [eapply I4; eassumption|inversion Hw; subst; exact Hacc].
  - (* check_config_action *)
    intros s tid c id w s0 H HG. cbn [check_config_action] in H. refold opt H.
    apply obind_inv in H. destruct H as (l & _ & H).
    destruct (find_repl id (ld_repls l)) as [rp|]; [|discriminate].
    destruct (next_action _ =? ActNone); [inversion H; subst; exact HG|].
    match type of H with context [upd_repl s id ?F] => set (F' := F) in H end.
    assert (G1 : G s0 (upd_repl s id F')) by (apply G_upd_repl; [assumption|reflexivity]).
    set (s1 := upd_repl s id F') in *. clearbody s1. clear F'.
    destruct (_ || _); [inversion H; subst; exact G1|].
    apply obind_inv in H. destruct H as (l1 & _ & H).
    destruct (negb (can_change_config s1 l1)); [inversion H; subst; exact G1|].
    destruct (_ =? ActPromote); [eapply I5; eassumption|].
    destruct (_ =? ActRemove).
    { destruct (_ <=? _); [eapply I5; eassumption|inversion H; subst; exact G1]. }
    destruct (_ =? ActForceRemove); eapply I5; eassumption.
  - (* do_change_config *)
    intros s tid c w s0 H HG. cbn [do_change_config] in H. refold opt H. eapply I1; eassumption.
  - (* on_majority_commit *)
    intros s w s0 H HG. cbn [on_majority_commit] in H. refold opt H.
    apply obind_inv in H. destruct H as (l & HLd & H). apply get_ldr_inv in HLd.
    apply obind_inv in H. destruct H as (m & HM & H).
    destruct HG as (C & L & M).
    pose proof (majority_match_le _ _ _ L HLd HM) as LM.
    destruct ((st_commit s <? m) && _) eqn:T; [|inversion H; subst; exact (conj C (conj L M))].
    apply wbind_inv in H. destruct H as (s1 & o1 & w2 & HS & H & E). rewrite E. clear E.
    assert (G1 : G s0 s1) by (apply (I7 _ _ _ _ HS); [exact (conj C (conj L M))|lia|lia]).
    apply wbind_inv in H. destruct H as (s2 & o2 & w3 & HA & H & E). rewrite E. clear E.
    destruct (leader_apply_committed_G _ _ _ G1 HA) as [G2 _]. cbn [fst] in G2.
    apply obind_inv in H. destruct H as (s3 & HN & H).
    destruct (notify_flr_G _ _ _ _ G2 HN) as [G3 _]. inversion H; subst. exact G3.
  - (* leader_set_commit_index *)
    intros s i w s0 H HG L1 L2. cbn [leader_set_commit_index] in H. refold opt H.
    apply obind_inv in H. destruct H as (l0 & _ & H).
    pose proof (rsci_frame (o_shutdown_on_remove opt) (commit_log s i) i) as F. cbn zeta in F.
    destruct HG as (C & L & M).
    assert (C1 : core (commit_log s i)) by (eapply core_ext; [apply commit_log_K|assumption]).
    pose proof (core_rsci (o_shutdown_on_remove opt) (commit_log s i) i C1 L1 L2) as C2.
    pose proof (mono_rsci (o_shutdown_on_remove opt) s0 (commit_log s i) i M L1) as M2.
    destruct (raft_set_commit_index _ _ _) as [s2 committed]. cbn [fst] in *.
    destruct F as (F1 & F2 & F3 & F4 & F5 & F6 & F7).
    assert (G2 : G s0 s2).
    { split; [assumption|]. split; [|assumption].
      eapply ldr_ok_lle; [exact L|rewrite F5; apply lle_refl|rewrite F4; cbn; lia|rewrite F6; cbn; lia]. }
    apply wbind_inv in H. destruct H as (s3 & o3 & w2 & HC & H & E). rewrite E. clear E.
    assert (G3 : G s0 s3).
    { match type of HC with (if ?b then _ else _) = _ => destruct b end;
        [exact (I3 _ _ _ _ _ HC G2)|inversion HC; subst; exact G2]. }
    destruct committed; [|inversion H; subst; exact G3].
    apply obind_inv in H. destruct H as (l & HLd & H). apply get_ldr_inv in HLd.
    match type of H with (if ?b then _ else _) = _ => destruct b end; [|eapply I3; eassumption].
    inversion H. cbn [fst]. eapply G_put_ldr; [exact G3|exact HLd|]. apply lsame_eq; reflexivity.
Qed.
