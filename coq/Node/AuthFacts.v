(* C11: non-voters and removed nodes hold no authority.  Proofs of the statements in Props/C11.v. *)
From Coq Require Import List NArith ZArith Bool Lia ZifyN ZifyBool.
From RecordUpdate Require Import RecordUpdate.
From Verif Require Import Base.Bytes Codec.Messages Node.Types Node.Handlers Node.Leader Node.Snap Node.Step Node.Run
  Node.PreserveTV.
Import ListNotations.
Open Scope N_scope.

(* ---------------------------------------------------------------- elections *)
Lemma start_election_requires_voter :
  forall s s', start_election s = Done s' -> is_voter (st_latest s) (st_nid s) = true.
Proof.
  intros s s' H. unfold start_election in H.
  destruct (is_voter (st_latest s) (st_nid s)); [reflexivity | discriminate].
Qed.

Lemma can_start_election_voter s : can_start_election s = true -> is_voter (st_latest s) (st_nid s) = true.
Proof. unfold can_start_election, is_voter. intros H. apply andb_true_iff in H. apply H. Qed.

Lemma timeout_at_nonvoter_aborts :
  forall s, st_role s = Follower -> is_voter (st_latest s) (st_nid s) = false ->
    st_role (follower_on_timeout s) = Follower /\ st_aborted (follower_on_timeout s) = true /\
    st_term (follower_on_timeout s) = st_term s.
Proof.
  intros s HR HV. unfold follower_on_timeout.
  destruct (can_start_election (set_timer (set_leader s 0) false)) eqn:E.
  - apply can_start_election_voter in E. change (is_voter (st_latest s) (st_nid s) = true) in E. congruence.
  - cbn. auto.
Qed.

Lemma timeout_now_refused_by_nonvoter :
  forall s, is_voter (st_latest s) (st_nid s) = false -> on_timeout_now_request s = (nonVoter, s).
Proof. intros s H. unfold on_timeout_now_request. rewrite H. reflexivity. Qed.

(* ---------------------------------------------------------------- the commit point *)
Lemma find_node_in n ns : In n ns -> NoDup (map n_id ns) -> find_node (n_id n) ns = Some n.
Proof.
  induction ns as [|m r IH]; intros Hin Hnd; [destruct Hin|].
  cbn. inversion Hnd as [|x xs Hx Hr]; subst. destruct Hin as [Hin|Hin].
  - subst m. rewrite N.eqb_refl. reflexivity.
  - destruct (n_id m =? n_id n) eqn:E.
    + apply N.eqb_eq in E. exfalso. apply Hx. rewrite E. apply in_map. exact Hin.
    + apply IH; assumption.
Qed.

(* general form: what matters are the nodes listed as voters *)
Lemma voter_matches_ext s l l' :
  (forall n, In n (c_nodes (st_latest s)) -> n_voter n = true -> n_id n <> st_nid s ->
     option_map rp_match (find_repl (n_id n) (ld_repls l)) = option_map rp_match (find_repl (n_id n) (ld_repls l'))) ->
  voter_matches s l = voter_matches s l'.
Proof.
  unfold voter_matches. generalize (c_nodes (st_latest s)) as ns.
  induction ns as [|n r IH]; intros H; [reflexivity|].
  cbn [fold_right].
  assert (IH' := IH (fun n0 Hn0 => H n0 (or_intror Hn0))). clear IH. rewrite IH'. clear IH'.
  destruct (fold_right _ _ r) as [a|e]; [|reflexivity]. cbn [obind].
  destruct (n_voter n) eqn:EV; [|reflexivity].
  destruct (n_id n =? st_nid s) eqn:EI; [reflexivity|].
  apply N.eqb_neq in EI. specialize (H n (or_introl eq_refl) EV EI).
  destruct (find_repl (n_id n) (ld_repls l)), (find_repl (n_id n) (ld_repls l')); cbn in H; congruence.
Qed.

Lemma majority_match_ext s l l' :
  ld_numvoters l = ld_numvoters l' -> ld_voter l = ld_voter l' ->
  (forall n, In n (c_nodes (st_latest s)) -> n_voter n = true -> n_id n <> st_nid s ->
     option_map rp_match (find_repl (n_id n) (ld_repls l)) = option_map rp_match (find_repl (n_id n) (ld_repls l'))) ->
  majority_match s l = majority_match s l'.
Proof.
  intros H1 H2 H3. unfold majority_match. rewrite H1, H2, (voter_matches_ext s l l' H3). reflexivity.
Qed.

(* REPAIRED: [NoDup] added.  [is_voter] looks at the first node with the id, [majority_match] at every node. *)
Lemma nonvoter_acks_do_not_count :
  forall s l l',
    NoDup (map n_id (c_nodes (st_latest s))) ->
    ld_numvoters l = ld_numvoters l' -> ld_voter l = ld_voter l' ->
    (forall id, is_voter (st_latest s) id = true -> id <> st_nid s ->
        option_map rp_match (find_repl id (ld_repls l)) = option_map rp_match (find_repl id (ld_repls l'))) ->
    majority_match s l = majority_match s l'.
Proof.
  intros s l l' Hnd H1 H2 H3. apply majority_match_ext; [assumption..|].
  intros n Hin Hv Hid. apply H3; [|exact Hid].
  unfold is_voter, cfg_node. rewrite (find_node_in _ _ Hin Hnd). exact Hv.
Qed.

(* ---------------------------------------------------------------- promotion *)
Lemma lastidx_upd_ldr s f : st_lastidx (upd_ldr s f) = st_lastidx s.
Proof. unfold upd_ldr. destruct (st_ldr s); reflexivity. Qed.

Lemma promote_only_after_round :
  forall opt fuel s tid c id s' out rp,
    check_config_action opt fuel s tid c id = Done (s', out) ->
    st_ldr s <> None -> find_repl id (match st_ldr s with Some l => ld_repls l | None => [] end) = Some rp ->
    next_action (cfg_node0 c id) = ActPromote ->
    st_lastidx s < st_lastidx s' ->
    (match rp_round rp with
     | Some r => rd_finished r = true \/ rd_last r <= rp_match rp
     | None => st_lastidx s <= rp_match rp
     end) /\ (st_lastidx s <= rp_match rp \/ o_slow opt = false).
Proof.
  intros opt fuel s tid c id s' out rp H Hl Hf Ha Hlt.
  destruct fuel as [|f]; [discriminate|].
  cbn [check_config_action] in H. refold opt H.
  unfold get_ldr in H at 1. destruct (st_ldr s) as [l|] eqn:El; [|congruence].
  cbn [obind] in H. rewrite Hf, Ha in H.
  change (ActPromote =? ActNone) with false in H. change (ActPromote =? ActPromote) with true in H.
  cbn [negb] in H. cbv iota in H.
  (* the round as the function sees it *)
  set (r1 := match rp_round rp with None => mkRound 1 (st_lastidx s) false | Some r => r end) in *.
  assert (E1 : match rp_round rp with None => Some (mkRound 1 (st_lastidx s) false) | Some r => Some r end = Some r1)
    by (unfold r1; destruct (rp_round rp); reflexivity).
  rewrite E1 in H. clear E1.
  set (r2 := if negb (rd_finished r1) && (rd_last r1 <=? rp_match rp)
             then mkRound (rd_ordinal r1) (rd_last r1) true else r1) in *.
  assert (E2 : (if negb (rd_finished r1) && (rd_last r1 <=? rp_match rp)
                then Some (mkRound (rd_ordinal r1) (rd_last r1) true) else Some r1) = Some r2)
    by (unfold r2; destruct (_ && _); reflexivity).
  rewrite E2 in H. clear E2.
  destruct (negb (rd_finished r2) || (rd_finished r2 && (rp_match rp <? st_lastidx s) && o_slow opt)) eqn:EK.
  { unfold wret in H. inversion H; subst. unfold upd_repl in Hlt. rewrite lastidx_upd_ldr in Hlt. lia. }
  apply orb_false_iff in EK. destruct EK as [K1 K2].
  apply negb_false_iff in K1. rewrite K1 in K2. cbn [andb] in K2.
  split.
  - unfold r2 in K1. destruct (negb (rd_finished r1) && (rd_last r1 <=? rp_match rp)) eqn:EC.
    + apply andb_true_iff in EC. destruct EC as [_ EC]. apply N.leb_le in EC.
      unfold r1 in EC. destruct (rp_round rp); [right; exact EC | exact EC].
    + unfold r1 in K1. destruct (rp_round rp); [left; exact K1 | discriminate].
  - apply andb_false_iff in K2. destruct K2 as [K2|K2]; [left | right; exact K2].
    apply N.ltb_ge in K2. exact K2.
Qed.

(* ---------------------------------------------------------------- Raft.setCommitIndex *)
Lemma latest_commit_config s : st_latest (commit_config s) = st_latest s.
Proof. unfold commit_config. destruct (_ && _); reflexivity. Qed.
Lemma nid_commit_config s : st_nid (commit_config s) = st_nid s.
Proof. unfold commit_config. destruct (_ && _); reflexivity. Qed.
Lemma role_commit_config s : st_role (commit_config s) = st_role s.
Proof. unfold commit_config. destruct (_ && _); reflexivity. Qed.
Lemma closed_commit_config s : st_closed (commit_config s) = st_closed s.
Proof. unfold commit_config. destruct (_ && _); reflexivity. Qed.
Lemma committed_commit_config s : configs_committed (commit_config s) = true.
Proof. unfold commit_config, configs_committed. destruct (_ && _); cbn; apply N.eqb_refl. Qed.

Lemma demoted_leader_steps_down_on_commit :
  forall sor s index s' committed,
    raft_set_commit_index sor s index = (s', committed) -> committed = true ->
    st_role s = Leader -> is_voter (st_latest s') (st_nid s') = false -> st_role s' = Follower /\ st_leader s' = 0.
Proof.
  intros sor s index s' committed H HC HR HV. subst committed.
  unfold raft_set_commit_index in H.
  destruct (_ && _); [|discriminate].
  set (s2 := commit_config (set_commit s index)) in *.
  assert (R2 : st_role s2 = Leader) by (unfold s2; rewrite role_commit_config; exact HR).
  rewrite R2 in H. change (Leader =? Leader) with true in H. cbn [andb] in H.
  destruct (is_voter (st_latest s2) (st_nid s2)) eqn:EV; cbn [negb] in H.
  - (* still a voter: contradiction with the hypothesis *)
    exfalso. inversion H as [H1]. clear H.
    assert (X : st_latest s' = st_latest s2 /\ st_nid s' = st_nid s2).
    { rewrite <- H1. destruct sor; [destruct (cfg_node _ _)|]; auto. }
    destruct X as [X1 X2]. rewrite X1, X2 in HV. congruence.
  - inversion H as [H1]. clear H.
    destruct sor; [destruct (cfg_node _ _)|]; cbn; auto.
Qed.

Lemma shutdown_only_after_removal_committed :
  forall sor s index s' committed,
    raft_set_commit_index sor s index = (s', committed) -> st_closed s = false -> st_closed s' = true ->
    committed = true /\ cfg_node (st_latest s') (st_nid s') = None /\ c_index (st_latest s') <= index /\
    configs_committed s' = true.
Proof.
  intros sor s index s' committed H HC HC'.
  unfold raft_set_commit_index in H.
  destruct (negb _ && _) eqn:EC.
  2:{ inversion H; subst. cbn in HC'. congruence. }
  apply andb_true_iff in EC. destruct EC as [_ EC]. apply N.leb_le in EC.
  change (st_latest (set_commit s index)) with (st_latest s) in EC.
  set (s2 := commit_config (set_commit s index)) in *.
  set (s3 := if (st_role s2 =? Leader) && negb (is_voter (st_latest s2) (st_nid s2))
             then set_leader (set_role s2 Follower) 0 else s2) in *.
  assert (L3 : st_latest s3 = st_latest s /\ st_nid s3 = st_nid s2 /\ st_closed s3 = false /\ configs_committed s3 = true).
  { assert (L2 : st_latest s2 = st_latest s) by (unfold s2; rewrite latest_commit_config; reflexivity).
    assert (C2 : st_closed s2 = false) by (unfold s2; rewrite closed_commit_config; exact HC).
    assert (K2 : configs_committed s2 = true) by (unfold s2; apply committed_commit_config).
    unfold s3. destruct (_ && _); cbn; auto. }
  destruct L3 as (L3 & N3 & C3 & K3).
  injection H as H1 H2. split; [symmetry; exact H2|]. subst s'.
  destruct sor; [|congruence].
  destruct (cfg_node (st_latest s3) (st_nid s3)) eqn:EN; [congruence|].
  cbn. rewrite EN, L3. split; [reflexivity|]. split; [exact EC | exact K3].
Qed.

(* ---------------------------------------------------------------- who becomes candidate or leader *)
(* two views of a state: (role, term) and (id, last index, latest configuration) *)
Definition rt (s : nstate) : N * N := (st_role s, st_term s).
Definition gr (s : nstate) : N * N * config := (st_nid s, st_lastidx s, st_latest s).

Lemma rt_set_leader s r : rt (set_leader s r) = rt s. Proof. reflexivity. Qed.
Lemma rt_set_commit s r : rt (set_commit s r) = rt s. Proof. reflexivity. Qed.
Lemma rt_set_flushed s r : rt (set_flushed s r) = rt s. Proof. reflexivity. Qed.
Lemma rt_set_snap s a b c : rt (set_snap s a b c) = rt s. Proof. reflexivity. Qed.
Lemma rt_set_closed s r : rt (set_closed s r) = rt s. Proof. reflexivity. Qed.
Lemma rt_set_fsm s a b : rt (set_fsm s a b) = rt s. Proof. reflexivity. Qed.
Lemma rt_set_flr s a b : rt (set_flr s a b) = rt s. Proof. reflexivity. Qed.
Lemma rt_set_cnd s a b : rt (set_cnd s a b) = rt s. Proof. reflexivity. Qed.
Lemma rt_set_ldr s r : rt (set_ldr s r) = rt s. Proof. reflexivity. Qed.
Lemma rt_set_snapbusy s r : rt (set_snapbusy s r) = rt s. Proof. reflexivity. Qed.
Lemma rt_set_timer s r : rt (set_timer s r) = rt s. Proof. reflexivity. Qed.
Lemma rt_put_ldr s l : rt (put_ldr s l) = rt s. Proof. reflexivity. Qed.
Lemma rt_commit_log s n : rt (commit_log s n) = rt s. Proof. reflexivity. Qed.
Lemma rt_upd_ldr s f : rt (upd_ldr s f) = rt s. Proof. unfold upd_ldr; destruct (st_ldr s); reflexivity. Qed.
Lemma rt_upd_repl s i f : rt (upd_repl s i f) = rt s. Proof. unfold upd_repl, upd_ldr; destruct (st_ldr s); reflexivity. Qed.
Lemma rt_begin_finished_rounds s : rt (begin_finished_rounds s) = rt s. Proof. unfold begin_finished_rounds, upd_ldr; destruct (st_ldr s); reflexivity. Qed.
Lemma rt_commit_config s : rt (commit_config s) = rt s. Proof. unfold commit_config; destruct (_ && _); reflexivity. Qed.
Lemma rt_follower_reset_timer s : rt (follower_reset_timer s) = rt s. Proof. unfold follower_reset_timer; destruct (can_start_election _); reflexivity. Qed.
Lemma rt_follower_init s : rt (follower_init s) = rt s. Proof. reflexivity. Qed.
Lemma rt_candidate_release s : rt (candidate_release s) = rt s. Proof. reflexivity. Qed.
Lemma rt_set_log s a b c d : rt (set_log s a b c d) = rt s. Proof. reflexivity. Qed.
Lemma rt_set_configs s a b : rt (set_configs s a b) = rt s. Proof. reflexivity. Qed.
Lemma rt_change_config s c : rt (change_config s c) = rt s. Proof. unfold change_config; destruct (_ && _); reflexivity. Qed.
Lemma rt_revert_config s : rt (revert_config s) = rt s. Proof. reflexivity. Qed.
Lemma rt_clear_log s : rt (clear_log s) = rt s. Proof. reflexivity. Qed.
Lemma rt_raw_snapbusy s f : rt (set st_snapbusy f s) = rt s. Proof. reflexivity. Qed.
Lemma rt_raw_snapreq s f : rt (set st_snapreq f s) = rt s. Proof. reflexivity. Qed.
Lemma rt_after_rpc s b : rt (after_rpc s b) = rt s.
Proof. unfold after_rpc. destruct (_ && _); [apply rt_follower_reset_timer | reflexivity]. Qed.
Lemma rt_if (b : bool) (x y : nstate) : rt (if b then x else y) = if b then rt x else rt y.
Proof. destruct b; reflexivity. Qed.
Lemma gr_set_leader s r : gr (set_leader s r) = gr s. Proof. reflexivity. Qed.
Lemma gr_set_commit s r : gr (set_commit s r) = gr s. Proof. reflexivity. Qed.
Lemma gr_set_flushed s r : gr (set_flushed s r) = gr s. Proof. reflexivity. Qed.
Lemma gr_set_snap s a b c : gr (set_snap s a b c) = gr s. Proof. reflexivity. Qed.
Lemma gr_set_closed s r : gr (set_closed s r) = gr s. Proof. reflexivity. Qed.
Lemma gr_set_fsm s a b : gr (set_fsm s a b) = gr s. Proof. reflexivity. Qed.
Lemma gr_set_flr s a b : gr (set_flr s a b) = gr s. Proof. reflexivity. Qed.
Lemma gr_set_cnd s a b : gr (set_cnd s a b) = gr s. Proof. reflexivity. Qed.
Lemma gr_set_ldr s r : gr (set_ldr s r) = gr s. Proof. reflexivity. Qed.
Lemma gr_set_snapbusy s r : gr (set_snapbusy s r) = gr s. Proof. reflexivity. Qed.
Lemma gr_set_timer s r : gr (set_timer s r) = gr s. Proof. reflexivity. Qed.
Lemma gr_put_ldr s l : gr (put_ldr s l) = gr s. Proof. reflexivity. Qed.
Lemma gr_commit_log s n : gr (commit_log s n) = gr s. Proof. reflexivity. Qed.
Lemma gr_upd_ldr s f : gr (upd_ldr s f) = gr s. Proof. unfold upd_ldr; destruct (st_ldr s); reflexivity. Qed.
Lemma gr_upd_repl s i f : gr (upd_repl s i f) = gr s. Proof. unfold upd_repl, upd_ldr; destruct (st_ldr s); reflexivity. Qed.
Lemma gr_begin_finished_rounds s : gr (begin_finished_rounds s) = gr s. Proof. unfold begin_finished_rounds, upd_ldr; destruct (st_ldr s); reflexivity. Qed.
Lemma gr_commit_config s : gr (commit_config s) = gr s. Proof. unfold commit_config; destruct (_ && _); reflexivity. Qed.
Lemma gr_follower_reset_timer s : gr (follower_reset_timer s) = gr s. Proof. unfold follower_reset_timer; destruct (can_start_election _); reflexivity. Qed.
Lemma gr_follower_init s : gr (follower_init s) = gr s. Proof. reflexivity. Qed.
Lemma gr_candidate_release s : gr (candidate_release s) = gr s. Proof. reflexivity. Qed.
Lemma gr_set_role s r : gr (set_role s r) = gr s. Proof. reflexivity. Qed.
Lemma gr_set_term_vote s t v : gr (set_term_vote s t v) = gr s. Proof. reflexivity. Qed.
Lemma gr_raw_snapbusy s f : gr (set st_snapbusy f s) = gr s. Proof. reflexivity. Qed.
Lemma gr_raw_snapreq s f : gr (set st_snapreq f s) = gr s. Proof. reflexivity. Qed.
Lemma gr_after_rpc s b : gr (after_rpc s b) = gr s.
Proof. unfold after_rpc. destruct (_ && _); [apply gr_follower_reset_timer | reflexivity]. Qed.
Lemma gr_if (b : bool) (x y : nstate) : gr (if b then x else y) = if b then gr x else gr y.
Proof. destruct b; reflexivity. Qed.
Lemma rt_set_role s r : rt (set_role s r) = (r, st_term s). Proof. reflexivity. Qed.
Lemma rt_set_term_vote s t v : rt (set_term_vote s t v) = (st_role s, t). Proof. reflexivity. Qed.
Lemma gr_set_log s a b c d : gr (set_log s a b c d) = (st_nid s, c, st_latest s). Proof. reflexivity. Qed.
Lemma gr_set_configs s a b : gr (set_configs s a b) = (st_nid s, st_lastidx s, b). Proof. reflexivity. Qed.
Lemma gr_change_config s c : gr (change_config s c) = (st_nid s, st_lastidx s, c).
Proof. unfold change_config; destruct (_ && _); reflexivity. Qed.
#[local] Hint Rewrite rt_set_leader rt_set_commit rt_set_flushed rt_set_snap rt_set_closed rt_set_fsm rt_set_flr rt_set_cnd rt_set_ldr rt_set_snapbusy rt_set_timer rt_put_ldr rt_commit_log rt_upd_ldr rt_upd_repl rt_begin_finished_rounds rt_commit_config rt_follower_reset_timer rt_follower_init rt_candidate_release rt_set_log rt_set_configs rt_change_config rt_revert_config rt_clear_log rt_raw_snapbusy rt_raw_snapreq rt_after_rpc rt_if rt_set_role rt_set_term_vote @if_same : rt.
#[local] Hint Rewrite gr_set_leader gr_set_commit gr_set_flushed gr_set_snap gr_set_closed gr_set_fsm gr_set_flr gr_set_cnd gr_set_ldr gr_set_snapbusy gr_set_timer gr_put_ldr gr_commit_log gr_upd_ldr gr_upd_repl gr_begin_finished_rounds gr_commit_config gr_follower_reset_timer gr_follower_init gr_candidate_release gr_set_role gr_set_term_vote gr_raw_snapbusy gr_raw_snapreq gr_after_rpc gr_if gr_set_log gr_set_configs gr_change_config @if_same : gr.
Lemma gr_fold s : (st_nid s, st_lastidx s, st_latest s) = gr s. Proof. reflexivity. Qed.
#[local] Hint Rewrite gr_fold : gr.

Ltac rt_norm := cbn [fst snd] in *; autorewrite with rt in *.
Ltac gr_norm := cbn [fst snd] in *; autorewrite with gr in *.

(* a step is quiet when the node ends as follower or keeps role and term *)
Definition quiet (s s' : nstate) : Prop := st_role s' = Follower \/ rt s' = rt s.

Lemma quiet_refl s : quiet s s. Proof. right; reflexivity. Qed.
Lemma quiet_trans a b c : quiet a b -> quiet b c -> quiet a c.
Proof.
  unfold quiet, rt. intros [H1|H1] [H2|H2]; auto.
  - inversion H2. left; congruence.
  - right; congruence.
Qed.
Lemma quiet_same a b : rt b = rt a -> quiet a b. Proof. right; assumption. Qed.
Lemma quiet_same_r a b b' : rt b' = rt b -> quiet a b -> quiet a b'.
Proof. unfold quiet, rt. intros E [H|H]; inversion E; [left|right]; congruence. Qed.

Lemma quiet_absurd s s' :
  quiet s s' -> (st_role s' = Candidate \/ st_role s' = Leader) ->
  (st_role s <> st_role s' \/ st_term s <> st_term s') -> False.
Proof.
  unfold quiet, rt. intros [H|H] HR HN.
  - rewrite H in HR. destruct HR; discriminate.
  - inversion H. destruct HN; congruence.
Qed.

(* -------- storage and follower-side handlers *)
Lemma rt_set_term s t s' : set_term s t = Done s' -> rt s' = (st_role s, t).
Proof.
  unfold set_term. destruct (st_term s =? t) eqn:E.
  - apply N.eqb_eq in E. intros H; inversion H; subst. reflexivity.
  - destruct (_ <? _); [|discriminate]. intros H; inversion H; subst. reflexivity.
Qed.
Lemma rt_set_voted_for s t c s' : set_voted_for s t c = Done s' -> rt s' = (st_role s, t).
Proof.
  unfold set_voted_for. destruct (_ && _) eqn:E.
  - apply andb_true_iff in E. destruct E as [E _]. apply N.eqb_eq in E. intros H; inversion H; subst. reflexivity.
  - destruct (_ <=? _); [|discriminate]. intros H; inversion H; subst. reflexivity.
Qed.
Lemma rt_append_entry s e s' : append_entry s e = Done s' -> rt s' = rt s.
Proof. unfold append_entry. intros; repeat inv1; reflexivity. Qed.
Lemma rt_remove_gte s i t s' : remove_gte s i t = Done s' -> rt s' = rt s.
Proof. unfold remove_gte. intros; repeat inv1; reflexivity. Qed.
Lemma rt_apply_committed s s' : apply_committed s = Done s' -> rt s' = rt s.
Proof. unfold apply_committed. intros; repeat inv1; reflexivity. Qed.

Lemma quiet_raft_set_commit_index sor s i : quiet s (fst (raft_set_commit_index sor s i)).
Proof.
  unfold raft_set_commit_index.
  destruct (negb _ && _); [|right; reflexivity]. cbn [fst].
  destruct (_ && _).
  - left. destruct sor; [destruct (cfg_node _ _)|]; reflexivity.
  - right. destruct sor; [destruct (cfg_node _ _)|]; rt_norm; reflexivity.
Qed.

Lemma quiet_commit_and_apply sor s i s' : commit_and_apply sor s i = Done s' -> quiet s s'.
Proof.
  unfold commit_and_apply. intros H. apply rt_apply_committed in H.
  eapply quiet_same_r; [exact H | apply quiet_raft_set_commit_index].
Qed.

Ltac use_rh :=
  match goal with
  | H : append_entry _ _ = Done _ |- _ => apply rt_append_entry in H
  | H : remove_gte _ _ _ = Done _ |- _ => apply rt_remove_gte in H
  | H : apply_committed _ = Done _ |- _ => apply rt_apply_committed in H
  | H : set_term _ _ = Done _ |- _ => apply rt_set_term in H
  | H : set_voted_for _ _ _ = Done _ |- _ => apply rt_set_voted_for in H
  end.

Lemma rt_consume_entries es : forall s i t b r,
  consume_entries s es i t b = Done r -> rt (fst (fst (fst (fst r)))) = rt s.
Proof.
  induction es as [|ne rest IH]; intros s i t b r H.
  - cbn in H. inversion H; reflexivity.
  - cbn [consume_entries] in H.
    repeat (first [use_rh | inv1]); try (apply IH in H); rt_norm; try congruence.
Qed.

Lemma follower_stays s s' : st_role s = Follower -> quiet s s' -> st_role s' = Follower.
Proof. unfold quiet, rt. intros H [Q|Q]; [exact Q|]. inversion Q. congruence. Qed.

Lemma quiet_on_append_request sor s q c s' : on_append_request sor s q = Done (c, s') -> quiet s s'.
Proof.
  unfold on_append_request. intros H.
  destruct (aq_term q <? st_term s). { inversion H; subst. apply quiet_refl. }
  apply obind_inv in H. destruct H as (s0 & H0 & H). apply rt_set_term in H0.
  left.
  set (s1 := set_leader (set_role s0 Follower) (aq_src q)) in *.
  assert (R1 : st_role s1 = Follower) by reflexivity. clearbody s1.
  apply obind_inv in H. destruct H as ([pc s2] & Hp & H).
  assert (R2 : st_role s2 = Follower).
  { repeat (first [ match goal with H : commit_and_apply _ _ _ = Done _ |- _ =>
                      apply quiet_commit_and_apply in H; apply (follower_stays _ _ R1) in H end
                  | inv1 ]); assumption. }
  clear Hp. destruct pc as [code|]. { inversion H; subst; exact R2. }
  apply obind_inv in H. destruct H as (r & Hr & H).
  apply rt_consume_entries in Hr. destruct r as [[[[s3 index] term] sync] df]. cbn [fst] in Hr.
  assert (R3 : st_role s3 = Follower) by (unfold rt in Hr; inversion Hr; congruence).
  apply obind_inv in H. destruct H as (s4 & H4 & H). inversion H; subst. clear H.
  repeat (first [ match goal with H : commit_and_apply _ ?x _ = Done _ |- _ =>
                      apply quiet_commit_and_apply in H; apply (follower_stays x) in H; [|exact R3] end
                | inv1 ]); assumption.
Qed.

Lemma quiet_on_install_snap_request s q np c s' : on_install_snap_request s q np = Done (c, s') -> quiet s s'.
Proof.
  unfold on_install_snap_request. intros H.
  destruct (sq_term q <? st_term s). { inversion H; subst. apply quiet_refl. }
  apply obind_inv in H. destruct H as (s0 & H0 & H). left.
  repeat inv1; unfold commit_config, change_config; repeat (destruct (_ && _)); reflexivity.
Qed.

Lemma quiet_on_vote_request s q c s' : on_vote_request s q = Done (c, s') -> quiet s s'.
Proof.
  unfold on_vote_request. intros H.
  destruct (_ && _ && _). { inversion H; subst. apply quiet_refl. }
  destruct (vq_term q <? st_term s). { inversion H; subst. apply quiet_refl. }
  destruct (st_term s <? vq_term q) eqn:E1.
  - left. repeat (first [use_rh | inv1]); unfold rt in *; cbn in *; congruence.
  - right. repeat (first [use_rh | inv1]); unfold rt in *; cbn in *; congruence.
Qed.

(* -------- leader side: the role only changes from leader to follower, the term not at all
   (except on a higher term seen by a replication, which also ends leadership) *)
Definition nrm (p : N * N) : N * N := (if fst p =? Leader then Follower else fst p, snd p).

Lemma nr_quiet s s' : st_role s = Leader -> nrm (rt s') = nrm (rt s) -> quiet s s'.
Proof.
  unfold nrm, rt, quiet. cbn [fst snd]. intros HR H. rewrite HR in H.
  change (Leader =? Leader) with true in H. cbv iota in H.
  destruct (st_role s' =? Leader) eqn:E; injection H as H1 H2.
  - apply N.eqb_eq in E. right. rewrite E, HR, H2. reflexivity.
  - left. exact H1.
Qed.

Lemma nr_raft_set_commit_index sor s i : nrm (rt (fst (raft_set_commit_index sor s i))) = nrm (rt s).
Proof.
  unfold raft_set_commit_index.
  destruct (negb _ && _); [|reflexivity]. cbn [fst].
  destruct (_ && _) eqn:E.
  - apply andb_true_iff in E. destruct E as [E _]. apply N.eqb_eq in E.
    rewrite role_commit_config in E. change (st_role (set_commit s i)) with (st_role s) in E.
    assert (X : forall x, rt x = (Follower, st_term s) -> nrm (rt x) = nrm (rt s)).
    { intros x Hx. rewrite Hx. unfold nrm, rt. cbn [fst snd]. rewrite E. reflexivity. }
    destruct sor; [destruct (cfg_node _ _)|]; apply X; rt_norm; reflexivity.
  - destruct sor; [destruct (cfg_node _ _)|]; rt_norm; reflexivity.
Qed.

Lemma rt_get_dummy : True. Proof. exact I. Qed.

Lemma rt_notify_flr s b s' : notify_flr s b = Done s' -> rt s' = rt s.
Proof. unfold notify_flr. intros H. repeat inv1; reflexivity. Qed.
Lemma rt_add_replication s n s' : add_replication s n = Done s' -> rt s' = rt s.
Proof. unfold add_replication. intros H. repeat inv1; reflexivity. Qed.
Lemma rt_add_replications ns : forall s s', add_replications s ns = Done s' -> rt s' = rt s.
Proof.
  induction ns as [|n r IH]; intros s s' H; cbn [add_replications] in H.
  - inversion H; reflexivity.
  - destruct (n_id n =? st_nid s); [eauto|].
    apply obind_inv in H. destruct H as (s1 & H1 & H2).
    apply rt_add_replication in H1. apply IH in H2. congruence.
Qed.
Lemma rt_apply_queue q : forall s out r, apply_queue s q out = Done r -> rt (fst r) = rt s.
Proof.
  induction q as [|ne r IH]; intros s out res H; cbn [apply_queue] in H.
  - inversion H; reflexivity.
  - destruct (negb _); [discriminate|]. apply IH in H. rewrite H. rt_norm. reflexivity.
Qed.
Lemma rt_leader_apply_committed s w : leader_apply_committed s = Done w -> rt (fst w) = rt s.
Proof.
  unfold leader_apply_committed. intros H.
  repeat (first [ match goal with H : apply_queue _ _ _ = Done _ |- _ => apply rt_apply_queue in H end | inv1 ]);
  rt_norm; congruence.
Qed.

Ltac use_rl :=
  match goal with
  | H : notify_flr _ _ = Done _ |- _ => apply rt_notify_flr in H
  | H : add_replication _ _ = Done _ |- _ => apply rt_add_replication in H
  | H : add_replications _ _ = Done _ |- _ => apply rt_add_replications in H
  | H : leader_apply_committed _ = Done _ |- _ => apply rt_leader_apply_committed in H
  end.

Definition core_nr (opt : options) (f : nat) : Prop :=
  (forall s nes w, store_entry opt f s nes = Done w -> nrm (rt (fst w)) = nrm (rt s)) /\
  (forall s c w, leader_change_config opt f s c = Done w -> nrm (rt (fst w)) = nrm (rt s)) /\
  (forall s tid c w, check_config_actions opt f s tid c = Done w -> nrm (rt (fst w)) = nrm (rt s)) /\
  (forall s tid c id w, check_config_action opt f s tid c id = Done w -> nrm (rt (fst w)) = nrm (rt s)) /\
  (forall s tid c w, do_change_config opt f s tid c = Done w -> nrm (rt (fst w)) = nrm (rt s)) /\
  (forall s w, on_majority_commit opt f s = Done w -> nrm (rt (fst w)) = nrm (rt s)) /\
  (forall s i w, leader_set_commit_index opt f s i = Done w -> nrm (rt (fst w)) = nrm (rt s)).

Lemma core_nr_all opt f : core_nr opt f.
Proof.
  induction f as [|f IH].
  { unfold core_nr; repeat split; intros; discriminate. }
  destruct IH as (I1 & I2 & I3 & I4 & I5 & I6 & I7).
  unfold core_nr; repeat split.
  - (* store_entry *)
    intros s nes w H. cbn [store_entry] in H. refold opt H.
    match type of H with wbind (?L s nes) _ = _ => set (loop := L) in H end.
    assert (HL : forall nes s w, loop s nes = Done w -> nrm (rt (fst w)) = nrm (rt s)).
    { clear H. induction nes0 as [|ne rest IHl]; intros s0 w0 H; cbn in H.
      - inversion H; reflexivity.
      - fold loop in H.
        repeat (first [ use_rh | use_rl
                      | match goal with
                        | H : loop _ _ = Done _ |- _ => apply IHl in H
                        | H : leader_change_config opt f _ _ = Done _ |- _ => apply I2 in H
                        end
                      | inv1 ]); rt_norm; congruence. }
    repeat (first [ use_rh | use_rl
                  | match goal with
                    | H : loop _ _ = Done _ |- _ => apply HL in H
                    | H : on_majority_commit opt f _ = Done _ |- _ => apply I6 in H
                    end
                  | inv1 ]); rt_norm; congruence.
  - (* leader_change_config *)
    intros s c w H. cbn [leader_change_config] in H. refold opt H.
    apply obind_inv in H. destruct H as (l & Hl & H).
    apply obind_inv in H. destruct H as (s3 & H3 & H).
    apply I3 in H. rewrite H. clear H.
    match type of H3 with fold_left ?F _ (Done ?S2) = _ =>
      assert (HF : forall x, fold_left F (c_nodes c) (Done S2) = Done x -> rt x = rt S2) end.
    { apply fold_left_inv.
      - intros x Hx; inversion Hx; reflexivity.
      - intros acc n Hacc x Hx.
        repeat (first [use_rl | inv1]); try subst acc; try (specialize (Hacc _ eq_refl)); rt_norm; congruence. }
    apply HF in H3. rewrite H3. rt_norm. reflexivity.
  - (* check_config_actions *)
    intros s tid c w H. cbn [check_config_actions] in H. refold opt H.
    apply obind_inv in H. destruct H as (l & Hl & H).
    apply obind_inv in H. destruct H as (r & Hr & H).
    destruct r as [[s1 out1] c1].
    assert (H1 : nrm (rt s1) = nrm (rt s)).
    { repeat (first [ match goal with H : do_change_config opt f _ _ _ = Done _ |- _ => apply I5 in H end | inv1 ]);
        rt_norm; congruence. }
    clear Hr. apply obind_inv in H. destruct H as (l1 & Hl1 & H).
    revert w H. apply fold_left_inv.
    + intros w Hw; inversion Hw; subst. exact H1.
    + intros acc id Hacc w Hw.
      repeat (first [ match goal with H : check_config_action opt f _ _ _ _ = Done _ |- _ => apply I4 in H end | inv1 ]);
        try subst acc; try (specialize (Hacc _ eq_refl)); rt_norm; congruence.
  - (* check_config_action *)
    intros s tid c id w H. cbn [check_config_action] in H. refold opt H.
    repeat (first [ match goal with H : do_change_config opt f _ _ _ = Done _ |- _ => apply I5 in H end | inv1 ]);
      rt_norm; congruence.
  - (* do_change_config *)
    intros s tid c w H. cbn [do_change_config] in H. refold opt H. apply I1 in H. exact H.
  - (* on_majority_commit *)
    intros s w H. cbn [on_majority_commit] in H. refold opt H.
    repeat (first [ use_rl | match goal with H : leader_set_commit_index opt f _ _ = Done _ |- _ => apply I7 in H end | inv1 ]);
      rt_norm; congruence.
  - (* leader_set_commit_index *)
    intros s i w H. cbn [leader_set_commit_index] in H. refold opt H.
    pose proof (nr_raft_set_commit_index (o_shutdown_on_remove opt) (commit_log s i) i) as R.
    destruct (raft_set_commit_index _ _ _) as [s2 committed]. cbn [fst] in R.
    repeat (first [ match goal with H : check_config_actions opt f _ _ _ = Done _ |- _ => apply I3 in H end | inv1 ]);
      rt_norm;
      try (match goal with E : fst ?w = _ |- nrm (rt (fst ?w)) = _ => rewrite E end; rt_norm);
      congruence.
Qed.

Lemma nr_store_entry opt f s nes w : store_entry opt f s nes = Done w -> nrm (rt (fst w)) = nrm (rt s).
Proof. apply (core_nr_all opt f). Qed.
Lemma nr_check_config_actions opt f s tid c w : check_config_actions opt f s tid c = Done w -> nrm (rt (fst w)) = nrm (rt s).
Proof. apply (core_nr_all opt f). Qed.
Lemma nr_check_config_action opt f s tid c id w : check_config_action opt f s tid c id = Done w -> nrm (rt (fst w)) = nrm (rt s).
Proof. apply (core_nr_all opt f). Qed.
Lemma nr_do_change_config opt f s tid c w : do_change_config opt f s tid c = Done w -> nrm (rt (fst w)) = nrm (rt s).
Proof. apply (core_nr_all opt f). Qed.
Lemma nr_on_majority_commit opt f s w : on_majority_commit opt f s = Done w -> nrm (rt (fst w)) = nrm (rt s).
Proof. apply (core_nr_all opt f). Qed.

Ltac use_rc :=
  match goal with
  | H : store_entry _ _ _ _ = Done _ |- _ => apply nr_store_entry in H
  | H : check_config_actions _ _ _ _ _ = Done _ |- _ => apply nr_check_config_actions in H
  | H : check_config_action _ _ _ _ _ _ = Done _ |- _ => apply nr_check_config_action in H
  | H : do_change_config _ _ _ _ _ = Done _ |- _ => apply nr_do_change_config in H
  | H : on_majority_commit _ _ _ = Done _ |- _ => apply nr_on_majority_commit in H
  end.

Lemma nr_leader_init opt s s' : leader_init opt s = Done s' -> nrm (rt s') = nrm (rt s).
Proof. unfold leader_init. intros H. repeat (first [use_rh | use_rl | use_rc | inv1]). rt_norm. congruence. Qed.

Lemma quiet_check_quorum opt s b s' : check_quorum opt s b = Done s' -> quiet s s'.
Proof.
  unfold check_quorum. intros H.
  apply obind_inv in H. destruct H as (l & _ & H).
  apply obind_inv in H. destruct H as (r & _ & H).
  destruct r as [voters reachable].
  repeat inv1; first [ left; reflexivity | right; rt_norm; reflexivity ].
Qed.

Lemma rt_try_transfer opt s w : try_transfer opt s = Done w -> rt (fst w) = rt s.
Proof.
  unfold try_transfer. intros H.
  apply obind_inv in H. destruct H as (l & _ & H).
  apply obind_inv in H. destruct H as (r & _ & H).
  repeat inv1; rt_norm; reflexivity.
Qed.
Lemma rt_transfer_reply s r w : transfer_reply s r = Done w -> rt (fst w) = rt s.
Proof. unfold transfer_reply. intros H. repeat inv1; rt_norm; reflexivity. Qed.

Ltac use_rtr :=
  match goal with
  | H : try_transfer _ _ = Done _ |- _ => apply rt_try_transfer in H
  | H : transfer_reply _ _ = Done _ |- _ => apply rt_transfer_reply in H
  end.
Ltac gor := repeat (first [use_rh | use_rl | use_rc | use_rtr | inv1]).

Lemma nr_reply_transfer opt s r w : reply_transfer opt s r = Done w -> nrm (rt (fst w)) = nrm (rt s).
Proof. unfold reply_transfer. intros H. gor; rt_norm; congruence. Qed.
Lemma nr_on_transfer opt s tid tg w : on_transfer opt s tid tg = Done w -> nrm (rt (fst w)) = nrm (rt s).
Proof. unfold on_transfer. intros H. gor; rt_norm; congruence. Qed.
Lemma nr_on_timeout_now_result opt s from err res w :
  on_timeout_now_result opt s from err res = Done w -> nrm (rt (fst w)) = nrm (rt s).
Proof.
  unfold on_timeout_now_result. intros H.
  repeat (first [ match goal with H : reply_transfer _ _ _ = Done _ |- _ => apply nr_reply_transfer in H end | use_rtr | inv1 ]);
  rt_norm; congruence.
Qed.
Lemma nr_on_change_config opt s tid c w : on_change_config opt s tid c = Done w -> nrm (rt (fst w)) = nrm (rt s).
Proof. unfold on_change_config. intros H. gor; rt_norm; congruence. Qed.
Lemma rt_on_wait_stable s tid w : on_wait_stable s tid = Done w -> rt (fst w) = rt s.
Proof. unfold on_wait_stable. intros H. gor; rt_norm; congruence. Qed.
Lemma rt_check_log_compact opt s s' : check_log_compact opt s = Done s' -> rt s' = rt s.
Proof. unfold check_log_compact. intros H. gor; rt_norm; congruence. Qed.

Lemma quiet_check_repl_update opt s id u w :
  st_role s = Leader -> check_repl_update opt s id u = Done w -> quiet s (fst w).
Proof.
  intros HR H. unfold check_repl_update in H.
  apply obind_inv in H. destruct H as (l & _ & H).
  destruct (find_repl id (ld_repls l)) as [rp|]. 2:{ unfold wret in H. inversion H. apply quiet_refl. }
  destruct u.
  - (* match index *)
    apply nr_quiet; [exact HR|]. gor; rt_norm; congruence.
  - apply quiet_same.
    repeat (first [ match goal with H : check_log_compact _ _ = Done _ |- _ => apply rt_check_log_compact in H end | inv1 ]);
      rt_norm; congruence.
  - apply wbind_inv in H. destruct H as (s2 & o2 & w2 & H2 & H & E). rewrite E. clear E.
    apply obind_inv in H2. destruct H2 as (s2' & HQ & H2). unfold wret in H2. inversion H2; subst. clear H2.
    apply quiet_check_quorum in HQ.
    assert (Q : quiet s s2) by (eapply quiet_trans; [|exact HQ]; apply quiet_same; rt_norm; reflexivity).
    eapply quiet_same_r; [|exact Q]. gor; rt_norm; congruence.
  - left. gor; rt_norm. unfold rt in *. cbn in *. congruence.
Qed.

Lemma rt_flr_update s id w : flr_update s id = Done w -> rt (fst w) = rt s.
Proof. unfold flr_update. intros H. gor; rt_norm; congruence. Qed.
Lemma rt_flr_send s id b w : flr_send s id b = Done w -> rt (fst w) = rt s.
Proof. unfold flr_send. intros H.
  apply obind_inv in H. destruct H as (l & _ & H).
  destruct (find_repl _ _); [|discriminate].
  destruct (_ =? nil_view); [discriminate|].
  apply obind_inv in H. destruct H as (p & _ & H).
  repeat inv1; rt_norm; congruence. Qed.
Lemma rt_flr_resp s id a b c d w : flr_resp s id a b c d = Done w -> rt (fst w) = rt s.
Proof. unfold flr_resp. intros H. gor; rt_norm; congruence. Qed.
Lemma rt_flr_snap_installed s id i w : flr_snap_installed s id i = Done w -> rt (fst w) = rt s.
Proof. unfold flr_snap_installed. intros H. gor; rt_norm; congruence. Qed.

Lemma quiet_leader_event_out opt s e w :
  st_role s = Leader -> leader_event_out opt s e = Done w -> quiet s (fst w).
Proof.
  intros HR. destruct e; cbn [leader_event_out]; intros H.
  - apply nr_quiet; [exact HR|]. apply nr_store_entry in H. exact H.
  - eapply quiet_check_repl_update; eassumption.
  - apply nr_quiet; [exact HR|]. apply nr_on_change_config in H. exact H.
  - apply quiet_same. apply rt_on_wait_stable in H. exact H.
  - apply nr_quiet; [exact HR|]. apply nr_on_transfer in H. exact H.
  - apply nr_quiet; [exact HR|]. apply nr_on_timeout_now_result in H. exact H.
  - apply nr_quiet; [exact HR|]. apply nr_reply_transfer in H. exact H.
  - apply quiet_same. apply rt_try_transfer in H. rt_norm. exact H.
  - apply quiet_same. apply rt_flr_update in H. exact H.
  - apply quiet_same. apply rt_flr_send in H. exact H.
  - apply quiet_same. apply rt_flr_resp in H. exact H.
  - apply quiet_same. apply rt_flr_snap_installed in H. exact H.
Qed.
