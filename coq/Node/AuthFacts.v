(* C11: non-voters and removed nodes hold no authority.  Proofs of the statements in Props/C11.v. *)
From Coq Require Import List NArith ZArith Bool Lia ZifyN ZifyBool.
From RecordUpdate Require Import RecordUpdate.
From Verif Require Import Base.Bytes Codec.Messages Node.Types Node.Handlers Node.Leader Node.Snap Node.Step Node.Run
  Node.PreserveTV.
Import ListNotations.
Open Scope N_scope.

(* ---------------------------------------------------------------- elections *)
Lemma start_election_requires_voter :
  forall s s', start_election s = Done s' -> is_voter (st_latest s) (st_nid s) = true.
Proof.
  intros s s' H. unfold start_election in H.
  destruct (is_voter (st_latest s) (st_nid s)); [reflexivity | discriminate].
Qed.

Lemma can_start_election_voter s : can_start_election s = true -> is_voter (st_latest s) (st_nid s) = true.
Proof. unfold can_start_election, is_voter. intros H. apply andb_true_iff in H. apply H. Qed.

Lemma timeout_at_nonvoter_aborts :
  forall s, st_role s = Follower -> is_voter (st_latest s) (st_nid s) = false ->
    st_role (follower_on_timeout s) = Follower /\ st_aborted (follower_on_timeout s) = true /\
    st_term (follower_on_timeout s) = st_term s.
Proof.
  intros s HR HV. unfold follower_on_timeout.
  destruct (can_start_election (set_timer (set_leader s 0) false)) eqn:E.
  - apply can_start_election_voter in E. change (is_voter (st_latest s) (st_nid s) = true) in E. congruence.
  - cbn. auto.
Qed.

Lemma timeout_now_refused_by_nonvoter :
  forall s, is_voter (st_latest s) (st_nid s) = false -> on_timeout_now_request s = (nonVoter, s).
Proof. intros s H. unfold on_timeout_now_request. rewrite H. reflexivity. Qed.

(* ---------------------------------------------------------------- the commit point *)
Lemma find_node_in n ns : In n ns -> NoDup (map n_id ns) -> find_node (n_id n) ns = Some n.
Proof.
  induction ns as [|m r IH]; intros Hin Hnd; [destruct Hin|].
  cbn. inversion Hnd as [|x xs Hx Hr]; subst. destruct Hin as [Hin|Hin].
  - subst m. rewrite N.eqb_refl. reflexivity.
  - destruct (n_id m =? n_id n) eqn:E.
    + apply N.eqb_eq in E. exfalso. apply Hx. rewrite E. apply in_map. exact Hin.
    + apply IH; assumption.
Qed.

(* general form: what matters are the nodes listed as voters *)
Lemma voter_matches_ext s l l' :
  (forall n, In n (c_nodes (st_latest s)) -> n_voter n = true -> n_id n <> st_nid s ->
     option_map rp_match (find_repl (n_id n) (ld_repls l)) = option_map rp_match (find_repl (n_id n) (ld_repls l'))) ->
  voter_matches s l = voter_matches s l'.
Proof.
  unfold voter_matches. generalize (c_nodes (st_latest s)) as ns.
  induction ns as [|n r IH]; intros H; [reflexivity|].
  cbn [fold_right].
  assert (IH' := IH (fun n0 Hn0 => H n0 (or_intror Hn0))). clear IH. rewrite IH'. clear IH'.
  destruct (fold_right _ _ r) as [a|e]; [|reflexivity]. cbn [obind].
  destruct (n_voter n) eqn:EV; [|reflexivity].
  destruct (n_id n =? st_nid s) eqn:EI; [reflexivity|].
  apply N.eqb_neq in EI. specialize (H n (or_introl eq_refl) EV EI).
  destruct (find_repl (n_id n) (ld_repls l)), (find_repl (n_id n) (ld_repls l')); cbn in H; congruence.
Qed.

Lemma majority_match_ext s l l' :
  ld_numvoters l = ld_numvoters l' -> ld_voter l = ld_voter l' ->
  (forall n, In n (c_nodes (st_latest s)) -> n_voter n = true -> n_id n <> st_nid s ->
     option_map rp_match (find_repl (n_id n) (ld_repls l)) = option_map rp_match (find_repl (n_id n) (ld_repls l'))) ->
  majority_match s l = majority_match s l'.
Proof.
  intros H1 H2 H3. unfold majority_match. rewrite H1, H2, (voter_matches_ext s l l' H3). reflexivity.
Qed.

(* REPAIRED: [NoDup] added.  [is_voter] looks at the first node with the id, [majority_match] at every node. *)
Lemma nonvoter_acks_do_not_count :
  forall s l l',
    NoDup (map n_id (c_nodes (st_latest s))) ->
    ld_numvoters l = ld_numvoters l' -> ld_voter l = ld_voter l' ->
    (forall id, is_voter (st_latest s) id = true -> id <> st_nid s ->
        option_map rp_match (find_repl id (ld_repls l)) = option_map rp_match (find_repl id (ld_repls l'))) ->
    majority_match s l = majority_match s l'.
Proof.
  intros s l l' Hnd H1 H2 H3. apply majority_match_ext; [assumption..|].
  intros n Hin Hv Hid. apply H3; [|exact Hid].
  unfold is_voter, cfg_node. rewrite (find_node_in _ _ Hin Hnd). exact Hv.
Qed.

(* ---------------------------------------------------------------- promotion *)
Lemma lastidx_upd_ldr s f : st_lastidx (upd_ldr s f) = st_lastidx s.
Proof. unfold upd_ldr. destruct (st_ldr s); reflexivity. Qed.

Lemma promote_only_after_round :
  forall opt fuel s tid c id s' out rp,
    check_config_action opt fuel s tid c id = Done (s', out) ->
    st_ldr s <> None -> find_repl id (match st_ldr s with Some l => ld_repls l | None => [] end) = Some rp ->
    next_action (cfg_node0 c id) = ActPromote ->
    st_lastidx s < st_lastidx s' ->
    (match rp_round rp with
     | Some r => rd_finished r = true \/ rd_last r <= rp_match rp
     | None => st_lastidx s <= rp_match rp
     end) /\ (st_lastidx s <= rp_match rp \/ o_slow opt = false).
Proof.
  intros opt fuel s tid c id s' out rp H Hl Hf Ha Hlt.
  destruct fuel as [|f]; [discriminate|].
  cbn [check_config_action] in H. refold opt H.
  unfold get_ldr in H at 1. destruct (st_ldr s) as [l|] eqn:El; [|congruence].
  cbn [obind] in H. rewrite Hf, Ha in H.
  change (ActPromote =? ActNone) with false in H. change (ActPromote =? ActPromote) with true in H.
  cbn [negb] in H. cbv iota in H.
  (* the round as the function sees it *)
  set (r1 := match rp_round rp with None => mkRound 1 (st_lastidx s) false | Some r => r end) in *.
  assert (E1 : match rp_round rp with None => Some (mkRound 1 (st_lastidx s) false) | Some r => Some r end = Some r1)
    by (unfold r1; destruct (rp_round rp); reflexivity).
  rewrite E1 in H. clear E1.
  set (r2 := if negb (rd_finished r1) && (rd_last r1 <=? rp_match rp)
             then mkRound (rd_ordinal r1) (rd_last r1) true else r1) in *.
  assert (E2 : (if negb (rd_finished r1) && (rd_last r1 <=? rp_match rp)
                then Some (mkRound (rd_ordinal r1) (rd_last r1) true) else Some r1) = Some r2)
    by (unfold r2; destruct (_ && _); reflexivity).
  rewrite E2 in H. clear E2.
  destruct (negb (rd_finished r2) || (rd_finished r2 && (rp_match rp <? st_lastidx s) && o_slow opt)) eqn:EK.
  { unfold wret in H. inversion H; subst. unfold upd_repl in Hlt. rewrite lastidx_upd_ldr in Hlt. lia. }
  apply orb_false_iff in EK. destruct EK as [K1 K2].
  apply negb_false_iff in K1. rewrite K1 in K2. cbn [andb] in K2.
  split.
  - unfold r2 in K1. destruct (negb (rd_finished r1) && (rd_last r1 <=? rp_match rp)) eqn:EC.
    + apply andb_true_iff in EC. destruct EC as [_ EC]. apply N.leb_le in EC.
      unfold r1 in EC. destruct (rp_round rp); [right; exact EC | exact EC].
    + unfold r1 in K1. destruct (rp_round rp); [left; exact K1 | discriminate].
  - apply andb_false_iff in K2. destruct K2 as [K2|K2]; [left | right; exact K2].
    apply N.ltb_ge in K2. exact K2.
Qed.

(* ---------------------------------------------------------------- Raft.setCommitIndex *)
Lemma latest_commit_config s : st_latest (commit_config s) = st_latest s.
Proof. unfold commit_config. destruct (_ && _); reflexivity. Qed.
Lemma nid_commit_config s : st_nid (commit_config s) = st_nid s.
Proof. unfold commit_config. destruct (_ && _); reflexivity. Qed.
Lemma role_commit_config s : st_role (commit_config s) = st_role s.
Proof. unfold commit_config. destruct (_ && _); reflexivity. Qed.
Lemma closed_commit_config s : st_closed (commit_config s) = st_closed s.
Proof. unfold commit_config. destruct (_ && _); reflexivity. Qed.
Lemma committed_commit_config s : configs_committed (commit_config s) = true.
Proof. unfold commit_config, configs_committed. destruct (_ && _); cbn; apply N.eqb_refl. Qed.

Lemma demoted_leader_steps_down_on_commit :
  forall sor s index s' committed,
    raft_set_commit_index sor s index = (s', committed) -> committed = true ->
    st_role s = Leader -> is_voter (st_latest s') (st_nid s') = false -> st_role s' = Follower /\ st_leader s' = 0.
Proof.
  intros sor s index s' committed H HC HR HV. subst committed.
  unfold raft_set_commit_index in H.
  destruct (_ && _); [|discriminate].
  set (s2 := commit_config (set_commit s index)) in *.
  assert (R2 : st_role s2 = Leader) by (unfold s2; rewrite role_commit_config; exact HR).
  rewrite R2 in H. change (Leader =? Leader) with true in H. cbn [andb] in H.
  destruct (is_voter (st_latest s2) (st_nid s2)) eqn:EV; cbn [negb] in H.
  - (* still a voter: contradiction with the hypothesis *)
    exfalso. inversion H as [H1]. clear H.
    assert (X : st_latest s' = st_latest s2 /\ st_nid s' = st_nid s2).
    { rewrite <- H1. destruct sor; [destruct (cfg_node _ _)|]; auto. }
    destruct X as [X1 X2]. rewrite X1, X2 in HV. congruence.
  - inversion H as [H1]. clear H.
    destruct sor; [destruct (cfg_node _ _)|]; cbn; auto.
Qed.

Lemma shutdown_only_after_removal_committed :
  forall sor s index s' committed,
    raft_set_commit_index sor s index = (s', committed) -> st_closed s = false -> st_closed s' = true ->
    committed = true /\ cfg_node (st_latest s') (st_nid s') = None /\ c_index (st_latest s') <= index /\
    configs_committed s' = true.
Proof.
  intros sor s index s' committed H HC HC'.
  unfold raft_set_commit_index in H.
  destruct (negb _ && _) eqn:EC.
  2:{ inversion H; subst. cbn in HC'. congruence. }
  apply andb_true_iff in EC. destruct EC as [_ EC]. apply N.leb_le in EC.
  change (st_latest (set_commit s index)) with (st_latest s) in EC.
  set (s2 := commit_config (set_commit s index)) in *.
  set (s3 := if (st_role s2 =? Leader) && negb (is_voter (st_latest s2) (st_nid s2))
             then set_leader (set_role s2 Follower) 0 else s2) in *.
  assert (L3 : st_latest s3 = st_latest s /\ st_nid s3 = st_nid s2 /\ st_closed s3 = false /\ configs_committed s3 = true).
  { assert (L2 : st_latest s2 = st_latest s) by (unfold s2; rewrite latest_commit_config; reflexivity).
    assert (C2 : st_closed s2 = false) by (unfold s2; rewrite closed_commit_config; exact HC).
    assert (K2 : configs_committed s2 = true) by (unfold s2; apply committed_commit_config).
    unfold s3. destruct (_ && _); cbn; auto. }
  destruct L3 as (L3 & N3 & C3 & K3).
  injection H as H1 H2. split; [symmetry; exact H2|]. subst s'.
  destruct sor; [|congruence].
  destruct (cfg_node (st_latest s3) (st_nid s3)) eqn:EN; [congruence|].
  cbn. rewrite EN, L3. split; [reflexivity|]. split; [exact EC | exact K3].
Qed.

(* ---------------------------------------------------------------- who becomes candidate or leader *)
(* two views of a state: (role, term) and (id, last index, latest configuration) *)
Definition rt (s : nstate) : N * N := (st_role s, st_term s).
Definition gr (s : nstate) : N * N * config := (st_nid s, st_lastidx s, st_latest s).

Definition withc (p : N * N * config) (c : config) : N * N * config := (fst (fst p), snd (fst p), c).
Definition withl (p : N * N * config) (li : N) : N * N * config := (fst (fst p), li, snd p).

Lemma rt_set_leader s r : rt (set_leader s r) = rt s. Proof. reflexivity. Qed.
Lemma rt_set_commit s r : rt (set_commit s r) = rt s. Proof. reflexivity. Qed.
Lemma rt_set_flushed s r : rt (set_flushed s r) = rt s. Proof. reflexivity. Qed.
Lemma rt_set_snap s a b c : rt (set_snap s a b c) = rt s. Proof. reflexivity. Qed.
Lemma rt_set_closed s r : rt (set_closed s r) = rt s. Proof. reflexivity. Qed.
Lemma rt_set_fsm s a b : rt (set_fsm s a b) = rt s. Proof. reflexivity. Qed.
Lemma rt_set_flr s a b : rt (set_flr s a b) = rt s. Proof. reflexivity. Qed.
Lemma rt_set_cnd s a b : rt (set_cnd s a b) = rt s. Proof. reflexivity. Qed.
Lemma rt_set_ldr s r : rt (set_ldr s r) = rt s. Proof. reflexivity. Qed.
Lemma rt_set_snapbusy s r : rt (set_snapbusy s r) = rt s. Proof. reflexivity. Qed.
Lemma rt_set_timer s r : rt (set_timer s r) = rt s. Proof. reflexivity. Qed.
Lemma rt_put_ldr s l : rt (put_ldr s l) = rt s. Proof. reflexivity. Qed.
Lemma rt_commit_log s n : rt (commit_log s n) = rt s. Proof. reflexivity. Qed.
Lemma rt_upd_ldr s f : rt (upd_ldr s f) = rt s. Proof. unfold upd_ldr; destruct (st_ldr s); reflexivity. Qed.
Lemma rt_upd_repl s i f : rt (upd_repl s i f) = rt s. Proof. unfold upd_repl, upd_ldr; destruct (st_ldr s); reflexivity. Qed.
Lemma rt_begin_finished_rounds s : rt (begin_finished_rounds s) = rt s. Proof. unfold begin_finished_rounds, upd_ldr; destruct (st_ldr s); reflexivity. Qed.
Lemma rt_commit_config s : rt (commit_config s) = rt s. Proof. unfold commit_config; destruct (_ && _); reflexivity. Qed.
Lemma rt_follower_reset_timer s : rt (follower_reset_timer s) = rt s. Proof. unfold follower_reset_timer; destruct (can_start_election _); reflexivity. Qed.
Lemma rt_follower_init s : rt (follower_init s) = rt s. Proof. reflexivity. Qed.
Lemma rt_candidate_release s : rt (candidate_release s) = rt s. Proof. reflexivity. Qed.
Lemma rt_set_log s a b c d : rt (set_log s a b c d) = rt s. Proof. reflexivity. Qed.
Lemma rt_set_configs s a b : rt (set_configs s a b) = rt s. Proof. reflexivity. Qed.
Lemma rt_change_config s c : rt (change_config s c) = rt s. Proof. unfold change_config; destruct (_ && _); reflexivity. Qed.
Lemma rt_revert_config s : rt (revert_config s) = rt s. Proof. reflexivity. Qed.
Lemma rt_clear_log s : rt (clear_log s) = rt s. Proof. reflexivity. Qed.
Lemma rt_raw_snapbusy s f : rt (set st_snapbusy f s) = rt s. Proof. reflexivity. Qed.
Lemma rt_raw_snapreq s f : rt (set st_snapreq f s) = rt s. Proof. reflexivity. Qed.
Lemma rt_after_rpc s b : rt (after_rpc s b) = rt s.
Proof. unfold after_rpc. destruct (_ && _); [apply rt_follower_reset_timer | reflexivity]. Qed.
Lemma rt_if (b : bool) (x y : nstate) : rt (if b then x else y) = if b then rt x else rt y.
Proof. destruct b; reflexivity. Qed.
Lemma gr_set_leader s r : gr (set_leader s r) = gr s. Proof. reflexivity. Qed.
Lemma gr_set_commit s r : gr (set_commit s r) = gr s. Proof. reflexivity. Qed.
Lemma gr_set_flushed s r : gr (set_flushed s r) = gr s. Proof. reflexivity. Qed.
Lemma gr_set_snap s a b c : gr (set_snap s a b c) = gr s. Proof. reflexivity. Qed.
Lemma gr_set_closed s r : gr (set_closed s r) = gr s. Proof. reflexivity. Qed.
Lemma gr_set_fsm s a b : gr (set_fsm s a b) = gr s. Proof. reflexivity. Qed.
Lemma gr_set_flr s a b : gr (set_flr s a b) = gr s. Proof. reflexivity. Qed.
Lemma gr_set_cnd s a b : gr (set_cnd s a b) = gr s. Proof. reflexivity. Qed.
Lemma gr_set_ldr s r : gr (set_ldr s r) = gr s. Proof. reflexivity. Qed.
Lemma gr_set_snapbusy s r : gr (set_snapbusy s r) = gr s. Proof. reflexivity. Qed.
Lemma gr_set_timer s r : gr (set_timer s r) = gr s. Proof. reflexivity. Qed.
Lemma gr_put_ldr s l : gr (put_ldr s l) = gr s. Proof. reflexivity. Qed.
Lemma gr_commit_log s n : gr (commit_log s n) = gr s. Proof. reflexivity. Qed.
Lemma gr_upd_ldr s f : gr (upd_ldr s f) = gr s. Proof. unfold upd_ldr; destruct (st_ldr s); reflexivity. Qed.
Lemma gr_upd_repl s i f : gr (upd_repl s i f) = gr s. Proof. unfold upd_repl, upd_ldr; destruct (st_ldr s); reflexivity. Qed.
Lemma gr_begin_finished_rounds s : gr (begin_finished_rounds s) = gr s. Proof. unfold begin_finished_rounds, upd_ldr; destruct (st_ldr s); reflexivity. Qed.
Lemma gr_commit_config s : gr (commit_config s) = gr s. Proof. unfold commit_config; destruct (_ && _); reflexivity. Qed.
Lemma gr_follower_reset_timer s : gr (follower_reset_timer s) = gr s. Proof. unfold follower_reset_timer; destruct (can_start_election _); reflexivity. Qed.
Lemma gr_follower_init s : gr (follower_init s) = gr s. Proof. reflexivity. Qed.
Lemma gr_candidate_release s : gr (candidate_release s) = gr s. Proof. reflexivity. Qed.
Lemma gr_set_role s r : gr (set_role s r) = gr s. Proof. reflexivity. Qed.
Lemma gr_set_term_vote s t v : gr (set_term_vote s t v) = gr s. Proof. reflexivity. Qed.
Lemma gr_raw_snapbusy s f : gr (set st_snapbusy f s) = gr s. Proof. reflexivity. Qed.
Lemma gr_raw_snapreq s f : gr (set st_snapreq f s) = gr s. Proof. reflexivity. Qed.
Lemma gr_after_rpc s b : gr (after_rpc s b) = gr s.
Proof. unfold after_rpc. destruct (_ && _); [apply gr_follower_reset_timer | reflexivity]. Qed.
Lemma gr_if (b : bool) (x y : nstate) : gr (if b then x else y) = if b then gr x else gr y.
Proof. destruct b; reflexivity. Qed.
Lemma rt_set_role s r : rt (set_role s r) = (r, st_term s). Proof. reflexivity. Qed.
Lemma rt_set_term_vote s t v : rt (set_term_vote s t v) = (st_role s, t). Proof. reflexivity. Qed.
Lemma gr_set_log s a b c d : gr (set_log s a b c d) = withl (gr s) c. Proof. reflexivity. Qed.
Lemma gr_set_configs s a b : gr (set_configs s a b) = withc (gr s) b. Proof. reflexivity. Qed.
Lemma gr_change_config s c : gr (change_config s c) = withc (gr s) c.
Proof. unfold change_config; destruct (_ && _); reflexivity. Qed.
#[local] Hint Rewrite rt_set_leader rt_set_commit rt_set_flushed rt_set_snap rt_set_closed rt_set_fsm rt_set_flr rt_set_cnd rt_set_ldr rt_set_snapbusy rt_set_timer rt_put_ldr rt_commit_log rt_upd_ldr rt_upd_repl rt_begin_finished_rounds rt_commit_config rt_follower_reset_timer rt_follower_init rt_candidate_release rt_set_log rt_set_configs rt_change_config rt_revert_config rt_clear_log rt_raw_snapbusy rt_raw_snapreq rt_after_rpc rt_if rt_set_role rt_set_term_vote @if_same : rt.
#[local] Hint Rewrite gr_set_leader gr_set_commit gr_set_flushed gr_set_snap gr_set_closed gr_set_fsm gr_set_flr gr_set_cnd gr_set_ldr gr_set_snapbusy gr_set_timer gr_put_ldr gr_commit_log gr_upd_ldr gr_upd_repl gr_begin_finished_rounds gr_commit_config gr_follower_reset_timer gr_follower_init gr_candidate_release gr_set_role gr_set_term_vote gr_raw_snapbusy gr_raw_snapreq gr_after_rpc gr_if gr_set_log gr_set_configs gr_change_config @if_same : gr.
Lemma gr_fold s : (st_nid s, st_lastidx s, st_latest s) = gr s. Proof. reflexivity. Qed.
#[local] Hint Rewrite gr_fold : gr.

Ltac rt_norm := cbn [fst snd] in *; autorewrite with rt in *.
Ltac gr_norm := cbn [fst snd] in *; autorewrite with gr in *.

(* a step is quiet when the node ends as follower or keeps role and term *)
Definition quiet (s s' : nstate) : Prop := st_role s' = Follower \/ rt s' = rt s.

Lemma quiet_refl s : quiet s s. Proof. right; reflexivity. Qed.
Lemma quiet_trans a b c : quiet a b -> quiet b c -> quiet a c.
Proof.
  unfold quiet, rt. intros [H1|H1] [H2|H2]; auto.
  - inversion H2. left; congruence.
  - right; congruence.
Qed.
Lemma quiet_same a b : rt b = rt a -> quiet a b. Proof. right; assumption. Qed.
Lemma quiet_same_r a b b' : rt b' = rt b -> quiet a b -> quiet a b'.
Proof. unfold quiet, rt. intros E [H|H]; inversion E; [left|right]; congruence. Qed.

Lemma quiet_absurd s s' :
  quiet s s' -> (st_role s' = Candidate \/ st_role s' = Leader) ->
  (st_role s <> st_role s' \/ st_term s <> st_term s') -> False.
Proof.
  unfold quiet, rt. intros [H|H] HR HN.
  - rewrite H in HR. destruct HR; discriminate.
  - inversion H. destruct HN; congruence.
Qed.

(* -------- storage and follower-side handlers *)
Lemma rt_set_term s t s' : set_term s t = Done s' -> rt s' = (st_role s, t).
Proof.
  unfold set_term. destruct (st_term s =? t) eqn:E.
  - apply N.eqb_eq in E. intros H; inversion H; subst. reflexivity.
  - destruct (_ <? _); [|discriminate]. intros H; inversion H; subst. reflexivity.
Qed.
Lemma rt_set_voted_for s t c s' : set_voted_for s t c = Done s' -> rt s' = (st_role s, t).
Proof.
  unfold set_voted_for. destruct (_ && _) eqn:E.
  - apply andb_true_iff in E. destruct E as [E _]. apply N.eqb_eq in E. intros H; inversion H; subst. reflexivity.
  - destruct (_ <=? _); [|discriminate]. intros H; inversion H; subst. reflexivity.
Qed.
Lemma rt_append_entry s e s' : append_entry s e = Done s' -> rt s' = rt s.
Proof. unfold append_entry. intros; repeat inv1; reflexivity. Qed.
Lemma rt_remove_gte s i t s' : remove_gte s i t = Done s' -> rt s' = rt s.
Proof. unfold remove_gte. intros; repeat inv1; reflexivity. Qed.
Lemma rt_apply_committed s s' : apply_committed s = Done s' -> rt s' = rt s.
Proof. unfold apply_committed. intros; repeat inv1; reflexivity. Qed.

Lemma quiet_raft_set_commit_index sor s i : quiet s (fst (raft_set_commit_index sor s i)).
Proof.
  unfold raft_set_commit_index.
  destruct (negb _ && _); [|right; reflexivity]. cbn [fst].
  destruct (_ && _).
  - left. destruct sor; [destruct (cfg_node _ _)|]; reflexivity.
  - right. destruct sor; [destruct (cfg_node _ _)|]; rt_norm; reflexivity.
Qed.

Lemma quiet_commit_and_apply sor s i s' : commit_and_apply sor s i = Done s' -> quiet s s'.
Proof.
  unfold commit_and_apply. intros H. apply rt_apply_committed in H.
  eapply quiet_same_r; [exact H | apply quiet_raft_set_commit_index].
Qed.

Ltac use_rh :=
  match goal with
  | H : append_entry _ _ = Done _ |- _ => apply rt_append_entry in H
  | H : remove_gte _ _ _ = Done _ |- _ => apply rt_remove_gte in H
  | H : apply_committed _ = Done _ |- _ => apply rt_apply_committed in H
  | H : set_term _ _ = Done _ |- _ => apply rt_set_term in H
  | H : set_voted_for _ _ _ = Done _ |- _ => apply rt_set_voted_for in H
  end.

Lemma rt_consume_entries es : forall s i t b r,
  consume_entries s es i t b = Done r -> rt (fst (fst (fst (fst r)))) = rt s.
Proof.
  induction es as [|ne rest IH]; intros s i t b r H.
  - cbn in H. inversion H; reflexivity.
  - cbn [consume_entries] in H.
    repeat (first [use_rh | inv1]); try (apply IH in H); rt_norm; try congruence.
Qed.

Lemma follower_stays s s' : st_role s = Follower -> quiet s s' -> st_role s' = Follower.
Proof. unfold quiet, rt. intros H [Q|Q]; [exact Q|]. inversion Q. congruence. Qed.

Lemma quiet_on_append_request sor s q c s' : on_append_request sor s q = Done (c, s') -> quiet s s'.
Proof.
  unfold on_append_request. intros H.
  destruct (aq_term q <? st_term s). { inversion H; subst. apply quiet_refl. }
  apply obind_inv in H. destruct H as (s0 & H0 & H). apply rt_set_term in H0.
  left.
  set (s1 := set_leader (set_role s0 Follower) (aq_src q)) in *.
  assert (R1 : st_role s1 = Follower) by reflexivity. clearbody s1.
  apply obind_inv in H. destruct H as ([pc s2] & Hp & H).
  assert (R2 : st_role s2 = Follower).
  { repeat (first [ match goal with H : commit_and_apply _ _ _ = Done _ |- _ =>
                      apply quiet_commit_and_apply in H; apply (follower_stays _ _ R1) in H end
                  | inv1 ]); assumption. }
  clear Hp. destruct pc as [code|]. { inversion H; subst; exact R2. }
  apply obind_inv in H. destruct H as (r & Hr & H).
  apply rt_consume_entries in Hr. destruct r as [[[[s3 index] term] sync] df]. cbn [fst] in Hr.
  assert (R3 : st_role s3 = Follower) by (unfold rt in Hr; inversion Hr; congruence).
  apply obind_inv in H. destruct H as (s4 & H4 & H). inversion H; subst. clear H.
  repeat (first [ match goal with H : commit_and_apply _ ?x _ = Done _ |- _ =>
                      apply quiet_commit_and_apply in H; apply (follower_stays x) in H; [|exact R3] end
                | inv1 ]); assumption.
Qed.

Lemma quiet_on_install_snap_request s q np c s' : on_install_snap_request s q np = Done (c, s') -> quiet s s'.
Proof.
  unfold on_install_snap_request. intros H.
  destruct (sq_term q <? st_term s). { inversion H; subst. apply quiet_refl. }
  apply obind_inv in H. destruct H as (s0 & H0 & H). left.
  repeat inv1; unfold commit_config, change_config; repeat (destruct (_ && _)); reflexivity.
Qed.

Lemma quiet_on_vote_request s q c s' : on_vote_request s q = Done (c, s') -> quiet s s'.
Proof.
  unfold on_vote_request. intros H.
  destruct (_ && _ && _). { inversion H; subst. apply quiet_refl. }
  destruct (vq_term q <? st_term s). { inversion H; subst. apply quiet_refl. }
  destruct (st_term s <? vq_term q) eqn:E1.
  - left. repeat (first [use_rh | inv1]); unfold rt in *; cbn in *; congruence.
  - right. repeat (first [use_rh | inv1]); unfold rt in *; cbn in *; congruence.
Qed.

(* -------- leader side: the role only changes from leader to follower, the term not at all
   (except on a higher term seen by a replication, which also ends leadership) *)
Definition nrm (p : N * N) : N * N := (if fst p =? Leader then Follower else fst p, snd p).

Lemma nr_quiet s s' : st_role s = Leader -> nrm (rt s') = nrm (rt s) -> quiet s s'.
Proof.
  unfold nrm, rt, quiet. cbn [fst snd]. intros HR H. rewrite HR in H.
  change (Leader =? Leader) with true in H. cbv iota in H.
  destruct (st_role s' =? Leader) eqn:E.
  - injection H as H2. apply N.eqb_eq in E. right. unfold rt. rewrite E, HR, H2. reflexivity.
  - injection H as H1 H2. left. exact H1.
Qed.

Lemma nr_raft_set_commit_index sor s i : nrm (rt (fst (raft_set_commit_index sor s i))) = nrm (rt s).
Proof.
  unfold raft_set_commit_index.
  destruct (negb _ && _); [|reflexivity]. cbn [fst].
  destruct (_ && _) eqn:E.
  - apply andb_true_iff in E. destruct E as [E _]. apply N.eqb_eq in E.
    rewrite role_commit_config in E. change (st_role (set_commit s i)) with (st_role s) in E.
    assert (X : forall x, rt x = (Follower, st_term s) -> nrm (rt x) = nrm (rt s)).
    { intros x Hx. rewrite Hx. unfold nrm, rt. cbn [fst snd]. rewrite E. reflexivity. }
    assert (T : st_term (commit_config (set_commit s i)) = st_term s)
      by (unfold commit_config; destruct (_ && _); reflexivity).
    destruct sor; [destruct (cfg_node _ _)|]; apply X; rt_norm; rewrite T; reflexivity.
  - destruct sor; [destruct (cfg_node _ _)|]; rt_norm; reflexivity.
Qed.

Lemma rt_get_dummy : True. Proof. exact I. Qed.

Lemma rt_notify_flr s b s' : notify_flr s b = Done s' -> rt s' = rt s.
Proof. unfold notify_flr. intros H. repeat inv1; reflexivity. Qed.
Lemma rt_add_replication s n s' : add_replication s n = Done s' -> rt s' = rt s.
Proof. unfold add_replication. intros H. repeat inv1; reflexivity. Qed.
Lemma rt_add_replications ns : forall s s', add_replications s ns = Done s' -> rt s' = rt s.
Proof.
  induction ns as [|n r IH]; intros s s' H; cbn [add_replications] in H.
  - inversion H; reflexivity.
  - destruct (n_id n =? st_nid s); [eauto|].
    apply obind_inv in H. destruct H as (s1 & H1 & H2).
    apply rt_add_replication in H1. apply IH in H2. congruence.
Qed.
Lemma rt_apply_queue q : forall s out r, apply_queue s q out = Done r -> rt (fst r) = rt s.
Proof.
  induction q as [|ne r IH]; intros s out res H; cbn [apply_queue] in H.
  - inversion H; reflexivity.
  - destruct (negb _); [discriminate|]. apply IH in H. rewrite H. rt_norm. reflexivity.
Qed.
Lemma rt_leader_apply_committed s w : leader_apply_committed s = Done w -> rt (fst w) = rt s.
Proof.
  unfold leader_apply_committed. intros H.
  repeat (first [ match goal with H : apply_queue _ _ _ = Done _ |- _ => apply rt_apply_queue in H end | inv1 ]);
  rt_norm; congruence.
Qed.

Ltac use_rl :=
  match goal with
  | H : notify_flr _ _ = Done _ |- _ => apply rt_notify_flr in H
  | H : add_replication _ _ = Done _ |- _ => apply rt_add_replication in H
  | H : add_replications _ _ = Done _ |- _ => apply rt_add_replications in H
  | H : leader_apply_committed _ = Done _ |- _ => apply rt_leader_apply_committed in H
  end.

Definition core_nr (opt : options) (f : nat) : Prop :=
  (forall s nes w, store_entry opt f s nes = Done w -> nrm (rt (fst w)) = nrm (rt s)) /\
  (forall s c w, leader_change_config opt f s c = Done w -> nrm (rt (fst w)) = nrm (rt s)) /\
  (forall s tid c w, check_config_actions opt f s tid c = Done w -> nrm (rt (fst w)) = nrm (rt s)) /\
  (forall s tid c id w, check_config_action opt f s tid c id = Done w -> nrm (rt (fst w)) = nrm (rt s)) /\
  (forall s tid c w, do_change_config opt f s tid c = Done w -> nrm (rt (fst w)) = nrm (rt s)) /\
  (forall s w, on_majority_commit opt f s = Done w -> nrm (rt (fst w)) = nrm (rt s)) /\
  (forall s i w, leader_set_commit_index opt f s i = Done w -> nrm (rt (fst w)) = nrm (rt s)).

Lemma core_nr_all opt f : core_nr opt f.
Proof.
  induction f as [|f IH].
  { unfold core_nr; repeat split; intros; discriminate. }
  destruct IH as (I1 & I2 & I3 & I4 & I5 & I6 & I7).
  unfold core_nr; repeat split.
  - (* store_entry *)
    intros s nes w H. cbn [store_entry] in H. refold opt H.
    match type of H with wbind (?L s nes) _ = _ => set (loop := L) in H end.
    assert (HL : forall nes s w, loop s nes = Done w -> nrm (rt (fst w)) = nrm (rt s)).
    { clear H. induction nes0 as [|ne rest IHl]; intros s0 w0 H; cbn in H.
      - inversion H; reflexivity.
      - fold loop in H.
        repeat (first [ use_rh | use_rl
                      | match goal with
                        | H : loop _ _ = Done _ |- _ => apply IHl in H
                        | H : leader_change_config opt f _ _ = Done _ |- _ => apply I2 in H
                        end
                      | inv1 ]); rt_norm; congruence. }
    repeat (first [ use_rh | use_rl
                  | match goal with
                    | H : loop _ _ = Done _ |- _ => apply HL in H
                    | H : on_majority_commit opt f _ = Done _ |- _ => apply I6 in H
                    end
                  | inv1 ]); rt_norm; congruence.
  - (* leader_change_config *)
    intros s c w H. cbn [leader_change_config] in H. refold opt H.
    apply obind_inv in H. destruct H as (l & Hl & H).
    apply obind_inv in H. destruct H as (s3 & H3 & H).
    apply I3 in H. rewrite H. clear H.
    match type of H3 with fold_left ?F _ (Done ?S2) = _ =>
      assert (HF : forall x, fold_left F (c_nodes c) (Done S2) = Done x -> rt x = rt S2) end.
    { apply fold_left_inv.
      - intros x Hx; inversion Hx; reflexivity.
      - intros acc n Hacc x Hx.
        repeat (first [use_rl | inv1]); try subst acc; try (specialize (Hacc _ eq_refl)); rt_norm; congruence. }
    apply HF in H3. rewrite H3. rt_norm. reflexivity.
  - (* check_config_actions *)
    intros s tid c w H. cbn [check_config_actions] in H. refold opt H.
    apply obind_inv in H. destruct H as (l & Hl & H).
    apply obind_inv in H. destruct H as (r & Hr & H).
    destruct r as [[s1 out1] c1].
    assert (H1 : nrm (rt s1) = nrm (rt s)).
    { repeat (first [ match goal with H : do_change_config opt f _ _ _ = Done _ |- _ => apply I5 in H end | inv1 ]);
        rt_norm; congruence. }
    clear Hr. apply obind_inv in H. destruct H as (l1 & Hl1 & H).
    revert w H. apply fold_left_inv.
    + intros w Hw; inversion Hw; subst. exact H1.
    + intros acc id Hacc w Hw.
      repeat (first [ match goal with H : check_config_action opt f _ _ _ _ = Done _ |- _ => apply I4 in H end | inv1 ]);
        try subst acc; try (specialize (Hacc _ eq_refl)); rt_norm; congruence.
  - (* check_config_action *)
    intros s tid c id w H. cbn [check_config_action] in H. refold opt H.
    repeat (first [ match goal with H : do_change_config opt f _ _ _ = Done _ |- _ => apply I5 in H end | inv1 ]);
      rt_norm; congruence.
  - (* do_change_config *)
    intros s tid c w H. cbn [do_change_config] in H. refold opt H. apply I1 in H. exact H.
  - (* on_majority_commit *)
    intros s w H. cbn [on_majority_commit] in H. refold opt H.
    repeat (first [ use_rl | match goal with H : leader_set_commit_index opt f _ _ = Done _ |- _ => apply I7 in H end | inv1 ]);
      rt_norm; congruence.
  - (* leader_set_commit_index *)
    intros s i w H. cbn [leader_set_commit_index] in H. refold opt H.
    pose proof (nr_raft_set_commit_index (o_shutdown_on_remove opt) (commit_log s i) i) as R.
    destruct (raft_set_commit_index _ _ _) as [s2 committed]. cbn [fst] in R.
    repeat (first [ match goal with H : check_config_actions opt f _ _ _ = Done _ |- _ => apply I3 in H end | inv1 ]);
      rt_norm;
      try (match goal with E : fst ?w = _ |- nrm (rt (fst ?w)) = _ => rewrite E end; rt_norm);
      congruence.
Qed.

Lemma nr_store_entry opt f s nes w : store_entry opt f s nes = Done w -> nrm (rt (fst w)) = nrm (rt s).
Proof. apply (core_nr_all opt f). Qed.
Lemma nr_check_config_actions opt f s tid c w : check_config_actions opt f s tid c = Done w -> nrm (rt (fst w)) = nrm (rt s).
Proof. apply (core_nr_all opt f). Qed.
Lemma nr_check_config_action opt f s tid c id w : check_config_action opt f s tid c id = Done w -> nrm (rt (fst w)) = nrm (rt s).
Proof. apply (core_nr_all opt f). Qed.
Lemma nr_do_change_config opt f s tid c w : do_change_config opt f s tid c = Done w -> nrm (rt (fst w)) = nrm (rt s).
Proof. apply (core_nr_all opt f). Qed.
Lemma nr_on_majority_commit opt f s w : on_majority_commit opt f s = Done w -> nrm (rt (fst w)) = nrm (rt s).
Proof. apply (core_nr_all opt f). Qed.

Ltac use_rc :=
  match goal with
  | H : store_entry _ _ _ _ = Done _ |- _ => apply nr_store_entry in H
  | H : check_config_actions _ _ _ _ _ = Done _ |- _ => apply nr_check_config_actions in H
  | H : check_config_action _ _ _ _ _ _ = Done _ |- _ => apply nr_check_config_action in H
  | H : do_change_config _ _ _ _ _ = Done _ |- _ => apply nr_do_change_config in H
  | H : on_majority_commit _ _ _ = Done _ |- _ => apply nr_on_majority_commit in H
  end.

Lemma nr_leader_init opt s s' : leader_init opt s = Done s' -> nrm (rt s') = nrm (rt s).
Proof. unfold leader_init. intros H. repeat (first [use_rh | use_rl | use_rc | inv1]). rt_norm. congruence. Qed.

Lemma quiet_check_quorum opt s b s' : check_quorum opt s b = Done s' -> quiet s s'.
Proof.
  unfold check_quorum. intros H.
  apply obind_inv in H. destruct H as (l & _ & H).
  apply obind_inv in H. destruct H as (r & _ & H).
  destruct r as [voters reachable].
  repeat inv1; first [ left; reflexivity | right; rt_norm; reflexivity ].
Qed.

Lemma rt_try_transfer opt s w : try_transfer opt s = Done w -> rt (fst w) = rt s.
Proof.
  unfold try_transfer. intros H.
  apply obind_inv in H. destruct H as (l & _ & H).
  apply obind_inv in H. destruct H as (r & _ & H).
  repeat inv1; rt_norm; reflexivity.
Qed.
Lemma rt_transfer_reply s r w : transfer_reply s r = Done w -> rt (fst w) = rt s.
Proof. unfold transfer_reply. intros H. repeat inv1; rt_norm; reflexivity. Qed.

Ltac use_rtr :=
  match goal with
  | H : try_transfer _ _ = Done _ |- _ => apply rt_try_transfer in H
  | H : transfer_reply _ _ = Done _ |- _ => apply rt_transfer_reply in H
  end.
Ltac gor := repeat (first [use_rh | use_rl | use_rc | use_rtr | inv1]).

Lemma nr_reply_transfer opt s r w : reply_transfer opt s r = Done w -> nrm (rt (fst w)) = nrm (rt s).
Proof. unfold reply_transfer. intros H. gor; rt_norm; congruence. Qed.
Lemma nr_on_transfer opt s tid tg w : on_transfer opt s tid tg = Done w -> nrm (rt (fst w)) = nrm (rt s).
Proof. unfold on_transfer. intros H. gor; rt_norm; congruence. Qed.
Lemma nr_on_timeout_now_result opt s from err res w :
  on_timeout_now_result opt s from err res = Done w -> nrm (rt (fst w)) = nrm (rt s).
Proof.
  unfold on_timeout_now_result. intros H.
  repeat (first [ match goal with H : reply_transfer _ _ _ = Done _ |- _ => apply nr_reply_transfer in H end | use_rtr | inv1 ]);
  rt_norm; congruence.
Qed.
Lemma nr_on_change_config opt s tid c w : on_change_config opt s tid c = Done w -> nrm (rt (fst w)) = nrm (rt s).
Proof. unfold on_change_config. intros H. gor; rt_norm; congruence. Qed.
Lemma rt_on_wait_stable s tid w : on_wait_stable s tid = Done w -> rt (fst w) = rt s.
Proof. unfold on_wait_stable. intros H. gor; rt_norm; congruence. Qed.
Lemma rt_check_log_compact opt s s' : check_log_compact opt s = Done s' -> rt s' = rt s.
Proof. unfold check_log_compact. intros H. gor; rt_norm; congruence. Qed.

Lemma quiet_check_repl_update opt s id u w :
  st_role s = Leader -> check_repl_update opt s id u = Done w -> quiet s (fst w).
Proof.
  intros HR H. unfold check_repl_update in H.
  apply obind_inv in H. destruct H as (l & _ & H).
  destruct (find_repl id (ld_repls l)) as [rp|]. 2:{ unfold wret in H. inversion H. apply quiet_refl. }
  destruct u.
  - (* match index *)
    apply nr_quiet; [exact HR|]. gor; rt_norm; congruence.
  - apply quiet_same.
    repeat (first [ match goal with H : check_log_compact _ _ = Done _ |- _ => apply rt_check_log_compact in H end | inv1 ]);
      rt_norm; congruence.
  - apply obind_inv in H. destruct H as (s2 & HQ & H).
    apply quiet_check_quorum in HQ.
    assert (Q : quiet s s2) by (eapply quiet_trans; [|exact HQ]; apply quiet_same; rt_norm; reflexivity).
    eapply quiet_same_r; [|exact Q]. gor; rt_norm; congruence.
  - left. gor; rt_norm. unfold rt in *. cbn in *. congruence.
Qed.

Lemma rt_flr_update s id w : flr_update s id = Done w -> rt (fst w) = rt s.
Proof. unfold flr_update. intros H. gor; rt_norm; congruence. Qed.
Lemma rt_flr_send s id b w : flr_send s id b = Done w -> rt (fst w) = rt s.
Proof. unfold flr_send. intros H.
  apply obind_inv in H. destruct H as (l & _ & H).
  destruct (find_repl _ _); [|discriminate].
  destruct (_ =? nil_view); [discriminate|].
  apply obind_inv in H. destruct H as (p & _ & H).
  repeat inv1; rt_norm; congruence. Qed.
Lemma rt_flr_resp s id a b c d w : flr_resp s id a b c d = Done w -> rt (fst w) = rt s.
Proof. unfold flr_resp. intros H. gor; rt_norm; congruence. Qed.
Lemma rt_flr_snap_installed s id i w : flr_snap_installed s id i = Done w -> rt (fst w) = rt s.
Proof. unfold flr_snap_installed. intros H. gor; rt_norm; congruence. Qed.

Lemma quiet_leader_event_out opt s e w :
  st_role s = Leader -> leader_event_out opt s e = Done w -> quiet s (fst w).
Proof.
  intros HR. destruct e; cbn [leader_event_out]; intros H.
  - apply nr_quiet; [exact HR|]. apply nr_store_entry in H. exact H.
  - eapply quiet_check_repl_update; eassumption.
  - apply nr_quiet; [exact HR|]. apply nr_on_change_config in H. exact H.
  - apply quiet_same. apply rt_on_wait_stable in H. exact H.
  - apply nr_quiet; [exact HR|]. apply nr_on_transfer in H. exact H.
  - apply nr_quiet; [exact HR|]. apply nr_on_timeout_now_result in H. exact H.
  - apply nr_quiet; [exact HR|]. apply nr_reply_transfer in H. exact H.
  - apply quiet_same. apply rt_try_transfer in H. rt_norm. exact H.
  - apply quiet_same. apply rt_flr_update in H. exact H.
  - apply quiet_same. apply rt_flr_send in H. exact H.
  - apply quiet_same. apply rt_flr_resp in H. exact H.
  - apply quiet_same. apply rt_flr_snap_installed in H. exact H.
Qed.

(* -------- leader side: the log only grows, and a new latest configuration sits above the old last index *)
Definition growp (p q : N * N * config) : Prop :=
  fst (fst q) = fst (fst p) /\ snd (fst p) <= snd (fst q) /\ (snd q = snd p \/ snd (fst p) < c_index (snd q)).

Lemma growp_refl p : growp p p.
Proof. unfold growp. split; [reflexivity|]. split; [lia | left; reflexivity]. Qed.
Lemma growp_trans p q r : growp p q -> growp q r -> growp p r.
Proof.
  unfold growp. intros (A1 & A2 & A3) (B1 & B2 & B3). split; [congruence|]. split; [lia|].
  destruct B3 as [B3|B3]; [|right; lia]. rewrite B3. destruct A3 as [A3|A3]; [left; exact A3 | right; exact A3].
Qed.

Lemma config_of_entry_index e c : config_of_entry e = Some c -> c_index c = e_index e.
Proof.
  unfold config_of_entry. destruct (_ =? _); [|discriminate].
  destruct (dec_config_data _) as [[ns r]|]; [|discriminate]. intros H; inversion H; reflexivity.
Qed.

Lemma grow_append_entry s e s' : append_entry s e = Done s' -> growp (gr s) (gr s').
Proof.
  unfold append_entry. destruct (_ =? _) eqn:E; [|discriminate]. apply N.eqb_eq in E.
  intros H; inversion H; subst. unfold growp, gr. cbn. split; [reflexivity|]. split; [lia | left; reflexivity].
Qed.
Lemma grow_append_config s e s' c :
  append_entry s e = Done s' -> config_of_entry e = Some c -> growp (gr s) (withc (gr s') c).
Proof.
  unfold append_entry. destruct (_ =? _) eqn:E; [|discriminate]. apply N.eqb_eq in E.
  intros H HC; inversion H; subst. apply config_of_entry_index in HC.
  unfold growp, withc, gr. cbn. split; [reflexivity|]. split; [lia | right; lia].
Qed.

Lemma gr_notify_flr s b s' : notify_flr s b = Done s' -> gr s' = gr s.
Proof. unfold notify_flr. intros H. repeat inv1; reflexivity. Qed.
Lemma gr_add_replication s n s' : add_replication s n = Done s' -> gr s' = gr s.
Proof. unfold add_replication. intros H. repeat inv1; reflexivity. Qed.
Lemma gr_add_replications ns : forall s s', add_replications s ns = Done s' -> gr s' = gr s.
Proof.
  induction ns as [|n r IH]; intros s s' H; cbn [add_replications] in H.
  - inversion H; reflexivity.
  - destruct (n_id n =? st_nid s); [eauto|].
    apply obind_inv in H. destruct H as (s1 & H1 & H2).
    apply gr_add_replication in H1. apply IH in H2. congruence.
Qed.
Lemma gr_apply_queue q : forall s out r, apply_queue s q out = Done r -> gr (fst r) = gr s.
Proof.
  induction q as [|ne r IH]; intros s out res H; cbn [apply_queue] in H.
  - inversion H; reflexivity.
  - destruct (negb _); [discriminate|]. apply IH in H. rewrite H. gr_norm. reflexivity.
Qed.
Lemma gr_leader_apply_committed s w : leader_apply_committed s = Done w -> gr (fst w) = gr s.
Proof.
  unfold leader_apply_committed. intros H.
  repeat (first [ match goal with H : apply_queue _ _ _ = Done _ |- _ => apply gr_apply_queue in H end | inv1 ]);
  gr_norm; congruence.
Qed.
Lemma gr_raft_set_commit_index sor s i : gr (fst (raft_set_commit_index sor s i)) = gr s.
Proof.
  unfold raft_set_commit_index.
  destruct (negb _ && _); [|reflexivity]. cbn [fst].
  destruct sor; [destruct (cfg_node _ _)|]; gr_norm; reflexivity.
Qed.

Ltac use_g :=
  match goal with
  | H : append_entry ?s ?e = Done ?s2, C : config_of_entry ?e = Some ?c |- _ =>
      pose proof (grow_append_config _ _ _ _ H C); apply grow_append_entry in H; clear C
  | H : append_entry _ _ = Done _ |- _ => apply grow_append_entry in H
  | H : notify_flr _ _ = Done _ |- _ => apply gr_notify_flr in H
  | H : add_replication _ _ = Done _ |- _ => apply gr_add_replication in H
  | H : add_replications _ _ = Done _ |- _ => apply gr_add_replications in H
  | H : leader_apply_committed _ = Done _ |- _ => apply gr_leader_apply_committed in H
  end.

(* orient and use the collected equalities, then chain the inequalities *)
Ltac gr_eqs :=
  repeat match goal with E : fst _ = fst _ |- _ => first [rewrite E in * | clear E] end;
  gr_norm;
  repeat match goal with H : gr _ = _ |- _ => try rewrite H in *; clear H end.
Ltac gchain :=
  solve [ apply growp_refl | eassumption
        | match goal with H : growp ?a ?b |- growp ?a ?c => apply (growp_trans a b c H); gchain end ].
Ltac gdone := gr_eqs; gchain.

Definition core_gr (opt : options) (f : nat) : Prop :=
  (forall s nes w, store_entry opt f s nes = Done w -> growp (gr s) (gr (fst w))) /\
  (forall s c w, leader_change_config opt f s c = Done w -> growp (withc (gr s) c) (gr (fst w))) /\
  (forall s tid c w, check_config_actions opt f s tid c = Done w -> growp (gr s) (gr (fst w))) /\
  (forall s tid c id w, check_config_action opt f s tid c id = Done w -> growp (gr s) (gr (fst w))) /\
  (forall s tid c w, do_change_config opt f s tid c = Done w -> growp (gr s) (gr (fst w))) /\
  (forall s w, on_majority_commit opt f s = Done w -> growp (gr s) (gr (fst w))) /\
  (forall s i w, leader_set_commit_index opt f s i = Done w -> growp (gr s) (gr (fst w))).

Lemma core_gr_all opt f : core_gr opt f.
Proof.
  induction f as [|f IH].
  { unfold core_gr; refine (conj _ (conj _ (conj _ (conj _ (conj _ (conj _ _)))))); intros; discriminate. }
  destruct IH as (I1 & I2 & I3 & I4 & I5 & I6 & I7).
  unfold core_gr; refine (conj _ (conj _ (conj _ (conj _ (conj _ (conj _ _)))))).
  - (* store_entry *)
    intros s nes w H. cbn [store_entry] in H. refold opt H.
    match type of H with wbind (?L s nes) _ = _ => set (loop := L) in H end.
    assert (HL : forall nes s w, loop s nes = Done w -> growp (gr s) (gr (fst w))).
    { clear H. induction nes0 as [|ne rest IHl]; intros s0 w0 H; cbn in H.
      - inversion H. apply growp_refl.
      - fold loop in H.
        repeat inv1;
        repeat (first [ use_g
                      | match goal with
                        | H : loop _ _ = Done _ |- _ => apply IHl in H
                        | H : leader_change_config opt f _ _ = Done _ |- _ => apply I2 in H
                        end ]); gdone. }
    repeat inv1;
    repeat (first [ use_g
                  | match goal with
                    | H : loop _ _ = Done _ |- _ => apply HL in H
                    | H : on_majority_commit opt f _ = Done _ |- _ => apply I6 in H
                    end ]); gdone.
  - (* leader_change_config *)
    intros s c w H. cbn [leader_change_config] in H. refold opt H.
    apply obind_inv in H. destruct H as (l & Hl & H).
    apply obind_inv in H. destruct H as (s3 & H3 & H).
    apply I3 in H.
    match type of H3 with fold_left ?F _ (Done ?S2) = _ =>
      assert (HF : forall x, fold_left F (c_nodes c) (Done S2) = Done x -> gr x = gr S2) end.
    { apply fold_left_inv.
      - intros x Hx; inversion Hx; reflexivity.
      - intros acc n Hacc x Hx.
        repeat (first [use_g | inv1]); try subst acc; try (specialize (Hacc _ eq_refl)); gr_norm; congruence. }
    apply HF in H3. clear HF. gdone.
  - (* check_config_actions *)
    intros s tid c w H. cbn [check_config_actions] in H. refold opt H.
    apply obind_inv in H. destruct H as (l & Hl & H).
    apply obind_inv in H. destruct H as (r & Hr & H).
    destruct r as [[s1 out1] c1].
    assert (H1 : growp (gr s) (gr s1)).
    { repeat inv1;
      repeat match goal with H : do_change_config opt f _ _ _ = Done _ |- _ => apply I5 in H end; gdone. }
    clear Hr. apply obind_inv in H. destruct H as (l1 & Hl1 & H).
    revert w H. apply fold_left_inv.
    + intros w Hw; inversion Hw; subst. exact H1.
    + intros acc id Hacc w Hw.
      repeat inv1;
      repeat match goal with H : check_config_action opt f _ _ _ _ = Done _ |- _ => apply I4 in H end;
      try subst acc; try (specialize (Hacc _ eq_refl)); gdone.
  - (* check_config_action *)
    intros s tid c id w H. cbn [check_config_action] in H. refold opt H.
    repeat inv1;
    repeat match goal with H : do_change_config opt f _ _ _ = Done _ |- _ => apply I5 in H end; gdone.
  - (* do_change_config *)
    intros s tid c w H. cbn [do_change_config] in H. refold opt H. apply I1 in H. exact H.
  - (* on_majority_commit *)
    intros s w H. cbn [on_majority_commit] in H. refold opt H.
    repeat inv1;
    repeat (first [ use_g | match goal with H : leader_set_commit_index opt f _ _ = Done _ |- _ => apply I7 in H end ]);
    gdone.
  - (* leader_set_commit_index *)
    intros s i w H. cbn [leader_set_commit_index] in H. refold opt H.
    pose proof (gr_raft_set_commit_index (o_shutdown_on_remove opt) (commit_log s i) i) as R.
    destruct (raft_set_commit_index _ _ _) as [s2 committed]. cbn [fst] in R.
    repeat inv1;
    repeat match goal with H : check_config_actions opt f _ _ _ = Done _ |- _ => apply I3 in H end;
    gdone.
Qed.

Lemma gr_store_entry opt f s nes w : store_entry opt f s nes = Done w -> growp (gr s) (gr (fst w)).
Proof. apply (core_gr_all opt f). Qed.
Lemma gr_check_config_actions opt f s tid c w : check_config_actions opt f s tid c = Done w -> growp (gr s) (gr (fst w)).
Proof. apply (core_gr_all opt f). Qed.

Lemma grow_leader_init opt s s' : leader_init opt s = Done s' -> growp (gr s) (gr s').
Proof.
  unfold leader_init. intros H.
  repeat inv1;
  repeat (first [ use_g
                | match goal with
                  | H : store_entry _ _ _ _ = Done _ |- _ => apply gr_store_entry in H
                  | H : check_config_actions _ _ _ _ _ = Done _ |- _ => apply gr_check_config_actions in H
                  end ]); gdone.
Qed.

(* -------- the role change that ends a step *)
Lemma rt_release_role opt old s : rt (fst (release_role opt old s)) = rt s.
Proof.
  unfold release_role. destruct (old =? Candidate); [reflexivity|].
  destruct (old =? Leader); [|reflexivity].
  unfold leader_release_out. destruct (st_ldr s); [|reflexivity]. cbn [fst]. rt_norm. reflexivity.
Qed.
Lemma gr_release_role opt old s : gr (fst (release_role opt old s)) = gr s.
Proof.
  unfold release_role. destruct (old =? Candidate); [reflexivity|].
  destruct (old =? Leader); [|reflexivity].
  unfold leader_release_out. destruct (st_ldr s); [|reflexivity]. cbn [fst]. gr_norm. reflexivity.
Qed.

Lemma rt_role a b : rt a = rt b -> st_role a = st_role b.
Proof. unfold rt. intros H; inversion H; reflexivity. Qed.
Lemma voter_gr a b : gr a = gr b -> is_voter (st_latest a) (st_nid a) = is_voter (st_latest b) (st_nid b).
Proof. unfold gr. intros H; inversion H. reflexivity. Qed.

Lemma transition_follower fuel : forall opt old s w,
  st_role s = Follower -> transition fuel opt old s = Done w -> rt (fst w) = rt s.
Proof.
  induction fuel as [|f IH]; intros opt old s w HR H; cbn [transition] in H.
  - destruct (st_closed s). { inversion H; subst. apply rt_release_role. }
    destruct (st_role s =? old); [|discriminate]. inversion H; subst. reflexivity.
  - destruct (st_closed s). { inversion H; subst. apply rt_release_role. }
    destruct (st_role s =? old). { inversion H; subst. reflexivity. }
    pose proof (rt_release_role opt old (set_timer s false)) as R.
    destruct (release_role opt old (set_timer s false)) as [s1 out]. cbn [fst] in R. rt_norm.
    assert (RR : st_role s1 = Follower) by (apply rt_role in R; congruence).
    apply obind_inv in H. destruct H as (s2 & H2 & H).
    apply wbind_inv in H. destruct H as (s2' & o1 & w2 & HE & H & E).
    inversion HE; subst.
    unfold init_role in H2. rewrite RR in H2. cbn in H2. inversion H2; subst.
    apply IH in H; [|exact RR]. rewrite E, H. rt_norm. exact R.
Qed.

Lemma transition_same fuel opt old s w :
  st_role s = old -> transition fuel opt old s = Done w -> rt (fst w) = rt s /\ gr (fst w) = gr s.
Proof.
  intros HR H. destruct fuel; cbn [transition] in H.
  - destruct (st_closed s). { inversion H; subst. split; [apply rt_release_role | apply gr_release_role]. }
    rewrite HR, N.eqb_refl in H. inversion H; auto.
  - destruct (st_closed s). { inversion H; subst. split; [apply rt_release_role | apply gr_release_role]. }
    rewrite HR, N.eqb_refl in H. inversion H; auto.
Qed.

Lemma transition_quiet fuel opt s0 s w :
  quiet s0 s -> transition fuel opt (st_role s0) s = Done w -> quiet s0 (fst w).
Proof.
  intros [Q|Q] H.
  - pose proof (transition_follower _ _ _ _ _ Q H) as R. left. apply rt_role in R. congruence.
  - pose proof (rt_role _ _ Q) as RR. apply transition_same in H; [|exact RR]. destruct H as [R _].
    right. congruence.
Qed.

Lemma start_election_frame s s' :
  start_election s = Done s' ->
  st_role s' = st_role s /\ gr s' = gr s /\ is_voter (st_latest s) (st_nid s) = true.
Proof.
  intros H. pose proof (start_election_requires_voter _ _ H) as V.
  unfold start_election in H. rewrite V in H. cbn [negb] in H.
  apply obind_inv in H. destruct H as (s1 & H1 & H). inversion H; subst. clear H.
  pose proof (rt_set_voted_for _ _ _ _ H1) as R.
  unfold set_voted_for in H1. repeat inv1; (split; [reflexivity|]; split; [reflexivity | exact V]).
Qed.

Lemma transition_cand fuel : forall opt old s w,
  st_role s = Candidate -> is_voter (st_latest s) (st_nid s) = true ->
  transition fuel opt old s = Done w -> st_role (fst w) = Candidate /\ gr (fst w) = gr s.
Proof.
  induction fuel as [|f IH]; intros opt old s w HR HV H; cbn [transition] in H.
  - destruct (st_closed s).
    { inversion H; subst. split; [|apply gr_release_role].
      rewrite (rt_role _ _ (rt_release_role opt old s)). exact HR. }
    destruct (st_role s =? old); [|discriminate]. inversion H; subst. auto.
  - destruct (st_closed s).
    { inversion H; subst. split; [|apply gr_release_role].
      rewrite (rt_role _ _ (rt_release_role opt old s)). exact HR. }
    destruct (st_role s =? old). { inversion H; subst. auto. }
    pose proof (rt_release_role opt old (set_timer s false)) as R.
    pose proof (gr_release_role opt old (set_timer s false)) as G.
    destruct (release_role opt old (set_timer s false)) as [s1 out]. cbn [fst] in R, G. rt_norm. gr_norm.
    assert (RR : st_role s1 = Candidate) by (apply rt_role in R; congruence).
    apply obind_inv in H. destruct H as (s2 & H2 & H).
    apply wbind_inv in H. destruct H as (s2' & o1 & w2 & HE & H & E).
    inversion HE; subst.
    unfold init_role in H2. rewrite RR in H2. cbn in H2.
    apply start_election_frame in H2. destruct H2 as (R2 & G2 & _).
    apply IH in H.
    + destruct H as [A B]. rewrite E. split; [exact A | congruence].
    + congruence.
    + rewrite (voter_gr _ _ G2), (voter_gr _ _ G). exact HV.
Qed.

Lemma transition_new_leader fuel opt s w :
  st_role s = Leader -> transition fuel opt Candidate s = Done w ->
  st_role (fst w) = Follower \/ (st_role (fst w) = Leader /\ growp (gr s) (gr (fst w))).
Proof.
  intros HR H. destruct fuel as [|f]; cbn [transition] in H.
  - destruct (st_closed s).
    { inversion H; subst. right. split.
      + rewrite (rt_role _ _ (rt_release_role opt Candidate s)). exact HR.
      + rewrite gr_release_role. apply growp_refl. }
    rewrite HR in H. discriminate.
  - destruct (st_closed s).
    { inversion H; subst. right. split.
      + rewrite (rt_role _ _ (rt_release_role opt Candidate s)). exact HR.
      + rewrite gr_release_role. apply growp_refl. }
    rewrite HR in H. change (Leader =? Candidate) with false in H. cbv iota in H.
    pose proof (rt_release_role opt Candidate (set_timer s false)) as R.
    pose proof (gr_release_role opt Candidate (set_timer s false)) as G.
    destruct (release_role opt Candidate (set_timer s false)) as [s1 out]. cbn [fst] in R, G. rt_norm. gr_norm.
    assert (RR : st_role s1 = Leader) by (apply rt_role in R; congruence).
    apply obind_inv in H. destruct H as (s2 & H2 & H).
    apply wbind_inv in H. destruct H as (s2' & o1 & w2 & HE & H & E).
    inversion HE; subst. rewrite E. clear E HE.
    unfold init_role in H2. rewrite RR in H2. cbn in H2.
    pose proof (grow_leader_init _ _ _ H2) as G2.
    apply nr_leader_init in H2. apply (nr_quiet _ _ RR) in H2.
    rewrite RR in H. destruct H2 as [Q|Q].
    + left. pose proof (transition_follower _ _ _ _ _ Q H) as T. apply rt_role in T. congruence.
    + assert (Q2 : st_role s2' = Leader) by (apply rt_role in Q; congruence).
      apply transition_same in H; [|exact Q2]. destruct H as [T1 T2].
      right. split; [apply rt_role in T1; congruence|]. rewrite T2, <- G. exact G2.
Qed.

(* -------- what the handler of an event leaves behind, before the role change *)
Inductive cls (s s1 : nstate) : Prop :=
| cls_quiet : quiet s s1 -> cls s s1
| cls_cand : st_role s1 = Candidate -> is_voter (st_latest s1) (st_nid s1) = true -> cls s s1
| cls_leader : st_role s = Candidate -> st_role s1 = Leader -> gr s1 = gr s -> cls s s1.

Definition becomes_ok (s s' : nstate) : Prop :=
  is_voter (st_latest s') (st_nid s') = true \/
  (st_role s = Candidate /\ st_role s' = Leader /\ st_nid s' = st_nid s /\
   is_voter (st_latest s) (st_nid s) = true /\ st_lastidx s < c_index (st_latest s')).

Lemma cls_transition fuel opt s s1 s' out :
  cls s s1 -> transition fuel opt (st_role s) s1 = Done (s', out) ->
  (st_role s' = Candidate \/ st_role s' = Leader) ->
  (st_role s <> st_role s' \/ st_term s <> st_term s') ->
  (st_role s = Candidate -> is_voter (st_latest s) (st_nid s) = true) ->
  becomes_ok s s'.
Proof.
  intros C H HR HN HV. destruct C as [Q|C V|C L G].
  - exfalso. apply (transition_quiet _ _ _ _ _ Q) in H. cbn [fst] in H.
    eapply quiet_absurd; eassumption.
  - apply (transition_cand _ _ _ _ _ C V) in H. cbn [fst] in H. destruct H as [_ G].
    left. rewrite (voter_gr _ _ G). exact V.
  - rewrite C in H. apply (transition_new_leader _ _ _ _ L) in H. cbn [fst] in H.
    destruct H as [F|[L' G']].
    + exfalso. rewrite F in HR. destruct HR; discriminate.
    + rewrite G in G'. destruct G' as (N1 & _ & [N3|N3]); unfold gr in N1, N3; cbn [fst snd] in N1, N3.
      * left. rewrite N1, N3. exact (HV C).
      * right. repeat split; auto.
Qed.

Lemma cls_finish opt s code t last s1 out1 o s' :
  cls s s1 -> finish opt (st_role s) code t last (s1, out1) = Done (o, s') ->
  (st_role s' = Candidate \/ st_role s' = Leader) ->
  (st_role s <> st_role s' \/ st_term s <> st_term s') ->
  (st_role s = Candidate -> is_voter (st_latest s) (st_nid s) = true) ->
  becomes_ok s s'.
Proof.
  intros C H. apply finish_inv in H. destruct H as (out2 & H & _). cbn [fst] in H.
  eapply cls_transition; eassumption.
Qed.

Lemma cls_same_r s a b : rt b = rt a -> gr b = gr a -> cls s a -> cls s b.
Proof.
  intros R G [Q|C V|C L G'].
  - apply cls_quiet. eapply quiet_same_r; eassumption.
  - apply cls_cand; [apply rt_role in R; congruence | rewrite (voter_gr _ _ G); exact V].
  - apply cls_leader; [exact C | apply rt_role in R; congruence | congruence].
Qed.

Lemma cls_on_timeout_now_request s : cls s (snd (on_timeout_now_request s)).
Proof.
  unfold on_timeout_now_request. destruct (is_voter (st_latest s) (st_nid s)) eqn:E; cbn [negb snd].
  - apply cls_cand; [reflexivity | exact E].
  - apply cls_quiet, quiet_refl.
Qed.

Lemma cls_follower_on_timeout s : cls s (follower_on_timeout s).
Proof.
  unfold follower_on_timeout. destruct (can_start_election _) eqn:E.
  - apply can_start_election_voter in E. apply cls_cand; [reflexivity | exact E].
  - apply cls_quiet, quiet_same. reflexivity.
Qed.

Lemma cls_on_vote_result s t r s1 :
  st_role s = Candidate -> on_vote_result s t r = Done s1 -> cls s s1.
Proof.
  intros HR H. unfold on_vote_result in H.
  destruct (st_term s <? t).
  { apply obind_inv in H. destruct H as (s2 & H2 & H). inversion H; subst.
    apply rt_set_term in H2. apply cls_quiet. left. apply (f_equal fst) in H2. exact H2. }
  destruct (r =? success); [|inversion H; subst; apply cls_quiet, quiet_refl].
  destruct (_ =? 0)%Z; inversion H; subst.
  - apply cls_leader; [exact HR | reflexivity | reflexivity].
  - apply cls_quiet, quiet_same. reflexivity.
Qed.

Lemma find_node_same_nodes c c' id : c_nodes c' = c_nodes c -> cfg_node c' id = cfg_node c id.
Proof. unfold cfg_node. intros ->. reflexivity. Qed.

Lemma cls_bootstrap s tid c w : bootstrap s tid c = Done w -> cls s (fst w).
Proof.
  unfold bootstrap. intros H.
  destruct (is_bootstrapped _). { unfold wreply in H. inversion H. apply cls_quiet, quiet_refl. }
  destruct (negb (config_valid c)). { unfold wreply in H. inversion H. apply cls_quiet, quiet_refl. }
  destruct (cfg_node c (st_nid s)) as [me|] eqn:EN. 2:{ unfold wreply in H. inversion H. apply cls_quiet, quiet_refl. }
  destruct (n_voter me) eqn:EV; cbn [negb] in H. 2:{ unfold wreply in H. inversion H. apply cls_quiet, quiet_refl. }
  destruct (negb (is_stable c)). { unfold wreply in H. inversion H. apply cls_quiet, quiet_refl. }
  apply obind_inv in H. destruct H as (s1 & H1 & H).
  apply obind_inv in H. destruct H as (s2 & H2 & H).
  unfold wreply, wret, wbind in H. inversion H; subst. clear H. cbn [fst].
  assert (N2 : st_nid s2 = st_nid s).
  { unfold set_term in H2. unfold append_entry in H1. repeat inv1; reflexivity. }
  apply cls_cand; [reflexivity|].
  rewrite (voter_gr _ _ (gr_set_role _ _)).
  set (x := set_log s2 (st_logprev s2) (st_log s2) 1 1).
  set (c1 := mkConfig (c_nodes c) 1 1).
  assert (L : st_latest (change_config x c1) = c1 /\ st_nid (change_config x c1) = st_nid s).
  { unfold change_config. destruct (_ && _); split; try reflexivity; exact N2. }
  destruct L as [L1 L2]. rewrite L1, L2.
  unfold is_voter, cfg_node, c1. cbn [c_nodes]. unfold cfg_node in EN. rewrite EN. exact EV.
Qed.

Lemma rt_on_take_snapshot s tid th w : on_take_snapshot s tid th = Done w -> rt (fst w) = rt s.
Proof. unfold on_take_snapshot. intros H. repeat inv1; rt_norm; reflexivity. Qed.
Lemma rt_snapshot_run s s' : snapshot_run s = Done s' -> rt s' = rt s.
Proof. unfold snapshot_run. intros H. repeat inv1; rt_norm; reflexivity. Qed.
Lemma rt_on_snapshot_taken opt s w : on_snapshot_taken opt s = Done w -> rt (fst w) = rt s.
Proof. unfold on_snapshot_taken. intros H. gor; rt_norm; try congruence; reflexivity. Qed.
Lemma rt_restart s k s' : restart s k = Done s' -> st_role s' = Follower.
Proof.
  unfold restart. intros H. cbv zeta in H.
  destruct (negb _) in H; [discriminate|].
  destruct (log_lastindex _ <? st_snapidx _) in H; repeat inv1; reflexivity.
Qed.

Lemma cls_node_task s t w : node_task s t = Done w -> cls s (fst w).
Proof.
  destruct t; cbn [node_task]; intros H.
  - unfold nonleader_client in H. inversion H; subst. apply cls_quiet, quiet_refl.
  - apply cls_bootstrap in H. exact H.
  - unfold wreply in H. inversion H; subst. apply cls_quiet, quiet_refl.
  - unfold wreply in H. inversion H; subst. apply cls_quiet, quiet_refl.
  - apply rt_on_take_snapshot in H. apply cls_quiet, quiet_same. exact H.
  - unfold wret in H. inversion H; subst. apply cls_quiet, quiet_same. reflexivity.
Qed.

(* REPAIRED: the original conclusion was only the first alternative.  A candidate that wins its election
   runs leader.init inside the same step; init may append a configuration (at an index above everything the
   node held before the step) in which the new leader is no voter -- it keeps leading until that
   configuration commits (demoted_leader_steps_down_on_commit). *)
Lemma new_candidate_or_leader_is_voter :
  forall opt s ev o s', model_event opt s ev = Done (o, s') ->
    (st_role s' = Candidate \/ st_role s' = Leader) ->
    (st_role s <> st_role s' \/ st_term s <> st_term s') ->
    (st_role s = Candidate -> is_voter (st_latest s) (st_nid s) = true) ->
    is_voter (st_latest s') (st_nid s') = true \/
    (st_role s = Candidate /\ st_role s' = Leader /\ st_nid s' = st_nid s /\
     is_voter (st_latest s) (st_nid s) = true /\ st_lastidx s < c_index (st_latest s')).
Proof.
  intros opt s ev o s' H HR HN HV. change (becomes_ok s s').
  destruct ev; cbn [model_event] in H.
  - (* vote request *)
    apply obind_inv in H. destruct H as ([code s1] & H1 & H).
    apply quiet_on_vote_request in H1.
    eapply cls_finish; [|exact H|assumption..].
    apply cls_quiet. eapply quiet_same_r; [apply rt_after_rpc | exact H1].
  - (* append request *)
    apply obind_inv in H. destruct H as ([code s1] & H1 & H).
    apply quiet_on_append_request in H1.
    destruct (code =? unexpectedErr); [discriminate|].
    eapply cls_finish; [|exact H|assumption..].
    apply cls_quiet. eapply quiet_same_r; [apply rt_after_rpc | exact H1].
  - (* append request cut short *)
    apply obind_inv in H. destruct H as ([code s1] & H1 & H).
    apply quiet_on_append_request in H1.
    destruct (code =? unexpectedErr); [discriminate|].
    eapply cls_finish; [|exact H|assumption..].
    apply cls_quiet. eapply quiet_same_r; [apply rt_after_rpc | exact H1].
  - (* install snapshot *)
    apply obind_inv in H. destruct H as ([code s1] & H1 & H).
    apply quiet_on_install_snap_request in H1.
    eapply cls_finish; [|exact H|assumption..].
    apply cls_quiet. eapply quiet_same_r; [apply rt_after_rpc | exact H1].
  - (* timeout now *)
    pose proof (cls_on_timeout_now_request s) as C.
    destruct (on_timeout_now_request s) as [code s1]. cbn [snd] in C.
    eapply cls_finish; [|exact H|assumption..].
    eapply cls_same_r; [apply rt_after_rpc | apply gr_after_rpc | exact C].
  - (* timeout *)
    apply obind_inv in H. destruct H as (s1 & H1 & H).
    eapply cls_finish; [|exact H|assumption..].
    destruct (st_role s =? Follower). { inversion H1; subst. apply cls_follower_on_timeout. }
    destruct (st_role s =? Candidate) eqn:EC.
    { apply N.eqb_eq in EC. apply start_election_frame in H1. destruct H1 as (R & G & V).
      apply cls_cand; [|rewrite (voter_gr _ _ G); exact V].
      rewrite R. exact EC. }
    unfold leader_on_timeout in H1. apply quiet_check_quorum in H1.
    apply cls_quiet. eapply quiet_trans; [|exact H1]. apply quiet_same. reflexivity.
  - (* vote result *)
    destruct (st_role s =? Candidate) eqn:EC.
    + apply N.eqb_eq in EC.
      apply obind_inv in H. destruct H as (s1 & H1 & H).
      eapply cls_finish; [|exact H|assumption..].
      eapply cls_on_vote_result; eassumption.
    + inversion H; subst. exfalso. eapply quiet_absurd; [apply quiet_refl | eassumption..].
  - (* disconnected *)
    inversion H; subst. exfalso. eapply quiet_absurd; [|eassumption..].
    apply quiet_same. rt_norm. reflexivity.
  - (* restart *)
    apply obind_inv in H. destruct H as (s1 & H1 & H). inversion H; subst.
    apply rt_restart in H1. exfalso. eapply quiet_absurd; [|eassumption..]. left. exact H1.
  - (* leader event *)
    destruct (st_role s =? Leader) eqn:EL.
    + apply N.eqb_eq in EL.
      apply obind_inv in H. destruct H as ([s1 out1] & H1 & H).
      apply (quiet_leader_event_out _ _ _ _ EL) in H1. cbn [fst] in H1.
      eapply cls_finish; [|exact H|assumption..]. apply cls_quiet. exact H1.
    + inversion H; subst. exfalso. eapply quiet_absurd; [apply quiet_refl | eassumption..].
  - (* task *)
    apply obind_inv in H. destruct H as ([s1 out] & H1 & H).
    apply cls_node_task in H1. cbn [fst] in H1.
    eapply cls_finish; [|exact H|assumption..].
    eapply cls_same_r; [| |exact H1]; destruct (_ && _ && _); try reflexivity;
      [apply rt_follower_reset_timer | apply gr_follower_reset_timer].
  - (* snapshot goroutine *)
    apply obind_inv in H. destruct H as (s1 & H1 & H). inversion H; subst.
    apply rt_snapshot_run in H1. exfalso. eapply quiet_absurd; [|eassumption..]. apply quiet_same. exact H1.
  - (* snapshot taken *)
    apply obind_inv in H. destruct H as ([s1 out1] & H1 & H).
    apply rt_on_snapshot_taken in H1. cbn [fst] in H1.
    eapply cls_finish; [|exact H|assumption..]. apply cls_quiet, quiet_same. exact H1.
Qed.

(* ---------------------------------------------------------------- the statements as first written are refutable *)
Module Refutations.
Definition opt0 := mkOptions false false false 0 0 [].
Definition rp0 (id m : N) := mkRepl id m false true 0 None 0 m (m+1) m 0 true 0 None.

(* two nodes with the same id, the first one no voter: [is_voter] says "no voter" for every id, yet the
   second node's match index decides the commit point *)
Definition c1 := mkConfig [mkNode 5 [1] false [] 0; mkNode 5 [2] true [] 0] 1 1.
Definition s1 := (fresh_node 1 1) <| st_latest := c1 |> <| st_lastidx := 10 |>.
Definition l1 (m : N) := mkLdr true false 2 1 [] [rp0 5 m] false 0 0 false false 0 [] 0.

Lemma nonvoter_acks_do_not_count_original_false :
  ~ (forall s l l',
      ld_numvoters l = ld_numvoters l' -> ld_voter l = ld_voter l' ->
      (forall id, is_voter (st_latest s) id = true -> id <> st_nid s ->
          option_map rp_match (find_repl id (ld_repls l)) = option_map rp_match (find_repl id (ld_repls l'))) ->
      majority_match s l = majority_match s l').
Proof.
  intros H. specialize (H s1 (l1 7) (l1 9) eq_refl eq_refl).
  assert (X : majority_match s1 (l1 7) = majority_match s1 (l1 9)).
  { apply H. intros id Hv _. exfalso. unfold is_voter, cfg_node in Hv.
    change (st_latest s1) with c1 in Hv. unfold c1 in Hv. cbn [c_nodes find_node n_id n_voter] in Hv.
    destruct (5 =? id); discriminate. }
  vm_compute in X. discriminate.
Qed.

(* a candidate that is the only voter and carries a pending demotion (a configuration that
   Config.validate rejects): it wins, and leader.init -- which commits at once in a single-voter
   cluster -- appends the configuration that demotes it; the step ends with a leader that is no voter *)
Definition me2 := mkNode 1 [1] true [] ActDemote.
Definition c2 := mkConfig [me2] 1 1.
Definition e2 := mkEntry 1 1 entryConfig (enc_config_data [me2]).
Definition s2 := mkNode_ 1 1 2 1 0 [e2] 1 1 1 0 0 empty_config c2 c2
          Candidate 0 1 true false None false 1 1 false 1%Z false None.

Lemma new_candidate_or_leader_is_voter_original_false :
  ~ (forall opt s ev o s', model_event opt s ev = Done (o, s') ->
      (st_role s' = Candidate \/ st_role s' = Leader) ->
      (st_role s <> st_role s' \/ st_term s <> st_term s') ->
      (st_role s = Candidate -> is_voter (st_latest s) (st_nid s) = true) ->
      is_voter (st_latest s') (st_nid s') = true).
Proof.
  intros H.
  destruct (model_event opt0 s2 (EVoteResult 2 success)) as [[o s']|] eqn:E; [|vm_compute in E; discriminate].
  specialize (H _ _ _ _ _ E).
  vm_compute in E. injection E as _ E. subst s'.
  assert (X : true = false); [|discriminate].
  symmetry. apply H; [right; reflexivity | left; discriminate | intros _; reflexivity].
Qed.
End Refutations.
