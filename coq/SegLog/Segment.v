(* Byte-level executable model of one log segment file (/repo/log/segment.go).

   The file is [Data : []byte] of fixed length cap.  Entry bytes are copied
   upwards from Data[0]; a table of 8-byte little-endian slots grows DOWN from
   the end of the file:

       at(i) = cap - 8*i - 8            position of slot i
       slot 0      = number of entries covered by the last completed sync
       slot k>=1   = offset in Data where entry k starts (= where entry k-1 ends)
       entry k     = Data[slot k .. slot (k+1))

   One Gallina function per Go method.  Positions and lengths inside the file
   are [nat]; values stored in slots are [N].  No proofs here (see
   SegmentProofs.v).  Not modelled: mmap, msync, the file system (SegLog/Crash*.v
   treat flush ordering at the entry level). *)
From Coq Require Import List NArith ZArith Bool PeanoNat.
From Verif Require Import Base.Bytes.
Import ListNotations.
Local Open Scope nat_scope.

Record bseg := mkB {
  b_data : bytes;     (* file.Data: the whole mapped file *)
  b_n : nat;          (* segment.n: number of entries *)
  b_size : nat        (* segment.size: end of the last entry = slot (n+1) *)
}.
(* segment.synced only drives dirty(); it never influences a byte written and
   is kept at the entry level (Log.s_synced). *)

Definition b_cap (s : bseg) : nat := length (b_data s).

(* ------------------------------------------------------------- raw slicing *)

(* Data[p : p+k] (shorter if the list ends first) *)
Definition slice (l : bytes) (p k : nat) : bytes := firstn k (skipn p l).

(* overwrite [length new] bytes at position p; meaningful when it fits *)
Definition write (l : bytes) (p : nat) (new : bytes) : bytes :=
  firstn p l ++ new ++ skipn (p + length new) l.

(* Go's copy(Data[p:], new): copies min(len(Data)-p, len(new)) bytes, never
   grows Data.  (For p > len(Data) Go panics; here Data is returned unchanged.) *)
Definition copy_at (l : bytes) (p : nat) (new : bytes) : bytes :=
  firstn (length l) (write l p new).

(* ------------------------------------------------------------------ slots *)

(* at(i) with truncated subtraction; only meaningful under the guard of [b_at] *)
Definition b_pos (cap i : nat) : nat := cap - 8 * i - 8.

(* at(i): None when cap - 8i - 8 would be negative (Go: slice bounds panic
   at the use site) *)
Definition b_at (cap i : nat) : option nat :=
  if 8 * i + 8 <=? cap then Some (b_pos cap i) else None.

(* slot i of a raw file image *)
Definition slot (data : bytes) (i : nat) : option N :=
  match b_at (length data) i with
  | Some p => Some (le_dec (slice data p 8))
  | None => None
  end.

Definition set_slot (data : bytes) (v : N) (i : nat) : bytes :=
  match b_at (length data) i with
  | Some p => write data p (le_enc 8 v)     (* PutUint64: v mod 2^64 *)
  | None => data                            (* Go panics *)
  end.

(* segment.offset(i) *)
Definition b_offset (s : bseg) (i : nat) : option N := slot (b_data s) i.

(* segment.setOffset(v, i) *)
Definition b_set_offset (s : bseg) (v : N) (i : nat) : bseg :=
  mkB (set_slot (b_data s) v i) (b_n s) (b_size s).

(* a slot value used as a position: None when it points outside the file
   (never converts a garbage 64-bit value to nat) *)
Definition to_pos (cap : nat) (v : N) : option nat :=
  if (v <=? N.of_nat cap)%N then Some (N.to_nat v) else None.

(* ------------------------------------------------------------- operations *)

(* segment.available() = at(n+2) - size, a Go int (may be negative) *)
Definition b_available (s : bseg) : Z :=
  (Z.of_nat (b_cap s) - 8 * (Z.of_nat (b_n s) + 2) - 8 - Z.of_nat (b_size s))%Z.

(* segment.append(b) *)
Definition b_append (s : bseg) (bs : bytes) : bseg :=
  let data1 := copy_at (b_data s) (b_size s) bs in
  let size' := b_size s + length bs in
  mkB (set_slot data1 (N.of_nat size') (b_n s + 2)) (b_n s + 1) size'.

(* segment.get(prevIndex+i, k): i is 1-based within the segment.
   None where Go panics: i = 0 ("i<=prevIndex"), a slot outside the file, or
   Data[from:to] with from > to or to > len(Data). *)
Definition b_get (s : bseg) (i k : nat) : option bytes :=
  if i =? 0 then None else
  match b_offset s i, b_offset s (i + k) with
  | Some from, Some to =>
      if ((from <=? to) && (to <=? N.of_nat (b_cap s)))%N
      then Some (slice (b_data s) (N.to_nat from) (N.to_nat to - N.to_nat from))
      else None
  | _, _ => None
  end.

(* segment.removeGTE(prevIndex+n'+1) before its final sync(): keep n' entries.
   The header is lowered at once; entry bytes and higher slots stay behind as
   garbage.  (A size slot pointing outside the file is read as 0; it cannot
   happen from a state related by R.) *)
Definition b_remove_gte (s : bseg) (n' : nat) : bseg :=
  if n' <? b_n s then
    let data1 := set_slot (b_data s) (N.of_nat n') 0 in
    let size' := match slot data1 (n' + 1) with
                 | Some v => match to_pos (length data1) v with Some p => p | None => 0 end
                 | None => 0
                 end in
    mkB data1 n' size'
  else s.

(* the setOffset(n, 0) step of segment.sync() (between the two flushes) *)
Definition b_sync_header (s : bseg) : bseg := b_set_offset s (N.of_nat (b_n s)) 0.

(* openSegment on an existing file: n := offset(0); size := offset(n+1).
   None if the file is shorter than 16 bytes or a slot points outside it. *)
Definition b_open (data : bytes) : option bseg :=
  let cap := length data in
  if cap <? 16 then None else
  match slot data 0 with
  | Some h =>
      if (8 * h + 16 <=? N.of_nat cap)%N then
        let n := N.to_nat h in
        match slot data (n + 1) with
        | Some v => match to_pos cap v with
                    | Some sz => Some (mkB data n sz)
                    | None => None
                    end
        | None => None
        end
      else None
  | None => None
  end.

(* createSegment: a zero-filled file of the given size *)
Definition b_fresh (cap : nat) : bseg := mkB (repeat 0%N cap) 0 0.

(* ------------------------------------------- file image vs. entry list *)

Fixpoint list_N_eqb (a b : list N) : bool :=
  match a, b with
  | [], [] => true
  | x :: a', y :: b' => (x =? y)%N && list_N_eqb a' b'
  | _, _ => false
  end.

(* m consecutive 8-byte little-endian words *)
Fixpoint decn (m : nat) (l : bytes) : list N :=
  match m with
  | O => []
  | S m' => le_dec (firstn 8 l) :: decn m' (skipn 8 l)
  end.

(* acc, acc+|e1|, acc+|e1|+|e2|, ... : the values of slots 1 .. n+1 *)
Fixpoint offs (acc : N) (ents : list bytes) : list N :=
  acc :: match ents with
         | [] => []
         | e :: r => offs (acc + N.of_nat (length e)) r
         end.

(* [data] is a correct image of the entry list [ents] with on-disk header
   [hdr]: length = cap; the table fits above the entry bytes; read from the
   end of the file backwards the table is hdr, 0, |e1|, |e1|+|e2|, ...;
   Data[0..size) = concat ents.  The gap between the entry bytes and slot n+1
   (old entries, old slots) is unconstrained.  Linear in the file size. *)
Definition b_matches (data : bytes) (cap : N) (ents : list bytes) (hdr : N) : bool :=
  let n := length ents in
  let body := concat ents in
  let size := length body in
  let len := length data in
  (N.of_nat len =? cap)%N &&
  (8 * (n + 2) + size <=? len) &&
  list_N_eqb (decn (n + 2) (skipn (len - 8 * (n + 2)) data))
             (rev_append (hdr :: offs 0%N ents) []) &&
  list_N_eqb (firstn size data) body.

(* every element is a byte *)
Definition b_wf_data (data : bytes) : bool := forallb (fun b => (b <? 256)%N) data.

Definition b_matches_wf (data : bytes) (cap : N) (ents : list bytes) (hdr : N) : bool :=
  b_matches data cap ents hdr && b_wf_data data.
