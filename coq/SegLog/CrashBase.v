(* Crash consistency of the segmented log, part 1: disks, file descriptors, the effect of
   each file-system primitive on a described disk, and what recovery makes of the image
   of a described disk. *)
From Coq Require Import List NArith ZArith Bool Lia ZifyN ZifyNat ZifyBool.
From Verif Require Import Base.Bytes SegLog.Log SegLog.Spec SegLog.Chain SegLog.Reads SegLog.Ops SegLog.Crash.
Import ListNotations.
Open Scope N_scope.

(* ------------------------------------------------------------ keyed lists *)

Definition keys (d : disk) : list N := map fst d.

Lemma keys_app a b : keys (a ++ b) = keys a ++ keys b.
Proof. apply map_app. Qed.

Lemma dget_notin k d : ~ In k (keys d) -> dget k d = None.
Proof.
  induction d as [|[k' f] r IH]; simpl; [reflexivity|]. intro H.
  destruct (k' =? k) eqn:E; [exfalso; apply H; left; lia|]. apply IH. tauto.
Qed.

Lemma dget_mid k f a b : ~ In k (keys a) -> dget k (a ++ (k, f) :: b) = Some f.
Proof.
  induction a as [|[k' f'] r IH]; simpl; intro H.
  - now rewrite N.eqb_refl.
  - destruct (k' =? k) eqn:E; [exfalso; apply H; left; lia|]. apply IH. tauto.
Qed.

Lemma dset_mid k f f' a b : ~ In k (keys a) -> dset k f' (a ++ (k, f) :: b) = a ++ (k, f') :: b.
Proof.
  induction a as [|[k' f0] r IH]; simpl; intro H.
  - now rewrite N.eqb_refl.
  - destruct (k' =? k) eqn:E; [exfalso; apply H; left; lia|]. f_equal. apply IH. tauto.
Qed.

Lemma dset_notin k f d : ~ In k (keys d) -> dset k f d = d ++ [(k, f)].
Proof.
  induction d as [|[k' f0] r IH]; simpl; intro H; [reflexivity|].
  destruct (k' =? k) eqn:E; [exfalso; apply H; left; lia|]. f_equal. apply IH. tauto.
Qed.

Lemma ddel_notin k d : ~ In k (keys d) -> ddel k d = d.
Proof.
  induction d as [|[k' f0] r IH]; simpl; intro H; [reflexivity|].
  destruct (k' =? k) eqn:E; [exfalso; apply H; left; lia|]. simpl. f_equal. apply IH. tauto.
Qed.

Lemma ddel_mid k f a b : ~ In k (keys a) -> ~ In k (keys b) -> ddel k (a ++ (k, f) :: b) = a ++ b.
Proof.
  intros Ha Hb. unfold ddel. rewrite filter_app. simpl. rewrite N.eqb_refl. simpl.
  fold (ddel k a). fold (ddel k b). now rewrite !ddel_notin.
Qed.

Lemma dupd_mid k g f a b : ~ In k (keys a) -> dupd k g (a ++ (k, f) :: b) = a ++ (k, g f) :: b.
Proof. intro H. unfold dupd. rewrite dget_mid by exact H. now apply dset_mid. Qed.

Lemma dget_in_nodup k f d : NoDup (keys d) -> In (k, f) d -> dget k d = Some f.
Proof.
  intros Hnd Hin. apply in_split in Hin. destruct Hin as [a [b E]]. subst d.
  apply dget_mid. rewrite keys_app in Hnd. simpl in Hnd.
  apply NoDup_remove_2 in Hnd. intro X. apply Hnd. apply in_or_app. now left.
Qed.

(* strictly increasing keys *)
Fixpoint incr (l : list N) : Prop :=
  match l with [] => True | x :: r => Forall (fun y => x < y) r /\ incr r end.

Lemma incr_nodup l : incr l -> NoDup l.
Proof.
  induction l as [|x r IH]; simpl; [constructor|]. intros [H1 H2]. constructor; [|auto].
  intro X. rewrite Forall_forall in H1. specialize (H1 x X). lia.
Qed.

Lemma incr_app a b : incr a -> incr b -> (forall x y, In x a -> In y b -> x < y) -> incr (a ++ b).
Proof.
  induction a as [|x a IH]; simpl; intros Ha Hb H; [exact Hb|].
  destruct Ha as [H1 H2]. split.
  - apply Forall_app. split; [exact H1|]. apply Forall_forall. intros y Hy. apply H; auto.
  - apply IH; auto.
Qed.

Lemma incr_app_l a b : incr (a ++ b) -> incr a.
Proof.
  induction a as [|x a IH]; simpl; [auto|]. intros [H1 H2]. split; [|auto].
  apply Forall_app in H1. tauto.
Qed.

Lemma incr_app_r a b : incr (a ++ b) -> incr b.
Proof. induction a as [|x a IH]; simpl; [auto|]. intros [_ H]. auto. Qed.

Lemma incr_app_lt a b x y : incr (a ++ b) -> In x a -> In y b -> x < y.
Proof.
  induction a as [|z a IH]; simpl; [tauto|]. intros [H1 H2] [E|Hx] Hy.
  - subst z. rewrite Forall_forall in H1. apply H1. apply in_or_app. now right.
  - eauto.
Qed.

Lemma sort_disk_sorted d : incr (keys d) -> sort_disk d = d.
Proof.
  induction d as [|p r IH]; simpl; [reflexivity|]. intros [H1 H2].
  rewrite (IH H2). destruct r as [|q r']; [reflexivity|]. simpl.
  inversion H1 as [|? ? Hq _]; subst. replace (fst p <? fst q) with true by lia. reflexivity.
Qed.

(* ------------------------------------------------------------ common prefix *)

Lemma bytes_self_eq (x : bytes) : forallb (fun p => fst p =? snd p) (combine x x) = true.
Proof. induction x as [|a x IH]; simpl; [reflexivity|]. now rewrite N.eqb_refl. Qed.

Lemma common_prefix_firstn n : forall a b,
  firstn n a = firstn n b -> (n <= length a)%nat -> (n <= length b)%nat ->
  firstn n (common_prefix a b) = firstn n a.
Proof.
  induction n as [|n IH]; intros a b H Ha Hb; [reflexivity|].
  destruct a as [|x a]; [simpl in Ha; lia|]. destruct b as [|y b]; [simpl in Hb; lia|].
  simpl in H. injection H as E1 E2. subst y. simpl common_prefix.
  rewrite N.eqb_refl, bytes_self_eq. simpl. f_equal. apply IH; simpl in *; auto; lia.
Qed.

Lemma firstn_length_ge {A} n (l l' : list A) : firstn n l = firstn n l' -> (n <= length l')%nat -> (n <= length l)%nat.
Proof.
  intros H Hl. assert (E : length (firstn n l) = length (firstn n l')) by now rewrite H.
  rewrite !firstn_length in E. lia.
Qed.

(* ------------------------------------------------------------ descriptors *)
(* What is known about one file: its name, the entries the page cache holds for certain, the
   header in the cache and on disk, and how many leading entries are the same on disk. *)
Record fdesc := mkD { d_key : N; d_E : list bytes; d_hm : N; d_hd : N; d_stab : nat; d_sized : bool }.

Definition fpair (d : fdesc) (fm fd : fimg) : Prop :=
  if d_sized d then
    f_sized fm = true /\ f_sized fd = true /\
    f_hdr fm = d_hm d /\ f_hdr fd = d_hd d /\
    firstn (length (d_E d)) (f_ents fm) = d_E d /\
    firstn (d_stab d) (f_ents fd) = firstn (d_stab d) (d_E d) /\
    (N.to_nat (d_hm d) <= d_stab d)%nat /\ (N.to_nat (d_hd d) <= d_stab d)%nat /\
    (d_stab d <= length (d_E d))%nat
  else fm = mkF false 0 0 [] /\ fd = mkF false 0 0 [] /\ d_E d = [] /\ d_hm d = 0 /\ d_hd d = 0 /\ d_stab d = 0%nat.

Definition desc (s : seg) (hm hd : N) (stab : nat) : fdesc := mkD (s_prev s) (s_ents s) hm hd stab true.
Definition exact (s : seg) : fdesc := desc s (s_n s) (s_n s) (length (s_ents s)).
Definition bound (s : seg) : fdesc :=
  desc s (Z.to_N (s_synced s)) (Z.to_N (s_synced s)) (Z.to_nat (s_synced s)).
Definition fresh (k : N) : fdesc := mkD k [] 0 0 0 false.
Definition sized0 (k : N) : fdesc := mkD k [] 0 0 0 true.

Inductive D3 : list fdesc -> disk -> disk -> Prop :=
| D3_nil : D3 [] [] []
| D3_cons d fm fd ds mem dur :
    fpair d fm fd -> D3 ds mem dur -> D3 (d :: ds) ((d_key d, fm) :: mem) ((d_key d, fd) :: dur).

Definition DS (ds : list fdesc) (c : cstate) : Prop := D3 ds (c_mem c) (c_dur c).
Definition dkeys (ds : list fdesc) : list N := map d_key ds.

Lemma D3_keys ds mem dur : D3 ds mem dur -> keys mem = dkeys ds /\ keys dur = dkeys ds.
Proof. induction 1 as [|d fm fd ds mem dur Hp H [IH1 IH2]]; simpl; [auto|]. now rewrite IH1, IH2. Qed.

Lemma D3_app P Q mP mQ dP dQ : D3 P mP dP -> D3 Q mQ dQ -> D3 (P ++ Q) (mP ++ mQ) (dP ++ dQ).
Proof. induction 1; simpl; [auto|]. intro HQ. constructor; auto. Qed.

Lemma D3_app_inv P : forall Q mem dur, D3 (P ++ Q) mem dur ->
  exists mP mQ dP dQ, mem = mP ++ mQ /\ dur = dP ++ dQ /\ D3 P mP dP /\ D3 Q mQ dQ.
Proof.
  induction P as [|d P IH]; simpl; intros Q mem dur H.
  - exists [], mem, [], dur. repeat split; auto. constructor.
  - inversion H as [|d' fm fd ds mem' dur' Hp H']; subst.
    destruct (IH _ _ _ H') as [mP [mQ [dP [dQ [E1 [E2 [H1 H2]]]]]]]. subst.
    exists ((d_key d, fm) :: mP), mQ, ((d_key d, fd) :: dP), dQ. repeat split; auto. constructor; auto.
Qed.

Lemma D3_mid_inv P d Q mem dur : D3 (P ++ d :: Q) mem dur ->
  exists mP mQ dP dQ fm fd, mem = mP ++ (d_key d, fm) :: mQ /\ dur = dP ++ (d_key d, fd) :: dQ /\
    D3 P mP dP /\ fpair d fm fd /\ D3 Q mQ dQ.
Proof.
  intro H. destruct (D3_app_inv _ _ _ _ H) as [mP [mQ [dP [dQ [E1 [E2 [H1 H2]]]]]]].
  inversion H2 as [|d' fm fd ds mem' dur' Hp H']; subst.
  exists mP, mem', dP, dur', fm, fd. repeat split; auto.
Qed.

Lemma D3_mid P d Q mP mQ dP dQ fm fd :
  D3 P mP dP -> fpair d fm fd -> D3 Q mQ dQ -> D3 (P ++ d :: Q) (mP ++ (d_key d, fm) :: mQ) (dP ++ (d_key d, fd) :: dQ).
Proof. intros H1 H2 H3. apply D3_app; [exact H1|]. constructor; auto. Qed.

Lemma D3_mid' P d Q mP mQ dP dQ fm fd k :
  D3 P mP dP -> fpair d fm fd -> D3 Q mQ dQ -> k = d_key d ->
  D3 (P ++ d :: Q) (mP ++ (k, fm) :: mQ) (dP ++ (k, fd) :: dQ).
Proof. intros H1 H2 H3 E. subst k. now apply D3_mid. Qed.

Lemma D3_nil_inv mem dur : D3 [] mem dur -> mem = [] /\ dur = [].
Proof. intro H; inversion H; auto. Qed.

Lemma dkeys_app a b : dkeys (a ++ b) = dkeys a ++ dkeys b.
Proof. apply map_app. Qed.

Lemma nodup_mid_l {A} (a : list A) x b : NoDup (a ++ x :: b) -> ~ In x a.
Proof. intros H X. apply NoDup_remove_2 in H. apply H. apply in_or_app. now left. Qed.
Lemma nodup_mid_r {A} (a : list A) x b : NoDup (a ++ x :: b) -> ~ In x b.
Proof. intros H X. apply NoDup_remove_2 in H. apply H. apply in_or_app. now right. Qed.

(* ---- the effect of each primitive *)

Ltac split_mid H :=
  let mP := fresh "mP" in let mQ := fresh "mQ" in let dP := fresh "dP" in let dQ := fresh "dQ" in
  let fm := fresh "fm" in let fd := fresh "fd" in
  let E1 := fresh "Em" in let E2 := fresh "Ed" in let H1 := fresh "HP" in let H2 := fresh "Hf" in let H3 := fresh "HQ" in
  destruct (D3_mid_inv _ _ _ _ _ H) as [mP [mQ [dP [dQ [fm [fd [E1 [E2 [H1 [H2 H3]]]]]]]]]].

Lemma prim_msync P d Q c :
  DS (P ++ d :: Q) c -> NoDup (dkeys P ++ d_key d :: dkeys Q) -> d_sized d = true ->
  DS (P ++ mkD (d_key d) (d_E d) (d_hm d) (d_hm d) (length (d_E d)) true :: Q) (apply_prim c (PMsync (d_key d))).
Proof.
  unfold DS. intros H Hnd Hs. split_mid H.
  destruct (D3_keys _ _ _ HP) as [K1 K2].
  pose proof (nodup_mid_l _ _ _ Hnd) as Hn.
  simpl. rewrite Em, dget_mid by (rewrite K1; exact Hn). simpl.
  rewrite Ed, dset_mid by (rewrite K2; exact Hn).
  apply D3_mid'; auto.
  unfold fpair in *. rewrite Hs in Hf. simpl.
  destruct Hf as [F1 [F2 [F3 [F4 [F5 [F6 [F7 [F8 F9]]]]]]]].
  repeat split; auto; try lia. rewrite firstn_all. exact F5.
Qed.

Lemma prim_hdr P d Q c n :
  DS (P ++ d :: Q) c -> NoDup (dkeys P ++ d_key d :: dkeys Q) -> d_sized d = true -> (N.to_nat n <= d_stab d)%nat ->
  DS (P ++ mkD (d_key d) (d_E d) n (d_hd d) (d_stab d) true :: Q) (apply_prim c (PStoreHeader (d_key d) n)).
Proof.
  unfold DS. intros H Hnd Hs Hn'. split_mid H.
  destruct (D3_keys _ _ _ HP) as [K1 K2].
  pose proof (nodup_mid_l _ _ _ Hnd) as Hn.
  simpl. rewrite Em, dupd_mid by (rewrite K1; exact Hn). rewrite Ed.
  apply D3_mid'; auto.
  unfold fpair in *. rewrite Hs in Hf. simpl. tauto.
Qed.

Lemma firstn_firstn_app_self {A} (E l : list A) (b : A) :
  firstn (length E) l = E -> firstn (length E) (firstn (length E) l ++ [b]) = E /\
  firstn (length (E ++ [b])) (firstn (length E) l ++ [b]) = E ++ [b].
Proof.
  intro H. rewrite H. split.
  - rewrite firstn_app, Nat.sub_diag, firstn_all. simpl. apply app_nil_r.
  - apply firstn_all.
Qed.

Lemma prim_store P d Q c b :
  DS (P ++ d :: Q) c -> NoDup (dkeys P ++ d_key d :: dkeys Q) -> d_sized d = true ->
  let c' := apply_prim c (PStoreEntry (d_key d) (length (d_E d)) b) in
  DS (P ++ d :: Q) c' /\ DS (P ++ mkD (d_key d) (d_E d ++ [b]) (d_hm d) (d_hd d) (d_stab d) true :: Q) c'.
Proof.
  unfold DS. intros H Hnd Hs. split_mid H.
  destruct (D3_keys _ _ _ HP) as [K1 K2].
  pose proof (nodup_mid_l _ _ _ Hnd) as Hn.
  simpl. rewrite Em, dupd_mid by (rewrite K1; exact Hn). rewrite Ed.
  unfold fpair in Hf. rewrite Hs in Hf.
  destruct Hf as [F1 [F2 [F3 [F4 [F5 [F6 [F7 [F8 F9]]]]]]]].
  destruct (firstn_firstn_app_self (d_E d) (f_ents fm) b F5) as [G1 G2].
  split.
  - apply D3_mid; auto. unfold fpair. rewrite Hs. simpl. tauto.
  - apply D3_mid'; auto. unfold fpair. simpl. repeat split; auto.
    + rewrite F6. symmetry. apply firstn_app_le. exact F9.
    + rewrite app_length. lia.
Qed.

Lemma prim_unlink P d Q c :
  DS (P ++ d :: Q) c -> NoDup (dkeys P ++ d_key d :: dkeys Q) -> DS (P ++ Q) (apply_prim c (PUnlink (d_key d))).
Proof.
  unfold DS. intros H Hnd. split_mid H.
  destruct (D3_keys _ _ _ HP) as [K1 K2]. destruct (D3_keys _ _ _ HQ) as [K3 K4].
  pose proof (nodup_mid_l _ _ _ Hnd) as Hn. pose proof (nodup_mid_r _ _ _ Hnd) as Hn2.
  simpl. rewrite Em, Ed, !ddel_mid by (rewrite ?K1, ?K2, ?K3, ?K4; assumption).
  apply D3_app; auto.
Qed.

Lemma prim_create ds c k :
  DS ds c -> ~ In k (dkeys ds) -> DS (ds ++ [fresh k]) (apply_prim c (PCreate k)).
Proof.
  unfold DS. intros H Hn. destruct (D3_keys _ _ _ H) as [K1 K2].
  simpl. rewrite dget_notin by (rewrite K1; exact Hn). simpl.
  rewrite !dset_notin by (rewrite ?K1, ?K2; exact Hn).
  apply D3_app; [exact H|]. change k with (d_key (fresh k)) at 1 3.
  constructor; [|constructor]. unfold fpair. simpl. tauto.
Qed.

Lemma prim_size P d Q c cap :
  DS (P ++ d :: Q) c -> NoDup (dkeys P ++ d_key d :: dkeys Q) -> d_sized d = false ->
  DS (P ++ sized0 (d_key d) :: Q) (apply_prim c (PSize (d_key d) cap)).
Proof.
  unfold DS. intros H Hnd Hs. split_mid H.
  destruct (D3_keys _ _ _ HP) as [K1 K2].
  pose proof (nodup_mid_l _ _ _ Hnd) as Hn.
  simpl. rewrite Em, Ed, !dupd_mid by (rewrite ?K1, ?K2; exact Hn).
  apply D3_mid'; auto.
  unfold fpair in Hf. rewrite Hs in Hf. destruct Hf as [F1 [F2 _]]. subst fm fd. simpl.
  unfold fpair. simpl. repeat split; auto.
Qed.

(* re-describing a file *)
Lemma D3_weaken ds ds' mem dur :
  Forall2 (fun d d' => d_key d = d_key d' /\ forall fm fd, fpair d fm fd -> fpair d' fm fd) ds ds' ->
  D3 ds mem dur -> D3 ds' mem dur.
Proof.
  intro F. revert mem dur. induction F as [|d d' ds ds' [Hk Hf] F IH]; intros mem dur H.
  - inversion H; constructor.
  - inversion H as [|d0 fm fd ds0 mem' dur' Hp H']; subst. rewrite Hk. constructor; auto.
Qed.

Lemma DS_weaken_mid P d d' Q c :
  d_key d = d_key d' -> (forall fm fd, fpair d fm fd -> fpair d' fm fd) ->
  DS (P ++ d :: Q) c -> DS (P ++ d' :: Q) c.
Proof.
  intros Hk Hf. apply D3_weaken. apply Forall2_app.
  - apply Forall2_refl. intro x. split; auto.
  - constructor; [split; auto|]. apply Forall2_refl. intro x. split; auto.
Qed.

Lemma fpair_shrink k E hm hd stab stab' fm fd :
  fpair (mkD k E hm hd stab true) fm fd ->
  (N.to_nat hm <= stab')%nat -> (N.to_nat hd <= stab')%nat -> (stab' <= stab)%nat ->
  fpair (mkD k (firstn stab' E) hm hd stab' true) fm fd.
Proof.
  unfold fpair. simpl. intros [F1 [F2 [F3 [F4 [F5 [F6 [F7 [F8 F9]]]]]]]] H1 H2 H3.
  assert (L : length (firstn stab' E) = stab') by (rewrite firstn_length; lia).
  repeat split; auto; try lia.
  - rewrite L. transitivity (firstn stab' (firstn (length E) (f_ents fm))); [|now rewrite F5].
    rewrite firstn_firstn. f_equal. lia.
  - rewrite firstn_firstn, Nat.min_id.
    transitivity (firstn stab' (firstn stab (f_ents fd))).
    + rewrite firstn_firstn. f_equal. lia.
    + rewrite F6, firstn_firstn. f_equal. lia.
Qed.
