(* C13: the segmented log refines an abstract sequence.  The statements here
   are verbatim those of Props/C13.v; the proofs live in Chain.v (chains, keys,
   abstraction algebra), Reads.v (Get/GetN), Ops.v (writer operations) and
   Views.v (views). *)
From Coq Require Import List NArith ZArith.
From Verif Require Import Base.Bytes SegLog.Log SegLog.Spec.
From Verif Require SegLog.Chain SegLog.Reads SegLog.Ops SegLog.Views.
Import ListNotations.
Open Scope N_scope.

Lemma log_refines_seq :
  forall segsize ops, wf_log (run (open_log segsize) ops) /\
    forall o, astep (abs (run (open_log segsize) ops)) o (abs (step (run (open_log segsize) ops) o)).
Proof. exact Ops.log_refines_seq. Qed.

Lemma append_outcome :
  forall l b, wf_log l ->
    match l_append l b with
    | (Ok _, l') => abs l' = mkALog (a_prev (abs l)) (a_ents (abs l) ++ [b])
    | (ErrExceeds, l') => l' = l /\ exists s, last_seg l = Some s /\ s_ents s = [] /\ (s_avail s < Z.of_N (blen b))%Z
    | _ => False
    end.
Proof. exact Ops.append_outcome. Qed.

Lemma reads_agree :
  forall l, wf_log l ->
    l_prev l = Ok (a_prev (abs l)) /\ l_last l = Ok (a_last (abs l)) /\
    h_count (handle_of l) = Ok (a_last (abs l) - a_prev (abs l)) /\
    (forall i, h_contains (handle_of l) i = Ok (a_contains (abs l) i)) /\
    (forall i, h_get (handle_of l) i =
       if a_last (abs l) <? i then Panic
       else match a_get (abs l) i with Some b => Ok b | None => ErrNotFound end).
Proof. exact Reads.reads_agree. Qed.

Lemma getn_concat :
  forall l i n, wf_log l -> 1 <= n -> a_prev (abs l) < i -> i + n - 1 <= a_last (abs l) -> i + n < two64 ->
    exists bufs, h_getn (handle_of l) i n = Ok bufs /\ concat bufs = concat (a_getn (abs l) i n).
Proof. exact Reads.getn_concat. Qed.

Lemma removelte_whole_segments :
  forall l i, wf_log l ->
    (exists front, l_segs (l_commit l) = front ++ l_segs (l_removelte l i)) /\
    l_canlte l i = Ok (a_prev (abs (l_removelte l i))).
Proof. exact Ops.removelte_whole_segments. Qed.

Lemma view_stable_under_append :
  forall l p q v bs, wf_log l -> l_viewat l p q = Ok (Some v) ->
    let l' := run l (map OAppend bs) in
    (forall i, p < i -> i <= q -> h_get (view_handle l' v) i = h_get (view_handle l v) i) /\
    (forall i n, 1 <= n -> p < i -> i + n - 1 <= q -> i + n < two64 ->
        h_getn (view_handle l' v) i n = h_getn (view_handle l v) i n).
Proof. exact Views.view_stable_under_append. Qed.

Lemma view_reads_log :
  forall l p q v i, wf_log l -> l_viewat l p q = Ok (Some v) -> p < i -> i <= q ->
    h_get (view_handle l v) i = h_get (handle_of l) i.
Proof. exact Views.view_reads_log. Qed.

(* non-vacuity: a log with two segments and a view across them *)
Lemma wf_example :
  let l := run (open_log 1024) [OAppend (repeat 7 600); OAppend (repeat 8 600); OAppend [1;2;3]] in
  wf_log l /\ length (l_segs l) = 2%nat /\ exists v, l_viewat l 0 3 = Ok (Some v).
Proof.
  intro l. split; [|split].
  - exact (proj1 (Ops.log_refines_seq 1024 _)).
  - vm_compute. reflexivity.
  - eexists. vm_compute. reflexivity.
Qed.
