(* Entry-level executable model of /repo/log (log.go, segment.go, util.go):
   a log is a chain of segments, each segment a file of fixed capacity holding
   a run of entries plus an offset table growing down from the end of the file.
   One Gallina function per Go method; Go panics are the [Panic] outcome.
   No proofs here. *)
From Coq Require Import List NArith ZArith Bool.
From Verif Require Import Base.Bytes.
Import ListNotations.
Open Scope N_scope.

Record seg := mkSeg {
  s_prev : N;              (* segment.prevIndex (also the file name <prev>.log) *)
  s_cap : N;               (* len(file.Data): size of the mapped file *)
  s_ents : list bytes;     (* entries prev+1 .. prev+n *)
  s_synced : Z             (* segment.synced: entries covered by the on-disk header; -1 after removeGTE *)
}.

Definition s_n (s : seg) : N := N.of_nat (length (s_ents s)).
Definition s_last (s : seg) : N := s_prev s + s_n s.                    (* lastIndex() *)
Definition s_size (s : seg) : N := N.of_nat (length (concat (s_ents s))). (* segment.size *)
(* available() = at(n+2) - size, at(i) = cap - 8i - 8 *)
Definition s_avail (s : seg) : Z :=
  (Z.of_N (s_cap s) - (Z.of_N (s_n s) + 2) * 8 - 8 - Z.of_N (s_size s))%Z.
Definition s_dirty (s : seg) : bool := (s_synced s <? Z.of_N (s_n s))%Z.
Definition s_sync (s : seg) : seg := mkSeg (s_prev s) (s_cap s) (s_ents s) (Z.of_N (s_n s)).
Definition new_seg (prev cap : N) : seg := mkSeg prev cap [] 0.

Record log := mkLog {
  l_segsize : N;           (* opt.SegmentSize (grows when an oversized entry is appended) *)
  l_segs : list seg        (* first .. last, oldest first; never empty for an open log *)
}.

Inductive res (A : Type) :=
| Ok (a : A)
| ErrNotFound
| ErrExceeds
| Panic.
Arguments Ok {A} a.
Arguments ErrNotFound {A}.
Arguments ErrExceeds {A}.
Arguments Panic {A}.

(* A handle is what a *Log value denotes for reading: the segments from
   l.first to l.last and, for a view, the fixed bounds l.index. *)
Record handle := mkHandle { h_segs : list seg; h_bounds : option (N * N) }.
Definition handle_of (l : log) : handle := mkHandle (l_segs l) None.

Definition h_prev (h : handle) : res N :=
  match h_bounds h with
  | Some (p, _) => Ok p
  | None => match h_segs h with s :: _ => Ok (s_prev s) | [] => Panic end
  end.
Definition h_last (h : handle) : res N :=
  match h_bounds h with
  | Some (_, l) => Ok l
  | None => match rev (h_segs h) with s :: _ => Ok (s_last s) | [] => Panic end
  end.

(* Log.segment(i): nil is [Ok None] *)
Definition h_segment (h : handle) (i : N) : res (option seg) :=
  match h_prev h, h_last h with
  | Ok p, Ok l =>
      if l <? i then Panic
      else if i <=? p then Ok None
      else Ok (find (fun s => s_prev s <? i) (rev (h_segs h)))
  | _, _ => Panic
  end.

(* segment.get(i, n): the bytes of entries i .. i+n-1 of this segment *)
Definition seg_get (s : seg) (i n : N) : res bytes :=
  if s_prev s <? i then
    let k := N.to_nat (i - s_prev s - 1) in
    if N.of_nat k + n <=? s_n s then Ok (concat (firstn (N.to_nat n) (skipn k (s_ents s))))
    else Panic      (* offsets beyond the table: slice bounds / garbage in Go *)
  else Panic.

Definition h_get (h : handle) (i : N) : res bytes :=
  match h_segment h i with
  | Ok None => ErrNotFound
  | Ok (Some s) => seg_get s i 1
  | _ => Panic
  end.

Definition h_contains (h : handle) (i : N) : res bool :=
  match h_prev h, h_last h with
  | Ok p, Ok l => Ok ((p <? i) && (i <=? l))
  | _, _ => Panic
  end.
Definition h_count (h : handle) : res N :=
  match h_prev h, h_last h with
  | Ok p, Ok l => Ok (l - p)
  | _, _ => Panic
  end.

(* the segments from s (by key) to the end of the handle *)
Fixpoint segs_from (key : N) (segs : list seg) : list seg :=
  match segs with
  | [] => []
  | s :: r => if s_prev s =? key then segs else segs_from key r
  end.

Fixpoint getn_loop (segs : list seg) (i n : N) : res (list bytes) :=
  if n =? 0 then Ok [] else
  match segs with
  | [] => Panic
  | [s] => match seg_get s i n with Ok b => Ok [b] | _ => Panic end
  | s :: r =>
      let sn := N.min (s_last s - (i - 1)) n in
      match seg_get s i sn, getn_loop r (i + sn) (n - sn) with
      | Ok b, Ok bs => Ok (b :: bs)
      | _, _ => Panic
      end
  end.

(* Log.GetN(i, n); i+(n-1) is uint64 arithmetic *)
Definition h_getn (h : handle) (i n : N) : res (list bytes) :=
  match h_last h with
  | Ok l =>
      if l <? (i + (n + two64 - 1) mod two64) mod two64 then Panic
      else match h_segment h i with
           | Ok None => ErrNotFound
           | Ok (Some s) => getn_loop (segs_from (s_prev s) (h_segs h)) i n
           | _ => Panic
           end
  | _ => Panic
  end.

(* ------------------------------------------------------------ writer side *)

Definition last_seg (l : log) : option seg :=
  match rev (l_segs l) with s :: _ => Some s | [] => None end.

Definition l_prev (l : log) : res N := h_prev (handle_of l).
Definition l_last (l : log) : res N := h_last (handle_of l).

(* CommitN(n): sync every dirty segment (from the last backwards, stopping at
   the first clean one) whose prevIndex < n *)
Fixpoint commitn_rev (n : N) (rsegs : list seg) : list seg :=
  match rsegs with
  | [] => []
  | s :: r =>
      if s_dirty s then
        (if n <=? s_prev s then s else s_sync s) :: commitn_rev n r
      else rsegs
  end.
Definition l_commitn (l : log) (n : N) : log :=
  mkLog (l_segsize l) (rev (commitn_rev n (rev (l_segs l)))).
Definition l_commit (l : log) : log :=
  match l_last l with Ok n => l_commitn l n | _ => l end.

Definition seg_append (s : seg) (b : bytes) : seg :=
  mkSeg (s_prev s) (s_cap s) (s_ents s ++ [b]) (s_synced s).

Definition blen (b : bytes) : N := N.of_nat (length b).

(* Log.Append *)
Definition l_append (l : log) (b : bytes) : res unit * log :=
  match last_seg l with
  | None => (Panic, l)
  | Some s =>
      if (s_avail s <? Z.of_N (blen b))%Z then
        if s_n s =? 0 then (ErrExceeds, l)
        else
          let sz := if (Z.of_N (l_segsize l) - 24 <? Z.of_N (blen b))%Z then blen b + 24 else l_segsize l in
          let l1 := l_commit l in
          (Ok tt, mkLog sz (l_segs l1 ++ [seg_append (new_seg (s_last s) sz) b]))
      else
        (Ok tt, mkLog (l_segsize l) (removelast (l_segs l) ++ [seg_append s b]))
  end.

(* CanLTE / RemoveLTE walk from the first segment while it is not the last,
   is non-empty and ends at or before i *)
Fixpoint drop_lte (i : N) (segs : list seg) : list seg :=
  match segs with
  | s :: ((_ :: _) as r) =>
      if (0 <? s_n s) && (s_last s <=? i) then drop_lte i r else segs
  | _ => segs
  end.
Definition l_canlte (l : log) (i : N) : res N :=
  match drop_lte i (l_segs l) with s :: _ => Ok (s_prev s) | [] => Panic end.
Definition l_removelte (l : log) (i : N) : log :=
  let l1 := l_commit l in mkLog (l_segsize l1) (drop_lte i (l_segs l1)).

(* segment.removeGTE(i): keep entries < i; synced becomes -1 when something is
   dropped, then sync() *)
Definition seg_removegte (s : seg) (i : N) : seg :=
  let n := i - s_prev s - 1 in
  if n <? s_n s then s_sync (mkSeg (s_prev s) (s_cap s) (firstn (N.to_nat n) (s_ents s)) (-1))
  else s_sync s.

(* Log.RemoveGTE on the reversed segment list (last first) *)
Fixpoint removegte_rev (segsize : N) (i : N) (rsegs : list seg) : list seg :=
  match rsegs with
  | [] => [new_seg (if 0 <? i then i - 1 else i) segsize]       (* l.last == nil: fresh segment at i-1 *)
  | s :: r =>
      if i <=? s_prev s + 1 then
        match r with
        | [] => if i =? s_prev s + 1 then [seg_removegte s (s_prev s + 1)]
                else removegte_rev segsize i r
        | _ => removegte_rev segsize i r
        end
      else
        seg_removegte s (if s_last s <? i then s_last s + 1 else i) :: r
  end.
Definition l_removegte (l : log) (i : N) : log :=
  let l1 := l_commit l in
  mkLog (l_segsize l1) (rev (removegte_rev (l_segsize l1) i (rev (l_segs l1)))).

(* Log.Reset(lastIndex) *)
Definition l_reset (l : log) (i : N) : log :=
  mkLog (l_segsize l) [new_seg i (l_segsize l)].

(* Close then Open with option segsize0 (no crash: Close commits everything);
   openSegments keeps the chain of contiguous files *)
Definition l_reopen (l : log) (segsize0 : N) : log :=
  mkLog segsize0 (map s_sync (l_segs l)).

(* ------------------------------------------------------------ views *)
(* ViewAt(prev, last): bounds plus the keys of the first and last segment the
   view points to; [Ok None] is the nil view *)
Record view := mkView { v_prev : N; v_last : N; v_first : N; v_lastseg : option N }.

Definition l_viewat (l : log) (p q : N) : res (option view) :=
  match l_prev l, l_last l with
  | Ok lp, Ok ll =>
      if ll <? q then Panic
      else if (q <? p) || (p <? lp) then Ok None
      else
        match find (fun s => s_prev s <=? p) (rev (l_segs l)), h_segment (handle_of l) q with
        | Some f, Ok ls => Ok (Some (mkView p q (s_prev f) (option_map s_prev ls)))
        | _, _ => Panic
        end
  | _, _ => Panic
  end.

(* the segments a view reaches through its pointers, read in the CURRENT state
   of the log (the view shares the *segment values with the writer) *)
Fixpoint segs_upto (key : N) (segs : list seg) : list seg :=
  match segs with
  | [] => []
  | s :: r => if s_prev s =? key then [s] else s :: segs_upto key r
  end.
Definition view_handle (l : log) (v : view) : handle :=
  match v_lastseg v with
  | Some k => mkHandle (segs_upto k (segs_from (v_first v) (l_segs l))) (Some (v_prev v, v_last v))
  | None => mkHandle [] (Some (v_prev v, v_last v))
  end.
