(* Crash consistency of the segmented log, part 3 (main file): the coupling invariant between the entry-level
   log and the two disk images at operation boundaries, and, operation by operation, the shape of
   the disk after every prefix of the primitives the operation issues. *)
From Coq Require Import List NArith ZArith Bool Lia ZifyN ZifyNat ZifyBool.
From Verif Require Import Base.Bytes SegLog.Log SegLog.Spec SegLog.Chain SegLog.Reads SegLog.Ops SegLog.Crash
  SegLog.CrashBase SegLog.CrashRecover.
Import ListNotations.
Open Scope N_scope.
Local Opaque apply_prim.

(* ------------------------------------------------------------ flushed index *)
(* the highest index such that every entry up to it is covered by a completed sync: walk from the
   first segment; a fully synced segment that is not the last hands over to its successor *)
Fixpoint flushed_segs (segs : list seg) : N :=
  match segs with
  | [] => 0
  | s :: r =>
      if s_dirty s then s_prev s + Z.to_N (Z.max 0 (s_synced s))
      else match r with [] => s_last s | _ => flushed_segs r end
  end.
Definition flushed_index (l : log) : N := flushed_segs (l_segs l).

Definition sync_ok (s : seg) : Prop := (0 <= s_synced s <= Z.of_N (s_n s))%Z.
Definition clean (s : seg) : Prop := s_dirty s = false /\ sync_ok s.

Lemma clean_sync_id s : clean s -> s_sync s = s.
Proof.
  destruct s as [p cp e sy]. unfold clean, s_dirty, sync_ok, s_sync, s_n. simpl. intros [H1 H2]. f_equal. lia.
Qed.
Lemma clean_sync x : clean (s_sync x).
Proof. unfold clean, s_dirty, sync_ok, s_sync, s_n. simpl. split; lia. Qed.
Lemma bound_clean s : clean s -> bound s = exact s.
Proof.
  unfold clean, s_dirty, sync_ok, bound, exact, desc, s_n. intros [H1 H2]. f_equal; lia.
Qed.
Lemma bound_sync s : bound (s_sync s) = exact s.
Proof. unfold bound, exact, desc, s_sync, s_n. simpl. f_equal; lia. Qed.
Lemma map_bound_clean A : Forall clean A -> map bound A = map exact A.
Proof. induction 1 as [|x A Hx _ IH]; simpl; [reflexivity|]. now rewrite IH, bound_clean. Qed.
Lemma map_sync_clean A : Forall clean A -> map s_sync A = A.
Proof. induction 1 as [|x A Hx _ IH]; simpl; [reflexivity|]. now rewrite IH, clean_sync_id. Qed.

Lemma flushed_snoc A s : Forall clean A -> sync_ok s -> flushed_segs (A ++ [s]) = s_prev s + Z.to_N (s_synced s).
Proof.
  intros HA Hs. induction HA as [|a A [Ha _] _ IH]; simpl.
  - unfold sync_ok in Hs. unfold s_last. destruct (s_dirty s) eqn:E; unfold s_dirty in E; lia.
  - rewrite Ha. destruct (A ++ [s]) eqn:E; [destruct A; discriminate|]. exact IH.
Qed.

(* ------------------------------------------------------------ the boundary invariant *)

Definition R (l : log) (c : cstate) : Prop :=
  exists A s, l_segs l = A ++ [s] /\ chain (A ++ [s]) /\ Forall clean A /\ sync_ok s /\
              DS (map exact A ++ [bound s]) c.

Definition need (l l' : log) (i : N) : Prop :=
  i <= flushed_index l /\ exists b, a_get (abs l) i = Some b /\ a_get (abs l') i = Some b.

Lemma R_wf l c : R l c -> wf_log l.
Proof. intros [A [s [Hs [Hc _]]]]. split; rewrite Hs; [destruct A; discriminate|exact Hc]. Qed.

Lemma R_segs l l' c : l_segs l' = l_segs l -> R l c -> R l' c.
Proof. intros E [A [s H]]. exists A, s. now rewrite E. Qed.

(* ------------------------------------------------------------ a property at every prefix *)

Definition thru (I : cstate -> Prop) (c : cstate) (ps : list prim) : Prop :=
  forall k, I (apply_prims c (firstn k ps)).

Lemma apply_prims_app c a b : apply_prims c (a ++ b) = apply_prims (apply_prims c a) b.
Proof. apply fold_left_app. Qed.

Lemma thru_nil (I : cstate -> Prop) c : I c -> thru I c [].
Proof. intros H k. destruct k; exact H. Qed.
Lemma thru_cons (I : cstate -> Prop) c p ps : I c -> thru I (apply_prim c p) ps -> thru I c (p :: ps).
Proof. intros H1 H2 k. destruct k; [exact H1|]. exact (H2 k). Qed.
Lemma thru_app (I : cstate -> Prop) c a b : thru I c a -> thru I (apply_prims c a) b -> thru I c (a ++ b).
Proof.
  intros Ha Hb k. rewrite firstn_app. destruct (Nat.le_gt_cases k (length a)) as [H|H].
  - replace (k - length a)%nat with 0%nat by lia. simpl. rewrite app_nil_r. apply Ha.
  - rewrite firstn_all2 by lia. rewrite apply_prims_app. apply Hb.
Qed.

(* ------------------------------------------------------------ sub-ranges of a chain *)

Lemma sub_alog_mid X M Y : chain (X ++ M ++ Y) -> M <> [] -> sub_alog (abs_segs M) (abs_segs (X ++ M ++ Y)).
Proof.
  intros Hc Hne i b. destruct M as [|m M']; [congruence|].
  pose proof (chain_app_len X m (M' ++ Y) Hc) as Hk.
  unfold a_get. simpl a_prev. change ((m :: M') ++ Y) with (m :: M' ++ Y).
  set (p := hdprev (X ++ m :: M' ++ Y)) in *.
  destruct (s_prev m <? i) eqn:E; [|discriminate]. intro H.
  replace (p <? i) with true by lia. simpl a_ents in *.
  change (m :: M' ++ Y) with ((m :: M') ++ Y). rewrite !ents_of_app.
  replace (N.to_nat (i - p - 1)) with (length (ents_of X) + N.to_nat (i - s_prev m - 1))%nat by (unfold lenN in Hk; lia).
  rewrite nth_error_mid; [exact H|]. apply nth_error_Some. congruence.
Qed.

Lemma sub_alog_suffix X M : chain (X ++ M) -> M <> [] -> sub_alog (abs_segs M) (abs_segs (X ++ M)).
Proof. intros Hc Hne. rewrite <- (app_nil_r M) at 2. apply sub_alog_mid; [now rewrite app_nil_r|exact Hne]. Qed.

Lemma sub_alog_prefix M Y : chain (M ++ Y) -> M <> [] -> sub_alog (abs_segs M) (abs_segs (M ++ Y)).
Proof. intros Hc Hne. apply (sub_alog_mid [] M Y); auto. Qed.

Lemma hdprev_suffix_le X M : chain (X ++ M) -> M <> [] -> hdprev (X ++ M) <= hdprev M.
Proof.
  intros Hc Hne. destruct M as [|m M']; [congruence|].
  pose proof (chain_app_len X m M' Hc) as Hk. simpl hdprev at 2. lia.
Qed.

Lemma a_get_empty p i : a_get (mkALog p []) i = None.
Proof. unfold a_get. simpl. destruct (p <? i); [|reflexivity]. now destruct (N.to_nat (i - p - 1)). Qed.

Lemma a_last_snoc A s : chain (A ++ [s]) -> a_last (abs_segs (A ++ [s])) = s_last s.
Proof. intro Hc. rewrite (chain_last_len A s Hc). reflexivity. Qed.

Lemma hdprev_snoc_eqv A s s' : s_prev s = s_prev s' -> hdprev (A ++ [s]) = hdprev (A ++ [s']).
Proof. intro H. destruct A; simpl; auto. Qed.

(* ------------------------------------------------------------ building shapes *)

Lemma shape_intro a (nd : N -> Prop) A s d Nw c :
  d_key d = s_prev s -> d_E d = s_ents s -> DS (map exact A ++ d :: Nw) c -> chain (A ++ [s]) ->
  sub_alog (abs_segs (A ++ [s])) a ->
  (forall i, nd i -> hdprev (A ++ [s]) < i /\ i <= s_prev s + N.min (d_hm d) (d_hd d)) ->
  Forall (fun x => d_E x = [] /\ s_prev s < d_key x) Nw -> incr (dkeys Nw) -> Shape a nd c.
Proof. intros. right. exists A, s, d, Nw. repeat split; auto; apply H4; auto. Qed.

Lemma shape_intro0 a (nd : N -> Prop) A s d c :
  d_key d = s_prev s -> d_E d = s_ents s -> DS (map exact A ++ [d]) c -> chain (A ++ [s]) ->
  sub_alog (abs_segs (A ++ [s])) a ->
  (forall i, nd i -> hdprev (A ++ [s]) < i /\ i <= s_prev s + N.min (d_hm d) (d_hd d)) ->
  Shape a nd c.
Proof. intros. eapply shape_intro; eauto; constructor. Qed.

Lemma shape_full l l' A s d Nw c :
  l_segs l = A ++ [s] -> chain (A ++ [s]) -> Forall clean A -> sync_ok s ->
  d_key d = s_prev s -> d_E d = s_ents s -> DS (map exact A ++ d :: Nw) c ->
  Z.to_N (s_synced s) <= N.min (d_hm d) (d_hd d) ->
  Forall (fun x => d_E x = [] /\ s_prev s < d_key x) Nw -> incr (dkeys Nw) -> Shape (abs l) (need l l') c.
Proof.
  intros Hs Hc HA Hso Hk HE HD Hlo HN Hi. eapply shape_intro; eauto.
  - rewrite abs_eq, Hs. apply sub_alog_refl.
  - intros i [Hf [b [Hg _]]]. apply a_get_some_lt in Hg. destruct Hg as [Hg _].
    unfold flushed_index in Hf. rewrite Hs, flushed_snoc in Hf by auto.
    rewrite abs_eq, Hs in Hg. simpl in Hg. lia.
Qed.

Lemma R_shape l l' c : R l c -> Shape (abs l) (need l l') c.
Proof.
  intros [A [s [Hs [Hc [HA [Hso HD]]]]]].
  eapply (shape_full l l' A s (bound s) []); eauto; simpl; try constructor.
  unfold sync_ok in Hso. lia.
Qed.

Lemma nodup_As A s : chain (A ++ [s]) -> NoDup (dkeys (map exact A) ++ s_prev s :: dkeys []).
Proof.
  intro Hc. apply incr_nodup. rewrite dkeys_exact. simpl dkeys.
  pose proof (chain_incr _ Hc) as H. now rewrite map_app in H.
Qed.

Lemma keys_lt_last A s x : chain (A ++ [s]) -> In x (dkeys (map exact A ++ [exact s])) -> x <= s_prev s.
Proof.
  intros Hc Hx. rewrite dkeys_app, dkeys_exact in Hx. simpl in Hx.
  pose proof (chain_incr _ Hc) as H. rewrite map_app in H. simpl in H.
  apply in_app_or in Hx. destruct Hx as [Hx|[Hx|[]]]; [|lia].
  assert (x < s_prev s); [|lia]. eapply incr_app_lt; [exact H|exact Hx|now left].
Qed.

(* ------------------------------------------------------------ segment.sync() *)

Lemma sync_phase P Q s c :
  DS (P ++ bound s :: Q) c -> NoDup (dkeys P ++ s_prev s :: dkeys Q) -> sync_ok s ->
  (forall k, exists d, d_key d = s_prev s /\ d_E d = s_ents s /\ Z.to_N (s_synced s) <= N.min (d_hm d) (d_hd d) /\
                       DS (P ++ d :: Q) (apply_prims c (firstn k (sync_prims s)))) /\
  DS (P ++ exact s :: Q) (apply_prims c (sync_prims s)).
Proof.
  intros HD Hnd Hso. unfold sync_prims. destruct (s_dirty s) eqn:Ed.
  - set (c1 := apply_prim c (PMsync (s_prev s))).
    set (d1 := mkD (s_prev s) (s_ents s) (Z.to_N (s_synced s)) (Z.to_N (s_synced s)) (length (s_ents s)) true).
    assert (H1 : DS (P ++ d1 :: Q) c1) by exact (prim_msync P (bound s) Q c HD Hnd eq_refl).
    assert (Hn1 : (N.to_nat (s_n s) <= d_stab d1)%nat) by (unfold s_n; simpl; lia).
    set (c2 := apply_prim c1 (PStoreHeader (s_prev s) (s_n s))).
    set (d2 := mkD (s_prev s) (s_ents s) (s_n s) (Z.to_N (s_synced s)) (length (s_ents s)) true).
    assert (H2 : DS (P ++ d2 :: Q) c2) by exact (prim_hdr P d1 Q c1 (s_n s) H1 Hnd eq_refl Hn1).
    assert (H3 : DS (P ++ exact s :: Q) (apply_prim c2 (PMsync (s_prev s)))) by exact (prim_msync P d2 Q c2 H2 Hnd eq_refl).
    unfold sync_ok in Hso. unfold s_dirty in Ed.
    split; [|exact H3].
    intros [|[|[|k]]]; cbn [firstn]; rewrite ?firstn_nil; cbn [apply_prims fold_left].
    + exists (bound s). simpl. repeat split; auto. lia.
    + exists d1. simpl. repeat split; auto. lia.
    + exists d2. simpl. repeat split; auto. lia.
    + exists (exact s). simpl. repeat split; auto. lia.
  - assert (Hcl : clean s) by (split; auto). split.
    + intro k. replace (firstn k []) with (@nil prim) by (now destruct k). exists (bound s).
      unfold sync_ok in Hso. simpl. repeat split; auto. lia.
    + simpl. rewrite <- (bound_clean _ Hcl). exact HD.
Qed.

(* the same for the last segment of a log in the boundary state *)
Lemma sync_thru l l' c A s :
  l_segs l = A ++ [s] -> chain (A ++ [s]) -> Forall clean A -> sync_ok s -> DS (map exact A ++ [bound s]) c ->
  thru (Shape (abs l) (need l l')) c (sync_prims s) /\ DS (map exact A ++ [exact s]) (apply_prims c (sync_prims s)).
Proof.
  intros Hs Hc HA Hso HD.
  destruct (sync_phase (map exact A) [] s c HD (nodup_As _ _ Hc) Hso) as [H1 H2]. split; [|exact H2].
  intro k. destruct (H1 k) as [d [Hk [HE [Hlo HDk]]]].
  eapply (shape_full l l' A s d []); eauto; constructor.
Qed.

Lemma R_intro_synced l' c' A s :
  l_segs l' = A ++ [s_sync s] -> chain (A ++ [s]) -> Forall clean A -> DS (map exact A ++ [exact s]) c' -> R l' c'.
Proof.
  intros Hs Hc HA HD. exists A, (s_sync s). split; [exact Hs|]. split; [|split; [exact HA|split]].
  - eapply chain_replace_last; eauto.
  - apply clean_sync.
  - now rewrite bound_sync.
Qed.

Lemma R_of_clean l' c' : wf_log l' -> Forall clean (l_segs l') -> DS (map exact (l_segs l')) c' -> R l' c'.
Proof.
  intros [Hne Hc] HA HD. destruct (snoc_cases (l_segs l')) as [E|[A [s E]]]; [congruence|].
  rewrite E in *. apply Forall_app in HA. destruct HA as [HA Hs]. inversion Hs as [|? ? Hs' _]; subst.
  exists A, s. repeat split; auto; try apply Hs'. rewrite map_app in HD. simpl in HD. now rewrite bound_clean.
Qed.

(* ------------------------------------------------------------ Commit / CommitN / Reopen *)

Lemma commitn_clean_rev n A : Forall clean A -> commitn_rev n (rev A) = rev A /\ commitn_prims n (rev A) = [].
Proof.
  intro HA. destruct (rev A) as [|x r] eqn:E; [split; reflexivity|].
  assert (Hx : clean x).
  { rewrite Forall_forall in HA. apply HA. apply in_rev. rewrite E. now left. }
  destruct Hx as [Hx _]. simpl. now rewrite Hx.
Qed.

Lemma commitn_struct n A s : Forall clean A ->
  commitn_prims n (rev (A ++ [s])) = (if s_dirty s then if n <=? s_prev s then [] else sync_prims s else []) /\
  rev (commitn_rev n (rev (A ++ [s]))) = A ++ [if s_dirty s then if n <=? s_prev s then s else s_sync s else s].
Proof.
  intro HA. destruct (commitn_clean_rev n A HA) as [E1 E2].
  rewrite rev_app_distr. simpl rev. simpl app. simpl. destruct (s_dirty s).
  - rewrite E1, E2, app_nil_r. simpl. rewrite rev_involutive. split; reflexivity.
  - simpl. rewrite rev_involutive. split; reflexivity.
Qed.

Lemma l_last_snoc l A s : l_segs l = A ++ [s] -> l_last l = Ok (s_last s).
Proof. intro H. unfold l_last, h_last, handle_of. simpl. now rewrite H, rev_app_distr. Qed.

Lemma last_seg_snoc' l A s : l_segs l = A ++ [s] -> last_seg l = Some s.
Proof. intro H. unfold last_seg. now rewrite H, rev_app_distr. Qed.

Lemma commit_struct l A s : l_segs l = A ++ [s] -> Forall clean A -> sync_ok s ->
  commit_prims l = sync_prims s /\ l_segs (l_commit l) = A ++ [s_sync s].
Proof.
  intros Hs HA Hso. unfold commit_prims, l_commit. rewrite (l_last_snoc _ _ _ Hs).
  unfold l_commitn. simpl l_segs. rewrite Hs.
  destruct (commitn_struct (s_last s) A s HA) as [E1 E2]. rewrite E1, E2.
  unfold sync_prims. destruct (s_dirty s) eqn:Ed.
  - unfold sync_ok in Hso. pose proof Ed as Ed'. unfold s_dirty in Ed'. unfold s_last.
    replace (s_prev s + s_n s <=? s_prev s) with false by lia. split; reflexivity.
  - split; [reflexivity|]. rewrite clean_sync_id; [reflexivity|split; auto].
Qed.

Definition op_spec (l : log) (c : cstate) (o : op) : Prop :=
  thru (Shape (abs l) (need l (step l o))) c (op_prims l o) /\ R (step l o) (apply_prims c (op_prims l o)).

Lemma op_commit l c : R l c -> op_spec l c OCommit.
Proof.
  intros [A [s [Hs [Hc [HA [Hso HD]]]]]]. unfold op_spec. simpl step. simpl op_prims.
  destruct (commit_struct l A s Hs HA Hso) as [E1 E2]. rewrite E1.
  destruct (sync_thru l (l_commit l) c A s Hs Hc HA Hso HD) as [H1 H2]. split; [exact H1|].
  eapply R_intro_synced; eauto.
Qed.

Lemma op_reopen l c sz : R l c -> op_spec l c (OReopen sz).
Proof.
  intros [A [s [Hs [Hc [HA [Hso HD]]]]]]. unfold op_spec. simpl step. simpl op_prims.
  destruct (commit_struct l A s Hs HA Hso) as [E1 E2]. rewrite E1.
  destruct (sync_thru l (l_reopen l sz) c A s Hs Hc HA Hso HD) as [H1 H2]. split; [exact H1|].
  eapply R_intro_synced; eauto. unfold l_reopen. simpl. rewrite Hs, map_app, map_sync_clean by exact HA. reflexivity.
Qed.

Lemma op_commitn l c n : R l c -> op_spec l c (OCommitN n).
Proof.
  intros [A [s [Hs [Hc [HA [Hso HD]]]]]]. unfold op_spec. simpl step. simpl op_prims.
  assert (Hseg : l_segs (l_commitn l n) = rev (commitn_rev n (rev (l_segs l)))) by reflexivity.
  rewrite Hs in *. destruct (commitn_struct n A s HA) as [E1 E2]. rewrite E1. rewrite E2 in Hseg.
  assert (HR : R l c) by (exists A, s; auto).
  destruct (s_dirty s) eqn:Ed; [destruct (n <=? s_prev s) eqn:En|].
  - split; [apply thru_nil; now apply R_shape|]. simpl. eapply R_segs; [|exact HR]. congruence.
  - destruct (sync_thru l (l_commitn l n) c A s Hs Hc HA Hso HD) as [H1 H2]. split; [exact H1|].
    eapply R_intro_synced; eauto.
  - split; [apply thru_nil; now apply R_shape|]. simpl. eapply R_segs; [|exact HR]. congruence.
Qed.

(* ------------------------------------------------------------ Append *)

Lemma incr_snoc ks k : incr ks -> (forall x, In x ks -> x < k) -> incr (ks ++ [k]).
Proof.
  intros H1 H2. apply incr_app; [exact H1|simpl; auto|]. intros x y Hx [Hy|[]]. subst y. auto.
Qed.

Lemma op_append l c b : R l c -> op_spec l c (OAppend b).
Proof.
  intros [A [s [Hs [Hc [HA [Hso HD]]]]]]. assert (HR : R l c) by (exists A, s; auto).
  unfold op_spec. simpl step. simpl op_prims. unfold l_append. rewrite (last_seg_snoc' _ _ _ Hs).
  destruct (s_avail s <? Z.of_N (blen b))%Z eqn:Ea; [destruct (s_n s =? 0) eqn:En|].
  - simpl snd. split; [apply thru_nil; now apply R_shape|exact HR].
  - set (sz := if (Z.of_N (l_segsize l) - 24 <? Z.of_N (blen b))%Z then blen b + 24 else l_segsize l).
    simpl snd. destruct (commit_struct l A s Hs HA Hso) as [E1 E2]. rewrite E1, E2.
    set (K := s_last s). set (s' := seg_append (new_seg K sz) b).
    set (l' := mkLog sz ((A ++ [s_sync s]) ++ [s'])).
    destruct (sync_thru l l' c A s Hs Hc HA Hso HD) as [H1 H2].
    set (c1 := apply_prims c (sync_prims s)) in *.
    assert (HK : s_prev s < K) by (unfold K, s_last; lia).
    assert (Hlo : Z.to_N (s_synced s) <= N.min (s_n s) (s_n s)) by (unfold sync_ok in Hso; lia).
    (* create *)
    assert (HnK : ~ In K (dkeys (map exact A ++ [exact s]))).
    { intro X. apply (keys_lt_last _ _ _ Hc) in X. lia. }
    pose proof (prim_create _ c1 K H2 HnK) as H3. set (c2 := apply_prim c1 (PCreate K)) in *.
    assert (Hnd : NoDup (dkeys (map exact A ++ [exact s]) ++ K :: dkeys [])).
    { apply incr_nodup. apply incr_snoc.
      - rewrite dkeys_app, dkeys_exact. simpl. pose proof (chain_incr _ Hc) as X. now rewrite map_app in X.
      - intros x Hx. apply (keys_lt_last _ _ _ Hc) in Hx. lia. }
    pose proof (prim_size _ (fresh K) [] c2 sz H3 Hnd eq_refl) as H4. cbn [d_key fresh] in H4.
    set (c3 := apply_prim c2 (PSize K sz)) in *.
    destruct (prim_store _ (sized0 K) [] c3 b H4 Hnd eq_refl) as [H5 H6]. cbn [d_key d_E sized0 length] in H5, H6.
    set (c4 := apply_prim c3 (PStoreEntry K 0 b)) in *.
    assert (S1 : Shape (abs l) (need l l') c1).
    { eapply (shape_full l l' A s (exact s) []); eauto; constructor. }
    assert (SN : forall cc d, d_key d = K -> d_E d = [] -> DS ((map exact A ++ [exact s]) ++ [d]) cc -> Shape (abs l) (need l l') cc).
    { intros cc d Hk HE HDc. rewrite <- app_assoc in HDc.
      eapply (shape_full l l' A s (exact s) [d]); eauto.
      - constructor; [|constructor]. split; [exact HE|]. rewrite Hk. exact HK.
      - simpl. split; [constructor|exact I]. }
    split.
    + apply thru_app; [exact H1|]. fold c1.
      apply thru_cons; [exact S1|]. fold c2.
      apply thru_cons; [apply (SN c2 (fresh K)); auto|]. fold c3.
      apply thru_cons; [apply (SN c3 (sized0 K)); auto|]. fold c4.
      apply thru_nil. apply (SN c4 (sized0 K)); auto.
    + rewrite apply_prims_app. fold c1. cbn [apply_prims fold_left create_prims app]. fold c2 c3 c4.
      exists (A ++ [s_sync s]), s'. split; [reflexivity|]. split; [|split; [|split]].
      * rewrite <- app_assoc. apply chain_snoc.
        -- eapply chain_replace_last; eauto.
        -- reflexivity.
        -- simpl. intro X. unfold s_n in En. rewrite X in En. simpl in En. discriminate.
      * apply Forall_app. split; [exact HA|]. constructor; [apply clean_sync|constructor].
      * unfold sync_ok, s', seg_append, s_n. simpl. lia.
      * rewrite map_app. exact H6.
  - simpl snd. rewrite Hs, removelast_last.
    destruct (prim_store (map exact A) (bound s) [] c b HD (nodup_As _ _ Hc) eq_refl) as [H1 H2].
    cbn [d_key d_E bound desc d_hm d_hd d_stab] in H1, H2.
    set (l' := mkLog (l_segsize l) (A ++ [seg_append s b])).
    split.
    + apply thru_cons; [now apply R_shape|]. apply thru_nil.
      eapply (shape_full l l' A s (bound s) []); eauto; try constructor.
      simpl. unfold sync_ok in Hso. lia.
    + cbn [apply_prims fold_left]. exists A, (seg_append s b). split; [reflexivity|]. split; [|split; [|split]].
      * eapply chain_replace_last; eauto.
      * exact HA.
      * unfold sync_ok, seg_append, s_n in *. simpl. rewrite app_length. simpl. lia.
      * exact H2.
Qed.

(* ------------------------------------------------------------ unlinking from the front *)

Definition unlinks (F : list seg) : list prim := map (fun s => PUnlink (s_prev s)) F.

Lemma unlink_front_phase (I : cstate -> Prop) rest : forall F,
  (forall F0 F' c', F = F0 ++ F' -> DS (map exact F' ++ rest) c' -> I c') ->
  forall c, DS (map exact F ++ rest) c -> NoDup (dkeys (map exact F ++ rest)) ->
  thru I c (unlinks F) /\ DS rest (apply_prims c (unlinks F)).
Proof.
  induction F as [|a F IH]; intros HI c HD Hnd.
  - split; [apply thru_nil; apply (HI [] []); auto|exact HD].
  - simpl unlinks. simpl map in HD, Hnd.
    pose proof (prim_unlink [] (exact a) (map exact F ++ rest) c HD Hnd) as H1. simpl app in H1.
    cbn [d_key exact desc] in H1.
    destruct (IH (fun F0 F' c' E => HI (a :: F0) F' c' (f_equal (cons a) E)) _ H1) as [T1 T2].
    { simpl in Hnd. now inversion Hnd. }
    split; [|exact T2]. apply thru_cons; [|exact T1]. apply (HI [] (a :: F)); auto.
Qed.

(* ------------------------------------------------------------ RemoveLTE *)

Lemma drop_split i segs : dropped_lte i segs ++ drop_lte i segs = segs.
Proof.
  induction segs as [|x r IH]; [reflexivity|]. destruct r as [|y r]; [reflexivity|].
  rewrite drop_lte_2. change (dropped_lte i (x :: y :: r)) with
    (if (0 <? s_n x) && (s_last x <=? i) then x :: dropped_lte i (y :: r) else []).
  destruct ((0 <? s_n x) && (s_last x <=? i)); [|reflexivity]. rewrite <- app_comm_cons. now rewrite IH.
Qed.

Lemma drop_lte_nonempty i segs : segs <> [] -> drop_lte i segs <> [].
Proof.
  induction segs as [|x r IH]; [congruence|]. intros _. destruct r as [|y r]; [discriminate|].
  rewrite drop_lte_2. destruct ((0 <? s_n x) && (s_last x <=? i)); [|discriminate]. apply IH. discriminate.
Qed.

Lemma app_snoc_split {X} (F T A : list X) x : F ++ T = A ++ [x] -> T <> [] -> exists T0, T = T0 ++ [x] /\ A = F ++ T0.
Proof.
  intros E Hne. destruct (snoc_cases T) as [E0|[T0 [y E0]]]; [congruence|]. subst T.
  rewrite app_assoc in E. apply app_inj_tail in E. destruct E as [E1 E2]. subst. eauto.
Qed.

Lemma a_get_need_bounds l l' A s i : l_segs l = A ++ [s] -> chain (A ++ [s]) -> need l l' i ->
  hdprev (A ++ [s]) < i /\ i <= s_last s /\ a_prev (abs l') < i.
Proof.
  intros Hs Hc [_ [b [H1 H2]]]. apply a_get_some_lt in H1. apply a_get_some_lt in H2.
  rewrite abs_eq, Hs in H1. rewrite (a_last_snoc _ _ Hc) in H1. simpl in H1. lia.
Qed.

Lemma op_removelte l c i : R l c -> op_spec l c (ORemoveLTE i).
Proof.
  intros [A [s [Hs [Hc [HA [Hso HD]]]]]].
  unfold op_spec. simpl step. simpl op_prims. unfold l_removelte.
  destruct (commit_struct l A s Hs HA Hso) as [E1 E2]. rewrite E1, E2.
  set (S1 := A ++ [s_sync s]). set (l' := mkLog (l_segsize (l_commit l)) (drop_lte i S1)).
  destruct (sync_thru l l' c A s Hs Hc HA Hso HD) as [H1 H2].
  set (c1 := apply_prims c (sync_prims s)) in *.
  pose proof (drop_split i S1) as Esp.
  assert (HT : drop_lte i S1 <> []) by (apply drop_lte_nonempty; unfold S1; destruct A; discriminate).
  destruct (app_snoc_split _ _ _ _ Esp HT) as [T0 [ET EA]].
  set (F := dropped_lte i S1) in *.
  assert (Hc2 : chain (F ++ T0 ++ [s])) by (rewrite app_assoc, <- EA; exact Hc).
  assert (HD1 : DS (map exact F ++ (map exact T0 ++ [exact s])) c1).
  { rewrite app_assoc, <- map_app, <- EA. exact H2. }
  assert (Hnd : NoDup (dkeys (map exact F ++ map exact T0 ++ [exact s]))).
  { rewrite app_assoc, <- map_app, <- EA. rewrite dkeys_app. apply (nodup_As _ _ Hc). }
  destruct (unlink_front_phase (Shape (abs l) (need l l')) (map exact T0 ++ [exact s]) F) with (c := c1) as [T1 T2]; auto.
  { intros F0 F' c' EF HD'. rewrite app_assoc, <- map_app in HD'.
    assert (Hc3 : chain (F0 ++ (F' ++ T0) ++ [s])).
    { rewrite <- app_assoc, app_assoc, <- EF. exact Hc2. }
    apply (shape_intro0 _ _ (F' ++ T0) s (exact s)); [reflexivity|reflexivity|exact HD'| | |].
    - eapply chain_app_r; eauto.
    - rewrite abs_eq, Hs, EA, EF. rewrite <- !app_assoc. rewrite <- !app_assoc in Hc3.
      apply sub_alog_suffix; [exact Hc3|destruct F'; destruct T0; discriminate].
    - intros j Hj. destruct (a_get_need_bounds l l' A s j Hs Hc Hj) as [B1 [B2 B3]].
      simpl. unfold s_last in B2. split; [|lia].
      unfold l' in B3. rewrite abs_eq in B3. simpl in B3. rewrite ET in B3.
      rewrite (hdprev_snoc_eqv T0 (s_sync s) s eq_refl) in B3.
      assert (X : hdprev (F' ++ T0 ++ [s]) <= hdprev (T0 ++ [s])).
      { apply hdprev_suffix_le; [|destruct T0; discriminate]. rewrite <- app_assoc in Hc3. eapply chain_app_r; eauto. }
      rewrite <- app_assoc. lia. }
  split.
  - apply thru_app; [exact H1|exact T1].
  - rewrite apply_prims_app. eapply (R_intro_synced l' _ T0 s); eauto.
    + eapply chain_app_r; eauto.
    + rewrite EA in HA. apply Forall_app in HA. tauto.
Qed.

(* ------------------------------------------------------------ Reset *)

Lemma flat_unlinks A : Forall clean A -> flat_map (fun s => sync_prims s ++ [PUnlink (s_prev s)]) A = unlinks A.
Proof.
  induction 1 as [|x A [Hx _] _ IH]; [reflexivity|]. simpl. unfold sync_prims at 1. rewrite Hx. simpl. now rewrite IH.
Qed.

Lemma shape_empty_seg a (nd : N -> Prop) k d c :
  (forall i, ~ nd i) -> d_key d = k -> d_E d = [] -> DS [d] c -> Shape a nd c.
Proof.
  intros Hn Hk HE HD. apply (shape_intro0 a nd [] (new_seg k 0) d); [exact Hk|exact HE|exact HD| | |].
  - simpl. exact I.
  - intros i b H. unfold abs_segs in H. simpl in H. now rewrite a_get_empty in H.
  - intros i Hi. exfalso. exact (Hn i Hi).
Qed.

Lemma op_reset l c i : R l c -> op_spec l c (OReset i).
Proof.
  intros [A [s [Hs [Hc [HA [Hso HD]]]]]].
  unfold op_spec. simpl step. simpl op_prims. unfold l_reset. set (l' := mkLog (l_segsize l) [new_seg i (l_segsize l)]).
  assert (Hn : forall i0, ~ need l l' i0).
  { intros i0 [_ [b [_ H]]]. unfold l', abs in H. simpl in H. now rewrite a_get_empty in H. }
  rewrite Hs, flat_map_app, (flat_unlinks _ HA). simpl flat_map. rewrite app_nil_r.
  unfold create_prims. rewrite <- !app_assoc. simpl app.
  set (sz := l_segsize l).
  destruct (unlink_front_phase (Shape (abs l) (need l l')) [bound s] A) with (c := c) as [T1 T2]; auto.
  { intros F0 F' c' EF HD'. assert (Hc3 : chain (F0 ++ F' ++ [s])) by (rewrite app_assoc, <- EF; exact Hc).
    apply (shape_intro0 _ _ F' s (bound s)); [reflexivity|reflexivity|exact HD'| | |].
    - eapply chain_app_r; eauto.
    - rewrite abs_eq, Hs, EF, <- app_assoc. apply sub_alog_suffix; [exact Hc3|destruct F'; discriminate].
    - intros i0 Hi. exfalso. exact (Hn i0 Hi). }
  { rewrite dkeys_app. apply (nodup_As _ _ Hc). }
  set (c1 := apply_prims c (unlinks A)) in *.
  assert (Hnd1 : NoDup (dkeys [] ++ s_prev s :: dkeys [])) by (simpl; constructor; [tauto|constructor]).
  destruct (sync_phase [] [] s c1 T2 Hnd1 Hso) as [P1 P2].
  set (c2 := apply_prims c1 (sync_prims s)) in *. simpl app in P2.
  pose proof (prim_unlink [] (exact s) [] c2 P2 Hnd1) as P3. simpl app in P3. cbn [d_key exact desc] in P3.
  set (c3 := apply_prim c2 (PUnlink (s_prev s))) in *.
  pose proof (prim_create [] c3 i P3 (fun X => X)) as P4. simpl app in P4.
  set (c4 := apply_prim c3 (PCreate i)) in *.
  assert (Hnd2 : NoDup (dkeys [] ++ i :: dkeys [])) by (simpl; constructor; [tauto|constructor]).
  pose proof (prim_size [] (fresh i) [] c4 sz P4 Hnd2 eq_refl) as P5. simpl app in P5. cbn [d_key fresh] in P5.
  set (c5 := apply_prim c4 (PSize i sz)) in *.
  assert (Hsub : sub_alog (abs_segs ([] ++ [s])) (abs l)).
  { rewrite abs_eq, Hs. apply sub_alog_suffix; [exact Hc|discriminate]. }
  split.
  - apply thru_app; [exact T1|]. fold c1. apply thru_app.
    + intro k. destruct (P1 k) as [d [Hk [HE [_ HDk]]]]. simpl app in HDk.
      apply (shape_intro0 _ _ [] s d); [exact Hk|exact HE|exact HDk| |exact Hsub|].
      * simpl. exact I.
      * intros i0 Hi. exfalso. exact (Hn i0 Hi).
    + fold c2. apply thru_cons.
      { apply (shape_intro0 _ _ [] s (exact s)); [reflexivity|reflexivity|exact P2| |exact Hsub|].
        - simpl. exact I.
        - intros i0 Hi. exfalso. exact (Hn i0 Hi). }
      fold c3. apply thru_cons.
      { left. split; [|exact Hn]. unfold DS in P3. apply D3_nil_inv in P3. tauto. }
      fold c4. apply thru_cons; [eapply (shape_empty_seg _ _ i (fresh i)); eauto|].
      fold c5. apply thru_nil. eapply (shape_empty_seg _ _ i (sized0 i)); eauto.
  - rewrite !apply_prims_app. fold c1. fold c2. cbn [apply_prims fold_left]. fold c3 c4 c5.
    exists [], (new_seg i sz). split; [reflexivity|]. split; [simpl; exact I|]. split; [constructor|].
    split; [unfold sync_ok, new_seg, s_n; simpl; lia|]. exact P5.
Qed.

(* ------------------------------------------------------------ RemoveGTE *)

Lemma exact_shrink P s n c :
  n < s_n s ->
  DS (P ++ [mkD (s_prev s) (s_ents s) n n (length (s_ents s)) true]) c ->
  DS (P ++ [exact (s_sync (mkSeg (s_prev s) (s_cap s) (firstn (N.to_nat n) (s_ents s)) (-1)))]) c.
Proof.
  intros Hn HD. unfold s_n in Hn. eapply DS_weaken_mid; [| |exact HD]; [reflexivity|].
  intros fm fd Hf. apply (fpair_shrink _ _ _ _ _ (N.to_nat n)) in Hf; try lia.
  unfold exact, desc, s_sync, s_n in *. cbn [s_prev s_ents s_cap].
  assert (L : length (firstn (N.to_nat n) (s_ents s)) = N.to_nat n) by (rewrite firstn_length; lia).
  rewrite L. replace (N.of_nat (N.to_nat n)) with n by lia. exact Hf.
Qed.

(* segment.removeGTE on the last remaining file *)
Lemma seg_rgte_phase a (nd : N -> Prop) s A c j :
  clean s -> DS (map exact A ++ [exact s]) c -> chain (A ++ [s]) -> sub_alog (abs_segs (A ++ [s])) a ->
  (forall i0, nd i0 -> hdprev (A ++ [s]) < i0 /\ i0 <= s_last s /\ i0 <= s_prev s + (j - s_prev s - 1)) ->
  thru (Shape a nd) c (seg_removegte_prims s j) /\
  DS (map exact A ++ [exact (seg_removegte s j)]) (apply_prims c (seg_removegte_prims s j)).
Proof.
  intros Hcl HD Hc Hsub Hnd. unfold seg_removegte_prims, seg_removegte.
  set (n := j - s_prev s - 1) in *.
  pose proof (nodup_As _ _ Hc) as Hnod.
  assert (S0 : Shape a nd c).
  { apply (shape_intro0 _ _ A s (exact s)); [reflexivity|reflexivity|exact HD|exact Hc|exact Hsub|].
    intros i0 Hi. destruct (Hnd i0 Hi) as [B1 [B2 B3]]. simpl. unfold s_last in B2. lia. }
  destruct (n <? s_n s) eqn:En.
  - set (d1 := mkD (s_prev s) (s_ents s) n (s_n s) (length (s_ents s)) true).
    set (d2 := mkD (s_prev s) (s_ents s) n n (length (s_ents s)) true).
    assert (Hn1 : (N.to_nat n <= d_stab (exact s))%nat) by (unfold s_n in En; simpl; lia).
    set (c1 := apply_prim c (PStoreHeader (s_prev s) n)).
    assert (H1 : DS (map exact A ++ [d1]) c1) by exact (prim_hdr _ (exact s) [] c n HD Hnod eq_refl Hn1).
    set (c2 := apply_prim c1 (PMsync (s_prev s))).
    assert (H2 : DS (map exact A ++ [d2]) c2) by exact (prim_msync _ d1 [] c1 H1 Hnod eq_refl).
    set (c3 := apply_prim c2 (PStoreHeader (s_prev s) n)).
    assert (H3 : DS (map exact A ++ [d2]) c3) by exact (prim_hdr _ d2 [] c2 n H2 Hnod eq_refl Hn1).
    set (c4 := apply_prim c3 (PMsync (s_prev s))).
    assert (H4 : DS (map exact A ++ [d2]) c4) by exact (prim_msync _ d2 [] c3 H3 Hnod eq_refl).
    assert (SH : forall cc d, d_key d = s_prev s -> d_E d = s_ents s -> n <= N.min (d_hm d) (d_hd d) ->
                 DS (map exact A ++ [d]) cc -> Shape a nd cc).
    { intros cc d Hk HE Hlo HDc. apply (shape_intro0 _ _ A s d); auto.
      intros i0 Hi. destruct (Hnd i0 Hi) as [B1 [B2 B3]]. lia. }
    split.
    + apply thru_cons; [exact S0|]. fold c1.
      apply thru_cons; [apply (SH c1 d1); auto; simpl; lia|]. fold c2.
      apply thru_cons; [apply (SH c2 d2); auto; simpl; lia|]. fold c3.
      apply thru_cons; [apply (SH c3 d2); auto; simpl; lia|]. fold c4.
      apply thru_nil. apply (SH c4 d2); auto; simpl; lia.
    + cbn [apply_prims fold_left]. fold c1 c2 c3 c4. apply exact_shrink; [lia|exact H4].
  - destruct Hcl as [Hd Hso]. unfold sync_prims. rewrite Hd. split; [apply thru_nil; exact S0|].
    simpl. rewrite clean_sync_id by (split; auto). exact HD.
Qed.

Lemma seg_removegte_clean s j : clean (seg_removegte s j).
Proof. unfold seg_removegte. destruct (_ <? _); apply clean_sync. Qed.

Lemma rlast_rprev_of_chain s t r : rchain (s :: t :: r) -> s_prev s = s_last t.
Proof. intros [H _]. exact H. Qed.

Lemma rchain_tail s r : rchain (s :: r) -> rchain r.
Proof. destruct r as [|t r]; [simpl; auto|]. intros [_ [_ H]]. exact H. Qed.

Lemma rgte_phase a (nd : N -> Prop) sz i : (forall i0, nd i0 -> i0 < i) -> forall rs c,
  rchain rs -> Forall clean rs -> DS (map exact (rev rs)) c ->
  (rs <> [] -> sub_alog (abs_segs (rev rs)) a) ->
  (forall i0, nd i0 -> match rs with [] => False | s :: _ => rprev rs < i0 /\ i0 <= s_last s end) ->
  thru (Shape a nd) c (removegte_prims sz i rs) /\
  Forall clean (removegte_rev sz i rs) /\
  DS (map exact (rev (removegte_rev sz i rs))) (apply_prims c (removegte_prims sz i rs)).
Proof.
  intros Hlt. induction rs as [|s r IH]; intros c Hrc Hcl HD Hsub Hnd.
  - (* nothing left: a fresh segment *)
    simpl removegte_prims. simpl removegte_rev. set (K := if 0 <? i then i - 1 else i).
    assert (Hn : forall i0, ~ nd i0) by (intros i0 Hi; exact (Hnd i0 Hi)).
    simpl in HD.
    pose proof (prim_create [] c K HD (fun X => X)) as P4. simpl app in P4.
    set (c4 := apply_prim c (PCreate K)) in *.
    assert (Hnd2 : NoDup (dkeys [] ++ K :: dkeys [])) by (simpl; constructor; [tauto|constructor]).
    pose proof (prim_size [] (fresh K) [] c4 sz P4 Hnd2 eq_refl) as P5. simpl app in P5. cbn [d_key fresh] in P5.
    set (c5 := apply_prim c4 (PSize K sz)) in *.
    split; [|split].
    + unfold create_prims. apply thru_cons.
      { left. split; [|exact Hn]. unfold DS in HD. apply D3_nil_inv in HD. tauto. }
      fold c4. apply thru_cons; [eapply (shape_empty_seg _ _ K (fresh K)); eauto|].
      fold c5. apply thru_nil. eapply (shape_empty_seg _ _ K (sized0 K)); eauto.
    + constructor; [|constructor]. unfold clean, s_dirty, sync_ok, new_seg, s_n. simpl. split; lia.
    + exact P5.
  - assert (Hc : chain (rev r ++ [s])) by (apply rchain_rev in Hrc; exact Hrc).
    inversion Hcl as [|? ? Hs Hr]; subst.
    simpl rev in HD. rewrite map_app in HD. simpl map in HD.
    assert (Hsub' : sub_alog (abs_segs (rev r ++ [s])) a) by (apply Hsub; discriminate).
    assert (Hnd' : forall i0, nd i0 -> hdprev (rev r ++ [s]) < i0 /\ i0 <= s_last s).
    { intros i0 Hi. specialize (Hnd i0 Hi). change (rprev (s :: r) < i0 /\ i0 <= s_last s) in Hnd.
      rewrite <- rprev_rev in Hnd. exact Hnd. }
    assert (SEG : forall j, (forall i0, nd i0 -> i0 <= s_prev s + (j - s_prev s - 1)) ->
       thru (Shape a nd) c (seg_removegte_prims s j) /\
       Forall clean (seg_removegte s j :: r) /\
       DS (map exact (rev (seg_removegte s j :: r))) (apply_prims c (seg_removegte_prims s j))).
    { intros j Hj. destruct (seg_rgte_phase a nd s (rev r) c j Hs HD Hc Hsub') as [T1 T2].
      - intros i0 Hi. destruct (Hnd' i0 Hi). specialize (Hj i0 Hi). auto.
      - split; [exact T1|]. split; [constructor; [apply seg_removegte_clean|exact Hr]|].
        simpl rev. rewrite map_app. exact T2. }
    assert (UNL : removegte_prims sz i (s :: r) = PUnlink (s_prev s) :: removegte_prims sz i r ->
                  removegte_rev sz i (s :: r) = removegte_rev sz i r -> i <= s_prev s + 1 ->
       thru (Shape a nd) c (removegte_prims sz i (s :: r)) /\
       Forall clean (removegte_rev sz i (s :: r)) /\
       DS (map exact (rev (removegte_rev sz i (s :: r)))) (apply_prims c (removegte_prims sz i (s :: r)))).
    { intros E1 E2 Hi. rewrite E1, E2.
      pose proof (prim_unlink (map exact (rev r)) (exact s) [] c HD (nodup_As _ _ Hc)) as HU.
      rewrite app_nil_r in HU. cbn [d_key exact desc] in HU.
      destruct (IH (apply_prim c (PUnlink (s_prev s))) (rchain_tail _ _ Hrc) Hr HU) as [T1 [T2 T3]].
      - intro Hne. eapply sub_alog_trans; [|exact Hsub'].
        apply sub_alog_prefix; [exact Hc|]. intro X. apply Hne. apply (f_equal (@rev seg)) in X.
        now rewrite rev_involutive in X.
      - intros i0 Hi0. specialize (Hnd i0 Hi0). specialize (Hlt i0 Hi0). destruct r as [|t r'].
        + simpl in Hnd. lia.
        + pose proof (rlast_rprev_of_chain _ _ _ Hrc) as X.
          change (rprev (s :: t :: r')) with (rprev (t :: r')) in Hnd. split; [tauto|lia].
      - split; [|split; [exact T2|exact T3]].
        apply thru_cons; [|exact T1].
        apply (shape_intro0 _ _ (rev r) s (exact s)); [reflexivity|reflexivity|exact HD|exact Hc|exact Hsub'|].
        intros i0 Hi0. destruct (Hnd' i0 Hi0). simpl. unfold s_last in *. lia. }
    destruct (i <=? s_prev s + 1) eqn:Ei.
    + destruct r as [|t r'].
      * destruct (i =? s_prev s + 1) eqn:Ei2.
        -- assert (E1 : removegte_prims sz i [s] = seg_removegte_prims s (s_prev s + 1)).
           { simpl. now rewrite Ei, Ei2. }
           assert (E2 : removegte_rev sz i [s] = [seg_removegte s (s_prev s + 1)]).
           { simpl. now rewrite Ei, Ei2. }
           rewrite E1, E2. apply SEG. intros i0 Hi. specialize (Hlt i0 Hi). lia.
        -- apply UNL; [| |lia]; simpl; now rewrite Ei, Ei2.
      * apply UNL; [| |lia]; simpl; now rewrite Ei.
    + assert (E1 : removegte_prims sz i (s :: r) = seg_removegte_prims s (if s_last s <? i then s_last s + 1 else i)).
      { simpl. now rewrite Ei. }
      rewrite E1, removegte_rev_cons, Ei. apply SEG.
      intros i0 Hi. specialize (Hlt i0 Hi). destruct (Hnd' i0 Hi) as [_ B2].
      unfold s_last in *. destruct (s_prev s + s_n s <? i) eqn:E3; lia.
Qed.

Lemma a_get_removegte_lt a i i0 b : a_get (a_removegte a i) i0 = Some b -> i0 < i.
Proof.
  unfold a_removegte. destruct (i <=? a_prev a) eqn:E.
  - now rewrite a_get_empty.
  - intro H. unfold a_get in H. simpl in H. destruct (a_prev a <? i0) eqn:E2; [|discriminate].
    assert (X : nth_error (firstn (N.to_nat (i - a_prev a - 1)) (a_ents a)) (N.to_nat (i0 - a_prev a - 1)) <> None) by congruence.
    apply nth_error_Some in X. rewrite firstn_length in X. lia.
Qed.

Lemma op_removegte l c i : R l c -> op_spec l c (ORemoveGTE i).
Proof.
  intros HR. pose proof (R_wf _ _ HR) as Hwf. destruct HR as [A [s [Hs [Hc [HA [Hso HD]]]]]].
  unfold op_spec. simpl step. simpl op_prims.
  destruct (commit_struct l A s Hs HA Hso) as [E1 E2]. rewrite E1, E2.
  set (l' := l_removegte l i).
  destruct (removegte_ok l i Hwf) as [Hwf' Habs]. fold l' in Hwf', Habs.
  destruct (sync_thru l l' c A s Hs Hc HA Hso HD) as [H1 H2].
  set (c1 := apply_prims c (sync_prims s)) in *.
  set (rs := rev (A ++ [s_sync s])).
  assert (Hrev : rev rs = A ++ [s_sync s]) by (unfold rs; apply rev_involutive).
  assert (Hc' : chain (A ++ [s_sync s])) by (eapply chain_replace_last; eauto).
  assert (Hlt : forall i0, need l l' i0 -> i0 < i).
  { intros i0 [_ [b [_ H]]]. rewrite Habs in H. eapply a_get_removegte_lt; eauto. }
  destruct (rgte_phase (abs l) (need l l') (l_segsize l) i Hlt rs c1) as [T1 [T2 T3]].
  - apply rchain_rev. now rewrite Hrev.
  - unfold rs. apply Forall_rev. apply Forall_app. split; [exact HA|]. constructor; [apply clean_sync|constructor].
  - rewrite Hrev, map_app. exact H2.
  - intros _. rewrite Hrev, abs_eq, Hs.
    assert (X : abs_segs (A ++ [s_sync s]) = abs_segs (A ++ [s])).
    { symmetry. apply eqv_abs. apply Forall2_app; [apply Forall2_refl; apply seg_eqv_refl|].
      constructor; [apply seg_eqv_sync|constructor]. }
    rewrite X. apply sub_alog_refl.
  - intros i0 Hi. destruct (a_get_need_bounds l l' A s i0 Hs Hc Hi) as [B1 [B2 _]].
    assert (Ers : rs = s_sync s :: rev A) by (unfold rs; rewrite rev_app_distr; reflexivity).
    assert (Hp : rprev rs = hdprev (A ++ [s])).
    { rewrite <- rprev_rev, Hrev. apply hdprev_snoc_eqv. reflexivity. }
    rewrite <- Hp in B1. rewrite Ers in B1. rewrite Ers. split; [exact B1|exact B2].
  - split.
    + apply thru_app; [exact H1|]. exact T1.
    + rewrite apply_prims_app. fold c1.
      apply R_of_clean; [exact Hwf'| |].
      * unfold l', l_removegte. simpl l_segs. rewrite E2, commit_segsize. fold rs. apply Forall_rev. exact T2.
      * unfold l', l_removegte. simpl l_segs. rewrite E2, commit_segsize. fold rs. exact T3.
Qed.

(* ------------------------------------------------------------ all operations, all runs *)

Lemma op_ok l c o : R l c -> op_spec l c o.
Proof.
  intro HR. destruct o as [b| |n|i|i|i|sz].
  - now apply op_append.
  - now apply op_commit.
  - now apply op_commitn.
  - now apply op_removelte.
  - now apply op_removegte.
  - now apply op_reset.
  - now apply op_reopen.
Qed.

Local Transparent apply_prim.

Lemma R_init sz : R (r_log (init_rstate sz)) (r_disk (init_rstate sz)).
Proof.
  exists [], (new_seg 0 sz). split; [reflexivity|]. split; [simpl; exact I|]. split; [constructor|].
  split; [unfold sync_ok, new_seg, s_n; simpl; lia|].
  unfold DS. simpl. change 0 with (d_key (bound (new_seg 0 sz))) at 1 3.
  constructor; [|constructor]. unfold fpair. simpl. repeat split; auto.
Qed.

Lemma R_rrun ops : forall r, R (r_log r) (r_disk r) -> R (r_log (rrun r ops)) (r_disk (rrun r ops)).
Proof.
  induction ops as [|o ops IH]; intros r HR; [exact HR|].
  simpl. apply IH. unfold rstep. simpl. apply (op_ok _ _ o HR).
Qed.

Lemma R_reach sz ops : let r := rrun (init_rstate sz) ops in R (r_log r) (r_disk r).
Proof. apply R_rrun. apply R_init. Qed.

Lemma crash_good segsize ops o k :
  let r := rrun (init_rstate segsize) ops in
  Good segsize (abs (r_log r)) (need (r_log r) (step (r_log r) o)) (crash_disk r o k).
Proof.
  intro r. apply shape_good. unfold crash_disk.
  destruct (op_ok _ _ o (R_reach segsize ops)) as [H _]. apply H.
Qed.

(* with the chain invariant of reachable logs the flushed index is what the last segment's
   header covers *)
Lemma flushed_index_reachable segsize ops :
  let l := r_log (rrun (init_rstate segsize) ops) in
  exists A s, l_segs l = A ++ [s] /\ Forall (fun x => s_synced x = Z.of_N (s_n x)) A /\
              flushed_index l = s_prev s + Z.to_N (Z.max 0 (s_synced s)).
Proof.
  intro l. destruct (R_reach segsize ops) as [A [s [Hs [Hc [HA [Hso _]]]]]]. fold l in Hs.
  exists A, s. split; [exact Hs|]. split.
  - eapply Forall_impl; [|exact HA]. intros x [H1 H2]. unfold s_dirty in H1. unfold sync_ok in H2. lia.
  - unfold flushed_index. rewrite Hs, flushed_snoc by auto. unfold sync_ok in Hso. lia.
Qed.

(* ------------------------------------------------------------ the theorems of Props/C14.v *)

Theorem recovery_succeeds :
  forall segsize ops o k m choice,
    let r := rrun (init_rstate segsize) ops in
    exists L, recover segsize (image_of m (crash_disk r o k) choice) = Some L /\ wf_log L.
Proof.
  intros segsize ops o k m choice r.
  destruct (crash_good segsize ops o k m choice) as [L [H1 [H2 _]]]. exists L. split; assumption.
Qed.

Theorem recovered_entries_intact :
  forall segsize ops o k m choice L i b,
    let r := rrun (init_rstate segsize) ops in
    recover segsize (image_of m (crash_disk r o k) choice) = Some L ->
    a_get (abs L) i = Some b ->
    a_get (abs (r_log r)) i = Some b \/ a_get (abs (step (r_log r) o)) i = Some b.
Proof.
  intros segsize ops o k m choice L i b r Hrec Hg.
  destruct (crash_good segsize ops o k m choice) as [L' [H1 [_ [H3 _]]]].
  fold r in H1, H3. rewrite Hrec in H1. inversion H1; subst L'. left. now apply H3.
Qed.

Theorem committed_entries_survive :
  forall segsize ops o k m choice L i b,
    let r := rrun (init_rstate segsize) ops in
    recover segsize (image_of m (crash_disk r o k) choice) = Some L ->
    i <= flushed_index (r_log r) ->
    a_get (abs (r_log r)) i = Some b -> a_get (abs (step (r_log r) o)) i = Some b ->
    a_get (abs L) i = Some b.
Proof.
  intros segsize ops o k m choice L i b r Hrec Hf Hg Hg'.
  destruct (crash_good segsize ops o k m choice) as [L' [H1 [_ [_ H4]]]].
  fold r in H1, H4. rewrite Hrec in H1. inversion H1; subst L'. apply H4; [|exact Hg].
  split; [exact Hf|]. exists b. split; assumption.
Qed.

Theorem boundary_recovery :
  forall segsize ops m choice L i b,
    let r := rrun (init_rstate segsize) ops in
    recover segsize (image_of m (r_disk r) choice) = Some L ->
    a_get (abs L) i = Some b -> a_get (abs (r_log r)) i = Some b.
Proof.
  intros segsize ops m choice L i b r Hrec Hg.
  pose proof (shape_good segsize _ _ _ (R_shape _ (r_log r) _ (R_reach segsize ops)) m choice) as [L' [H1 [_ [H3 _]]]].
  fold r in H1, H3. rewrite Hrec in H1. inversion H1; subst L'. now apply H3.
Qed.

(* D12: a crash between OpenFile(O_CREATE) and Truncate in createSegment leaves a 0-byte file next to
   a full segment; before the repair Open failed on it.  Here: the second append rolls over; the
   crash comes after the three primitives of the commit and the creation of 1.log. *)
Theorem recovery_before_fix_refuted :
  exists segsize ops o k m choice,
    recover_before_fix segsize (image_of m (crash_disk (rrun (init_rstate segsize) ops) o k) choice) = None.
Proof.
  exists 1024, [OAppend (repeat 7 600)], (OAppend (repeat 8 600)), 4%nat, Kill, (fun _ => (true, [])).
  vm_compute. reflexivity.
Qed.

Example crash_example :
  exists L, recover 1024 (image_of PowerLoss
      (crash_disk (rrun (init_rstate 1024) [OAppend (repeat 7 600); OCommit; OAppend (repeat 8 600)]) (OAppend [1;2;3]) 0)
      (fun _ => (true, [[9;9]]))) = Some L /\ a_get (abs L) 1 = Some (repeat 7 600).
Proof.
  eexists. split; vm_compute; reflexivity.
Qed.
