(* Crash model of the segmented log (log/segment.go sync/removeGTE, log/log.go
   Append/CommitN/RemoveLTE/RemoveGTE/Reset, log/util.go createSegment/openSegments).

   Every operation is given as the sequence of file-system primitives it issues,
   in program order; a crash may happen between any two of them.  The disk is
   kept twice: [mem] is the content of the files as the page cache has it (what a
   process kill preserves: stores to a shared mapping are in the file at once) and
   [dur] is what the last completed msync of each file made durable (what a power
   loss guarantees).  Assumptions, stated here because they are not provable:
   creating, sizing and unlinking a file are atomic and durable when they return;
   msync(MS_SYNC) makes the whole mapping durable; pages reach the disk whole.
   No proofs in this file. *)
From Coq Require Import List NArith ZArith Bool.
From Verif Require Import Base.Bytes SegLog.Log SegLog.Spec.
Import ListNotations.
Open Scope N_scope.

Inductive prim :=
| PCreate (k : N)                       (* OpenFile(O_CREATE) of <k>.log: an empty (0 byte) file *)
| PSize (k : N) (cap : N)               (* Truncate + zeroed header/first offset + fsync: a valid empty segment *)
| PStoreEntry (k : N) (pos : nat) (b : bytes)
      (* segment.append: data and offset of entry pos+1 (overwrites whatever lay beyond pos) *)
| PStoreHeader (k : N) (n : N)          (* setOffset(n, 0): the entry count in the last 8 bytes *)
| PMsync (k : N)                        (* file.Sync() *)
| PUnlink (k : N).                      (* os.Remove *)

Record fimg := mkF { f_sized : bool; f_cap : N; f_hdr : N; f_ents : list bytes }.
Definition disk := list (N * fimg).     (* keyed by prevIndex (file name), any order *)

Fixpoint dget (k : N) (d : disk) : option fimg :=
  match d with [] => None | (k', f) :: r => if k' =? k then Some f else dget k r end.
Fixpoint dset (k : N) (f : fimg) (d : disk) : disk :=
  match d with
  | [] => [(k, f)]
  | (k', f') :: r => if k' =? k then (k, f) :: r else (k', f') :: dset k f r
  end.
Definition ddel (k : N) (d : disk) : disk := filter (fun p => negb (fst p =? k)) d.
Definition dupd (k : N) (g : fimg -> fimg) (d : disk) : disk :=
  match dget k d with Some f => dset k (g f) d | None => d end.

Record cstate := mkC { c_mem : disk; c_dur : disk }.

Definition apply_prim (c : cstate) (p : prim) : cstate :=
  match p with
  | PCreate k =>
      (* openSegment only creates a file that does not exist *)
      match dget k (c_mem c) with
      | Some _ => c
      | None => let f := mkF false 0 0 [] in mkC (dset k f (c_mem c)) (dset k f (c_dur c))
      end
  | PSize k cap =>
      let g f := if f_sized f then f else mkF true cap 0 [] in
      mkC (dupd k g (c_mem c)) (dupd k g (c_dur c))
  | PStoreEntry k pos b =>
      mkC (dupd k (fun f => mkF (f_sized f) (f_cap f) (f_hdr f) (firstn pos (f_ents f) ++ [b])) (c_mem c)) (c_dur c)
  | PStoreHeader k n =>
      mkC (dupd k (fun f => mkF (f_sized f) (f_cap f) n (f_ents f)) (c_mem c)) (c_dur c)
  | PMsync k =>
      match dget k (c_mem c) with
      | Some f => mkC (c_mem c) (dset k f (c_dur c))
      | None => c
      end
  | PUnlink k => mkC (ddel k (c_mem c)) (ddel k (c_dur c))
  end.

Definition apply_prims (c : cstate) (ps : list prim) : cstate := fold_left apply_prim ps c.

(* ------------------------------------------------------------ what each operation issues *)

(* segment.sync() *)
Definition sync_prims (s : seg) : list prim :=
  if s_dirty s then [PMsync (s_prev s); PStoreHeader (s_prev s) (s_n s); PMsync (s_prev s)] else [].

(* CommitN(n), on the reversed segment list, mirroring commitn_rev *)
Fixpoint commitn_prims (n : N) (rsegs : list seg) : list prim :=
  match rsegs with
  | [] => []
  | s :: r =>
      if s_dirty s then
        (if n <=? s_prev s then [] else sync_prims s) ++ commitn_prims n r
      else []
  end.
Definition commit_prims (l : log) : list prim :=
  match l_last l with Ok n => commitn_prims n (rev (l_segs l)) | _ => [] end.

Definition create_prims (k cap : N) : list prim := [PCreate k; PSize k cap].

(* segment.removeGTE(i) *)
Definition seg_removegte_prims (s : seg) (i : N) : list prim :=
  let n := i - s_prev s - 1 in
  if n <? s_n s then
    [PStoreHeader (s_prev s) n; PMsync (s_prev s); PStoreHeader (s_prev s) n; PMsync (s_prev s)]
  else sync_prims s.

Fixpoint removegte_prims (segsize : N) (i : N) (rsegs : list seg) : list prim :=
  match rsegs with
  | [] => create_prims (if 0 <? i then i - 1 else i) segsize
  | s :: r =>
      if i <=? s_prev s + 1 then
        match r with
        | [] => if i =? s_prev s + 1 then seg_removegte_prims s (s_prev s + 1)
                else PUnlink (s_prev s) :: removegte_prims segsize i r
        | _ => PUnlink (s_prev s) :: removegte_prims segsize i r
        end
      else seg_removegte_prims s (if s_last s <? i then s_last s + 1 else i)
  end.

(* the segments RemoveLTE drops, oldest first *)
Fixpoint dropped_lte (i : N) (segs : list seg) : list seg :=
  match segs with
  | s :: ((_ :: _) as r) =>
      if (0 <? s_n s) && (s_last s <=? i) then s :: dropped_lte i r else []
  | _ => []
  end.

Definition op_prims (l : log) (o : op) : list prim :=
  match o with
  | OAppend b =>
      match last_seg l with
      | None => []
      | Some s =>
          if (s_avail s <? Z.of_N (blen b))%Z then
            if s_n s =? 0 then []
            else
              let sz := if (Z.of_N (l_segsize l) - 24 <? Z.of_N (blen b))%Z then blen b + 24 else l_segsize l in
              commit_prims l ++ create_prims (s_last s) sz ++ [PStoreEntry (s_last s) 0 b]
          else [PStoreEntry (s_prev s) (length (s_ents s)) b]
      end
  | OCommit => commit_prims l
  | OCommitN n => commitn_prims n (rev (l_segs l))
  | ORemoveLTE i =>
      commit_prims l ++ map (fun s => PUnlink (s_prev s)) (dropped_lte i (l_segs (l_commit l)))
  | ORemoveGTE i =>
      commit_prims l ++ removegte_prims (l_segsize l) i (rev (l_segs (l_commit l)))
  | OReset i =>
      (* closeAndRemove of every segment, first to last (close syncs), then a fresh segment *)
      flat_map (fun s => sync_prims s ++ [PUnlink (s_prev s)]) (l_segs l) ++ create_prims i (l_segsize l)
  | OReopen _ => commit_prims l        (* Close commits; Open only reads (see [recover]) *)
  end.

(* ------------------------------------------------------------ crash images and recovery *)

Inductive crash_mode := Kill | PowerLoss.

Fixpoint common_prefix (a b : list bytes) : list bytes :=
  match a, b with
  | x :: a', y :: b' => if Log.blen x =? Log.blen y then
                          if forallb (fun p => fst p =? snd p) (combine x y) then x :: common_prefix a' b' else []
                        else []
  | _, _ => []
  end.

(* what may be found in file k after a crash.  Kill: the page-cache content.
   PowerLoss: the header is the durable one or the cached one (its page was written back or
   not); the entries that are the same in both images are intact, anything beyond is
   unspecified (represented by the list [junk]). *)
Definition file_image (m : crash_mode) (mem dur : fimg) (hdr_new : bool) (junk : list bytes) : fimg :=
  match m with
  | Kill => mem
  | PowerLoss =>
      mkF (f_sized mem) (f_cap mem) (if hdr_new then f_hdr mem else f_hdr dur)
          (common_prefix (f_ents mem) (f_ents dur) ++ junk)
  end.

(* an image of the whole directory: per file a choice; files exist iff they exist in mem
   (directory operations are durable) *)
Definition image_of (m : crash_mode) (c : cstate) (choice : N -> bool * list bytes) : disk :=
  map (fun p => let k := fst p in
                let dur := match dget k (c_dur c) with Some f => f | None => snd p end in
                (k, file_image m (snd p) dur (fst (choice k)) (snd (choice k)))) (c_mem c).

(* Open: what log.Open makes of a directory.  None = Open fails. *)
Fixpoint insert_key (p : N * fimg) (l : list (N * fimg)) : list (N * fimg) :=
  match l with
  | [] => [p]
  | q :: r => if fst p <? fst q then p :: l else q :: insert_key p r
  end.
Definition sort_disk (d : disk) : disk := fold_right insert_key [] d.

Definition open_file (segsize : N) (k : N) (f : fimg) : option seg :=
  if f_sized f then
    (* the header counts entries; reading more than are stored is a corrupt file *)
    if N.of_nat (length (f_ents f)) <? f_hdr f then None
    else Some (mkSeg k (f_cap f) (firstn (N.to_nat (f_hdr f)) (f_ents f)) (Z.of_N (f_hdr f)))
  else Some (new_seg k segsize).   (* a 0-byte file (crash between create and size) is sized now *)

(* before the repair recorded in known_findings.json (D12) a 0-byte file could not be
   mapped (mmap: EINVAL) and Open failed; kept for the refutation *)
Definition open_file_before_fix (k : N) (f : fimg) : option seg :=
  if f_sized f then open_file 0 k f else None.

Fixpoint open_chain (segsize : N) (last : seg) (rest : list (N * fimg)) : option (list seg) :=
  match rest with
  | [] => Some [last]
  | (k, f) :: r =>
      if (0 <? s_n last) && (k =? s_last last) then
        match open_file segsize k f with
        | Some s => match open_chain segsize s r with Some l => Some (last :: l) | None => None end
        | None => None
        end
      else Some [last]         (* dangling segment: removed; openSegments then returns (early return on success) *)
  end.

Definition recover (segsize : N) (d : disk) : option log :=
  match sort_disk d with
  | [] => Some (mkLog segsize [new_seg 0 segsize])          (* no files: 0.log is created *)
  | (k, f) :: r =>
      match open_file segsize k f with
      | None => None
      | Some s => match open_chain segsize s r with Some l => Some (mkLog segsize l) | None => None end
      end
  end.

Definition recover_before_fix (segsize : N) (d : disk) : option log :=
  if forallb (fun p => f_sized (snd p)) d then recover segsize d else None.

(* the disk a log value stands for when nothing is in flight *)
Definition disk_of_seg (s : seg) (flushed : bool) : fimg :=
  mkF true (s_cap s) (if flushed then s_n s else Z.to_N (Z.max 0 (s_synced s))) (s_ents s).

(* ------------------------------------------------------------ running with crashes *)
(* state of the model while executing operations: the entry-level log plus the two disk images *)
Record rstate := mkR { r_log : log; r_disk : cstate }.

Definition init_rstate (segsize : N) : rstate :=
  mkR (open_log segsize) (apply_prims (mkC [] []) (create_prims 0 segsize)).

Definition rstep (r : rstate) (o : op) : rstate :=
  mkR (step (r_log r) o) (apply_prims (r_disk r) (op_prims (r_log r) o)).
Definition rrun (r : rstate) (ops : list op) : rstate := fold_left rstep ops r.

(* crash after the first [k] primitives of operation [o] issued in state [r] *)
Definition crash_disk (r : rstate) (o : op) (k : nat) : cstate :=
  apply_prims (r_disk r) (firstn k (op_prims (r_log r) o)).
