(* The abstract sequence a segmented log stands for, the abstraction function,
   the operation alphabet and the abstract transition relation.  No proofs. *)
From Coq Require Import List NArith ZArith Bool.
From Verif Require Import Base.Bytes SegLog.Log.
Import ListNotations.
Open Scope N_scope.

Record alog := mkALog { a_prev : N; a_ents : list bytes }.

Definition a_last (a : alog) : N := a_prev a + N.of_nat (length (a_ents a)).
(* entry at index i *)
Definition a_get (a : alog) (i : N) : option bytes :=
  if a_prev a <? i then nth_error (a_ents a) (N.to_nat (i - a_prev a - 1)) else None.
(* entries i .. i+n-1 *)
Definition a_getn (a : alog) (i n : N) : list bytes :=
  firstn (N.to_nat n) (skipn (N.to_nat (i - a_prev a - 1)) (a_ents a)).
Definition a_contains (a : alog) (i : N) : bool := (a_prev a <? i) && (i <=? a_last a).

Definition abs (l : log) : alog :=
  mkALog (match l_segs l with s :: _ => s_prev s | [] => 0 end) (concat (map s_ents (l_segs l))).

(* well-formed chain of segments *)
Fixpoint chain (segs : list seg) : Prop :=
  match segs with
  | [] => True
  | s :: r =>
      match r with
      | [] => True
      | s2 :: _ => s_prev s2 = s_last s /\ s_ents s <> [] /\ chain r
      end
  end.
Definition wf_log (l : log) : Prop := l_segs l <> [] /\ chain (l_segs l).

Inductive op :=
| OAppend (b : bytes)
| OCommit
| OCommitN (n : N)
| ORemoveLTE (i : N)
| ORemoveGTE (i : N)
| OReset (i : N)
| OReopen (segsize : N).

Definition step (l : log) (o : op) : log :=
  match o with
  | OAppend b => snd (l_append l b)
  | OCommit => l_commit l
  | OCommitN n => l_commitn l n
  | ORemoveLTE i => l_removelte l i
  | ORemoveGTE i => l_removegte l i
  | OReset i => l_reset l i
  | OReopen sz => l_reopen l sz
  end.

Definition a_removegte (a : alog) (i : N) : alog :=
  if i <=? a_prev a then mkALog (if 0 <? i then i - 1 else i) []
  else mkALog (a_prev a) (firstn (N.to_nat (i - a_prev a - 1)) (a_ents a)).

(* what each operation may do to the abstract sequence *)
Definition astep (a : alog) (o : op) (a' : alog) : Prop :=
  match o with
  | OAppend b => a' = mkALog (a_prev a) (a_ents a ++ [b]) \/ a' = a          (* appended, or refused and unchanged *)
  | OCommit | OCommitN _ | OReopen _ => a' = a
  | ORemoveLTE i =>                                                          (* a front part, never beyond i *)
      a_prev a <= a_prev a' /\ a_prev a' <= N.max (a_prev a) i /\ a_prev a' <= a_last a /\
      a_ents a' = skipn (N.to_nat (a_prev a' - a_prev a)) (a_ents a)
  | ORemoveGTE i => a' = a_removegte a i
  | OReset i => a' = mkALog i []
  end.

Definition open_log (segsize : N) : log := mkLog segsize [new_seg 0 segsize].
Definition run (l : log) (ops : list op) : log := fold_left step ops l.
