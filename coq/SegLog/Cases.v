(* Correspondence cases for the segmented-log model: go/inlog/ops.go runs the
   real package on generated operation sequences and prints, for every step,
   the implementation's own pre-state, the operation, what it returned and the
   post-state.  Executable only. *)
From Coq Require Import List NArith ZArith Bool.
From Verif Require Import Base.Bytes SegLog.Log SegLog.Spec SegLog.Crash SegLog.Segment.
Import ListNotations.
Open Scope N_scope.

(* compact literal for generated payloads: a, a+1, ... (mod 256), n bytes *)
Fixpoint pat_nat (a : N) (n : nat) : bytes :=
  match n with O => [] | S k => (a mod 256) :: pat_nat (a + 1) k end.
Definition pat (a n : N) : bytes := pat_nat a (N.to_nat n).

Fixpoint bytes_eqb (a b : bytes) : bool :=
  match a, b with
  | [], [] => true
  | x :: a', y :: b' => (x =? y) && bytes_eqb a' b'
  | _, _ => false
  end.
Fixpoint list_eqb {A} (eqb : A -> A -> bool) (a b : list A) : bool :=
  match a, b with
  | [], [] => true
  | x :: a', y :: b' => eqb x y && list_eqb eqb a' b'
  | _, _ => false
  end.
Definition seg_eqb (a b : seg) : bool :=
  (s_prev a =? s_prev b) && (s_cap a =? s_cap b) && list_eqb bytes_eqb (s_ents a) (s_ents b) &&
  (s_synced a =? s_synced b)%Z.
Definition log_eqb (a b : log) : bool :=
  (l_segsize a =? l_segsize b) && list_eqb seg_eqb (l_segs a) (l_segs b).

Inductive read :=
| RGet (i : N) | RGetN (i n : N) | RPrev | RLast | RCount | RContains (i : N) | RCanLTE (i : N)
| RViewAt (p q : N).
Inductive robs :=
| OBytes (b : bytes) | OBufs (l : list bytes) | ON (n : N) | OBool (b : bool)
| ONotFound | OPanic | OViewNil | OViewOk.

Definition obs_of_resN (r : res N) : robs := match r with Ok n => ON n | ErrNotFound => ONotFound | _ => OPanic end.

Definition model_read (h : handle) (l : option log) (rd : read) : robs :=
  match rd with
  | RGet i => match h_get h i with Ok b => OBytes b | ErrNotFound => ONotFound | _ => OPanic end
  | RGetN i n => match h_getn h i n with Ok l => OBufs l | ErrNotFound => ONotFound | _ => OPanic end
  | RPrev => obs_of_resN (h_prev h)
  | RLast => obs_of_resN (h_last h)
  | RCount => obs_of_resN (h_count h)
  | RContains i => match h_contains h i with Ok b => OBool b | _ => OPanic end
  | RCanLTE i => match l with Some l => obs_of_resN (l_canlte l i) | None => OPanic end
  | RViewAt p q => match l with
                   | Some l => match l_viewat l p q with Ok None => OViewNil | Ok (Some _) => OViewOk | _ => OPanic end
                   | None => OPanic end
  end.

Definition robs_eqb (a b : robs) : bool :=
  match a, b with
  | OBytes x, OBytes y => bytes_eqb x y
  | OBufs x, OBufs y => list_eqb bytes_eqb x y
  | ON x, ON y => x =? y
  | OBool x, OBool y => Bool.eqb x y
  | ONotFound, ONotFound | OPanic, OPanic | OViewNil, OViewNil | OViewOk, OViewOk => true
  | _, _ => false
  end.

Inductive sres := SOk | SExceeds | SPanic.
Definition sres_eqb (a b : sres) : bool :=
  match a, b with SOk, SOk | SExceeds, SExceeds | SPanic, SPanic => true | _, _ => false end.

Definition model_step (l : log) (o : op) : sres * log :=
  match o with
  | OAppend b => match l_append l b with
                 | (Ok _, l') => (SOk, l') | (ErrExceeds, l') => (SExceeds, l') | (_, l') => (SPanic, l') end
  | _ => (SOk, step l o)
  end.

(* ---- crash cases: the harness copies the directory at every verifPoint of an operation
   (process-kill images) and mixes pages of the last flushed copy with the current one
   (power-loss images), reopens each with the real Open and prints what came back *)
Definition olog_eqb (a b : option log) : bool :=
  match a, b with
  | None, None => true
  | Some x, Some y => list_eqb seg_eqb (l_segs x) (l_segs y)
  | _, _ => false
  end.

(* observed images must match the model's images at non-decreasing crash points *)
Fixpoint drop_until (x : option log) (model : list (option log)) : list (option log) :=
  match model with
  | [] => []
  | y :: r => if olog_eqb x y then model else drop_until x r
  end.
Fixpoint match_incr (model obs : list (option log)) : bool :=
  match obs with
  | [] => true
  | x :: xs => match drop_until x model with [] => false | m => match_incr m xs end
  end.

(* all ways of choosing, per file, whether the header page reached the disk *)
Fixpoint choices (keys : list N) : list (N -> bool * list bytes) :=
  match keys with
  | [] => [fun _ => (true, [])]
  | k :: r => flat_map (fun f => [fun x => if x =? k then (true, []) else f x;
                                  fun x => if x =? k then (false, []) else f x]) (choices r)
  end.

Definition crash_points (l : log) (o : op) : list nat := seq 0 (S (length (op_prims l o))).

Definition model_kill (segsize : N) (c : cstate) (l : log) (o : op) : list (option log) :=
  map (fun k => recover segsize (image_of Kill (apply_prims c (firstn k (op_prims l o))) (fun _ => (true, []))))
      (crash_points l o).
(* the files for which it matters whether the header page reached the disk: those whose cached header
   differs from the durable one (for the others both choices give the same image; enumerating them too
   made the number of images exponential in the number of segment files) *)
Definition hdr_dirty_keys (c : cstate) : list N :=
  map fst (filter (fun p => match dget (fst p) (c_dur c) with
                            | Some d => negb (f_hdr (snd p) =? f_hdr d)
                            | None => false
                            end) (c_mem c)).

Definition model_power (segsize : N) (c : cstate) (l : log) (o : op) : list (option log) :=
  flat_map (fun k => let c' := apply_prims c (firstn k (op_prims l o)) in
                     map (fun ch => recover segsize (image_of PowerLoss c' ch)) (choices (hdr_dirty_keys c')))
           (crash_points l o).

Inductive lcase :=
| LCrash (id : N) (segsize : N) (pre : log) (c : cstate) (o : op) (kill power : list (option log))
| LStep (id : N) (pre : log) (o : op) (r : sres) (post : log)
| LRead (id : N) (pre : log) (rd : read) (obs : robs)
| LView (id : N) (at_creation : log) (p q : N) (now : log) (rd : read) (obs : robs)
| LBytes (id : N) (cap : N) (ents : list bytes) (hdr : N) (data : bytes).
    (* the raw bytes of one segment file of the real log, next to the entries the harness read from it
       and the header value: the file must be an image of those entries (SegLog/Segment.v b_matches_wf) *)

Definition check_lcase (c : lcase) : bool :=
  match c with
  | LCrash _ segsize pre cs o kill power =>
      match_incr (model_kill segsize cs pre o) kill &&
      forallb (fun x => existsb (olog_eqb x) (model_power segsize cs pre o)) power
  | LStep _ pre o r post =>
      let (r', post') := model_step pre o in sres_eqb r r' && log_eqb post post'
  | LRead _ pre rd obs => robs_eqb (model_read (handle_of pre) (Some pre) rd) obs
  | LView _ l0 p q now rd obs =>
      match l_viewat l0 p q with
      | Ok (Some v) => robs_eqb (model_read (view_handle now v) None rd) obs
      | _ => false
      end
  | LBytes _ cap ents hdr data => b_matches_wf data cap ents hdr
  end.
Definition lcase_id (c : lcase) : N :=
  match c with LCrash i _ _ _ _ _ _ | LStep i _ _ _ _ | LRead i _ _ _ | LView i _ _ _ _ _ _ | LBytes i _ _ _ _ => i end.
Definition mismatches (l : list lcase) : list N :=
  map lcase_id (filter (fun c => negb (check_lcase c)) l).
