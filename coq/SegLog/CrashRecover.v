(* Crash consistency of the segmented log, part 2: what recovery makes of the crash image of a
   described disk; the shape every intermediate disk has and why it is good enough. *)
From Coq Require Import List NArith ZArith Bool Lia ZifyN ZifyNat ZifyBool.
From Verif Require Import Base.Bytes SegLog.Log SegLog.Spec SegLog.Chain SegLog.Reads SegLog.Ops SegLog.Crash
  SegLog.CrashBase.
Import ListNotations.
Open Scope N_scope.

(* ------------------------------------------------------------ one file *)

Lemma firstn_eq_len {A} (E l : list A) : firstn (length E) l = E -> (length E <= length l)%nat.
Proof. intro H. apply (f_equal (@length A)) in H. rewrite firstn_length in H. lia. Qed.

Lemma firstn_trans_le {A} n k (l E : list A) : firstn n l = firstn n E -> (k <= n)%nat -> firstn k l = firstn k E.
Proof.
  intros H Hk. transitivity (firstn k (firstn n l)).
  - rewrite firstn_firstn. f_equal. lia.
  - rewrite H, firstn_firstn. f_equal. lia.
Qed.

Definition rec_ok (sz : N) (d : fdesc) (p : N * fimg) : Prop :=
  fst p = d_key d /\
  exists t h, open_file sz (d_key d) (snd p) = Some t /\ s_prev t = d_key d /\ s_ents t = firstn h (d_E d) /\
    N.min (d_hm d) (d_hd d) <= N.of_nat h /\ (h <= length (d_E d))%nat.

Lemma file_recover sz m d fm fd hn junk :
  fpair d fm fd -> rec_ok sz d (d_key d, file_image m fm fd hn junk).
Proof.
  intro Hf. split; [reflexivity|]. simpl snd. unfold fpair in Hf. destruct (d_sized d) eqn:Hs.
  - destruct Hf as [F1 [F2 [F3 [F4 [F5 [F6 [F7 [F8 F9]]]]]]]].
    pose proof (firstn_eq_len _ _ F5) as Lm.
    assert (Gm : firstn (d_stab d) (f_ents fm) = firstn (d_stab d) (d_E d)).
    { apply firstn_trans_le with (n := length (d_E d)); [|exact F9]. rewrite F5. now rewrite firstn_all. }
    destruct m; simpl file_image.
    + exists (mkSeg (d_key d) (f_cap fm) (firstn (N.to_nat (f_hdr fm)) (f_ents fm)) (Z.of_N (f_hdr fm))), (N.to_nat (d_hm d)).
      unfold open_file. rewrite F1.
      replace (N.of_nat (length (f_ents fm)) <? f_hdr fm) with false by lia.
      split; [reflexivity|]. split; [reflexivity|]. simpl s_ents. split; [|lia].
      rewrite F3. apply firstn_trans_le with (n := d_stab d); [exact Gm|lia].
    + set (hh := if hn then f_hdr fm else f_hdr fd).
      set (cp := common_prefix (f_ents fm) (f_ents fd)).
      assert (Ld : (d_stab d <= length (f_ents fd))%nat).
      { apply (firstn_length_ge _ _ _ F6). lia. }
      assert (Gc : firstn (d_stab d) cp = firstn (d_stab d) (d_E d)).
      { unfold cp. rewrite common_prefix_firstn; [exact Gm| |lia|exact Ld]. now rewrite Gm, F6. }
      assert (Lc : (d_stab d <= length cp)%nat).
      { apply (firstn_length_ge _ _ _ Gc). lia. }
      assert (Hh : (N.to_nat hh <= d_stab d)%nat) by (unfold hh; destruct hn; lia).
      exists (mkSeg (d_key d) (f_cap fm) (firstn (N.to_nat hh) (cp ++ junk)) (Z.of_N hh)), (N.to_nat hh).
      unfold open_file. simpl f_sized. rewrite F1. simpl f_hdr. fold hh. simpl f_ents. fold cp.
      replace (N.of_nat (length (cp ++ junk)) <? hh) with false by (rewrite app_length; lia).
      split; [reflexivity|]. split; [reflexivity|]. simpl s_ents. split; [|unfold hh; destruct hn; lia].
      rewrite firstn_app_le by lia. apply firstn_trans_le with (n := d_stab d); [exact Gc|lia].
  - destruct Hf as [F1 [F2 [F3 [F4 [F5 F6]]]]]. subst fm fd.
    exists (new_seg (d_key d) sz), 0%nat.
    assert (Eo : open_file sz (d_key d) (file_image m (mkF false 0 0 []) (mkF false 0 0 []) hn junk) = Some (new_seg (d_key d) sz)).
    { destruct m; reflexivity. }
    rewrite Eo, F3, F4, F5. simpl. repeat split; auto; lia.
Qed.

(* ------------------------------------------------------------ the whole image *)

Definition img1 (m : crash_mode) (durfull : disk) (choice : N -> bool * list bytes) (p : N * fimg) : N * fimg :=
  let k := fst p in
  let dur := match dget k durfull with Some f => f | None => snd p end in
  (k, file_image m (snd p) dur (fst (choice k)) (snd (choice k))).

Lemma image_of_eq m c choice : image_of m c choice = map (img1 m (c_dur c) choice) (c_mem c).
Proof. reflexivity. Qed.

Lemma image_rec_aux sz m choice durfull ds mem dur :
  D3 ds mem dur -> (forall k fd, In (k, fd) dur -> dget k durfull = Some fd) ->
  Forall2 (rec_ok sz) ds (map (img1 m durfull choice) mem).
Proof.
  induction 1 as [|d fm fd ds mem dur Hp H IH]; intro Hd; simpl; constructor.
  - unfold img1. simpl fst. simpl snd. rewrite (Hd (d_key d) fd) by (left; reflexivity).
    now apply file_recover.
  - apply IH. intros k f Hin. apply Hd. now right.
Qed.

Lemma image_rec sz m choice ds c :
  DS ds c -> NoDup (dkeys ds) -> Forall2 (rec_ok sz) ds (image_of m c choice).
Proof.
  intros H Hnd. rewrite image_of_eq. eapply image_rec_aux; [exact H|].
  intros k fd Hin. apply dget_in_nodup; [|exact Hin].
  destruct (D3_keys _ _ _ H) as [_ K]. now rewrite K.
Qed.

Lemma rec_ok_keys sz ds img : Forall2 (rec_ok sz) ds img -> keys img = dkeys ds.
Proof. induction 1 as [|d p ds img [Hk _] F IH]; simpl; [reflexivity|]. now rewrite Hk, IH. Qed.

(* ------------------------------------------------------------ opening the chain *)

Lemma open_file_prev sz k f s : open_file sz k f = Some s -> s_prev s = k.
Proof.
  unfold open_file. destruct (f_sized f); [destruct (_ <? _)|]; intro H; inversion H; reflexivity.
Qed.

Lemma open_chain_wf sz : forall rest t l, open_chain sz t rest = Some l -> exists l', l = t :: l' /\ chain l.
Proof.
  induction rest as [|[k f] r IH]; intros t l H; simpl in H.
  - inversion H. exists []. split; simpl; auto.
  - destruct ((0 <? s_n t) && (k =? s_last t)) eqn:E.
    + destruct (open_file sz k f) as [s|] eqn:Eo; [|discriminate].
      destruct (open_chain sz s r) as [l0|] eqn:Ec; [|discriminate].
      inversion H; subst. destruct (IH _ _ Ec) as [l' [El Hc]]. subst l0.
      exists (s :: l'). split; [reflexivity|]. apply chain_cons2.
      apply open_file_prev in Eo. split; [lia|]. split; [|exact Hc].
      intro X. unfold s_n in E. rewrite X in E. simpl in E. discriminate.
    + inversion H. exists []. split; simpl; auto.
Qed.

Lemma open_chain_empties sz : forall N img t,
  Forall2 (rec_ok sz) N img -> Forall (fun x => d_E x = []) N ->
  exists N', open_chain sz t img = Some (t :: N') /\ Forall (fun x => s_ents x = []) N'.
Proof.
  intros N img t F. revert t. induction F as [|x [k f] N img [Hk [t' [h [Ho [Hp [He _]]]]]] F IH]; intros t HN.
  - exists []. split; [reflexivity|constructor].
  - inversion HN as [|? ? Hx HN']; subst. simpl in Hk. subst k. simpl in Ho. simpl open_chain.
    destruct ((0 <? s_n t) && (d_key x =? s_last t)).
    + rewrite Ho. destruct (IH t' HN') as [N' [E1 E2]]. rewrite E1.
      exists (t' :: N'). split; [reflexivity|]. constructor; [|exact E2].
      rewrite He, Hx. now destruct h.
    + exists []. split; [reflexivity|constructor].
Qed.

Lemma exact_rec_eqv sz a p : rec_ok sz (exact a) p ->
  exists t, open_file sz (s_prev a) (snd p) = Some t /\ seg_eqv a t /\ fst p = s_prev a.
Proof.
  intros [Hk [t [h [Ho [Hp [He [Hm Hl]]]]]]]. simpl in *. exists t. split; [exact Ho|]. split; [|exact Hk].
  split; [now rewrite Hp|]. rewrite He. symmetry. apply firstn_all2. unfold s_n in Hm. lia.
Qed.

Lemma open_chain_shape sz s d N : d_key d = s_prev s -> d_E d = s_ents s -> Forall (fun x => d_E x = []) N ->
  forall A a0 t0 img,
  seg_eqv a0 t0 -> Forall2 (rec_ok sz) (map exact A ++ d :: N) img -> chain (a0 :: A ++ [s]) ->
  exists A' t N' h, open_chain sz t0 img = Some (t0 :: A' ++ t :: N') /\ Forall2 seg_eqv A A' /\
    s_prev t = s_prev s /\ s_ents t = firstn h (s_ents s) /\ N.min (d_hm d) (d_hd d) <= N.of_nat h /\
    (h <= length (s_ents s))%nat /\ Forall (fun x => s_ents x = []) N'.
Proof.
  intros Hk HE HN. induction A as [|a1 A IH]; intros a0 t0 img Heq F Hc.
  - simpl in F. inversion F as [|? [k f] ? imgN [Hk' [t [h [Ho [Hp [He [Hm Hl]]]]]]] F']; subst.
    simpl in Hk'. subst k. simpl in Ho. simpl app in Hc. apply chain_cons2 in Hc. destruct Hc as [C1 [C2 _]].
    simpl open_chain.
    assert (Hn0 : 0 < s_n t0).
    { rewrite <- (seg_eqv_n _ _ Heq). unfold s_n. destruct (s_ents a0); [congruence|simpl; lia]. }
    assert (Hl0 : d_key d = s_last t0) by (rewrite <- (seg_eqv_last _ _ Heq); congruence).
    replace ((0 <? s_n t0) && (d_key d =? s_last t0)) with true by lia.
    rewrite Ho. destruct (open_chain_empties sz N imgN t F' HN) as [N' [E1 E2]]. rewrite E1.
    exists [], t, N', h. simpl. rewrite <- Hk, <- HE. repeat split; auto.
  - simpl in F. inversion F as [|? [k f] ? img' Hr F']; subst.
    destruct (exact_rec_eqv _ _ _ Hr) as [t1 [Ho [Heq1 Hk1]]]. simpl in Hk1, Ho. subst k.
    simpl app in Hc. pose proof Hc as Hc0. apply chain_cons2 in Hc. destruct Hc as [C1 [C2 C3]].
    simpl open_chain.
    assert (Hn0 : 0 < s_n t0).
    { rewrite <- (seg_eqv_n _ _ Heq). unfold s_n. destruct (s_ents a0); [congruence|simpl; lia]. }
    assert (Hl0 : s_prev a1 = s_last t0) by (rewrite <- (seg_eqv_last _ _ Heq); congruence).
    replace ((0 <? s_n t0) && (s_prev a1 =? s_last t0)) with true by lia.
    rewrite Ho. destruct (IH a1 t1 img' Heq1 F' C3) as [A' [t [N' [h [E1 [E2 E3]]]]]].
    rewrite E1. exists (t1 :: A'), t, N', h. split; [reflexivity|]. split; [constructor; auto|exact E3].
Qed.

Lemma recover_wf sz d L : recover sz d = Some L -> wf_log L.
Proof.
  unfold recover. destruct (sort_disk d) as [|[k f] r].
  - intro H; inversion H. split; simpl; [discriminate|exact I].
  - destruct (open_file sz k f) as [s0|]; [|discriminate].
    destruct (open_chain sz s0 r) as [l0|] eqn:Ec; [|discriminate]. intro H; inversion H.
    destruct (open_chain_wf _ _ _ _ Ec) as [l' [E1 E2]]. split; simpl.
    + subst l0; discriminate.
    + exact E2.
Qed.

(* ------------------------------------------------------------ abstract content of what is recovered *)

Definition sub_alog (a' a : alog) : Prop := forall i b, a_get a' i = Some b -> a_get a i = Some b.

Lemma sub_alog_refl a : sub_alog a a.
Proof. intros i b H; exact H. Qed.
Lemma sub_alog_trans a b c : sub_alog a b -> sub_alog b c -> sub_alog a c.
Proof. intros H1 H2 i x H. auto. Qed.

Lemma ents_of_empties N' : Forall (fun x => s_ents x = []) N' -> ents_of N' = [].
Proof. induction 1 as [|x N' Hx _ IH]; [reflexivity|]. rewrite ents_of_cons, Hx, IH. reflexivity. Qed.

Lemma abs_recovered A A' s t N' h :
  Forall2 seg_eqv A A' -> s_prev t = s_prev s -> s_ents t = firstn h (s_ents s) ->
  Forall (fun x => s_ents x = []) N' ->
  abs_segs (A' ++ t :: N') = mkALog (hdprev (A ++ [s])) (ents_of A ++ firstn h (s_ents s)).
Proof.
  intros F Hp He HN. unfold abs_segs. f_equal.
  - inversion F as [|x y ? ? [Hxy _] _]; subst; simpl; auto.
  - rewrite ents_of_app, ents_of_cons, (ents_of_empties _ HN), app_nil_r, He. now rewrite (eqv_ents _ _ F).
Qed.

Lemma nth_error_prefix {A} (X E : list A) h j b :
  nth_error (X ++ firstn h E) j = Some b -> nth_error (X ++ E) j = Some b.
Proof.
  intro H. rewrite <- (firstn_skipn h E) at 1. rewrite app_assoc. rewrite nth_error_app1; [exact H|].
  apply nth_error_Some. congruence.
Qed.

Lemma a_get_some_lt a i b : a_get a i = Some b -> a_prev a < i /\ i <= a_last a.
Proof.
  unfold a_get, a_last. destruct (a_prev a <? i) eqn:E; [|discriminate]. intro H.
  assert (X : nth_error (a_ents a) (N.to_nat (i - a_prev a - 1)) <> None) by congruence.
  apply nth_error_Some in X. lia.
Qed.

Lemma chain_incr segs : chain segs -> incr (map s_prev segs).
Proof.
  induction segs as [|s r IH]; intro H; simpl; [exact I|]. split.
  - destruct r as [|y r]; [constructor|]. apply Forall_map. apply chain_after_lt; [exact H|discriminate].
  - apply IH. eapply chain_tail; eauto.
Qed.

Lemma dkeys_exact A : dkeys (map exact A) = map s_prev A.
Proof. unfold dkeys. rewrite map_map. reflexivity. Qed.

(* ------------------------------------------------------------ the shape of every intermediate disk *)

Definition Shape (a : alog) (need : N -> Prop) (c : cstate) : Prop :=
  (c_mem c = [] /\ forall i, ~ need i) \/
  exists A s d N,
    d_key d = s_prev s /\ d_E d = s_ents s /\ DS (map exact A ++ d :: N) c /\
    chain (A ++ [s]) /\ sub_alog (abs_segs (A ++ [s])) a /\
    (forall i, need i -> hdprev (A ++ [s]) < i /\ i <= s_prev s + N.min (d_hm d) (d_hd d)) /\
    Forall (fun x => d_E x = [] /\ s_prev s < d_key x) N /\ incr (dkeys N).

Definition Good (sz : N) (a : alog) (need : N -> Prop) (c : cstate) : Prop :=
  forall m choice, exists L,
    recover sz (image_of m c choice) = Some L /\ wf_log L /\ sub_alog (abs L) a /\
    (forall i b, need i -> a_get a i = Some b -> a_get (abs L) i = Some b).

Lemma shape_incr A s d N :
  d_key d = s_prev s -> chain (A ++ [s]) -> Forall (fun x => d_E x = [] /\ s_prev s < d_key x) N -> incr (dkeys N) ->
  incr (dkeys (map exact A ++ d :: N)).
Proof.
  intros Hk Hc HN Hi. rewrite dkeys_app, dkeys_exact. simpl dkeys.
  pose proof (chain_incr _ Hc) as Hci. rewrite map_app in Hci. simpl in Hci. rewrite Hk.
  change (map s_prev A ++ s_prev s :: dkeys N) with (map s_prev A ++ [s_prev s] ++ dkeys N).
  rewrite app_assoc. apply incr_app; [exact Hci|exact Hi|].
  intros x y Hx Hy. unfold dkeys in Hy. apply in_map_iff in Hy. destruct Hy as [z [Ez Hz]]. subst y.
  rewrite Forall_forall in HN. destruct (HN z Hz) as [_ Hlt].
  apply in_app_or in Hx. destruct Hx as [Hx|[Hx|[]]]; [|lia].
  assert (x < s_prev s); [|lia]. eapply incr_app_lt; [exact Hci|exact Hx|now left].
Qed.

Theorem shape_good sz a need c : Shape a need c -> Good sz a need c.
Proof.
  intros [[Hm Hn]|[A [s [d [N [Hk [HE [HD [Hc [Hsub [Hneed [HN Hi]]]]]]]]]]]] m choice.
  - rewrite image_of_eq, Hm. simpl. exists (mkLog sz [new_seg 0 sz]). split; [reflexivity|].
    split; [split; simpl; [discriminate|exact I]|]. split.
    + intros i b H. unfold a_get, abs in H. simpl in H. destruct (0 <? i); [|discriminate].
      destruct (N.to_nat (i - 0 - 1)); discriminate.
    + intros i b Hi. exfalso. exact (Hn i Hi).
  - pose proof (shape_incr _ _ _ _ Hk Hc HN Hi) as Hinc.
    pose proof (image_rec sz m choice _ _ HD (incr_nodup _ Hinc)) as F.
    assert (HN' : Forall (fun x => d_E x = []) N) by (eapply Forall_impl; [|exact HN]; simpl; tauto).
    assert (HL : exists A' t N' h, recover sz (image_of m c choice) = Some (mkLog sz (A' ++ t :: N')) /\
               Forall2 seg_eqv A A' /\ s_prev t = s_prev s /\ s_ents t = firstn h (s_ents s) /\
               N.min (d_hm d) (d_hd d) <= N.of_nat h /\ (h <= length (s_ents s))%nat /\
               Forall (fun x => s_ents x = []) N').
    { unfold recover. rewrite sort_disk_sorted by (rewrite (rec_ok_keys _ _ _ F); exact Hinc).
      destruct A as [|a1 A].
      - simpl in F. inversion F as [|? [k f] ? imgN [Hk' [t [h [Ho [Hp [He [Hm Hl]]]]]]] F']; subst.
        simpl in Hk'. subst k. simpl in Ho. rewrite Ho.
        destruct (open_chain_empties sz N imgN t F' HN') as [N' [E1 E2]]. rewrite E1.
        exists [], t, N', h. simpl. rewrite <- Hk, <- HE. repeat split; auto.
      - simpl in F. inversion F as [|? [k f] ? img' Hr F']; subst.
        destruct (exact_rec_eqv _ _ _ Hr) as [t1 [Ho [Heq1 Hk1]]]. simpl in Hk1, Ho. subst k. rewrite Ho.
        destruct (open_chain_shape sz s d N Hk HE HN' A a1 t1 img' Heq1 F' Hc) as [A' [t [N' [h [E1 [E2 E3]]]]]].
        rewrite E1. exists (t1 :: A'), t, N', h. split; [reflexivity|]. split; [constructor; auto|exact E3]. }
    destruct HL as [A' [t [N' [h [Hrec [Heqv [Hp [He [Hmin [Hlen HNe]]]]]]]]]].
    exists (mkLog sz (A' ++ t :: N')). split; [exact Hrec|].
    assert (Hwf : wf_log (mkLog sz (A' ++ t :: N'))).
    { eapply recover_wf; eauto. }
    split; [exact Hwf|].
    pose proof (abs_recovered A A' s t N' h Heqv Hp He HNe) as Habs.
    assert (Hfull : abs_segs (A ++ [s]) = mkALog (hdprev (A ++ [s])) (ents_of A ++ s_ents s)).
    { unfold abs_segs. now rewrite ents_of_snoc. }
    assert (Hsub1 : sub_alog (abs (mkLog sz (A' ++ t :: N'))) a).
    { intros i b H. apply Hsub. rewrite abs_eq in H. simpl l_segs in H. rewrite Habs in H. rewrite Hfull.
      unfold a_get in *. simpl in *. destruct (hdprev (A ++ [s]) <? i); [|discriminate].
      eapply nth_error_prefix; eauto. }
    split; [exact Hsub1|].
    intros i b Hni Hg. destruct (Hneed i Hni) as [H1 H2].
    pose proof (chain_app_len A s [] Hc) as Hkey.
    destruct (a_get (abs (mkLog sz (A' ++ t :: N'))) i) as [b'|] eqn:Eg.
    + pose proof (Hsub1 i b' Eg) as X. congruence.
    + exfalso. rewrite abs_eq in Eg. simpl l_segs in Eg. rewrite Habs in Eg. unfold a_get in Eg. simpl in Eg.
      replace (hdprev (A ++ [s]) <? i) with true in Eg by lia.
      apply nth_error_None in Eg. rewrite app_length, firstn_length in Eg. unfold lenN in Hkey. lia.
Qed.
