(* Every writer operation keeps the chain well formed and moves the abstract
   sequence as [astep] allows. *)
From Coq Require Import List NArith ZArith Bool Lia ZifyN ZifyNat ZifyBool.
From Verif Require Import Base.Bytes SegLog.Log SegLog.Spec SegLog.Chain SegLog.Reads.
Import ListNotations.
Open Scope N_scope.

(* ------------------------------------------------------------ Append *)

Lemma ents_of_snoc A s : ents_of (A ++ [s]) = ents_of A ++ s_ents s.
Proof. now rewrite ents_of_app, ents_of_one. Qed.

Lemma append_outcome :
  forall l b, wf_log l ->
    match l_append l b with
    | (Ok _, l') => abs l' = mkALog (a_prev (abs l)) (a_ents (abs l) ++ [b])
    | (ErrExceeds, l') => l' = l /\ exists s, last_seg l = Some s /\ s_ents s = [] /\ (s_avail s < Z.of_N (blen b))%Z
    | _ => False
    end.
Proof.
  intros l b Hwf. pose proof Hwf as [Hne Hc].
  destruct (last_seg_snoc l Hne) as [A [s [E Hs]]].
  unfold l_append. rewrite Hs.
  destruct (s_avail s <? Z.of_N (blen b))%Z eqn:Ea.
  - destruct (s_n s =? 0) eqn:En.
    + split; [reflexivity|]. exists s. split; [reflexivity|]. split.
      * apply lenN_nil_iff. rewrite <- s_n_lenN. lia.
      * lia.
    + set (sz := if (Z.of_N (l_segsize l) - 24 <? Z.of_N (blen b))%Z then blen b + 24 else l_segsize l).
      pose proof (commit_eqv l) as F.
      rewrite !abs_eq. unfold abs_segs. simpl l_segs. simpl a_prev. simpl a_ents.
      assert (Hne' : l_segs (l_commit l) <> []) by (intro X; apply Hne; now apply (eqv_nil_iff _ _ F)).
      rewrite hdprev_app by exact Hne'. rewrite ents_of_snoc.
      rewrite <- (eqv_hdprev _ _ F), <- (eqv_ents _ _ F). reflexivity.
  - rewrite !abs_eq. unfold abs_segs. simpl l_segs. simpl a_prev. simpl a_ents.
    rewrite E, removelast_last, !ents_of_snoc. simpl s_ents. rewrite app_assoc.
    f_equal. destruct A; reflexivity.
Qed.

Lemma wf_append l b : wf_log l -> wf_log (snd (l_append l b)).
Proof.
  intros Hwf. pose proof Hwf as [Hne Hc].
  destruct (last_seg_snoc l Hne) as [A [s [E Hs]]].
  unfold l_append. rewrite Hs.
  destruct (s_avail s <? Z.of_N (blen b))%Z eqn:Ea.
  - destruct (s_n s =? 0) eqn:En; [exact Hwf|].
    set (sz := if (Z.of_N (l_segsize l) - 24 <? Z.of_N (blen b))%Z then blen b + 24 else l_segsize l).
    simpl snd. pose proof (commit_eqv l) as F. rewrite E in F.
    destruct (Forall2_app_inv_l _ _ F) as [A' [S' [FA [FS EC]]]].
    inversion FS as [|x s' nl nl' Hss' Hnil]; subst x nl S'. inversion Hnil; subst nl'.
    split; simpl l_segs.
    + intro X. destruct (l_segs (l_commit l)); discriminate.
    + rewrite EC, <- app_assoc. simpl app. apply chain_snoc.
      * rewrite <- EC. eapply eqv_chain; [exact (commit_eqv l)|exact Hc].
      * change (s_last s = s_last s'). apply seg_eqv_last. exact Hss'.
      * destruct Hss' as [_ Hents]. rewrite <- Hents. intro X.
        apply lenN_nil_iff in X. rewrite <- s_n_lenN in X. lia.
  - simpl snd. split; simpl l_segs.
    + intro X. apply app_eq_nil in X. destruct X; discriminate.
    + rewrite E, removelast_last. rewrite E in Hc. eapply chain_replace_last; [exact Hc|reflexivity].
Qed.

(* ------------------------------------------------------------ RemoveLTE *)

Lemma drop_lte_2 i x y r :
  drop_lte i (x :: y :: r) =
  if (0 <? s_n x) && (s_last x <=? i) then drop_lte i (y :: r) else x :: y :: r.
Proof. reflexivity. Qed.

Lemma drop_lte_spec i segs :
  chain segs -> segs <> [] ->
  exists front, segs = front ++ drop_lte i segs /\ drop_lte i segs <> [] /\
    (front = [] \/ hdprev (drop_lte i segs) <= i).
Proof.
  induction segs as [|x r IH]; intros Hc Hne; [congruence|].
  destruct r as [|y r].
  - exists []. simpl. repeat split; auto; try discriminate.
  - rewrite drop_lte_2. destruct ((0 <? s_n x) && (s_last x <=? i)) eqn:Ec.
    + destruct IH as [front [E [Hn Hf]]]; [eapply chain_tail; eauto|discriminate|].
      exists (x :: front). split; [rewrite <- app_comm_cons, <- E; reflexivity|]. split; [exact Hn|]. right.
      destruct Hf as [->|Hf]; [|exact Hf].
      rewrite app_nil_l in E. rewrite <- E. simpl hdprev. rewrite chain_cons2 in Hc.
      apply andb_prop in Ec. lia.
    + exists []. repeat split; auto; try discriminate.
Qed.

Lemma drop_lte_eqv i a b : Forall2 seg_eqv a b -> Forall2 seg_eqv (drop_lte i a) (drop_lte i b).
Proof.
  induction 1 as [|x y a b Hxy Hab IH]; [constructor|].
  inversion Hab as [|x2 y2 a' b' Hxy2 Hab']; subst.
  - simpl. constructor; [exact Hxy|constructor].
  - rewrite !drop_lte_2. rewrite (seg_eqv_n _ _ Hxy), (seg_eqv_last _ _ Hxy).
    destruct ((0 <? s_n y) && (s_last y <=? i)); [exact IH|].
    constructor; [exact Hxy|exact Hab].
Qed.

Lemma wf_commit l : wf_log l -> wf_log (l_commit l).
Proof. apply eqv_wf, commit_eqv. Qed.

Lemma removelte_facts l i :
  wf_log l ->
  exists front h B, l_segs (l_commit l) = front ++ h :: B /\ l_segs (l_removelte l i) = h :: B /\
    (front = [] \/ s_prev h <= i).
Proof.
  intro Hwf. destruct (wf_commit l Hwf) as [Hne Hc].
  destruct (drop_lte_spec i _ Hc Hne) as [front [E [Hn Hf]]].
  unfold l_removelte; simpl l_segs.
  destruct (drop_lte i (l_segs (l_commit l))) as [|h B]; [congruence|].
  exists front, h, B. auto.
Qed.

Lemma removelte_whole_segments :
  forall l i, wf_log l ->
    (exists front, l_segs (l_commit l) = front ++ l_segs (l_removelte l i)) /\
    l_canlte l i = Ok (a_prev (abs (l_removelte l i))).
Proof.
  intros l i Hwf. destruct (removelte_facts l i Hwf) as [front [h [B [E [E2 _]]]]].
  split.
  - exists front. now rewrite E2.
  - unfold l_canlte. pose proof (drop_lte_eqv i _ _ (commit_eqv l)) as F.
    rewrite abs_eq, E2. unfold abs_segs. simpl a_prev. simpl hdprev.
    unfold l_removelte in E2; simpl l_segs in E2. rewrite E2 in F.
    inversion F as [|x y a b [Hxy _] Hab]; subst. simpl. now rewrite Hxy.
Qed.

Lemma wf_removelte l i : wf_log l -> wf_log (l_removelte l i).
Proof.
  intro Hwf. destruct (removelte_facts l i Hwf) as [front [h [B [E [E2 _]]]]].
  destruct (wf_commit l Hwf) as [_ Hc]. split.
  - rewrite E2. discriminate.
  - rewrite E2. rewrite E in Hc. eapply chain_app_r; eauto.
Qed.

Lemma astep_removelte l i : wf_log l -> astep (abs l) (ORemoveLTE i) (abs (l_removelte l i)).
Proof.
  intro Hwf. destruct (removelte_facts l i Hwf) as [front [h [B [E [E2 Hf]]]]].
  destruct (wf_commit l Hwf) as [_ Hc]. rewrite E in Hc.
  pose proof (chain_app_len _ _ _ Hc) as Hk. rewrite <- E in Hk.
  rewrite (eqv_abs_log _ _ (commit_eqv l)).
  rewrite !abs_eq, E2. unfold abs_segs, astep, a_last. simpl a_prev. simpl a_ents.
  simpl hdprev.
  assert (Eents : ents_of (l_segs (l_commit l)) = ents_of front ++ ents_of (h :: B))
    by (rewrite E; apply ents_of_app).
  rewrite Eents.
  repeat split.
  - lia.
  - destruct Hf as [->|Hf]; [|lia]. unfold lenN in Hk; simpl in Hk. lia.
  - change (N.of_nat (length (ents_of front ++ ents_of (h :: B)))) with (lenN (ents_of front ++ ents_of (h :: B))).
    rewrite lenN_app. lia.
  - replace (N.to_nat (s_prev h - hdprev (l_segs (l_commit l)))) with (length (ents_of front) + 0)%nat
      by (unfold lenN in Hk; lia).
    now rewrite skipn_app_exact.
Qed.

(* ------------------------------------------------------------ RemoveGTE *)

Fixpoint rchain (rs : list seg) : Prop :=
  match rs with
  | [] => True
  | s :: r => match r with
              | [] => True
              | t :: _ => s_prev s = s_last t /\ s_ents t <> [] /\ rchain r
              end
  end.

Lemma rchain_rev rs : rchain rs <-> chain (rev rs).
Proof.
  induction rs as [|s r IH]; [simpl; tauto|].
  destruct r as [|t r].
  - simpl. tauto.
  - change (rchain (s :: t :: r)) with (s_prev s = s_last t /\ s_ents t <> [] /\ rchain (t :: r)).
    rewrite IH. simpl rev. rewrite <- app_assoc. simpl app. split.
    + intros [H1 [H2 H3]]. apply chain_snoc; auto.
    + intro H. pose proof (chain_app_r _ _ H) as Ht. simpl in Ht. destruct Ht as [H1 [H2 _]].
      repeat split; auto.
      replace (rev r ++ [t; s]) with ((rev r ++ [t]) ++ [s]) in H by (rewrite <- app_assoc; reflexivity).
      eapply chain_app_l; eauto.
Qed.

Fixpoint rprev (rs : list seg) : N :=
  match rs with
  | [] => 0
  | s :: r => match r with [] => s_prev s | _ => rprev r end
  end.

Lemma rprev_rev rs : hdprev (rev rs) = rprev rs.
Proof.
  induction rs as [|s r IH]; [reflexivity|].
  destruct r as [|t r]; [reflexivity|].
  change (rprev (s :: t :: r)) with (rprev (t :: r)). rewrite <- IH.
  change (rev (s :: t :: r)) with (rev (t :: r) ++ [s]). apply hdprev_app.
  simpl. intro X. apply app_eq_nil in X. destruct X; discriminate.
Qed.

Lemma abs_rev_cons s r : abs_segs (rev (s :: r)) = mkALog (rprev (s :: r)) (ents_of (rev r) ++ s_ents s).
Proof. unfold abs_segs. rewrite rprev_rev. simpl rev. now rewrite ents_of_snoc. Qed.

Lemma rchain_key s r : rchain (s :: r) -> s_prev s = rprev (s :: r) + lenN (ents_of (rev r)).
Proof.
  intro H. apply rchain_rev in H. simpl rev in H.
  pose proof (chain_app_len _ _ _ H) as Hk. rewrite <- rprev_rev. exact Hk.
Qed.

Lemma firstn_min_eq {A} (l : list A) a b :
  Nat.min a (length l) = Nat.min b (length l) -> firstn a l = firstn b l.
Proof.
  intro H. transitivity (firstn (Nat.min a (length l)) l).
  - rewrite <- firstn_firstn, firstn_all. reflexivity.
  - rewrite H. rewrite <- firstn_firstn, firstn_all. reflexivity.
Qed.

Lemma seg_removegte_prev s j : s_prev (seg_removegte s j) = s_prev s.
Proof. unfold seg_removegte. destruct (j - s_prev s - 1 <? s_n s); reflexivity. Qed.

Lemma seg_removegte_ents s j :
  s_ents (seg_removegte s j) = firstn (N.to_nat (j - s_prev s - 1)) (s_ents s).
Proof.
  unfold seg_removegte. destruct (j - s_prev s - 1 <? s_n s) eqn:E; simpl; [reflexivity|].
  symmetry. apply firstn_all2. unfold s_n in E. lia.
Qed.

Lemma removegte_rev_cons sz i s r :
  removegte_rev sz i (s :: r) =
  if i <=? s_prev s + 1 then
    match r with
    | [] => if i =? s_prev s + 1 then [seg_removegte s (s_prev s + 1)]
            else [new_seg (if 0 <? i then i - 1 else i) sz]
    | _ => removegte_rev sz i r
    end
  else seg_removegte s (if s_last s <? i then s_last s + 1 else i) :: r.
Proof. destruct r; reflexivity. Qed.

Lemma removegte_rev_spec sz i rs :
  rs <> [] -> rchain rs ->
  removegte_rev sz i rs <> [] /\ rchain (removegte_rev sz i rs) /\
  abs_segs (rev (removegte_rev sz i rs)) = a_removegte (abs_segs (rev rs)) i.
Proof.
  induction rs as [|s r IH]; intros Hne Hc; [congruence|].
  pose proof (rchain_key _ _ Hc) as Hk.
  rewrite removegte_rev_cons. rewrite abs_rev_cons.
  set (P := rprev (s :: r)) in *. set (X := ents_of (rev r)) in *.
  destruct (i <=? s_prev s + 1) eqn:Ei.
  - destruct r as [|t r].
    + assert (HX : X = []) by reflexivity. assert (HP : P = s_prev s) by reflexivity.
      rewrite HX, HP. simpl app. unfold a_removegte. simpl a_prev. simpl a_ents.
      destruct (i =? s_prev s + 1) eqn:Ei2.
      * split; [discriminate|]. split; [exact I|].
        unfold abs_segs. simpl rev. simpl hdprev. rewrite ents_of_one.
        rewrite seg_removegte_prev, seg_removegte_ents.
        destruct (i <=? s_prev s) eqn:Ei3; [lia|].
        f_equal. apply firstn_min_eq. lia.
      * split; [discriminate|]. split; [exact I|].
        destruct (i <=? s_prev s) eqn:Ei3; [|lia]. reflexivity.
    + destruct IH as [H1 [H2 H3]]; [discriminate|destruct Hc as [_ [_ Hc]]; exact Hc|].
      split; [exact H1|]. split; [exact H2|]. rewrite H3.
      rewrite abs_rev_cons. change (rprev (t :: r)) with P.
      change (ents_of (rev r) ++ s_ents t) with (ents_of (rev r) ++ s_ents t).
      assert (EX : X = ents_of (rev r) ++ s_ents t).
      { unfold X. simpl rev. now rewrite ents_of_snoc. }
      rewrite <- EX. unfold a_removegte. simpl a_prev. simpl a_ents.
      destruct (i <=? P); [reflexivity|]. f_equal.
      symmetry. apply firstn_app_le. unfold lenN in Hk. lia.
  - split; [discriminate|]. split.
    + destruct r as [|t r]; [exact I|].
      change (s_prev (seg_removegte s (if s_last s <? i then s_last s + 1 else i)) = s_last t /\
              s_ents t <> [] /\ rchain (t :: r)).
      rewrite seg_removegte_prev. exact Hc.
    + rewrite abs_rev_cons.
      assert (EP : rprev (seg_removegte s (if s_last s <? i then s_last s + 1 else i) :: r) = P).
      { destruct r; [apply seg_removegte_prev|reflexivity]. }
      rewrite EP. fold X. unfold a_removegte. simpl a_prev. simpl a_ents.
      destruct (i <=? P) eqn:Ei3; [lia|]. f_equal.
      rewrite firstn_app. rewrite firstn_all2 by (unfold lenN in Hk; lia). f_equal.
      rewrite seg_removegte_ents. apply firstn_min_eq.
      unfold s_last, s_n in *. unfold lenN in Hk.
      destruct (s_prev s + N.of_nat (length (s_ents s)) <? i) eqn:Ei4; lia.
Qed.

Lemma removegte_ok l i :
  wf_log l -> wf_log (l_removegte l i) /\ abs (l_removegte l i) = a_removegte (abs l) i.
Proof.
  intro Hwf. destruct (wf_commit l Hwf) as [Hne Hc].
  destruct (removegte_rev_spec (l_segsize (l_commit l)) i (rev (l_segs (l_commit l)))) as [H1 [H2 H3]].
  - intro X. apply Hne. rewrite <- (rev_involutive (l_segs (l_commit l))), X. reflexivity.
  - apply rchain_rev. now rewrite rev_involutive.
  - split.
    + split; unfold l_removegte; simpl l_segs.
      * intro X. apply H1. rewrite <- (rev_involutive (removegte_rev _ _ _)), X. reflexivity.
      * now apply rchain_rev.
    + rewrite (eqv_abs_log _ _ (commit_eqv l)). rewrite !abs_eq.
      unfold l_removegte; simpl l_segs. rewrite H3, rev_involutive. reflexivity.
Qed.

(* ------------------------------------------------------------ all operations *)

Lemma reopen_eqv l sz : Forall2 seg_eqv (l_segs l) (l_segs (l_reopen l sz)).
Proof.
  unfold l_reopen; simpl. induction (l_segs l); simpl; constructor; auto. apply seg_eqv_sync.
Qed.

Lemma step_ok l o : wf_log l -> wf_log (step l o) /\ astep (abs l) o (abs (step l o)).
Proof.
  intro Hwf. destruct o as [b| |n|i|i|i|sz]; simpl step.
  - split; [now apply wf_append|].
    pose proof (append_outcome l b Hwf) as H. simpl astep.
    destruct (l_append l b) as [[u| | |] l']; simpl snd.
    + left. exact H.
    + contradiction.
    + right. destruct H as [-> _]. reflexivity.
    + contradiction.
  - split; [now apply wf_commit|]. simpl. symmetry. apply eqv_abs_log, commit_eqv.
  - split; [eapply eqv_wf; [apply commitn_eqv|exact Hwf]|]. simpl. symmetry. apply eqv_abs_log, commitn_eqv.
  - split; [now apply wf_removelte|now apply astep_removelte].
  - destruct (removegte_ok l i Hwf) as [H1 H2]. split; [exact H1|exact H2].
  - split; [|reflexivity]. split; simpl; [discriminate|exact I].
  - split; [eapply eqv_wf; [apply reopen_eqv|exact Hwf]|]. simpl. symmetry. apply eqv_abs_log, reopen_eqv.
Qed.

Lemma wf_open sz : wf_log (open_log sz).
Proof. split; simpl; [discriminate|exact I]. Qed.

Lemma run_cons l o ops : run l (o :: ops) = run (step l o) ops.
Proof. reflexivity. Qed.

Lemma run_wf ops : forall l, wf_log l -> wf_log (run l ops).
Proof.
  induction ops as [|o ops IH]; intros l Hwf; [exact Hwf|].
  rewrite run_cons. apply IH. now apply step_ok.
Qed.

Lemma log_refines_seq :
  forall segsize ops, wf_log (run (open_log segsize) ops) /\
    forall o, astep (abs (run (open_log segsize) ops)) o (abs (step (run (open_log segsize) ops) o)).
Proof.
  intros sz ops. pose proof (run_wf ops _ (wf_open sz)) as Hwf.
  split; [exact Hwf|]. intro o. now apply step_ok.
Qed.
