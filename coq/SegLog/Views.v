(* Views: what a view reads is what the log holds, and it keeps reading the
   same bytes while the writer appends. *)
From Coq Require Import List NArith ZArith Bool Lia ZifyN ZifyNat ZifyBool.
From Verif Require Import Base.Bytes SegLog.Log SegLog.Spec SegLog.Chain SegLog.Reads SegLog.Ops.
Import ListNotations.
Open Scope N_scope.

(* ------------------------------------------------------------ segment extension *)

(* s' has the key of s and its entries, possibly followed by more; entries are
   added only to a segment that already reaches index q *)
Definition seg_extq (q : N) (s s' : seg) : Prop :=
  s_prev s' = s_prev s /\
  exists more, s_ents s' = s_ents s ++ more /\ (more = [] \/ q <= s_last s).

Lemma seg_extq_refl q s : seg_extq q s s.
Proof. split; [reflexivity|]. exists []. split; [now rewrite app_nil_r|now left]. Qed.

Lemma seg_eqv_extq q s s' : seg_eqv s s' -> seg_extq q s s'.
Proof. intros [H1 H2]. split; [now symmetry|]. exists []. split; [now rewrite app_nil_r|now left]. Qed.

Lemma seg_extq_last q s s' : seg_extq q s s' -> s_last s <= s_last s'.
Proof.
  intros [H1 [more [H2 _]]]. unfold s_last, s_n. rewrite H1, H2, app_length. lia.
Qed.

Lemma seg_extq_trans q s1 s2 s3 : seg_extq q s1 s2 -> seg_extq q s2 s3 -> seg_extq q s1 s3.
Proof.
  intros H12 H23. pose proof (seg_extq_last _ _ _ H12) as Hl.
  destruct H12 as [P12 [m1 [E12 C12]]]. destruct H23 as [P23 [m2 [E23 C23]]].
  split; [congruence|]. exists (m1 ++ m2). split; [rewrite E23, E12; now rewrite app_assoc|].
  destruct C12 as [->|C12]; [|now right].
  destruct C23 as [->|C23]; [now left|].
  right. rewrite app_nil_r in E12. unfold s_last, s_n in *. rewrite P12, E12 in C23. exact C23.
Qed.

Definition lext (q : N) (a b : list seg) : Prop :=
  exists pre extra, b = pre ++ extra /\ Forall2 (seg_extq q) a pre.

Lemma lext_refl q a : lext q a a.
Proof. exists a, []. split; [now rewrite app_nil_r|]. apply Forall2_refl, seg_extq_refl. Qed.

Lemma lext_trans q a b c : lext q a b -> lext q b c -> lext q a c.
Proof.
  intros [p1 [e1 [E1 F1]]] [p2 [e2 [E2 F2]]]. subst b.
  destruct (Forall2_app_inv_l _ _ F2) as [p2a [p2b [Fa [Fb Ep]]]]. subst p2.
  exists p2a, (p2b ++ e2). split; [rewrite E2; now rewrite <- app_assoc|].
  eapply Forall2_trans; [apply seg_extq_trans|exact F1|exact Fa].
Qed.

Lemma append_lext q l b :
  wf_log l -> q <= a_last (abs l) -> lext q (l_segs l) (l_segs (snd (l_append l b))).
Proof.
  intros Hwf Hq. pose proof Hwf as [Hne Hc].
  destruct (last_seg_snoc l Hne) as [A [s [E Hs]]].
  pose proof (last_seg_last l s Hwf Hs) as Hsl.
  unfold l_append. rewrite Hs.
  destruct (s_avail s <? Z.of_N (blen b))%Z eqn:Ea.
  - destruct (s_n s =? 0) eqn:En; [apply lext_refl|].
    simpl snd. simpl l_segs. eexists _, _. split; [reflexivity|].
    eapply Forall2_impl; [apply seg_eqv_extq|apply commit_eqv].
  - simpl snd. simpl l_segs. rewrite E, removelast_last.
    exists (A ++ [seg_append s b]), []. split; [now rewrite app_nil_r|].
    apply Forall2_app; [apply Forall2_refl, seg_extq_refl|].
    constructor; [|constructor]. split; [reflexivity|].
    exists [b]. split; [reflexivity|]. right. lia.
Qed.

Lemma append_last_mono l b : wf_log l -> a_last (abs l) <= a_last (abs (snd (l_append l b))).
Proof.
  intro Hwf. pose proof (append_outcome l b Hwf) as H.
  destruct (l_append l b) as [[u| | |] l']; simpl snd; try contradiction.
  - rewrite H. unfold a_last. simpl. rewrite app_length. lia.
  - destruct H as [-> _]. lia.
Qed.

Lemma run_appends_lext q bs : forall l,
  wf_log l -> q <= a_last (abs l) -> lext q (l_segs l) (l_segs (run l (map OAppend bs))).
Proof.
  induction bs as [|b bs IH]; intros l Hwf Hq; [apply lext_refl|].
  simpl map. rewrite run_cons. simpl step.
  eapply lext_trans; [apply append_lext; assumption|].
  apply IH; [now apply wf_append|].
  pose proof (append_last_mono l b Hwf). lia.
Qed.

(* ------------------------------------------------------------ sub-ranges by key *)

Section KeyRel.
  Variable R : seg -> seg -> Prop.
  Hypothesis Rkey : forall x y, R x y -> s_prev y = s_prev x.

  Lemma F2_keys a b : Forall2 R a b -> map s_prev b = map s_prev a.
  Proof. induction 1 as [|x y a b Hxy _ IH]; simpl; [reflexivity|]. now rewrite IH, (Rkey _ _ Hxy). Qed.

  Lemma segs_from_F2 k a b : Forall2 R a b -> Forall2 R (segs_from k a) (segs_from k b).
  Proof.
    induction 1 as [|x y a b Hxy Hab IH]; simpl; [constructor|].
    rewrite (Rkey _ _ Hxy). destruct (s_prev x =? k); [constructor; assumption|exact IH].
  Qed.

  Lemma segs_upto_F2 k a b : Forall2 R a b -> Forall2 R (segs_upto k a) (segs_upto k b).
  Proof.
    induction 1 as [|x y a b Hxy Hab IH]; simpl; [constructor|].
    rewrite (Rkey _ _ Hxy). destruct (s_prev x =? k); constructor; auto.
  Qed.
End KeyRel.

Lemma segs_from_app k b e : In k (map s_prev b) -> segs_from k (b ++ e) = segs_from k b ++ e.
Proof.
  induction b as [|x b IH]; simpl; [tauto|].
  intro H. destruct (N.eqb_spec (s_prev x) k) as [Ek|Nk]; [reflexivity|].
  apply IH. destruct H; [congruence|assumption].
Qed.

Lemma segs_upto_app k b e : In k (map s_prev b) -> segs_upto k (b ++ e) = segs_upto k b.
Proof.
  induction b as [|x b IH]; simpl; [tauto|].
  intro H. destruct (N.eqb_spec (s_prev x) k) as [Ek|Nk]; [reflexivity|].
  f_equal. apply IH. destruct H; [congruence|assumption].
Qed.

(* ------------------------------------------------------------ reads through extended segments *)

Lemma seg_get_extq q s s' i n :
  seg_extq q s s' -> i + n <= q + 1 -> seg_get s' i n = seg_get s i n.
Proof.
  intros [Hp [more [He Hm]]] Hin. unfold seg_get. rewrite Hp.
  destruct (s_prev s <? i) eqn:E1; [|reflexivity].
  destruct Hm as [->|Hq].
  { rewrite app_nil_r in He. unfold s_n. now rewrite He. }
  set (k := N.to_nat (i - s_prev s - 1)).
  assert (Hk : N.of_nat k + n <= s_n s) by (unfold k, s_last in *; lia).
  assert (Hk' : N.of_nat k + n <= s_n s') by (unfold s_n in *; rewrite He, app_length; lia).
  destruct (N.of_nat k + n <=? s_n s) eqn:E2; [|lia].
  destruct (N.of_nat k + n <=? s_n s') eqn:E3; [|lia].
  f_equal. f_equal. rewrite He. unfold s_n in Hk.
  rewrite skipn_app_le by lia. apply firstn_app_le. rewrite skipn_length. lia.
Qed.

Lemma getn_loop_extq q a b :
  Forall2 (seg_extq q) a b -> forall i n, 1 <= i -> i + n <= q + 1 -> getn_loop b i n = getn_loop a i n.
Proof.
  induction 1 as [|s s' a b Hs Hab IH]; intros i n Hi1 Hin; [reflexivity|].
  inversion Hab as [|t t' a' b' Ht Hab']; subst.
  - rewrite !getn_loop_1. now rewrite (seg_get_extq q s s' i n Hs Hin).
  - rewrite !getn_loop_2. destruct (n =? 0) eqn:En; [reflexivity|]. cbv zeta.
    assert (Esn : N.min (s_last s' - (i - 1)) n = N.min (s_last s - (i - 1)) n).
    { pose proof (seg_extq_last _ _ _ Hs) as Hl.
      destruct Hs as [Hp [more [He [->|Hq]]]].
      - rewrite app_nil_r in He. unfold s_last, s_n. now rewrite Hp, He.
      - lia. }
    rewrite Esn. set (sn := N.min (s_last s - (i - 1)) n).
    rewrite (seg_get_extq q s s' i sn Hs) by (unfold sn; lia).
    rewrite IH by (unfold sn; lia). reflexivity.
Qed.

Lemma h_segment_extq q p vs vs' i :
  Forall2 (seg_extq q) vs vs' ->
  match h_segment (mkHandle vs (Some (p, q))) i, h_segment (mkHandle vs' (Some (p, q))) i with
  | Ok o, Ok o' => orel (seg_extq q) o o'
  | Panic, Panic => True
  | _, _ => False
  end.
Proof.
  intro F. unfold h_segment, h_prev, h_last. cbn [h_bounds h_segs].
  destruct (q <? i); [exact I|]. destruct (i <=? p); [constructor|].
  rewrite !find_rev_flast. apply flast_Forall2; [|exact F].
  intros x y [Hxy _]. now rewrite Hxy.
Qed.

Lemma h_get_extq q p vs vs' i :
  Forall2 (seg_extq q) vs vs' -> i <= q ->
  h_get (mkHandle vs' (Some (p, q))) i = h_get (mkHandle vs (Some (p, q))) i.
Proof.
  intros F Hi. unfold h_get. pose proof (h_segment_extq q p vs vs' i F) as H.
  destruct (h_segment (mkHandle vs (Some (p, q))) i) as [o| | |];
    destruct (h_segment (mkHandle vs' (Some (p, q))) i) as [o'| | |]; try contradiction; try reflexivity.
  inversion H as [|x y Hxy]; subst; [reflexivity|].
  apply (seg_get_extq q); [exact Hxy|lia].
Qed.

Lemma h_getn_extq q p vs vs' i n :
  Forall2 (seg_extq q) vs vs' -> 1 <= i -> i + n <= q + 1 ->
  h_getn (mkHandle vs' (Some (p, q))) i n = h_getn (mkHandle vs (Some (p, q))) i n.
Proof.
  intros F Hi1 Hin. unfold h_getn, h_last. cbn [h_bounds].
  destruct (q <? (i + (n + two64 - 1) mod two64) mod two64); [reflexivity|].
  pose proof (h_segment_extq q p vs vs' i F) as H.
  destruct (h_segment (mkHandle vs (Some (p, q))) i) as [o| | |];
    destruct (h_segment (mkHandle vs' (Some (p, q))) i) as [o'| | |]; try contradiction; try reflexivity.
  inversion H as [|x y Hxy]; subst; [reflexivity|].
  simpl h_segs. destruct Hxy as [Hp Hrest]. rewrite Hp.
  apply (getn_loop_extq q); [|exact Hi1|exact Hin].
  apply segs_from_F2; [|exact F]. intros u w [Huw _]. exact Huw.
Qed.

(* ------------------------------------------------------------ shape of a view *)

Lemma flast_segs_from (P : seg -> bool) segs f :
  chain segs -> flast P segs = Some f ->
  exists A B, segs = A ++ f :: B /\ segs_from (s_prev f) segs = f :: B /\
              Forall (fun x => P x = false) B.
Proof.
  induction segs as [|x r IH]; intros Hc Hf; [discriminate|].
  simpl in Hf. destruct (flast P r) as [f'|] eqn:Er.
  - inversion Hf; subst f'. destruct (IH (chain_tail _ _ Hc) eq_refl) as [A [B [E [Hs HB]]]].
    exists (x :: A), B. split; [now rewrite E|]. split; [|exact HB].
    simpl. destruct (flast_some _ _ _ Er) as [Hin _].
    assert (Hr : r <> []) by (intro X; rewrite X in Hin; destruct Hin).
    pose proof (chain_after_lt _ _ Hc Hr) as Hlt. rewrite Forall_forall in Hlt.
    specialize (Hlt f Hin). destruct (s_prev x =? s_prev f) eqn:Ek; [lia|exact Hs].
  - destruct (P x) eqn:Px; [|discriminate]. inversion Hf; subst f.
    exists [], r. split; [reflexivity|]. split; [simpl; now rewrite N.eqb_refl|].
    now apply flast_none.
Qed.

Lemma flast_segs_upto (P : seg -> bool) segs f :
  chain segs -> flast P segs = Some f ->
  exists C D, segs = C ++ f :: D /\ segs_upto (s_prev f) segs = C ++ [f] /\
              Forall (fun x => P x = false) D.
Proof.
  induction segs as [|x r IH]; intros Hc Hf; [discriminate|].
  simpl in Hf. destruct (flast P r) as [f'|] eqn:Er.
  - inversion Hf; subst f'. destruct (IH (chain_tail _ _ Hc) eq_refl) as [C [D [E [Hs HD]]]].
    exists (x :: C), D. split; [now rewrite E|]. split; [|exact HD].
    simpl. destruct (flast_some _ _ _ Er) as [Hin _].
    assert (Hr : r <> []) by (intro X; rewrite X in Hin; destruct Hin).
    pose proof (chain_after_lt _ _ Hc Hr) as Hlt. rewrite Forall_forall in Hlt.
    specialize (Hlt f Hin). destruct (s_prev x =? s_prev f) eqn:Ek; [lia|now rewrite Hs].
  - destruct (P x) eqn:Px; [|discriminate]. inversion Hf; subst f.
    exists [], r. split; [reflexivity|]. split; [simpl; now rewrite N.eqb_refl|].
    now apply flast_none.
Qed.

Lemma h_segment_some l i s :
  wf_log l -> h_segment (handle_of l) i = Ok (Some s) ->
  flast (fun s => s_prev s <? i) (l_segs l) = Some s.
Proof.
  intros Hwf H. unfold h_segment in H. rewrite (h_prev_log l Hwf), (h_last_log l Hwf) in H.
  destruct (a_last (abs l) <? i); [discriminate|]. destruct (i <=? a_prev (abs l)); [discriminate|].
  simpl h_segs in H. rewrite find_rev_flast in H. now inversion H.
Qed.

Lemma viewat_inv l p q v :
  wf_log l -> l_viewat l p q = Ok (Some v) ->
  a_prev (abs l) <= p /\ p <= q /\ q <= a_last (abs l) /\
  exists f ols, flast (fun s => s_prev s <=? p) (l_segs l) = Some f /\
    h_segment (handle_of l) q = Ok ols /\ v = mkView p q (s_prev f) (option_map s_prev ols).
Proof.
  intros Hwf H. unfold l_viewat in H.
  destruct (reads_agree l Hwf) as [Hp [Hl _]]. rewrite Hp, Hl in H.
  destruct (a_last (abs l) <? q) eqn:E1; [discriminate|].
  destruct ((q <? p) || (p <? a_prev (abs l))) eqn:E2; [discriminate|].
  apply orb_false_elim in E2. destruct E2 as [E2 E3].
  rewrite find_rev_flast in H.
  destruct (flast (fun s => s_prev s <=? p) (l_segs l)) as [f|] eqn:Ef; [|discriminate].
  destruct (h_segment (handle_of l) q) as [ols| | |] eqn:Eh; try discriminate.
  inversion H; subst v. repeat split; try lia. exists f, ols. auto.
Qed.

(* for a non-empty range the view's segment list is the stretch from the
   segment holding p+1 .. to the segment holding q *)
Lemma view_shape l p q v :
  wf_log l -> l_viewat l p q = Ok (Some v) -> p < q ->
  exists A C ls D,
    l_segs l = A ++ C ++ ls :: D /\
    view_handle l v = mkHandle (C ++ [ls]) (Some (p, q)) /\
    (exists f, hd_error (C ++ [ls]) = Some f /\ s_prev f <= p) /\
    Forall (fun x => (s_prev x <? q) = false) D /\
    a_prev (abs l) <= p /\ q <= a_last (abs l).
Proof.
  intros Hwf Hv Hpq. destruct (viewat_inv l p q v Hwf Hv) as [H1 [H2 [H3 [f [ols [Hf [Hseg Ev]]]]]]].
  destruct (h_segment_log l q Hwf) as [A0 [ls [B0 [_ [_ [_ [Hseg2 _]]]]]]]; try lia.
  rewrite Hseg in Hseg2. inversion Hseg2; subst ols. clear Hseg2.
  pose proof (h_segment_some l q ls Hwf Hseg) as Hls.
  destruct Hwf as [Hne Hc].
  destruct (flast_segs_from _ _ _ Hc Hf) as [A [B [E [Hfrom HB]]]].
  destruct (flast_some _ _ _ Hf) as [_ Pf].
  (* ls is found inside f :: B *)
  assert (Hls2 : flast (fun s => s_prev s <? q) (f :: B) = Some ls).
  { rewrite E, flast_app in Hls.
    destruct (flast_is_some (fun s => s_prev s <? q) (f :: B) f) as [y Hy]; [now left|lia|].
    rewrite Hy in Hls. now rewrite Hy. }
  assert (HcS : chain (f :: B)) by (rewrite E in Hc; eapply chain_app_r; eauto).
  destruct (flast_segs_upto _ _ _ HcS Hls2) as [C [D [ES [Hupto HD]]]].
  exists A, C, ls, D. split; [now rewrite E, ES|]. split.
  - subst v. unfold view_handle. simpl. now rewrite Hfrom, Hupto.
  - split; [|auto]. exists f. split; [|lia].
    destruct C as [|c C]; simpl in ES |- *; inversion ES; reflexivity.
Qed.

Lemma view_reads_log :
  forall l p q v i, wf_log l -> l_viewat l p q = Ok (Some v) -> p < i -> i <= q ->
    h_get (view_handle l v) i = h_get (handle_of l) i.
Proof.
  intros l p q v i Hwf Hv Hpi Hiq.
  destruct (view_shape l p q v Hwf Hv) as [A [C [ls [D [E [Hvh [[f [Hhd Hfp]] [HD [Hlo Hhi]]]]]]]]]; [lia|].
  rewrite Hvh. unfold h_get.
  assert (Hseg : h_segment (mkHandle (C ++ [ls]) (Some (p, q))) i = h_segment (handle_of l) i).
  { unfold h_segment. rewrite (h_prev_log l Hwf), (h_last_log l Hwf).
    unfold h_prev, h_last, handle_of. cbn [h_bounds h_segs].
    destruct (q <? i) eqn:E1; [lia|]. destruct (i <=? p) eqn:E2; [lia|].
    destruct (a_last (abs l) <? i) eqn:E3; [lia|].
    destruct (i <=? a_prev (abs l)) eqn:E4; [lia|].
    f_equal. rewrite !find_rev_flast. rewrite E.
    replace (A ++ C ++ ls :: D) with (A ++ (C ++ [ls]) ++ D)
      by (rewrite <- (app_assoc C [ls] D); reflexivity).
    rewrite !flast_app.
    rewrite (flast_none_of _ D).
    - assert (Hin : In f (C ++ [ls])) by (destruct (C ++ [ls]); inversion Hhd; now left).
      destruct (flast_is_some (fun s => s_prev s <? i) (C ++ [ls]) f Hin) as [y Hy]; [lia|].
      rewrite flast_app in Hy. now rewrite Hy.
    - eapply Forall_impl; [|exact HD]. intros z Hz; simpl in Hz. lia. }
  now rewrite Hseg.
Qed.

(* ------------------------------------------------------------ stability under appends *)

Lemma view_segs_ext l p q v bs :
  wf_log l -> l_viewat l p q = Ok (Some v) -> p < q ->
  exists vs vs',
    view_handle l v = mkHandle vs (Some (p, q)) /\
    view_handle (run l (map OAppend bs)) v = mkHandle vs' (Some (p, q)) /\
    Forall2 (seg_extq q) vs vs'.
Proof.
  intros Hwf Hv Hpq.
  destruct (viewat_inv l p q v Hwf Hv) as [H1 [H2 [H3 [f [ols [Hf [Hseg Ev]]]]]]].
  destruct (h_segment_log l q Hwf) as [A0 [ls [B0 [_ [_ [_ [Hseg2 _]]]]]]]; try lia.
  rewrite Hseg in Hseg2. inversion Hseg2; subst ols. clear Hseg2.
  pose proof (h_segment_some l q ls Hwf Hseg) as Hls.
  destruct (run_appends_lext q bs l Hwf H3) as [pre [extra [El' F]]].
  set (l' := run l (map OAppend bs)) in *.
  pose proof Hwf as [Hne Hc].
  destruct (flast_segs_from _ _ _ Hc Hf) as [A [B [E [Hfrom HB]]]].
  destruct (flast_some _ _ _ Hf) as [Hinf Pf].
  assert (Hls2 : flast (fun s => s_prev s <? q) (f :: B) = Some ls).
  { rewrite E, flast_app in Hls.
    destruct (flast_is_some (fun s => s_prev s <? q) (f :: B) f) as [y Hy]; [now left|lia|].
    rewrite Hy in Hls. now rewrite Hy. }
  destruct (flast_some _ _ _ Hls2) as [Hinls _].
  assert (Rkey : forall x y, seg_extq q x y -> s_prev y = s_prev x) by (intros x y [Hxy _]; exact Hxy).
  pose proof (F2_keys _ Rkey _ _ F) as Hkeys.
  assert (Kf : In (s_prev f) (map s_prev pre)) by (rewrite Hkeys; now apply in_map).
  pose proof (segs_from_F2 _ Rkey (s_prev f) _ _ F) as F1.
  assert (Kls : In (s_prev ls) (map s_prev (segs_from (s_prev f) pre))).
  { rewrite (F2_keys _ Rkey _ _ F1), Hfrom. now apply in_map. }
  pose proof (segs_upto_F2 _ Rkey (s_prev ls) _ _ F1) as F3.
  subst v. unfold view_handle. simpl v_lastseg. simpl v_first. simpl v_prev. simpl v_last.
  eexists _, _. split; [reflexivity|]. split; [reflexivity|].
  rewrite El', (segs_from_app _ _ _ Kf), (segs_upto_app _ _ _ Kls). exact F3.
Qed.

Lemma view_stable_under_append :
  forall l p q v bs, wf_log l -> l_viewat l p q = Ok (Some v) ->
    let l' := run l (map OAppend bs) in
    (forall i, p < i -> i <= q -> h_get (view_handle l' v) i = h_get (view_handle l v) i) /\
    (forall i n, 1 <= n -> p < i -> i + n - 1 <= q -> i + n < two64 ->
        h_getn (view_handle l' v) i n = h_getn (view_handle l v) i n).
Proof.
  intros l p q v bs Hwf Hv l'. split.
  - intros i Hpi Hiq.
    destruct (view_segs_ext l p q v bs Hwf Hv) as [vs [vs' [E1 [E2 F]]]]; [lia|].
    unfold l'. rewrite E1, E2. now apply h_get_extq.
  - intros i n Hn Hpi Hiq _.
    destruct (view_segs_ext l p q v bs Hwf Hv) as [vs [vs' [E1 [E2 F]]]]; [lia|].
    unfold l'. rewrite E1, E2. apply h_getn_extq; [exact F|lia|lia].
Qed.
