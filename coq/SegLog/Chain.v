(* Basic facts about segment chains: generic list lemmas, the forward
   formulation [flast] of [find _ (rev _)], key ordering along a chain, the
   algebra of the abstraction function, and content-equivalence of segments
   (what Commit preserves). *)
From Coq Require Import List NArith ZArith Bool Lia ZifyN ZifyNat ZifyBool.
From Verif Require Import Base.Bytes SegLog.Log SegLog.Spec.
Import ListNotations.
Open Scope N_scope.

(* ------------------------------------------------------------ generic lists *)

Fixpoint flast {A} (P : A -> bool) (l : list A) : option A :=
  match l with
  | [] => None
  | x :: r => match flast P r with Some y => Some y | None => if P x then Some x else None end
  end.

Lemma find_app' {A} (P : A -> bool) a b :
  find P (a ++ b) = match find P a with Some x => Some x | None => find P b end.
Proof.
  induction a as [|x a IH]; simpl; [reflexivity|].
  destruct (P x); [reflexivity|exact IH].
Qed.

Lemma find_rev_flast {A} (P : A -> bool) l : find P (rev l) = flast P l.
Proof.
  induction l as [|x r IH]; simpl; [reflexivity|].
  rewrite find_app', IH. destruct (flast P r); [reflexivity|].
  simpl. destruct (P x); reflexivity.
Qed.

Lemma flast_app {A} (P : A -> bool) a b :
  flast P (a ++ b) = match flast P b with Some y => Some y | None => flast P a end.
Proof.
  induction a as [|x a IH]; simpl.
  - destruct (flast P b); reflexivity.
  - rewrite IH. destruct (flast P b); reflexivity.
Qed.

Lemma flast_some {A} (P : A -> bool) l x : flast P l = Some x -> In x l /\ P x = true.
Proof.
  induction l as [|y r IH]; simpl; [discriminate|].
  destruct (flast P r) as [z|] eqn:E.
  - intro H; inversion H; subst. destruct (IH eq_refl) as [H1 H2]. auto.
  - destruct (P y) eqn:Py; [|discriminate]. intro H; inversion H; subst. auto.
Qed.

Lemma flast_none {A} (P : A -> bool) l : flast P l = None -> Forall (fun x => P x = false) l.
Proof.
  induction l as [|y r IH]; simpl; [constructor|].
  destruct (flast P r) as [z|] eqn:E; [discriminate|].
  destruct (P y) eqn:Py; [discriminate|]. intros _. constructor; auto.
Qed.

Lemma flast_none_of {A} (P : A -> bool) l : Forall (fun x => P x = false) l -> flast P l = None.
Proof.
  induction 1 as [|y r Hy Hr IH]; simpl; [reflexivity|]. rewrite IH, Hy. reflexivity.
Qed.

Lemma flast_is_some {A} (P : A -> bool) l x : In x l -> P x = true -> exists y, flast P l = Some y.
Proof.
  intros Hin Px. destruct (flast P l) as [y|] eqn:E; [eauto|].
  apply flast_none in E. rewrite Forall_forall in E. specialize (E x Hin). congruence.
Qed.

Lemma Forall2_refl {A} (R : A -> A -> Prop) : (forall x, R x x) -> forall l, Forall2 R l l.
Proof. intros H l; induction l; constructor; auto. Qed.

Lemma Forall2_trans {A} (R : A -> A -> Prop) :
  (forall x y z, R x y -> R y z -> R x z) ->
  forall a b c, Forall2 R a b -> Forall2 R b c -> Forall2 R a c.
Proof.
  intros HR a b c H; revert c. induction H as [|x y a b Hxy Hab IH]; intros c Hc.
  - inversion Hc; constructor.
  - inversion Hc as [|y' z b' c' Hyz Hbc]; subst. constructor; eauto.
Qed.

Lemma Forall2_rev' {A B} (R : A -> B -> Prop) a b : Forall2 R a b -> Forall2 R (rev a) (rev b).
Proof.
  induction 1 as [|x y a b Hxy Hab IH]; simpl; [constructor|].
  apply Forall2_app; [exact IH|]. constructor; [exact Hxy|constructor].
Qed.

Lemma Forall2_rev_inv {A B} (R : A -> B -> Prop) a b : Forall2 R (rev a) (rev b) -> Forall2 R a b.
Proof. intro H. apply Forall2_rev' in H. now rewrite !rev_involutive in H. Qed.

Lemma Forall2_impl {A B} (R S : A -> B -> Prop) :
  (forall x y, R x y -> S x y) -> forall a b, Forall2 R a b -> Forall2 S a b.
Proof. intros H a b F; induction F; constructor; auto. Qed.

Inductive orel {A B} (R : A -> B -> Prop) : option A -> option B -> Prop :=
| orel_none : orel R None None
| orel_some x y : R x y -> orel R (Some x) (Some y).

Lemma flast_Forall2 {A B} (R : A -> B -> Prop) (P : A -> bool) (Q : B -> bool) :
  (forall x y, R x y -> P x = Q y) ->
  forall a b, Forall2 R a b -> orel R (flast P a) (flast Q b).
Proof.
  intros HPQ a b F. induction F as [|x y a b Hxy Hab IH]; simpl; [constructor|].
  inversion IH as [Ha Hb|u v Huv Ha Hb].
  - rewrite (HPQ x y Hxy). destruct (Q y); constructor. exact Hxy.
  - constructor. exact Huv.
Qed.

Definition lenN {A} (l : list A) : N := N.of_nat (length l).
Lemma lenN_app {A} (a b : list A) : lenN (a ++ b) = lenN a + lenN b.
Proof. unfold lenN. rewrite app_length. lia. Qed.
Lemma lenN_nil_iff {A} (a : list A) : lenN a = 0 <-> a = [].
Proof. unfold lenN. destruct a; simpl; split; intro H; try reflexivity; try discriminate; lia. Qed.

(* ------------------------------------------------------------ abstraction *)

Definition hdprev (segs : list seg) : N := match segs with s :: _ => s_prev s | [] => 0 end.
Definition ents_of (segs : list seg) : list bytes := concat (map s_ents segs).
Definition abs_segs (segs : list seg) : alog := mkALog (hdprev segs) (ents_of segs).

Lemma abs_eq l : abs l = abs_segs (l_segs l).
Proof. reflexivity. Qed.

Lemma ents_of_app a b : ents_of (a ++ b) = ents_of a ++ ents_of b.
Proof. unfold ents_of. now rewrite map_app, concat_app. Qed.
Lemma ents_of_cons s r : ents_of (s :: r) = s_ents s ++ ents_of r.
Proof. reflexivity. Qed.
Lemma ents_of_one s : ents_of [s] = s_ents s.
Proof. unfold ents_of; simpl. apply app_nil_r. Qed.

Lemma s_n_lenN s : s_n s = lenN (s_ents s).
Proof. reflexivity. Qed.

Lemma hdprev_app a b : a <> [] -> hdprev (a ++ b) = hdprev a.
Proof. destruct a; [congruence|reflexivity]. Qed.

(* ------------------------------------------------------------ chains *)

Lemma chain_tail s r : chain (s :: r) -> chain r.
Proof. destruct r as [|y r]; simpl; [auto|]. intros [_ [_ H]]; exact H. Qed.

Lemma chain_cons2 s y r :
  chain (s :: y :: r) <-> s_prev y = s_last s /\ s_ents s <> [] /\ chain (y :: r).
Proof. reflexivity. Qed.

Lemma chain_app_r a b : chain (a ++ b) -> chain b.
Proof. induction a as [|x a IH]; simpl app; [auto|]. intro H. apply IH. eapply chain_tail; eauto. Qed.

Lemma chain_app_l a b : chain (a ++ b) -> chain a.
Proof.
  induction a as [|x a IH]; [simpl; auto|].
  destruct a as [|y a]; [simpl; auto|].
  change ((x :: y :: a) ++ b) with (x :: y :: (a ++ b)).
  rewrite !chain_cons2. intros [H1 [H2 H3]]. repeat split; auto.
Qed.

Lemma chain_nonlast_lt s y r : chain (s :: y :: r) -> s_prev s < s_last s.
Proof.
  rewrite chain_cons2. intros [_ [H _]]. unfold s_last, s_n.
  destruct (s_ents s); [congruence|]. simpl length. lia.
Qed.

Lemma s_prev_le_last s : s_prev s <= s_last s.
Proof. unfold s_last. lia. Qed.

(* every later segment starts at or after the end of an earlier one *)
Lemma chain_after s r : chain (s :: r) -> Forall (fun x => s_last s <= s_prev x) r.
Proof.
  revert s. induction r as [|y r IH]; intros s H; [constructor|].
  pose proof H as H0. rewrite chain_cons2 in H. destruct H as [H1 [H2 H3]].
  constructor; [lia|].
  specialize (IH y H3). eapply Forall_impl; [|exact IH].
  intros z Hz. simpl in Hz. pose proof (s_prev_le_last y). lia.
Qed.

Lemma chain_after_lt s r : chain (s :: r) -> r <> [] -> Forall (fun x => s_prev s < s_prev x) r.
Proof.
  intros H Hr. destruct r as [|y r]; [congruence|].
  pose proof (chain_nonlast_lt _ _ _ H) as Hlt.
  eapply Forall_impl; [|exact (chain_after _ _ H)]. intros z Hz; simpl in Hz. lia.
Qed.

(* the key of a segment is the key of the first plus everything before it *)
Lemma chain_app_len A s B :
  chain (A ++ s :: B) -> s_prev s = hdprev (A ++ s :: B) + lenN (ents_of A).
Proof.
  induction A as [|x A IH]; intro H.
  - simpl. unfold lenN; simpl. lia.
  - change ((x :: A) ++ s :: B) with (x :: (A ++ s :: B)) in *.
    specialize (IH (chain_tail _ _ H)).
    rewrite ents_of_cons, lenN_app. simpl hdprev.
    destruct (A ++ s :: B) as [|h t] eqn:E.
    + destruct A; discriminate.
    + rewrite chain_cons2 in H. destruct H as [H1 _]. simpl hdprev in IH.
      unfold s_last in H1. rewrite s_n_lenN in H1. lia.
Qed.

Lemma chain_last_len A s :
  chain (A ++ [s]) -> s_last s = hdprev (A ++ [s]) + lenN (ents_of (A ++ [s])).
Proof.
  intro H. pose proof (chain_app_len _ _ _ H) as E.
  rewrite ents_of_app, lenN_app, ents_of_one. unfold s_last. rewrite s_n_lenN. lia.
Qed.

Lemma chain_snoc A t s :
  chain (A ++ [t]) -> s_prev s = s_last t -> s_ents t <> [] -> chain (A ++ [t; s]).
Proof.
  induction A as [|x A IH]; intros H E Hne.
  - simpl. auto.
  - change ((x :: A) ++ [t]) with (x :: (A ++ [t])) in H.
    change ((x :: A) ++ [t; s]) with (x :: (A ++ [t; s])).
    specialize (IH (chain_tail _ _ H) E Hne).
    destruct A as [|y A].
    + simpl in *. tauto.
    + change ((y :: A) ++ [t; s]) with (y :: (A ++ [t; s])) in *.
      change ((y :: A) ++ [t]) with (y :: (A ++ [t])) in H.
      rewrite chain_cons2 in H |- *. tauto.
Qed.

Lemma snoc_cases {A} (l : list A) : l = [] \/ exists a x, l = a ++ [x].
Proof.
  destruct l as [|y l]; [left; reflexivity|right].
  destruct (exists_last (l := y :: l)) as [a [x E]]; [discriminate|]. eauto.
Qed.

(* changing only the last segment, keeping its key *)
Lemma chain_replace_last A s s' :
  chain (A ++ [s]) -> s_prev s' = s_prev s -> chain (A ++ [s']).
Proof.
  induction A as [|x A IH]; intros H E; [simpl; auto|].
  change ((x :: A) ++ [s]) with (x :: (A ++ [s])) in H.
  change ((x :: A) ++ [s']) with (x :: (A ++ [s'])).
  specialize (IH (chain_tail _ _ H) E).
  destruct A as [|y A].
  - simpl in *. intuition congruence.
  - change ((y :: A) ++ [s']) with (y :: (A ++ [s'])) in *.
    change ((y :: A) ++ [s]) with (y :: (A ++ [s])) in H.
    rewrite chain_cons2 in H |- *. tauto.
Qed.

(* ------------------------------------------------------------ locating an index *)

Lemma locate segs i :
  chain segs -> segs <> [] -> hdprev segs < i -> i <= hdprev segs + lenN (ents_of segs) ->
  exists A s B, segs = A ++ s :: B /\ s_prev s < i /\ i <= s_last s /\
    flast (fun s => s_prev s <? i) segs = Some s /\ segs_from (s_prev s) segs = s :: B.
Proof.
  induction segs as [|x r IH]; intros Hc Hne Hlo Hhi; [congruence|].
  destruct r as [|y r].
  - exists [], x, []. rewrite ents_of_one in Hhi. simpl in *.
    unfold s_last, s_n. unfold lenN in Hhi.
    repeat split; try lia.
    + destruct (s_prev x <? i) eqn:E; [reflexivity|lia].
    + now rewrite N.eqb_refl.
  - pose proof Hc as Hc0. rewrite chain_cons2 in Hc. destruct Hc as [H1 [H2 H3]].
    simpl hdprev in *. rewrite ents_of_cons, lenN_app in Hhi.
    destruct (N.leb_spec i (s_last x)) as [Hle|Hgt].
    + exists [], x, (y :: r). repeat split; auto.
      * change (flast (fun s => s_prev s <? i) (x :: y :: r))
          with (match flast (fun s => s_prev s <? i) (y :: r) with Some z => Some z
                | None => if s_prev x <? i then Some x else None end).
        rewrite flast_none_of.
        -- destruct (s_prev x <? i) eqn:E; [reflexivity|lia].
        -- pose proof (chain_after _ _ Hc0) as Ha. eapply Forall_impl; [|exact Ha].
           intros z Hz; simpl in Hz. lia.
      * simpl. now rewrite N.eqb_refl.
    + destruct IH as [A [s [B [E [Hs1 [Hs2 [Hf Hsf]]]]]]]; auto; try discriminate.
      * simpl hdprev. lia.
      * simpl hdprev. unfold s_last in H1, Hgt. rewrite s_n_lenN in *. lia.
      * exists (x :: A), s, B. rewrite E. repeat split; auto.
        -- rewrite <- E.
           change (flast (fun s => s_prev s <? i) (x :: y :: r))
             with (match flast (fun s => s_prev s <? i) (y :: r) with Some z => Some z
                   | None => if s_prev x <? i then Some x else None end).
           now rewrite Hf.
        -- rewrite <- E. simpl segs_from at 1.
           assert (Hin : In s (y :: r)) by (rewrite E; apply in_or_app; right; left; reflexivity).
           pose proof (chain_after_lt _ _ Hc0 ltac:(discriminate)) as Hlt.
           rewrite Forall_forall in Hlt. specialize (Hlt s Hin).
           destruct (s_prev x =? s_prev s) eqn:Ek; [lia|]. exact Hsf.
Qed.

(* ------------------------------------------------------------ content equivalence *)

Definition seg_eqv (s s' : seg) : Prop := s_prev s = s_prev s' /\ s_ents s = s_ents s'.

Lemma seg_eqv_refl s : seg_eqv s s.
Proof. split; reflexivity. Qed.
Lemma seg_eqv_sync s : seg_eqv s (s_sync s).
Proof. split; reflexivity. Qed.
Lemma seg_eqv_n s s' : seg_eqv s s' -> s_n s = s_n s'.
Proof. intros [_ H]. unfold s_n. now rewrite H. Qed.
Lemma seg_eqv_last s s' : seg_eqv s s' -> s_last s = s_last s'.
Proof. intros [H1 H2]. unfold s_last, s_n. now rewrite H1, H2. Qed.

Lemma eqv_nil_iff a b : Forall2 seg_eqv a b -> (a = [] <-> b = []).
Proof. intro F; inversion F; subst; split; intro; congruence. Qed.

Lemma eqv_hdprev a b : Forall2 seg_eqv a b -> hdprev a = hdprev b.
Proof. intro F; inversion F as [|x y a' b' [H _] _]; subst; simpl; auto. Qed.

Lemma eqv_ents a b : Forall2 seg_eqv a b -> ents_of a = ents_of b.
Proof.
  induction 1 as [|x y a b [_ H] _ IH]; [reflexivity|].
  rewrite !ents_of_cons. now rewrite H, IH.
Qed.

Lemma eqv_abs a b : Forall2 seg_eqv a b -> abs_segs a = abs_segs b.
Proof. intro F. unfold abs_segs. now rewrite (eqv_hdprev _ _ F), (eqv_ents _ _ F). Qed.

Lemma eqv_chain a b : Forall2 seg_eqv a b -> chain a -> chain b.
Proof.
  induction 1 as [|x y a b Hxy Hab IH]; [auto|].
  intro Hc. specialize (IH (chain_tail _ _ Hc)).
  inversion Hab as [|x2 y2 a' b' Hxy2 Hab']; subst; [simpl; auto|].
  rewrite chain_cons2 in Hc |- *. destruct Hc as [H1 [H2 H3]].
  destruct Hxy as [E1 E2]. destruct Hxy2 as [E3 E4].
  repeat split; auto.
  - rewrite <- E3, H1. apply seg_eqv_last. split; auto.
  - congruence.
Qed.

Lemma commitn_rev_eqv n rs : Forall2 seg_eqv rs (commitn_rev n rs).
Proof.
  induction rs as [|s r IH]; simpl; [constructor|].
  destruct (s_dirty s).
  - constructor; [|exact IH]. destruct (n <=? s_prev s); [apply seg_eqv_refl|apply seg_eqv_sync].
  - apply Forall2_refl. apply seg_eqv_refl.
Qed.

Lemma commitn_eqv l n : Forall2 seg_eqv (l_segs l) (l_segs (l_commitn l n)).
Proof.
  unfold l_commitn; simpl. apply Forall2_rev_inv. rewrite rev_involutive. apply commitn_rev_eqv.
Qed.

Lemma commit_eqv l : Forall2 seg_eqv (l_segs l) (l_segs (l_commit l)).
Proof.
  unfold l_commit. destruct (l_last l); try apply commitn_eqv; apply Forall2_refl; apply seg_eqv_refl.
Qed.

Lemma commit_segsize l : l_segsize (l_commit l) = l_segsize l.
Proof. unfold l_commit. destruct (l_last l); reflexivity. Qed.

Lemma eqv_wf l l' : Forall2 seg_eqv (l_segs l) (l_segs l') -> wf_log l -> wf_log l'.
Proof.
  intros F [H1 H2]. split.
  - intro E. apply H1. now apply (eqv_nil_iff _ _ F).
  - eapply eqv_chain; eauto.
Qed.

Lemma eqv_abs_log l l' : Forall2 seg_eqv (l_segs l) (l_segs l') -> abs l = abs l'.
Proof. intro F. rewrite !abs_eq. now apply eqv_abs. Qed.

(* the last segment *)
Lemma last_seg_snoc l : l_segs l <> [] -> exists A s, l_segs l = A ++ [s] /\ last_seg l = Some s.
Proof.
  intro H. destruct (snoc_cases (l_segs l)) as [E|[A [s E]]]; [congruence|].
  exists A, s. split; [exact E|]. unfold last_seg. rewrite E, rev_app_distr. reflexivity.
Qed.
