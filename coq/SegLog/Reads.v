(* Reads of the log itself agree with the abstract sequence. *)
From Coq Require Import List NArith ZArith Bool Lia ZifyN ZifyNat ZifyBool.
From Verif Require Import Base.Bytes SegLog.Log SegLog.Spec SegLog.Chain.
Import ListNotations.
Open Scope N_scope.

(* ------------------------------------------------------------ list slicing *)

Lemma skipn_app_exact {A} (a b : list A) k : skipn (length a + k) (a ++ b) = skipn k b.
Proof. induction a as [|x a IH]; simpl; [reflexivity|exact IH]. Qed.

Lemma skipn_app_le {A} (a b : list A) k : (k <= length a)%nat -> skipn k (a ++ b) = skipn k a ++ b.
Proof.
  intro H. rewrite skipn_app. replace (k - length a)%nat with 0%nat by lia. reflexivity.
Qed.

Lemma firstn_app_le {A} (a b : list A) n : (n <= length a)%nat -> firstn n (a ++ b) = firstn n a.
Proof.
  intro H. rewrite firstn_app. replace (n - length a)%nat with 0%nat by lia.
  simpl. apply app_nil_r.
Qed.

Lemma firstn1_skipn {A} (l : list A) k :
  (k < length l)%nat -> exists x, nth_error l k = Some x /\ firstn 1 (skipn k l) = [x].
Proof.
  revert k. induction l as [|y l IH]; intros k H; [simpl in H; lia|].
  destruct k as [|k]; simpl.
  - exists y; auto.
  - apply IH. simpl in H. lia.
Qed.

Lemma nth_error_mid {A} (a b c : list A) k :
  (k < length b)%nat -> nth_error (a ++ b ++ c) (length a + k) = nth_error b k.
Proof.
  intro H. rewrite nth_error_app2 by lia. replace (length a + k - length a)%nat with k by lia.
  now rewrite nth_error_app1.
Qed.

(* ------------------------------------------------------------ segment reads *)

Lemma seg_get_ok s i n :
  s_prev s < i -> (i - s_prev s - 1) + n <= s_n s ->
  seg_get s i n = Ok (concat (firstn (N.to_nat n) (skipn (N.to_nat (i - s_prev s - 1)) (s_ents s)))).
Proof.
  intros H1 H2. unfold seg_get.
  destruct (s_prev s <? i) eqn:E1; [|lia].
  destruct (N.of_nat (N.to_nat (i - s_prev s - 1)) + n <=? s_n s) eqn:E2; [reflexivity|lia].
Qed.

Lemma getn_loop_1 s i n :
  getn_loop [s] i n =
  if n =? 0 then Ok [] else match seg_get s i n with Ok b => Ok [b] | _ => Panic end.
Proof. reflexivity. Qed.

Lemma getn_loop_2 s y r i n :
  getn_loop (s :: y :: r) i n =
  if n =? 0 then Ok [] else
    let sn := N.min (s_last s - (i - 1)) n in
    match seg_get s i sn, getn_loop (y :: r) (i + sn) (n - sn) with
    | Ok b, Ok bs => Ok (b :: bs)
    | _, _ => Panic
    end.
Proof. reflexivity. Qed.

Lemma getn_loop_zero segs i : getn_loop segs i 0 = Ok [].
Proof. destruct segs; reflexivity. Qed.

Lemma getn_loop_spec r : forall s i n,
  chain (s :: r) -> s_prev s < i -> i <= s_last s + 1 ->
  i + n <= s_prev s + lenN (ents_of (s :: r)) + 1 ->
  exists bufs, getn_loop (s :: r) i n = Ok bufs /\
    concat bufs = concat (firstn (N.to_nat n) (skipn (N.to_nat (i - s_prev s - 1)) (ents_of (s :: r)))).
Proof.
  induction r as [|y r IH]; intros s i n Hc Hlo Hi Hn.
  - rewrite getn_loop_1. destruct (N.eqb_spec n 0) as [->|Hn0].
    + exists []. split; reflexivity.
    + rewrite ents_of_one in *. rewrite seg_get_ok; [|lia|rewrite s_n_lenN; lia].
      eexists; split; [reflexivity|]. simpl. apply app_nil_r.
  - rewrite getn_loop_2. destruct (N.eqb_spec n 0) as [->|Hn0].
    + exists []. split; reflexivity.
    + pose proof Hc as Hc0. rewrite chain_cons2 in Hc. destruct Hc as [Hy [Hne Hc]].
      cbv zeta. set (sn := N.min (s_last s - (i - 1)) n).
      set (k := N.to_nat (i - s_prev s - 1)).
      assert (Hsl : s_last s = s_prev s + lenN (s_ents s)) by reflexivity.
      rewrite ents_of_cons, lenN_app in Hn.
      assert (Hk : (k <= length (s_ents s))%nat) by (unfold k, lenN in *; lia).
      rewrite seg_get_ok; [|lia|rewrite s_n_lenN; unfold sn; lia].
      fold k. rewrite ents_of_cons, skipn_app_le by exact Hk.
      set (X := skipn k (s_ents s)).
      assert (HX : length X = (length (s_ents s) - k)%nat) by (unfold X; apply skipn_length).
      rewrite firstn_app, concat_app.
      destruct (N.eq_dec sn n) as [E|NE].
      * rewrite E. replace (n - n) with 0 by lia. rewrite getn_loop_zero.
        eexists; split; [reflexivity|]. simpl.
        replace (N.to_nat n - length X)%nat with 0%nat by (unfold sn, lenN, k in *; lia).
        reflexivity.
      * assert (Esn : sn = s_last s - (i - 1)) by (unfold sn in *; lia).
        destruct (IH y (i + sn) (n - sn)) as [bufs [Hb1 Hb2]]; auto; try lia.
        { pose proof (s_prev_le_last y). lia. }
        rewrite Hb1. eexists; split; [reflexivity|].
        simpl. rewrite Hb2.
        replace (N.to_nat (i + sn - s_prev y - 1)) with 0%nat by lia.
        simpl skipn.
        replace (N.to_nat (n - sn)) with (N.to_nat n - length X)%nat by (unfold lenN, k in *; lia).
        rewrite (firstn_all2 (n := N.to_nat sn)) by (unfold lenN, k in *; lia).
        rewrite (firstn_all2 (n := N.to_nat n)) by (unfold lenN, k in *; lia).
        reflexivity.
Qed.

(* ------------------------------------------------------------ the log's own reads *)

Lemma h_prev_log l : wf_log l -> h_prev (handle_of l) = Ok (a_prev (abs l)).
Proof.
  intros [Hne _]. unfold h_prev, handle_of, abs; simpl.
  destruct (l_segs l); [congruence|reflexivity].
Qed.

Lemma a_last_eq l : a_last (abs l) = hdprev (l_segs l) + lenN (ents_of (l_segs l)).
Proof. reflexivity. Qed.

Lemma h_last_log l : wf_log l -> h_last (handle_of l) = Ok (a_last (abs l)).
Proof.
  intros [Hne Hc]. unfold h_last, handle_of; simpl. rewrite a_last_eq.
  destruct (snoc_cases (l_segs l)) as [E|[A [s E]]]; [congruence|].
  rewrite E in *. rewrite rev_app_distr; simpl. f_equal. now apply chain_last_len.
Qed.

Lemma last_seg_last l s : wf_log l -> last_seg l = Some s -> s_last s = a_last (abs l).
Proof.
  intros Hwf Hs. pose proof (h_last_log l Hwf) as H.
  unfold h_last, handle_of in H; simpl in H. unfold last_seg in Hs.
  destruct (rev (l_segs l)); [discriminate|]. inversion Hs; subst. now inversion H.
Qed.

Lemma h_segment_log l i :
  wf_log l -> a_prev (abs l) < i -> i <= a_last (abs l) ->
  exists A s B, l_segs l = A ++ s :: B /\ s_prev s < i /\ i <= s_last s /\
    h_segment (handle_of l) i = Ok (Some s) /\ segs_from (s_prev s) (l_segs l) = s :: B.
Proof.
  intros Hwf Hlo Hhi. pose proof Hwf as [Hne Hc].
  destruct (locate (l_segs l) i Hc Hne) as [A [s [B [E [H1 [H2 [H3 H4]]]]]]]; auto.
  exists A, s, B. repeat split; auto.
  unfold h_segment. rewrite (h_prev_log l Hwf), (h_last_log l Hwf).
  destruct (a_last (abs l) <? i) eqn:E1; [lia|].
  destruct (i <=? a_prev (abs l)) eqn:E2; [lia|].
  simpl h_segs. rewrite find_rev_flast, H3. reflexivity.
Qed.

Lemma reads_agree :
  forall l, wf_log l ->
    l_prev l = Ok (a_prev (abs l)) /\ l_last l = Ok (a_last (abs l)) /\
    h_count (handle_of l) = Ok (a_last (abs l) - a_prev (abs l)) /\
    (forall i, h_contains (handle_of l) i = Ok (a_contains (abs l) i)) /\
    (forall i, h_get (handle_of l) i =
       if a_last (abs l) <? i then Panic
       else match a_get (abs l) i with Some b => Ok b | None => ErrNotFound end).
Proof.
  intros l Hwf. pose proof (h_prev_log l Hwf) as Hp. pose proof (h_last_log l Hwf) as Hl.
  split; [exact Hp|]. split; [exact Hl|]. split; [|split].
  - unfold h_count. now rewrite Hp, Hl.
  - intro i. unfold h_contains. now rewrite Hp, Hl.
  - intro i. unfold h_get.
    destruct (a_last (abs l) <? i) eqn:E1.
    { unfold h_segment. now rewrite Hp, Hl, E1. }
    destruct (i <=? a_prev (abs l)) eqn:E2.
    { unfold h_segment. rewrite Hp, Hl, E1, E2. unfold a_get.
      destruct (a_prev (abs l) <? i) eqn:E3; [lia|reflexivity]. }
    destruct (h_segment_log l i Hwf) as [A [s [B [E [H1 [H2 [H3 _]]]]]]]; try lia.
    rewrite H3. rewrite seg_get_ok; [|lia|unfold s_last in H2; lia].
    unfold a_get. destruct (a_prev (abs l) <? i) eqn:E3; [|lia].
    destruct Hwf as [Hne Hc]. rewrite E in Hc. pose proof (chain_app_len _ _ _ Hc) as Hk.
    rewrite <- E in Hk.
    change (a_prev (abs l)) with (hdprev (l_segs l)).
    change (a_ents (abs l)) with (ents_of (l_segs l)).
    assert (Eents : ents_of (l_segs l) = ents_of A ++ s_ents s ++ ents_of B)
      by (rewrite E, ents_of_app, ents_of_cons; reflexivity).
    rewrite Eents.
    set (k := N.to_nat (i - s_prev s - 1)).
    replace (N.to_nat (i - hdprev (l_segs l) - 1)) with (length (ents_of A) + k)%nat
      by (unfold k, lenN in *; lia).
    assert (Hklt : (k < length (s_ents s))%nat) by (unfold k, s_last, s_n in *; lia).
    rewrite nth_error_mid by exact Hklt.
    destruct (firstn1_skipn (s_ents s) k Hklt) as [x [Hx1 Hx2]].
    rewrite Hx1. simpl N.to_nat. change (Pos.to_nat 1) with 1%nat. rewrite Hx2.
    simpl. now rewrite app_nil_r.
Qed.

Lemma getn_concat :
  forall l i n, wf_log l -> 1 <= n -> a_prev (abs l) < i -> i + n - 1 <= a_last (abs l) -> i + n < two64 ->
    exists bufs, h_getn (handle_of l) i n = Ok bufs /\ concat bufs = concat (a_getn (abs l) i n).
Proof.
  intros l i n Hwf Hn Hlo Hhi H64.
  unfold h_getn. rewrite (h_last_log l Hwf).
  assert (E64 : (i + (n + two64 - 1) mod two64) mod two64 = i + n - 1).
  { replace (n + two64 - 1) with ((n - 1) + 1 * two64) by lia.
    rewrite N.mod_add by (unfold two64; lia).
    rewrite (N.mod_small (n - 1)) by lia. rewrite N.mod_small by lia. lia. }
  rewrite E64. destruct (a_last (abs l) <? i + n - 1) eqn:E1; [lia|].
  destruct (h_segment_log l i Hwf) as [A [s [B [E [H1 [H2 [H3 H4]]]]]]]; try lia.
  rewrite H3. simpl h_segs. rewrite H4.
  destruct Hwf as [Hne Hc]. rewrite E in Hc. pose proof (chain_app_len _ _ _ Hc) as Hk.
  rewrite <- E in Hk. rewrite a_last_eq in Hhi.
  assert (Eents : ents_of (l_segs l) = ents_of A ++ ents_of (s :: B)) by (rewrite E; apply ents_of_app).
  rewrite Eents, lenN_app in Hhi.
  destruct (getn_loop_spec B s i n) as [bufs [Hb1 Hb2]]; try lia.
  { eapply chain_app_r; eauto. }
  exists bufs. split; [exact Hb1|]. rewrite Hb2. unfold a_getn.
  change (a_prev (abs l)) with (hdprev (l_segs l)).
  change (a_ents (abs l)) with (ents_of (l_segs l)).
  rewrite Eents.
  replace (N.to_nat (i - hdprev (l_segs l) - 1)) with (length (ents_of A) + N.to_nat (i - s_prev s - 1))%nat
    by (unfold lenN in *; lia).
  now rewrite skipn_app_exact.
Qed.
