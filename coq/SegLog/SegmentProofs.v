(* Refinement proof for the byte-level segment model (Segment.v):
   the relation R between a file image with its in-memory fields and an entry
   list is established by createSegment, preserved by append (under the
   available() test of Log.Append), removeGTE and the header write of sync,
   recovered by openSegment, and makes get return exactly the bytes appended.
   The last section ties the arithmetic to the entry-level model (Log.v). *)
From Coq Require Import List NArith ZArith Bool PeanoNat Lia ZifyNat ZifyN ZifyBool.
From Verif Require Import Base.Bytes SegLog.Log SegLog.Segment.
Import ListNotations.
Local Open Scope nat_scope.

(* ------------------------------------------------------------ list lemmas *)

Lemma skipn_skipn' {A} (a b : nat) (l : list A) : skipn a (skipn b l) = skipn (b + a) l.
Proof.
  revert l; induction b as [|b IH]; intro l; [reflexivity|].
  destruct l as [|x l]; [now rewrite !skipn_nil|]. cbn [skipn Nat.add]. apply IH.
Qed.

Lemma Forall_firstn' {A} (P : A -> Prop) k (l : list A) : Forall P l -> Forall P (firstn k l).
Proof.
  intro H. rewrite <- (firstn_skipn k l) in H. now apply Forall_app in H.
Qed.

Lemma Forall_skipn' {A} (P : A -> Prop) k (l : list A) : Forall P l -> Forall P (skipn k l).
Proof.
  intro H. rewrite <- (firstn_skipn k l) in H. now apply Forall_app in H.
Qed.

Lemma slice_length l p k : p + k <= length l -> length (slice l p k) = k.
Proof. intro H. unfold slice. rewrite firstn_length, skipn_length. lia. Qed.

Lemma write_length l p new :
  p + length new <= length l -> length (write l p new) = length l.
Proof.
  intro H. unfold write. rewrite !app_length, firstn_length, skipn_length. lia.
Qed.

Lemma copy_at_fits l p new :
  p + length new <= length l -> copy_at l p new = write l p new.
Proof.
  intro H. unfold copy_at. apply firstn_all2. rewrite write_length by exact H. lia.
Qed.

Lemma copy_at_length l p new : length (copy_at l p new) = length l.
Proof.
  unfold copy_at, write. rewrite firstn_length, !app_length, firstn_length, skipn_length. lia.
Qed.

(* read-over-write, same place *)
Lemma slice_write_same l p new :
  p + length new <= length l -> slice (write l p new) p (length new) = new.
Proof.
  intro H. unfold slice, write.
  rewrite skipn_app, firstn_length.
  replace (Nat.min p (length l)) with p by lia.
  rewrite (skipn_all2 (firstn p l)) by (rewrite firstn_length; lia).
  replace (p - p) with 0 by lia. cbn [skipn app].
  rewrite firstn_app. replace (length new - length new) with 0 by lia.
  rewrite firstn_all. cbn [firstn]. apply app_nil_r.
Qed.

(* read-over-write, read entirely below the write *)
Lemma slice_write_below l p new q k :
  p <= length l -> q + k <= p -> slice (write l p new) q k = slice l q k.
Proof.
  intros Hp Hq. unfold slice, write.
  rewrite skipn_app, firstn_length. replace (q - Nat.min p (length l)) with 0 by lia.
  cbn [skipn]. rewrite firstn_app.
  rewrite skipn_length, firstn_length.
  replace (k - (Nat.min p (length l) - q)) with 0 by lia. cbn [firstn]. rewrite app_nil_r.
  rewrite skipn_firstn_comm, firstn_firstn. f_equal. lia.
Qed.

(* read-over-write, read entirely above the write *)
Lemma slice_write_above l p new q k :
  p + length new <= length l -> p + length new <= q ->
  slice (write l p new) q k = slice l q k.
Proof.
  intros Hp Hq. unfold slice, write. f_equal.
  rewrite skipn_app, firstn_length.
  rewrite (skipn_all2 (firstn p l)) by (rewrite firstn_length; lia).
  cbn [app]. rewrite skipn_app.
  rewrite (skipn_all2 new) by lia. cbn [app].
  rewrite skipn_skipn'. f_equal. lia.
Qed.

Lemma firstn_write_below l p new m :
  p <= length l -> m <= p -> firstn m (write l p new) = firstn m l.
Proof. intros Hp Hm. apply (slice_write_below l p new 0 m Hp). lia. Qed.

Lemma firstn_write_extend l p new :
  p + length new <= length l -> firstn (p + length new) (write l p new) = firstn p l ++ new.
Proof.
  intro H. unfold write.
  rewrite firstn_app, firstn_length. replace (Nat.min p (length l)) with p by lia.
  rewrite (firstn_all2 (firstn p l)) by (rewrite firstn_length; lia).
  f_equal. replace (p + length new - p) with (length new) by lia.
  rewrite firstn_app. replace (length new - length new) with 0 by lia.
  rewrite firstn_all. cbn [firstn]. apply app_nil_r.
Qed.

Lemma write_wf l p new : wf_bytes l -> wf_bytes new -> wf_bytes (write l p new).
Proof.
  intros Hl Hn. unfold wf_bytes, write in *.
  apply Forall_app; split; [now apply Forall_firstn'|].
  apply Forall_app; split; [exact Hn | now apply Forall_skipn'].
Qed.

(* ----------------------------------------------------------- slot lemmas *)

Lemma b_at_some cap i : 8 * i + 8 <= cap -> b_at cap i = Some (cap - 8 * i - 8).
Proof.
  intro H. unfold b_at, b_pos. destruct (Nat.leb_spec (8 * i + 8) cap); [reflexivity | lia].
Qed.

Lemma slot_some data i :
  8 * i + 8 <= length data ->
  slot data i = Some (le_dec (slice data (length data - 8 * i - 8) 8)).
Proof. intro H. unfold slot. now rewrite b_at_some. Qed.

Lemma set_slot_length data v i : length (set_slot data v i) = length data.
Proof.
  unfold set_slot, b_at, b_pos. destruct (Nat.leb_spec (8 * i + 8) (length data)) as [H|H]; [|reflexivity].
  apply write_length. rewrite le_enc_length. lia.
Qed.

Lemma set_slot_wf data v i : wf_bytes data -> wf_bytes (set_slot data v i).
Proof.
  intro H. unfold set_slot. destruct (b_at (length data) i); [|exact H].
  apply write_wf; [exact H | apply le_enc_wf].
Qed.

Lemma slot_set_same data v i :
  8 * i + 8 <= length data -> (v < two64)%N -> slot (set_slot data v i) i = Some v.
Proof.
  intros H Hv. rewrite slot_some by (rewrite set_slot_length; exact H).
  rewrite set_slot_length. unfold set_slot. rewrite b_at_some by exact H.
  pose proof (slice_write_same data (length data - 8 * i - 8) (le_enc 8 v)) as E.
  rewrite le_enc_length in E. rewrite E by lia.
  f_equal. apply le_dec_enc_small. rewrite two64_eq. exact Hv.
Qed.

Lemma slot_set_other data v i j :
  i <> j -> slot (set_slot data v i) j = slot data j.
Proof.
  intro Hij. unfold slot at 1. rewrite set_slot_length. unfold slot.
  unfold b_at, b_pos. destruct (Nat.leb_spec (8 * j + 8) (length data)) as [Hj|Hj]; [|reflexivity].
  f_equal. f_equal. unfold set_slot, b_at, b_pos.
  destruct (Nat.leb_spec (8 * i + 8) (length data)) as [Hi|Hi]; [|reflexivity].
  destruct (Nat.lt_ge_cases i j) as [L|L].
  - apply slice_write_below; lia.
  - apply slice_write_above; rewrite le_enc_length; lia.
Qed.

(* a write entirely below slot j does not change it *)
Lemma slot_write_below data p new j :
  p + length new <= length data - 8 * j - 8 -> 8 * j + 8 <= length data ->
  slot (write data p new) j = slot data j.
Proof.
  intros H Hj. unfold slot. rewrite write_length by lia.
  rewrite b_at_some by exact Hj. f_equal. f_equal.
  apply slice_write_above; lia.
Qed.

Lemma firstn_set_slot data v i m :
  m + 8 * i + 8 <= length data -> firstn m (set_slot data v i) = firstn m data.
Proof.
  intro H. unfold set_slot. rewrite b_at_some by lia.
  apply firstn_write_below; lia.
Qed.

(* ----------------------------------------------------------- concat lemmas *)

Lemma concat_split (ents : list bytes) k :
  concat ents = concat (firstn k ents) ++ concat (skipn k ents).
Proof. rewrite <- concat_app, firstn_skipn. reflexivity. Qed.

Lemma concat_firstn_le (ents : list bytes) k :
  length (concat (firstn k ents)) <= length (concat ents).
Proof. rewrite (concat_split ents k), app_length. lia. Qed.

Lemma concat_firstn_prefix (ents : list bytes) k :
  firstn (length (concat (firstn k ents))) (concat ents) = concat (firstn k ents).
Proof.
  rewrite (concat_split ents k).
  rewrite firstn_app. replace (_ - _) with 0 by lia. rewrite firstn_all. cbn [firstn]. apply app_nil_r.
Qed.

Lemma concat_firstn_mono (ents : list bytes) a b :
  a <= b -> length (concat (firstn a ents)) <= length (concat (firstn b ents)).
Proof.
  intro H. replace (firstn a ents) with (firstn a (firstn b ents)).
  - apply concat_firstn_le.
  - rewrite firstn_firstn. f_equal. lia.
Qed.

(* the bytes between the ends of entries a and a+k *)
Lemma concat_slice (ents : list bytes) a k :
  slice (concat ents) (length (concat (firstn a ents)))
        (length (concat (firstn (a + k) ents)) - length (concat (firstn a ents)))
  = concat (firstn k (skipn a ents)).
Proof.
  assert (E : firstn (a + k) ents = firstn a ents ++ firstn k (skipn a ents)).
  { rewrite <- (firstn_skipn a ents) at 1.
    rewrite firstn_app. rewrite firstn_length.
    destruct (Nat.le_ge_cases a (length ents)) as [H|H].
    - replace (Nat.min a (length ents)) with a by lia.
      rewrite firstn_all2 by (rewrite firstn_length; lia).
      f_equal. f_equal. lia.
    - rewrite (skipn_all2 ents) by exact H. rewrite !firstn_nil, !app_nil_r.
      rewrite firstn_firstn. f_equal. lia. }
  rewrite E, concat_app, app_length.
  replace (_ + _ - _) with (length (concat (firstn k (skipn a ents)))) by lia.
  unfold slice.
  rewrite (concat_split ents a) at 1. rewrite (concat_split (skipn a ents) k) at 1.
  rewrite skipn_app. rewrite skipn_all. replace (_ - _) with 0 by lia. cbn [skipn app].
  rewrite firstn_app. replace (_ - _) with 0 by lia. rewrite firstn_all. cbn [firstn]. apply app_nil_r.
Qed.

(* ------------------------------------------------------------ the relation *)

(* the part that only talks about the file image: [data] holds [ents] with
   header [hdr] *)
Record Rdata (data : bytes) (cap : N) (ents : list bytes) (hdr : N) : Prop := mkRdata {
  Rd_len : N.of_nat (length data) = cap;
  (* slots 0..n+1 fit above the entry bytes: size <= at(n+1) *)
  Rd_bound : 8 * (length ents + 2) + length (concat ents) <= length data;
  Rd_hdr : slot data 0 = Some hdr;
  Rd_slots : forall k, 1 <= k <= length ents + 1 ->
               slot data k = Some (N.of_nat (length (concat (firstn (k - 1) ents))));
  Rd_body : firstn (length (concat ents)) data = concat ents
}.

Record R (s : bseg) (ents : list bytes) : Prop := mkR {
  R_n : b_n s = length ents;
  R_size : b_size s = length (concat ents);
  R_cap64 : (N.of_nat (b_cap s) < two64)%N;
  (* no overlap: the entry bytes end at or below the lowest used slot *)
  R_bound : 8 * (b_n s + 2) + b_size s <= b_cap s;
  R_slots : forall k, 1 <= k <= length ents + 1 ->
              b_offset s k = Some (N.of_nat (length (concat (firstn (k - 1) ents))));
  R_body : firstn (b_size s) (b_data s) = concat ents;
  R_wf : wf_bytes (b_data s)
}.

(* R_bound in the terms of segment.go: at(n+1) is defined and size <= at(n+1) *)
Lemma R_bound_at s ents :
  R s ents -> exists p, b_at (b_cap s) (b_n s + 1) = Some p /\ b_size s <= p.
Proof.
  intro HR. destruct HR as [_ _ _ Hb _ _ _].
  exists (b_cap s - 8 * (b_n s + 1) - 8). split; [apply b_at_some; lia | lia].
Qed.

Lemma R_Rdata s ents :
  R s ents -> exists hdr, Rdata (b_data s) (N.of_nat (b_cap s)) ents hdr.
Proof.
  intro HR. destruct HR as [Hn Hs _ Hb Hsl Hbody _]. unfold b_cap in *.
  exists (le_dec (slice (b_data s) (length (b_data s) - 8 * 0 - 8) 8)).
  constructor.
  - reflexivity.
  - lia.
  - apply slot_some. lia.
  - exact Hsl.
  - rewrite <- Hs. exact Hbody.
Qed.

Lemma Rdata_R s ents hdr :
  Rdata (b_data s) (N.of_nat (b_cap s)) ents hdr ->
  b_n s = length ents -> b_size s = length (concat ents) ->
  (N.of_nat (b_cap s) < two64)%N -> wf_bytes (b_data s) ->
  R s ents.
Proof.
  intros HD Hn Hs H64 Hwf. destruct HD as [_ Hb _ Hsl Hbody].
  constructor; try assumption.
  - unfold b_cap. lia.
  - rewrite Hs. exact Hbody.
Qed.

(* ------------------------------------------------------------ createSegment *)

Lemma le_dec_zeros k : le_dec (repeat 0%N k) = 0%N.
Proof. induction k as [|k IH]; [reflexivity|]. cbn [repeat le_dec]. rewrite IH. reflexivity. Qed.

Lemma firstn_repeat {A} (x : A) k m : firstn k (repeat x m) = repeat x (Nat.min k m).
Proof.
  revert m; induction k as [|k IH]; intro m; [reflexivity|].
  destruct m as [|m]; [reflexivity|]. cbn [repeat firstn Nat.min]. now rewrite IH.
Qed.

Lemma skipn_repeat {A} (x : A) k m : skipn k (repeat x m) = repeat x (m - k).
Proof.
  revert m; induction k as [|k IH]; intro m; [now rewrite Nat.sub_0_r|].
  destruct m as [|m]; [reflexivity|]. cbn [repeat skipn Nat.sub]. apply IH.
Qed.

Lemma slot_fresh cap i : 8 * i + 8 <= cap -> slot (repeat 0%N cap) i = Some 0%N.
Proof.
  intro H. rewrite slot_some by (rewrite repeat_length; exact H).
  unfold slice. rewrite skipn_repeat, firstn_repeat, le_dec_zeros. reflexivity.
Qed.

(* 16 bytes is exactly what createSegment writes: slot 0 and slot 1 *)
Theorem fresh_R cap : 16 <= cap -> (N.of_nat cap < two64)%N -> R (b_fresh cap) [].
Proof.
  intros H16 H64. unfold b_fresh. constructor; cbn [b_n b_size b_data b_cap length concat].
  - reflexivity.
  - reflexivity.
  - unfold b_cap. cbn [b_data]. now rewrite repeat_length.
  - unfold b_cap. cbn [b_data]. rewrite repeat_length. lia.
  - intros k Hk. unfold b_offset. cbn [b_data]. replace k with 1 by (cbn [length] in Hk; lia).
    apply slot_fresh. lia.
  - reflexivity.
  - unfold wf_bytes. apply Forall_forall. intros x Hx. apply repeat_spec in Hx. subst x.
    unfold wf_byte. lia.
Qed.

Theorem fresh_header cap : 16 <= cap -> b_offset (b_fresh cap) 0 = Some 0%N.
Proof. intro H. unfold b_offset, b_fresh. cbn [b_data]. apply slot_fresh. lia. Qed.

(* below 16 bytes openSegment cannot even read slot 1 *)
Theorem fresh_needs_16 cap : cap < 16 -> b_offset (b_fresh cap) 1 = None.
Proof.
  intro H. unfold b_offset, b_fresh, slot, b_at. cbn [b_data]. rewrite repeat_length.
  destruct (Nat.leb_spec (8 * 1 + 8) cap); [lia | reflexivity].
Qed.

(* ------------------------------------------------------------------ append *)

Lemma fits_bound s (bs : bytes) :
  (Z.of_nat (length bs) <= b_available s)%Z ->
  8 * (b_n s + 3) + b_size s + length bs <= b_cap s.
Proof. unfold b_available. lia. Qed.

(* the file never changes length *)
Theorem append_cap s (bs : bytes) : b_cap (b_append s bs) = b_cap s.
Proof.
  unfold b_cap, b_append. cbn [b_data]. now rewrite set_slot_length, copy_at_length.
Qed.

(* THE key theorem.  Under the test Log.Append performs (len(b) <= available())
   the copied bytes end at or below slot n+2, the slot being written; slots
   1..n+1 and the earlier entries are unchanged; slot n+2 holds the new end. *)
Theorem append_R s ents bs :
  R s ents -> wf_bytes bs -> (Z.of_nat (length bs) <= b_available s)%Z ->
  R (b_append s bs) (ents ++ [bs]).
Proof.
  intros HR Hwf Hfit. apply fits_bound in Hfit.
  destruct HR as [Hn Hs H64 Hb Hsl Hbody Hw].
  assert (Hc : copy_at (b_data s) (b_size s) bs = write (b_data s) (b_size s) bs).
  { apply copy_at_fits. unfold b_cap in *. lia. }
  assert (Hlen1 : length (write (b_data s) (b_size s) bs) = length (b_data s)).
  { apply write_length. unfold b_cap in *. lia. }
  constructor.
  - unfold b_append. cbn [b_n]. rewrite app_length. cbn [length]. lia.
  - unfold b_append. cbn [b_size]. rewrite concat_app, app_length. cbn [concat].
    rewrite app_nil_r. lia.
  - rewrite append_cap. exact H64.
  - rewrite append_cap. unfold b_append. cbn [b_n b_size]. lia.
  - intros k Hk. rewrite app_length in Hk. cbn [length] in Hk.
    unfold b_offset, b_append. cbn [b_data]. rewrite Hc. unfold b_cap in *.
    destruct (Nat.eq_dec k (b_n s + 2)) as [E|E].
    + subst k. rewrite slot_set_same.
      * f_equal. f_equal.
        rewrite firstn_all2 by (rewrite app_length; cbn [length]; lia).
        rewrite concat_app, app_length. cbn [concat]. rewrite app_nil_r. lia.
      * lia.
      * unfold two64 in *. lia.
    + rewrite slot_set_other by lia. rewrite slot_write_below by lia.
      rewrite firstn_app. replace (k - 1 - length ents) with 0 by lia.
      cbn [firstn]. rewrite app_nil_r. apply Hsl. lia.
  - unfold b_append. cbn [b_size b_data]. rewrite Hc. unfold b_cap in *.
    rewrite firstn_set_slot by lia.
    rewrite firstn_write_extend by lia. rewrite Hbody, concat_app. cbn [concat].
    now rewrite app_nil_r.
  - unfold b_append. cbn [b_data]. rewrite Hc.
    apply set_slot_wf. apply write_wf; assumption.
Qed.

(* append never touches the on-disk header: a crash before sync() reopens
   with the old entry count *)
Theorem append_header s ents (bs : bytes) :
  R s ents -> (Z.of_nat (length bs) <= b_available s)%Z ->
  b_offset (b_append s bs) 0 = b_offset s 0.
Proof.
  intros HR Hfit. apply fits_bound in Hfit. destruct HR as [Hn Hs H64 Hb Hsl Hbody Hw].
  unfold b_offset, b_append. cbn [b_data]. unfold b_cap in *.
  rewrite copy_at_fits by lia.
  rewrite slot_set_other by lia. apply slot_write_below; lia.
Qed.

(* the available() test is exact: one byte more and the no-overlap bound of R
   is lost (C13_bytes.v has a concrete file where the entry is then corrupted) *)
Theorem append_overflow s ents (bs : bytes) :
  R s ents -> (b_available s < Z.of_nat (length bs))%Z ->
  ~ R (b_append s bs) (ents ++ [bs]).
Proof.
  intros HR Hbig HR'. destruct HR' as [_ _ _ Hb' _ _ _]. rewrite append_cap in Hb'.
  unfold b_append in Hb'. cbn [b_n b_size] in Hb'. unfold b_available in Hbig. lia.
Qed.

(* -------------------------------------------------------------------- get *)

Lemma slice_firstn l m p k : p + k <= m -> slice (firstn m l) p k = slice l p k.
Proof.
  intro H. unfold slice. rewrite skipn_firstn_comm, firstn_firstn. f_equal. lia.
Qed.

(* reads return exactly the bytes appended; multi-entry reads concatenate *)
Theorem get_R s ents i k :
  R s ents -> 1 <= i -> i + k <= length ents + 1 ->
  b_get s i k = Some (concat (firstn k (skipn (i - 1) ents))).
Proof.
  intros HR Hi Hk. destruct HR as [Hn Hs H64 Hb Hsl Hbody Hw].
  unfold b_get. destruct (Nat.eqb_spec i 0) as [E|_]; [lia|].
  rewrite (Hsl i) by lia. rewrite (Hsl (i + k)) by lia.
  replace (i + k - 1) with (i - 1 + k) by lia.
  pose proof (concat_firstn_mono ents (i - 1) (i - 1 + k) ltac:(lia)) as Hab.
  pose proof (concat_firstn_le ents (i - 1 + k)) as Hbs.
  destruct (N.leb_spec (N.of_nat (length (concat (firstn (i - 1) ents))))
                       (N.of_nat (length (concat (firstn (i - 1 + k) ents))))) as [_|L]; [|lia].
  destruct (N.leb_spec (N.of_nat (length (concat (firstn (i - 1 + k) ents))))
                       (N.of_nat (b_cap s))) as [_|L]; [|lia].
  cbn [andb]. f_equal. rewrite !Nnat.Nat2N.id.
  rewrite <- (slice_firstn (b_data s) (b_size s)) by lia.
  rewrite Hbody. apply concat_slice.
Qed.

(* index 0 is the Go panic "i<=prevIndex" *)
Theorem get_zero s k : b_get s 0 k = None.
Proof. reflexivity. Qed.
(* For i + k > n + 1 nothing is promised: the slots read are garbage (zero in a
   fresh file, stale after removeGTE), so b_get may be None or Some of stale
   bytes; see the stale-read Example in C13_bytes.v. *)

(* ---------------------------------------------- removeGTE / sync / open *)

Lemma R_truncate data n size ents n' :
  R (mkB data n size) ents -> n' <= length ents ->
  R (mkB data n' (length (concat (firstn n' ents)))) (firstn n' ents).
Proof.
  intros HR Hn'. destruct HR as [Hn Hs H64 Hb Hsl Hbody Hw].
  unfold b_cap, b_offset in *. cbn [b_data b_n b_size] in *.
  pose proof (concat_firstn_le ents n') as Hle.
  constructor; unfold b_cap, b_offset; cbn [b_data b_n b_size].
  - rewrite firstn_length. lia.
  - reflexivity.
  - exact H64.
  - lia.
  - intros k Hk. rewrite firstn_length in Hk.
    rewrite firstn_firstn. replace (Nat.min (k - 1) n') with (k - 1) by lia.
    apply Hsl. lia.
  - replace (length (concat (firstn n' ents)))
      with (Nat.min (length (concat (firstn n' ents))) size) by lia.
    rewrite <- firstn_firstn, Hbody. apply concat_firstn_prefix.
  - exact Hw.
Qed.

(* writing slot 0 keeps R (R does not constrain the header) *)
Lemma R_set_header s ents v : R s ents -> R (b_set_offset s v 0) ents.
Proof.
  intro HR. destruct HR as [Hn Hs H64 Hb Hsl Hbody Hw].
  constructor; unfold b_cap, b_offset, b_set_offset in *; cbn [b_data b_n b_size];
    try rewrite set_slot_length; try assumption.
  - intros k Hk. rewrite slot_set_other by lia. now apply Hsl.
  - rewrite firstn_set_slot by lia. exact Hbody.
  - now apply set_slot_wf.
Qed.

Lemma R_n_lt64 s ents : R s ents -> (N.of_nat (length ents) < two64)%N.
Proof. intro HR. destruct HR as [Hn _ H64 Hb _ _ _]. unfold two64 in *. lia. Qed.

Theorem sync_header_R s ents :
  R s ents ->
  R (b_sync_header s) ents /\ b_offset (b_sync_header s) 0 = Some (N.of_nat (length ents)).
Proof.
  intro HR. split; [now apply R_set_header|].
  pose proof (R_n_lt64 s ents HR) as H64n. destruct HR as [Hn _ _ Hb _ _ _].
  unfold b_sync_header, b_offset, b_set_offset. cbn [b_data]. rewrite Hn.
  apply slot_set_same; [unfold b_cap in *; lia | exact H64n].
Qed.

Theorem remove_gte_R s ents n' :
  R s ents -> n' <= length ents -> R (b_remove_gte s n') (firstn n' ents).
Proof.
  intros HR Hn'. pose proof HR as [Hn Hs H64 Hb Hsl Hbody Hw].
  unfold b_remove_gte. destruct (Nat.ltb_spec n' (b_n s)) as [L|L].
  - pose proof (R_set_header s ents (N.of_nat n') HR) as HR1.
    pose proof HR1 as [_ _ _ _ Hsl1 _ _].
    unfold b_offset, b_set_offset in Hsl1. cbn [b_data] in Hsl1.
    rewrite (Hsl1 (n' + 1)) by lia. replace (n' + 1 - 1) with n' by lia.
    unfold to_pos. rewrite set_slot_length.
    pose proof (concat_firstn_le ents n') as Hle.
    destruct (N.leb_spec (N.of_nat (length (concat (firstn n' ents))))
                         (N.of_nat (length (b_data s)))) as [_|L2];
      [|unfold b_cap in *; lia].
    rewrite Nnat.Nat2N.id.
    exact (R_truncate _ _ _ ents n' HR1 Hn').
  - rewrite firstn_all2 by lia. exact HR.
Qed.

Theorem remove_gte_header s ents n' :
  R s ents -> n' < length ents -> b_offset (b_remove_gte s n') 0 = Some (N.of_nat n').
Proof.
  intros HR Hn'. pose proof (R_n_lt64 s ents HR) as H64n. destruct HR as [Hn _ _ Hb _ _ _].
  unfold b_remove_gte. destruct (Nat.ltb_spec n' (b_n s)) as [L|L]; [|lia].
  unfold b_offset. cbn [b_data].
  apply slot_set_same; [unfold b_cap in *; lia | unfold two64 in *; lia].
Qed.

(* openSegment recovers exactly the first [header] entries *)
Theorem open_R s ents h :
  R s ents -> b_offset s 0 = Some (N.of_nat h) -> h <= length ents ->
  exists s', b_open (b_data s) = Some s' /\ R s' (firstn h ents) /\ b_data s' = b_data s.
Proof.
  intros HR H0 Hh. pose proof HR as [Hn Hs H64 Hb Hsl Hbody Hw].
  unfold b_offset, b_cap in *. unfold b_open.
  destruct (Nat.ltb_spec (length (b_data s)) 16) as [L|_]; [lia|].
  rewrite H0.
  destruct (N.leb_spec (8 * N.of_nat h + 16) (N.of_nat (length (b_data s)))) as [_|L]; [|lia].
  rewrite Nnat.Nat2N.id. rewrite (Hsl (h + 1)) by lia. replace (h + 1 - 1) with h by lia.
  pose proof (concat_firstn_le ents h) as Hle.
  unfold to_pos.
  destruct (N.leb_spec (N.of_nat (length (concat (firstn h ents))))
                       (N.of_nat (length (b_data s)))) as [_|L2]; [|lia].
  rewrite Nnat.Nat2N.id. eexists. split; [reflexivity|]. split; [|reflexivity].
  destruct s as [data n size]. cbn [b_data] in *.
  exact (R_truncate data n size ents h HR Hh).
Qed.

(* after sync's header write, reopening recovers everything *)
Corollary open_after_sync s ents :
  R s ents -> exists s', b_open (b_data (b_sync_header s)) = Some s' /\ R s' ents.
Proof.
  intro HR. destruct (sync_header_R s ents HR) as [HR1 H0].
  destruct (open_R _ ents (length ents) HR1 H0 (le_n _)) as [s' [E [HR' _]]].
  exists s'. split; [exact E|]. now rewrite firstn_all in HR'.
Qed.

(* an append that has not been followed by sync is invisible after reopening:
   no partial entry, the old entries intact *)
Corollary open_after_append s ents bs h :
  R s ents -> wf_bytes bs -> (Z.of_nat (length bs) <= b_available s)%Z ->
  b_offset s 0 = Some (N.of_nat h) -> h <= length ents ->
  exists s', b_open (b_data (b_append s bs)) = Some s' /\ R s' (firstn h ents).
Proof.
  intros HR Hwf Hfit H0 Hh.
  pose proof (append_R s ents bs HR Hwf Hfit) as HR1.
  rewrite <- (append_header s ents bs HR Hfit) in H0.
  destruct (open_R _ (ents ++ [bs]) h HR1 H0) as [s' [E [HR' _]]].
  - rewrite app_length. lia.
  - exists s'. split; [exact E|].
    rewrite firstn_app in HR'. replace (h - length ents) with 0 in HR' by lia.
    cbn [firstn] in HR'. now rewrite app_nil_r in HR'.
Qed.

(* ---------------------------------------- the boolean image check is exact *)

Lemma list_N_eqb_eq a b : list_N_eqb a b = true <-> a = b.
Proof.
  revert b; induction a as [|x a IH]; intros [|y b]; cbn [list_N_eqb]; split; intro H;
    try reflexivity; try discriminate.
  - apply andb_true_iff in H. destruct H as [H1 H2]. apply N.eqb_eq in H1. apply IH in H2.
    now subst.
  - injection H as -> ->. apply andb_true_iff. split; [apply N.eqb_refl | now apply IH].
Qed.

Definition slotv (data : bytes) (k : nat) : N :=
  le_dec (slice data (length data - 8 * k - 8) 8).

Lemma decn_slots data m :
  8 * m <= length data ->
  decn m (skipn (length data - 8 * m) data) = rev (map (slotv data) (seq 0 m)).
Proof.
  induction m as [|m IH]; intro H; [reflexivity|].
  rewrite seq_S, map_app, rev_app_distr. cbn [map rev app Nat.add decn]. f_equal.
  - unfold slotv, slice. f_equal. f_equal. f_equal. lia.
  - rewrite skipn_skipn'. replace (length data - 8 * S m + 8) with (length data - 8 * m) by lia.
    apply IH. lia.
Qed.

Lemma offs_spec ents acc :
  offs acc ents =
  map (fun j => (acc + N.of_nat (length (concat (firstn j ents))))%N) (seq 0 (S (length ents))).
Proof.
  revert acc; induction ents as [|e r IH]; intro acc.
  - cbn. now rewrite N.add_0_r.
  - cbn [offs length]. change (seq 0 (S (S (length r)))) with (0 :: seq 1 (S (length r))).
    rewrite <- seq_shift. cbn [map]. rewrite map_map. f_equal.
    + cbn. now rewrite N.add_0_r.
    + rewrite IH. apply map_ext. intro j. cbn [firstn concat]. rewrite app_length. lia.
Qed.

Lemma table_iff data ents hdr :
  map (slotv data) (seq 0 (S (S (length ents)))) = hdr :: offs 0%N ents <->
  slotv data 0 = hdr /\
  forall k, 1 <= k <= length ents + 1 ->
    slotv data k = N.of_nat (length (concat (firstn (k - 1) ents))).
Proof.
  change (seq 0 (S (S (length ents)))) with (0 :: seq 1 (S (length ents))).
  rewrite <- seq_shift, offs_spec, map_cons, map_map.
  split.
  - intro H. pose proof (f_equal (hd 0%N) H) as H0. pose proof (f_equal (@tl N) H) as H1.
    cbn [hd tl] in H0, H1. split; [exact H0|]. intros k Hk.
    pose proof (ext_in_map H1 (k - 1)) as E. cbv beta in E.
    replace (S (k - 1)) with k in E by lia. rewrite E; [lia|]. apply in_seq. lia.
  - intros [H0 H1]. f_equal; [exact H0|]. apply map_ext_in. intros j Hj. apply in_seq in Hj.
    rewrite (H1 (S j)) by lia. replace (S j - 1) with j by lia. lia.
Qed.

Theorem matches_iff data cap ents hdr :
  b_matches data cap ents hdr = true <-> Rdata data cap ents hdr.
Proof.
  unfold b_matches. rewrite !andb_true_iff, N.eqb_eq, Nat.leb_le, !list_N_eqb_eq.
  rewrite rev_append_rev, app_nil_r.
  split.
  - intros [[[H1 H2] H3] H4].
    rewrite decn_slots in H3 by lia.
    apply (f_equal (@rev N)) in H3. rewrite !rev_involutive in H3.
    replace (length ents + 2) with (S (S (length ents))) in H3 by lia.
    apply table_iff in H3. destruct H3 as [H30 H3k].
    constructor; try assumption.
    + rewrite slot_some by lia. f_equal. exact H30.
    + intros k Hk. rewrite slot_some by lia. f_equal. now apply H3k.
  - intros [H1 H2 H0 Hk H4]. repeat split; try assumption.
    rewrite decn_slots by lia. f_equal.
    replace (length ents + 2) with (S (S (length ents))) by lia.
    apply table_iff. split.
    + rewrite slot_some in H0 by lia. now injection H0.
    + intros k Hk'. specialize (Hk k Hk'). rewrite slot_some in Hk by lia. now injection Hk.
Qed.

Lemma wf_data_iff data : b_wf_data data = true <-> wf_bytes data.
Proof.
  unfold b_wf_data, wf_bytes, wf_byte. rewrite forallb_forall, Forall_forall.
  split; intros H x Hx; specialize (H x Hx); [now apply N.ltb_lt | now apply N.ltb_lt].
Qed.

(* what the harness needs: the boolean check on real file bytes establishes R *)
Theorem matches_wf_R s ents hdr :
  b_matches_wf (b_data s) (N.of_nat (b_cap s)) ents hdr = true ->
  b_n s = length ents -> b_size s = length (concat ents) ->
  (N.of_nat (b_cap s) < two64)%N ->
  R s ents /\ b_offset s 0 = Some hdr.
Proof.
  intros H Hn Hs H64. unfold b_matches_wf in H. apply andb_true_iff in H. destruct H as [Hm Hw].
  apply matches_iff in Hm. apply wf_data_iff in Hw. split.
  - now apply (Rdata_R s ents hdr).
  - now destruct Hm.
Qed.

Theorem R_matches s ents :
  R s ents -> exists hdr, b_matches_wf (b_data s) (N.of_nat (b_cap s)) ents hdr = true.
Proof.
  intro HR. destruct (R_Rdata s ents HR) as [hdr HD]. exists hdr.
  unfold b_matches_wf. apply andb_true_iff. split; [now apply matches_iff|].
  apply wf_data_iff. now destruct HR.
Qed.

(* ----------------------------------------- link to the entry-level model *)

(* the entry-level available() is the byte-level one *)
Theorem avail_agrees s ents prev synced :
  R s ents -> b_available s = s_avail (mkSeg prev (N.of_nat (b_cap s)) ents synced).
Proof.
  intro HR. destruct HR as [Hn Hs _ _ _ _ _].
  unfold b_available, s_avail, s_n, s_size. cbn [s_cap s_ents]. rewrite Hn, Hs. lia.
Qed.

(* the entry-level segment.get is the byte-level one (absolute index prev+i) *)
Theorem get_agrees s ents prev synced i k :
  R s ents -> 1 <= i -> i + k <= length ents + 1 ->
  seg_get (mkSeg prev (N.of_nat (b_cap s)) ents synced) (prev + N.of_nat i) (N.of_nat k) =
  match b_get s i k with Some b => Ok b | None => Panic end.
Proof.
  intros HR Hi Hk. rewrite (get_R s ents i k HR Hi Hk).
  unfold seg_get, s_n. cbn [s_prev s_ents].
  destruct (N.ltb_spec prev (prev + N.of_nat i)) as [_|L]; [|lia].
  replace (N.to_nat (prev + N.of_nat i - prev - 1)) with (i - 1) by lia.
  destruct (N.leb_spec (N.of_nat (i - 1) + N.of_nat k) (N.of_nat (length ents))) as [_|L]; [|lia].
  now rewrite Nnat.Nat2N.id.
Qed.

(* both refuse index prev+0 *)
Theorem get_agrees_zero s ents prev synced k :
  seg_get (mkSeg prev (N.of_nat (b_cap s)) ents synced) (prev + 0) k = Panic /\
  b_get s 0 (N.to_nat k) = None.
Proof.
  split; [|reflexivity]. unfold seg_get. cbn [s_prev]. rewrite N.add_0_r, N.ltb_irrefl. reflexivity.
Qed.
