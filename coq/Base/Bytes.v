(* Little-endian byte strings.  A byte is an [N]; well-formed bytes are < 256.
   Mirrors encoding/binary.LittleEndian as used by /repo/binary.go and
   /repo/log/segment.go. *)
From Coq Require Import List NArith Lia.
Import ListNotations.
Open Scope N_scope.

Definition byte := N.
Definition bytes := list N.

Definition wf_byte (b : N) : Prop := b < 256.
Definition wf_bytes (l : bytes) : Prop := Forall wf_byte l.

(* [le_enc k n] : the k low-order bytes of n, least significant first
   (PutUint64 / PutUint32 write exactly n mod 2^(8k)). *)
Fixpoint le_enc (k : nat) (n : N) : bytes :=
  match k with
  | O => []
  | S k' => (n mod 256) :: le_enc k' (n / 256)
  end.

Fixpoint le_dec (l : bytes) : N :=
  match l with
  | [] => 0
  | b :: r => b + 256 * le_dec r
  end.

Lemma le_enc_length k n : length (le_enc k n) = k.
Proof. revert n; induction k as [|k IH]; intro n; simpl; [reflexivity | now rewrite IH]. Qed.

Lemma le_enc_wf k n : wf_bytes (le_enc k n).
Proof.
  revert n; induction k as [|k IH]; intro n; simpl; constructor.
  - unfold wf_byte. apply N.mod_lt. discriminate.
  - apply IH.
Qed.

Lemma le_dec_enc k n : le_dec (le_enc k n) = n mod (256 ^ N.of_nat k).
Proof.
  revert n; induction k as [|k IH]; intro n.
  - simpl. now rewrite N.mod_1_r.
  - cbn [le_enc le_dec]. rewrite IH.
    rewrite Nnat.Nat2N.inj_succ, N.pow_succ_r'.
    rewrite N.mod_mul_r by (try discriminate; apply N.pow_nonzero; discriminate).
    lia.
Qed.

Lemma le_dec_enc_small k n : n < 256 ^ N.of_nat k -> le_dec (le_enc k n) = n.
Proof. intro H. rewrite le_dec_enc. now apply N.mod_small. Qed.

Lemma le_dec_bound l : wf_bytes l -> le_dec l < 256 ^ N.of_nat (length l).
Proof.
  induction l as [|b r IH]; intro H.
  - simpl. lia.
  - inversion H as [|? ? Hb Hr]; subst. specialize (IH Hr).
    cbn [le_dec length]. rewrite Nnat.Nat2N.inj_succ, N.pow_succ_r'.
    unfold wf_byte in Hb. nia.
Qed.

Lemma le_enc_dec l : wf_bytes l -> le_enc (length l) (le_dec l) = l.
Proof.
  induction l as [|b r IH]; intro H; [reflexivity|].
  inversion H as [|? ? Hb Hr]; subst. unfold wf_byte in Hb.
  cbn [le_dec length le_enc].
  assert (E1 : (b + 256 * le_dec r) mod 256 = b).
  { replace (b + 256 * le_dec r) with (b + le_dec r * 256) by lia.
    rewrite N.mod_add by discriminate. now apply N.mod_small. }
  assert (E2 : (b + 256 * le_dec r) / 256 = le_dec r).
  { replace (b + 256 * le_dec r) with (b + le_dec r * 256) by lia.
    rewrite N.div_add by discriminate.
    rewrite (N.div_small b 256) by assumption. lia. }
  rewrite E1, E2, IH by assumption. reflexivity.
Qed.

(* Injectivity on the encoded range: two numbers with the same k-byte
   encoding agree modulo 2^(8k). *)
Lemma le_enc_inj k a b :
  a < 256 ^ N.of_nat k -> b < 256 ^ N.of_nat k -> le_enc k a = le_enc k b -> a = b.
Proof.
  intros Ha Hb E. rewrite <- (le_dec_enc_small k a Ha), <- (le_dec_enc_small k b Hb).
  now rewrite E.
Qed.

Definition two32 : N := 4294967296.
Definition two64 : N := 18446744073709551616.
Lemma two32_eq : 256 ^ N.of_nat 4 = two32. Proof. reflexivity. Qed.
Lemma two64_eq : 256 ^ N.of_nat 8 = two64. Proof. reflexivity. Qed.
