(* Correspondence cases for the identity model (go/inpkg/ident.go). Executable only. *)
From Coq Require Import List NArith Bool.
From Verif Require Import Ident.Ident Ident.Pool.
Import ListNotations.
Open Scope N_scope.

Inductive icase :=
| IConn (id : N) (dialer : ident) (target : N) (listener : ident) (accepted : bool) (processed : N)
    (* real connPool.doRPC of a vote request through real server.handleConn: did doRPC succeed, how many
       non-identity requests reached the listener's handlers *)
| ISet (id : N) (stored : ident) (cid nid : N) (res : N) (after : ident)
| IPool (id : N) (ops : list (N * N)) (obs : list (N * N * N)).
    (* one real connPool against a scripted peer: ops = (tag, 0 answered in time / 1 answered after the deadline /
       2 connection broken); observed per doRPC: the tag of the reply it returned (0 = error), the number of pooled
       connections afterwards, the number of dials so far *)
    (* real SetIdentity on a directory holding [stored]; res: 0 ok, 1 zero id, 2 already set *)

Definition pool_op (x : N * N) : prpc :=
  PRpc (fst x) (match snd x with 0 => PAnswered | 1 => PLate | _ => PBroken end).
Definition pool_obs (r : prpc * pres) : N * N * N :=
  (match pr_reply (snd r) with Some t => t | None => 0 end, pr_idle (snd r), pr_dials (snd r)).
Fixpoint obs_eqb (a b : list (N * N * N)) : bool :=
  match a, b with
  | [], [] => true
  | (x1, y1, z1) :: r1, (x2, y2, z2) :: r2 => (x1 =? x2) && (y1 =? y2) && (z1 =? z2) && obs_eqb r1 r2
  | _, _ => false
  end.

Definition check_icase (c : icase) : bool :=
  match c with
  | IPool _ ops obs => obs_eqb (map pool_obs (prun pinit (map pool_op ops))) obs
  | IConn _ d t l accepted processed =>
      let ok := identity_reply l (i_cid d) t in
      Bool.eqb accepted ok && (processed =? (if ok then 1 else 0))
  | ISet _ stored cid nid res after =>
      let (r, s') := set_identity stored cid nid in
      (res =? match r with SetOk => 0 | ErrZero => 1 | ErrAlreadySet => 2 end) && ident_eqb s' after
  end.
Definition icase_id (c : icase) : N := match c with IConn i _ _ _ _ _ | ISet i _ _ _ _ _ | IPool i _ _ => i end.
Definition mismatches (l : list icase) : list N := map icase_id (filter (fun c => negb (check_icase c)) l).
