(* Correspondence cases for the identity model (go/inpkg/ident.go). Executable only. *)
From Coq Require Import List NArith Bool.
From Verif Require Import Ident.Ident.
Import ListNotations.
Open Scope N_scope.

Inductive icase :=
| IConn (id : N) (dialer : ident) (target : N) (listener : ident) (accepted : bool) (processed : N)
    (* real connPool.doRPC of a vote request through real server.handleConn: did doRPC succeed, how many
       non-identity requests reached the listener's handlers *)
| ISet (id : N) (stored : ident) (cid nid : N) (res : N) (after : ident).
    (* real SetIdentity on a directory holding [stored]; res: 0 ok, 1 zero id, 2 already set *)

Definition check_icase (c : icase) : bool :=
  match c with
  | IConn _ d t l accepted processed =>
      let ok := identity_reply l (i_cid d) t in
      Bool.eqb accepted ok && (processed =? (if ok then 1 else 0))
  | ISet _ stored cid nid res after =>
      let (r, s') := set_identity stored cid nid in
      (res =? match r with SetOk => 0 | ErrZero => 1 | ErrAlreadySet => 2 end) && ident_eqb s' after
  end.
Definition icase_id (c : icase) : N := match c with IConn i _ _ _ _ _ | ISet i _ _ _ _ _ => i end.
Definition mismatches (l : list icase) : list N := map icase_id (filter (fun c => negb (check_icase c)) l).
