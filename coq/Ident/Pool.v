(* Ident/Pool.v  The connection pool of conn.go (connPool.getConn / doRPC / returnConn) as far as
   the pairing of requests and replies goes.

   A connection is the list of requests written on it whose replies have not been read yet
   (oldest first); the peer answers in order.  doRPC takes a pooled connection if there is one
   and dials otherwise, writes its request, and reads ONE reply: the reply to the oldest
   outstanding request of that connection.  A request whose reply does not arrive before the
   deadline (or whose connection breaks) fails, and the connection is closed: it never goes
   back to the pool.  Hence pooled connections have nothing outstanding, and the reply a caller
   reads is the reply to the request it wrote - a vote granted late for an earlier round cannot
   be taken for the answer to a later one. *)
From Coq Require Import List NArith Lia Bool.
Import ListNotations.
Open Scope N_scope.

Inductive poutcome := PAnswered | PLate | PBroken.
   (* the peer answers in time / answers after the caller's deadline / the connection breaks *)
Inductive prpc := PRpc (tag : N) (o : poutcome).

Record pool := mkPool {
  p_idle : list (list N);   (* pooled connections (most recently returned first): outstanding tags of each *)
  p_dials : N               (* connections dialled so far *)
}.
Definition pmax : nat := 1.   (* getConnPool: max = 1 *)

Record pres := mkPres { pr_reply : option N; pr_idle : N; pr_dials : N }.

Definition pstep (p : pool) (e : prpc) : pool * pres :=
  match e with
  | PRpc tag o =>
      (* getConn *)
      let '(c, idle, dials) := match p_idle p with
                               | c :: r => (c, r, p_dials p)
                               | [] => ([], [], p_dials p + 1)
                               end in
      let c1 := c ++ [tag] in                      (* writeReq *)
      match o with
      | PAnswered =>
          (* readResp: the oldest outstanding reply; returnConn *)
          let rest := tl c1 in
          let idle' := if Nat.ltb (length idle) pmax then rest :: idle else idle in
          (mkPool idle' dials, mkPres (hd_error c1) (N.of_nat (length idle')) dials)
      | PLate | PBroken =>
          (* doRPC failed: the connection is closed *)
          (mkPool idle dials, mkPres None (N.of_nat (length idle)) dials)
      end
  end.

Fixpoint prun (p : pool) (es : list prpc) : list (prpc * pres) :=
  match es with
  | [] => []
  | e :: r => let (p', o) := pstep p e in (e, o) :: prun p' r
  end.

Definition pinit : pool := mkPool [] 0.
Definition pool_ok (p : pool) : Prop := forall c, In c (p_idle p) -> c = [].

Lemma pstep_ok p e : pool_ok p -> pool_ok (fst (pstep p e)) /\
  (forall r, pr_reply (snd (pstep p e)) = Some r -> match e with PRpc tag _ => r = tag end).
Proof.
  intros H. destruct e as [tag o]. unfold pstep, pool_ok in *.
  destruct (p_idle p) as [|c r] eqn:E.
  - destruct o; cbn -[N.add]; rewrite ?E; cbn -[N.add]; (split; [|intros x Hx; try discriminate]).
    + intros c [Hc|[]]. symmetry. exact Hc.
    + inversion Hx. reflexivity.
    + intros c [].
    + intros c [].
  - assert (Hc : c = []) by (apply H; left; reflexivity).
    assert (Hr : forall x, In x r -> x = []) by (intros x Hx; apply H; right; exact Hx).
    subst c. destruct o; cbn -[N.add]; rewrite ?E; cbn -[N.add]; (split; [|intros x Hx; try discriminate]).
    + destruct (Nat.leb (length r) 0); [intros c [Hc|Hc]; [symmetry; exact Hc | apply Hr; exact Hc] | exact Hr].
    + inversion Hx. reflexivity.
    + exact Hr.
    + exact Hr.
Qed.

Lemma prun_paired es : forall p, pool_ok p ->
  forall tag o res, In (PRpc tag o, res) (prun p es) -> forall r, pr_reply res = Some r -> r = tag.
Proof.
  induction es as [|e es IH]; intros p Hp tag o res Hin r Hr; [inversion Hin|].
  cbn [prun] in Hin. destruct (pstep p e) as [p' o'] eqn:E.
  destruct (pstep_ok p e Hp) as [Hp' Hre]. rewrite E in Hp', Hre. cbn [fst snd] in Hp', Hre.
  destruct Hin as [Hin|Hin].
  - inversion Hin; subst. exact (Hre r Hr).
  - exact (IH p' Hp' tag o res Hin r Hr).
Qed.

Theorem replies_paired es tag o res r :
  In (PRpc tag o, res) (prun pinit es) -> pr_reply res = Some r -> r = tag.
Proof. intros Hin Hr. eapply prun_paired; eauto. intros c []. Qed.

(* what goes wrong when a connection that timed out is returned to the pool: the next caller
   reads the late reply to the earlier request *)
Definition pstep_keep (p : pool) (e : prpc) : pool * pres :=
  match e with
  | PRpc tag PLate =>
      let '(c, idle, dials) := match p_idle p with c :: r => (c, r, p_dials p) | [] => ([], [], p_dials p + 1) end in
      let idle' := if Nat.ltb (length idle) pmax then (c ++ [tag]) :: idle else idle in
      (mkPool idle' dials, mkPres None (N.of_nat (length idle')) dials)
  | _ => pstep p e
  end.

Example keeping_timed_out_connections_refuted :
  exists p r, fst (pstep_keep pinit (PRpc 2 PLate)) = p /\ pr_reply (snd (pstep_keep p (PRpc 3 PAnswered))) = Some r /\ r <> 3.
Proof. eexists. exists 2. split; [reflexivity|]. split; [reflexivity|discriminate]. Qed.
