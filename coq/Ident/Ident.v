(* Identity handshake, storage lock and SetIdentity:
     conn.go    connPool.getConn (dial + identityReq), connPool.doRPC / returnConn
     rpc.go     replyRPC, identity branch
     server.go  handleConn (identity failure closes the connection)
     util.go    lockDir (link(2) as atomic test-and-create) / unlockDir
     storage.go SetIdentity
   Model and proofs (they are short). *)
From Coq Require Import List NArith Bool Lia.
Import ListNotations.
Open Scope N_scope.

Record ident := mkId { i_cid : N; i_nid : N }.
Definition ident_eqb (a b : ident) : bool := (i_cid a =? i_cid b) && (i_nid a =? i_nid b).

(* ---- connections ---- *)
Inductive cphase := Fresh | Verified | Closed.
Record conn := mkConn {
  c_dialer : ident;      (* pool.cid, pool.src *)
  c_target : N;          (* pool.nid: the node the dialer means to talk to *)
  c_listener : ident;    (* who really answers at the address the resolver/config handed out *)
  c_phase : cphase
}.

(* rpc.go replyRPC on an identityReq{cid, nid}: success iff both match the listener's own *)
Definition identity_reply (listener : ident) (cid nid : N) : bool :=
  (i_cid listener =? cid) && (i_nid listener =? nid).

(* connPool.getConn after dial: one identity round trip; failure closes the connection *)
Definition handshake (c : conn) : conn :=
  match c_phase c with
  | Fresh =>
      if identity_reply (c_listener c) (i_cid (c_dialer c)) (c_target c)
      then mkConn (c_dialer c) (c_target c) (c_listener c) Verified
      else mkConn (c_dialer c) (c_target c) (c_listener c) Closed
  | _ => c
  end.

(* what happens on the wire, as far as identity goes.  The adversary chooses the listener
   behind every address ([Dial] with any listener), and when things happen. *)
Inductive cevent :=
| Dial (dialer : ident) (target : N) (listener : ident)   (* getConn found no pooled connection *)
| Handshake (k : nat)                                     (* the identity round trip of connection k *)
| Send (k : nat)                                          (* a vote/append/installSnap/timeoutNow request on connection k *)
| Close (k : nat).

Record cworld := mkW {
  w_conns : list conn;
  w_processed : list conn      (* ghost: connection on which each non-identity request reached a handler *)
}.

Fixpoint upd_nth {A} (k : nat) (f : A -> A) (l : list A) : list A :=
  match l, k with
  | [], _ => []
  | x :: r, O => f x :: r
  | x :: r, S k' => x :: upd_nth k' f r
  end.

Definition cstep (w : cworld) (e : cevent) : cworld :=
  match e with
  | Dial d t l => mkW (w_conns w ++ [mkConn d t l Fresh]) (w_processed w)
  | Handshake k => mkW (upd_nth k handshake (w_conns w)) (w_processed w)
  | Send k =>
      (* the library sends only on connections getConn returned: pooled ones are Verified
         (doRPC, replicate); a Fresh or Closed connection carries nothing *)
      match nth_error (w_conns w) k with
      | Some c => match c_phase c with
                  | Verified => mkW (w_conns w) (c :: w_processed w)
                  | _ => w
                  end
      | None => w
      end
  | Close k => mkW (upd_nth k (fun c => mkConn (c_dialer c) (c_target c) (c_listener c) Closed) (w_conns w)) (w_processed w)
  end.

Definition crun (es : list cevent) : cworld := fold_left cstep es (mkW [] []).

Definition right_peer (c : conn) : Prop :=
  i_cid (c_listener c) = i_cid (c_dialer c) /\ i_nid (c_listener c) = c_target c.

Lemma handshake_verified c :
  c_phase (handshake c) = Verified -> c_phase c = Verified \/ right_peer (handshake c).
Proof.
  unfold handshake. destruct (c_phase c) eqn:E; auto.
  - destruct (identity_reply _ _ _) eqn:I; simpl; intro H; [|discriminate].
    right. unfold right_peer, identity_reply in *. simpl.
    apply andb_prop in I. destruct I as [A B]. apply N.eqb_eq in A, B. auto.
  - simpl. rewrite E. discriminate.
Qed.

Definition conns_ok (w : cworld) : Prop :=
  (forall c, In c (w_conns w) -> c_phase c = Verified -> right_peer c) /\
  (forall c, In c (w_processed w) -> right_peer c).

Lemma in_upd_nth {A} k (f : A -> A) l x :
  In x (upd_nth k f l) -> In x l \/ exists y, In y l /\ x = f y.
Proof.
  revert k. induction l as [|a l IH]; intros k H.
  - destruct k; simpl in H; contradiction.
  - destruct k as [|k]; simpl in H.
    + destruct H as [H|H]; [right; exists a; split; [left; reflexivity | symmetry; exact H] | left; right; exact H].
    + destruct H as [H|H]; [left; left; exact H|].
      destruct (IH _ H) as [H1|[y [Hy E]]]; [left; right; exact H1|].
      right. exists y. split; [right; exact Hy | exact E].
Qed.

Lemma cstep_ok w e : conns_ok w -> conns_ok (cstep w e).
Proof.
  intros [Hc Hp]. destruct e as [d t l|k|k|k]; simpl.
  - split; [|exact Hp]. intros c Hin Hv. apply in_app_or in Hin. destruct Hin as [Hin|[Hin|[]]]; [auto|].
    subst c. discriminate.
  - split; [|exact Hp]. intros c Hin Hv. apply in_upd_nth in Hin. destruct Hin as [Hin|[y [Hy E]]]; [auto|].
    subst c. destruct (handshake_verified y Hv) as [H|H]; [|exact H].
    unfold handshake. rewrite H. auto.
  - destruct (nth_error (w_conns w) k) as [c|] eqn:E; [|split; assumption].
    destruct (c_phase c) eqn:P; try (split; assumption).
    split; [exact Hc|]. intros c' [H|H]; [|auto]. subst c'. apply Hc; [eapply nth_error_In; eauto | assumption].
  - split; [|exact Hp]. intros c Hin Hv. apply in_upd_nth in Hin. destruct Hin as [Hin|[y [Hy E]]]; [auto|].
    subst c. discriminate.
Qed.

Lemma crun_ok es : conns_ok (crun es).
Proof.
  unfold crun. assert (H : conns_ok (mkW [] [])) by (split; intros c []).
  revert H. generalize (mkW [] []). induction es as [|e es IH]; intros w H; simpl; [exact H|].
  apply IH, cstep_ok, H.
Qed.

(* ---- the lock file: link(2) creates the name atomically or fails with EEXIST ---- *)
Inductive lockev := TryLock (who : N) | Unlock (who : N).
Record lockst := mkL { l_holder : option N; l_granted : list (N * bool) }.
Definition lstep (s : lockst) (e : lockev) : lockst :=
  match e with
  | TryLock p => match l_holder s with
                 | None => mkL (Some p) (l_granted s ++ [(p, true)])
                 | Some _ => mkL (l_holder s) (l_granted s ++ [(p, false)])     (* ErrLockExists *)
                 end
  | Unlock p => match l_holder s with
                | Some q => if q =? p then mkL None (l_granted s) else s
                | None => s
                end
  end.
Definition lrun (es : list lockev) : lockst := fold_left lstep es (mkL None []).

(* number of successful lock acquisitions not yet released never exceeds one: stated as
   "whenever a TryLock succeeds, nobody held the lock" *)
Lemma lock_exclusive_step s p :
  l_holder s <> None -> l_holder (lstep s (TryLock p)) = l_holder s /\
  l_granted (lstep s (TryLock p)) = l_granted s ++ [(p, false)].
Proof. destruct s as [[h|] g]; simpl; intro H; [auto | congruence]. Qed.

(* ---- SetIdentity on the stored pair (0,0 = not set) ---- *)
Inductive setres := SetOk | ErrZero | ErrAlreadySet.
Definition set_identity (stored : ident) (cid nid : N) : setres * ident :=
  if (cid =? 0) || (nid =? 0) then (ErrZero, stored)
  else if ident_eqb stored (mkId cid nid) then (SetOk, stored)
  else if negb (i_cid stored =? 0) && negb (i_nid stored =? 0) then (ErrAlreadySet, stored)
  else (SetOk, mkId cid nid).

Lemma identity_immutable stored cid nid :
  i_cid stored <> 0 -> i_nid stored <> 0 ->
  snd (set_identity stored cid nid) = stored /\
  (fst (set_identity stored cid nid) = SetOk -> stored = mkId cid nid).
Proof.
  intros Hc Hn. unfold set_identity.
  destruct ((cid =? 0) || (nid =? 0)) eqn:Z; [split; [reflexivity|discriminate]|].
  destruct (ident_eqb stored (mkId cid nid)) eqn:E.
  - split; [reflexivity|]. intros _. unfold ident_eqb in E. simpl in E.
    apply andb_prop in E. destruct E as [A B]. apply N.eqb_eq in A, B. destruct stored; simpl in *; subst; reflexivity.
  - apply N.eqb_neq in Hc, Hn. rewrite Hc, Hn. simpl. split; [reflexivity|discriminate].
Qed.
