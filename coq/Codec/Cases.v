(* Correspondence cases for the codec model: the Go harness (go/inpkg/codec.go)
   prints a list of [ccase]; [mismatches] returns the ids on which the model
   and the implementation disagree.  Executable only, no proofs. *)
From Coq Require Import List NArith Bool.
From Verif Require Import Base.Bytes Codec.Parser Codec.Messages Codec.ValueFile.
Import ListNotations.
Open Scope N_scope.

Definition entry_eqb (a b : entry) : bool :=
  (e_index a =? e_index b) && (e_term a =? e_term b) && (e_typ a =? e_typ b) &&
  Messages.bytes_eqb (e_data a) (e_data b).
Definition node_eqb (a b : node) : bool :=
  (n_id a =? n_id b) && Messages.bytes_eqb (n_addr a) (n_addr b) && Bool.eqb (n_voter a) (n_voter b) &&
  Messages.bytes_eqb (n_data a) (n_data b) && (n_action a =? n_action b).
(* maps: compare as sets of bindings *)
Definition set_eqb {A} (eqb : A -> A -> bool) (a b : list A) : bool :=
  Nat.eqb (length a) (length b) && forallb (fun x => existsb (eqb x) b) a
  && forallb (fun x => existsb (eqb x) a) b.
Definition config_eqb (a b : config) : bool :=
  (c_index a =? c_index b) && (c_term a =? c_term b) && set_eqb node_eqb (c_nodes a) (c_nodes b).

Definition repl_eqb (a b : msg) : bool :=
  match a, b with
  | MReplication i m u e r, MReplication i' m' u' e' r' =>
      (i =? i') && (m =? m') && (u =? u') && Messages.bytes_eqb e e' && (r =? r')
  | _, _ => false
  end.

Definition msg_eqb (a b : msg) : bool :=
  match a, b with
  | MEntry x, MEntry y => entry_eqb x y
  | MIdentityReq t s c n, MIdentityReq t' s' c' n' => (t =? t') && (s =? s') && (c =? c') && (n =? n')
  | MVoteReq t s li lt tr, MVoteReq t' s' li' lt' tr' =>
      (t =? t') && (s =? s') && (li =? li') && (lt =? lt') && Bool.eqb tr tr'
  | MAppendReq t s p q c n, MAppendReq t' s' p' q' c' n' =>
      (t =? t') && (s =? s') && (p =? p') && (q =? q') && (c =? c') && (n =? n')
  | MInstallSnapReq t s li lt cfg sz, MInstallSnapReq t' s' li' lt' cfg' sz' =>
      (t =? t') && (s =? s') && (li =? li') && (lt =? lt') && config_eqb cfg cfg' && (sz =? sz')
  | MTimeoutNowReq t s, MTimeoutNowReq t' s' => (t =? t') && (s =? s')
  | MResp t r op er, MResp t' r' op' er' =>
      (t =? t') && (r =? r') && Messages.bytes_eqb op op' && Messages.bytes_eqb er er'
  | MAppendResp t r op er l, MAppendResp t' r' op' er' l' =>
      (t =? t') && (r =? r') && Messages.bytes_eqb op op' && Messages.bytes_eqb er er' && (l =? l')
  | MNode x, MNode y => node_eqb x y
  | MConfig x, MConfig y => config_eqb x y
  | MSnapMeta i t cfg sz, MSnapMeta i' t' cfg' sz' =>
      (i =? i') && (t =? t') && config_eqb cfg cfg' && (sz =? sz')
  | MReplication _ _ _ _ _, MReplication _ _ _ _ _ => repl_eqb a b
  | MInfo c n a t st l si fi li lt cm ap cc cl fl, MInfo c' n' a' t' st' l' si' fi' li' lt' cm' ap' cc' cl' fl' =>
      (c =? c') && (n =? n') && Messages.bytes_eqb a a' && (t =? t') && (st =? st') && (l =? l') &&
      (si =? si') && (fi =? fi') && (li =? li') && (lt =? lt') && (cm =? cm') && (ap =? ap') &&
      config_eqb cc cc' && config_eqb cl cl' && set_eqb repl_eqb fl fl'
  | _, _ => false
  end.

Definition taskres_eqb (a b : taskres) : bool :=
  match a, b with
  | TRErr (TENotLeader n l), TRErr (TENotLeader n' l') => node_eqb n n' && Bool.eqb l l'
  | TRErr (TEPlain s), TRErr (TEPlain s') => Messages.bytes_eqb s s'
  | TRErr (TETemporary s), TRErr (TETemporary s') => Messages.bytes_eqb s s'
  | TRErr (TEInProgress s), TRErr (TEInProgress s') => Messages.bytes_eqb s s'
  | TRErr (TEOther _ s), TRErr (TEOther _ s') => Messages.bytes_eqb s s'
  | TRNil, TRNil => true
  | TRU64 n, TRU64 n' => n =? n'
  | TRConfig c, TRConfig c' => config_eqb c c'
  | TRInfo i, TRInfo i' => msg_eqb i i'
  | _, _ => false
  end.

(* all orders in which Go may iterate a map *)
Fixpoint inserts {A} (x : A) (l : list A) : list (list A) :=
  match l with
  | [] => [[x]]
  | y :: r => (x :: l) :: map (cons y) (inserts x r)
  end.
Fixpoint perms {A} (l : list A) : list (list A) :=
  match l with
  | [] => [[]]
  | x :: r => flat_map (inserts x) (perms r)
  end.

Definition config_orders (c : config) : list config :=
  map (fun ns => mkConfig ns (c_index c) (c_term c)) (perms (c_nodes c)).

(* every way the maps inside a message may be ordered on the wire *)
Definition msg_orders (m : msg) : list msg :=
  match m with
  | MInstallSnapReq t s li lt cfg sz => map (fun c => MInstallSnapReq t s li lt c sz) (config_orders cfg)
  | MConfig c => map MConfig (config_orders c)
  | MSnapMeta i t cfg sz => map (fun c => MSnapMeta i t c sz) (config_orders cfg)
  | MInfo c n a t st l si fi li lt cm ap cc cl fl =>
      flat_map (fun cc' => flat_map (fun cl' => map (fun fl' =>
        MInfo c n a t st l si fi li lt cm ap cc' cl' fl') (perms fl)) (config_orders cl)) (config_orders cc)
  | _ => [m]
  end.
Definition taskres_orders (r : taskres) : list taskres :=
  match r with
  | TRConfig c => map TRConfig (config_orders c)
  | TRInfo i => map TRInfo (msg_orders i)
  | _ => [r]
  end.

Definition res_eqb {A} (eqb : A -> A -> bool) (a b : option (A * N)) : bool :=
  match a, b with
  | None, None => true
  | Some (x, n), Some (y, m) => eqb x y && (n =? m)
  | _, _ => false
  end.

Inductive ccase :=
| CEnc (id : N) (m : msg) (b : bytes)                   (* Go: m.encode() = b *)
| CDec (id : N) (k : kind) (input : bytes) (res : option (msg * N))
      (* Go: decode on input -> error (None) or value and number of unread bytes *)
| CTEnc (id : N) (r : taskres) (b : bytes)
| CTDec (id : N) (t : tasktyp) (input : bytes) (res : option (taskres * N))
| CVal (id : N) (v1 v2 : N) (ext name : bytes)          (* Go: base name of valueFile(dir, ext, v1, v2) *)
| CValOpen (id : N) (name ext : bytes) (res : option (N * N)).  (* Go: openValue on a dir holding that file *)

Definition model_dec {A} (p : parser A) (input : bytes) : option (A * N) :=
  match p input with
  | Some (v, r) => Some (v, N.of_nat (length r))
  | None => None
  end.

Definition check_case (c : ccase) : bool :=
  match c with
  | CEnc _ m b => existsb (fun m' => Messages.bytes_eqb (enc_msg m') b) (msg_orders m)
  | CDec _ k input res => res_eqb msg_eqb (model_dec (dec_msg k) input) res
  | CTEnc _ r b => existsb (fun r' => Messages.bytes_eqb (enc_taskres r') b) (taskres_orders r)
  | CTDec _ t input res => res_eqb taskres_eqb (model_dec (dec_taskres t) input) res
  | CVal _ v1 v2 ext name => Messages.bytes_eqb (value_file v1 v2 ext) name
  | CValOpen _ name ext res =>
      match open_value name ext, res with
      | None, None => true
      | Some (a, b), Some (a', b') => (a =? a') && (b =? b')
      | _, _ => false
      end
  end.

Definition case_id (c : ccase) : N :=
  match c with
  | CEnc i _ _ | CDec i _ _ _ | CTEnc i _ _ | CTDec i _ _ _ | CVal i _ _ _ _ | CValOpen i _ _ _ => i
  end.

Definition mismatches (l : list ccase) : list N :=
  map case_id (filter (fun c => negb (check_case c)) l).
