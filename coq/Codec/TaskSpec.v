(* Specification vocabulary for the admin task-response codec
   (client.go encodeTaskResp / decodeTaskResp): what comes back after a
   round trip, which results are legal for which task type, and what Go's
   types guarantee of an encoded result.  Definitions only; used by the
   statements in Props/C18.v and proved about in Codec/MessagesProofs.v. *)
From Coq Require Import List NArith.
From Verif Require Import Base.Bytes Codec.Parser Codec.Messages.
Import ListNotations.
Open Scope N_scope.

(* admin task responses: result values come back exactly; NotLeaderError
   (leader hint and lost flag), the plainError sentinels and ErrNotCommitReady
   (temporaryError) come back equal; InProgressError comes back as an
   InProgressError (kind); anything else degrades to a bare error string *)
Definition norm_taskres (r : taskres) : taskres :=
  match r with
  | TRErr (TEInProgress s) => TRErr (TEInProgress (s_another ++ s ++ s_in_progress))
  | TRErr (TEOther _ s) => TRErr (TEOther [] s)
  | _ => r
  end.
Definition typ_ok (t : tasktyp) (r : taskres) : Prop :=
  match r, t with
  | TRErr _, _ => True
  | TRNil, (TChangeConfig | TTransfer) => True
  | TRU64 _, TTakeSnapshot => True
  | TRConfig _, TWaitStable => True
  | TRInfo (MInfo _ _ _ _ _ _ _ _ _ _ _ _ _ _ _), TInfo => True
  | _, _ => False
  end.
Definition wf_taskres (r : taskres) : Prop :=
  match r with
  | TRErr (TEOther tn s) =>
      wfstr tn /\ wfstr s /\ tn <> [] /\ tn <> s_NotLeaderError /\ tn <> s_plainError /\
      tn <> s_temporaryError /\ tn <> s_InProgressError
  | TRErr e => wf_taskerr e
  | TRNil => True
  | TRU64 n => u64 n
  | TRConfig c => wf_config c
  | TRInfo i => wf_msg i
  end.
