(* Parser combinators over byte lists, mirroring the read* helpers of
   /repo/binary.go (io.ReadFull semantics: a short read is an error).
   No proofs about concrete messages here; only the combinators and the two
   generic notions [sound] (round trip + exact framing) and [strict]
   (prefix-closed failure) together with their closure lemmas. *)
From Coq Require Import List NArith Lia Bool.
From Verif Require Import Base.Bytes.
Import ListNotations.
Open Scope N_scope.

Definition parser (A : Type) := bytes -> option (A * bytes).

Definition pret {A} (a : A) : parser A := fun s => Some (a, s).
Definition pfail {A} : parser A := fun _ => None.
Definition pbind {A B} (p : parser A) (f : A -> parser B) : parser B :=
  fun s => match p s with
           | None => None
           | Some (a, r) => f a r
           end.
Definition pmap {A B} (g : A -> B) (p : parser A) : parser B :=
  pbind p (fun a => pret (g a)).
(* post-validation that consumes nothing (e.g. Config.decode on a decoded entry) *)
Definition pcheck {A B} (p : parser A) (g : A -> option B) : parser B :=
  pbind p (fun a => match g a with Some b => pret b | None => pfail end).

Notation "x <- p ;; q" := (pbind p (fun x => q))
  (at level 61, p at next level, right associativity).

(* readUint8 *)
Definition pU8 : parser N := fun s =>
  match s with b :: r => Some (b, r) | [] => None end.

(* readUint32 / readUint64: exactly k bytes or error *)
Definition pLE (k : nat) : parser N := fun s =>
  if Nat.ltb (length s) k then None
  else Some (le_dec (firstn k s), skipn k s).
Definition pU32 := pLE 4.
Definition pU64 := pLE 8.

(* readBool: any non-zero byte is true *)
Definition pBool : parser bool := pmap (fun b => 0 <? b) pU8.

(* exactly n bytes (n is data dependent: compare on N, convert only when it fits) *)
Definition pTake (n : N) : parser bytes := fun s =>
  if N.of_nat (length s) <? n then None
  else Some (firstn (N.to_nat n) s, skipn (N.to_nat n) s).

(* readBytes / readString: u32 length then that many bytes *)
Definition pBytes : parser bytes := n <- pU32 ;; pTake n.

(* n repetitions of p.  Every element needs at least one byte, so a count
   larger than the remaining input is a truncation error straight away; this
   keeps the recursion measure small (never N.to_nat of a hostile count). *)
Fixpoint pRepN {A} (p : parser A) (k : nat) : parser (list A) :=
  match k with
  | O => pret []
  | S k' => a <- p ;; l <- pRepN p k' ;; pret (a :: l)
  end.
Definition pRep {A} (p : parser A) (n : N) : parser (list A) := fun s =>
  if N.of_nat (length s) <? n then None else pRepN p (N.to_nat n) s.

(* ---------------------------------------------------------------- *)
(* writers *)
Definition wU8 (b : N) : bytes := [b].
Definition wU32 (n : N) : bytes := le_enc 4 n.
Definition wU64 (n : N) : bytes := le_enc 8 n.
Definition wBool (b : bool) : bytes := [if b then 1 else 0].
(* writeBytes: uint32(len(b)) then b *)
Definition wBytes (b : bytes) : bytes := wU32 (N.of_nat (length b)) ++ b.

(* ---------------------------------------------------------------- *)
(* generic notions *)

(* c' is a proper prefix of c *)
Definition pprefix (c' c : bytes) : Prop := exists d, d <> [] /\ c = c' ++ d.

(* whatever the parser accepts, it accepts because of an exact consumed
   chunk c: any continuation is left untouched, any truncation of c fails *)
Definition strict {A} (p : parser A) : Prop :=
  forall s v r, p s = Some (v, r) ->
    exists c, s = c ++ r
      /\ (forall tl, p (c ++ tl) = Some (v, tl))
      /\ (forall c', pprefix c' c -> p c' = None).

(* progress: accepted input is at least one byte long *)
Definition consuming {A} (p : parser A) : Prop :=
  forall s v r, p s = Some (v, r) -> (length r < length s)%nat.

Definition sound {A} (wf : A -> Prop) (enc : A -> bytes) (p : parser A) : Prop :=
  forall v tl, wf v -> p (enc v ++ tl) = Some (v, tl).
