(* Closure lemmas for [strict] and [sound] (see Parser.v). *)
From Coq Require Import List NArith Lia Bool Arith.
From Verif Require Import Base.Bytes Codec.Parser.
Import ListNotations.
Open Scope N_scope.

Lemma firstn_app_exact {A} (c tl : list A) k : length c = k -> firstn k (c ++ tl) = c.
Proof.
  intro; subst k. rewrite firstn_app, Nat.sub_diag, firstn_all. simpl. apply app_nil_r.
Qed.

Lemma skipn_app_exact {A} (c tl : list A) k : length c = k -> skipn k (c ++ tl) = tl.
Proof.
  intro; subst k. rewrite skipn_app, Nat.sub_diag, skipn_all. reflexivity.
Qed.

Lemma pprefix_nil c' : ~ pprefix c' [].
Proof.
  intros [d [Hd E]]. symmetry in E. apply app_eq_nil in E. tauto.
Qed.

Lemma pprefix_length c' c : pprefix c' c -> (length c' < length c)%nat.
Proof.
  intros [d [Hd E]]. subst c. rewrite app_length.
  destruct d; [congruence | simpl; lia].
Qed.

Lemma pprefix_of_length c' c d : c = c' ++ d -> (length c' < length c)%nat -> pprefix c' c.
Proof.
  intros E L. exists d. split; [|exact E].
  intro; subst d. rewrite app_nil_r in E. subst. lia.
Qed.

Lemma pprefix_app_split c' c1 c2 :
  pprefix c' (c1 ++ c2) ->
  pprefix c' c1 \/ exists c2', c' = c1 ++ c2' /\ pprefix c2' c2.
Proof.
  intros [d [Hd E]].
  apply app_eq_app in E. destruct E as [l [[E1 E2] | [E1 E2]]].
  - destruct l as [|x l].
    + right. exists []. rewrite app_nil_r in E1. simpl in E2. subst.
      split; [now rewrite app_nil_r|]. exists c2. split; [assumption|reflexivity].
    + left. exists (x :: l). split; [discriminate | assumption].
  - right. exists l. split; [assumption|]. exists d. split; assumption.
Qed.

Lemma strict_ret {A} (a : A) : strict (pret a).
Proof.
  intros s v r H. unfold pret in H. inversion H; subst.
  exists []. split; [reflexivity|]. split; [reflexivity|].
  intros c' Hc. exfalso. eapply pprefix_nil; eauto.
Qed.

Lemma strict_fail {A} : strict (@pfail A).
Proof. intros s v r H. discriminate. Qed.

Lemma strict_bind {A B} (p : parser A) (f : A -> parser B) :
  strict p -> (forall a, strict (f a)) -> strict (pbind p f).
Proof.
  intros Hp Hf s v r H. unfold pbind in H.
  destruct (p s) as [[a r1]|] eqn:Ep; [|discriminate].
  destruct (Hp _ _ _ Ep) as [c1 [E1 [T1 P1]]].
  destruct (Hf a _ _ _ H) as [c2 [E2 [T2 P2]]].
  exists (c1 ++ c2). split; [subst; now rewrite app_assoc|]. split.
  - intro tl. unfold pbind. rewrite <- app_assoc, T1. apply T2.
  - intros c' Hc. unfold pbind.
    destruct (pprefix_app_split _ _ _ Hc) as [Hc1 | [c2' [Ec Hc2]]].
    + now rewrite (P1 _ Hc1).
    + subst c'. rewrite T1. now apply P2.
Qed.

Lemma strict_map {A B} (g : A -> B) p : strict p -> strict (pmap g p).
Proof. intro H. apply strict_bind; [assumption|]. intro; apply strict_ret. Qed.

Lemma strict_check {A B} (p : parser A) (g : A -> option B) : strict p -> strict (pcheck p g).
Proof.
  intro H. apply strict_bind; [assumption|]. intro a.
  destruct (g a); [apply strict_ret | apply strict_fail].
Qed.

Lemma strict_U8 : strict pU8.
Proof.
  intros s v r H. destruct s as [|b s]; simpl in H; [discriminate|].
  inversion H; subst. exists [v]. split; [reflexivity|]. split; [reflexivity|].
  intros c' Hc. apply pprefix_length in Hc. destruct c'; [reflexivity|simpl in Hc; lia].
Qed.

Lemma strict_LE k : strict (pLE k).
Proof.
  intros s v r H. unfold pLE in H.
  destruct (Nat.ltb_spec (length s) k) as [L|L]; [discriminate|].
  inversion H; subst. exists (firstn k s).
  split; [now rewrite firstn_skipn|]. split.
  - intro tl. unfold pLE.
    assert (Lf : length (firstn k s) = k) by (apply firstn_length_le; lia).
    destruct (Nat.ltb_spec (length (firstn k s ++ tl)) k) as [L'|L'].
    + rewrite app_length in L'. lia.
    + rewrite firstn_app_exact, skipn_app_exact by assumption. reflexivity.
  - intros c' Hc. apply pprefix_length in Hc. unfold pLE.
    rewrite firstn_length in Hc.
    destruct (Nat.ltb_spec (length c') k); [reflexivity|lia].
Qed.

Lemma strict_U32 : strict pU32. Proof. apply strict_LE. Qed.
Lemma strict_U64 : strict pU64. Proof. apply strict_LE. Qed.
Lemma strict_Bool : strict pBool. Proof. apply strict_map, strict_U8. Qed.

Lemma strict_Take n : strict (pTake n).
Proof.
  intros s v r H. unfold pTake in H.
  destruct (N.ltb_spec (N.of_nat (length s)) n) as [L|L]; [discriminate|].
  inversion H; subst. set (k := N.to_nat n).
  assert (Hk : (k <= length s)%nat) by (unfold k; lia).
  exists (firstn k s). split; [now rewrite firstn_skipn|]. split.
  - intro tl. unfold pTake. fold k.
    assert (Lf : length (firstn k s) = k) by (apply firstn_length_le; lia).
    destruct (N.ltb_spec (N.of_nat (length (firstn k s ++ tl))) n) as [L'|L'].
    + rewrite app_length in L'. unfold k in *. lia.
    + rewrite firstn_app_exact, skipn_app_exact by assumption. reflexivity.
  - intros c' Hc. apply pprefix_length in Hc. unfold pTake.
    rewrite firstn_length in Hc.
    destruct (N.ltb_spec (N.of_nat (length c')) n); [reflexivity|]. unfold k in *. lia.
Qed.

Lemma strict_Bytes : strict pBytes.
Proof. apply strict_bind; [apply strict_U32|]. intro; apply strict_Take. Qed.

Lemma strict_RepN {A} (p : parser A) k : strict p -> strict (pRepN p k).
Proof.
  intro Hp. induction k as [|k IH]; simpl.
  - apply strict_ret.
  - apply strict_bind; [assumption|]. intro a.
    apply strict_bind; [assumption|]. intro l. apply strict_ret.
Qed.

Lemma RepN_consumes {A} (p : parser A) k :
  consuming p -> forall s v r, pRepN p k s = Some (v, r) -> (length r + k <= length s)%nat.
Proof.
  intro Hp. induction k as [|k IH]; intros s v r H; simpl in H.
  - unfold pret in H. inversion H; subst. lia.
  - unfold pbind in H. destruct (p s) as [[a r1]|] eqn:Ep; [|discriminate].
    destruct (pRepN p k r1) as [[l r2]|] eqn:Er; [|discriminate].
    unfold pret in H. inversion H; subst.
    apply Hp in Ep. apply IH in Er. lia.
Qed.

Lemma strict_Rep {A} (p : parser A) n : strict p -> consuming p -> strict (pRep p n).
Proof.
  intros Hp Hc s v r H. unfold pRep in H.
  destruct (N.ltb_spec (N.of_nat (length s)) n) as [L|L]; [discriminate|].
  pose proof (RepN_consumes p (N.to_nat n) Hc _ _ _ H) as Hlen.
  destruct (strict_RepN p (N.to_nat n) Hp _ _ _ H) as [c [E [T P]]].
  exists c. split; [assumption|]. split.
  - intro tl. unfold pRep.
    destruct (N.ltb_spec (N.of_nat (length (c ++ tl))) n) as [L'|L']; [|apply T].
    exfalso. subst s. rewrite app_length in *. lia.
  - intros c' Hc'. unfold pRep.
    destruct (N.ltb_spec (N.of_nat (length c')) n); [reflexivity|]. now apply P.
Qed.

(* ---------------------------------------------------------------- *)
(* consuming *)

Lemma consuming_bind_l {A B} (p : parser A) (f : A -> parser B) :
  consuming p -> (forall a s v r, f a s = Some (v, r) -> (length r <= length s)%nat) ->
  consuming (pbind p f).
Proof.
  intros Hp Hf s v r H. unfold pbind in H.
  destruct (p s) as [[a r1]|] eqn:Ep; [|discriminate].
  apply Hp in Ep. apply Hf in H. lia.
Qed.

Lemma strict_nonincreasing {A} (p : parser A) :
  strict p -> forall s v r, p s = Some (v, r) -> (length r <= length s)%nat.
Proof.
  intros Hp s v r H. destruct (Hp _ _ _ H) as [c [E _]]. subst s.
  rewrite app_length. lia.
Qed.

Lemma consuming_LE k : (0 < k)%nat -> consuming (pLE k).
Proof.
  intros Hk s v r H. unfold pLE in H.
  destruct (Nat.ltb_spec (length s) k); [discriminate|]. inversion H; subst.
  rewrite skipn_length. lia.
Qed.

(* ---------------------------------------------------------------- *)
(* soundness building blocks: each primitive reads back what its writer wrote *)

Lemma pU8_w b tl : pU8 (wU8 b ++ tl) = Some (b, tl).
Proof. reflexivity. Qed.

Lemma pLE_w k n tl : n < 256 ^ N.of_nat k -> pLE k (le_enc k n ++ tl) = Some (n, tl).
Proof.
  intro Hn. unfold pLE.
  pose proof (le_enc_length k n) as Ll.
  destruct (Nat.ltb_spec (length (le_enc k n ++ tl)) k) as [L|L].
  - rewrite app_length in L. lia.
  - rewrite firstn_app_exact, skipn_app_exact by assumption.
    rewrite le_dec_enc_small by assumption. reflexivity.
Qed.

Lemma pU32_w n tl : n < two32 -> pU32 (wU32 n ++ tl) = Some (n, tl).
Proof. intro. apply pLE_w. now rewrite two32_eq. Qed.

Lemma pU64_w n tl : n < two64 -> pU64 (wU64 n ++ tl) = Some (n, tl).
Proof. intro. apply pLE_w. now rewrite two64_eq. Qed.

Lemma pBool_w b tl : pBool (wBool b ++ tl) = Some (b, tl).
Proof. destruct b; reflexivity. Qed.

Lemma pTake_w b tl : pTake (N.of_nat (length b)) (b ++ tl) = Some (b, tl).
Proof.
  unfold pTake. rewrite Nnat.Nat2N.id.
  destruct (N.ltb_spec (N.of_nat (length (b ++ tl))) (N.of_nat (length b))) as [L|L].
  - rewrite app_length in L. lia.
  - rewrite firstn_app_exact, skipn_app_exact by reflexivity. reflexivity.
Qed.

Lemma pBytes_w b tl :
  N.of_nat (length b) < two32 -> pBytes (wBytes b ++ tl) = Some (b, tl).
Proof.
  intro H. unfold pBytes, wBytes, pbind. rewrite <- app_assoc, pU32_w by assumption.
  apply pTake_w.
Qed.

(* bind steps through a sound prefix *)
Lemma pbind_step {A B} (p : parser A) (f : A -> parser B) a pre tl :
  p (pre ++ tl) = Some (a, tl) -> pbind p f (pre ++ tl) = f a tl.
Proof. intro H. unfold pbind. now rewrite H. Qed.

(* repetition of a sound element parser over a concatenated encoding *)
Lemma pRepN_w {A} (wf : A -> Prop) (enc : A -> bytes) (p : parser A) :
  sound wf enc p -> forall l tl, Forall wf l ->
  pRepN p (length l) (concat (map enc l) ++ tl) = Some (l, tl).
Proof.
  intros Hs l. induction l as [|a l IH]; intros tl Hl; simpl.
  - reflexivity.
  - inversion Hl as [|? ? Ha Hl']; subst.
    unfold pbind. rewrite <- app_assoc, (Hs a _ Ha), (IH _ Hl'). reflexivity.
Qed.

Lemma pRep_w {A} (wf : A -> Prop) (enc : A -> bytes) (p : parser A) :
  sound wf enc p -> (forall a, wf a -> (1 <= length (enc a))%nat) ->
  forall l tl, Forall wf l ->
  pRep p (N.of_nat (length l)) (concat (map enc l) ++ tl) = Some (l, tl).
Proof.
  intros Hs Hlen l tl Hl. unfold pRep. rewrite Nnat.Nat2N.id.
  destruct (N.ltb_spec (N.of_nat (length (concat (map enc l) ++ tl))) (N.of_nat (length l))) as [L|L].
  - exfalso. rewrite app_length in L.
    assert (length l <= length (concat (map enc l)))%nat; [|lia].
    clear L. induction Hl as [|a l Ha Hl IH]; simpl; [lia|].
    rewrite app_length. specialize (Hlen a Ha). lia.
  - eapply pRepN_w; eauto.
Qed.

(* truncation theorem from soundness + strictness *)
Lemma sound_strict_truncation {A} (wf : A -> Prop) (enc : A -> bytes) (p : parser A) :
  sound wf enc p -> strict p ->
  forall v c', wf v -> pprefix c' (enc v) -> p c' = None.
Proof.
  intros Hs Hp v c' Hv Hc.
  pose proof (Hs v [] Hv) as H. rewrite app_nil_r in H.
  destruct (Hp _ _ _ H) as [c [E [_ P]]]. rewrite app_nil_r in E. subst c.
  now apply P.
Qed.
