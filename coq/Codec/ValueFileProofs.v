(* Proofs about the value-file name model (Codec/ValueFile.v):
   render-then-open reads back both numbers; the pre-repair signed parse does not. *)
From Coq Require Import List NArith Lia Bool Arith.
From Verif Require Import Base.Bytes Codec.ValueFile.
Import ListNotations.
Open Scope N_scope.

(* ---------------------------------------------------------------- bytes_eqb *)
Lemma vf_bytes_eqb_refl a : bytes_eqb a a = true.
Proof.
  induction a as [|x a IH]; [reflexivity|].
  cbn [bytes_eqb]. now rewrite N.eqb_refl, IH.
Qed.

(* ---------------------------------------------------------------- trim_suffix *)
Lemma trim_suffix_app x ext : trim_suffix (x ++ ext) ext = x.
Proof.
  unfold trim_suffix. rewrite app_length.
  replace (length x + length ext - length ext)%nat with (length x) by lia.
  destruct (Nat.leb_spec (length ext) (length x + length ext)) as [_|L]; [|lia].
  rewrite skipn_app, Nat.sub_diag, skipn_all. cbn [skipn app].
  rewrite vf_bytes_eqb_refl.
  rewrite firstn_app, Nat.sub_diag, firstn_all. cbn [firstn]. apply app_nil_r.
Qed.

(* ---------------------------------------------------------------- split_dash *)
Lemma split_dash_app a b :
  Forall (fun c => is_digit c = true) a ->
  split_dash (a ++ ch_dash :: b) = Some (a, b).
Proof.
  induction 1 as [|c a Hc Ha IH].
  - cbn [app split_dash]. now rewrite N.eqb_refl.
  - cbn [app split_dash]. rewrite IH.
    destruct (N.eqb_spec c ch_dash) as [E|_]; [|reflexivity].
    subst c. vm_compute in Hc. discriminate.
Qed.

(* ---------------------------------------------------------------- digits *)
Lemma digit_ok d : d < 10 -> is_digit (ch_0 + d) = true /\ ch_0 + d - ch_0 = d.
Proof.
  intro H. unfold is_digit, ch_0. split; [|lia].
  apply andb_true_intro. split; apply N.leb_le; lia.
Qed.

Lemma dec_digits_acc fuel : forall n acc,
  dec_digits fuel n acc = dec_digits fuel n [] ++ acc.
Proof.
  induction fuel as [|f IH]; intros n acc; [reflexivity|].
  cbn [dec_digits]. destruct (n / 10 =? 0); [reflexivity|].
  rewrite (IH _ (_ :: acc)), (IH _ [_]). now rewrite <- app_assoc.
Qed.

Lemma parse_digits_app a : forall b k,
  parse_digits (a ++ b) k =
  match parse_digits a k with Some k' => parse_digits b k' | None => None end.
Proof.
  induction a as [|c a IH]; intros b k; [reflexivity|].
  cbn [app parse_digits]. destruct (is_digit c); [apply IH | reflexivity].
Qed.

Lemma parse_one d k : d < 10 -> parse_digits [ch_0 + d] k = Some (10 * k + d).
Proof.
  intro H. destruct (digit_ok d H) as [E1 E2].
  cbn [parse_digits]. now rewrite E1, E2.
Qed.

Lemma parse_dec_digits fuel : forall n,
  n < 2 ^ N.of_nat fuel -> parse_digits (dec_digits fuel n []) 0 = Some n.
Proof.
  induction fuel as [|f IH]; intros n Hn.
  - cbn in Hn. assert (n = 0) by lia. subst. reflexivity.
  - assert (Hm : n mod 10 < 10) by (apply N.mod_lt; discriminate).
    pose proof (N.div_mod n 10 ltac:(discriminate)) as Hd.
    cbn [dec_digits]. destruct (N.eqb_spec (n / 10) 0) as [E|E].
    + rewrite parse_one by assumption. f_equal. lia.
    + rewrite dec_digits_acc, parse_digits_app, IH.
      * rewrite parse_one by assumption. f_equal. lia.
      * rewrite Nnat.Nat2N.inj_succ, N.pow_succ_r' in Hn.
        apply N.div_lt_upper_bound; [discriminate|]. lia.
Qed.

Lemma dec_digits_all fuel : forall n acc,
  Forall (fun c => is_digit c = true) acc ->
  Forall (fun c => is_digit c = true) (dec_digits fuel n acc).
Proof.
  induction fuel as [|f IH]; intros n acc Ha; [assumption|].
  assert (Hm : n mod 10 < 10) by (apply N.mod_lt; discriminate).
  assert (Forall (fun c => is_digit c = true) ((ch_0 + n mod 10) :: acc)).
  { constructor; [apply digit_ok; assumption | assumption]. }
  cbn [dec_digits]. destruct (n / 10 =? 0); [assumption | now apply IH].
Qed.

Lemma dec_digits_nonempty fuel : forall n acc, acc <> [] -> dec_digits fuel n acc <> [].
Proof.
  induction fuel as [|f IH]; intros n acc Ha; [assumption|].
  cbn [dec_digits]. destruct (n / 10 =? 0); [discriminate | apply IH; discriminate].
Qed.

Lemma two64_pow : two64 = 2 ^ N.of_nat 64.
Proof. reflexivity. Qed.

Lemma render_digits n : Forall (fun c => is_digit c = true) (render_u64 n).
Proof. unfold render_u64. apply dec_digits_all. constructor. Qed.

Lemma render_nonempty n : render_u64 n <> [].
Proof.
  unfold render_u64.
  assert (E : forall f acc, dec_digits (S f) n acc =
            if n / 10 =? 0 then (ch_0 + n mod 10) :: acc
            else dec_digits f (n / 10) ((ch_0 + n mod 10) :: acc)) by reflexivity.
  rewrite E.
  destruct (n / 10 =? 0); [discriminate | apply dec_digits_nonempty; discriminate].
Qed.

Lemma render_parse n : n < two64 -> parse_digits (render_u64 n) 0 = Some n.
Proof. intro H. unfold render_u64. apply parse_dec_digits. now rewrite <- two64_pow. Qed.

Lemma parse_uint64_render n : n < two64 -> parse_uint64 (render_u64 n) = Some n.
Proof.
  intro H. unfold parse_uint64. rewrite render_parse by assumption.
  pose proof (render_nonempty n) as Hne.
  destruct (render_u64 n); [congruence|].
  apply N.ltb_lt in H. now rewrite H.
Qed.

(* ---------------------------------------------------------------- theorems *)
Theorem value_roundtrip :
  forall v1 v2 ext, v1 < two64 -> v2 < two64 ->
    open_value (value_file v1 v2 ext) ext = Some (v1, v2).
Proof.
  intros v1 v2 ext H1 H2. unfold open_value, open_value_with, value_file.
  replace (render_u64 v1 ++ [ch_dash] ++ render_u64 v2 ++ ext)
    with ((render_u64 v1 ++ ch_dash :: render_u64 v2) ++ ext)
    by (now rewrite <- app_assoc).
  rewrite trim_suffix_app, split_dash_app by apply render_digits.
  now rewrite !parse_uint64_render by assumption.
Qed.

Theorem value_roundtrip_signed_refuted :
  exists v1 v2 ext, v1 < two64 /\ v2 < two64 /\
    open_value_signed (value_file v1 v2 ext) ext <> Some (v1, v2).
Proof.
  exists two63, 0, []. split; [reflexivity|]. split; [reflexivity|].
  vm_compute. discriminate.
Qed.

Print Assumptions value_roundtrip.
Print Assumptions value_roundtrip_signed_refuted.
