(* Model of /repo/value.go: two uint64 persisted as the file name
   "<v1>-<v2><ext>" (fmt.Sprintf("%d-%d%s")), read back by openValue.
   Characters are byte codes (N).  No proofs here. *)
From Coq Require Import List NArith Bool.
From Verif Require Import Base.Bytes.
Import ListNotations.
Open Scope N_scope.

Definition ch_dash : N := 45.
Definition ch_0 : N := 48.

(* decimal rendering of a natural number, most significant digit first;
   fuel = number of digits is at most 20 for a uint64, we use the bit size. *)
Fixpoint dec_digits (fuel : nat) (n : N) (acc : bytes) : bytes :=
  match fuel with
  | O => acc
  | S f =>
      let acc' := (ch_0 + n mod 10) :: acc in
      if n / 10 =? 0 then acc' else dec_digits f (n / 10) acc'
  end.
Definition render_u64 (n : N) : bytes := dec_digits 64 n [].

Definition value_file (v1 v2 : N) (ext : bytes) : bytes :=
  render_u64 v1 ++ [ch_dash] ++ render_u64 v2 ++ ext.

(* strings.TrimSuffix(name, ext) *)
Fixpoint bytes_eqb (a b : bytes) : bool :=
  match a, b with
  | [], [] => true
  | x :: a', y :: b' => (x =? y) && bytes_eqb a' b'
  | _, _ => false
  end.
Definition trim_suffix (s ext : bytes) : bytes :=
  let ls := length s in let le := length ext in
  if Nat.leb le ls then
    if bytes_eqb (skipn (ls - le) s) ext then firstn (ls - le) s else s
  else s.

(* strings.IndexByte(s, '-'): split at the first dash *)
Fixpoint split_dash (s : bytes) : option (bytes * bytes) :=
  match s with
  | [] => None
  | c :: r => if c =? ch_dash then Some ([], r)
              else match split_dash r with
                   | Some (a, b) => Some (c :: a, b)
                   | None => None
                   end
  end.

Definition is_digit (c : N) : bool := (ch_0 <=? c) && (c <=? ch_0 + 9).

(* digits -> number, None on a non-digit *)
Fixpoint parse_digits (s : bytes) (acc : N) : option N :=
  match s with
  | [] => Some acc
  | c :: r => if is_digit c then parse_digits r (10 * acc + (c - ch_0)) else None
  end.

(* strconv.ParseUint(s, 10, 64): non-empty, digits only (no sign, base 10 does
   not accept '_'), value below 2^64 *)
Definition parse_uint64 (s : bytes) : option N :=
  match s with
  | [] => None
  | _ => match parse_digits s 0 with
         | Some n => if n <? two64 then Some n else None
         | None => None
         end
  end.

(* strconv.ParseInt(s, 10, 64) followed by uint64(v): optional sign, value in
   [-2^63, 2^63); the conversion wraps negatives.  This is what the code did
   before the repair recorded in known_findings.json (ids/terms >= 2^63 did not
   read back); kept so that the refutation stays checkable. *)
Definition two63 : N := 9223372036854775808.
Definition parse_int64_as_u64 (s : bytes) : option N :=
  match s with
  | [] => None
  | c :: r =>
      if c =? 43 then      (* '+' *)
        match r with [] => None | _ =>
          match parse_digits r 0 with Some n => if n <? two63 then Some n else None | None => None end end
      else if c =? ch_dash then
        match r with [] => None | _ =>
          match parse_digits r 0 with
          | Some n => if n <=? two63 then Some ((two64 - n) mod two64) else None
          | None => None end end
      else
        match parse_digits s 0 with Some n => if n <? two63 then Some n else None | None => None end
  end.

(* openValue on a directory listing that contains exactly this one file *)
Definition open_value_with (parse : bytes -> option N) (name ext : bytes) : option (N * N) :=
  match split_dash (trim_suffix name ext) with
  | None => None
  | Some (a, b) =>
      match parse a, parse b with
      | Some v1, Some v2 => Some (v1, v2)
      | _, _ => None
      end
  end.

Definition open_value := open_value_with parse_uint64.
Definition open_value_signed := open_value_with parse_int64_as_u64.
