(* Proofs about the codec model (Codec/Messages.v):
   every encoder/decoder pair round-trips with exact framing, every decoder is
   strict (prefix-closed failure), hence every truncation is an error. *)
From Coq Require Import List NArith Lia Bool Arith.
From Verif Require Import Base.Bytes Codec.Parser Codec.ParserLemmas Codec.Messages Codec.TaskSpec.
Import ListNotations.
Open Scope N_scope.

(* ---------------------------------------------------------------- tactics *)

(* one primitive (or already proved composite) reads back what was written *)
Ltac prim :=
  first [ apply pU64_w; assumption
        | apply pU32_w; assumption
        | apply pBytes_w; assumption
        | apply pU8_w
        | apply pBool_w ].

(* step through the first bind of the decoder *)
Ltac step := erewrite pbind_step by prim; cbv beta.

Ltac split_all :=
  repeat match goal with
         | H : _ /\ _ |- _ => destruct H
         end.

(* generic consequence of round trip + strictness *)
Lemma roundtrip_strict_truncation {A} (p : parser A) e v c' :
  p (e ++ []) = Some (v, []) -> strict p -> pprefix c' e -> p c' = None.
Proof.
  intros H Hp Hc. destruct (Hp _ _ _ H) as [c [E [_ P]]].
  rewrite !app_nil_r in E. subst c. now apply P.
Qed.

(* ---------------------------------------------------------------- entry / node *)

Lemma entry_sound : sound wf_entry enc_entry dec_entry.
Proof.
  intros e tl (H1 & H2 & H3 & H4). unfold enc_entry, dec_entry.
  rewrite <- !app_assoc. do 4 step. destruct e; reflexivity.
Qed.

Lemma node_sound : sound wf_node enc_node dec_node.
Proof.
  intros n tl (H1 & H2 & H3 & H4). unfold enc_node, dec_node.
  rewrite <- !app_assoc. do 5 step. destruct n; reflexivity.
Qed.

Lemma enc_node_len n : (1 <= length (enc_node n))%nat.
Proof. unfold enc_node, wU64. rewrite app_length, le_enc_length. lia. Qed.

Lemma concat_enc_node_len ns : (length ns <= length (concat (map enc_node ns)))%nat.
Proof.
  induction ns as [|a ns IH]; [apply Nat.le_refl|].
  cbn [map concat length]. rewrite app_length. pose proof (enc_node_len a). lia.
Qed.

(* ---------------------------------------------------------------- the map models *)

Lemma put_node_fresh a acc :
  ~ In (n_id a) (map n_id acc) -> put_node a acc = acc ++ [a].
Proof.
  induction acc as [|m r IH]; intro H; [reflexivity|].
  cbn [put_node app]. cbn [map In] in H.
  destruct (N.eqb_spec (n_id m) (n_id a)) as [E|E].
  - exfalso. apply H. now left.
  - rewrite IH; [reflexivity|]. intro. apply H. now right.
Qed.

Lemma fold_put_node l : forall acc,
  NoDup (map n_id (acc ++ l)) ->
  fold_left (fun acc n => put_node n acc) l acc = acc ++ l.
Proof.
  induction l as [|a l IH]; intros acc H; cbn [fold_left].
  - now rewrite app_nil_r.
  - rewrite put_node_fresh.
    + rewrite IH; rewrite <- app_assoc; [reflexivity | exact H].
    + rewrite map_app in H. cbn [map] in H. apply NoDup_remove_2 in H.
      intro Hin. apply H. apply in_or_app. now left.
Qed.

Lemma nodes_of_list_nodup l : NoDup (map n_id l) -> nodes_of_list l = l.
Proof. intro H. unfold nodes_of_list. now rewrite fold_put_node. Qed.

Lemma put_repl_fresh a acc :
  ~ In (repl_id a) (map repl_id acc) -> put_repl a acc = acc ++ [a].
Proof.
  induction acc as [|m r IH]; intro H; [reflexivity|].
  cbn [put_repl app]. cbn [map In] in H.
  destruct (N.eqb_spec (repl_id m) (repl_id a)) as [E|E].
  - exfalso. apply H. now left.
  - rewrite IH; [reflexivity|]. intro. apply H. now right.
Qed.

Lemma fold_put_repl l : forall acc,
  NoDup (map repl_id (acc ++ l)) ->
  fold_left (fun acc n => put_repl n acc) l acc = acc ++ l.
Proof.
  induction l as [|a l IH]; intros acc H; cbn [fold_left].
  - now rewrite app_nil_r.
  - rewrite put_repl_fresh.
    + rewrite IH; rewrite <- app_assoc; [reflexivity | exact H].
    + rewrite map_app in H. cbn [map] in H. apply NoDup_remove_2 in H.
      intro Hin. apply H. apply in_or_app. now left.
Qed.

Lemma repls_of_list_nodup l : NoDup (map repl_id l) -> repls_of_list l = l.
Proof. intro H. unfold repls_of_list. now rewrite fold_put_repl. Qed.

(* ---------------------------------------------------------------- Config *)

Lemma config_len ns : wfstr (enc_config_data ns) -> N.of_nat (length ns) < two32.
Proof.
  unfold wfstr, enc_config_data. rewrite app_length.
  pose proof (concat_enc_node_len ns). lia.
Qed.

Lemma config_data_sound ns tl :
  Forall wf_node ns -> NoDup (map n_id ns) -> wfstr (enc_config_data ns) ->
  dec_config_data (enc_config_data ns ++ tl) = Some (ns, tl).
Proof.
  intros Hf Hn Hs. pose proof (config_len ns Hs) as Hl.
  unfold dec_config_data, enc_config_data. rewrite <- app_assoc. step.
  erewrite pbind_step
    by (apply (pRep_w wf_node enc_node dec_node node_sound);
        [intros; apply enc_node_len | assumption]).
  cbv beta. unfold pret. now rewrite nodes_of_list_nodup.
Qed.

Lemma wf_config_entry c : wf_config c -> wf_entry (config_entry c).
Proof.
  intros (H1 & H2 & H3 & H4 & H5). unfold wf_entry, config_entry.
  cbn [e_index e_term e_typ e_data].
  split; [assumption|]. split; [assumption|]. split; [reflexivity | assumption].
Qed.

Lemma config_sound : sound wf_config enc_config dec_config.
Proof.
  intros c tl Hc. pose proof (wf_config_entry c Hc) as He.
  destruct Hc as (H1 & H2 & H3 & H4 & H5).
  unfold enc_config, dec_config, pcheck.
  erewrite pbind_step by (apply entry_sound; assumption). cbv beta.
  unfold config_of_entry, config_entry. cbn [e_index e_term e_typ e_data].
  rewrite N.eqb_refl.
  rewrite <- (app_nil_r (enc_config_data (c_nodes c))).
  rewrite config_data_sound by assumption. cbv beta iota.
  destruct c; reflexivity.
Qed.

(* ---------------------------------------------------------------- responses *)

Lemma resp_sound t r op er tl :
  u64 t -> wf_resp r op er ->
  dec_resp (enc_resp t r op er ++ tl) = Some ((t, r, op, er), tl).
Proof.
  intros Ht (H1 & H2 & H3 & H4). unfold dec_resp, enc_resp.
  rewrite <- !app_assoc. do 2 step.
  destruct (N.eqb_spec r unexpectedErr) as [E|E]; cbv beta iota.
  - rewrite <- !app_assoc. do 2 step. reflexivity.
  - destruct (H4 E); subst. reflexivity.
Qed.

(* ---------------------------------------------------------------- Replication / Info *)

Lemma replication_sound : sound wf_flr enc_flr dec_replication.
Proof.
  intros m tl H. destruct m; cbn [wf_flr] in H; try contradiction.
  destruct H as (H1 & H2 & H3 & H4 & H5).
  cbn [enc_flr]. unfold enc_replication, dec_replication.
  rewrite <- !app_assoc. do 5 step. reflexivity.
Qed.

Lemma enc_flr_len m : wf_flr m -> (1 <= length (enc_flr m))%nat.
Proof.
  destruct m; cbn [wf_flr]; try contradiction. intros _.
  cbn [enc_flr]. unfold enc_replication, wU64. rewrite app_length, le_enc_length. lia.
Qed.

Ltac prim2 :=
  first [ prim
        | apply entry_sound; assumption
        | apply node_sound; assumption
        | apply config_sound; assumption
        | apply resp_sound; assumption ].
Ltac step2 := erewrite pbind_step by prim2; cbv beta.

Lemma info_sound m tl :
  kind_of m = KInfo -> wf_msg m -> dec_info (enc_msg m ++ tl) = Some (m, tl).
Proof.
  intros Hk H. destruct m; try discriminate. clear Hk.
  cbn [wf_msg] in H. split_all.
  cbn [enc_msg]. unfold dec_info.
  rewrite <- !app_assoc. do 15 step2.
  erewrite pbind_step
    by (apply (pRep_w wf_flr enc_flr dec_replication replication_sound);
        [apply enc_flr_len | assumption]).
  cbv beta. unfold pret. now rewrite repls_of_list_nodup.
Qed.

(* ---------------------------------------------------------------- all messages *)

Theorem msg_roundtrip :
  forall m tl, wf_msg m -> dec_msg (kind_of m) (enc_msg m ++ tl) = Some (m, tl).
Proof.
  intros m tl H.
  destruct m; try (apply info_sound; [reflexivity | assumption]);
    cbn [kind_of dec_msg enc_msg]; cbn [wf_msg] in H;
    try exact (replication_sound _ tl H);
    split_all; unfold pmap, enc_req; rewrite <- ?app_assoc;
    repeat step2; reflexivity.
Qed.

(* ---------------------------------------------------------------- strictness *)

Ltac strict_tac :=
  repeat first
    [ apply strict_ret | apply strict_fail
    | apply strict_U64 | apply strict_U32 | apply strict_U8
    | apply strict_Bool | apply strict_Bytes
    | assumption
    | apply strict_map | apply strict_check | apply strict_bind
    | match goal with
      | |- forall _, _ => intro; cbv beta
      | |- strict (if ?b then _ else _) => destruct b
      | |- strict (match ?x with (_, _) => _ end) => destruct x
      end ].

Lemma strict_entry : strict dec_entry.
Proof. unfold dec_entry. strict_tac. Qed.

Lemma strict_node : strict dec_node.
Proof. unfold dec_node. strict_tac. Qed.

Lemma consuming_node : consuming dec_node.
Proof.
  unfold dec_node. apply consuming_bind_l; [apply consuming_LE; lia|].
  intro a. apply strict_nonincreasing. strict_tac.
Qed.

Lemma strict_replication : strict dec_replication.
Proof. unfold dec_replication. strict_tac. Qed.

Lemma consuming_replication : consuming dec_replication.
Proof.
  unfold dec_replication. apply consuming_bind_l; [apply consuming_LE; lia|].
  intro a. apply strict_nonincreasing. strict_tac.
Qed.

Lemma strict_config : strict dec_config.
Proof. unfold dec_config. apply strict_check, strict_entry. Qed.

Lemma strict_resp : strict dec_resp.
Proof. unfold dec_resp. strict_tac. Qed.

Lemma strict_info : strict dec_info.
Proof.
  pose proof strict_config. unfold dec_info.
  repeat first
    [ apply strict_Rep; [apply strict_replication | apply consuming_replication]
    | progress strict_tac ].
Qed.

Theorem dec_msg_strict : forall k, strict (dec_msg k).
Proof.
  pose proof strict_config. pose proof strict_entry. pose proof strict_node.
  pose proof strict_resp.
  intros []; cbn [dec_msg];
    try apply strict_replication; try apply strict_info; strict_tac.
Qed.

Theorem msg_truncation :
  forall m c', wf_msg m -> pprefix c' (enc_msg m) -> dec_msg (kind_of m) c' = None.
Proof.
  intros m c' H Hc.
  eapply roundtrip_strict_truncation; [apply msg_roundtrip; assumption | apply dec_msg_strict | exact Hc].
Qed.

(* ---------------------------------------------------------------- task responses *)

Lemma bytes_eqb_eq a : forall b, bytes_eqb a b = true <-> a = b.
Proof.
  induction a as [|x a IH]; intros [|y b]; cbn [bytes_eqb]; split; intro H;
    try reflexivity; try discriminate.
  - apply andb_true_iff in H. destruct H as [H1 H2].
    apply N.eqb_eq in H1. apply IH in H2. congruence.
  - inversion H; subst. apply andb_true_iff. split; [apply N.eqb_refl | now apply IH].
Qed.

Lemma bytes_eqb_refl a : bytes_eqb a a = true.
Proof. now apply bytes_eqb_eq. Qed.

Lemma bytes_eqb_neq a b : a <> b -> bytes_eqb a b = false.
Proof.
  intro H. destruct (bytes_eqb a b) eqn:E; [|reflexivity].
  apply bytes_eqb_eq in E. contradiction.
Qed.

(* the two continuations of dec_taskres, named *)
Definition ok_k (t : tasktyp) : parser taskres :=
  match t with
  | TInfo => pmap TRInfo dec_info
  | TWaitStable => pmap TRConfig dec_config
  | TChangeConfig | TTransfer => pret TRNil
  | TTakeSnapshot => pmap TRU64 pU64
  end.

Definition err_k (et : bytes) : parser taskres :=
  if bytes_eqb et s_NotLeaderError then
    n <- dec_node ;; lost <- pBool ;; pret (TRErr (TENotLeader n lost))
  else
    s <- pBytes ;;
    if bytes_eqb et s_plainError then pret (TRErr (TEPlain s))
    else if bytes_eqb et s_temporaryError then pret (TRErr (TETemporary s))
    else if bytes_eqb et s_InProgressError then pret (TRErr (TEInProgress s))
    else pret (TRErr (TEOther [] s)).

Definition sel_k (t : tasktyp) (et : bytes) : parser taskres :=
  match et with [] => ok_k t | _ :: _ => err_k et end.

Lemma dec_taskres_eq t : dec_taskres t = pbind pBytes (sel_k t).
Proof. reflexivity. Qed.

Lemma sel_k_ne t et : et <> [] -> sel_k t et = err_k et.
Proof. destruct et; [congruence | reflexivity]. Qed.

Lemma strict_taskres t : strict (dec_taskres t).
Proof.
  pose proof strict_config. pose proof strict_node. pose proof strict_info.
  rewrite dec_taskres_eq. apply strict_bind; [apply strict_Bytes|].
  intros [|b et]; unfold sel_k.
  - destruct t; unfold ok_k; strict_tac.
  - unfold err_k. strict_tac.
Qed.

Lemma wfstr_NotLeaderError : wfstr s_NotLeaderError. Proof. reflexivity. Qed.
Lemma wfstr_plainError : wfstr s_plainError. Proof. reflexivity. Qed.
Lemma wfstr_temporaryError : wfstr s_temporaryError. Proof. reflexivity. Qed.
Lemma wfstr_InProgressError : wfstr s_InProgressError. Proof. reflexivity. Qed.
Lemma wfstr_nil : wfstr []. Proof. reflexivity. Qed.

(* decide bytes_eqb on the closed type-name constants *)
Ltac eqb_const :=
  repeat match goal with
         | |- context [bytes_eqb ?a ?b] =>
             let v := eval vm_compute in (bytes_eqb a b) in
             change (bytes_eqb a b) with v
         end.

Theorem taskres_roundtrip :
  forall t r tl, wf_taskres r -> typ_ok t r ->
    dec_taskres t (enc_taskres r ++ tl) = Some (norm_taskres r, tl).
Proof.
  intros t r tl Hwf Hok. rewrite dec_taskres_eq.
  destruct r as [e| |n|c|i].
  - clear Hok. destruct e; cbn [enc_taskres norm_taskres]; cbn [wf_taskres wf_taskerr] in Hwf.
    + rewrite <- !app_assoc.
      erewrite pbind_step by (apply pBytes_w; exact wfstr_NotLeaderError).
      rewrite sel_k_ne by discriminate. unfold err_k. eqb_const. cbv beta iota.
      repeat step2. reflexivity.
    + rewrite <- !app_assoc.
      erewrite pbind_step by (apply pBytes_w; exact wfstr_plainError).
      rewrite sel_k_ne by discriminate. unfold err_k. eqb_const. cbv beta iota.
      repeat step2. reflexivity.
    + rewrite <- !app_assoc.
      erewrite pbind_step by (apply pBytes_w; exact wfstr_temporaryError).
      rewrite sel_k_ne by discriminate. unfold err_k. eqb_const. cbv beta iota.
      repeat step2. reflexivity.
    + rewrite <- !app_assoc.
      erewrite pbind_step by (apply pBytes_w; exact wfstr_InProgressError).
      rewrite sel_k_ne by discriminate. unfold err_k. eqb_const. cbv beta iota.
      repeat step2. reflexivity.
    + destruct Hwf as (H1 & H2 & H3 & H4 & H5 & H6 & H7).
      rewrite <- !app_assoc. step.
      rewrite sel_k_ne by assumption. unfold err_k.
      rewrite !bytes_eqb_neq by assumption. cbv beta iota.
      repeat step2. reflexivity.
  - destruct t; cbn [typ_ok] in Hok; try contradiction; cbn [enc_taskres norm_taskres];
      (erewrite pbind_step by (apply pBytes_w; exact wfstr_nil)); reflexivity.
  - destruct t; cbn [typ_ok] in Hok; try contradiction; cbn [enc_taskres norm_taskres wf_taskres] in *.
    rewrite <- !app_assoc.
    erewrite pbind_step by (apply pBytes_w; exact wfstr_nil).
    unfold sel_k, ok_k, pmap. step. reflexivity.
  - destruct t; cbn [typ_ok] in Hok; try contradiction; cbn [enc_taskres norm_taskres wf_taskres] in *.
    rewrite <- !app_assoc.
    erewrite pbind_step by (apply pBytes_w; exact wfstr_nil).
    unfold sel_k, ok_k, pmap. step2. reflexivity.
  - destruct i; destruct t; cbn [typ_ok] in Hok; try contradiction.
    cbn [norm_taskres wf_taskres] in *. unfold enc_taskres.
    rewrite <- !app_assoc.
    erewrite pbind_step by (apply pBytes_w; exact wfstr_nil).
    unfold sel_k, ok_k, pmap.
    erewrite pbind_step by (apply info_sound; [reflexivity | assumption]).
    reflexivity.
Qed.

Theorem taskres_truncation :
  forall t r c', wf_taskres r -> typ_ok t r -> pprefix c' (enc_taskres r) -> dec_taskres t c' = None.
Proof.
  intros t r c' H Hok Hc.
  eapply roundtrip_strict_truncation;
    [apply taskres_roundtrip; eassumption | apply strict_taskres | exact Hc].
Qed.

(* ---------------------------------------------------------------- non-vacuity *)

Example wf_example_installsnap :
  wf_msg (MInstallSnapReq 7 2 100 6
            (mkConfig [mkNode 1 [77;49;58;56] true [] 0; mkNode 2 [77;50;58;56] false [120] 1] 90 5) 4096).
Proof.
  cbn [wf_msg]. unfold wf_config. cbn [c_index c_term c_nodes].
  repeat match goal with |- _ /\ _ => split end; try reflexivity.
  - repeat constructor.
  - cbn [map n_id]. constructor.
    + intros [H|[]]. discriminate.
    + constructor; [intros [] | constructor].
Qed.

Print Assumptions msg_roundtrip.
Print Assumptions dec_msg_strict.
Print Assumptions msg_truncation.
Print Assumptions taskres_roundtrip.
Print Assumptions taskres_truncation.
