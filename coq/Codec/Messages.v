(* Executable model of every encode/decode pair of /repo:
   messages.go (entry, requests, responses), config.go (Node, Config),
   snapshots.go (snapshotMeta), task.go (Replication, Info),
   client.go (encodeTaskResp / decodeTaskResp).
   One Gallina function per Go method, same field order.  No proofs here. *)
From Coq Require Import List NArith Bool.
From Verif Require Import Base.Bytes Codec.Parser.
Import ListNotations.
Open Scope N_scope.

(* constants read off messages.go / config.go (checked against the code by the
   correspondence run: a renumbering shows up as a byte mismatch) *)
Definition entryConfig : N := 6.
Definition unexpectedErr : N := 11.

(* ---------------------------------------------------------------- entry *)
Record entry := mkEntry { e_index : N; e_term : N; e_typ : N; e_data : bytes }.

Definition enc_entry (e : entry) : bytes :=
  wU64 (e_index e) ++ wU64 (e_term e) ++ wU8 (e_typ e) ++ wBytes (e_data e).

Definition dec_entry : parser entry :=
  i <- pU64 ;; t <- pU64 ;; ty <- pU8 ;; d <- pBytes ;; pret (mkEntry i t ty d).

(* ---------------------------------------------------------------- Node *)
Record node := mkNode { n_id : N; n_addr : bytes; n_voter : bool; n_data : bytes; n_action : N }.

Definition enc_node (n : node) : bytes :=
  wU64 (n_id n) ++ wBytes (n_addr n) ++ wBool (n_voter n) ++ wBytes (n_data n) ++ wU8 (n_action n).

Definition dec_node : parser node :=
  i <- pU64 ;; a <- pBytes ;; v <- pBool ;; d <- pBytes ;; ac <- pU8 ;; pret (mkNode i a v d ac).

(* ---------------------------------------------------------------- Config *)
(* Config.Nodes is a Go map keyed by id.  The model keeps an association list
   in insertion order: [put] overwrites an existing id in place (what
   c.Nodes[n.ID] = n does) and appends otherwise.  Go's map iteration order in
   Config.encode is arbitrary: [enc_config] encodes the list in the order
   given, and the correspondence harness hands the model the order Go used. *)
Record config := mkConfig { c_nodes : list node; c_index : N; c_term : N }.

Fixpoint put_node (n : node) (l : list node) : list node :=
  match l with
  | [] => [n]
  | m :: r => if n_id m =? n_id n then n :: r else m :: put_node n r
  end.
Definition nodes_of_list (l : list node) : list node :=
  fold_left (fun acc n => put_node n acc) l [].

Definition enc_config_data (ns : list node) : bytes :=
  wU32 (N.of_nat (length ns)) ++ concat (map enc_node ns).

(* Config.encode: an entry of type entryConfig *)
Definition config_entry (c : config) : entry :=
  mkEntry (c_index c) (c_term c) entryConfig (enc_config_data (c_nodes c)).

(* Config.decode(e): type must be entryConfig; node list parsed from e.data,
   bytes after the last node are ignored (bytes.Buffer is simply dropped) *)
Definition dec_config_data : parser (list node) :=
  sz <- pU32 ;; ns <- pRep dec_node sz ;; pret (nodes_of_list ns).

Definition config_of_entry (e : entry) : option config :=
  if e_typ e =? entryConfig then
    match dec_config_data (e_data e) with
    | Some (ns, _) => Some (mkConfig ns (e_index e) (e_term e))
    | None => None
    end
  else None.

Definition enc_config (c : config) : bytes := enc_entry (config_entry c).
Definition dec_config : parser config := pcheck dec_entry config_of_entry.

(* ---------------------------------------------------------------- requests *)
Inductive msg :=
| MEntry (e : entry)
| MIdentityReq (term src cid nid : N)
| MVoteReq (term src lastIdx lastTerm : N) (transfer : bool)
| MAppendReq (term src prevIdx prevTerm commit num : N)
| MInstallSnapReq (term src lastIdx lastTerm : N) (cfg : config) (size : N)
| MTimeoutNowReq (term src : N)
| MResp (term result : N) (op err : bytes)          (* identity/vote/installSnap/timeoutNow response *)
| MAppendResp (term result : N) (op err : bytes) (last : N)
| MNode (n : node)
| MConfig (c : config)
| MSnapMeta (index term : N) (cfg : config) (size : N)
| MReplication (id mtch unixnano : N) (errmsg : bytes) (round : N)
| MInfo (cid nid : N) (addr : bytes) (term state leader snapIdx firstIdx lastIdx lastTerm committed applied : N)
        (ccommitted clatest : config) (flrs : list msg).

Inductive kind := KEntry | KIdentityReq | KVoteReq | KAppendReq | KInstallSnapReq | KTimeoutNowReq
  | KResp | KAppendResp | KNode | KConfig | KSnapMeta | KReplication | KInfo.

Definition enc_req (term src : N) : bytes := wU64 term ++ wU64 src.

(* resp.encode: op/err strings only when result = unexpectedErr *)
Definition enc_resp (term result : N) (op err : bytes) : bytes :=
  wU64 term ++ wU8 result ++
  (if result =? unexpectedErr then wBytes op ++ wBytes err else []).

Definition dec_resp : parser (N * N * bytes * bytes) :=
  t <- pU64 ;; r <- pU8 ;;
  if r =? unexpectedErr then
    op <- pBytes ;; er <- pBytes ;; pret (t, r, op, er)
  else pret (t, r, [], []).

Definition enc_replication (id mtch unixnano : N) (errmsg : bytes) (round : N) : bytes :=
  wU64 id ++ wU64 mtch ++ wU64 unixnano ++ wBytes errmsg ++ wU64 round.

Definition dec_replication : parser msg :=
  i <- pU64 ;; m <- pU64 ;; u <- pU64 ;; e <- pBytes ;; r <- pU64 ;; pret (MReplication i m u e r).

Definition repl_id (m : msg) : N := match m with MReplication i _ _ _ _ => i | _ => 0 end.

(* info.Followers is a map keyed by ID, same treatment as Config.Nodes *)
Fixpoint put_repl (n : msg) (l : list msg) : list msg :=
  match l with
  | [] => [n]
  | m :: r => if repl_id m =? repl_id n then n :: r else m :: put_repl n r
  end.
Definition repls_of_list (l : list msg) : list msg :=
  fold_left (fun acc n => put_repl n acc) l [].

Definition enc_flr (m : msg) : bytes :=
  match m with
  | MReplication i mt u e r => enc_replication i mt u e r
  | _ => []
  end.

Definition enc_msg (m : msg) : bytes :=
  match m with
  | MEntry e => enc_entry e
  | MIdentityReq t s c n => enc_req t s ++ wU64 c ++ wU64 n
  | MVoteReq t s li lt tr => enc_req t s ++ wU64 li ++ wU64 lt ++ wBool tr
  | MAppendReq t s pi pt c n => enc_req t s ++ wU64 pi ++ wU64 pt ++ wU64 c ++ wU64 n
  | MInstallSnapReq t s li lt cfg sz => enc_req t s ++ wU64 li ++ wU64 lt ++ enc_config cfg ++ wU64 sz
  | MTimeoutNowReq t s => enc_req t s
  | MResp t r op er => enc_resp t r op er
  | MAppendResp t r op er l => enc_resp t r op er ++ wU64 l
  | MNode n => enc_node n
  | MConfig c => enc_config c
  | MSnapMeta i t cfg sz => wU64 i ++ wU64 t ++ enc_config cfg ++ wU64 sz
  | MReplication i mt u e r => enc_replication i mt u e r
  | MInfo cid nid addr term st ldr si fi li lt cm ap cc cl flrs =>
      wU64 cid ++ wU64 nid ++ wBytes addr ++ wU64 term ++ wU8 st ++ wU64 ldr ++ wU64 si ++
      wU64 fi ++ wU64 li ++ wU64 lt ++ wU64 cm ++ wU64 ap ++ enc_config cc ++ enc_config cl ++
      wU32 (N.of_nat (length flrs)) ++ concat (map enc_flr flrs)
  end.

Definition dec_info : parser msg :=
  cid <- pU64 ;; nid <- pU64 ;; addr <- pBytes ;; term <- pU64 ;; st <- pU8 ;; ldr <- pU64 ;;
  si <- pU64 ;; fi <- pU64 ;; li <- pU64 ;; lt <- pU64 ;; cm <- pU64 ;; ap <- pU64 ;;
  cc <- dec_config ;; cl <- dec_config ;; sz <- pU32 ;; fl <- pRep dec_replication sz ;;
  pret (MInfo cid nid addr term st ldr si fi li lt cm ap cc cl (repls_of_list fl)).

Definition dec_msg (k : kind) : parser msg :=
  match k with
  | KEntry => pmap MEntry dec_entry
  | KIdentityReq => t <- pU64 ;; s <- pU64 ;; c <- pU64 ;; n <- pU64 ;; pret (MIdentityReq t s c n)
  | KVoteReq => t <- pU64 ;; s <- pU64 ;; li <- pU64 ;; lt <- pU64 ;; tr <- pBool ;; pret (MVoteReq t s li lt tr)
  | KAppendReq => t <- pU64 ;; s <- pU64 ;; pi <- pU64 ;; pt <- pU64 ;; c <- pU64 ;; n <- pU64 ;;
                  pret (MAppendReq t s pi pt c n)
  | KInstallSnapReq => t <- pU64 ;; s <- pU64 ;; li <- pU64 ;; lt <- pU64 ;; cfg <- dec_config ;; sz <- pU64 ;;
                  pret (MInstallSnapReq t s li lt cfg sz)
  | KTimeoutNowReq => t <- pU64 ;; s <- pU64 ;; pret (MTimeoutNowReq t s)
  | KResp => pmap (fun x => match x with (t, r, op, er) => MResp t r op er end) dec_resp
  | KAppendResp => x <- dec_resp ;; l <- pU64 ;;
                  pret (match x with (t, r, op, er) => MAppendResp t r op er l end)
  | KNode => pmap MNode dec_node
  | KConfig => pmap MConfig dec_config
  | KSnapMeta => i <- pU64 ;; t <- pU64 ;; cfg <- dec_config ;; sz <- pU64 ;; pret (MSnapMeta i t cfg sz)
  | KReplication => dec_replication
  | KInfo => dec_info
  end.

Definition kind_of (m : msg) : kind :=
  match m with
  | MEntry _ => KEntry | MIdentityReq _ _ _ _ => KIdentityReq | MVoteReq _ _ _ _ _ => KVoteReq
  | MAppendReq _ _ _ _ _ _ => KAppendReq | MInstallSnapReq _ _ _ _ _ _ => KInstallSnapReq
  | MTimeoutNowReq _ _ => KTimeoutNowReq | MResp _ _ _ _ => KResp | MAppendResp _ _ _ _ _ => KAppendResp
  | MNode _ => KNode | MConfig _ => KConfig | MSnapMeta _ _ _ _ => KSnapMeta
  | MReplication _ _ _ _ _ => KReplication | MInfo _ _ _ _ _ _ _ _ _ _ _ _ _ _ _ => KInfo
  end.

(* ---------------------------------------------------------------- task responses *)
(* client.go encodeTaskResp writes fmt.Sprintf("%T", err) then a type specific
   payload; decodeTaskResp maps the type name back.  [tname] is the %T string. *)
Inductive taskerr :=
| TENotLeader (ldr : node) (lost : bool)       (* "raft.NotLeaderError" *)
| TEPlain (s : bytes)                          (* "raft.plainError": every exported sentinel *)
| TETemporary (s : bytes)                      (* "raft.temporaryError": ErrNotCommitReady *)
| TEInProgress (s : bytes)                     (* "raft.InProgressError" *)
| TEOther (tname s : bytes).                   (* anything else: comes back as a bare errors.New(s) *)

Inductive taskres :=
| TRErr (e : taskerr)
| TRNil
| TRU64 (n : N)
| TRConfig (c : config)
| TRInfo (i : msg).

Inductive tasktyp := TInfo | TChangeConfig | TWaitStable | TTakeSnapshot | TTransfer.

(* ASCII of the four type names recognised by decodeTaskResp *)
Definition s_NotLeaderError : bytes :=
  [114;97;102;116;46;78;111;116;76;101;97;100;101;114;69;114;114;111;114].
Definition s_plainError : bytes := [114;97;102;116;46;112;108;97;105;110;69;114;114;111;114].
Definition s_temporaryError : bytes :=
  [114;97;102;116;46;116;101;109;112;111;114;97;114;121;69;114;114;111;114].
Definition s_InProgressError : bytes :=
  [114;97;102;116;46;73;110;80;114;111;103;114;101;115;115;69;114;114;111;114].
(* InProgressError.Error() = "raft: another " ++ s ++ " in progress" *)
Definition s_another : bytes := [114;97;102;116;58;32;97;110;111;116;104;101;114;32].
Definition s_in_progress : bytes := [32;105;110;32;112;114;111;103;114;101;115;115].

Fixpoint bytes_eqb (a b : bytes) : bool :=
  match a, b with
  | [], [] => true
  | x :: a', y :: b' => (x =? y) && bytes_eqb a' b'
  | _, _ => false
  end.

Definition enc_taskres (r : taskres) : bytes :=
  match r with
  | TRErr (TENotLeader n lost) => wBytes s_NotLeaderError ++ enc_node n ++ wBool lost
  | TRErr (TEPlain s) => wBytes s_plainError ++ wBytes s
  | TRErr (TETemporary s) => wBytes s_temporaryError ++ wBytes s
  | TRErr (TEInProgress s) => wBytes s_InProgressError ++ wBytes (s_another ++ s ++ s_in_progress)
  | TRErr (TEOther tn s) => wBytes tn ++ wBytes s
  | TRNil => wBytes []
  | TRU64 n => wBytes [] ++ wU64 n
  | TRConfig c => wBytes [] ++ enc_config c
  | TRInfo i => wBytes [] ++ enc_msg i
  end.

Definition dec_taskres (t : tasktyp) : parser taskres :=
  et <- pBytes ;;
  match et with
  | [] =>
      match t with
      | TInfo => pmap TRInfo dec_info
      | TWaitStable => pmap TRConfig dec_config
      | TChangeConfig | TTransfer => pret TRNil
      | TTakeSnapshot => pmap TRU64 pU64
      end
  | _ =>
      if bytes_eqb et s_NotLeaderError then
        n <- dec_node ;; lost <- pBool ;; pret (TRErr (TENotLeader n lost))
      else
        s <- pBytes ;;
        if bytes_eqb et s_plainError then pret (TRErr (TEPlain s))
        else if bytes_eqb et s_temporaryError then pret (TRErr (TETemporary s))
        else if bytes_eqb et s_InProgressError then pret (TRErr (TEInProgress s))
        else pret (TRErr (TEOther [] s))   (* errors.New(s): the type name is gone *)
  end.

(* ---------------------------------------------------------------- well-formedness *)
(* what Go's types guarantee of a value handed to encode *)
Definition u64 (n : N) : Prop := n < two64.
Definition u8 (n : N) : Prop := n < 256.
Definition wfstr (b : bytes) : Prop := N.of_nat (length b) < two32.   (* uint32(len(b)) is exact *)

Definition wf_entry (e : entry) : Prop :=
  u64 (e_index e) /\ u64 (e_term e) /\ u8 (e_typ e) /\ wfstr (e_data e).
Definition wf_node (n : node) : Prop :=
  u64 (n_id n) /\ wfstr (n_addr n) /\ wfstr (n_data n) /\ u8 (n_action n).
(* distinct ids (it is a map), fewer than 2^32 nodes, data fits a byte string *)
Definition wf_config (c : config) : Prop :=
  u64 (c_index c) /\ u64 (c_term c) /\ Forall wf_node (c_nodes c) /\
  NoDup (map n_id (c_nodes c)) /\ wfstr (enc_config_data (c_nodes c)).
Definition wf_resp (result : N) (op err : bytes) : Prop :=
  u8 result /\ wfstr op /\ wfstr err /\ (result <> unexpectedErr -> op = [] /\ err = []).
Definition wf_flr (m : msg) : Prop :=
  match m with
  | MReplication i mt u e r => u64 i /\ u64 mt /\ u64 u /\ wfstr e /\ u64 r
  | _ => False
  end.

Definition wf_msg (m : msg) : Prop :=
  match m with
  | MEntry e => wf_entry e
  | MIdentityReq t s c n => u64 t /\ u64 s /\ u64 c /\ u64 n
  | MVoteReq t s li lt _ => u64 t /\ u64 s /\ u64 li /\ u64 lt
  | MAppendReq t s pi pt c n => u64 t /\ u64 s /\ u64 pi /\ u64 pt /\ u64 c /\ u64 n
  | MInstallSnapReq t s li lt cfg sz => u64 t /\ u64 s /\ u64 li /\ u64 lt /\ wf_config cfg /\ u64 sz
  | MTimeoutNowReq t s => u64 t /\ u64 s
  | MResp t r op er => u64 t /\ wf_resp r op er
  | MAppendResp t r op er l => u64 t /\ wf_resp r op er /\ u64 l
  | MNode n => wf_node n
  | MConfig c => wf_config c
  | MSnapMeta i t cfg sz => u64 i /\ u64 t /\ wf_config cfg /\ u64 sz
  | MReplication i mt u e r => wf_flr m
  | MInfo cid nid addr term st ldr si fi li lt cm ap cc cl flrs =>
      u64 cid /\ u64 nid /\ wfstr addr /\ u64 term /\ u8 st /\ u64 ldr /\ u64 si /\ u64 fi /\
      u64 li /\ u64 lt /\ u64 cm /\ u64 ap /\ wf_config cc /\ wf_config cl /\
      Forall wf_flr flrs /\ NoDup (map repl_id flrs) /\ N.of_nat (length flrs) < two32
  end.

Definition wf_taskerr (e : taskerr) : Prop :=
  match e with
  | TENotLeader n _ => wf_node n
  | TEPlain s | TETemporary s => wfstr s
  | TEInProgress s => wfstr (s_another ++ s ++ s_in_progress)
  | TEOther tn s => wfstr tn /\ wfstr s
  end.
