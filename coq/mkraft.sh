#!/bin/sh
# usage: mkraft.sh file1.v file2.v ... ; compiles in order, stops at first error
cd /verif/coq
for f in "$@"; do
  echo "== $f"
  timeout 900 coqc -R . Verif "$f" 2>&1 | grep -v "conda.cli" | head -${LINES_MAX:-40}
  if [ ! -f "${f}o" ] || [ "$f" -nt "${f}o" ]; then echo "FAILED $f"; exit 1; fi
done
