(* Abs/CfgExample.v  A concrete run of Abs/CfgRaft.v with V0 = [1;2;3]:
   leader 1 commits a configuration adding 4, then one removing itself, then a
   data entry under the new configuration [2;3;4] (without counting itself).
   Then follower 2 crashes (keeps its flushed log, commit index rebuilt from 0
   and restored by the next heartbeat), and leader 1 appends an entry it never
   flushes and crashes: the entry is lost, the committed ones are not. *)
From Coq Require Import List NArith Arith Lia Bool.
From Verif Require Import Abs.CfgBase Abs.CfgRaft Abs.CfgRun.
Import ListNotations.
Open Scope N_scope.

Definition V3 : list N := [1; 2; 3].
Definition noop1 : entry := (1, PData 0).
Definition c1234 : entry := (1, PCfg [1; 2; 3; 4]).
Definition c234 : entry := (1, PCfg [2; 3; 4]).
Definition d7 : entry := (1, PData 7).

Definition m1 := mkReq 1 1 0 0 [noop1] 0.
Definition m2 := mkReq 1 1 1 1 [c1234] 1.
Definition m3 := mkReq 1 1 0 0 [noop1; c1234] 1.
Definition m4 := mkReq 1 1 2 1 [c234] 2.
Definition m5 := mkReq 1 1 3 1 [d7] 3.
Definition m6 := mkReq 1 1 4 1 [] 4.

Definition sched : list action :=
  [ AStart 1; AGrant 2 1 1 []; ACount 1 1; ACount 1 2; AWin 1;
    ASend 1 0 1 0; ARecv 2 m1; AAck 1 2 1; ACommit 1 1 [1; 2];
    AReconfig 1 [1; 2; 3; 4];
    ASend 1 1 1 1; ARecv 2 m2; ASend 1 0 2 1; ARecv 4 m3;
    AAck 1 2 2; AAck 1 4 2; ACommit 1 2 [1; 2; 4];
    AReconfig 1 [2; 3; 4];
    ASend 1 2 1 2; ARecv 2 m4; ARecv 4 m4; AAck 1 2 3; AAck 1 4 3;
    ACommit 1 3 [2; 4];
    AClient 1 7;
    ASend 1 3 1 3; ARecv 2 m5; ARecv 4 m5; AAck 1 2 4; AAck 1 4 4;
    ACommit 1 4 [2; 4];
    ACrash 2 0; ASend 1 4 0 4; ARecv 2 m6;
    AClient 1 8; AFlush 4 4; ACrash 1 2 ].

Definition final : state :=
  match run V3 true sched init with Some s => s | None => init end.

Lemma final_run : run V3 true sched init = Some final.
Proof. vm_compute. reflexivity. Qed.

Lemma final_reachable : Reachable V3 final.
Proof. exact (run_sound V3 true sched init final (GR_init V3 true) final_run). Qed.

Lemma final_facts :
  In (1, 2%nat, c1234) (committed final) /\ In (1, 3%nat, c234) (committed final) /\ 
  In (1, 4%nat, d7) (committed final) /\ role (st final 1) = Follower /\
  cfg V3 final 1 = [2; 3; 4] /\ commit (st final 1) = 2%nat /\
  commit (st final 2) = 4%nat /\ log (st final 4) = [noop1; c1234; c234; d7] /\
  log (st final 1) = [noop1; c1234; c234; d7] /\ flushed (st final 1) = 4%nat /\
  log (st final 2) = [noop1; c1234; c234; d7] /\ flushed (st final 2) = 4%nat.
Proof. vm_compute. repeat split; auto 10. Qed.
