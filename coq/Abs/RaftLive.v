(* Abs/RaftLive.v  The abstract protocol never paints itself into a corner.

   From ANY reachable state, whatever happened before (crashes, lost or duplicated
   messages, competing candidates, half-replicated entries), the members of a
   majority Q can, on their own, elect one of them and commit a new entry:
   [progress_possible] exhibits the run.  Nodes outside Q take no step and no
   message has to be lost.

   The witness run, for c a member of Q whose log is maximal for [uptodate] and M a
   bound of the terms of Q:
     SBump c (M+1); SStart c                    term T = M+2, vote request out
     SGrant v T c, v in Q \ {c}                 every other member grants
     SCount c v, v in Q; SWin c                 c leads term T
     SClientAppend c p                          log L = old log of c ++ [(T,p)], k = |L|
     SSendAppend c 0 k 0; SRecvAppend v, ...    every other member adopts L, flushes, acks k
     SRecvAck c ..., SAdvance c k Q             c commits k
     SSendAppend c k 0 k; SRecvAppend v, ...    heartbeat announcing commit k
   One "phase lemma" per loop, by induction on the list of nodes to visit; each
   relates the state before and after the loop (frame + what later phases need).

   Standard library only. *)
From Coq Require Import List NArith Arith Lia Bool.
From Verif Require Import Abs.Quorum Abs.RaftBase Abs.Raft Abs.RaftVotes Abs.RaftLog Abs.RaftSafe Abs.RaftThms.
Import ListNotations.
Open Scope N_scope.

(* ---- small tools ---- *)

Lemma remove1_keep {A} (eqb : A -> A -> bool) :
  (forall a b, eqb a b = true -> a = b) ->
  forall g l x, In x l -> x <> g -> In x (remove1 eqb g l).
Proof.
  intros Heq g l x. induction l as [|y r IH]; simpl; [tauto|].
  intros [H|H] Hne.
  - subst y. destruct (eqb g x) eqn:E.
    + apply Heq in E. congruence.
    + left. reflexivity.
  - destruct (eqb g y); [exact H|]. right. apply IH; assumption.
Qed.

Lemma veqb_eq a b : veqb a b = true -> a = b.
Proof.
  destruct a as [[a1 a2] a3], b as [[b1 b2] b3]. unfold veqb. simpl. intro H.
  apply andb_prop in H. destruct H as [H H3]. apply andb_prop in H. destruct H as [H1 H2].
  apply N.eqb_eq in H1. apply N.eqb_eq in H2. apply N.eqb_eq in H3. subst. reflexivity.
Qed.

Lemma aeqb_eq a b : aeqb a b = true -> a = b.
Proof.
  destruct a as [a1 a2 a3 a4], b as [b1 b2 b3 b4]. unfold aeqb. simpl. intro H.
  apply andb_prop in H. destruct H as [H H4]. apply andb_prop in H. destruct H as [H H3].
  apply andb_prop in H. destruct H as [H1 H2].
  apply N.eqb_eq in H1. apply N.eqb_eq in H2. apply N.eqb_eq in H3. apply Nat.eqb_eq in H4.
  subst. reflexivity.
Qed.

(* [uptodate] is a total preorder: a non-empty list of nodes has a member whose log is
   at least as up to date as every other member's *)
Lemma uptodate_total A B : uptodate A B \/ uptodate B A.
Proof. unfold uptodate. lia. Qed.

Lemma uptodate_trans A B C : uptodate A B -> uptodate B C -> uptodate A C.
Proof. unfold uptodate. lia. Qed.

Lemma uptodate_refl A : uptodate A A.
Proof. unfold uptodate. lia. Qed.

Lemma max_uptodate (f : N -> list entry) : forall Q, Q <> [] ->
  exists c, In c Q /\ forall v, In v Q -> uptodate (f c) (f v).
Proof.
  induction Q as [|a Q IH]; intros Hne; [congruence|].
  destruct Q as [|b Q'].
  - exists a. split; [left; reflexivity|]. intros v [<-|[]]. apply uptodate_refl.
  - destruct IH as [c [Hc Hup]]; [discriminate|].
    destruct (uptodate_total (f a) (f c)) as [H|H].
    + exists a. split; [left; reflexivity|]. intros v [<-|Hv]; [apply uptodate_refl|].
      exact (uptodate_trans _ _ _ H (Hup v Hv)).
    + exists c. split; [right; exact Hc|]. intros v [<-|Hv]; [exact H | exact (Hup v Hv)].
Qed.

Lemma cur_bound (s : state) : forall Q, exists M, forall v, In v Q -> cur (st s v) <= M.
Proof.
  induction Q as [|a Q [M HM]].
  - exists 0. intros v [].
  - exists (N.max M (cur (st s a))). intros v [<-|Hv]; [lia|]. pose proof (HM v Hv). lia.
Qed.

(* ---- what the two requests of the run do to a follower's log ---- *)

(* the full log L, sent from index 0, to a follower whose log does not contain it *)
Lemma recv_full lg T c L :
  agree lg L -> ~ prefix L lg ->
  newlog_of lg (mkReq T c 0 0 L 0) = L /\ changed_of lg (mkReq T c 0 0 L 0) = true.
Proof.
  intros Hag Hnp. unfold newlog_of, changed_of.
  cbn [rprevIdx rents skipn firstn app].
  destruct (merge_spec lg L Hag) as [[Hp _]|[_ [Hm Hc]]]; [contradiction|].
  split; [exact Hm | exact Hc].
Qed.

(* the heartbeat anchored at the end of L, announcing commit |L|, to a follower holding L *)
Lemma recv_heartbeat T c L cv :
  (0 < length L)%nat -> lastTerm L = T -> (cv <= length L)%nat ->
  prev_ok L (length L) T = true /\
  newlog_of L (mkReq T c (length L) T [] (length L)) = L /\
  changed_of L (mkReq T c (length L) T [] (length L)) = false /\
  commit_of L cv (mkReq T c (length L) T [] (length L)) = length L.
Proof.
  intros Hpos HT Hcv. split; [|split; [|split]].
  - unfold prev_ok. rewrite Nat.leb_refl. fold (lastTerm L). rewrite HT, N.eqb_refl.
    simpl. apply orb_true_r.
  - unfold newlog_of. cbn [rprevIdx rents merge]. apply firstn_skipn.
  - unfold changed_of. cbn [rprevIdx rents merge_changed]. reflexivity.
  - unfold commit_of, commit2_of, commit1_of, changed_of.
    cbn [rprevIdx rents rcommit rprevTerm rterm merge_changed andb].
    rewrite (proj2 (Nat.ltb_lt 0 (length L)) Hpos), Nat.leb_refl, N.eqb_refl.
    cbn [andb]. destruct (Nat.ltb_spec cv (length L)) as [_|Hge]; [reflexivity | lia].
Qed.

Section Live.
Variable V : list N.

Lemma steps_trans s1 s2 s3 : steps V s1 s2 -> steps V s2 s3 -> steps V s1 s3.
Proof.
  intros H1 H2. induction H2 as [|s s' s'' _ IH Hst]; [exact H1|].
  exact (steps_step V _ _ _ (IH H1) Hst).
Qed.

(* the new entry (T, p), T above the term of v, is nowhere in v's log: the leader's new log
   agrees with v's log as far as terms coincide, and is not contained in it *)
Lemma new_log_vs_follower s c v T p :
  Reachable V s -> cur (st s v) < T ->
  agree (log (st s v)) (log (st s c) ++ [(T, p)]) /\
  ~ prefix (log (st s c) ++ [(T, p)]) (log (st s v)).
Proof.
  intros Hr Hlt. destruct (reachable_inv V s Hr) as [_ Hl]. split.
  - intros k e x He Hx Ht.
    destruct (lt_dec k (length (log (st s c)))) as [Hk|Hk].
    + rewrite nth_error_app1 in He by exact Hk.
      destruct (log_matching V s c v Hr k e x He Hx Ht) as [E _]. exact E.
    + exfalso. rewrite nth_error_app2 in He by lia.
      destruct (k - length (log (st s c)))%nat as [|j]; simpl in He.
      * inversion He; subst e. unfold eterm in Ht; simpl in Ht.
        pose proof (l_tn _ Hl v x (nth_error_In _ _ Hx)) as Hb. unfold eterm in Hb. lia.
      * destruct j; discriminate.
  - intros Hp.
    assert (Hin : In (T, p) (log (st s v))).
    { apply (prefix_incl _ _ Hp). apply in_or_app. right. left. reflexivity. }
    pose proof (l_tn _ Hl v _ Hin) as Hb. unfold eterm in Hb; simpl in Hb. lia.
Qed.

(* ---- phase 1: c moves to a term above M and asks for votes ---- *)
Lemma start_phase s c M :
  c <> 0 -> cur (st s c) <= M ->
  exists s2, steps V s s2 /\
    st s2 c = mkN (M + 1 + 1) c Candidate [] (log (st s c)) (flushed (st s c))
                  (commit (st s c)) (matchIdx (st s c)) /\
    (forall n, n <> c -> st s2 n = st s n) /\
    In (M + 1 + 1, c, c) (grants s2) /\
    In (M + 1 + 1, c, log (st s c)) (started s2).
Proof.
  intros Hc HM. exists (do_start c (do_bump c (M + 1) s)). split; [|split; [|split; [|split]]].
  - eapply steps_step; [eapply steps_step; [apply steps_refl|]|].
    + apply (SBump V s c (M + 1)). lia.
    + apply SStart; [exact Hc|]. unfold do_bump. cbn [st]. rewrite upd_eq. cbn [role]. discriminate.
  - unfold do_start, do_bump. cbn [st]. rewrite !upd_eq. reflexivity.
  - intros n Hn. unfold do_start, do_bump. cbn [st]. rewrite !upd_neq by exact Hn. reflexivity.
  - unfold do_start, do_bump. cbn [st grants]. rewrite !upd_eq. left. reflexivity.
  - unfold do_start, do_bump. cbn [st started]. rewrite !upd_eq. left. reflexivity.
Qed.

(* ---- phase 2: every node of l grants its vote of term T to c ---- *)
Lemma grant_phase c T Lc :
  c <> 0 -> forall l s1, NoDup l ->
  In (T, c, Lc) (started s1) ->
  (forall v, In v l -> cur (st s1 v) < T /\ uptodate Lc (log (st s1 v))) ->
  exists s2, steps V s1 s2 /\
    (forall n, ~ In n l -> st s2 n = st s1 n) /\
    (forall v, In v l -> cur (st s2 v) = T /\ log (st s2 v) = log (st s1 v)) /\
    (forall v, In v l -> In (T, v, c) (grants s2)) /\
    incl (grants s1) (grants s2) /\
    In (T, c, Lc) (started s2).
Proof.
  intros Hc. induction l as [|a l IH]; intros s1 Hnd Hst Hpre.
  - exists s1. split; [apply steps_refl|]. split; [reflexivity|].
    split; [intros v []|]. split; [intros v []|]. split; [apply incl_refl | exact Hst].
  - inversion Hnd as [|a' l' Ha Hnd']; subst a' l'.
    destruct (IH s1 Hnd' Hst (fun v Hv => Hpre v (or_intror Hv)))
      as [s2 [Hsteps [Hfr [Hv2 [Hg2 [Hgi Hst2]]]]]].
    destruct (Hpre a (or_introl eq_refl)) as [Hcur Hup].
    exists (do_grant a T c s2). split; [|split; [|split; [|split; [|split]]]].
    + eapply steps_step; [exact Hsteps|]. apply SGrant with (L := Lc).
      * exact Hc.
      * exact Hst2.
      * left. rewrite (Hfr a Ha). exact Hcur.
      * rewrite (Hfr a Ha). exact Hup.
    + intros n Hn. unfold do_grant. cbn [st].
      rewrite upd_neq by (intro E; apply Hn; left; symmetry; exact E).
      apply Hfr. intro H. apply Hn. right. exact H.
    + intros v [<-|Hv]; unfold do_grant; cbn [st].
      * rewrite upd_eq. cbn [cur log]. rewrite (Hfr a Ha). split; reflexivity.
      * rewrite upd_neq by (intro E; subst v; exact (Ha Hv)). exact (Hv2 v Hv).
    + intros v [<-|Hv]; unfold do_grant; cbn [grants]; [left; reflexivity|].
      right. exact (Hg2 v Hv).
    + unfold do_grant; cbn [grants]. apply incl_tl. exact Hgi.
    + exact Hst2.
Qed.

(* ---- phase 3: c counts the granted votes of the nodes of l ---- *)
Lemma count_phase c T :
  forall l s1, NoDup l -> incl l V ->
  role (st s1 c) = Candidate -> cur (st s1 c) = T ->
  (forall v, In v l -> In (T, v, c) (grants s1)) ->
  (forall v, In v l -> ~ In v (got (st s1 c))) ->
  exists s2, steps V s1 s2 /\
    (forall n, n <> c -> st s2 n = st s1 n) /\
    st s2 c = mkN T (vote (st s1 c)) Candidate (l ++ got (st s1 c)) (log (st s1 c))
                  (flushed (st s1 c)) (commit (st s1 c)) (matchIdx (st s1 c)) /\
    (forall g, In g (grants s1) -> (forall v, In v l -> g <> (T, v, c)) -> In g (grants s2)).
Proof.
  induction l as [|a l IH]; intros s1 Hnd Hincl Hrole HT Hgr Hgot.
  - exists s1. split; [apply steps_refl|]. split; [reflexivity|]. split.
    + destruct (st s1 c); simpl in *; subst; reflexivity.
    + intros g Hg _. exact Hg.
  - inversion Hnd as [|a' l' Ha Hnd']; subst a' l'.
    destruct (IH s1 Hnd' (fun v Hv => Hincl v (or_intror Hv)) Hrole HT
                 (fun v Hv => Hgr v (or_intror Hv)) (fun v Hv => Hgot v (or_intror Hv)))
      as [s2 [Hsteps [Hfr [Hc2 Hg2]]]].
    exists (do_count c a s2). split; [|split; [|split]].
    + eapply steps_step; [exact Hsteps|]. apply SCount.
      * rewrite Hc2. reflexivity.
      * apply Hincl. left. reflexivity.
      * rewrite Hc2. cbn [cur]. apply Hg2; [apply Hgr; left; reflexivity|].
        intros v Hv E. inversion E; subst v. exact (Ha Hv).
      * rewrite Hc2. cbn [got]. intro H. apply in_app_or in H. destruct H as [H|H].
        -- exact (Ha H).
        -- exact (Hgot a (or_introl eq_refl) H).
    + intros n Hn. unfold do_count. cbn [st]. rewrite upd_neq by exact Hn. exact (Hfr n Hn).
    + unfold do_count. cbn [st]. rewrite upd_eq, Hc2. reflexivity.
    + intros g Hg Hne. unfold do_count. cbn [grants]. rewrite Hc2. cbn [cur].
      apply remove1_keep; [exact veqb_eq | | apply Hne; left; reflexivity].
      apply Hg2; [exact Hg|]. intros v Hv. apply Hne. right. exact Hv.
Qed.

(* ---- phase 4: the leader c of term T sends its whole log L to every node of l ---- *)
Lemma repl_phase c T L :
  forall l s1, NoDup l -> ~ In c l ->
  role (st s1 c) = Leader -> cur (st s1 c) = T -> log (st s1 c) = L ->
  (forall v, In v l -> cur (st s1 v) <= T /\ agree (log (st s1 v)) L /\ ~ prefix L (log (st s1 v))) ->
  exists s2, steps V s1 s2 /\
    (forall n, ~ In n l -> st s2 n = st s1 n) /\
    (forall v, In v l -> cur (st s2 v) = T /\ log (st s2 v) = L /\ flushed (st s2 v) = length L) /\
    (forall v, In v l -> In (mkAck T v c (length L)) (acks s2)) /\
    incl (acks s1) (acks s2).
Proof.
  induction l as [|a l IH]; intros s1 Hnd Hcl Hrole HT HL Hpre.
  - exists s1. split; [apply steps_refl|]. split; [reflexivity|].
    split; [intros v []|]. split; [intros v [] | apply incl_refl].
  - inversion Hnd as [|a' l' Ha Hnd']; subst a' l'.
    assert (Hcl' : ~ In c l) by (intro H; apply Hcl; right; exact H).
    assert (Hca : a <> c) by (intro E; apply Hcl; left; exact E).
    destruct (IH s1 Hnd' Hcl' Hrole HT HL (fun v Hv => Hpre v (or_intror Hv)))
      as [s2 [Hsteps [Hfr [Hv2 [Hak Hai]]]]].
    destruct (Hpre a (or_introl eq_refl)) as [Hcur [Hag Hnp]].
    pose proof (Hfr c Hcl') as Hc2. pose proof (Hfr a Ha) as Ha2.
    destruct (recv_full (log (st s1 a)) T c L Hag Hnp) as [Hnl Hch].
    set (m0 := mkReq T c 0 0 L 0) in *.
    set (s3 := do_send_append c 0 (length L) 0 s2).
    assert (Hm0 : In m0 (appends s3)).
    { unfold s3, do_send_append. cbn [appends]. left. rewrite Hc2, HT, HL.
      cbn [skipn term_at]. rewrite firstn_all. reflexivity. }
    assert (Hst3 : st s3 = st s2) by reflexivity.
    exists (do_recv_ok a m0 s3). split; [|split; [|split; [|split]]].
    + eapply steps_step; [eapply steps_step; [exact Hsteps|]|].
      * apply (SSendAppend V s2 c 0 (length L) 0); [rewrite Hc2; exact Hrole | lia | lia].
      * apply SRecvAppend.
        -- exact Hm0.
        -- exact Hca.
        -- rewrite Hst3, Ha2. exact Hcur.
        -- reflexivity.
    + intros n Hn. unfold do_recv_ok. cbn [st].
      rewrite upd_neq by (intro E; apply Hn; left; symmetry; exact E).
      rewrite Hst3. apply Hfr. intro H. apply Hn. right. exact H.
    + intros v [<-|Hv]; unfold do_recv_ok; cbn [st].
      * rewrite upd_eq. cbn [cur log flushed]. rewrite Hst3, Ha2, Hnl, Hch.
        split; [reflexivity|]. split; reflexivity.
      * rewrite upd_neq by (intro E; subst v; exact (Ha Hv)). rewrite Hst3. exact (Hv2 v Hv).
    + intros v [<-|Hv]; unfold do_recv_ok; cbn [acks]; [left; reflexivity|].
      right. exact (Hak v Hv).
    + unfold do_recv_ok; cbn [acks]. apply incl_tl. exact Hai.
Qed.

(* ---- phase 5: the leader c takes delivery of the acknowledgements of the nodes of l ---- *)
Lemma ack_phase c T k :
  forall l s1, NoDup l ->
  role (st s1 c) = Leader -> cur (st s1 c) = T ->
  (forall v, In v l -> In (mkAck T v c k) (acks s1)) ->
  exists s2, steps V s1 s2 /\
    (forall n, n <> c -> st s2 n = st s1 n) /\
    st s2 c = mkN T (vote (st s1 c)) Leader (got (st s1 c)) (log (st s1 c))
                  (flushed (st s1 c)) (commit (st s1 c))
                  (map (fun v => (v, k)) l ++ matchIdx (st s1 c)) /\
    (forall a, In a (acks s1) -> (forall v, In v l -> a <> mkAck T v c k) -> In a (acks s2)).
Proof.
  induction l as [|a l IH]; intros s1 Hnd Hrole HT Hak.
  - exists s1. split; [apply steps_refl|]. split; [reflexivity|]. split.
    + destruct (st s1 c); simpl in *; subst; reflexivity.
    + intros x Hx _. exact Hx.
  - inversion Hnd as [|a' l' Ha Hnd']; subst a' l'.
    destruct (IH s1 Hnd' Hrole HT (fun v Hv => Hak v (or_intror Hv)))
      as [s2 [Hsteps [Hfr [Hc2 Hk2]]]].
    exists (do_recv_ack c (mkAck T a c k) s2). split; [|split; [|split]].
    + eapply steps_step; [exact Hsteps|]. apply SRecvAck.
      * rewrite Hc2. reflexivity.
      * apply Hk2; [apply Hak; left; reflexivity|].
        intros v Hv E. inversion E; subst v. exact (Ha Hv).
      * rewrite Hc2. reflexivity.
      * reflexivity.
    + intros n Hn. unfold do_recv_ack. cbn [st]. rewrite upd_neq by exact Hn. exact (Hfr n Hn).
    + unfold do_recv_ack. cbn [st]. rewrite upd_eq, Hc2. reflexivity.
    + intros x Hx Hne. unfold do_recv_ack. cbn [acks].
      apply remove1_keep; [exact aeqb_eq | | apply Hne; left; reflexivity].
      apply Hk2; [exact Hx|]. intros v Hv. apply Hne. right. exact Hv.
Qed.

(* ---- phase 6: the leader c, having committed |L|, tells every node of l ---- *)
Lemma heartbeat_phase c T L :
  (0 < length L)%nat -> lastTerm L = T ->
  forall l s1, NoDup l -> ~ In c l ->
  role (st s1 c) = Leader -> cur (st s1 c) = T -> log (st s1 c) = L ->
  commit (st s1 c) = length L ->
  (forall v, In v l -> cur (st s1 v) = T /\ log (st s1 v) = L /\
                       (commit (st s1 v) <= length L)%nat) ->
  exists s2, steps V s1 s2 /\
    (forall n, ~ In n l -> st s2 n = st s1 n) /\
    (forall v, In v l -> cur (st s2 v) = T /\ log (st s2 v) = L /\
                         commit (st s2 v) = length L /\ flushed (st s2 v) = flushed (st s1 v)).
Proof.
  intros Hpos HlT. induction l as [|a l IH]; intros s1 Hnd Hcl Hrole HT HL Hcm Hpre.
  - exists s1. split; [apply steps_refl|]. split; [reflexivity | intros v []].
  - inversion Hnd as [|a' l' Ha Hnd']; subst a' l'.
    assert (Hcl' : ~ In c l) by (intro H; apply Hcl; right; exact H).
    assert (Hca : a <> c) by (intro E; apply Hcl; left; exact E).
    destruct (IH s1 Hnd' Hcl' Hrole HT HL Hcm (fun v Hv => Hpre v (or_intror Hv)))
      as [s2 [Hsteps [Hfr Hv2]]].
    destruct (Hpre a (or_introl eq_refl)) as [Hcur [Hlog Hcv]].
    pose proof (Hfr c Hcl') as Hc2. pose proof (Hfr a Ha) as Ha2.
    destruct (recv_heartbeat T c L (commit (st s1 a)) Hpos HlT Hcv) as [Hpo [Hnl [Hch Hco]]].
    set (m1 := mkReq T c (length L) T [] (length L)) in *.
    set (s3 := do_send_append c (length L) 0 (length L) s2).
    assert (Hm1 : In m1 (appends s3)).
    { unfold s3, do_send_append. cbn [appends]. left. rewrite Hc2, HT, HL.
      cbn [firstn]. fold (lastTerm L). rewrite HlT. reflexivity. }
    assert (Hst3 : st s3 = st s2) by reflexivity.
    exists (do_recv_ok a m1 s3). split; [|split].
    + eapply steps_step; [eapply steps_step; [exact Hsteps|]|].
      * apply (SSendAppend V s2 c (length L) 0 (length L));
          [rewrite Hc2; exact Hrole | rewrite Hc2, HL; lia | rewrite Hc2, Hcm; lia].
      * apply SRecvAppend.
        -- exact Hm1.
        -- exact Hca.
        -- rewrite Hst3, Ha2, Hcur. cbn [m1 rterm]. lia.
        -- rewrite Hst3, Ha2, Hlog. exact Hpo.
    + intros n Hn. unfold do_recv_ok. cbn [st].
      rewrite upd_neq by (intro E; apply Hn; left; symmetry; exact E).
      rewrite Hst3. apply Hfr. intro H. apply Hn. right. exact H.
    + intros v [<-|Hv]; unfold do_recv_ok; cbn [st].
      * rewrite upd_eq. cbn [cur log flushed commit]. rewrite Hst3, Ha2, Hlog, Hnl, Hch, Hco.
        split; [reflexivity|]. split; [reflexivity|]. split; reflexivity.
      * rewrite upd_neq by (intro E; subst v; exact (Ha Hv)). rewrite Hst3. exact (Hv2 v Hv).
Qed.

End Live.

(* ---- the theorem ---- *)

Theorem progress_possible : forall V Q s p,
  majority V Q -> ~ In 0 Q -> Reachable V s ->
  exists s' l, steps V s s' /\ In l Q /\ role (st s' l) = Leader /\
    (forall v, In v Q -> cur (st s v) < cur (st s' l)) /\
    (exists c, In c Q /\ log (st s' l) = log (st s c) ++ [(cur (st s' l), p)]) /\
    (forall v, In v Q ->
       cur (st s' v) = cur (st s' l) /\ log (st s' v) = log (st s' l) /\
       commit (st s' v) = length (log (st s' l)) /\ flushed (st s' v) = length (log (st s' l))).
Proof.
  intros V Q s p HQ H0 Hr.
  pose proof HQ as [Hnd [Hincl Hlen]].
  assert (HQne : Q <> []) by (intro E; subst Q; simpl in Hlen; lia).
  destruct (max_uptodate (fun n => log (st s n)) Q HQne) as [c [HcQ Hup]]. cbv beta in Hup.
  destruct (cur_bound s Q) as [M HM].
  assert (Hc0 : c <> 0) by (intro E; subst c; exact (H0 HcQ)).
  pose proof (commit_le_flushed V s c Hr) as [Hcf Hfl].
  set (F := filter (fun v => negb (v =? c)) Q).
  assert (HF : forall v, In v F <-> In v Q /\ v <> c).
  { intro v. unfold F. rewrite filter_In, negb_true_iff, N.eqb_neq. tauto. }
  assert (HFnd : NoDup F) by (apply NoDup_filter; exact Hnd).
  assert (HcF : ~ In c F) by (intro H; apply HF in H; tauto).
  assert (HQF : forall v, In v Q -> v = c \/ In v F).
  { intros v Hv. destruct (N.eq_dec v c) as [E|E]; [left; exact E | right; apply HF; tauto]. }
  assert (HFc : forall v, In v F -> v <> c) by (intros v Hv; apply HF in Hv; tauto).
  (* phase 1: candidate *)
  destruct (start_phase V s c M Hc0 (HM c HcQ)) as [s2 [St2 [Hc2 [Hfr2 [Hg2 Hs2]]]]].
  set (T := M + 1 + 1) in *.
  assert (HTgt : forall v, In v Q -> cur (st s v) < T)
    by (intros v Hv; pose proof (HM v Hv); unfold T; lia).
  clearbody T. clear M HM.
  set (Lc := log (st s c)) in *. set (fc := flushed (st s c)) in *.
  set (cc := commit (st s c)) in *. set (mc := matchIdx (st s c)) in *.
  (* phase 2: votes *)
  destruct (grant_phase V c T Lc Hc0 F s2 HFnd Hs2) as [s3 [St3 [Hfr3 [Hv3 [Hg3 [Hgi3 _]]]]]].
  { intros v Hv. apply HF in Hv. destruct Hv as [HvQ Hvc]. rewrite (Hfr2 v Hvc).
    split; [exact (HTgt v HvQ) | exact (Hup v HvQ)]. }
  assert (Hc3 : st s3 c = mkN T c Candidate [] Lc fc cc mc) by (rewrite (Hfr3 c HcF); exact Hc2).
  assert (Hfol3 : forall v, In v F -> cur (st s3 v) = T /\ log (st s3 v) = log (st s v)).
  { intros v Hv. destruct (Hv3 v Hv) as [E1 E2]. rewrite (Hfr2 v (HFc v Hv)) in E2.
    split; assumption. }
  (* phase 3: count, win *)
  destruct (count_phase V c T Q s3 Hnd Hincl) as [s4 [St4 [Hfr4 [Hc4 _]]]].
  { rewrite Hc3. reflexivity. }
  { rewrite Hc3. reflexivity. }
  { intros v Hv. destruct (HQF v Hv) as [->|HvF]; [apply Hgi3; exact Hg2 | exact (Hg3 v HvF)]. }
  { intros v _. rewrite Hc3. cbn [got]. intros []. }
  rewrite Hc3 in Hc4. cbn [vote got log flushed commit matchIdx] in Hc4. rewrite app_nil_r in Hc4.
  set (s5 := do_win c s4).
  assert (St5 : step V s4 s5).
  { apply SWin; rewrite Hc4; [reflexivity | exact Hlen]. }
  assert (Hc5 : st s5 c = mkN T c Leader Q Lc fc cc []).
  { unfold s5, do_win. cbn [st]. rewrite upd_eq, Hc4. reflexivity. }
  assert (Hfr5 : forall n, n <> c -> st s5 n = st s4 n).
  { intros n Hn. unfold s5, do_win. cbn [st]. rewrite upd_neq by exact Hn. reflexivity. }
  (* the new entry *)
  set (L := Lc ++ [(T, p)]).
  set (s6 := do_client_append c p s5).
  assert (St6 : step V s5 s6) by (apply SClientAppend; rewrite Hc5; reflexivity).
  assert (Hc6 : st s6 c = mkN T c Leader Q L fc cc []).
  { unfold s6, do_client_append. cbn [st]. rewrite upd_eq, Hc5. reflexivity. }
  assert (Hfr6 : forall n, n <> c -> st s6 n = st s5 n).
  { intros n Hn. unfold s6, do_client_append. cbn [st]. rewrite upd_neq by exact Hn. reflexivity. }
  assert (Hfol6 : forall v, In v F -> cur (st s6 v) = T /\ log (st s6 v) = log (st s v)).
  { intros v Hv. pose proof (HFc v Hv) as Hvc.
    rewrite (Hfr6 v Hvc), (Hfr5 v Hvc), (Hfr4 v Hvc). exact (Hfol3 v Hv). }
  assert (HlenL : length L = S (length Lc)) by (unfold L; rewrite app_length; simpl; lia).
  assert (HlastL : lastTerm L = T) by (unfold L; rewrite lastTerm_snoc; reflexivity).
  (* phase 4: replication *)
  destruct (repl_phase V c T L F s6 HFnd HcF) as [s7 [St7 [Hfr7 [Hv7 [Hak7 _]]]]].
  { rewrite Hc6. reflexivity. }
  { rewrite Hc6. reflexivity. }
  { rewrite Hc6. reflexivity. }
  { intros v Hv. destruct (Hfol6 v Hv) as [E1 E2]. rewrite E1, E2. split; [lia|].
    apply (new_log_vs_follower V s c v T p Hr). apply HTgt. apply HF in Hv. tauto. }
  assert (Hc7 : st s7 c = mkN T c Leader Q L fc cc []) by (rewrite (Hfr7 c HcF); exact Hc6).
  (* phase 5: acknowledgements, leader commit *)
  destruct (ack_phase V c T (length L) F s7 HFnd) as [s8 [St8 [Hfr8 [Hc8 _]]]].
  { rewrite Hc7. reflexivity. }
  { rewrite Hc7. reflexivity. }
  { exact Hak7. }
  rewrite Hc7 in Hc8. cbn [vote got log flushed commit matchIdx] in Hc8.
  set (s9 := do_advance c (length L) s8).
  assert (St9 : step V s8 s9).
  { apply SAdvance with (Q := Q).
    - rewrite Hc8. reflexivity.
    - rewrite Hc8. cbn [commit log]. lia.
    - rewrite Hc8. cbn [log cur]. exact HlastL.
    - exact HQ.
    - intros v Hv. destruct (HQF v Hv) as [E|HvF]; [left; exact E | right].
      rewrite Hc8. cbn [matchIdx]. exists (length L). split; [|lia].
      apply in_or_app. left. apply in_map_iff. exists v. split; [reflexivity | exact HvF]. }
  assert (Hc9 : st s9 c = mkN T c Leader Q L (length L) (length L)
                              (map (fun v => (v, length L)) F ++ [])).
  { unfold s9, do_advance. cbn [st]. rewrite upd_eq, Hc8. cbn [cur vote role got log flushed matchIdx].
    rewrite Nat.max_r by lia. reflexivity. }
  assert (Hfr9 : forall n, n <> c -> st s9 n = st s8 n).
  { intros n Hn. unfold s9, do_advance. cbn [st]. rewrite upd_neq by exact Hn. reflexivity. }
  assert (Ss9 : steps V s s9).
  { eapply steps_step; [|exact St9].
    apply (steps_trans V _ s7); [|exact St8].
    apply (steps_trans V _ s6); [|exact St7].
    eapply steps_step; [|exact St6]. eapply steps_step; [|exact St5].
    apply (steps_trans V _ s3); [|exact St4].
    apply (steps_trans V _ s2); [exact St2 | exact St3]. }
  pose proof (reachable_steps V s s9 Hr Ss9) as Hr9.
  assert (Hfol9 : forall v, In v F -> cur (st s9 v) = T /\ log (st s9 v) = L /\
                    (commit (st s9 v) <= length L)%nat /\ flushed (st s9 v) = length L).
  { intros v Hv. pose proof (HFc v Hv) as Hvc.
    pose proof (commit_le_flushed V s9 v Hr9) as [A _].
    rewrite (Hfr9 v Hvc), (Hfr8 v Hvc) in *. destruct (Hv7 v Hv) as [E1 [E2 E3]].
    split; [exact E1|]. split; [exact E2|]. split; [lia | exact E3]. }
  (* phase 6: the followers learn the commit index *)
  destruct (heartbeat_phase V c T L ltac:(lia) HlastL F s9 HFnd HcF) as [s10 [St10 [Hfr10 Hv10]]].
  { rewrite Hc9. reflexivity. }
  { rewrite Hc9. reflexivity. }
  { rewrite Hc9. reflexivity. }
  { rewrite Hc9. reflexivity. }
  { intros v Hv. destruct (Hfol9 v Hv) as [E1 [E2 [E3 _]]]. split; [exact E1|]. split; assumption. }
  assert (Hc10 : st s10 c = mkN T c Leader Q L (length L) (length L)
                               (map (fun v => (v, length L)) F ++ []))
    by (rewrite (Hfr10 c HcF); exact Hc9).
  exists s10, c. split; [exact (steps_trans V _ _ _ Ss9 St10)|]. split; [exact HcQ|].
  rewrite Hc10. cbn [role cur log]. split; [reflexivity|]. split; [exact HTgt|]. split.
  - exists c. split; [exact HcQ | reflexivity].
  - intros v Hv. destruct (HQF v Hv) as [->|HvF].
    + rewrite Hc10. cbn [cur log commit flushed]. repeat split; reflexivity.
    + destruct (Hv10 v HvF) as [E1 [E2 [E3 E4]]]. destruct (Hfol9 v HvF) as [_ [_ [_ E5]]].
      split; [exact E1|]. split; [exact E2|]. split; [exact E3|]. rewrite E4. exact E5.
Qed.

(* the full voter set, when it is duplicate-free, is such a majority *)
Corollary progress_possible_all : forall V s (p : N),
  NoDup V -> V <> [] -> ~ In 0 V -> Reachable V s ->
  exists s' l, steps V s s' /\ In l V /\ role (st s' l) = Leader /\
    forall v, In v V -> log (st s' v) = log (st s' l) /\ commit (st s' v) = length (log (st s' l)).
Proof.
  intros V s p Hnd Hne H0 Hr.
  assert (HQ : majority V V).
  { split; [exact Hnd|]. split; [apply incl_refl|]. destruct V; [congruence | simpl; lia]. }
  destruct (progress_possible V V s p HQ H0 Hr) as [s' [l [Hs [Hl [Hrole [_ [_ Hall]]]]]]].
  exists s', l. split; [exact Hs|]. split; [exact Hl|]. split; [exact Hrole|].
  intros v Hv. destruct (Hall v Hv) as [_ [E2 [E3 _]]]. split; assumption.
Qed.

Print Assumptions progress_possible.
Print Assumptions progress_possible_all.
