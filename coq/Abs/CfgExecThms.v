(* Abs/CfgExecThms.v  The safety theorems of Abs/CfgInvAll.v carried over to the
   observations of an accepted history (Abs/CfgExec.v). *)
From Coq Require Import List NArith Arith Lia Bool.
From Verif Require Import Abs.Quorum Abs.RaftBase Abs.CfgQuorum Abs.CfgBase Abs.CfgRaft
  Abs.CfgRun Abs.CfgInvDefs Abs.CfgInvAll Abs.CfgExec.
Import ListNotations.
Open Scope N_scope.

Section Thms.
Variable V0 : list N.
Hypothesis V0_nodup : NoDup V0.
Variables (h : list item) (acts : list action) (os : list (N * obs)) (s : state).
Hypothesis Hrun : run_hist V0 (h ++ [(acts, os)]) = HOk s.

Lemma last_reachable : Reachable V0 s.
Proof. exact (run_hist_reachable V0 _ s Hrun). Qed.

Lemma last_obs n o : In (n, o) os ->
  cur (st s n) = o_cur o /\ log (st s n) = o_log o /\
  (o_commit o <= commit (st s n))%nat /\
  (o_role o = Leader -> role (st s n) = Leader) /\
  (o_role o = Candidate -> role (st s n) = Candidate) /\
  flushed (st s n) = o_flushed o.
Proof.
  intro Hin. apply obs_okb_ok. exact (run_hist_last_obs V0 h acts os s Hrun _ Hin).
Qed.

Theorem observed_cfg_state_machine_safety n o m o' i :
  In (n, o) os -> In (m, o') os ->
  (1 <= i)%nat -> (i <= o_commit o)%nat -> (i <= o_commit o')%nat ->
  exists e, nth_error (o_log o) (i - 1) = Some e /\ nth_error (o_log o') (i - 1) = Some e.
Proof.
  intros H1 H2 Hi Hc1 Hc2.
  destruct (last_obs n o H1) as [_ [L1 [C1 _]]].
  destruct (last_obs m o' H2) as [_ [L2 [C2 _]]].
  rewrite <- L1, <- L2.
  apply (state_machine_safety V0 V0_nodup s n m i last_reachable); lia.
Qed.

Theorem observed_cfg_one_leader_per_term n o m o' :
  In (n, o) os -> In (m, o') os ->
  o_role o = Leader -> o_role o' = Leader -> o_cur o = o_cur o' -> n = m.
Proof.
  intros H1 H2 R1 R2 Hc.
  destruct (last_obs n o H1) as [T1 [_ [_ [Ld1 _]]]].
  destruct (last_obs m o' H2) as [T2 [_ [_ [Ld2 _]]]].
  destruct (reachable_inv V0 V0_nodup s last_reachable) as [_ X].
  destruct (v_ldr s X n (Ld1 R1)) as [Lt1 [E1 _]].
  destruct (v_ldr s X m (Ld2 R2)) as [Lt2 [E2 _]].
  rewrite T1 in E1. rewrite T2, <- Hc in E2.
  exact (election_safety V0 V0_nodup s _ _ _ _ _ last_reachable E1 E2).
Qed.

Theorem observed_cfg_log_matching n o m o' i :
  In (n, o) os -> In (m, o') os ->
  (0 < i)%nat -> (i <= length (o_log o))%nat -> (i <= length (o_log o'))%nat ->
  term_at (o_log o) i = term_at (o_log o') i ->
  firstn i (o_log o) = firstn i (o_log o').
Proof.
  intros H1 H2.
  destruct (last_obs n o H1) as [_ [L1 _]].
  destruct (last_obs m o' H2) as [_ [L2 _]].
  rewrite <- L1, <- L2.
  apply (log_matching V0 V0_nodup s n m i last_reachable).
Qed.

(* what a node reports as committed is within what it reports as durable *)
Theorem observed_cfg_commit_durable n o :
  In (n, o) os -> (o_commit o <= o_flushed o <= length (o_log o))%nat.
Proof.
  intro H. destruct (last_obs n o H) as [_ [L1 [C1 [_ [_ F1]]]]].
  pose proof (commit_le_flushed V0 V0_nodup s n last_reachable) as Hc.
  rewrite <- F1, <- L1. lia.
Qed.

End Thms.
