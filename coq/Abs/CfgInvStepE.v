(* Abs/CfgInvStepE.v  Invariant preservation: a follower accepts AppendEntries. *)
From Coq Require Import List NArith Arith Lia Bool.
From Verif Require Import Abs.Quorum Abs.RaftBase Abs.CfgQuorum Abs.CfgBase Abs.CfgRaft
  Abs.CfgInvDefs Abs.CfgInvT Abs.CfgInvFrame Abs.CfgInvStepA.
Import ListNotations.
Open Scope N_scope.

Lemma nth_error_skipn' {A} (L : list A) : forall n j, nth_error (skipn n L) j = nth_error L (n + j).
Proof.
  induction L as [|a L IH]; intros n j.
  - rewrite skipn_nil. destruct j, n; reflexivity.
  - destruct n as [|n]; simpl; [reflexivity | apply IH].
Qed.

Section StepE.
Variable V0 : list N.
Hypothesis V0_nodup : NoDup V0.

(* shape of the follower's new log *)
Lemma recv_shape s f m :
  inv V0 s -> In m (appends s) ->
  prev_ok (log (st s f)) (rprevIdx m) (rprevTerm m) = true ->
  let X' := firstn (rprevIdx m) (log (st s f)) ++ rents m in
  exists K0, In K0 (created s) /\ lastTerm K0 = rterm m /\ prefix X' K0 /\
    length X' = (rprevIdx m + length (rents m))%nat /\
    ((recv_log (log (st s f)) (rprevIdx m) (rents m) = log (st s f) /\ prefix X' (log (st s f))) \/
     (recv_log (log (st s f)) (rprevIdx m) (rents m) = X' /\ ~ prefix X' (log (st s f)))).
Proof.
  intros [F X] Hm Hprev X'.
  destruct (m_ok s X m Hm) as [K0 [HK0 [HlK0 [Hpi [Hpt HpK0]]]]].
  set (lg := log (st s f)) in *. set (pi := rprevIdx m) in *. set (es := rents m) in *.
  assert (Hwf : wf (created s) lg) by apply (n_wf s X).
  assert (HwK : wf (created s) K0) by (apply (created_wf V0 s F); exact HK0).
  assert (Hpl : (pi <= length lg)%nat /\ firstn pi lg = firstn pi K0).
  { unfold prev_ok in Hprev. apply orb_true_iff in Hprev. destruct Hprev as [H0|H1].
    - apply Nat.eqb_eq in H0. fold pi in H0. rewrite H0. split; [lia | reflexivity].
    - apply andb_true_iff in H1. destruct H1 as [H1 H2]. apply Nat.leb_le in H1. apply N.eqb_eq in H2.
      fold pi lg in H1, H2. split; [exact H1|].
      destruct (Nat.eq_dec pi 0) as [->|Hne]; [reflexivity|].
      apply (wf_match (created s) lg K0 pi (f_chain V0 s F) Hwf HwK); try lia; try congruence. }
  destruct Hpl as [Hpl Hfe].
  assert (HX' : prefix X' K0) by (unfold X'; fold lg pi es; rewrite Hfe; exact HpK0).
  assert (Hag : agree (skipn pi lg) es).
  { intros j e x He Hx Ht. rewrite nth_error_skipn' in Hx.
    assert (HeK : nth_error K0 (pi + j) = Some e).
    { rewrite <- (prefix_nth _ _ (pi + j) HpK0).
      - rewrite nth_error_app2 by (rewrite firstn_length_le' by lia; lia).
        rewrite firstn_length_le' by lia. replace (pi + j - pi)%nat with j by lia. exact He.
      - rewrite app_length, firstn_length_le' by lia.
        assert (j < length es)%nat by (apply nth_error_Some; congruence). lia. }
    symmetry. apply (wf_match_entry (created s) lg K0 (pi + j) x e (f_chain V0 s F) Hwf HwK Hx HeK).
    congruence. }
  exists K0. split; [exact HK0|]. split; [exact HlK0|]. split; [exact HX'|]. split.
  - unfold X'. fold lg pi es. rewrite app_length, firstn_length_le' by lia. reflexivity.
  - destruct (recv_log_spec lg pi es Hpl Hag) as [[H1 H2]|[H1 H2]]; [left | right]; split; assumption.
Qed.

Lemma keep_prefix (C lg X' lg' : list entry) :
  prefix C lg -> comparable C X' ->
  (lg' = lg /\ prefix X' lg) \/ (lg' = X' /\ ~ prefix X' lg) -> prefix C lg'.
Proof.
  intros HC Hcmp [[-> _]|[-> Hn]]; [exact HC|].
  destruct Hcmp as [H|H]; [exact H|]. exfalso. apply Hn. apply (prefix_trans _ C); assumption.
Qed.

Lemma facts_recv s f m :
  inv V0 s -> cur (st s f) <= rterm m -> facts V0 (do_recv f m s).
Proof.
  intros [F X] Hcur.
  apply (facts_frame V0 s _ F); simpl; try reflexivity; try apply incl_refl;
    try (apply incl_tl, incl_refl).
  - exact (f_st V0 s F).
  - exact (f_st_one V0 s F).
  - exact (f_one V0 s F).
  - intros t0 n L v He Hv. apply ev_mono; [apply incl_refl|].
    intros tc i K [Ha|Ha] Ht HK Hl Hlen; simpl in *; [|split; assumption].
    exfalso. inversion Ha. subst tc v i. pose proof (v_le s X _ _ _ Hv). lia.
Qed.

(* the committed prefix of the follower survives *)
Lemma recv_committed_kept s f m K0 lg' :
  inv V0 s -> In m (appends s) -> cur (st s f) <= rterm m ->
  In K0 (created s) -> lastTerm K0 = rterm m ->
  let X' := firstn (rprevIdx m) (log (st s f)) ++ rents m in
  prefix X' K0 ->
  (lg' = log (st s f) /\ prefix X' (log (st s f))) \/ (lg' = X' /\ ~ prefix X' (log (st s f))) ->
  prefix (firstn (commit (st s f)) (log (st s f))) lg'.
Proof.
  intros [F X] Hm Hcur HK0 HlK0 X' HX' Hcase.
  destruct (k_nc s X f) as [H0|[tn [kn [Mn [Hc [Htn [Hcn Hfe]]]]]]].
  { rewrite H0. apply prefix_nil. }
  apply (keep_prefix _ (log (st s f)) X' lg'); [apply firstn_prefix | | exact Hcase].
  rewrite Hfe.
  assert (HCM : prefix (firstn (commit (st s f)) Mn) (firstn kn Mn)) by (apply prefix_firstn_le; exact Hcn).
  destruct (f_cmt V0 s F _ _ _ Hc) as [HMn [HlMn _]].
  destruct (N.eq_dec tn (rterm m)) as [Heq|Hne].
  - assert (Hcmp : comparable Mn K0) by (apply (f_chain V0 s F); [assumption..|congruence]).
    destruct Hcmp as [Hp|Hp].
    + apply (prefix_comparable _ _ K0); [|exact HX'].
      apply (prefix_trans _ Mn); [apply firstn_prefix | exact Hp].
    + apply (prefix_comparable _ _ Mn); [apply firstn_prefix|].
      apply (prefix_trans _ K0); assumption.
  - destruct (v_msg s X m Hm) as [Lt He].
    pose proof (T2 V0 V0_nodup s F _ _ _ He tn kn Mn Hc ltac:(lia)) as HP.
    pose proof (created_ext V0 s F K0 _ _ Lt HK0 HlK0 He) as Hext.
    apply (prefix_comparable _ _ K0); [|exact HX'].
    apply (prefix_trans _ (firstn kn Mn)); [exact HCM|]. apply (prefix_trans _ Lt); [exact HP|].
    apply (prefix_trans _ (Lt ++ [noop (rterm m)])); [apply prefix_app | exact Hext].
Qed.

(* two prefixes of created logs of one term are comparable *)
Lemma same_term_comparable s K K0 (X' : list entry) :
  facts V0 s -> In K (created s) -> In K0 (created s) -> lastTerm K = lastTerm K0 ->
  prefix X' K0 -> comparable K X'.
Proof.
  intros F HK HK0 Hl HX'.
  destruct (f_chain V0 s F K K0 HK HK0 Hl) as [Hp|Hp].
  - apply (prefix_comparable _ _ K0); assumption.
  - right. apply (prefix_trans _ K0); assumption.
Qed.

(* what the follower acknowledged earlier survives, unless a leader it has
   followed since lacked it *)
Lemma recv_ack_kept s f m K0 lg' tc i K :
  inv V0 s -> In m (appends s) -> cur (st s f) <= rterm m ->
  In K0 (created s) -> lastTerm K0 = rterm m ->
  let X' := firstn (rprevIdx m) (log (st s f)) ++ rents m in
  prefix X' K0 ->
  (lg' = log (st s f) /\ prefix X' (log (st s f))) \/ (lg' = X' /\ ~ prefix X' (log (st s f))) ->
  In (tc, f, i) (acks s) -> In K (created s) -> lastTerm K = tc -> (length K <= i)%nat ->
  (forall u' n' L', In (u', n', L') (elected s) -> tc < u' -> u' <= rterm m -> prefix K L') ->
  prefix K lg'.
Proof.
  intros [F X] Hm Hcur HK0 HlK0 X' HX' Hcase Ha HK HlK Hlen Hhyp.
  destruct (a_ok s X _ _ _ Ha) as [Htc _].
  apply (keep_prefix K (log (st s f)) X' lg'); [| | exact Hcase].
  - apply (s_ack s X tc f i K Ha HK HlK Hlen). intros u' n' L' He H1 H2.
    apply (Hhyp u' n' L' He H1). lia.
  - destruct (N.eq_dec tc (rterm m)) as [Heq|Hne].
    + apply (same_term_comparable s K K0 X' F HK HK0); [congruence | exact HX'].
    + destruct (v_msg s X m Hm) as [Lt He].
      pose proof (created_ext V0 s F K0 _ _ Lt HK0 HlK0 He) as Hext.
      apply (prefix_comparable _ _ K0); [|exact HX'].
      apply (prefix_trans _ Lt); [apply (Hhyp _ _ _ He); lia|].
      apply (prefix_trans _ (Lt ++ [noop (rterm m)])); [apply prefix_app | exact Hext].
Qed.

(* the part of the request below its commit index is committed *)
Lemma recv_new_commit s m K0 (X' : list entry) c :
  inv V0 s -> In m (appends s) -> In K0 (created s) -> lastTerm K0 = rterm m ->
  prefix X' K0 -> (c <= rcommit m)%nat -> (c <= length X')%nat ->
  c = 0%nat \/ exists t k M, In (t, k, M) (cmts s) /\ t <= rterm m /\ (c <= k)%nat /\
                 firstn c X' = firstn c M.
Proof.
  intros [F X] Hm HK0 HlK0 HX' Hc1 Hc2.
  destruct (m_c s X m Hm) as [H0|[t [k [M [K [Hc [Ht [Hk [HK [HlK [HrK Hfe]]]]]]]]]]]; [left; lia|].
  right. exists t, k, M. split; [exact Hc|]. split; [exact Ht|]. split; [lia|].
  pose proof (prefix_length _ _ HX') as HlX.
  rewrite (prefix_firstn_firstn X' K0 c HX' Hc2).
  assert (H1 : firstn c K0 = firstn c K).
  { destruct (f_chain V0 s F K K0 HK HK0 ltac:(congruence)) as [Hp|Hp].
    - symmetry. apply (prefix_firstn_firstn K K0 c Hp). lia.
    - apply (prefix_firstn_firstn K0 K c Hp). lia. }
  rewrite H1.
  assert (Hf : forall Y : list entry, firstn c Y = firstn c (firstn (rcommit m) Y)).
  { intro Y. rewrite firstn_firstn. f_equal. lia. }
  rewrite (Hf K), (Hf M), Hfe. reflexivity.
Qed.

Lemma xinv_recv s f m :
  inv V0 s -> In m (appends s) -> cur (st s f) <= rterm m -> rldr m <> f ->
  prev_ok (log (st s f)) (rprevIdx m) (rprevTerm m) = true -> xinv (do_recv f m s).
Proof.
  intros I Hm Hcur Hldr Hprev.
  destruct (recv_shape s f m I Hm Hprev) as [K0 [HK0 [HlK0 [HX' [HlX' Hcase]]]]].
  pose proof (recv_committed_kept s f m K0 _ I Hm Hcur HK0 HlK0 HX'
                ltac:(destruct Hcase as [[H1 H2]|[H1 H2]]; [left|right]; split; eassumption)) as HCk.
  pose proof (fun tc i K => recv_ack_kept s f m K0 _ tc i K I Hm Hcur HK0 HlK0 HX'
                ltac:(destruct Hcase as [[H1 H2]|[H1 H2]]; [left|right]; split; eassumption)) as HAk.
  pose proof (fun c => recv_new_commit s m K0 _ c I Hm HK0 HlK0 HX') as HNc.
  destruct I as [F X].
  unfold do_recv. cbv zeta.
  set (X' := firstn (rprevIdx m) (log (st s f)) ++ rents m) in *.
  remember (recv_log (log (st s f)) (rprevIdx m) (rents m)) as lg' eqn:Elg.
  assert (HXl : prefix X' lg').
  { destruct Hcase as [[-> H]|[-> _]]; [exact H | apply prefix_refl]. }
  assert (Hwf' : wf (created s) lg').
  { destruct Hcase as [[-> _]|[-> _]]; [apply (n_wf s X)|].
    apply (wf_prefix _ X' K0); [apply (created_wf V0 s F); exact HK0 | exact HX']. }
  assert (Hmono' : mono lg').
  { destruct Hcase as [[-> _]|[-> _]]; [apply (n_mono s X)|].
    apply (mono_prefix X' K0 HX'). apply (f_cmono V0 s F K0 HK0). }
  assert (HlT' : lastTerm lg' <= rterm m).
  { destruct Hcase as [[-> _]|[-> _]]; [pose proof (n_term s X f); lia|].
    destruct X' as [|x X'']; [rewrite lastTerm_nil; lia|]. rewrite <- HlK0.
    apply lastTerm_le_prefix; [exact HX' | apply (f_cmono V0 s F K0 HK0) | discriminate]. }
  clear Hcase Elg.
  constructor; simpl; try xfield X; xstep X.
  - assert (E : cur (st s f) = t) by lia.
    destruct (N.ltb_spec (cur (st s f)) (rterm m)); [lia|]. apply (v_cur s X t f c H E).
  - exact Hwf'.
  - exact Hmono'.
  - split; [reflexivity|]. exists K0. split; [exact HK0|]. split; [exact HlK0|].
    rewrite <- HlX'. apply (prefix_length _ _ HX').
  - match goal with H : In (_, f, _) (acks s) |- _ => destruct (a_ok s X _ _ _ H) as [_ HK] end.
    split; [lia | exact HK].
  - right. xauto X.
  - apply (prefix_trans _ X'); [|exact HXl].
    apply comparable_length; [|rewrite HlX'; assumption].
    apply (same_term_comparable s K K0 X' F); try assumption. congruence.
  - eapply HAk; eassumption.
  - pose proof (prefix_length _ _ HCk) as H1. rewrite firstn_length_le' in H1 by (apply (k_len s X)).
    pose proof (prefix_length _ _ HXl) as H2. rewrite HlX' in H2. lia.
  - pose proof (prefix_length _ _ HCk) as Hl1. rewrite firstn_length_le' in Hl1 by (apply (k_len s X)).
    pose proof (prefix_length _ _ HXl) as Hl2. rewrite HlX' in Hl2.
    set (cn := commit (st s f)) in *.
    match goal with |- context [Nat.max cn ?c] => set (c2 := c) in * end.
    destruct (Nat.max_spec cn c2) as [[Hlt ->]|[Hge ->]].
    + destruct (HNc c2 ltac:(unfold c2; lia) ltac:(rewrite HlX'; unfold c2; lia))
        as [H0|[t [k [M [H1 [H2 [H3 H4]]]]]]]; [left; exact H0|].
      right. exists t, k, M. split; [exact H1|]. split; [exact H2|]. split; [exact H3|].
      rewrite <- H4. symmetry. apply (prefix_firstn_firstn X' lg' c2 HXl). rewrite HlX'. unfold c2. lia.
    + destruct (k_nc s X f) as [H0|[t [k [M [H1 [H2 [H3 H4]]]]]]]; [left; exact H0|].
      right. exists t, k, M. split; [exact H1|]. split; [lia|]. split; [exact H3|].
      fold cn in H4. rewrite <- H4.
      rewrite <- (prefix_firstn_firstn _ lg' cn HCk) by (rewrite firstn_length_le' by (apply (k_len s X)); lia).
      rewrite firstn_firstn. f_equal. lia.
Qed.

Lemma inv_recv s f m :
  inv V0 s -> In m (appends s) -> cur (st s f) <= rterm m -> rldr m <> f ->
  prev_ok (log (st s f)) (rprevIdx m) (rprevTerm m) = true -> inv V0 (do_recv f m s).
Proof.
  intros I H1 H2 H3 H4. split; [apply facts_recv | apply xinv_recv]; assumption.
Qed.

End StepE.
