(* Abs/CfgRefute.v  The variant WITHOUT reconfiguration guard (b) is unsafe:
   V0 = [1;2;3;4].  Leader 1 (term 1) appends C+5 without having committed in
   its term and reaches only node 5; leader 2 (term 2, elected by 2,3,4) appends
   C-1 = [2;3;4] and commits it with 2,3; node 1 is then elected in term 3 by
   1,4,5 (a majority of [1;2;3;4;5]) and commits its own index 3: nodes 1 and 2
   both have commit index >= 2 and different entries at index 2. *)
From Coq Require Import List NArith Arith Lia Bool.
From Verif Require Import Abs.CfgBase Abs.CfgRaft Abs.CfgRun.
Import ListNotations.
Open Scope N_scope.

Definition V4 : list N := [1; 2; 3; 4].
Definition cD : entry := (1, PCfg [1; 2; 3; 4; 5]).
Definition cE : entry := (2, PCfg [2; 3; 4]).
Definition L1 : list entry := [(1, PData 0); cD].
Definition L2 : list entry := [(2, PData 0); cE].
Definition L3 : list entry := [(1, PData 0); cD; (3, PData 0)].
Definition mA := mkReq 1 1 0 0 L1 0.
Definition mB := mkReq 2 2 0 0 L2 0.
Definition mC := mkReq 3 1 0 0 L3 0.

Definition bad_sched : list action :=
  [ AStart 1; AGrant 2 1 1 []; AGrant 3 1 1 []; ACount 1 1; ACount 1 2; ACount 1 3; AWin 1;
    AReconfig 1 [1; 2; 3; 4; 5]; ASend 1 0 2 0; ARecv 5 mA;
    AStart 2; AGrant 3 2 2 []; AGrant 4 2 2 []; ACount 2 2; ACount 2 3; ACount 2 4; AWin 2;
    AReconfig 2 [2; 3; 4]; ASend 2 0 2 0; ARecv 3 mB; AAck 2 3 2; ACommit 2 2 [2; 3];
    AStart 1; AStart 1; AGrant 5 3 1 L1; AGrant 4 3 1 L1;
    ACount 1 1; ACount 1 5; ACount 1 4; AWin 1;
    ASend 1 0 3 0; ARecv 5 mC; ARecv 4 mC; AAck 1 5 3; AAck 1 4 3; ACommit 1 3 [1; 4; 5] ].

Definition bad : state :=
  match run V4 false bad_sched init with Some s => s | None => init end.

Lemma bad_run : run V4 false bad_sched init = Some bad.
Proof. vm_compute. reflexivity. Qed.

Lemma bad_reachable : GReachable V4 false bad.
Proof. exact (run_sound V4 false bad_sched init bad (GR_init V4 false) bad_run). Qed.

(* with guard (b) the same schedule is stopped at the first reconfiguration *)
Lemma bad_blocked : run_fail V4 true bad_sched init 0 = Some 7%nat.
Proof. vm_compute. reflexivity. Qed.

Lemma bad_facts :
  (2 <= commit (st bad 1))%nat /\ (2 <= commit (st bad 2))%nat /\
  nth_error (log (st bad 1)) 1 = Some cD /\ nth_error (log (st bad 2)) 1 = Some cE /\
  In (2, 2%nat, cE) (committed bad) /\ In (3, 1, L1) (elected bad) /\
  nth_error L1 1 = Some cD.
Proof. vm_compute. repeat split; auto 10. Qed.

(* state-machine safety and leader completeness both fail without guard (b) *)
Theorem no_guard_b_unsafe :
  exists s, GReachable V4 false s /\
    (exists n m i e1 e2, (i <= commit (st s n))%nat /\ (i <= commit (st s m))%nat /\
       nth_error (log (st s n)) (i - 1) = Some e1 /\
       nth_error (log (st s m)) (i - 1) = Some e2 /\ e1 <> e2) /\
    (exists t i e u l L, In (t, i, e) (committed s) /\ In (u, l, L) (elected s) /\
       t < u /\ nth_error L (i - 1) <> Some e).
Proof.
  exists bad. split; [exact bad_reachable|].
  destruct bad_facts as [H1 [H2 [H3 [H4 [H5 [H6 H7]]]]]]. split.
  - exists 1, 2, 2%nat, cD, cE. repeat split; try assumption. discriminate.
  - exists 2, 2%nat, cE, 3, 1, L1. repeat split; try assumption; try reflexivity.
    simpl. discriminate.
Qed.
