(* Abs/CfgRun.v  Executable guards for Abs/CfgRaft.v: actions, a boolean guard
   checker that is sound for [gstep], and a runner for concrete schedules. *)
From Coq Require Import List NArith Arith Lia Bool.
From Verif Require Import Abs.Quorum Abs.RaftBase Abs.CfgQuorum Abs.CfgBase Abs.CfgRaft.
Import ListNotations.
Open Scope N_scope.

Definition log_eq_dec := list_eq_dec entry_eq_dec.
Definition rec3_eq_dec (a b : N * N * list entry) : {a = b} + {a <> b}.
Proof. decide equality; [apply log_eq_dec | decide equality; apply N.eq_dec]. Defined.
Definition vrec_eq_dec (a b : N * N * N) : {a = b} + {a <> b}.
Proof. decide equality; [apply N.eq_dec | decide equality; apply N.eq_dec]. Defined.
Definition ack_eq_dec (a b : N * N * nat) : {a = b} + {a <> b}.
Proof. decide equality; [apply Nat.eq_dec | decide equality; apply N.eq_dec]. Defined.
Definition areq_eq_dec (a b : areq) : {a = b} + {a <> b}.
Proof.
  decide equality; try apply Nat.eq_dec; try apply N.eq_dec; apply log_eq_dec.
Defined.

Definition inb {A} (dec : forall a b : A, {a = b} + {a <> b}) (x : A) (l : list A) : bool :=
  if in_dec dec x l then true else false.

Lemma inb_In {A} dec (x : A) l : inb dec x l = true -> In x l.
Proof. unfold inb. destruct (in_dec dec x l); [auto | discriminate]. Qed.

Lemma inb_false {A} dec (x : A) l : inb dec x l = false -> ~ In x l.
Proof. unfold inb. destruct (in_dec dec x l); [discriminate | auto]. Qed.

Fixpoint nodupb (l : list N) : bool :=
  match l with [] => true | a :: r => negb (inb N.eq_dec a r) && nodupb r end.

Lemma nodupb_NoDup l : nodupb l = true -> NoDup l.
Proof.
  induction l as [|a r IH]; simpl; [constructor|].
  rewrite andb_true_iff, negb_true_iff. intros [H1 H2].
  constructor; [apply (inb_false _ _ _ H1) | apply IH, H2].
Qed.

Definition majorityb (V Q : list N) : bool :=
  nodupb Q && subsetb Q V && (length V <? 2 * length Q)%nat.

Lemma majorityb_majority V Q : majorityb V Q = true -> majority V Q.
Proof.
  unfold majorityb. rewrite !andb_true_iff, Nat.ltb_lt. intros [[H1 H2] H3].
  split; [apply nodupb_NoDup, H1|]. split; [apply subsetb_incl, H2 | lia].
Qed.

Definition uptodateb (Lc Lv : list entry) : bool :=
  (lastTerm Lv <? lastTerm Lc) || ((lastTerm Lc =? lastTerm Lv) && (length Lv <=? length Lc)%nat).

Lemma uptodateb_ok Lc Lv : uptodateb Lc Lv = true -> uptodate Lc Lv.
Proof.
  unfold uptodateb, uptodate.
  rewrite orb_true_iff, andb_true_iff, N.ltb_lt, N.eqb_eq, Nat.leb_le. tauto.
Qed.

Definition match_geb (m : list (N * nat)) (v : N) (k : nat) : bool :=
  existsb (fun p => (fst p =? v) && (k <=? snd p)%nat) m.

Lemma match_geb_ok m v k : match_geb m v k = true -> match_ge m v k.
Proof.
  unfold match_geb. rewrite existsb_exists. intros [[a j] [Hin H]]. simpl in H.
  apply andb_true_iff in H. destruct H as [H1 H2].
  apply N.eqb_eq in H1. apply Nat.leb_le in H2. subst. exists j. split; assumption.
Qed.

Inductive action :=
| AStart (n : N)
| AGrant (v t c : N) (L : list entry)
| AStepdown (n t : N)
| ACount (c v : N)
| AWin (c : N)
| AClient (l x : N)
| AReconfig (l : N) (D : list N)
| ASend (l : N) (pi k c : nat)
| ARecv (f : N) (m : areq)
| AAck (l v : N) (i : nat)
| ACommit (l : N) (k : nat) (Q : list N)
| AFlush (n : N) (k : nat)
| ACrash (n : N) (c : nat)
| AInstall (f t l : N) (K : list entry) (c : nat)
| ARecvCut (f : N) (m : areq) (k : nat).

Definition is_leader (r : Role) : bool := match r with Leader => true | _ => false end.
Definition is_cand (r : Role) : bool := match r with Candidate => true | _ => false end.
Definition opt_okb (o : option N) (c : N) : bool :=
  match o with None => true | Some d => d =? c end.

Section Run.
Variable V0 : list N.
Variable gb : bool.

Definition apply (a : action) (s : state) : state :=
  match a with
  | AStart n => do_start n s
  | AGrant v t c _ => do_grant v t c s
  | AStepdown n t => do_stepdown n t s
  | ACount c v => do_count c v s
  | AWin c => do_win c s
  | AClient l x => do_append l (PData x) s
  | AReconfig l D => do_append l (PCfg D) s
  | ASend l pi k c => do_send l pi k c s
  | ARecv f m => do_recv f m s
  | AAck l v i => do_ack l v i s
  | ACommit l k _ => do_commit l k s
  | AFlush n k => do_flush n k s
  | ACrash n c => do_crash n c s
  | AInstall f t l K c => do_install f t l K c s
  | ARecvCut f m k => do_recv f (trunc_req m k) (do_trunc m k s)
  end.

(* follower f may accept request m *)
Definition recvb (f : N) (m : areq) (s : state) : bool :=
  let x := st s f in
  inb areq_eq_dec m (appends s) && (cur x <=? rterm m) && negb (rldr m =? f) &&
  prev_ok (log x) (rprevIdx m) (rprevTerm m).

Definition guardb (a : action) (s : state) : bool :=
  match a with
  | AStart n => inb N.eq_dec n (cfg V0 s n)
  | AGrant v t c L =>
      let x := st s v in
      inb rec3_eq_dec (t, c, L) (started s) && (cur x <=? t) &&
      ((cur x <? t) || opt_okb (vote x) c) && uptodateb L (log x)
  | AStepdown n t => cur (st s n) <? t
  | ACount c v =>
      let x := st s c in
      is_cand (role x) && inb vrec_eq_dec (cur x, v, c) (grants s) &&
      inb N.eq_dec v (cfg V0 s c) && negb (inb N.eq_dec v (got x))
  | AWin c => is_cand (role (st s c)) && majorityb (cfg V0 s c) (got (st s c))
  | AClient l _ => is_leader (role (st s l))
  | AReconfig l D =>
      let x := st s l in
      is_leader (role x) && (cfg_idx (log x) <=? commit x)%nat &&
      (negb gb || (startIdx x <=? commit x)%nat) &&
      nodupb D && negb (length D =? 0)%nat && nearb (cfg V0 s l) D
  | ASend l pi k c =>
      let x := st s l in
      is_leader (role x) && (pi <=? length (log x))%nat && (c <=? commit x)%nat
  | ARecv f m => recvb f m s
  | AAck l v i =>
      is_leader (role (st s l)) && inb ack_eq_dec (cur (st s l), v, i) (acks s)
  | ACommit l k Q =>
      let x := st s l in
      is_leader (role x) && (commit x <? k)%nat && (k <=? length (log x))%nat &&
      (term_at (log x) k =? cur x) && majorityb (cfg V0 s l) Q &&
      forallb (fun v => (v =? l) || match_geb (matchIdx x) v k) Q
  | AFlush n k => (flushed (st s n) <=? k)%nat && (k <=? length (log (st s n)))%nat
  | ACrash n c => (c <=? commit (st s n))%nat
  | AInstall f t l K c =>
      let x := st s f in
      negb (f =? l) && (cur x <=? t) &&
      existsb (fun r => (fst (fst r) =? t) && (snd (fst r) =? l)) (elected s) &&
      existsb (fun r => (fst (fst r) <=? t) && (length K <=? snd (fst r))%nat &&
                        log_eqb K (firstn (length K) (snd r))) (cmts s) &&
      (c <=? Nat.max (commit x) (length K))%nat
  | ARecvCut f m k =>
      inb areq_eq_dec m (appends s) && recvb f (trunc_req m k) (do_trunc m k s)
  end.
End Run.

Lemma is_leader_ok r : is_leader r = true -> r = Leader.
Proof. destruct r; simpl; congruence. Qed.
Lemma is_cand_ok r : is_cand r = true -> r = Candidate.
Proof. destruct r; simpl; congruence. Qed.

Ltac splitb :=
  repeat match goal with
  | H : _ && _ = true |- _ => apply andb_true_iff in H; destruct H
  end.

Lemma recvb_sound V0 gb f m s : recvb f m s = true -> gstep V0 gb s (do_recv f m s).
Proof.
  unfold recvb. intro H. splitb. apply SRecv.
  - apply (inb_In _ _ _ H).
  - apply N.leb_le; assumption.
  - apply negb_true_iff, N.eqb_neq in H1. exact H1.
  - assumption.
Qed.

Lemma guardb_sound V0 gb a s : guardb V0 gb a s = true -> gsteps V0 gb s (apply a s).
Proof.
  destruct a; simpl; intro H; splitb; [apply gsteps_one .. | ].
  - apply SStart. apply (inb_In _ _ _ H).
  - apply (SGrant _ _ _ v t c L).
    + apply (inb_In _ _ _ H).
    + apply N.leb_le. assumption.
    + intro He. apply orb_true_iff in H1. destruct H1 as [H1|H1].
      * apply N.ltb_lt in H1. lia.
      * destruct (vote (st s v)) as [d|]; [right | left; reflexivity].
        simpl in H1. apply N.eqb_eq in H1. congruence.
    + apply uptodateb_ok. assumption.
  - apply SStepdown. apply N.ltb_lt. assumption.
  - apply SCount.
    + apply is_cand_ok; assumption.
    + apply (inb_In _ _ _ H2).
    + apply (inb_In _ _ _ H1).
    + apply negb_true_iff in H0. apply (inb_false _ _ _ H0).
  - apply SWin; [apply is_cand_ok; assumption | apply majorityb_majority; assumption].
  - apply SClient. apply is_leader_ok; assumption.
  - apply SReconfig.
    + apply is_leader_ok; assumption.
    + apply Nat.leb_le; assumption.
    + intro Hg. subst gb. simpl in H3. apply Nat.leb_le; assumption.
    + apply nodupb_NoDup; assumption.
    + apply negb_true_iff, Nat.eqb_neq in H1. intro Hn. subst D. apply H1. reflexivity.
    + apply nearb_near; assumption.
  - apply SSend; [apply is_leader_ok; assumption | apply Nat.leb_le; assumption ..].
  - apply recvb_sound. exact H.
  - apply SAck; [apply is_leader_ok; assumption | apply (inb_In _ _ _ H0)].
  - apply (SCommit _ _ _ l k Q).
    + apply is_leader_ok; assumption.
    + apply Nat.ltb_lt in H4. apply Nat.leb_le in H3. lia.
    + apply N.eqb_eq; assumption.
    + apply majorityb_majority; assumption.
    + rewrite forallb_forall in H0. intros v Hv. specialize (H0 v Hv).
      apply orb_true_iff in H0. destruct H0 as [H0|H0].
      * left. apply N.eqb_eq; assumption.
      * right. apply match_geb_ok; assumption.
  - apply SFlush. apply Nat.leb_le in H, H0. lia.
  - apply SCrash. apply Nat.leb_le; assumption.
  - apply existsb_exists in H2. destruct H2 as [[[t' l'] L0] [He H2]]. simpl in H2.
    apply andb_true_iff in H2. destruct H2 as [E1 E2].
    apply N.eqb_eq in E1, E2. subst t' l'.
    apply existsb_exists in H1. destruct H1 as [[[tc k] M] [Hc H1]]. simpl in H1.
    splitb.
    repeat match goal with
    | H : negb _ = true |- _ => apply negb_true_iff in H
    | H : (_ =? _) = false |- _ => apply N.eqb_neq in H
    | H : (_ <=? _) = true |- _ => apply N.leb_le in H
    | H : (_ <=? _)%nat = true |- _ => apply Nat.leb_le in H
    end.
    apply (SInstall _ _ _ f t l K L0 tc k M c); try assumption; try lia.
    unfold log_eqb in *.
    destruct (list_eq_dec entry_eq_dec K (firstn (length K) M)); [assumption | discriminate].
  - apply (gs_cons V0 gb s (do_trunc m k s)).
    + apply STrunc. apply (inb_In _ _ _ H).
    + apply gsteps_one. apply recvb_sound. exact H0.
Qed.

Fixpoint run (V0 : list N) (gb : bool) (acts : list action) (s : state) : option state :=
  match acts with
  | [] => Some s
  | a :: r => if guardb V0 gb a s then run V0 gb r (apply a s) else None
  end.

Lemma run_sound V0 gb acts : forall s s',
  GReachable V0 gb s -> run V0 gb acts s = Some s' -> GReachable V0 gb s'.
Proof.
  induction acts as [|a r IH]; simpl; intros s s' Hs H.
  - inversion H. subst. exact Hs.
  - destruct (guardb V0 gb a s) eqn:G; [|discriminate].
    apply (IH _ _ (gsteps_reachable V0 gb s _ Hs (guardb_sound V0 gb a s G)) H).
Qed.

(* index of the first action whose guard fails (debugging aid) *)
Fixpoint run_fail (V0 : list N) (gb : bool) (acts : list action) (s : state) (i : nat) : option nat :=
  match acts with
  | [] => None
  | a :: r => if guardb V0 gb a s then run_fail V0 gb r (apply a s) (S i) else Some i
  end.
