(* Abs/RaftRun.v  A concrete run of the model of Abs/Raft.v, built from explicit
   steps and checked by computation (non-vacuity of the hypotheses of the
   theorems in Props/C02, C03, C04, C06).

   3 voters.  Node 1 times out (term 2), node 2 grants, node 1 counts itself
   and node 2 and wins term 2, appends its no-op (2,0) at index 1 (unflushed),
   sends it to node 2, node 2 stores + flushes + acknowledges, node 1 receives
   the acknowledgement and commits index 1 (flushing first).  A heartbeat
   (prevIdx 1, leaderCommit 1) lets node 2 commit index 1 and is rejected by
   node 3 (which only adopts the term).  Node 1 then appends (2,7) at index 2
   without flushing, crashes and restarts: the tail is lost, index 1 survives. *)
From Coq Require Import List NArith Arith Lia Bool.
From Verif Require Import Abs.Quorum Abs.RaftBase Abs.Raft.
Import ListNotations.
Open Scope N_scope.

Definition V3 : list N := [1; 2; 3].

Definition req1 : areq := mkReq 2 1 0 0 [(2, 0)] 0.      (* entry 1, leaderCommit 0 *)
Definition ack1 : aack := mkAck 2 2 1 1.
Definition req2 : areq := mkReq 2 1 1 2 [] 1.            (* heartbeat, leaderCommit 1 *)

Definition run_elected : state :=
  do_win 1 (do_count 1 2 (do_count 1 1 (do_grant 2 2 1 (do_start 1 init)))).

Definition run_committed : state :=
  do_advance 1 1 (do_recv_ack 1 ack1 (do_recv_ok 2 req1
    (do_send_append 1 0 1 0 (do_client_append 1 0 run_elected)))).

Definition run_followers : state :=
  do_recv_append 3 req2 (do_recv_ok 2 req2 (do_send_append 1 1 0 1 run_committed)).

Definition run_crashed : state :=
  do_crash 1 0 (do_client_append 1 7 run_followers).

Ltac chk := vm_compute; repeat split; try lia; try discriminate;
            intuition (try lia; try discriminate; try congruence).

Lemma reachable_run_elected : Reachable V3 run_elected.
Proof.
  unfold run_elected.
  eapply R_step; [| apply SWin; chk ].
  eapply R_step; [| apply SCount; chk ].
  eapply R_step; [| apply SCount; chk ].
  eapply R_step; [| apply SGrant with (L := []); chk ].
  eapply R_step; [| apply SStart; chk ].
  apply R_init.
Qed.

Lemma reachable_run_committed : Reachable V3 run_committed.
Proof.
  unfold run_committed.
  eapply R_step; [| apply SAdvance with (Q := [1; 2]) ].
  eapply R_step; [| apply SRecvAck; chk ].
  eapply R_step; [| apply SRecvAppend; chk ].
  eapply R_step; [| apply SSendAppend; chk ].
  eapply R_step; [| apply SClientAppend; chk ].
  exact reachable_run_elected.
  - chk.
  - chk.
  - chk.
  - unfold majority. split; [repeat constructor; simpl; intuition discriminate|].
    split; [intros v Hv; simpl in *; tauto | simpl; lia].
  - intros v [<-|[<-|[]]].
    + left. reflexivity.
    + right. exists 1%nat. vm_compute. split; [left; reflexivity | lia].
Qed.

Lemma reachable_run_followers : Reachable V3 run_followers.
Proof.
  unfold run_followers.
  assert (H2 : Reachable V3 (do_recv_ok 2 req2 (do_send_append 1 1 0 1 run_committed))).
  { eapply R_step; [| apply SRecvAppend; chk ].
    eapply R_step; [| apply SSendAppend; chk ].
    exact reachable_run_committed. }
  destruct (recv_append_refines V3 (do_recv_ok 2 req2 (do_send_append 1 1 0 1 run_committed)) 3 req2)
    as [Heq|Hst].
  - chk.
  - chk.
  - rewrite Heq. exact H2.
  - exact (R_step _ _ _ H2 Hst).
Qed.

Lemma reachable_run_crashed : Reachable V3 run_crashed.
Proof.
  unfold run_crashed.
  eapply R_step; [| apply SCrash; apply Nat.le_0_l ].
  eapply R_step; [| apply SClientAppend; chk ].
  exact reachable_run_followers.
Qed.

(* what the run looks like *)
Lemma run_facts :
  NoDup V3 /\
  Reachable V3 run_elected /\ Reachable V3 run_committed /\
  Reachable V3 run_followers /\ Reachable V3 run_crashed /\
  elected run_committed = [(2, 1, [])] /\
  role (st run_committed 1) = Leader /\ cur (st run_committed 1) = 2 /\
  log (st run_committed 1) = [(2, 0)] /\ commit (st run_committed 1) = 1%nat /\
  flushed (st run_committed 1) = 1%nat /\
  log (st run_committed 2) = [(2, 0)] /\ flushed (st run_committed 2) = 1%nat /\
  commit (st run_committed 2) = 0%nat /\
  committed run_committed = [(2, 1%nat, (2, 0))] /\
  acked run_committed = [(2, 1, 1%nat); (2, 2, 1%nat)] /\
  commit (st run_followers 2) = 1%nat /\
  cur (st run_followers 3) = 2 /\ log (st run_followers 3) = [] /\
  committed run_followers = [(2, 1%nat, (2, 0)); (2, 1%nat, (2, 0))] /\
  log (st (do_client_append 1 7 run_followers) 1) = [(2, 0); (2, 7)] /\
  log (st run_crashed 1) = [(2, 0)] /\ role (st run_crashed 1) = Follower /\
  commit (st run_crashed 1) = 0%nat.
Proof.
  split; [repeat constructor; simpl; intuition discriminate|].
  split; [exact reachable_run_elected|]. split; [exact reachable_run_committed|].
  split; [exact reachable_run_followers|]. split; [exact reachable_run_crashed|].
  vm_compute. repeat split; reflexivity.
Qed.

Lemma steps_committed_crashed : steps V3 run_committed run_crashed.
Proof.
  unfold run_crashed, run_followers.
  eapply steps_step; [| apply SCrash; apply Nat.le_0_l ].
  eapply steps_step; [| apply SClientAppend; chk ].
  destruct (recv_append_refines V3 (do_recv_ok 2 req2 (do_send_append 1 1 0 1 run_committed)) 3 req2)
    as [Heq|Hst]; [chk | chk | |].
  - rewrite Heq.
    eapply steps_step; [| apply SRecvAppend; chk ].
    eapply steps_step; [| apply SSendAppend; chk ].
    apply steps_refl.
  - eapply steps_step; [| exact Hst ].
    eapply steps_step; [| apply SRecvAppend; chk ].
    eapply steps_step; [| apply SSendAppend; chk ].
    apply steps_refl.
Qed.

(* ---- a second run: an entry of an old term committed indirectly ----
   Node 1 wins term 2 and appends (2,5) at index 1 without replicating it.
   Node 3 wins term 3 with the votes of 2 and 3 (empty logs) and does nothing.
   Node 1 steps down, wins term 4 with the vote of node 2 (its log [(2,5)] is
   more up to date than the empty log), appends (4,6), replicates both entries
   to node 2 and commits index 2 - which commits (2,5) at index 1 as well.
   The leader of term 3 (elected earlier, 3 > term of (2,5)) never held it:
   leader completeness must be stated with the term in which an entry was
   COMMITTED, not with the term of the entry. *)
Definition req8 : areq := mkReq 4 1 0 0 [(2, 5); (4, 6)] 0.
Definition ack8 : aack := mkAck 4 2 1 2.

Definition run8_a : state :=
  do_client_append 1 5 (do_win 1 (do_count 1 2 (do_count 1 1 (do_grant 2 2 1 (do_start 1 init))))).
Definition run8_b : state :=
  do_win 3 (do_count 3 2 (do_count 3 3 (do_grant 2 3 3 (do_start 3 (do_start 3 run8_a))))).
Definition run8_c : state :=
  do_win 1 (do_count 1 2 (do_count 1 1 (do_grant 2 4 1 (do_start 1 (do_start 1 (do_follow 1 run8_b)))))).
Definition run8 : state :=
  do_advance 1 2 (do_recv_ack 1 ack8 (do_recv_ok 2 req8 (do_send_append 1 0 2 0 (do_client_append 1 6 run8_c)))).

Lemma reachable_run8 : Reachable V3 run8.
Proof.
  unfold run8.
  eapply R_step; [| apply SAdvance with (Q := [1; 2]) ].
  eapply R_step; [| apply SRecvAck; chk ].
  eapply R_step; [| apply SRecvAppend; chk ].
  eapply R_step; [| apply SSendAppend; chk ].
  eapply R_step; [| apply SClientAppend; chk ].
  unfold run8_c.
  eapply R_step; [| apply SWin; chk ].
  eapply R_step; [| apply SCount; chk ].
  eapply R_step; [| apply SCount; chk ].
  eapply R_step; [| apply SGrant with (L := [(2, 5)]); chk ].
  eapply R_step; [| apply SStart; chk ].
  eapply R_step; [| apply SStart; chk ].
  eapply R_step; [| apply SStepDown ].
  unfold run8_b.
  eapply R_step; [| apply SWin; chk ].
  eapply R_step; [| apply SCount; chk ].
  eapply R_step; [| apply SCount; chk ].
  eapply R_step; [| apply SGrant with (L := []); chk ].
  eapply R_step; [| apply SStart; chk ].
  eapply R_step; [| apply SStart; chk ].
  unfold run8_a.
  eapply R_step; [| apply SClientAppend; chk ].
  eapply R_step; [| apply SWin; chk ].
  eapply R_step; [| apply SCount; chk ].
  eapply R_step; [| apply SCount; chk ].
  eapply R_step; [| apply SGrant with (L := []); chk ].
  eapply R_step; [| apply SStart; chk ].
  apply R_init.
  - chk.
  - chk.
  - chk.
  - unfold majority. split; [repeat constructor; simpl; intuition discriminate|].
    split; [intros v Hv; simpl in *; tauto | simpl; lia].
  - intros v [<-|[<-|[]]].
    + left. reflexivity.
    + right. exists 2%nat. vm_compute. split; [left; reflexivity | lia].
Qed.

Lemma run8_facts :
  Reachable V3 run8 /\
  committed run8 = [(4, 1%nat, (2, 5)); (4, 2%nat, (4, 6))] /\
  elected run8 = [(4, 1, [(2, 5)]); (3, 3, []); (2, 1, [])].
Proof. split; [exact reachable_run8|]. vm_compute. split; reflexivity. Qed.
