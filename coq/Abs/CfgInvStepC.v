(* Abs/CfgInvStepC.v  Invariant preservation: a candidate wins. *)
From Coq Require Import List NArith Arith Lia Bool.
From Verif Require Import Abs.Quorum Abs.RaftBase Abs.CfgQuorum Abs.CfgBase Abs.CfgRaft
  Abs.CfgInvDefs Abs.CfgInvT Abs.CfgInvFrame Abs.CfgInvStepA.
Import ListNotations.
Open Scope N_scope.

Section StepC.
Variable V0 : list N.
Hypothesis V0_nodup : NoDup V0.

(* a candidate holding a majority of its configuration: its quorum is good *)
Lemma cand_good s c :
  inv V0 s -> role (st s c) = Candidate -> majority (cfg V0 s c) (got (st s c)) ->
  good V0 s (cur (st s c)) (log (st s c)).
Proof.
  intros [F X] Hr Hmaj tc k M Hc Htu Hnear Hhyp.
  pose proof (v_cand s X c Hr) as Hst.
  destruct (f_cmt V0 s F _ _ _ Hc) as [HM [HlM [Htk [Hk [QM [HQM HaM]]]]]].
  destruct (f_st V0 s F _ _ _ Hst) as [HwL _].
  assert (Hn1 : NoDup (cfg_of V0 M)).
  { apply (cfg_nodup V0 V0_nodup s F). apply (created_wf V0 s F). exact HM. }
  assert (Hn2 : NoDup (cfg_of V0 (log (st s c)))) by (apply (cfg_nodup V0 V0_nodup s F); exact HwL).
  destruct (adjacent_majorities_meet _ _ _ _ Hn1 Hn2 Hnear HQM Hmaj) as [v [Hv1 Hv2]].
  destruct (HaM v Hv1) as [i [Hack Hki]].
  apply (s_vote s X (cur (st s c)) v c _ tc i (firstn k M)); try assumption.
  - apply (v_got s X). exact Hv2.
  - apply (f_closed V0 s F M HM). lia.
  - rewrite lastTerm_firstn by lia. exact Htk.
  - rewrite firstn_length_le' by lia. exact Hki.
  - intros n' L' He. apply (T2 V0 V0_nodup s F _ n' L' He tc k M Hc Htu).
Qed.

(* ... hence it holds everything committed earlier ... *)
Lemma cand_lc s c :
  inv V0 s -> role (st s c) = Candidate -> majority (cfg V0 s c) (got (st s c)) ->
  LCl s (cur (st s c)) (log (st s c)).
Proof.
  intros I Hr Hmaj. destruct I as [F X].
  apply (T2gen V0 s F (cur (st s c)) c).
  - intros u' _. apply (T2 V0 V0_nodup s F).
  - apply (v_cand s X c Hr).
  - apply cand_good; [split; assumption | assumption..].
Qed.

(* ... and no leader of its term exists yet *)
Lemma win_fresh s c n' L' :
  inv V0 s -> role (st s c) = Candidate -> majority (cfg V0 s c) (got (st s c)) ->
  In (cur (st s c), n', L') (elected s) -> False.
Proof.
  intros I Hr Hmaj He. pose proof (cand_lc s c I Hr Hmaj) as HLC. destruct I as [F X].
  destruct (f_elwon V0 s F _ _ _ He) as [Hst' [Q' [HQ' Hg']]].
  assert (Hc : c = n' /\ log (st s c) = L').
  { apply (T1gen V0 V0_nodup s F (cur (st s c)) c _ n' L' (got (st s c)) Q'); try assumption.
    - apply (v_cand s X c Hr).
    - apply (T2 V0 V0_nodup s F _ n' L' He).
    - intros v Hv. apply (v_got s X). exact Hv.
    - intros v Hv. apply (Hg' v Hv). }
  destruct Hc as [<- _]. pose proof (v_erole s X _ _ _ He eq_refl). congruence.
Qed.

(* nothing of the candidate's term exists before it wins *)
Lemma fresh_created s u K :
  facts V0 s -> (forall n' L', ~ In (u, n', L') (elected s)) -> In K (created s) ->
  lastTerm K <> u.
Proof.
  intros F Hf HK E. destruct (f_cel V0 s F K HK) as [n [L [He _]]]. rewrite E in He.
  exact (Hf n L He).
Qed.

Lemma fresh_acks s u v i :
  facts V0 s -> xinv s -> (forall n' L', ~ In (u, n', L') (elected s)) -> ~ In (u, v, i) (acks s).
Proof.
  intros F X Hf H. destruct (a_ok s X _ _ _ H) as [_ [K [HK [Hl _]]]].
  exact (fresh_created s u K F Hf HK Hl).
Qed.

Lemma fresh_cmts s u k M :
  facts V0 s -> (forall n' L', ~ In (u, n', L') (elected s)) -> ~ In (u, k, M) (cmts s).
Proof.
  intros F Hf H. destruct (f_cmt V0 s F _ _ _ H) as [HM [Hl _]].
  exact (fresh_created s u M F Hf HM Hl).
Qed.

(* closure of created under a new leader log *)
Lemma closed_snoc s n e :
  facts V0 s -> xinv s -> closed ((log (st s n) ++ [e]) :: created s).
Proof.
  intros F X K [<-|HK] i Hi.
  - rewrite app_length in Hi. simpl in Hi.
    destruct (Nat.eq_dec i (length (log (st s n)) + 1)) as [->|Hne].
    + left. rewrite firstn_all2 by (rewrite app_length; simpl; lia). reflexivity.
    + right. rewrite firstn_app_le by lia. apply (n_wf s X n). lia.
  - right. apply (f_closed V0 s F K HK i Hi).
Qed.

Lemma facts_win s c :
  inv V0 s -> role (st s c) = Candidate -> majority (cfg V0 s c) (got (st s c)) ->
  facts V0 (do_win c s).
Proof.
  intros I Hr Hmaj.
  assert (Hf : forall n' L', ~ In (cur (st s c), n', L') (elected s)).
  { intros n' L' H. exact (win_fresh s c n' L' I Hr Hmaj H). }
  destruct I as [F X].
  set (u := cur (st s c)) in *. set (Lc := log (st s c)) in *.
  assert (HlK1 : lastTerm (Lc ++ [(u, PData 0)]) = u) by apply lastTerm_snoc.
  constructor; simpl; fold u Lc.
  - apply closed_snoc; assumption.
  - intros K1 K2 [<-|H1] [<-|H2] Hl.
    + apply comparable_refl.
    + exfalso. apply (fresh_created s u K2 F Hf H2). congruence.
    + exfalso. apply (fresh_created s u K1 F Hf H1). congruence.
    + apply (f_chain V0 s F); assumption.
  - intros K [<-|HK]; [|apply (f_cmono V0 s F K HK)].
    apply mono_snoc; [apply (n_mono s X) | apply (n_term s X)].
  - intros K [<-|HK].
    + rewrite HlK1. exists c, Lc. split; [left; reflexivity | apply prefix_refl].
    + destruct (f_cel V0 s F K HK) as [n [L [He Hp]]]. exists n, L. split; [right; exact He | exact Hp].
  - intros t n L n' L' [H|H] [H'|H'].
    + inversion H; inversion H'; subst. split; congruence.
    + inversion H; subst. exfalso. exact (Hf _ _ H').
    + inversion H'; subst. exfalso. exact (Hf _ _ H).
    + exact (f_es V0 s F t n L n' L' H H').
  - intros t n L [H|H].
    + inversion H; subst t n L. split; [apply (v_cand s X c Hr)|].
      exists (got (st s c)). split; [exact Hmaj|]. intros v Hv.
      split; [apply (v_got s X); exact Hv|].
      intros tc i K Ha Ht [<-|HK] Hl Hlen Hh; simpl in *.
      * assert (tc = u) by (rewrite <- Hl; exact HlK1). lia.
      * apply (s_vote s X u v c Lc tc i K); try assumption.
        -- apply (v_got s X); exact Hv.
        -- apply (v_cand s X c Hr).
        -- apply (hyp_lt_anti s (do_win c s)); [apply incl_tl, incl_refl | exact Hh].
        -- intros n' L' He. exfalso. exact (Hf _ _ He).
    + apply (cwon_mono V0 s); simpl; try apply incl_refl; [|exact (f_elwon V0 s F t n L H)].
      intros v Hv. apply ev_mono; [apply incl_tl, incl_refl|].
      intros tc i K Ha Ht [HK|HK] Hl Hlen; simpl in *.
      * exfalso. assert (E : tc = u) by (rewrite <- Hl, <- HK; exact HlK1). rewrite E in Ha.
        exact (fresh_acks s u v i F X Hf Ha).
      * split; assumption.
  - intros u0 c0 L H. destruct (f_st V0 s F _ _ _ H) as [H1 H2].
    split; [apply (wf_mono (created s)); [apply incl_tl, incl_refl | exact H1] | exact H2].
  - exact (f_st_one V0 s F).
  - exact (f_one V0 s F).
  - intros tc k M Hc. destruct (f_cmt V0 s F tc k M Hc) as [H1 H2].
    split; [right; exact H1 | exact H2].
  - exact (f_cmt_mono V0 s F).
  - intros P t D [H|H].
    + apply app_inj_tail in H. destruct H as [_ H]. discriminate.
    + destruct (f_cfg V0 s F P t D H) as [H1 [H2 [k1 [M1 [n [Lt [H3 [H4 [H5 H6]]]]]]]]].
      split; [exact H1|]. split; [exact H2|]. exists k1, M1, n, Lt.
      split; [exact H3|]. split; [exact H4|]. split; [right; exact H5 | exact H6].
Qed.

Lemma xinv_win s c :
  inv V0 s -> role (st s c) = Candidate -> majority (cfg V0 s c) (got (st s c)) ->
  xinv (do_win c s).
Proof.
  intros I Hr Hmaj.
  assert (Hf : forall n' L', ~ In (cur (st s c), n', L') (elected s)).
  { intros n' L' H. exact (win_fresh s c n' L' I Hr Hmaj H). }
  destruct I as [F X].
  assert (HlK1 : lastTerm (log (st s c) ++ [(cur (st s c), PData 0)]) = cur (st s c))
    by apply lastTerm_snoc.
  constructor; simpl; try xfield X; xstep X.
  - destruct (v_msg s X m H) as [L HL]. exists L. right. exact HL.
  - exists (log (st s c)). split; [left; reflexivity|]. split; [apply prefix_refl|].
    rewrite app_length. simpl. lia.
  - destruct (v_ldr s X l H) as [Lt [H1 H2]]. exists Lt. split; [right; exact H1 | exact H2].
  - apply wf_created; [apply closed_snoc; assumption | left; reflexivity].
  - apply (wf_mono (created s)); [apply incl_tl, incl_refl | apply (n_wf s X)].
  - apply mono_snoc; [apply (n_mono s X) | apply (n_term s X)].
  - match goal with H : _ \/ In K (created s) |- _ => destruct H as [<-|HK] end; [apply prefix_refl|].
    exfalso. eapply (fresh_created s _ K F Hf HK). assumption.
  - match goal with H : _ \/ In K (created s) |- _ => destruct H as [<-|HK] end.
    + exfalso. match goal with H : role (st s l) = Leader |- _ => destruct (v_ldr s X l H) as [Lt [He _]] end.
      apply (Hf l Lt). rewrite <- HlK1. match goal with H : lastTerm _ = cur (st s l) |- _ => rewrite H end. exact He.
    + xauto X.
  - destruct (m_ok s X m H) as [K [H1 H2]]. exists K. split; [right; exact H1 | exact H2].
  - destruct (a_ok s X _ _ _ H) as [H1 [K [H2 H3]]]. split; [exact H1|]. exists K. split; [right; exact H2 | exact H3].
  - destruct (a_ok s X _ _ _ H) as [H1 [K [H2 H3]]]. split; [exact H1|]. exists K. split; [right; exact H2 | exact H3].
  - match goal with H : _ \/ In K (created s) |- _ => destruct H as [HK|HK] end.
    + exfalso. subst K. match goal with H : lastTerm _ = tc |- _ => rewrite HlK1 in H; subst tc end.
      eapply (fresh_acks s _ _ _ F X Hf); eassumption.
    + apply (prefix_trans _ (log (st s c))); [|apply prefix_app].
      match goal with H : In (tc, c, i) (acks s) |- _ => apply (s_ack s X tc c i K H HK) end; try assumption.
      intros u' n' L' He Hlo Hhi.
      match goal with H : forall u' n' L', _ \/ _ -> _ |- _ => apply (H u' n' L') end; [right; exact He | assumption..].
  - match goal with H : _ \/ In K (created s) |- _ => destruct H as [HK|HK] end.
    + exfalso. subst K. match goal with H : lastTerm _ = tc |- _ => rewrite HlK1 in H; subst tc end.
      eapply (fresh_acks s _ _ _ F X Hf); eassumption.
    + match goal with H : In (tc, v, i) (acks s) |- _ => apply (s_ack s X tc v i K H HK) end; try assumption.
      intros u' n' L' He Hlo Hhi.
      match goal with H : forall u' n' L', _ \/ _ -> _ |- _ => apply (H u' n' L') end; [right; exact He | assumption..].
  - match goal with H : _ \/ In K (created s) |- _ => destruct H as [HK|HK] end.
    + exfalso. subst K. match goal with H : lastTerm _ = tc |- _ => rewrite HlK1 in H; subst tc end.
      eapply (fresh_acks s _ _ _ F X Hf); eassumption.
    + match goal with Hg : In (u, v, c0) (grants s), Hs : In (u, c0, L) (started s), Ha : In (tc, v, i) (acks s) |- _ =>
        apply (s_vote s X u v c0 L tc i K Hg Hs Ha) end; try assumption.
      * eapply (hyp_lt_anti s (do_win c s)); [apply incl_tl, incl_refl | eassumption].
      * intros n' L' He. match goal with H : forall n' L', _ \/ _ -> _ |- _ => apply (H n' L') end. right. exact He.
  - exfalso. eapply (fresh_cmts s _ _ _ F Hf); eassumption.
  - pose proof (k_len s X c). rewrite app_length in *. simpl in *. lia.
  - pose proof (k_len s X c). rewrite app_length. simpl. lia.
  - destruct (k_nc s X c) as [H0|[t [k [M [H1 [H2 [H3 H4]]]]]]]; [left; exact H0|].
    right. exists t, k, M. repeat split; try assumption.
    rewrite firstn_app_le by (apply (k_len s X)). exact H4.
  - destruct (m_c s X m H) as [H0|[t [k [M [K [H1 [H2 [H3 [H4 H5]]]]]]]]]; [left; exact H0|].
    right. exists t, k, M, K. split; [exact H1|]. split; [exact H2|]. split; [exact H3|].
    split; [right; exact H4 | exact H5].
Qed.

Lemma inv_win s c :
  inv V0 s -> role (st s c) = Candidate -> majority (cfg V0 s c) (got (st s c)) ->
  inv V0 (do_win c s).
Proof. intros I H1 H2. split; [apply facts_win | apply xinv_win]; assumption. Qed.

End StepC.
