(* Abs/CfgInvStepG.v  Flush and crash/restart preserve the invariant; the
   durability invariant [dinv] is preserved by every step. *)
From Coq Require Import List NArith Arith Lia Bool.
From Verif Require Import Abs.Quorum Abs.RaftBase Abs.CfgQuorum Abs.CfgBase Abs.CfgRaft
  Abs.CfgInvDefs Abs.CfgInvT Abs.CfgInvFrame Abs.CfgInvStepA Abs.CfgInvStepC.
Import ListNotations.
Open Scope N_scope.

Section StepG.
Variable V0 : list N.
Hypothesis V0_nodup : NoDup V0.

Lemma inv_flush s n k : inv V0 s -> inv V0 (do_flush n k s).
Proof.
  intros [F X]. split; [apply (facts_same V0 s); auto|].
  constructor; simpl; try xfield X; xstep X.
Qed.

Lemma inv_trunc s m k : inv V0 s -> In m (appends s) -> inv V0 (do_trunc m k s).
Proof.
  intros [F X] Hm. split; [apply (facts_same V0 s); auto|].
  constructor; simpl; try xfield X.
  - intros m' [<-|Hm']; [simpl; exact (v_msg s X m Hm) | exact (v_msg s X m' Hm')].
  - intros m' [<-|Hm']; [simpl | exact (m_ok s X m' Hm')].
    destruct (m_ok s X m Hm) as [K [H1 [H2 [H3 [H4 H5]]]]].
    exists K. repeat split; try assumption.
    apply (prefix_trans _ (firstn (rprevIdx m) K ++ rents m)); [|exact H5].
    destruct (firstn_prefix k (rents m)) as [Z HZ].
    exists Z. rewrite <- app_assoc, <- HZ. reflexivity.
  - intros m' [<-|Hm']; [simpl; exact (m_c s X m Hm) | exact (m_c s X m' Hm')].
Qed.

Lemma inv_crash s n c :
  inv V0 s -> dinv s -> (c <= commit (st s n))%nat -> inv V0 (do_crash n c s).
Proof.
  intros [F X] D Hc. split; [apply (facts_same V0 s); auto|].
  pose proof (d_fl s D n) as Hfl. pose proof (d_cf s D n) as Hcf.
  constructor; simpl; try xfield X; xstep X.
- apply (wf_prefix _ _ (log (st s n))); [apply (n_wf s X) | apply firstn_prefix].
  - apply (mono_prefix _ (log (st s n))); [apply firstn_prefix | apply (n_mono s X)].
  - destruct (firstn (flushed (st s n)) (log (st s n))) as [|a r] eqn:E.
    + rewrite lastTerm_nil. apply N.le_0_l.
    + rewrite <- E. pose proof (n_term s X n).
      assert (lastTerm (firstn (flushed (st s n)) (log (st s n))) <= lastTerm (log (st s n))).
      { apply lastTerm_le_prefix; [apply firstn_prefix | apply (n_mono s X) | rewrite E; discriminate]. }
      lia.
  - assert (HP : prefix K (log (st s n))) by (eapply (s_ack s X); eassumption).
    assert (Hl : (length K <= flushed (st s n))%nat).
    { apply (d_ack s D tc n i (length K) H H2 (prefix_length _ _ HP)).
      rewrite <- (lastTerm_prefix K _ HP). exact H1. }
    pose proof (prefix_firstn_both K _ (flushed (st s n)) HP) as HQ.
    rewrite (firstn_all2 K) in HQ by exact Hl. exact HQ.
  - rewrite firstn_length_le' by exact Hfl. lia.
  - destruct (k_nc s X n) as [H0|[t [k [M [H1 [H2 [H3 H4]]]]]]]; [left; lia|].
    right. exists t, k, M. split; [exact H1|]. split; [exact H2|]. split; [lia|].
    rewrite firstn_firstn. replace (Nat.min c (flushed (st s n))) with c by lia.
    assert (Hf : forall Y : list entry, firstn c Y = firstn c (firstn (commit (st s n)) Y)).
    { intro Y. rewrite firstn_firstn. f_equal. lia. }
    rewrite (Hf (log (st s n))), (Hf M), H4. reflexivity.
Qed.

Lemma dinv_init : dinv init.
Proof.
  constructor; simpl; intros; try lia; try contradiction.
  destruct j; discriminate.
Qed.

(* steps that change neither logs, flushed, commit nor acks *)
Lemma dinv_frame s s' :
  dinv s -> (forall n, log (st s' n) = log (st s n)) ->
  (forall n, flushed (st s' n) = flushed (st s n)) ->
  (forall n, commit (st s' n) = commit (st s n)) -> acks s' = acks s ->
  elected s' = elected s -> created s' = created s -> dinv s'.
Proof.
  intros D Hl Hf Hc Ha He Hcr. constructor.
  - intro n. rewrite Hl, Hf. apply (d_fl s D).
  - intro n. rewrite Hc, Hf. apply (d_cf s D).
  - intros tc v i j. rewrite Ha, Hl, Hf. apply (d_ack s D).
  - intros n j e. rewrite Hl, Hf, He. apply (d_unfl s D).
  - intros t n L. rewrite He, Hcr. apply (d_elcr s D).
Qed.

Ltac dframe D := apply (dinv_frame _ _ D); simpl; try reflexivity; intro n0; updall; reflexivity.

Lemma dinv_start s n : dinv s -> dinv (do_start n s).
Proof. intro D. dframe D. Qed.
Lemma dinv_grant s v t c : dinv s -> dinv (do_grant v t c s).
Proof. intro D. dframe D. Qed.
Lemma dinv_stepdown s n t : dinv s -> dinv (do_stepdown n t s).
Proof. intro D. dframe D. Qed.
Lemma dinv_count s c v : dinv s -> dinv (do_count c v s).
Proof. intro D. dframe D. Qed.
Lemma dinv_send s l pi k c : dinv s -> dinv (do_send l pi k c s).
Proof. intro D. dframe D. Qed.
Lemma dinv_ack s l v i : dinv s -> dinv (do_ack l v i s).
Proof. intro D. dframe D. Qed.
Lemma dinv_trunc s m k : dinv s -> dinv (do_trunc m k s).
Proof. intro D. dframe D. Qed.

Lemma dinv_flush s n k :
  dinv s -> (flushed (st s n) <= k <= length (log (st s n)))%nat -> dinv (do_flush n k s).
Proof.
  intros D Hk. pose proof (d_cf s D n).
  constructor; simpl; intros; updall; simpl in *;
    try (eapply (d_elcr s D); eassumption); try apply (d_fl s D); try apply (d_cf s D); try lia.
  - pose proof (d_ack s D tc n i j H0 H1 H2 H3). lia.
  - exact (d_ack s D tc v i j H0 H1 H2 H3).
  - apply (d_unfl s D n j e H0). lia.
  - exact (d_unfl s D n0 j e H0 H1).
Qed.

Lemma dinv_crash s n c : dinv s -> (c <= commit (st s n))%nat -> dinv (do_crash n c s).
Proof.
  intros D Hc. pose proof (d_cf s D n). pose proof (d_fl s D n).
  constructor; simpl; intros; updall; simpl in *;
    try (eapply (d_elcr s D); eassumption); try apply (d_fl s D); try apply (d_cf s D);
    rewrite ?firstn_length_le' in * by assumption; try lia.
  - exact (d_ack s D tc v i j H1 H2 H3 H4).
  - exfalso. assert (Hn : nth_error (firstn (flushed (st s n)) (log (st s n))) j <> None)
      by congruence.
    apply nth_error_Some in Hn. rewrite firstn_length_le' in Hn by assumption. lia.
  - exact (d_unfl s D n0 j e H1 H2).
Qed.

Lemma dinv_commit s l k :
  dinv s -> (k <= length (log (st s l)))%nat -> dinv (do_commit l k s).
Proof.
  intros D Hk. pose proof (d_fl s D l).
  constructor; simpl; intros; updall; simpl in *;
    try (eapply (d_elcr s D); eassumption); try apply (d_fl s D); try apply (d_cf s D); try lia.
  - destruct H0 as [H0|H0]; [inversion H0; subst; lia|].
    pose proof (d_ack s D tc l i j H0 H1 H2 H3). lia.
  - destruct H0 as [H0|H0]; [inversion H0; subst; congruence|].
    exact (d_ack s D tc v i j H0 H1 H2 H3).
  - apply (d_unfl s D l j e H0). lia.
  - exact (d_unfl s D n j e H0 H1).
Qed.

(* node l appends an entry of its current term without flushing *)
Lemma dinv_snoc s s' l e :
  dinv s -> log (st s' l) = log (st s l) ++ [e] -> eterm e = cur (st s l) ->
  (forall n, n <> l -> log (st s' n) = log (st s n)) ->
  (forall n, flushed (st s' n) = flushed (st s n)) ->
  (forall n, commit (st s' n) = commit (st s n)) -> acks s' = acks s ->
  (forall i, In (cur (st s l), l, i) (acks s) -> (i <= length (log (st s l)))%nat) ->
  incl (elected s) (elected s') -> (exists L, In (eterm e, l, L) (elected s')) ->
  (forall t n L, In (t, n, L) (elected s') -> In (L ++ [noop t]) (created s')) ->
  dinv s'.
Proof.
  intros D Hl He Hn Hf Hc Ha Hi Hel Hnew Hcr. constructor; [| | | |exact Hcr].
  - intro n. rewrite Hf. pose proof (d_fl s D n). destruct (N.eq_dec n l) as [->|Hne].
    + rewrite Hl, app_length. lia.
    + rewrite (Hn n Hne). exact H.
  - intro n. rewrite Hc, Hf. apply (d_cf s D).
  - intros tc v i j. rewrite Ha, Hf. destruct (N.eq_dec v l) as [->|Hne].
    + rewrite Hl. intros H1 H2 H3 H4. rewrite app_length in H3. simpl in H3.
      destruct (Nat.le_gt_cases j (length (log (st s l)))) as [Hj|Hj].
      * apply (d_ack s D tc l i j H1 H2 Hj). rewrite <- H4.
        apply term_at_prefix; [exists [e]; reflexivity | exact Hj].
      * exfalso. assert (j = S (length (log (st s l)))) as -> by lia.
        rewrite (term_at_nth _ _ e) in H4 by apply nth_error_snoc.
        rewrite He in H4. subst tc. specialize (Hi i H1). lia.
    + rewrite (Hn v Hne). apply (d_ack s D).
  - intros n j x. rewrite Hf. destruct (N.eq_dec n l) as [->|Hne].
    + rewrite Hl. intros H1 H2.
      destruct (Nat.lt_ge_cases j (length (log (st s l)))) as [Hj|Hj].
      * rewrite nth_error_app1 in H1 by exact Hj.
        destruct (d_unfl s D l j x H1 H2) as [L HL]. exists L. apply Hel. exact HL.
      * assert (Hn' : nth_error (log (st s l) ++ [e]) j <> None) by congruence.
        apply nth_error_Some in Hn'. rewrite app_length in Hn'. simpl in Hn'.
        assert (j = length (log (st s l))) as -> by lia.
        rewrite nth_error_snoc in H1. inversion H1. subst x. exact Hnew.
    + rewrite (Hn n Hne). intros H1 H2.
      destruct (d_unfl s D n j x H1 H2) as [L HL]. exists L. apply Hel. exact HL.
Qed.

Lemma dinv_append s l p :
  inv V0 s -> dinv s -> role (st s l) = Leader -> dinv (do_append l p s).
Proof.
  intros [F X] D Hr.
  apply (dinv_snoc s _ l (cur (st s l), p) D); simpl; try reflexivity;
    try (intros; updall; reflexivity); try apply incl_refl.
  - intros n Hne. rewrite upd_neq by exact Hne. reflexivity.
  - intros i Hi. destruct (a_ok s X _ _ _ Hi) as [_ [K [HK [HlK Hlen]]]].
    pose proof (prefix_length _ _ (c_ldr s X l K Hr HK HlK)). lia.
  - destruct (v_ldr s X l Hr) as [Lt [He _]]. exists Lt. exact He.
  - intros t n L H. right. exact (d_elcr s D t n L H).
Qed.

Lemma dinv_win s c :
  inv V0 s -> dinv s -> role (st s c) = Candidate ->
  majority (cfg V0 s c) (got (st s c)) -> dinv (do_win c s).
Proof.
  intros I D Hr Hmaj.
  apply (dinv_snoc s _ c (cur (st s c), PData 0) D); simpl; try reflexivity;
    try (intros; updall; reflexivity); try (apply incl_tl, incl_refl).
  - intros n Hne. rewrite upd_neq by exact Hne. reflexivity.
  - intros i Hi. exfalso. destruct I as [F X].
    destruct (a_ok s X _ _ _ Hi) as [_ [K [HK [HlK Hlen]]]].
    destruct (f_cel V0 s F K HK) as [n' [L' [He _]]]. rewrite HlK in He.
    exact (win_fresh V0 V0_nodup s c n' L' (conj F X) Hr Hmaj He).
  - exists (log (st s c)). left. reflexivity.
  - intros t n L [H|H]; [inversion H; subst; left; reflexivity|].
    right. exact (d_elcr s D t n L H).
Qed.

Lemma log_eqb_eq a b : log_eqb a b = true -> a = b.
Proof. unfold log_eqb. destruct (list_eq_dec entry_eq_dec a b); [auto | discriminate]. Qed.

(* an entry of the term of a request from another node is flushed *)
Lemma other_term_flushed s f m j :
  inv V0 s -> dinv s -> In m (appends s) -> rldr m <> f ->
  (j <= length (log (st s f)))%nat -> term_at (log (st s f)) j = rterm m ->
  (j <= flushed (st s f))%nat.
Proof.
  intros [F X] D Hm Hne Hj Ht. destruct j as [|j]; [lia|].
  destruct (Nat.le_gt_cases (S j) (flushed (st s f))) as [H|H]; [exact H | exfalso].
  simpl in Ht. destruct (nth_error (log (st s f)) j) as [e|] eqn:E.
  - destruct (d_unfl s D f j e E ltac:(lia)) as [L HL].
    destruct (v_msg s X m Hm) as [Lt He]. rewrite Ht in HL.
    destruct (f_es V0 s F _ _ _ _ _ HL He) as [H1 _]. congruence.
  - apply nth_error_None in E. lia.
Qed.

Lemma dinv_recv s f m :
  inv V0 s -> dinv s -> In m (appends s) -> rldr m <> f ->
  xinv (do_recv f m s) -> dinv (do_recv f m s).
Proof.
  intros I D Hm Hne X'. pose proof (k_len _ X' f) as Hk. revert Hk.
  pose proof (d_fl s D f) as Hfl. pose proof (d_cf s D f) as Hcf.
  pose proof (fun j => other_term_flushed s f m j I D Hm Hne) as Hot.
  unfold do_recv. cbv zeta. simpl. rewrite upd_eq. simpl.
  set (lg' := recv_log (log (st s f)) (rprevIdx m) (rents m)).
  set (last := (rprevIdx m + length (rents m))%nat). intro Hk.
  destruct (log_eqb lg' (log (st s f))) eqn:E.
  - apply log_eqb_eq in E.
    constructor; simpl; intros; updall; simpl in *;
      try (eapply (d_elcr s D); eassumption); try apply (d_fl s D); try apply (d_cf s D); try (rewrite E in *; lia).
    + rewrite E in *. destruct H as [H|H]; [inversion H; subst; apply Hot; [assumption | symmetry; assumption]|].
      exact (d_ack s D tc f i j H H0 H1 H2).
    + destruct H as [H|H]; [inversion H; subst; congruence|].
      exact (d_ack s D tc v i j H H0 H1 H2).
    + rewrite E in *. exact (d_unfl s D f j e H H0).
    + exact (d_unfl s D n j e H H0).
  - constructor; simpl; intros; updall; simpl in *;
      try (eapply (d_elcr s D); eassumption); try apply (d_fl s D); try apply (d_cf s D); try lia.
    + destruct H as [H|H]; [inversion H; subst; congruence|].
      exact (d_ack s D tc v i j H H0 H1 H2).
    + exfalso. assert (Hn : nth_error lg' j <> None) by congruence.
      apply nth_error_Some in Hn. lia.
    + exact (d_unfl s D n j e H H0).
Qed.

End StepG.
