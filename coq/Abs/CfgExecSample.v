(* Abs/CfgExecSample.v  A small hand-written observed history, V0 = [1;2;3],
   accepted by the checker of Abs/CfgExec.v; corrupted variants are rejected. *)
From Coq Require Import List NArith Arith Lia Bool.
From Verif Require Import Abs.CfgBase Abs.CfgRaft Abs.CfgRun Abs.CfgExec.
Import ListNotations.
Open Scope N_scope.

Definition sn1 : entry := (1, PData 0).     (* the no-op of term 1 *)
Definition sd5 : entry := (1, PData 5).     (* a client entry *)
Definition sm1 : areq := mkReq 1 1 0 0 [sn1; sd5] 0.
Definition sm2 : areq := mkReq 1 1 2 1 [] 2.

Definition sample_cfg_history : list item :=
  [ (* node 1 times out: term 1, candidate *)
    ([AStart 1], [(1, mkO 1 Candidate [] 0 0); (2, mkO 0 Follower [] 0 0)]);
    (* nodes 2 and 3 grant *)
    ([AGrant 2 1 1 []], [(2, mkO 1 Follower [] 0 0)]);
    ([AGrant 3 1 1 []], [(3, mkO 1 Follower [] 0 0)]);
    (* node 1 counts itself and node 2, wins, appends the no-op *)
    ([ACount 1 1; ACount 1 2; AWin 1], [(1, mkO 1 Leader [sn1] 0 0)]);
    (* client entry; the real leader happens to have flushed the no-op *)
    ([AClient 1 5], [(1, mkO 1 Leader [sn1; sd5] 1 0)]);
    (* send, follower 2 receives *)
    ([ASend 1 0 2 0], []);
    ([ARecv 2 sm1], [(2, mkO 1 Follower [sn1; sd5] 2 0)]);
    (* acknowledgement read, commit *)
    ([AAck 1 2 2; ACommit 1 2 [1; 2]],
     [(1, mkO 1 Leader [sn1; sd5] 2 2); (2, mkO 1 Follower [sn1; sd5] 2 0)]);
    (* heartbeat carries the commit index; the real follower may lag *)
    ([ASend 1 2 0 2; ARecv 2 sm2],
     [(1, mkO 1 Leader [sn1; sd5] 2 2); (2, mkO 1 Follower [sn1; sd5] 2 1)]);
    ([], [(2, mkO 1 Follower [sn1; sd5] 2 2); (3, mkO 1 Follower [] 0 0)]);
    (* the leader appends an entry it does not flush, then crashes and restarts:
       the entry is gone, the commit index is rebuilt from 0 *)
    ([AClient 1 6], [(1, mkO 1 Leader [sn1; sd5; (1, PData 6)] 2 2)]);
    ([ACrash 1 0], [(1, mkO 1 Follower [sn1; sd5] 2 0)]) ].

Example sample_cfg_history_accepted :
  exists s, run_hist [1; 2; 3] sample_cfg_history = HOk s.
Proof. vm_compute. eexists. reflexivity. Qed.

Example sample_cfg_history_explain : explain_all [1; 2; 3] sample_cfg_history = [].
Proof. vm_compute. reflexivity. Qed.

(* corrupted: after the receive, node 2 is observed with a different log *)
Definition sample_cfg_bad_log : list item :=
  firstn 6 sample_cfg_history ++
  [([ARecv 2 sm1], [(2, mkO 1 Follower [sn1; (1, PData 6)] 2 0)])].

Example sample_cfg_bad_log_rejected :
  run_hist [1; 2; 3] sample_cfg_bad_log = HFail 6 2.
Proof. vm_compute. reflexivity. Qed.

(* corrupted: node 3 is observed as a second leader of term 1 *)
Definition sample_cfg_two_leaders : list item :=
  firstn 4 sample_cfg_history ++
  [([], [(1, mkO 1 Leader [sn1] 0 0); (3, mkO 1 Leader [] 0 0)])].

Example sample_cfg_two_leaders_rejected :
  run_hist [1; 2; 3] sample_cfg_two_leaders = HFail 4 14.
Proof. vm_compute. reflexivity. Qed.

(* corrupted: node 3 also "wins" term 1 (it never was a candidate) *)
Definition sample_cfg_second_winner : list item :=
  firstn 4 sample_cfg_history ++ [([ACount 3 3; AWin 3], [])].

Example sample_cfg_second_winner_rejected :
  run_hist [1; 2; 3] sample_cfg_second_winner = HFail 4 1000.
Proof. vm_compute. reflexivity. Qed.

(* corrupted: an observed commit index ahead of the abstract one *)
Definition sample_cfg_commit_ahead : list item :=
  firstn 7 sample_cfg_history ++ [([], [(2, mkO 1 Follower [sn1; sd5] 2 1)])].

Example sample_cfg_commit_ahead_rejected :
  explain_all [1; 2; 3] sample_cfg_commit_ahead = [(7%nat, 3%nat)].
Proof. vm_compute. reflexivity. Qed.

(* corrupted: the follower acknowledged without having flushed everything *)
Definition sample_cfg_not_flushed : list item :=
  firstn 6 sample_cfg_history ++ [([ARecv 2 sm1], [(2, mkO 1 Follower [sn1; sd5] 1 0)])].

Example sample_cfg_not_flushed_rejected :
  run_hist [1; 2; 3] sample_cfg_not_flushed = HFail 6 5.
Proof. vm_compute. reflexivity. Qed.

(* corrupted: after the crash the unflushed entry is still there *)
Definition sample_cfg_crash_keeps : list item :=
  firstn 11 sample_cfg_history ++
  [([ACrash 1 0], [(1, mkO 1 Follower [sn1; sd5; (1, PData 6)] 2 0)])].

Example sample_cfg_crash_keeps_rejected :
  run_hist [1; 2; 3] sample_cfg_crash_keeps = HFail 11 2.
Proof. vm_compute. reflexivity. Qed.

(* instead of crashing, the old leader 1 (entry 3 unflushed) is deposed: node 2
   wins term 2 and its heartbeat changes nothing in node 1's log, so node 1
   flushes nothing (durable prefix still 2 of 3 entries) *)
Definition sm3 : areq := mkReq 2 2 2 1 [] 2.
Definition sample_cfg_heartbeat_no_flush : list item :=
  firstn 11 sample_cfg_history ++
  [ ([AStart 2; AGrant 3 2 2 [sn1; sd5]; ACount 2 2; ACount 2 3; AWin 2],
     [(2, mkO 2 Leader [sn1; sd5; (2, PData 0)] 2 2)]);
    ([ASend 2 2 0 2; ARecv 1 sm3],
     [(1, mkO 2 Follower [sn1; sd5; (1, PData 6)] 2 2)]) ].

Example sample_cfg_heartbeat_no_flush_accepted :
  explain_all [1; 2; 3] sample_cfg_heartbeat_no_flush = [].
Proof. vm_compute. reflexivity. Qed.

(* node 3 lags (empty log): the leader sends it the committed prefix as a
   snapshot; node 3 installs it (durable, committed), the leader reads the
   acknowledgement and goes on replicating normally *)
Definition sm4 : areq := mkReq 1 1 2 1 [(1, PData 6)] 2.
Definition sample_cfg_install : list item :=
  firstn 10 sample_cfg_history ++
  [ ([AInstall 3 1 1 [sn1; sd5] 2], [(3, mkO 1 Follower [sn1; sd5] 2 2)]);
    ([AAck 1 3 2], [(1, mkO 1 Leader [sn1; sd5] 2 2)]);
    ([AClient 1 6; ASend 1 2 1 2], []);
    ([ARecv 3 sm4], [(3, mkO 1 Follower [sn1; sd5; (1, PData 6)] 3 2)]) ].

Example sample_cfg_install_accepted : explain_all [1; 2; 3] sample_cfg_install = [].
Proof. vm_compute. reflexivity. Qed.

(* corrupted: a snapshot whose content was never committed *)
Definition sample_cfg_install_uncommitted : list item :=
  firstn 10 sample_cfg_history ++
  [ ([AInstall 3 1 1 [sn1; sd5; (1, PData 9)] 3], []) ].

Example sample_cfg_install_uncommitted_rejected :
  run_hist [1; 2; 3] sample_cfg_install_uncommitted = HFail 10 1000.
Proof. vm_compute. reflexivity. Qed.

(* the connection breaks after the first of the two entries of the request:
   node 2 has handled (and flushed) that entry only; the request is then
   delivered again in full *)
Definition sample_cfg_cut : list item :=
  firstn 6 sample_cfg_history ++
  [ ([ARecvCut 2 sm1 1], [(2, mkO 1 Follower [sn1] 1 0)]);
    ([ARecv 2 sm1], [(2, mkO 1 Follower [sn1; sd5] 2 0)]);
    ([AAck 1 2 2; ACommit 1 2 [1; 2]], [(1, mkO 1 Leader [sn1; sd5] 2 2)]) ].

Example sample_cfg_cut_accepted : explain_all [1; 2; 3] sample_cfg_cut = [].
Proof. vm_compute. reflexivity. Qed.

(* the abstract commit index of node 2 (2) is ahead of what the real node
   reports after installing a snapshot (1): the abstract node keeps the higher
   value, the observed one lags *)
Definition sample_cfg_install_behind : list item :=
  firstn 10 sample_cfg_history ++
  [ ([AInstall 2 1 1 [sn1] 1], [(2, mkO 1 Follower [sn1; sd5] 2 1)]) ].

Example sample_cfg_install_behind_accepted :
  explain_all [1; 2; 3] sample_cfg_install_behind = [].
Proof. vm_compute. reflexivity. Qed.
