(* Abs/CfgInvStepF.v  Invariant preservation: a leader advances its commit index. *)
From Coq Require Import List NArith Arith Lia Bool.
From Verif Require Import Abs.Quorum Abs.RaftBase Abs.CfgQuorum Abs.CfgBase Abs.CfgRaft
  Abs.CfgInvDefs Abs.CfgInvT Abs.CfgInvFrame Abs.CfgInvStepA.
Import ListNotations.
Open Scope N_scope.

Section StepF.
Variable V0 : list N.

Lemma facts_commit s l k Q :
  inv V0 s -> role (st s l) = Leader ->
  (commit (st s l) < k <= length (log (st s l)))%nat ->
  term_at (log (st s l)) k = cur (st s l) ->
  majority (cfg V0 s l) Q ->
  (forall v, In v Q -> v = l \/ match_ge (matchIdx (st s l)) v k) ->
  facts V0 (do_commit l k s).
Proof.
  intros [F X] Hr Hk Hterm HQ HQa.
  destruct (ldr_log s l X Hr) as [HKl [HlT Hne]].
  set (t := cur (st s l)) in *.
  constructor; simpl; fold t.
  - exact (f_closed V0 s F).
  - exact (f_chain V0 s F).
  - exact (f_cmono V0 s F).
  - exact (f_cel V0 s F).
  - exact (f_es V0 s F).
  - intros t0 n L H. apply (cwon_mono V0 s); simpl; try apply incl_refl; [|exact (f_elwon V0 s F t0 n L H)].
    intros v Hv. apply ev_mono; [apply incl_refl|].
    intros tc i K [Ha|Ha] Ht HK Hl Hlen; simpl in *; [|split; assumption].
    exfalso. inversion Ha. subst tc v i. pose proof (v_le s X _ _ _ Hv). unfold t in *. lia.
  - exact (f_st V0 s F).
  - exact (f_st_one V0 s F).
  - exact (f_one V0 s F).
  - intros tc k0 M [Hc|Hc].
    + inversion Hc. subst tc k0 M. split; [exact HKl|]. split; [exact HlT|].
      split; [exact Hterm|]. split; [lia|]. exists Q. split; [exact HQ|].
      intros v Hv. destruct (HQa v Hv) as [->|[j [Hj Hkj]]].
      * exists k. split; [left; reflexivity | lia].
      * exists j. split; [right; apply (s_mi s X l v j Hr Hj) | exact Hkj].
    + destruct (f_cmt V0 s F tc k0 M Hc) as [H1 [H2 [H3 [H4 [Q0 [HQ0 Ha]]]]]].
      split; [exact H1|]. split; [exact H2|]. split; [exact H3|]. split; [exact H4|].
      exists Q0. split; [exact HQ0|]. intros v Hv.
      apply (ackd_mono s); [apply incl_tl, incl_refl | apply Ha; exact Hv].
  - intros t0 k1 M1 k0 M [H1|H1] [H2|H2] Hlen.
    + inversion H1; inversion H2; subst. lia.
    + inversion H1. subst t0 k1 M1. exfalso.
      destruct (f_cmt V0 s F _ _ _ H2) as [HM [HlM _]].
      pose proof (prefix_length _ _ (c_ldr s X l M Hr HM HlM)). lia.
    + inversion H2. subst t0 k0 M. pose proof (k_lc s X l k1 M1 Hr H1). lia.
    + exact (f_cmt_mono V0 s F t0 k1 M1 k0 M H1 H2 Hlen).
  - intros P t' D H. destruct (f_cfg V0 s F P t' D H) as [H1 [H2 [k1 [M1 [n [Lt [H3 H4]]]]]]].
    split; [exact H1|]. split; [exact H2|]. exists k1, M1, n, Lt. split; [right; exact H3 | exact H4].
Qed.

Lemma xinv_commit s l k :
  inv V0 s -> role (st s l) = Leader ->
  (commit (st s l) < k <= length (log (st s l)))%nat ->
  xinv (do_commit l k s).
Proof.
  intros [F X] Hr Hk.
  destruct (ldr_log s l X Hr) as [HKl [HlT Hne]].
  constructor; simpl; try xfield X; xstep X.
  - split; [reflexivity|]. exists (log (st s v)). repeat split; try assumption. lia.
  - right. xauto X.
  - right. xauto X.
  - apply (c_ldr s X v K Hr); [assumption | congruence].
  - exfalso. destruct (v_ldr s X l Hr) as [Lt [He _]]. destruct (v_ldr s X l0 H) as [Lt0 [He0 _]].
    rewrite <- H2 in He0. destruct (f_es V0 s F _ _ _ _ _ He He0). congruence.
  - match goal with H : In _ (cmts s) |- _ => pose proof (k_lc s X l _ _ Hr H) end. lia.
  - exists (log (st s l)). split; [left; reflexivity | apply prefix_refl].
  - match goal with H : (startIdx _ <= _)%nat, Hl : role (st s l0) = Leader |- _ =>
      destruct (k_lc2 s X l0 Hl H) as [M1 [H1 H2]] end.
    exists M1. split; [right; exact H1 | exact H2].
  - destruct (nth_error (log (st s l)) (k - 1)) as [e0|] eqn:E.
    + destruct H as [H|H].
      * inversion H. subst t i e. exists (log (st s l)). split; [left; reflexivity | exact E].
      * destruct (k_com s X _ _ _ H) as [M [H1 H2]]. exists M. split; [right; exact H1 | exact H2].
    + destruct (k_com s X _ _ _ H) as [M [H1 H2]]. exists M. split; [right; exact H1 | exact H2].
  - right. exists (cur (st s l)), k, (log (st s l)). split; [left; reflexivity|].
    split; [reflexivity|]. split; [lia | reflexivity].
  - destruct (k_nc s X n) as [H0|[t [k0 [M [H1 H2]]]]]; [left; exact H0|].
    right. exists t, k0, M. split; [right; exact H1 | exact H2].
  - destruct (m_c s X m H) as [H0|[t [k0 [M [K [H1 H2]]]]]]; [left; exact H0|].
    right. exists t, k0, M, K. split; [right; exact H1 | exact H2].
Qed.

Lemma inv_commit s l k Q :
  inv V0 s -> role (st s l) = Leader ->
  (commit (st s l) < k <= length (log (st s l)))%nat ->
  term_at (log (st s l)) k = cur (st s l) ->
  majority (cfg V0 s l) Q ->
  (forall v, In v Q -> v = l \/ match_ge (matchIdx (st s l)) v k) ->
  inv V0 (do_commit l k s).
Proof.
  intros I H1 H2 H3 H4 H5.
  split; [apply (facts_commit s l k Q) | apply xinv_commit]; assumption.
Qed.

End StepF.
