(* Abs/CfgBase.v  Entries with configuration payloads, list toolkit for
   Abs/CfgRaft.v.  Standard library + the polymorphic prefix lemmas of
   Abs/RaftBase.v. *)
From Coq Require Import List NArith Arith Lia Bool.
From Verif Require Import Abs.RaftBase.
Import ListNotations.

Inductive payload := PData (x : N) | PCfg (D : list N).

Definition entry := (N * payload)%type.
Definition eterm (e : entry) : N := fst e.

Definition is_cfg (e : entry) : bool :=
  match snd e with PCfg _ => true | PData _ => false end.

Definition payload_eq_dec (a b : payload) : {a = b} + {a <> b}.
Proof. decide equality; [apply N.eq_dec | apply (list_eq_dec N.eq_dec)]. Defined.

Definition entry_eq_dec (a b : entry) : {a = b} + {a <> b}.
Proof. decide equality; [apply payload_eq_dec | apply N.eq_dec]. Defined.

Definition term_at (L : list entry) (i : nat) : N :=
  match i with
  | O => 0%N
  | S j => match nth_error L j with Some e => eterm e | None => 0%N end
  end.

Definition lastTerm (L : list entry) : N := term_at L (length L).

Lemma term_at_nth L i e : nth_error L i = Some e -> term_at L (S i) = eterm e.
Proof. intro H. simpl. rewrite H. reflexivity. Qed.

Lemma nth_error_snoc (L : list entry) e : nth_error (L ++ [e]) (length L) = Some e.
Proof. rewrite nth_error_app2 by lia. rewrite Nat.sub_diag. reflexivity. Qed.

Lemma lastTerm_snoc L e : lastTerm (L ++ [e]) = eterm e.
Proof.
  unfold lastTerm. rewrite app_length. simpl. rewrite Nat.add_1_r. simpl.
  rewrite nth_error_snoc. reflexivity.
Qed.

Lemma lastTerm_nil : lastTerm [] = 0%N.
Proof. reflexivity. Qed.

Lemma term_at_prefix X Y i : prefix X Y -> i <= length X -> term_at X i = term_at Y i.
Proof.
  intros [Z ->] Hi. destruct i as [|j]; [reflexivity|]. simpl.
  rewrite nth_error_app1 by lia. reflexivity.
Qed.

Lemma lastTerm_prefix X Y : prefix X Y -> lastTerm X = term_at Y (length X).
Proof. intro H. unfold lastTerm. apply term_at_prefix; [exact H | lia]. Qed.

Lemma term_at_firstn L i k : i <= k -> term_at (firstn k L) i = term_at L i.
Proof.
  intro H. destruct i as [|j]; [reflexivity|]. simpl.
  rewrite nth_error_firstn. destruct (Nat.ltb_spec j k); [reflexivity | lia].
Qed.

Lemma lastTerm_firstn L i : i <= length L -> lastTerm (firstn i L) = term_at L i.
Proof.
  intro H. unfold lastTerm. rewrite firstn_length_le' by exact H.
  apply term_at_firstn. lia.
Qed.

Lemma term_at_in L i : term_at L i <> 0%N ->
  exists e, nth_error L (i - 1) = Some e /\ eterm e = term_at L i /\ 0 < i <= length L.
Proof.
  destruct i as [|j]; simpl; [congruence|]. rewrite Nat.sub_0_r.
  destruct (nth_error L j) as [e|] eqn:E; [|congruence].
  intros _. exists e. split; [reflexivity|]. split; [reflexivity|].
  assert (j < length L) by (apply nth_error_Some; congruence). lia.
Qed.

(* ---- the follower's merge of request entries into its log tail ---- *)
Fixpoint merge (tl es : list entry) {struct es} : list entry :=
  match es with
  | [] => tl
  | e :: es' =>
      match tl with
      | [] => es
      | x :: tl' => if N.eqb (eterm e) (eterm x) then x :: merge tl' es' else es
      end
  end.

Definition agree (tl es : list entry) : Prop :=
  forall k e x, nth_error es k = Some e -> nth_error tl k = Some x -> eterm e = eterm x -> e = x.

Lemma merge_spec tl es :
  agree tl es ->
  (prefix es tl /\ merge tl es = tl) \/ (~ prefix es tl /\ merge tl es = es).
Proof.
  revert tl. induction es as [|e es IH]; intros tl Hag; simpl.
  - left. split; [apply prefix_nil | reflexivity].
  - destruct tl as [|x tl].
    + right. split; [|reflexivity]. intros H. apply prefix_nil_inv in H. discriminate.
    + destruct (N.eqb_spec (eterm e) (eterm x)) as [Heq|Hne].
      * assert (e = x) as -> by (apply (Hag 0 e x); simpl; auto).
        assert (Hag' : agree tl es).
        { intros k a b Ha Hb. apply (Hag (S k)); simpl; assumption. }
        destruct (IH tl Hag') as [[Hp Hm]|[Hp Hm]].
        -- left. split; [|rewrite Hm; reflexivity].
           apply (prefix_app_cancel [x]). exact Hp.
        -- right. split; [|rewrite Hm; reflexivity].
           intro H. apply Hp. apply (prefix_app_cancel [x]). exact H.
      * right. split; [|reflexivity].
        intros [Z H]. simpl in H. inversion H. subst. apply Hne. reflexivity.
Qed.

(* new log of a follower: keep the first pi entries, merge the rest *)
Definition recv_log (lg : list entry) (pi : nat) (es : list entry) : list entry :=
  firstn pi lg ++ merge (skipn pi lg) es.

Lemma recv_log_spec lg pi es :
  pi <= length lg -> agree (skipn pi lg) es ->
  (prefix (firstn pi lg ++ es) lg /\ recv_log lg pi es = lg) \/
  (~ prefix (firstn pi lg ++ es) lg /\ recv_log lg pi es = firstn pi lg ++ es).
Proof.
  intros Hpi Hag. unfold recv_log.
  destruct (merge_spec _ _ Hag) as [[Hp Hm]|[Hp Hm]]; rewrite Hm.
  - left. split; [|apply firstn_skipn].
    pose proof (prefix_app_cancel (firstn pi lg) es (skipn pi lg)) as Hc.
    rewrite firstn_skipn in Hc. apply Hc. exact Hp.
  - right. split; [|reflexivity]. intro H. apply Hp.
    pose proof (prefix_app_cancel (firstn pi lg) es (skipn pi lg)) as Hc.
    rewrite firstn_skipn in Hc. apply Hc. exact H.
Qed.

(* ---- index (from 1) of the last configuration entry, 0 if none ---- *)
Fixpoint cfg_idx (L : list entry) : nat :=
  match L with
  | [] => 0
  | e :: r => match cfg_idx r with
              | 0 => if is_cfg e then 1 else 0
              | S j => S (S j)
              end
  end.

Lemma cfg_idx_le L : cfg_idx L <= length L.
Proof.
  induction L as [|e r IH]; simpl; [lia|].
  destruct (cfg_idx r); [destruct (is_cfg e); lia | lia].
Qed.

Lemma cfg_idx_at L j : cfg_idx L = S j ->
  exists e, nth_error L j = Some e /\ is_cfg e = true.
Proof.
  revert j. induction L as [|e r IH]; simpl; intros j H; [discriminate|].
  destruct (cfg_idx r) as [|k] eqn:E.
  - destruct (is_cfg e) eqn:Ec; [|discriminate]. inversion H. subst.
    exists e. split; [reflexivity | exact Ec].
  - inversion H. subst. simpl. apply IH. reflexivity.
Qed.

Lemma cfg_idx_after L i e :
  nth_error L i = Some e -> is_cfg e = true -> i < cfg_idx L.
Proof.
  revert i. induction L as [|a r IH]; intros i H Hc; [destruct i; discriminate|].
  simpl. destruct i as [|i]; simpl in H.
  - inversion H. subst. rewrite Hc. destruct (cfg_idx r); lia.
  - specialize (IH i H Hc). destruct (cfg_idx r); lia.
Qed.

Lemma cfg_idx_app X Y :
  cfg_idx (X ++ Y) = match cfg_idx Y with 0 => cfg_idx X | S j => length X + S j end.
Proof.
  induction X as [|a X IH]; simpl.
  - destruct (cfg_idx Y); reflexivity.
  - rewrite IH. destruct (cfg_idx Y); [reflexivity|].
    replace (length X + S n) with (S (length X + n)) by lia. reflexivity.
Qed.

Lemma cfg_idx_snoc L e :
  cfg_idx (L ++ [e]) = if is_cfg e then S (length L) else cfg_idx L.
Proof.
  rewrite cfg_idx_app. simpl. destruct (is_cfg e); [lia | reflexivity].
Qed.

Lemma cfg_idx_prefix X Y : prefix X Y -> cfg_idx Y <= length X -> cfg_idx X = cfg_idx Y.
Proof.
  intros [Z ->] H. rewrite cfg_idx_app in *. destruct (cfg_idx Z); [reflexivity | lia].
Qed.

Lemma cfg_idx_prefix_le X Y : prefix X Y -> cfg_idx X <= cfg_idx Y.
Proof.
  intros [Z ->]. rewrite cfg_idx_app. pose proof (cfg_idx_le X). destruct (cfg_idx Z); lia.
Qed.

(* ---- the configuration a log stands for ---- *)
Definition cfg_of (V0 : list N) (L : list entry) : list N :=
  match cfg_idx L with
  | 0 => V0
  | S j => match nth_error L j with
           | Some (_, PCfg D) => D
           | _ => V0
           end
  end.

Lemma cfg_of_snoc V0 L e :
  cfg_of V0 (L ++ [e]) = match snd e with PCfg D => D | PData _ => cfg_of V0 L end.
Proof.
  unfold cfg_of. rewrite cfg_idx_snoc. unfold is_cfg. destruct e as [t [x|D]]; simpl.
  - destruct (cfg_idx L) as [|j] eqn:E; [reflexivity|].
    pose proof (cfg_idx_le L). rewrite nth_error_app1 by lia. reflexivity.
  - rewrite nth_error_snoc. reflexivity.
Qed.

Lemma cfg_of_prefix V0 X Y : prefix X Y -> cfg_idx Y <= length X -> cfg_of V0 X = cfg_of V0 Y.
Proof.
  intros HP H. unfold cfg_of. rewrite (cfg_idx_prefix X Y HP H).
  destruct (cfg_idx Y) as [|j] eqn:E; [reflexivity|].
  destruct HP as [Z ->]. rewrite nth_error_app1 by lia. reflexivity.
Qed.

Lemma cfg_of_same V0 X Y j :
  cfg_idx X = S j -> cfg_idx Y = S j -> nth_error X j = nth_error Y j ->
  cfg_of V0 X = cfg_of V0 Y.
Proof. intros H1 H2 H3. unfold cfg_of. rewrite H1, H2, H3. reflexivity. Qed.

Lemma cfg_of_none V0 L : cfg_idx L = 0 -> cfg_of V0 L = V0.
Proof. intro H. unfold cfg_of. rewrite H. reflexivity. Qed.

(* ---- terms never decrease along a log ---- *)
Definition mono (L : list entry) : Prop :=
  forall i j e1 e2, i <= j -> nth_error L i = Some e1 -> nth_error L j = Some e2 ->
    (eterm e1 <= eterm e2)%N.

Lemma mono_nil : mono [].
Proof. intros i j e1 e2 _ H. destruct i; discriminate. Qed.

Lemma mono_prefix X Y : prefix X Y -> mono Y -> mono X.
Proof.
  intros [Z ->] H i j e1 e2 Hij H1 H2.
  apply (H i j e1 e2 Hij); rewrite nth_error_app1; auto; apply nth_error_Some; congruence.
Qed.

Lemma mono_last L i e : mono L -> nth_error L i = Some e -> (eterm e <= lastTerm L)%N.
Proof.
  intros H Hi. assert (Hl : i < length L) by (apply nth_error_Some; congruence).
  unfold lastTerm. destruct (length L) as [|n] eqn:E; [lia|]. simpl.
  destruct (nth_error L n) as [e2|] eqn:E2.
  - apply (H i n e e2); [lia | exact Hi | exact E2].
  - apply nth_error_None in E2. lia.
Qed.

Lemma mono_snoc L e : mono L -> (lastTerm L <= eterm e)%N -> mono (L ++ [e]).
Proof.
  intros H Hl i j e1 e2 Hij H1 H2.
  assert (Hj : j < length (L ++ [e])) by (apply nth_error_Some; congruence).
  rewrite app_length in Hj. simpl in Hj.
  destruct (Nat.eq_dec j (length L)) as [->|Hne].
  - rewrite nth_error_snoc in H2. inversion H2. subst e2.
    destruct (Nat.eq_dec i (length L)) as [->|Hne'].
    + rewrite nth_error_snoc in H1. inversion H1. lia.
    + rewrite nth_error_app1 in H1 by lia. pose proof (mono_last L i e1 H H1). lia.
  - rewrite nth_error_app1 in H1, H2 by lia. exact (H i j e1 e2 Hij H1 H2).
Qed.

(* ---- families of created logs: the log tree ---- *)
Section Families.
Variable C : list (list entry).

Definition closed : Prop :=
  forall K, In K C -> forall i, 0 < i <= length K -> In (firstn i K) C.
Definition chain : Prop :=
  forall K1 K2, In K1 C -> In K2 C -> lastTerm K1 = lastTerm K2 -> comparable K1 K2.
Definition wf (L : list entry) : Prop :=
  forall i, 0 < i <= length L -> In (firstn i L) C.

Lemma wf_nil : wf [].
Proof. intros i H. simpl in H. lia. Qed.

Lemma wf_prefix X Y : wf Y -> prefix X Y -> wf X.
Proof.
  intros H HP i Hi. pose proof (prefix_length _ _ HP) as Hl.
  rewrite (prefix_firstn_firstn X Y i HP) by lia. apply H. lia.
Qed.

Lemma wf_created K : closed -> In K C -> wf K.
Proof. intros Hc HK i Hi. exact (Hc K HK i Hi). Qed.

Lemma wf_self L : wf L -> L <> [] -> In L C.
Proof.
  intros H Hne. rewrite <- (firstn_all L). apply H.
  destruct L; [congruence | simpl; lia].
Qed.

Lemma wf_match L1 L2 i :
  chain -> wf L1 -> wf L2 -> 0 < i -> i <= length L1 -> i <= length L2 ->
  term_at L1 i = term_at L2 i -> firstn i L1 = firstn i L2.
Proof.
  intros Hch H1 H2 H0 Hi1 Hi2 Ht.
  assert (Hc : comparable (firstn i L1) (firstn i L2)).
  { apply Hch; [apply H1; lia | apply H2; lia |].
    rewrite !lastTerm_firstn by assumption. exact Ht. }
  destruct Hc as [Hp|Hp].
  - apply prefix_same_length; [exact Hp|]. rewrite !firstn_length_le' by assumption. lia.
  - symmetry. apply prefix_same_length; [exact Hp|]. rewrite !firstn_length_le' by assumption. lia.
Qed.

Lemma wf_match_entry L1 L2 j e1 e2 :
  chain -> wf L1 -> wf L2 -> nth_error L1 j = Some e1 -> nth_error L2 j = Some e2 ->
  eterm e1 = eterm e2 -> e1 = e2.
Proof.
  intros Hch H1 H2 E1 E2 Ht.
  assert (Hl1 : j < length L1) by (apply nth_error_Some; congruence).
  assert (Hl2 : j < length L2) by (apply nth_error_Some; congruence).
  assert (Hm : firstn (S j) L1 = firstn (S j) L2).
  { apply wf_match; try assumption; try lia. simpl. rewrite E1, E2. exact Ht. }
  assert (Hn : nth_error (firstn (S j) L1) j = nth_error (firstn (S j) L2) j) by (rewrite Hm; reflexivity).
  rewrite !nth_error_firstn in Hn. destruct (Nat.ltb_spec j (S j)); [|lia]. congruence.
Qed.
End Families.

Lemma wf_mono C C' L : incl C C' -> wf C L -> wf C' L.
Proof. intros Hi H i Hl. apply Hi, H, Hl. Qed.

(* ---- more list facts ---- *)
Lemma firstn_S_snoc {A} (L : list A) j e :
  nth_error L j = Some e -> firstn (S j) L = firstn j L ++ [e].
Proof.
  revert j. induction L as [|a L IH]; intros j H; [destruct j; discriminate|].
  destruct j as [|j]; simpl in *.
  - inversion H. reflexivity.
  - rewrite (IH j H). reflexivity.
Qed.

Lemma cfg_idx_split V0 L j : cfg_idx L = S j ->
  exists t D, nth_error L j = Some (t, PCfg D) /\
              firstn (S j) L = firstn j L ++ [(t, PCfg D)] /\ cfg_of V0 L = D.
Proof.
  intro H. destruct (cfg_idx_at L j H) as [[t p] [He Hc]].
  unfold is_cfg in Hc. simpl in Hc. destruct p as [x|D]; [discriminate|].
  exists t, D. split; [exact He|]. split; [apply firstn_S_snoc; exact He|].
  unfold cfg_of. rewrite H, He. reflexivity.
Qed.

Lemma cfg_idx_firstn_le L i : cfg_idx (firstn i L) <= cfg_idx L.
Proof. apply cfg_idx_prefix_le. apply firstn_prefix. Qed.

(* a configuration entry of Y lying inside the prefix X is seen by cfg_idx X *)
Lemma cfg_idx_inside X Y i e :
  prefix X Y -> nth_error Y i = Some e -> is_cfg e = true -> i < length X -> i < cfg_idx X.
Proof.
  intros [Z ->] H Hc Hi. rewrite nth_error_app1 in H by exact Hi.
  exact (cfg_idx_after X i e H Hc).
Qed.

Lemma prefix_firstn_both {A} (X Y : list A) i : prefix X Y -> prefix (firstn i X) (firstn i Y).
Proof.
  intros [Z ->]. destruct (Nat.le_gt_cases i (length X)).
  - rewrite firstn_app_le by exact H. apply prefix_refl.
  - rewrite (firstn_all2 X) by lia. rewrite firstn_app.
    rewrite (firstn_all2 X) by lia. apply prefix_app.
Qed.

Lemma prefix_firstn_len {A} (X Y : list A) : prefix X Y -> firstn (length X) Y = X.
Proof. apply prefix_firstn_eq. Qed.

Lemma eprefix_dec (X Y : list entry) : {prefix X Y} + {~ prefix X Y}.
Proof.
  destruct (list_eq_dec entry_eq_dec (firstn (length X) Y) X) as [H|H].
  - left. apply prefix_iff. exact H.
  - right. intro HP. apply H. apply prefix_iff. exact HP.
Defined.

Lemma prefix_nth {A} (X Y : list A) i : prefix X Y -> i < length X -> nth_error X i = nth_error Y i.
Proof. intros [Z ->] H. rewrite nth_error_app1 by exact H. reflexivity. Qed.

(* L contains the first g entries of M: shorter cuts coincide *)
Lemma firstn_shared {A} (M L : list A) g h :
  prefix (firstn g M) L -> g <= length M -> h <= g -> firstn h L = firstn h M.
Proof.
  intros HP Hg Hh.
  rewrite <- (prefix_firstn_firstn (firstn g M) L h HP) by (rewrite firstn_length_le' by lia; lia).
  rewrite firstn_firstn. f_equal. lia.
Qed.

Lemma nth_shared {A} (M L : list A) g i :
  prefix (firstn g M) L -> g <= length M -> i < g -> nth_error L i = nth_error M i.
Proof.
  intros HP Hg Hi. rewrite <- (prefix_nth _ _ i HP) by (rewrite firstn_length_le' by lia; lia).
  rewrite nth_error_firstn. destruct (Nat.ltb_spec i g); [reflexivity | lia].
Qed.

Lemma firstn_is_prefix_of {A} (M L : list A) g h :
  prefix (firstn g M) L -> g <= length M -> h <= g -> prefix (firstn h L) M.
Proof.
  intros HP Hg Hh. rewrite (firstn_shared M L g h HP Hg Hh). apply firstn_prefix.
Qed.

Lemma lastTerm_nth (L : list entry) : L <> [] ->
  exists e, nth_error L (length L - 1) = Some e /\ eterm e = lastTerm L.
Proof.
  intro H. unfold lastTerm. destruct (length L) as [|n] eqn:E.
  - destruct L; [congruence | discriminate].
  - simpl. rewrite Nat.sub_0_r. destruct (nth_error L n) as [e|] eqn:E2.
    + exists e. split; reflexivity.
    + apply nth_error_None in E2. lia.
Qed.

Lemma lastTerm_le_prefix K L : prefix K L -> mono L -> K <> [] -> (lastTerm K <= lastTerm L)%N.
Proof.
  intros HP Hm Hne. destruct (lastTerm_nth K Hne) as [e [He <-]].
  apply (mono_last L (length K - 1) e Hm).
  rewrite <- (prefix_nth K L _ HP); [exact He|]. destruct K; [congruence | simpl; lia].
Qed.

Lemma lastTerm_nonzero_ne L : lastTerm L <> 0%N -> L <> [].
Proof. intros H E. subst. apply H. reflexivity. Qed.
