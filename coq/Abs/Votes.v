(* Abs/Votes.v  Vote layer of RaftAbs: relational model and election safety.

   Node ids are N (0 = "none").  V is the static list of voters.  Per node:
   persisted (cur, vote), volatile (role, got).  Global: in-flight granted
   replies [grants] (may be lost or delayed, consumed at most once), ghost
   histories [votes] and [elected] which no guard ever reads.

   Every step is "guard premises" + a state transformer do_xxx, so that
   concrete runs can be built and evaluated (see Props/C01.v).

   Main results (for every V, every reachable state):
     election_safety, leader_was_elected, one_vote_per_term, elected_has_quorum.
   No axioms, no functional extensionality. *)
From Coq Require Import List NArith Arith Lia Bool.
From Verif Require Import Abs.Quorum.
Import ListNotations.
Open Scope N_scope.

Inductive Role := Follower | Candidate | Leader.

Record nstate := mkN {
  cur  : N;        (* current term, persisted *)
  vote : N;        (* voted-for in cur, 0 = none, persisted *)
  role : Role;
  got  : list N    (* voters whose granted reply was counted in this election *)
}.

Definition vrec := (N * N * N)%type.   (* (term, voter, candidate) *)

Record state := mkS {
  st      : N -> nstate;
  grants  : list vrec;          (* in-flight "vote granted" replies *)
  votes   : list vrec;          (* ghost: every grant and self-vote ever made *)
  elected : list (N * N)        (* ghost: (term, node) for every Win *)
}.

(* ---- function update, without functional extensionality ---- *)

Definition upd (f : N -> nstate) (n : N) (x : nstate) : N -> nstate :=
  fun m => if N.eqb m n then x else f m.

Lemma upd_eq f n x : upd f n x n = x.
Proof. unfold upd. rewrite N.eqb_refl. reflexivity. Qed.

Lemma upd_neq f n x m : m <> n -> upd f n x m = f m.
Proof.
  intro Hne. unfold upd. destruct (N.eqb_spec m n) as [Heq|_]; [contradiction|reflexivity].
Qed.

(* ---- removing one occurrence of an in-flight reply ---- *)

Definition veqb (a b : vrec) : bool :=
  (fst (fst a) =? fst (fst b)) && (snd (fst a) =? snd (fst b)) && (snd a =? snd b).

Lemma veqb_eq a b : veqb a b = true <-> a = b.
Proof.
  destruct a as [[a1 a2] a3], b as [[b1 b2] b3]. unfold veqb. simpl.
  rewrite !andb_true_iff, !N.eqb_eq. split.
  - intros [[H1 H2] H3]. subst. reflexivity.
  - intro H. inversion H. auto.
Qed.

Fixpoint remove1 (g : vrec) (l : list vrec) : list vrec :=
  match l with
  | [] => []
  | x :: r => if veqb g x then r else x :: remove1 g r
  end.

Lemma remove1_incl g l x : In x (remove1 g l) -> In x l.
Proof.
  induction l as [|y r IH]; simpl; [tauto|].
  destruct (veqb g y); simpl; [tauto|]. intros [H|H]; [left; exact H | right; exact (IH H)].
Qed.

Lemma remove1_length g l : In g l -> S (length (remove1 g l)) = length l.
Proof.
  induction l as [|y r IH]; simpl; [tauto|].
  destruct (veqb g y) eqn:E; [reflexivity|].
  intros [H|H].
  - subst y. assert (veqb g g = true) as E' by (apply veqb_eq; reflexivity). congruence.
  - simpl. rewrite (IH H). reflexivity.
Qed.

(* ---- initial state and state transformers ---- *)

Definition init : state := mkS (fun _ => mkN 1 0 Follower []) [] [] [].

(* election timeout / timeout-now: new term, vote for self, the self-vote is
   queued like any other granted reply *)
Definition do_start (n : N) (s : state) : state :=
  mkS (upd (st s) n (mkN (cur (st s n) + 1) n Candidate []))
      ((cur (st s n) + 1, n, n) :: grants s)
      ((cur (st s n) + 1, n, n) :: votes s)
      (elected s).

(* v grants its vote for term t to candidate c; steps down iff the term is new *)
Definition do_grant (v t c : N) (s : state) : state :=
  mkS (upd (st s) v
         (mkN t c
              (if cur (st s v) <? t then Follower else role (st s v))
              (if cur (st s v) <? t then [] else got (st s v))))
      ((t, v, c) :: grants s)
      ((t, v, c) :: votes s)
      (elected s).

(* setTerm: a higher term seen in any message *)
Definition do_bump (n t : N) (s : state) : state :=
  mkS (upd (st s) n (mkN t 0 Follower [])) (grants s) (votes s) (elected s).

(* step down without term change; also crash + restart (cur, vote persisted) *)
Definition do_follow (n : N) (s : state) : state :=
  mkS (upd (st s) n (mkN (cur (st s n)) (vote (st s n)) Follower []))
      (grants s) (votes s) (elected s).

Definition do_count (c v : N) (s : state) : state :=
  mkS (upd (st s) c (mkN (cur (st s c)) (vote (st s c)) Candidate (v :: got (st s c))))
      (remove1 (cur (st s c), v, c) (grants s))
      (votes s)
      (elected s).

Definition do_win (c : N) (s : state) : state :=
  mkS (upd (st s) c (mkN (cur (st s c)) (vote (st s c)) Leader (got (st s c))))
      (grants s) (votes s)
      ((cur (st s c), c) :: elected s).

Definition do_lose (g : vrec) (s : state) : state :=
  mkS (st s) (remove1 g (grants s)) (votes s) (elected s).

Section Votes.
Variable V : list N.

(* the counter kept by the implementation instead of [got] *)
Definition votes_needed (s : state) (n : N) : nat :=
  (quorum V - length (got (st s n)))%nat.

Lemma votes_needed_zero_iff s n :
  votes_needed s n = 0%nat <-> (2 * length (got (st s n)) > length V)%nat.
Proof. apply quorum_reached_iff. Qed.

Inductive step (s : state) : state -> Prop :=
| SStart : forall n,
    n <> 0 ->
    role (st s n) <> Leader ->
    step s (do_start n s)
| SGrant : forall v t c,
    c <> 0 ->
    (cur (st s v) < t \/ (t = cur (st s v) /\ (vote (st s v) = 0 \/ vote (st s v) = c))) ->
    step s (do_grant v t c s)
| SBump : forall n t,
    cur (st s n) < t ->
    step s (do_bump n t s)
| SStepDown : forall n,
    step s (do_follow n s)
| SRestart : forall n,
    step s (do_follow n s)
| SCount : forall c v,
    role (st s c) = Candidate ->
    In v V ->
    In (cur (st s c), v, c) (grants s) ->
    ~ In v (got (st s c)) ->
    step s (do_count c v s)
| SWin : forall c,
    role (st s c) = Candidate ->
    (2 * length (got (st s c)) > length V)%nat ->
    step s (do_win c s)
| SLose : forall g,
    step s (do_lose g s).

Inductive Reachable : state -> Prop :=
| R_init : Reachable init
| R_step : forall s s', Reachable s -> step s s' -> Reachable s'.

(* ---- the inductive invariant ---- *)

Record inv (s : state) : Prop := mkInv {
  (* a: a recorded vote is for a real node, is not from the future, and the
        vote of the current term is the persisted one *)
  inv_a : forall t v c, In (t, v, c) (votes s) ->
            c <> 0 /\ t <= cur (st s v) /\ (t = cur (st s v) -> vote (st s v) = c);
  (* b: at most one vote per (term, voter) *)
  inv_b : forall t v c1 c2, In (t, v, c1) (votes s) -> In (t, v, c2) (votes s) -> c1 = c2;
  (* c: every in-flight granted reply was really granted *)
  inv_c : forall g, In g (grants s) -> In g (votes s);
  (* d: what a candidate/leader counted are distinct voters that voted for it
        in its current term *)
  inv_d : forall n, role (st s n) <> Follower ->
            NoDup (got (st s n)) /\ incl (got (st s n)) V /\
            forall v, In v (got (st s n)) -> In (cur (st s n), v, n) (votes s);
  (* e: every election was won with a majority of recorded votes *)
  inv_e : forall t n, In (t, n) (elected s) ->
            exists Q, majority V Q /\ forall v, In v Q -> In (t, v, n) (votes s);
  (* f: a node in role Leader won the election of its current term *)
  inv_f : forall n, role (st s n) = Leader -> In (cur (st s n), n) (elected s)
}.

Lemma inv_init : inv init.
Proof.
  constructor; simpl.
  - intros t v c [].
  - intros t v c1 c2 [].
  - intros g [].
  - intros n H. exfalso. apply H. reflexivity.
  - intros t n [].
  - intros n H. discriminate H.
Qed.

(* case split on a looked-up node against the updated one *)
Ltac upd_case m n :=
  let Hne := fresh "Hne" in
  destruct (N.eq_dec m n) as [->|Hne];
  [ rewrite ?upd_eq in * | rewrite ?(upd_neq _ _ _ _ Hne) in * ].

Lemma inv_start s n :
  inv s -> n <> 0 -> role (st s n) <> Leader -> inv (do_start n s).
Proof.
  intros [Ha Hb Hc Hd He Hf] Hn0 Hrole.
  assert (Hfresh : forall c, ~ In (cur (st s n) + 1, n, c) (votes s)).
  { intros c Hin. destruct (Ha _ _ _ Hin) as [_ [Hle _]]. lia. }
  constructor; unfold do_start; simpl.
  - intros t v c [Heq|Hin].
    + inversion Heq; subst. rewrite upd_eq. simpl. repeat split; auto. lia.
    + destruct (Ha _ _ _ Hin) as [H1 [H2 H3]].
      upd_case v n; simpl.
      * repeat split; auto; try lia.
      * auto.
  - intros t v c1 c2 [Heq1|Hin1] [Heq2|Hin2].
    + congruence.
    + inversion Heq1; subst. exfalso. exact (Hfresh _ Hin2).
    + inversion Heq2; subst. exfalso. exact (Hfresh _ Hin1).
    + exact (Hb _ _ _ _ Hin1 Hin2).
  - intros g [Heq|Hin]; [left; exact Heq | right; exact (Hc _ Hin)].
  - intros m. upd_case m n; simpl.
    + intros _. split; [constructor|]. split; [apply incl_nil_l|]. intros v [].
    + intros Hr. destruct (Hd _ Hr) as [H1 [H2 H3]]. repeat split; auto.
  - intros t m Hin. destruct (He _ _ Hin) as [Q [HQ HQv]].
    exists Q. split; [exact HQ|]. intros v Hv. right. exact (HQv _ Hv).
  - intros m. upd_case m n; simpl.
    + intro H; discriminate H.
    + apply Hf.
Qed.

Lemma inv_grant s v t c :
  inv s -> c <> 0 ->
  (cur (st s v) < t \/ (t = cur (st s v) /\ (vote (st s v) = 0 \/ vote (st s v) = c))) ->
  inv (do_grant v t c s).
Proof.
  intros [Ha Hb Hc Hd He Hf] Hc0 Hguard.
  (* any earlier vote of v in term t is for c *)
  assert (Hsame : forall c', In (t, v, c') (votes s) -> c' = c).
  { intros c' Hin. destruct (Ha _ _ _ Hin) as [H1 [H2 H3]].
    destruct Hguard as [Hlt|[Heq [Hv|Hv]]].
    - lia.
    - exfalso. apply H1. rewrite <- (H3 Heq). exact Hv.
    - rewrite <- (H3 Heq). exact Hv. }
  assert (Hle : cur (st s v) <= t) by (destruct Hguard as [Hlt|[Heq _]]; lia).
  constructor; unfold do_grant; simpl.
  - intros t0 v0 c0 [Heq|Hin].
    + inversion Heq; subst. rewrite upd_eq. simpl. repeat split; auto. lia.
    + destruct (Ha _ _ _ Hin) as [H1 [H2 H3]].
      upd_case v0 v; simpl.
      * split; [exact H1|]. split; [lia|]. intros Ht. subst t0.
        symmetry. apply Hsame. exact Hin.
      * auto.
  - intros t0 v0 c1 c2 [Heq1|Hin1] [Heq2|Hin2].
    + congruence.
    + inversion Heq1; subst. symmetry. apply Hsame. exact Hin2.
    + inversion Heq2; subst. apply Hsame. exact Hin1.
    + exact (Hb _ _ _ _ Hin1 Hin2).
  - intros g [Heq|Hin]; [left; exact Heq | right; exact (Hc _ Hin)].
  - intros m. upd_case m v; simpl.
    + destruct (N.ltb_spec (cur (st s v)) t) as [Hlt|Hge].
      * intros H. exfalso. apply H. reflexivity.
      * intros Hr. assert (t = cur (st s v)) as -> by lia.
        destruct (Hd _ Hr) as [H1 [H2 H3]]. repeat split; auto.
    + intros Hr. destruct (Hd _ Hr) as [H1 [H2 H3]]. repeat split; auto.
  - intros t0 m Hin. destruct (He _ _ Hin) as [Q [HQ HQv]].
    exists Q. split; [exact HQ|]. intros v0 Hv. right. exact (HQv _ Hv).
  - intros m. upd_case m v; simpl.
    + destruct (N.ltb_spec (cur (st s v)) t) as [Hlt|Hge].
      * intro H; discriminate H.
      * intros Hr. assert (t = cur (st s v)) as -> by lia. exact (Hf _ Hr).
    + apply Hf.
Qed.

Lemma inv_bump s n t : inv s -> cur (st s n) < t -> inv (do_bump n t s).
Proof.
  intros [Ha Hb Hc Hd He Hf] Hlt.
  constructor; unfold do_bump; simpl; auto.
  - intros t0 v c Hin. destruct (Ha _ _ _ Hin) as [H1 [H2 H3]].
    upd_case v n; simpl.
    + split; [exact H1|]. split; lia.
    + auto.
  - intros m. upd_case m n; simpl.
    + intros H. exfalso. apply H. reflexivity.
    + apply Hd.
  - intros m. upd_case m n; simpl.
    + intro H; discriminate H.
    + apply Hf.
Qed.

Lemma inv_follow s n : inv s -> inv (do_follow n s).
Proof.
  intros [Ha Hb Hc Hd He Hf].
  constructor; unfold do_follow; simpl; auto.
  - intros t v c Hin. destruct (Ha _ _ _ Hin) as [H1 [H2 H3]].
    upd_case v n; simpl; auto.
  - intros m. upd_case m n; simpl.
    + intros H. exfalso. apply H. reflexivity.
    + apply Hd.
  - intros m. upd_case m n; simpl.
    + intro H; discriminate H.
    + apply Hf.
Qed.

Lemma inv_count s c v :
  inv s -> role (st s c) = Candidate -> In v V ->
  In (cur (st s c), v, c) (grants s) -> ~ In v (got (st s c)) ->
  inv (do_count c v s).
Proof.
  intros [Ha Hb Hc Hd He Hf] Hrole HvV Hin Hnew.
  constructor; unfold do_count; simpl; auto.
  - intros t v0 c0 Hin0. destruct (Ha _ _ _ Hin0) as [H1 [H2 H3]].
    upd_case v0 c; simpl; auto.
  - intros g Hg. apply Hc. exact (remove1_incl _ _ _ Hg).
  - intros m. upd_case m c; simpl.
    + intros _.
      assert (Hr : role (st s c) <> Follower) by (rewrite Hrole; discriminate).
      destruct (Hd _ Hr) as [H1 [H2 H3]].
      split; [constructor; assumption|].
      split; [apply incl_cons; assumption|].
      intros v0 [Heq|Hv0]; [subst v0; apply Hc; exact Hin | exact (H3 _ Hv0)].
    + apply Hd.
  - intros m. upd_case m c; simpl.
    + intro H; discriminate H.
    + apply Hf.
Qed.

Lemma inv_win s c :
  inv s -> role (st s c) = Candidate ->
  (2 * length (got (st s c)) > length V)%nat -> inv (do_win c s).
Proof.
  intros [Ha Hb Hc Hd He Hf] Hrole Hmaj.
  assert (Hr : role (st s c) <> Follower) by (rewrite Hrole; discriminate).
  destruct (Hd _ Hr) as [Hd1 [Hd2 Hd3]].
  constructor; unfold do_win; simpl; auto.
  - intros t v c0 Hin0. destruct (Ha _ _ _ Hin0) as [H1 [H2 H3]].
    upd_case v c; simpl; auto.
  - intros m. upd_case m c; simpl.
    + intros _. repeat split; auto.
    + apply Hd.
  - intros t m [Heq|Hin].
    + inversion Heq; subst. exists (got (st s m)). split; [|exact Hd3].
      repeat split; assumption.
    + apply He. exact Hin.
  - intros m. upd_case m c; simpl.
    + intros _. left. reflexivity.
    + intros Hm. right. apply Hf. exact Hm.
Qed.

Lemma inv_lose s g : inv s -> inv (do_lose g s).
Proof.
  intros [Ha Hb Hc Hd He Hf].
  constructor; unfold do_lose; simpl; auto.
  intros g0 Hg. apply Hc. exact (remove1_incl _ _ _ Hg).
Qed.

Lemma inv_step s s' : inv s -> step s s' -> inv s'.
Proof.
  intros Hinv Hstep. destruct Hstep.
  - apply inv_start; assumption.
  - apply inv_grant; assumption.
  - apply inv_bump; assumption.
  - apply inv_follow; assumption.
  - apply inv_follow; assumption.
  - apply inv_count; assumption.
  - apply inv_win; assumption.
  - apply inv_lose; assumption.
Qed.

Lemma reachable_inv s : Reachable s -> inv s.
Proof.
  intros Hr. induction Hr as [|s s' _ IH Hstep].
  - exact inv_init.
  - exact (inv_step _ _ IH Hstep).
Qed.

(* ---- consequences; none of them needs NoDup V ---- *)

Lemma election_safety_strong s :
  Reachable s -> forall t n1 n2,
  In (t, n1) (elected s) -> In (t, n2) (elected s) -> n1 = n2.
Proof.
  intros Hr t n1 n2 H1 H2. pose proof (reachable_inv _ Hr) as Hinv.
  destruct (inv_e _ Hinv _ _ H1) as [Q1 [HQ1 Hv1]].
  destruct (inv_e _ Hinv _ _ H2) as [Q2 [HQ2 Hv2]].
  destruct (two_majorities_meet V Q1 Q2 HQ1 HQ2) as [v [Hin1 Hin2]].
  exact (inv_b _ Hinv _ _ _ _ (Hv1 _ Hin1) (Hv2 _ Hin2)).
Qed.

Lemma leader_was_elected_strong s n :
  Reachable s -> role (st s n) = Leader -> In (cur (st s n), n) (elected s).
Proof. intros Hr. exact (inv_f _ (reachable_inv _ Hr) n). Qed.

Lemma one_vote_per_term_sec s t v c1 c2 :
  Reachable s -> In (t, v, c1) (votes s) -> In (t, v, c2) (votes s) -> c1 = c2.
Proof. intros Hr. exact (inv_b _ (reachable_inv _ Hr) t v c1 c2). Qed.

Lemma elected_has_quorum_sec s t n :
  Reachable s -> In (t, n) (elected s) ->
  exists Q, NoDup Q /\ incl Q V /\ (2 * length Q > length V)%nat /\
            forall v, In v Q -> In (t, v, n) (votes s).
Proof.
  intros Hr Hin. destruct (inv_e _ (reachable_inv _ Hr) _ _ Hin) as [Q [[H1 [H2 H3]] H4]].
  exists Q. auto.
Qed.

(* two simultaneous leaders of the same term are the same node *)
Lemma one_leader_per_term_sec s n1 n2 :
  Reachable s -> role (st s n1) = Leader -> role (st s n2) = Leader ->
  cur (st s n1) = cur (st s n2) -> n1 = n2.
Proof.
  intros Hr H1 H2 Heq.
  apply (election_safety_strong s Hr (cur (st s n1)) n1 n2).
  - exact (leader_was_elected_strong _ _ Hr H1).
  - rewrite Heq. exact (leader_was_elected_strong _ _ Hr H2).
Qed.

End Votes.

(* ---- closed statements, in the form published by Props/C01.v ---- *)

Theorem election_safety : forall V s, NoDup V -> Reachable V s ->
  forall t n1 n2, In (t, n1) (elected s) -> In (t, n2) (elected s) -> n1 = n2.
Proof. intros V s _ Hr. exact (election_safety_strong V s Hr). Qed.

Theorem leader_was_elected : forall V s n, NoDup V -> Reachable V s ->
  role (st s n) = Leader -> In (cur (st s n), n) (elected s).
Proof. intros V s n _ Hr. exact (leader_was_elected_strong V s n Hr). Qed.

Theorem one_vote_per_term : forall V s t v c1 c2, Reachable V s ->
  In (t, v, c1) (votes s) -> In (t, v, c2) (votes s) -> c1 = c2.
Proof. exact one_vote_per_term_sec. Qed.

Theorem elected_has_quorum : forall V s t n, Reachable V s -> In (t, n) (elected s) ->
  exists Q, NoDup Q /\ incl Q V /\ (2 * length Q > length V)%nat /\
            forall v, In v Q -> In (t, v, n) (votes s).
Proof. exact elected_has_quorum_sec. Qed.

Theorem one_leader_per_term : forall V s n1 n2, Reachable V s ->
  role (st s n1) = Leader -> role (st s n2) = Leader ->
  cur (st s n1) = cur (st s n2) -> n1 = n2.
Proof. exact one_leader_per_term_sec. Qed.
