(* Abs/CfgExecClient.v  An accepted history (Abs/CfgExec.v) is a run of actions
   (Abs/CfgRun.v): its own actions plus an AFlush for every implicit catch-up
   flush.  Hence the "at most once, at one position" theorems of
   Abs/CfgClient.v hold of the observed logs. *)
From Coq Require Import List NArith Arith Lia Bool.
From Verif Require Import Abs.Quorum Abs.RaftBase Abs.CfgQuorum Abs.CfgBase Abs.CfgRaft
  Abs.CfgRun Abs.CfgClient Abs.CfgExec Abs.CfgExecThms.
Import ListNotations.
Open Scope N_scope.

Definition hist_actions (h : list item) : list action := concat (map fst h).

Lemma client_count_app x a b :
  client_count x (a ++ b) = (client_count x a + client_count x b)%nat.
Proof. induction a as [|y a IH]; simpl; [reflexivity | rewrite IH; lia]. Qed.

Section ExecClient.
Variable V0 : list N.

Lemma run_app a1 : forall a2 s s1 s2,
  run V0 true a1 s = Some s1 -> run V0 true a2 s1 = Some s2 ->
  run V0 true (a1 ++ a2) s = Some s2.
Proof.
  induction a1 as [|a r IH]; simpl; intros a2 s s1 s2 H1 H2.
  - inversion H1. subst. exact H2.
  - destruct (guardb V0 true a s); [|discriminate]. exact (IH a2 _ s1 s2 H1 H2).
Qed.

Lemma run_acts_run acts : forall s j s',
  run_acts V0 acts s j = inl s' -> run V0 true acts s = Some s'.
Proof.
  induction acts as [|a r IH]; simpl; intros s j s' H.
  - inversion H. reflexivity.
  - destruct (guardb V0 true a s); [|discriminate]. exact (IH _ _ _ H).
Qed.

(* the catch-up flushes as explicit actions *)
Lemma catch_up_run os : forall s,
  exists fl, run V0 true fl s = Some (catch_up os s) /\ forall x, client_count x fl = 0%nat.
Proof.
  induction os as [|p r IH]; simpl; intro s.
  - exists []. split; reflexivity.
  - destruct ((flushed (st s (fst p)) <? o_flushed (snd p))%nat &&
              (o_flushed (snd p) <=? length (log (st s (fst p))))%nat) eqn:E; [|apply IH].
    destruct (IH (do_flush (fst p) (o_flushed (snd p)) s)) as [fl [H1 H2]].
    exists (AFlush (fst p) (o_flushed (snd p)) :: fl). split.
    + simpl. apply andb_true_iff in E. destruct E as [E1 E2].
      apply Nat.ltb_lt in E1.
      assert (E3 : (flushed (st s (fst p)) <=? o_flushed (snd p))%nat = true)
        by (apply Nat.leb_le; lia).
      rewrite E3, E2. simpl. exact H1.
    + intro x. simpl. apply H2.
Qed.

Lemma run_item_run s it s' :
  run_item V0 s it = inl s' ->
  exists acts, run V0 true acts s = Some s' /\
    forall x, client_count x acts = client_count x (fst it).
Proof.
  unfold run_item. intro H.
  destruct (run_acts V0 (fst it) s 0) as [s1|c] eqn:E; [|discriminate].
  cbv zeta in H.
  destruct (check_obs (catch_up (snd it) s1) (snd it) 0) as [|c]; [|discriminate].
  inversion H. subst s'.
  destruct (catch_up_run (snd it) s1) as [fl [H1 H2]].
  exists (fst it ++ fl). split.
  - exact (run_app _ _ _ _ _ (run_acts_run _ _ _ _ E) H1).
  - intro x. rewrite client_count_app, H2. lia.
Qed.

Lemma run_from_run h : forall k s s',
  run_from V0 k s h = HOk s' ->
  exists acts, run V0 true acts s = Some s' /\
    forall x, client_count x acts = client_count x (hist_actions h).
Proof.
  induction h as [|it r IH]; simpl; intros k s s' H.
  - inversion H. subst. exists []. split; reflexivity.
  - destruct (run_item V0 s it) as [s1|c] eqn:E; [|discriminate].
    destruct (run_item_run s it s1 E) as [a1 [H1 C1]].
    destruct (IH _ _ _ H) as [a2 [H2 C2]].
    exists (a1 ++ a2). split; [exact (run_app _ _ _ _ _ H1 H2)|].
    intro x. unfold hist_actions in *. simpl.
    rewrite !client_count_app, C1, C2. reflexivity.
Qed.

Theorem run_hist_as_run h s :
  run_hist V0 h = HOk s ->
  exists acts, run V0 true acts init = Some s /\
    forall x, client_count x acts = client_count x (hist_actions h).
Proof. apply run_from_run. Qed.

Hypothesis V0_nodup : NoDup V0.

Theorem observed_client_entry_one_position h acts os s x n o m o' i j t t' :
  run_hist V0 (h ++ [(acts, os)]) = HOk s -> x <> 0 ->
  (client_count x (hist_actions (h ++ [(acts, os)])) <= 1)%nat ->
  In (n, o) os -> In (m, o') os ->
  nth_error (o_log o) i = Some (t, PData x) ->
  nth_error (o_log o') j = Some (t', PData x) -> i = j /\ t = t'.
Proof.
  intros Hr Hx Hc H1 H2 E1 E2.
  destruct (run_hist_as_run _ s Hr) as [al [Hrun Hcnt]].
  destruct (last_obs V0 h acts os s Hr n o H1) as [_ [L1 _]].
  destruct (last_obs V0 h acts os s Hr m o' H2) as [_ [L2 _]].
  rewrite <- L1 in E1. rewrite <- L2 in E2.
  apply (client_entry_one_position V0 V0_nodup al s x Hrun Hx
           ltac:(rewrite Hcnt; exact Hc) n m i j t t' E1 E2).
Qed.

Theorem observed_client_entry_never_submitted h acts os s x n o i t :
  run_hist V0 (h ++ [(acts, os)]) = HOk s -> x <> 0 ->
  client_count x (hist_actions (h ++ [(acts, os)])) = 0%nat ->
  In (n, o) os -> nth_error (o_log o) i <> Some (t, PData x).
Proof.
  intros Hr Hx Hc H1 E1.
  destruct (run_hist_as_run _ s Hr) as [al [Hrun Hcnt]].
  destruct (last_obs V0 h acts os s Hr n o H1) as [_ [L1 _]].
  rewrite <- L1 in E1.
  exact (client_entry_never_submitted V0 V0_nodup al s x Hrun Hx
           ltac:(rewrite Hcnt; exact Hc) n i t E1).
Qed.

End ExecClient.
