(* Abs/CfgRaft.v  Abstract Raft with single-voter membership changes carried
   in the log (definitions only).

   An entry is (term, payload), payload = PData x | PCfg voters.  A node always
   acts on the LAST configuration entry of its own log (committed or not), V0 if
   there is none: [cfg_of V0 (log n)].  No snapshot.

   Durable prefix: [flushed n] = length of the durable prefix of [log n]
   (flushed <= length log).  A leader appends WITHOUT flushing (do_win,
   do_append leave [flushed] alone); it flushes up to k before it commits k
   (do_commit: flushed := max flushed k, which covers its ghost self-ack).
   A follower that accepts a request (do_recv) flushes before acknowledging,
   but ONLY if the request changed its log:
       flushed' := if the log changed then length newlog else flushed
   (a heartbeat, or a request whose entries are all present, flushes nothing).
   An unflushed entry can only sit in the log of the node that appended it
   itself as leader (invariant d_unfl), and such a node never answers a request
   of that term, so whatever is acknowledged is durable all the same (d_ack).
   The follower's commit index is advanced within the durable prefix only:
       commit' := max commit (min (min rcommit last) flushed')   last = prevIdx + |ents|
   (the real follower advances it to prevIdx / the last index of the request
   only if that entry carries the leader's term, resp. after a log change and
   flush: both lie within flushed'; the observed commit index may lag).
   SFlush flushes more at any time.  SCrash n c: the node loses the unflushed
   tail (log := firstn flushed log) and all volatile state (role Follower, got,
   matchIdx, startIdx; commit := any c <= old commit); cur and vote persist.
   Acknowledgements already filed stay in [acks].

   STrunc: the network may cut a request after k whole entries (the pool gains
   the shortened request; no answer is lost that was not lost anyway).

   Snapshots: logs are LOGICAL logs, compaction is invisible.  SInstall: a
   follower installs a snapshot standing for a prefix K of the log M some
   leader of a term <= t had when it committed an index >= |K| (see do_install).

   Pools (never consumed: loss, duplication, reordering, arbitrary delay):
     started  vote requests (term, candidate, candidate's log)      (also ghost)
     grants   granted votes (term, voter, candidate)                (also ghost)
     appends  AppendEntries requests
     acks     successful AppendEntries replies (term, follower, matched index),
              read by the leader of that term                       (also ghost)
   Ghost histories (never read by a guard): elected (term, node, log at
   election), created (every log value a leader had right after appending),
   committed (term, index, entry), cmts (term, index, leader's whole log at the
   time of the commit).  The leader's commit step also files the ghost
   acknowledgement (term, leader, index) for itself.

   Every step is guard + computable state transformer do_xxx. *)
From Coq Require Import List NArith Arith Lia Bool.
From Verif Require Import Abs.Quorum Abs.RaftBase Abs.CfgQuorum Abs.CfgBase.
Import ListNotations.
Open Scope N_scope.

Inductive Role := Follower | Candidate | Leader.

Record nstate := mkN {
  cur      : N;
  vote     : option N;
  role     : Role;
  got      : list N;          (* voters counted in this election *)
  log      : list entry;
  flushed  : nat;             (* length of the durable prefix of log *)
  commit   : nat;
  matchIdx : list (N * nat);  (* leader: acknowledgements received *)
  startIdx : nat              (* leader: index of the no-op of its term *)
}.

Record areq := mkReq {
  rterm : N; rldr : N; rprevIdx : nat; rprevTerm : N; rents : list entry; rcommit : nat
}.

Record state := mkS {
  st        : N -> nstate;
  started   : list (N * N * list entry);
  grants    : list (N * N * N);
  appends   : list areq;
  acks      : list (N * N * nat);
  elected   : list (N * N * list entry);
  created   : list (list entry);
  committed : list (N * nat * entry);
  cmts      : list (N * nat * list entry)
}.

Definition upd (f : N -> nstate) (n : N) (x : nstate) : N -> nstate :=
  fun m => if N.eqb m n then x else f m.

Lemma upd_eq f n x : upd f n x n = x.
Proof. unfold upd. rewrite N.eqb_refl. reflexivity. Qed.

Lemma upd_neq f n x m : m <> n -> upd f n x m = f m.
Proof.
  intro Hne. unfold upd. destruct (N.eqb_spec m n) as [Heq|_]; [contradiction|reflexivity].
Qed.

Definition uptodate (Lc Lv : list entry) : Prop :=
  lastTerm Lv < lastTerm Lc \/ (lastTerm Lc = lastTerm Lv /\ (length Lv <= length Lc)%nat).

Definition prev_ok (lg : list entry) (pi : nat) (pt : N) : bool :=
  Nat.eqb pi 0 || (Nat.leb pi (length lg) && (term_at lg pi =? pt)).

Definition match_ge (m : list (N * nat)) (v : N) (k : nat) : Prop :=
  exists j, In (v, j) m /\ (k <= j)%nat.

Definition log_eqb (a b : list entry) : bool :=
  if list_eq_dec entry_eq_dec a b then true else false.

(* K is a prefix of L *)
Definition lprefixb (K L : list entry) : bool := log_eqb (firstn (length K) L) K.

Lemma lprefixb_true K L : lprefixb K L = true -> prefix K L.
Proof.
  unfold lprefixb, log_eqb. destruct (list_eq_dec entry_eq_dec (firstn (length K) L) K) as [E|];
    [|discriminate]. intros _. apply prefix_iff. exact E.
Qed.

Lemma lprefixb_false K L : lprefixb K L = false -> ~ prefix K L.
Proof.
  unfold lprefixb, log_eqb. destruct (list_eq_dec entry_eq_dec (firstn (length K) L) K) as [|E];
    [discriminate|]. intros _ H. apply E. apply prefix_iff. exact H.
Qed.

Definition init : state :=
  mkS (fun _ => mkN 0 None Follower [] [] 0 0 [] 0) [] [] [] [] [] [] [] [].

Section Steps.
Variable V0 : list N.

Definition cfg (s : state) (n : N) : list N := cfg_of V0 (log (st s n)).

(* election timeout *)
Definition do_start (n : N) (s : state) : state :=
  let x := st s n in
  mkS (upd (st s) n (mkN (cur x + 1) (Some n) Candidate [] (log x) (flushed x) (commit x) [] 0))
      ((cur x + 1, n, log x) :: started s) ((cur x + 1, n, n) :: grants s)
      (appends s) (acks s) (elected s) (created s) (committed s) (cmts s).

(* voter v grants the request (t, c, L) *)
Definition do_grant (v t c : N) (s : state) : state :=
  let x := st s v in
  mkS (upd (st s) v (mkN t (Some c) (if cur x <? t then Follower else role x)
                         (if cur x <? t then [] else got x) (log x) (flushed x) (commit x)
                         (matchIdx x) (startIdx x)))
      (started s) ((t, v, c) :: grants s)
      (appends s) (acks s) (elected s) (created s) (committed s) (cmts s).

(* a node sees a higher term *)
Definition do_stepdown (n t : N) (s : state) : state :=
  let x := st s n in
  mkS (upd (st s) n (mkN t None Follower [] (log x) (flushed x) (commit x) [] 0))
      (started s) (grants s)
      (appends s) (acks s) (elected s) (created s) (committed s) (cmts s).

(* candidate c counts the vote of v *)
Definition do_count (c v : N) (s : state) : state :=
  let x := st s c in
  mkS (upd (st s) c (mkN (cur x) (vote x) (role x) (v :: got x) (log x) (flushed x) (commit x)
                         (matchIdx x) (startIdx x)))
      (started s) (grants s)
      (appends s) (acks s) (elected s) (created s) (committed s) (cmts s).

(* candidate c wins: appends the no-op of its term *)
Definition do_win (c : N) (s : state) : state :=
  let x := st s c in
  let L := log x ++ [(cur x, PData 0)] in
  mkS (upd (st s) c (mkN (cur x) (vote x) Leader (got x) L (flushed x) (commit x) [] (length L)))
      (started s) (grants s)
      (appends s) (acks s) ((cur x, c, log x) :: elected s) (L :: created s)
      (committed s) (cmts s).

(* leader l appends an entry with payload p *)
Definition do_append (l : N) (p : payload) (s : state) : state :=
  let x := st s l in
  let L := log x ++ [(cur x, p)] in
  mkS (upd (st s) l (mkN (cur x) (vote x) (role x) (got x) L (flushed x) (commit x)
                         (matchIdx x) (startIdx x)))
      (started s) (grants s)
      (appends s) (acks s) (elected s) (L :: created s) (committed s) (cmts s).

(* leader l sends k entries after index pi, announcing commit index c *)
Definition do_send (l : N) (pi k c : nat) (s : state) : state :=
  let x := st s l in
  mkS (st s) (started s) (grants s)
      (mkReq (cur x) l pi (term_at (log x) pi) (firstn k (skipn pi (log x))) c :: appends s)
      (acks s) (elected s) (created s) (committed s) (cmts s).

(* follower f accepts request m *)
Definition do_recv (f : N) (m : areq) (s : state) : state :=
  let x := st s f in
  let last := (rprevIdx m + length (rents m))%nat in
  let lg' := recv_log (log x) (rprevIdx m) (rents m) in
  let fl' := if log_eqb lg' (log x) then flushed x else length lg' in
  mkS (upd (st s) f (mkN (rterm m) (if cur x <? rterm m then None else vote x) Follower []
                         lg' fl'
                         (Nat.max (commit x) (Nat.min (Nat.min (rcommit m) last) fl')) [] 0))
      (started s) (grants s) (appends s)
      ((rterm m, f, last) :: acks s) (elected s) (created s) (committed s) (cmts s).

(* leader l reads the acknowledgement (cur l, v, i) *)
Definition do_ack (l v : N) (i : nat) (s : state) : state :=
  let x := st s l in
  mkS (upd (st s) l (mkN (cur x) (vote x) (role x) (got x) (log x) (flushed x) (commit x)
                         ((v, i) :: matchIdx x) (startIdx x)))
      (started s) (grants s)
      (appends s) (acks s) (elected s) (created s) (committed s) (cmts s).

(* leader l advances its commit index to k *)
Definition do_commit (l : N) (k : nat) (s : state) : state :=
  let x := st s l in
  mkS (upd (st s) l (mkN (cur x) (vote x) (role x) (got x) (log x)
                         (Nat.max (flushed x) k) k
                         (matchIdx x) (startIdx x)))
      (started s) (grants s) (appends s)
      ((cur x, l, k) :: acks s) (elected s) (created s)
      (match nth_error (log x) (k - 1) with
       | Some e => (cur x, k, e) :: committed s
       | None => committed s
       end)
      ((cur x, k, log x) :: cmts s).

(* node n flushes its log up to index k *)
Definition do_flush (n : N) (k : nat) (s : state) : state :=
  let x := st s n in
  mkS (upd (st s) n (mkN (cur x) (vote x) (role x) (got x) (log x) k (commit x)
                         (matchIdx x) (startIdx x)))
      (started s) (grants s) (appends s) (acks s) (elected s) (created s)
      (committed s) (cmts s).

(* node n crashes and restarts: the unflushed tail and the volatile state are
   lost; the commit index is rebuilt (any value up to the old one) *)
Definition do_crash (n : N) (c : nat) (s : state) : state :=
  let x := st s n in
  mkS (upd (st s) n (mkN (cur x) (vote x) Follower [] (firstn (flushed x) (log x))
                         (flushed x) c [] 0))
      (started s) (grants s) (appends s) (acks s) (elected s) (created s)
      (committed s) (cmts s).

(* follower f installs a snapshot sent by the leader l of term t.  K is the
   prefix of the leader's LOGICAL log the snapshot stands for.  The follower
   keeps its own log when K is a prefix of it and replaces it by K otherwise;
   everything up to |K| is durable; the commit index becomes max (old, c) for
   any c <= max (old, |K|) (the abstract commit index may run ahead of the real
   one, which becomes c: the higher value is kept); the answer acknowledges |K|.  [committed] is left
   alone (it records the entries at the commit points of leaders only). *)
Definition do_install (f t l : N) (K : list entry) (c : nat) (s : state) : state :=
  let x := st s f in
  let same := lprefixb K (log x) in
  mkS (upd (st s) f (mkN t (if cur x <? t then None else vote x) Follower []
                         (if same then log x else K)
                         (if same then Nat.max (flushed x) (length K) else length K)
                         (Nat.max (commit x) c) [] 0))
      (started s) (grants s) (appends s)
      ((t, f, length K) :: acks s) (elected s) (created s) (committed s) (cmts s).

(* the network cuts request m after k whole entries: the follower has handled
   those k entries exactly as if a request carrying only them had arrived *)
Definition trunc_req (m : areq) (k : nat) : areq :=
  mkReq (rterm m) (rldr m) (rprevIdx m) (rprevTerm m) (firstn k (rents m)) (rcommit m).

Definition do_trunc (m : areq) (k : nat) (s : state) : state :=
  mkS (st s) (started s) (grants s) (trunc_req m k :: appends s)
      (acks s) (elected s) (created s) (committed s) (cmts s).

(* gb = true: the reconfiguration guard (b) "the leader has committed an entry
   of its own term" is in force (the model); gb = false: the flawed variant. *)
Inductive gstep (gb : bool) (s : state) : state -> Prop :=
| SStart n : In n (cfg s n) -> gstep gb s (do_start n s)
| SGrant v t c L :
    In (t, c, L) (started s) -> cur (st s v) <= t ->
    (cur (st s v) = t -> vote (st s v) = None \/ vote (st s v) = Some c) ->
    uptodate L (log (st s v)) -> gstep gb s (do_grant v t c s)
| SStepdown n t : cur (st s n) < t -> gstep gb s (do_stepdown n t s)
| SCount c v :
    role (st s c) = Candidate -> In (cur (st s c), v, c) (grants s) ->
    In v (cfg s c) -> ~ In v (got (st s c)) -> gstep gb s (do_count c v s)
| SWin c :
    role (st s c) = Candidate -> majority (cfg s c) (got (st s c)) ->
    gstep gb s (do_win c s)
| SClient l x : role (st s l) = Leader -> gstep gb s (do_append l (PData x) s)
| SReconfig l D :
    role (st s l) = Leader ->
    (cfg_idx (log (st s l)) <= commit (st s l))%nat ->
    (gb = true -> (startIdx (st s l) <= commit (st s l))%nat) ->
    NoDup D -> D <> [] -> near (cfg s l) D ->
    gstep gb s (do_append l (PCfg D) s)
| SSend l pi k c :
    role (st s l) = Leader -> (pi <= length (log (st s l)))%nat ->
    (c <= commit (st s l))%nat -> gstep gb s (do_send l pi k c s)
| SRecv f m :
    In m (appends s) -> cur (st s f) <= rterm m -> rldr m <> f ->
    prev_ok (log (st s f)) (rprevIdx m) (rprevTerm m) = true ->
    gstep gb s (do_recv f m s)
| SAck l v i :
    role (st s l) = Leader -> In (cur (st s l), v, i) (acks s) ->
    gstep gb s (do_ack l v i s)
| SCommit l k Q :
    role (st s l) = Leader ->
    (commit (st s l) < k <= length (log (st s l)))%nat ->
    term_at (log (st s l)) k = cur (st s l) ->
    majority (cfg s l) Q ->
    (forall v, In v Q -> v = l \/ match_ge (matchIdx (st s l)) v k) ->
    gstep gb s (do_commit l k s)
| SFlush n k :
    (flushed (st s n) <= k <= length (log (st s n)))%nat -> gstep gb s (do_flush n k s)
| SCrash n c : (c <= commit (st s n))%nat -> gstep gb s (do_crash n c s)
| SInstall f t l K L0 tc k M c :
    f <> l -> cur (st s f) <= t -> In (t, l, L0) (elected s) ->
    In (tc, k, M) (cmts s) -> tc <= t -> (length K <= k)%nat ->
    K = firstn (length K) M ->
    (c <= Nat.max (commit (st s f)) (length K))%nat ->
    gstep gb s (do_install f t l K c s)
| STrunc m k : In m (appends s) -> gstep gb s (do_trunc m k s).

Definition step := gstep true.

Inductive GReachable (gb : bool) : state -> Prop :=
| GR_init : GReachable gb init
| GR_step s s' : GReachable gb s -> gstep gb s s' -> GReachable gb s'.

Definition Reachable := GReachable true.

(* zero or more steps *)
Inductive gsteps (gb : bool) : state -> state -> Prop :=
| gs_refl s : gsteps gb s s
| gs_cons s s1 s' : gstep gb s s1 -> gsteps gb s1 s' -> gsteps gb s s'.

Lemma gsteps_one gb s s' : gstep gb s s' -> gsteps gb s s'.
Proof. intro H. apply (gs_cons gb s s' s' H). apply gs_refl. Qed.

Lemma gsteps_reachable gb s s' : GReachable gb s -> gsteps gb s s' -> GReachable gb s'.
Proof.
  intros R H. induction H as [|s s1 s' Hs _ IH]; [exact R|].
  apply IH. exact (GR_step gb s s1 R Hs).
Qed.

End Steps.
