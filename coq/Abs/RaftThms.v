(* Abs/RaftThms.v  The log-level safety theorems of the model of Abs/Raft.v,
   derived from the invariants vinv (RaftVotes), linv (RaftLog), sinv (RaftSafe).
   Published by Props/C02.v, C03.v, C06.v. *)
From Coq Require Import List NArith Arith Lia Bool.
From Verif Require Import Abs.Quorum Abs.RaftBase Abs.Raft Abs.RaftVotes Abs.RaftLog Abs.RaftSafe.
Import ListNotations.
Open Scope N_scope.

Lemma comparable_nth {A} (X Y : list A) j a b :
  comparable X Y -> nth_error X j = Some a -> nth_error Y j = Some b -> a = b.
Proof.
  intros [H|H] HX HY.
  - pose proof (prefix_nth_error _ _ _ _ H HX). congruence.
  - pose proof (prefix_nth_error _ _ _ _ H HY). congruence.
Qed.

Section RaftThms.
Variable V : list N.

(* ---- ghost histories only grow ---- *)

Lemma step_committed_mono s s' : step V s s' -> incl (committed s) (committed s').
Proof.
  intros Hstep. destruct Hstep; unfold_do; simpl; try apply incl_refl;
    apply incl_appr, incl_refl.
Qed.

Lemma step_elected_mono s s' : step V s s' -> incl (elected s) (elected s').
Proof.
  intros Hstep. destruct Hstep; unfold_do; simpl; try apply incl_refl.
  apply incl_tl, incl_refl.
Qed.

(* ---- C02: leader completeness ---- *)

Lemma leader_completeness_sec s tc i e t n L :
  Reachable V s -> In (tc, i, e) (committed s) -> In (t, n, L) (elected s) -> tc < t ->
  nth_error L (i - 1) = Some e.
Proof.
  intros Hr Hc He Hlt. destruct (reachable_all V s Hr) as [Hv [Hl Hs]].
  destruct (s_com _ _ Hs _ _ _ Hc) as [K (HK & HT & Hi & HKe & Hch)].
  assert (Hp : prefix K L).
  { apply (s_safe _ _ Hs t n L tc K); try assumption. apply chosen_choosable. exact Hch. }
  exact (prefix_nth_error _ _ _ _ Hp HKe).
Qed.

(* whoever is Leader holds, in its current log, everything committed up to its term *)
Lemma leader_holds_committed_sec s tc i e l :
  Reachable V s -> In (tc, i, e) (committed s) -> role (st s l) = Leader ->
  tc <= cur (st s l) -> nth_error (log (st s l)) (i - 1) = Some e.
Proof.
  intros Hr Hc Hrole Hle. destruct (reachable_all V s Hr) as [Hv [Hl Hs]].
  destruct (vf _ _ Hv _ Hrole) as [L HL].
  pose proof (l_lde _ Hl _ _ Hrole HL) as HpL.
  destruct (N.eq_dec tc (cur (st s l))) as [E|E].
  - destruct (s_com _ _ Hs _ _ _ Hc) as [K (HK & HT & Hi & HKe & Hch)].
    assert (Hp : prefix K (log (st s l))) by (apply (l_ldc _ Hl); congruence).
    exact (prefix_nth_error _ _ _ _ Hp HKe).
  - apply (prefix_nth_error _ _ _ _ HpL).
    apply (leader_completeness_sec s tc i e _ l L Hr Hc HL). lia.
Qed.

Lemma committed_term_le_sec s tc i e :
  Reachable V s -> In (tc, i, e) (committed s) -> eterm e <= tc /\ (1 <= i)%nat.
Proof.
  intros Hr Hc. destruct (reachable_all V s Hr) as [Hv [Hl Hs]].
  destruct (s_com _ _ Hs _ _ _ Hc) as [K (HK & HT & Hi & HKe & Hch)].
  split; [|exact Hi]. rewrite <- HT. apply (l_sorted _ Hl _ HK). eapply nth_error_In. exact HKe.
Qed.

(* ---- C02 (a): at most one entry is ever committed at an index ---- *)

Lemma committed_unique_sec s tc1 tc2 i e1 e2 :
  Reachable V s -> In (tc1, i, e1) (committed s) -> In (tc2, i, e2) (committed s) -> e1 = e2.
Proof.
  intros Hr H1 H2. destruct (reachable_all V s Hr) as [Hv [Hl Hs]].
  destruct (s_com _ _ Hs _ _ _ H1) as [K1 (HK1 & HT1 & _ & He1 & Hch1)].
  destruct (s_com _ _ Hs _ _ _ H2) as [K2 (HK2 & HT2 & _ & He2 & Hch2)].
  assert (Hgen : forall ta tb Ka Kb, In Ka (created s) -> In Kb (created s) ->
            lastTerm Ka = ta -> lastTerm Kb = tb -> chosen V s ta (length Ka) -> ta <= tb ->
            comparable Ka Kb).
  { intros ta tb Ka Kb HKa HKb HTa HTb Hcha Hle.
    destruct (N.eq_dec ta tb) as [E|E].
    - apply (l_keyed _ Hl); congruence.
    - destruct (l_el _ Hl _ HKb) as [n [L HL]]. rewrite HTb in HL.
      assert (HLK : prefix L Kb) by (apply (l_cr1 _ Hl _ n); [exact HKb | rewrite HTb; exact HL]).
      left. apply (prefix_trans _ L); [|exact HLK].
      apply (s_safe _ _ Hs tb n L ta Ka); try assumption; [lia | apply chosen_choosable; exact Hcha]. }
  destruct (N.le_ge_cases tc1 tc2) as [Hle|Hge].
  - exact (comparable_nth _ _ _ _ _ (Hgen _ _ _ _ HK1 HK2 HT1 HT2 Hch1 Hle) He1 He2).
  - symmetry.
    exact (comparable_nth _ _ _ _ _ (Hgen _ _ _ _ HK2 HK1 HT2 HT1 Hch2 Hge) He2 He1).
Qed.

(* ---- C02 (c): what a node has below its commit index is recorded as committed ---- *)

Lemma node_commit_recorded_sec s n i e :
  Reachable V s -> (1 <= i <= commit (st s n))%nat ->
  nth_error (log (st s n)) (i - 1) = Some e ->
  exists tc, tc <= cur (st s n) /\ In (tc, i, e) (committed s).
Proof.
  intros Hr Hi He. destruct (reachable_all V s Hr) as [Hv [Hl Hs]].
  exact (s_nc _ _ Hs _ _ _ Hi He).
Qed.

Lemma commit_le_flushed_sec s n :
  Reachable V s ->
  (commit (st s n) <= flushed (st s n) /\ flushed (st s n) <= length (log (st s n)))%nat.
Proof.
  intros Hr. destruct (reachable_all V s Hr) as [Hv [Hl Hs]].
  split; [exact (s_cf _ _ Hs n) | exact (l_fl _ Hl n)].
Qed.

(* ---- C02 (b): no step, crash included, changes a node's log at or below its
        commit index ---- *)

Lemma commit_stable_sec s s' n i :
  Reachable V s -> step V s s' -> (1 <= i <= commit (st s n))%nat ->
  nth_error (log (st s' n)) (i - 1) = nth_error (log (st s n)) (i - 1).
Proof.
  intros Hr Hstep Hi. destruct (reachable_all V s Hr) as [Hv [Hl Hs]].
  pose proof (s_cf _ _ Hs n) as Hc1. pose proof (l_fl _ Hl n) as Hc2.
  destruct Hstep; unfold_do; simpl;
    try reflexivity;
    try (match goal with |- context [upd _ ?x _ n] => upd_case n x end; simpl; try reflexivity).
  - (* client append *)
    rewrite nth_error_app1 by lia. reflexivity.
  - (* recv append *)
    pose proof (recv_keeps_commit V s f m Hs Hv Hl H H1 H2) as Hk.
    pose proof (prefix_firstn_eq _ _ Hk) as E. rewrite firstn_length_le in E by lia.
    assert (E1 : nth_error (firstn (commit (st s f)) (newlog_of (log (st s f)) m)) (i - 1)
                 = nth_error (firstn (commit (st s f)) (log (st s f))) (i - 1)) by (rewrite E; reflexivity).
    rewrite !nth_error_firstn in E1.
    destruct (Nat.ltb_spec (i - 1) (commit (st s f))); [exact E1 | lia].
  - (* crash *)
    rewrite nth_error_firstn. destruct (Nat.ltb_spec (i - 1) (flushed (st s n0))); [reflexivity | lia].
  - (* install *)
    pose proof (install_keeps_commit V s f K K2 Hs Hv Hl H3 H4 H6) as Hk.
    pose proof (prefix_firstn_eq _ _ Hk) as E. rewrite firstn_length_le in E by lia.
    assert (E1 : nth_error (firstn (commit (st s f))
                              (if prefixb K (log (st s f)) then log (st s f) else K)) (i - 1)
                 = nth_error (firstn (commit (st s f)) (log (st s f))) (i - 1)) by (rewrite E; reflexivity).
    rewrite !nth_error_firstn in E1.
    destruct (Nat.ltb_spec (i - 1) (commit (st s f))); [exact E1 | lia].
Qed.

(* ---- C03: state-machine safety ---- *)

Lemma committed_prefix_agree_sec s n1 n2 c :
  Reachable V s -> (c <= commit (st s n1))%nat -> (c <= commit (st s n2))%nat ->
  firstn c (log (st s n1)) = firstn c (log (st s n2)).
Proof.
  intros Hr H1 H2. destruct (reachable_all V s Hr) as [Hv [Hl Hs]].
  destruct c as [|j]; [reflexivity|].
  pose proof (s_cf _ _ Hs n1). pose proof (l_fl _ Hl n1).
  pose proof (s_cf _ _ Hs n2). pose proof (l_fl _ Hl n2).
  destruct (nth_error (log (st s n1)) j) as [e1|] eqn:E1; [|apply nth_error_None in E1; lia].
  destruct (nth_error (log (st s n2)) j) as [e2|] eqn:E2; [|apply nth_error_None in E2; lia].
  destruct (s_nc _ _ Hs n1 (S j) e1) as [t1 [_ Hc1]]; [lia | simpl; rewrite Nat.sub_0_r; exact E1|].
  destruct (s_nc _ _ Hs n2 (S j) e2) as [t2 [_ Hc2]]; [lia | simpl; rewrite Nat.sub_0_r; exact E2|].
  pose proof (committed_unique_sec s _ _ _ _ _ Hr Hc1 Hc2) as Heq. subst e2.
  apply (wf_match (created s)); try lia.
  - exact (l_keyed _ Hl).
  - exact (l_wfn _ Hl n1).
  - exact (l_wfn _ Hl n2).
  - simpl. rewrite E1, E2. reflexivity.
Qed.

Lemma state_machine_safety_sec s n1 n2 :
  Reachable V s ->
  comparable (firstn (commit (st s n1)) (log (st s n1)))
             (firstn (commit (st s n2)) (log (st s n2))).
Proof.
  intros Hr. destruct (le_ge_dec (commit (st s n1)) (commit (st s n2))) as [H|H].
  - left. rewrite (committed_prefix_agree_sec s n1 n2 _ Hr (le_n _) H).
    apply prefix_firstn_le. exact H.
  - right. rewrite <- (committed_prefix_agree_sec s n1 n2 _ Hr H (le_n _)).
    apply prefix_firstn_le. exact H.
Qed.

(* two nodes never apply different entries at the same index *)
Lemma applied_agree_sec s n1 n2 i e1 e2 :
  Reachable V s -> (1 <= i <= commit (st s n1))%nat -> (i <= commit (st s n2))%nat ->
  nth_error (log (st s n1)) (i - 1) = Some e1 -> nth_error (log (st s n2)) (i - 1) = Some e2 ->
  e1 = e2.
Proof.
  intros Hr H1 H2 E1 E2. destruct (reachable_all V s Hr) as [Hv [Hl Hs]].
  destruct (s_nc _ _ Hs n1 i e1) as [t1 [_ Hc1]]; [lia | exact E1|].
  destruct (s_nc _ _ Hs n2 i e2) as [t2 [_ Hc2]]; [lia | exact E2|].
  exact (committed_unique_sec s _ _ _ _ _ Hr Hc1 Hc2).
Qed.

(* the commit index of a node only grows, except when the node restarts *)
Lemma commit_monotone_sec s s' n :
  step V s s' -> (commit (st s n) <= commit (st s' n))%nat \/ exists c, s' = do_crash n c s.
Proof.
  intros Hstep.
  destruct Hstep; unfold_do; simpl;
    try (left; match goal with |- context [upd _ ?x _ n] => upd_case n x end; simpl; lia);
    try (left; lia).
  - left. upd_case n f; simpl; [apply commit_of_ge | lia].
  - destruct (N.eq_dec n n0) as [->|Hne]; [right; exists c; reflexivity|].
    left. rewrite upd_neq by exact Hne. lia.
Qed.

(* ---- C06: a committed entry is durable on a majority ---- *)

Lemma committed_durable_sec s tc i e :
  Reachable V s -> In (tc, i, e) (committed s) ->
  exists Q, majority V Q /\
    forall v, In v Q -> (i <= flushed (st s v))%nat /\ nth_error (log (st s v)) (i - 1) = Some e.
Proof.
  intros Hr Hc. destruct (reachable_all V s Hr) as [Hv [Hl Hs]].
  destruct (s_com _ _ Hs _ _ _ Hc) as [K (HK & HT & Hi & HKe & Hch)].
  pose proof Hch as [Q [HQ HQv]].
  exists Q. split; [exact HQ|]. intros v Hvq.
  destruct (HQv v Hvq) as [j [Hj1 Hj2]].
  assert (Hh : holds s v K).
  { apply (s_ack _ _ Hs tc v j K); try assumption. apply chosen_choosable. exact Hch. }
  unfold holds in Hh.
  assert (HiK : (i - 1 < length K)%nat) by (apply nth_error_Some; congruence).
  pose proof (prefix_length _ _ Hh) as Hlen. rewrite firstn_length in Hlen.
  split; [lia|].
  pose proof (prefix_nth_error _ _ _ _ Hh HKe) as E. rewrite nth_error_firstn in E.
  destruct (Nat.ltb_spec (i - 1) (flushed (st s v))); [exact E | discriminate E].
Qed.

End RaftThms.

(* ---- closed statements ---- *)

Theorem leader_completeness : forall V s tc i e t n L,
  Reachable V s -> In (tc, i, e) (committed s) -> In (t, n, L) (elected s) -> tc < t ->
  nth_error L (i - 1) = Some e.
Proof. exact leader_completeness_sec. Qed.

Theorem leader_holds_committed : forall V s tc i e l,
  Reachable V s -> In (tc, i, e) (committed s) -> role (st s l) = Leader ->
  tc <= cur (st s l) -> nth_error (log (st s l)) (i - 1) = Some e.
Proof. exact leader_holds_committed_sec. Qed.

Theorem committed_term_le : forall V s tc i e,
  Reachable V s -> In (tc, i, e) (committed s) -> eterm e <= tc /\ (1 <= i)%nat.
Proof. exact committed_term_le_sec. Qed.

Theorem committed_unique : forall V s tc1 tc2 i e1 e2,
  Reachable V s -> In (tc1, i, e1) (committed s) -> In (tc2, i, e2) (committed s) -> e1 = e2.
Proof. exact committed_unique_sec. Qed.

Theorem committed_mono : forall V s s', step V s s' -> incl (committed s) (committed s').
Proof. exact step_committed_mono. Qed.

Theorem elected_mono : forall V s s', step V s s' -> incl (elected s) (elected s').
Proof. exact step_elected_mono. Qed.

Theorem node_commit_recorded : forall V s n i e,
  Reachable V s -> (1 <= i <= commit (st s n))%nat ->
  nth_error (log (st s n)) (i - 1) = Some e ->
  exists tc, tc <= cur (st s n) /\ In (tc, i, e) (committed s).
Proof. exact node_commit_recorded_sec. Qed.

Theorem commit_le_flushed : forall V s n, Reachable V s ->
  (commit (st s n) <= flushed (st s n) /\ flushed (st s n) <= length (log (st s n)))%nat.
Proof. exact commit_le_flushed_sec. Qed.

Theorem commit_stable : forall V s s' n i,
  Reachable V s -> step V s s' -> (1 <= i <= commit (st s n))%nat ->
  nth_error (log (st s' n)) (i - 1) = nth_error (log (st s n)) (i - 1).
Proof. exact commit_stable_sec. Qed.

Theorem state_machine_safety : forall V s n1 n2, Reachable V s ->
  (exists tail, firstn (commit (st s n2)) (log (st s n2))
                = firstn (commit (st s n1)) (log (st s n1)) ++ tail) \/
  (exists tail, firstn (commit (st s n1)) (log (st s n1))
                = firstn (commit (st s n2)) (log (st s n2)) ++ tail).
Proof. exact state_machine_safety_sec. Qed.

Theorem applied_agree : forall V s n1 n2 i e1 e2,
  Reachable V s -> (1 <= i <= commit (st s n1))%nat -> (i <= commit (st s n2))%nat ->
  nth_error (log (st s n1)) (i - 1) = Some e1 -> nth_error (log (st s n2)) (i - 1) = Some e2 ->
  e1 = e2.
Proof. exact applied_agree_sec. Qed.

Theorem commit_monotone : forall V s s' n,
  step V s s' -> (commit (st s n) <= commit (st s' n))%nat \/ exists c, s' = do_crash n c s.
Proof. exact commit_monotone_sec. Qed.

Theorem committed_durable_on_majority : forall V s tc i e,
  Reachable V s -> In (tc, i, e) (committed s) ->
  exists Q, majority V Q /\
    forall v, In v Q -> (i <= flushed (st s v))%nat /\ nth_error (log (st s v)) (i - 1) = Some e.
Proof. exact committed_durable_sec. Qed.
