(* Abs/CfgExec.v  Executable, proved-sound checker that a history observed on
   real nodes is a run of the abstract protocol Abs/CfgRaft.v.

   A history is a list of items; an item is the list of abstract actions one
   observed event amounts to, followed by what some nodes look like afterwards.
   [run_hist V0 h] replays the actions with the boolean guards of Abs/CfgRun.v
   (reconfiguration guard (b) in force) and compares the observations.

   Durable prefix: a real node may flush more than the abstract one has to (it
   also flushes when a log segment fills up), never less.  After the actions of
   an item, every observed node whose abstract [flushed] is below the observed
   one (and the observed one is within the abstract log) takes an implicit
   [do_flush] up to the observed value (an always-enabled SFlush step); then the
   observed and the abstract durable prefix must be equal (code 5). *)
From Coq Require Import List NArith Arith Lia Bool.
From Verif Require Import Abs.Quorum Abs.RaftBase Abs.CfgQuorum Abs.CfgBase Abs.CfgRaft
  Abs.CfgRun.
Import ListNotations.
Open Scope N_scope.

Record obs := mkO { o_cur : N; o_role : Role; o_log : list entry; o_flushed : nat;
                    o_commit : nat }.
Definition item := (list action * list (N * obs))%type.
Inductive hres := HOk (s : state) | HFail (k : nat) (code : nat).

(* an observed Follower matches any abstract role (a real leader may step down
   without a term change) *)
Definition role_okb (ro ra : Role) : bool :=
  match ro with
  | Follower => true
  | Candidate => is_cand ra
  | Leader => is_leader ra
  end.

Lemma role_okb_leader ro ra : role_okb ro ra = true -> ro = Leader -> ra = Leader.
Proof. intros H E. subst ro. apply is_leader_ok. exact H. Qed.

Lemma role_okb_cand ro ra : role_okb ro ra = true -> ro = Candidate -> ra = Candidate.
Proof. intros H E. subst ro. apply is_cand_ok. exact H. Qed.

(* 0 = the node agrees with the observation; 1 term, 2 log, 3 commit index
   (the observed one may lag, never lead), 4 role, 5 durable prefix *)
Definition obs_okb (s : state) (p : N * obs) : nat :=
  let x := st s (fst p) in
  let o := snd p in
  if negb (cur x =? o_cur o) then 1%nat
  else if log_eq_dec (log x) (o_log o) then
    if (o_commit o <=? commit x)%nat then
      if role_okb (o_role o) (role x) then
        if (flushed x =? o_flushed o)%nat then 0%nat else 5%nat
      else 4%nat
    else 3%nat
  else 2%nat.

Lemma obs_okb_ok s n o : obs_okb s (n, o) = 0%nat ->
  cur (st s n) = o_cur o /\ log (st s n) = o_log o /\
  (o_commit o <= commit (st s n))%nat /\
  (o_role o = Leader -> role (st s n) = Leader) /\
  (o_role o = Candidate -> role (st s n) = Candidate) /\
  flushed (st s n) = o_flushed o.
Proof.
  unfold obs_okb. simpl.
  destruct (N.eqb_spec (cur (st s n)) (o_cur o)) as [E1|]; simpl; [|discriminate].
  destruct (log_eq_dec (log (st s n)) (o_log o)) as [E2|]; [|discriminate].
  destruct (Nat.leb_spec (o_commit o) (commit (st s n))) as [E3|]; [|discriminate].
  destruct (role_okb (o_role o) (role (st s n))) eqn:E4; [|discriminate].
  destruct (Nat.eqb_spec (flushed (st s n)) (o_flushed o)) as [E5|]; [|discriminate].
  intros _. repeat split; try assumption.
  - apply role_okb_leader. exact E4.
  - apply role_okb_cand. exact E4.
Qed.

(* first failing observation: its code + 10 * position; 0 = all agree *)
Fixpoint check_obs (s : state) (os : list (N * obs)) (j : nat) : nat :=
  match os with
  | [] => 0%nat
  | p :: r =>
      match obs_okb s p with
      | O => check_obs s r (S j)
      | c => (c + 10 * j)%nat
      end
  end.

Lemma check_obs_ok s os : forall j, check_obs s os j = 0%nat ->
  forall p, In p os -> obs_okb s p = 0%nat.
Proof.
  induction os as [|q r IH]; simpl; intros j H p Hp; [contradiction|].
  destruct (obs_okb s q) as [|c] eqn:E; [|discriminate].
  destruct Hp as [Hp|Hp]; [subst; exact E | exact (IH _ H p Hp)].
Qed.

Section Exec.
Variable V0 : list N.

(* failing action at position j -> code 1000 + j *)
Fixpoint run_acts (acts : list action) (s : state) (j : nat) : state + nat :=
  match acts with
  | [] => inl s
  | a :: r => if guardb V0 true a s then run_acts r (apply a s) (S j)
              else inr (1000 + j)%nat
  end.

Lemma run_acts_sound acts : forall s j s',
  Reachable V0 s -> run_acts acts s j = inl s' -> Reachable V0 s'.
Proof.
  induction acts as [|a r IH]; simpl; intros s j s' Hs H.
  - inversion H. subst. exact Hs.
  - destruct (guardb V0 true a s) eqn:G; [|discriminate].
    apply (IH _ _ _ (gsteps_reachable V0 true s _ Hs (guardb_sound V0 true a s G)) H).
Qed.

(* implicit flushes: the abstract nodes catch up with the observed durable prefixes *)
Fixpoint catch_up (os : list (N * obs)) (s : state) : state :=
  match os with
  | [] => s
  | p :: r =>
      let n := fst p in
      let k := o_flushed (snd p) in
      if (flushed (st s n) <? k)%nat && (k <=? length (log (st s n)))%nat
      then catch_up r (do_flush n k s) else catch_up r s
  end.

Lemma catch_up_sound os : forall s, Reachable V0 s -> Reachable V0 (catch_up os s).
Proof.
  induction os as [|p r IH]; simpl; intros s Hs; [exact Hs|].
  destruct ((flushed (st s (fst p)) <? o_flushed (snd p))%nat &&
            (o_flushed (snd p) <=? length (log (st s (fst p))))%nat) eqn:E; [|exact (IH s Hs)].
  apply IH. apply (GR_step V0 true s _ Hs). apply SFlush.
  apply andb_true_iff in E. destruct E as [E1 E2].
  apply Nat.ltb_lt in E1. apply Nat.leb_le in E2. lia.
Qed.

Definition run_item (s : state) (it : item) : state + nat :=
  match run_acts (fst it) s 0 with
  | inr c => inr c
  | inl s1 =>
      let s' := catch_up (snd it) s1 in
      match check_obs s' (snd it) 0 with
      | O => inl s'
      | c => inr c
      end
  end.

Lemma run_item_sound s it s' :
  Reachable V0 s -> run_item s it = inl s' ->
  Reachable V0 s' /\ forall p, In p (snd it) -> obs_okb s' p = 0%nat.
Proof.
  unfold run_item. intros Hs H.
  destruct (run_acts (fst it) s 0) as [s1|c] eqn:E; [|discriminate].
  cbv zeta in H.
  destruct (check_obs (catch_up (snd it) s1) (snd it) 0) as [|c] eqn:C; [|discriminate].
  inversion H. subst s'. split.
  - apply catch_up_sound. exact (run_acts_sound _ _ _ _ Hs E).
  - exact (check_obs_ok _ _ _ C).
Qed.

Fixpoint run_from (k : nat) (s : state) (h : list item) : hres :=
  match h with
  | [] => HOk s
  | it :: r =>
      match run_item s it with
      | inl s' => run_from (S k) s' r
      | inr c => HFail k c
      end
  end.

Definition run_hist (h : list item) : hres := run_from 0 init h.

Definition explain_all (h : list item) : list (nat * nat) :=
  match run_hist h with HOk _ => [] | HFail k c => [(k, c)] end.
End Exec.

Lemma run_from_reachable V0 h : forall k s s',
  Reachable V0 s -> run_from V0 k s h = HOk s' -> Reachable V0 s'.
Proof.
  induction h as [|it r IH]; simpl; intros k s s' Hs H.
  - inversion H. subst. exact Hs.
  - destruct (run_item V0 s it) as [s1|c] eqn:E; [|discriminate].
    destruct (run_item_sound V0 s it s1 Hs E) as [R1 _]. exact (IH _ _ _ R1 H).
Qed.

Theorem run_hist_reachable V0 h s : run_hist V0 h = HOk s -> Reachable V0 s.
Proof. apply run_from_reachable. apply GR_init. Qed.

Lemma run_from_app V0 h1 h2 : forall k s s',
  run_from V0 k s (h1 ++ h2) = HOk s' ->
  exists s1, run_from V0 k s h1 = HOk s1 /\
             run_from V0 (k + length h1) s1 h2 = HOk s'.
Proof.
  induction h1 as [|it r IH]; simpl; intros k s s' H.
  - exists s. rewrite Nat.add_0_r. split; [reflexivity | exact H].
  - destruct (run_item V0 s it) as [s1|c]; [|discriminate].
    destruct (IH _ _ _ H) as [s2 [H1 H2]]. exists s2. split; [exact H1|].
    replace (k + S (length r))%nat with (S k + length r)%nat by lia. exact H2.
Qed.

Theorem run_hist_prefix V0 h1 h2 s :
  run_hist V0 (h1 ++ h2) = HOk s -> exists s1, run_hist V0 h1 = HOk s1.
Proof.
  intro H. destruct (run_from_app V0 h1 h2 0 init s H) as [s1 [H1 _]].
  exists s1. exact H1.
Qed.

Theorem run_hist_last_obs V0 h acts os s :
  run_hist V0 (h ++ [(acts, os)]) = HOk s -> forall p, In p os -> obs_okb s p = 0%nat.
Proof.
  intro H. destruct (run_from_app V0 h [(acts, os)] 0 init s H) as [s1 [H1 H2]].
  pose proof (run_hist_reachable V0 h s1 H1) as R1.
  simpl in H2. destruct (run_item V0 s1 (acts, os)) as [s2|c] eqn:E; [|discriminate].
  inversion H2. subst s2.
  destruct (run_item_sound V0 s1 (acts, os) s R1 E) as [_ Ho]. exact Ho.
Qed.
