(* Abs/ExecThms.v  What acceptance of an observed history by Abs/Exec.v buys:
   the safety theorems of the abstract protocol, restated on the OBSERVED
   projections of the real nodes (no abstract state in the statements). *)
From Coq Require Import List NArith Arith Lia Bool.
From Verif Require Import Abs.Quorum Abs.RaftBase Abs.Raft Abs.RaftVotes Abs.RaftLog Abs.RaftSafe Abs.RaftThms Abs.Exec.
Import ListNotations.
Open Scope N_scope.

Lemma check_obs_in s os n o : check_obs s os = true -> In (n, o) os ->
  cur (st s n) = o_cur o /\ vote (st s n) = o_vote o /\ role (st s n) = o_role o /\ log (st s n) = o_log o /\
  flushed (st s n) = o_flushed o /\ commit (st s n) = o_commit o.
Proof.
  unfold check_obs. intros H Hin. rewrite forallb_forall in H. specialize (H _ Hin). simpl in H.
  apply obs_matches_ok. exact H.
Qed.

Section Observed.
Variable V : list N.
Variables (tr : list (aevent * list (N * obs))) (e : aevent) (os : list (N * obs)) (s : state).
Hypothesis Hacc : run V (tr ++ [(e, os)]) = ROk s.

Lemma acc_reach : Reachable V s.
Proof. exact (proj1 (run_last_obs V tr e os s Hacc)). Qed.
Lemma acc_obs : check_obs s os = true.
Proof. exact (proj2 (run_last_obs V tr e os s Hacc)). Qed.

(* C01: two observed leaders of one term are one node *)
Lemma observed_one_leader_per_term_sec n1 o1 n2 o2 :
  In (n1, o1) os -> In (n2, o2) os -> o_role o1 = Leader -> o_role o2 = Leader -> o_cur o1 = o_cur o2 -> n1 = n2.
Proof.
  intros H1 H2 R1 R2 C.
  destruct (check_obs_in _ _ _ _ acc_obs H1) as (C1 & _ & Q1 & _).
  destruct (check_obs_in _ _ _ _ acc_obs H2) as (C2 & _ & Q2 & _).
  destruct (reachable_inv V _ acc_reach) as [Hv _].
  destruct (vf _ _ Hv n1) as [L1 HL1]; [congruence|].
  destruct (vf _ _ Hv n2) as [L2 HL2]; [congruence|].
  assert (E : cur (st s n1) = cur (st s n2)) by congruence. rewrite E in HL1.
  exact (proj1 (elected_unique V _ _ _ _ _ _ Hv HL1 HL2)).
Qed.

(* C03: the committed prefixes of two observed nodes never diverge *)
Lemma observed_state_machine_safety_sec n1 o1 n2 o2 :
  In (n1, o1) os -> In (n2, o2) os ->
  (exists tail, firstn (o_commit o2) (o_log o2) = firstn (o_commit o1) (o_log o1) ++ tail) \/
  (exists tail, firstn (o_commit o1) (o_log o1) = firstn (o_commit o2) (o_log o2) ++ tail).
Proof.
  intros H1 H2.
  destruct (check_obs_in _ _ _ _ acc_obs H1) as (_ & _ & _ & L1 & _ & K1).
  destruct (check_obs_in _ _ _ _ acc_obs H2) as (_ & _ & _ & L2 & _ & K2).
  rewrite <- L1, <- L2, <- K1, <- K2. exact (state_machine_safety V s n1 n2 acc_reach).
Qed.

(* C04: log matching between two observed logs *)
Lemma observed_log_matching_sec n1 o1 n2 o2 j e1 e2 :
  In (n1, o1) os -> In (n2, o2) os ->
  nth_error (o_log o1) j = Some e1 -> nth_error (o_log o2) j = Some e2 -> eterm e1 = eterm e2 ->
  e1 = e2 /\ firstn (S j) (o_log o1) = firstn (S j) (o_log o2).
Proof.
  intros H1 H2.
  destruct (check_obs_in _ _ _ _ acc_obs H1) as (_ & _ & _ & L1 & _).
  destruct (check_obs_in _ _ _ _ acc_obs H2) as (_ & _ & _ & L2 & _).
  rewrite <- L1, <- L2. exact (log_matching V s n1 n2 acc_reach j e1 e2).
Qed.

(* C02: an observed leader holds whatever any observed node has below its commit index,
   provided the leader's term is at least that node's term *)
Lemma observed_leader_holds_committed_sec n o l ol i x :
  In (n, o) os -> In (l, ol) os -> o_role ol = Leader -> o_cur o <= o_cur ol ->
  (1 <= i <= o_commit o)%nat -> nth_error (o_log o) (i - 1) = Some x ->
  nth_error (o_log ol) (i - 1) = Some x.
Proof.
  intros H1 H2 R C I X.
  destruct (check_obs_in _ _ _ _ acc_obs H1) as (C1 & _ & _ & L1 & _ & K1).
  destruct (check_obs_in _ _ _ _ acc_obs H2) as (C2 & _ & R2 & L2 & _).
  rewrite <- L1 in X. rewrite <- K1 in I.
  destruct (node_commit_recorded V s n i x acc_reach I X) as [tc [Htc Hin]].
  rewrite <- L2. apply (leader_holds_committed V s tc i x l acc_reach Hin); [congruence|]. lia.
Qed.

(* C06: whatever an observed node has below its commit index is on the stable storage of a
   majority of the voters (abstract state of the accepted run; for listed nodes this is the
   observed flushed prefix) *)
Lemma observed_commit_durable_sec n o i x :
  In (n, o) os -> (1 <= i <= o_commit o)%nat -> nth_error (o_log o) (i - 1) = Some x ->
  exists Q, majority V Q /\ forall v, In v Q ->
    (i <= flushed (st s v))%nat /\ nth_error (log (st s v)) (i - 1) = Some x.
Proof.
  intros H1 I X.
  destruct (check_obs_in _ _ _ _ acc_obs H1) as (_ & _ & _ & L1 & _ & K1).
  rewrite <- L1 in X. rewrite <- K1 in I.
  destruct (node_commit_recorded V s n i x acc_reach I X) as [tc [_ Hin]].
  exact (committed_durable_on_majority V s tc i x acc_reach Hin).
Qed.

End Observed.

(* ---- terms and votes along a history (C05 on observations) ---- *)

Lemma step_term_vote V s s' n : step V s s' ->
  cur (st s n) <= cur (st s' n) /\
  (cur (st s' n) = cur (st s n) -> vote (st s n) <> 0 -> vote (st s' n) = vote (st s n)).
Proof.
  intros Hstep. destruct Hstep; unfold_do; simpl;
    try (match goal with |- context [upd _ ?x _ n] => upd_case n x end); simpl;
    try (split; [lia | intros; reflexivity]);
    (split; [lia|]); intros E Hv;
    repeat match goal with
           | H : _ \/ _ |- _ => destruct H
           | H : _ /\ _ |- _ => destruct H
           | |- context [N.ltb ?a ?b] => destruct (N.ltb_spec a b)
           end; try lia; try congruence; try reflexivity.
Qed.

Lemma steps_term_vote V s s' n : steps V s s' ->
  cur (st s n) <= cur (st s' n) /\
  (cur (st s' n) = cur (st s n) -> vote (st s n) <> 0 -> vote (st s' n) = vote (st s n)).
Proof.
  intros Hs. induction Hs as [|s s' s'' _ [IH1 IH2] Hst]; [split; [lia | intros; reflexivity]|].
  destruct (step_term_vote V s' s'' n Hst) as [S1 S2]. split; [lia|].
  intros E Hv. assert (E1 : cur (st s' n) = cur (st s n)) by lia.
  rewrite <- (IH2 E1 Hv). apply S2; [lia|]. rewrite (IH2 E1 Hv). exact Hv.
Qed.

Lemma run_from_steps V tr : forall k s s', run_from V k s tr = ROk s' -> steps V s s'.
Proof.
  induction tr as [|[e os] r IH]; intros k s s' H; simpl in H.
  - inversion H; subst. apply steps_refl.
  - destruct (explain V s e os) as [s1|] eqn:E; [|discriminate].
    destruct (explain_sound V _ _ _ _ E) as [Hs _].
    exact (steps_trans V _ _ _ Hs (IH _ _ _ H)).
Qed.

Lemma run_from_split V tr1 : forall tr2 k s s', run_from V k s (tr1 ++ tr2) = ROk s' ->
  exists s1, run_from V k s tr1 = ROk s1 /\ run_from V (k + length tr1) s1 tr2 = ROk s'.
Proof.
  induction tr1 as [|[e os] r IH]; intros tr2 k s s' H; simpl in *.
  - exists s. rewrite Nat.add_0_r. split; [reflexivity | exact H].
  - destruct (explain V s e os) as [s1|]; [|discriminate].
    destruct (IH _ _ _ _ H) as [s2 [H1 H2]]. exists s2. split; [exact H1|].
    replace (k + S (length r))%nat with (S k + length r)%nat by lia. exact H2.
Qed.

Lemma run_from_last_obs V tr e os : forall k s s', run_from V k s (tr ++ [(e, os)]) = ROk s' -> check_obs s' os = true.
Proof.
  induction tr as [|[e0 os0] r IH]; intros k s s' H; simpl in H.
  - destruct (explain V s e os) as [s1|] eqn:E; [|discriminate]. inversion H; subst.
    exact (proj2 (explain_sound V _ _ _ _ E)).
  - destruct (explain V s e0 os0) as [s1|]; [|discriminate]. exact (IH _ _ _ H).
Qed.

(* between two observations of one node in an accepted history the term never decreases, and within a
   term a vote once cast stays (crashes and restarts between the two observations included) *)
Theorem observed_term_vote_monotone V tr1 e1 os1 tr2 e2 os2 s2 n o1 o2 :
  run V ((tr1 ++ [(e1, os1)]) ++ tr2 ++ [(e2, os2)]) = ROk s2 ->
  In (n, o1) os1 -> In (n, o2) os2 ->
  o_cur o1 <= o_cur o2 /\ (o_cur o2 = o_cur o1 -> o_vote o1 <> 0 -> o_vote o2 = o_vote o1).
Proof.
  intros H I1 I2. unfold run in H.
  destruct (run_from_split V _ _ _ _ _ H) as [s1 [H1 H2]].
  pose proof (run_from_last_obs V _ _ _ _ _ _ H1) as O1.
  pose proof (run_from_last_obs V _ _ _ _ _ _ H2) as O2.
  pose proof (run_from_steps V _ _ _ _ H2) as Hs.
  destruct (check_obs_in _ _ _ _ O1 I1) as (C1 & V1 & _).
  destruct (check_obs_in _ _ _ _ O2 I2) as (C2 & V2 & _).
  rewrite <- C1, <- C2, <- V1, <- V2. exact (steps_term_vote V s1 s2 n Hs).
Qed.

Theorem accepted_history_is_a_run : forall V tr s, run V tr = ROk s -> Reachable V s.
Proof. exact run_sound. Qed.

Theorem accepted_history_observed : forall V tr e os s,
  run V (tr ++ [(e, os)]) = ROk s -> Reachable V s /\ check_obs s os = true.
Proof. exact run_last_obs. Qed.

Theorem accepted_prefix : forall V tr1 tr2 s, run V (tr1 ++ tr2) = ROk s -> exists s1, run V tr1 = ROk s1.
Proof. intros V tr1 tr2 s H. exact (run_from_app V tr1 tr2 0 init s H). Qed.

Definition observed_one_leader_per_term := observed_one_leader_per_term_sec.
Definition observed_state_machine_safety := observed_state_machine_safety_sec.
Definition observed_log_matching := observed_log_matching_sec.
Definition observed_leader_holds_committed := observed_leader_holds_committed_sec.
Definition observed_commit_durable := observed_commit_durable_sec.
