(* Abs/RaftSafe.v  Commit layer of the model of Abs/Raft.v: the inductive
   invariant [sinv] (Paxos-style formulation of leader completeness).

   For a term tc and a length k, "the prefix of length k of the log of the
   leader of tc" is the member K of [created] with lastTerm K = tc, length K = k
   (unique by [l_keyed]).
     ackd s tc v k      v acknowledged, in term tc, a prefix of length >= k
     chosen s tc k      a majority acknowledged length >= k in term tc
     choosable s tc k   a majority has acknowledged or still could (cur <= tc);
                        can only turn false as the run proceeds
   Core invariants, each of the form "choosable -> ...":
     s_ack   an acknowledged prefix is still durably held by the acknowledger
     s_vote  whoever acknowledged in tc and later voted for c in u > tc: the
             log c campaigned with contains the prefix
     s_safe  every leader elected in u > tc holds the prefix in its election log
   plus the bookkeeping that ties commit indices, leaderCommit fields and the
   ghost [committed] to [chosen]. *)
From Coq Require Import List NArith Arith Lia Bool.
From Verif Require Import Abs.Quorum Abs.RaftBase Abs.Raft Abs.RaftVotes Abs.RaftLog.
Import ListNotations.
Open Scope N_scope.

Section RaftSafe.
Variable V : list N.

Definition holds (s : state) (v : N) (K : list entry) : Prop :=
  prefix K (firstn (flushed (st s v)) (log (st s v))).

Notation chosen := (Raft.chosen V).

Definition choosable (s : state) (tc : N) (k : nat) : Prop :=
  exists Q, majority V Q /\ forall v, In v Q -> ackd s tc v k \/ cur (st s v) <= tc.

Lemma chosen_choosable s tc k : chosen s tc k -> choosable s tc k.
Proof. intros [Q [HQ H]]. exists Q. split; [exact HQ|]. intros v Hv. left. exact (H v Hv). Qed.

Lemma ackd_mono s s' tc v k : incl (acked s) (acked s') -> ackd s tc v k -> ackd s' tc v k.
Proof. intros Hi [i [H1 H2]]. exists i. split; [apply Hi; exact H1 | exact H2]. Qed.

Lemma chosen_mono s s' tc k : incl (acked s) (acked s') -> chosen s tc k -> chosen s' tc k.
Proof.
  intros Hi [Q [HQ H]]. exists Q. split; [exact HQ|]. intros v Hv.
  exact (ackd_mono _ _ _ _ _ Hi (H v Hv)).
Qed.

Lemma chosen_le s tc k k' : (k' <= k)%nat -> chosen s tc k -> chosen s tc k'.
Proof.
  intros Hle [Q [HQ H]]. exists Q. split; [exact HQ|]. intros v Hv.
  destruct (H v Hv) as [i [H1 H2]]. exists i. split; [exact H1 | lia].
Qed.

(* choosability can only be lost: terms grow, and a new acknowledgement is made
   by a node whose term was not above the acknowledged one *)
Lemma choosable_anti s s' tc k :
  (forall v, cur (st s v) <= cur (st s' v)) ->
  (forall t v i, In (t, v, i) (acked s') -> In (t, v, i) (acked s) \/ cur (st s v) <= t) ->
  choosable s' tc k -> choosable s tc k.
Proof.
  intros Hcur Hack [Q [HQ H]]. exists Q. split; [exact HQ|]. intros v Hv.
  destruct (H v Hv) as [[i [H1 H2]]|H1].
  - destruct (Hack _ _ _ H1) as [H3|H3]; [left; exists i; auto | right; exact H3].
  - right. pose proof (Hcur v). lia.
Qed.

Record sinv (s : state) : Prop := mkSI {
  s_at : forall tc v i, In (tc, v, i) (acked s) -> tc <= cur (st s v);
  s_al : forall tc v i, In (tc, v, i) (acked s) -> exists X, lpre s tc X /\ length X = i;
  s_am : forall a, In a (acks s) -> In (aterm a, afrom a, amatch a) (acked s);
  s_mi : forall l v j, role (st s l) = Leader -> In (v, j) (matchIdx (st s l)) ->
           In (cur (st s l), v, j) (acked s);
  s_ack : forall tc v i K, In (tc, v, i) (acked s) -> In K (created s) -> lastTerm K = tc ->
            (length K <= i)%nat -> choosable s tc (length K) -> holds s v K;
  s_vote : forall u v c L tc i K, In (u, v, c) (votes s) -> In (u, c, L) (started s) ->
             In (tc, v, i) (acked s) -> tc < u -> In K (created s) -> lastTerm K = tc ->
             (length K <= i)%nat -> choosable s tc (length K) -> prefix K L;
  s_safe : forall u n L tc K, In (u, n, L) (elected s) -> tc < u -> In K (created s) ->
             lastTerm K = tc -> choosable s tc (length K) -> prefix K L;
  s_ldc : forall l K, role (st s l) = Leader -> In K (created s) ->
            lastTerm K = cur (st s l) -> (length K <= commit (st s l))%nat ->
            chosen s (cur (st s l)) (length K);
  s_msgc : forall m, In m (appends s) ->
             (exists Xc, lpre s (rterm m) Xc /\ length Xc = rcommit m) /\
             forall K, In K (created s) -> lastTerm K = rterm m ->
                       (length K <= rcommit m)%nat -> chosen s (rterm m) (length K);
  s_com : forall tc i e, In (tc, i, e) (committed s) ->
            exists K, In K (created s) /\ lastTerm K = tc /\ (1 <= i)%nat /\
                      nth_error K (i - 1) = Some e /\ chosen s tc (length K);
  s_nc : forall n i e, (1 <= i <= commit (st s n))%nat ->
           nth_error (log (st s n)) (i - 1) = Some e ->
           exists tc, tc <= cur (st s n) /\ In (tc, i, e) (committed s);
  s_cf : forall n, (commit (st s n) <= flushed (st s n))%nat
}.

Lemma sinv_init : sinv init.
Proof.
  constructor; simpl; try (intros; contradiction).
  - intros n i e H. lia.
  - intros n. lia.
Qed.

(* ---- two lemmas used by several steps ---- *)

(* a request of term tm carries a prefix X of its leader's log; a choosable
   prefix K of a term tc <= tm is comparable with it *)
Lemma recv_comparable s tm ldr L0 X tc K :
  linv s -> vinv V s -> sinv s ->
  In (tm, ldr, L0) (elected s) -> lpre s tm X ->
  In K (created s) -> lastTerm K = tc -> tc <= tm -> choosable s tc (length K) ->
  comparable K X.
Proof.
  intros Hl Hv Hs Hel HX HK HT Hle Hch.
  destruct (N.eq_dec tc tm) as [E|E].
  - apply (lpre_comparable V s tm); try assumption.
    rewrite <- E, <- HT. apply lpre_created. exact HK.
  - assert (Hp : prefix K L0) by (apply (s_safe _ Hs tm ldr L0 tc K); try assumption; lia).
    assert (HL0 : lpre s tm L0) by (left; exists ldr, L0; split; [exact Hel | apply prefix_refl]).
    destruct (lpre_comparable V s tm L0 X Hl Hv HL0 HX) as [H|H].
    + left. exact (prefix_trans _ _ _ Hp H).
    + exact (prefix_comparable _ _ _ Hp H).
Qed.

(* the up-to-date check transfers a choosable prefix from the voter's log Lv to
   the candidate's log L *)
Lemma uptodate_transfer s K tc Lv L :
  linv s -> vinv V s -> sinv s ->
  In K (created s) -> lastTerm K = tc -> choosable s tc (length K) ->
  prefix K Lv -> wf (created s) Lv -> wf (created s) L -> uptodate L Lv ->
  prefix K L.
Proof.
  intros Hl Hv Hs HK HT Hch HKLv HwLv HwL Hup.
  pose proof (created_nonempty _ _ Hl HK) as HKne.
  assert (HLvne : Lv <> []).
  { intros ->. apply HKne. exact (prefix_nil_inv _ HKLv). }
  pose proof (wf_self _ _ HwLv HLvne) as HLvc.
  pose proof (l_pos _ Hl _ HLvc) as HLvpos.
  assert (Hle : lastTerm K <= lastTerm Lv).
  { apply (lastTerm_prefix_le K Lv); [exact HKLv|]. exact (l_sorted _ Hl _ HLvc). }
  destruct Hup as [Hlt|[Heq Hlen]].
  - assert (HLne : L <> []) by (apply lastTerm_nonzero_nonempty; lia).
    pose proof (wf_self _ _ HwL HLne) as HLc.
    destruct (l_el _ Hl _ HLc) as [n [Lw HLw]].
    pose proof (l_cr1 _ Hl _ _ _ HLc HLw) as Hp.
    apply (prefix_trans _ Lw); [|exact Hp].
    apply (s_safe _ Hs (lastTerm L) n Lw tc K); try assumption. lia.
  - assert (HLne : L <> []) by (apply lastTerm_nonzero_nonempty; congruence).
    pose proof (wf_self _ _ HwL HLne) as HLc.
    assert (Hc : comparable Lv L) by (apply (l_keyed _ Hl); auto).
    exact (prefix_trans _ _ _ HKLv (comparable_length _ _ Hc Hlen)).
Qed.

(* ---- frame: steps that leave logs and the commit ghosts alone ---- *)

Definition msgc_ok (s : state) (m : areq) : Prop :=
  (exists Xc, lpre s (rterm m) Xc /\ length Xc = rcommit m) /\
  forall K, In K (created s) -> lastTerm K = rterm m ->
            (length K <= rcommit m)%nat -> chosen s (rterm m) (length K).

Lemma sinv_frame s s' :
  sinv s ->
  acked s' = acked s -> created s' = created s -> committed s' = committed s ->
  elected s' = elected s -> votes s' = votes s -> started s' = started s ->
  (forall a, In a (acks s') -> In a (acks s)) ->
  (forall m, In m (appends s') -> In m (appends s) \/ msgc_ok s m) ->
  (forall n, log (st s' n) = log (st s n) /\ (flushed (st s n) <= flushed (st s' n))%nat /\
             commit (st s' n) = commit (st s n) /\ cur (st s n) <= cur (st s' n) /\
             (role (st s' n) = Leader ->
                role (st s n) = Leader /\ cur (st s' n) = cur (st s n) /\
                forall v j, In (v, j) (matchIdx (st s' n)) ->
                  In (v, j) (matchIdx (st s n)) \/ In (cur (st s n), v, j) (acked s))) ->
  sinv s'.
Proof.
  intros [Hat Hal Ham Hmi Hack Hvote Hsafe Hldc Hmsgc Hcom Hnc Hcf]
         Eack Ecr Eco Eel Evo Esta Hacks Happ Hn.
  assert (Hanti : forall tc k, choosable s' tc k -> choosable s tc k).
  { intros tc k. apply choosable_anti.
    - intros v. destruct (Hn v) as (_ & _ & _ & H & _). exact H.
    - intros t v i Hin. left. rewrite Eack in Hin. exact Hin. }
  assert (Hcho : forall tc k, chosen s tc k -> chosen s' tc k).
  { intros tc k. apply chosen_mono. rewrite Eack. apply incl_refl. }
  assert (Hlp : forall t X, lpre s t X -> lpre s' t X).
  { intros t X. apply lpre_mono; [rewrite Eel | rewrite Ecr]; apply incl_refl. }
  assert (Hholds : forall v K, holds s v K -> holds s' v K).
  { intros v K. unfold holds. destruct (Hn v) as (E1 & E2 & _). rewrite E1. intros HK.
    exact (prefix_trans _ _ _ HK (prefix_firstn_le _ _ _ E2)). }
  constructor; rewrite ?Eack, ?Ecr, ?Eco, ?Eel, ?Evo, ?Esta.
  - intros tc v i Hin. destruct (Hn v) as (_ & _ & _ & H & _). pose proof (Hat _ _ _ Hin). lia.
  - intros tc v i Hin. destruct (Hal _ _ _ Hin) as [X [H1 H2]]. exists X. split; [apply Hlp; exact H1 | exact H2].
  - intros a Hin. apply Ham. apply Hacks. exact Hin.
  - intros l v j Hr Hin. destruct (Hn l) as (_ & _ & _ & _ & H). destruct (H Hr) as [Hr' [Ec Hm]].
    rewrite Ec. destruct (Hm _ _ Hin) as [H1|H1]; [exact (Hmi _ _ _ Hr' H1) | exact H1].
  - intros tc v i K Hin HK HT Hlen Hch. apply Hholds. exact (Hack _ _ _ _ Hin HK HT Hlen (Hanti _ _ Hch)).
  - intros u v c L tc i K H1 H2 H3 H4 H5 H6 H7 Hch.
    exact (Hvote _ _ _ _ _ _ _ H1 H2 H3 H4 H5 H6 H7 (Hanti _ _ Hch)).
  - intros u n L tc K H1 H2 H3 H4 Hch. exact (Hsafe _ _ _ _ _ H1 H2 H3 H4 (Hanti _ _ Hch)).
  - intros l K Hr HK HT Hlen. destruct (Hn l) as (_ & _ & E3 & _ & H). destruct (H Hr) as [Hr' [Ec _]].
    rewrite Ec in *. rewrite E3 in Hlen. apply Hcho. exact (Hldc _ _ Hr' HK HT Hlen).
  - intros m Hin.
    assert (Hok : msgc_ok s m) by (destruct (Happ _ Hin) as [H|H]; [exact (Hmsgc m H) | exact H]).
    destruct Hok as [[Xc [H1 H2]] H3]. split.
    + exists Xc. split; [apply Hlp; exact H1 | exact H2].
    + intros K HK HT Hlen. apply Hcho. exact (H3 K HK HT Hlen).
  - intros tc i e Hin. destruct (Hcom _ _ _ Hin) as [K (H1 & H2 & H3 & H4 & H5)].
    exists K. repeat split; auto.
  - intros n i e. destruct (Hn n) as (E1 & _ & E3 & E4 & _). rewrite E1, E3. intros H1 H2.
    destruct (Hnc _ _ _ H1 H2) as [tc [H3 H4]]. exists tc. split; [lia | exact H4].
  - intros n. destruct (Hn n) as (_ & E2 & E3 & _). rewrite E3. pose proof (Hcf n). lia.
Qed.

Lemma holds_prefix s v K : holds s v K -> prefix K (log (st s v)).
Proof. intro H. exact (prefix_trans _ _ _ H (firstn_prefix _ _)). Qed.

(* ---- Start ---- *)

Lemma sinv_start s n :
  sinv s -> vinv V s -> linv s -> role (st s n) <> Leader -> sinv (do_start n s).
Proof.
  intros Hs Hv Hl Hrole.
  pose proof Hs as [Hat Hal Ham Hmi Hack Hvote Hsafe Hldc Hmsgc Hcom Hnc Hcf].
  assert (Hanti : forall tc k, choosable (do_start n s) tc k -> choosable s tc k).
  { intros tc k. apply choosable_anti; unfold do_start; simpl.
    - intros v. upd_case v n; simpl; lia.
    - intros t v i Hin. left. exact Hin. }
  assert (Hcho : forall tc k, chosen s tc k -> chosen (do_start n s) tc k).
  { intros tc k. apply chosen_mono. apply incl_refl. }
  assert (Hlp : forall t X, lpre s t X -> lpre (do_start n s) t X).
  { intros t X. apply lpre_mono; apply incl_refl. }
  assert (Hholds : forall v K, holds s v K -> holds (do_start n s) v K).
  { intros v K. unfold holds, do_start; simpl. upd_case v n; simpl; auto. }
  constructor; unfold do_start; simpl.
  - intros tc v i Hin. pose proof (Hat _ _ _ Hin). upd_case v n; simpl; lia.
  - intros tc v i Hin. destruct (Hal _ _ _ Hin) as [X [H1 H2]]. exists X. split; [exact (Hlp _ _ H1) | exact H2].
  - exact Ham.
  - intros l v j. upd_case l n; simpl; [intro H; discriminate H | apply Hmi].
  - intros tc v i K Hin HK HT Hlen Hch. apply Hholds. exact (Hack _ _ _ _ Hin HK HT Hlen (Hanti _ _ Hch)).
  - intros u v c L tc i K [Heq|Hvo] [Heq2|Hsta] Hin Hlt HK HT Hlen Hch.
    + inversion Heq; inversion Heq2; subst. apply holds_prefix.
      exact (Hack _ _ _ _ Hin HK eq_refl Hlen (Hanti _ _ Hch)).
    + inversion Heq; subst. destruct (vi _ _ Hv _ _ _ Hsta) as [H _]. lia.
    + inversion Heq2; subst. destruct (vl _ _ Hv _ _ _ Hvo) as [L' HL'].
      destruct (vi _ _ Hv _ _ _ HL') as [H _]. lia.
    + exact (Hvote _ _ _ _ _ _ _ Hvo Hsta Hin Hlt HK HT Hlen (Hanti _ _ Hch)).
  - intros u n0 L tc K H1 H2 H3 H4 Hch. exact (Hsafe _ _ _ _ _ H1 H2 H3 H4 (Hanti _ _ Hch)).
  - intros l K. upd_case l n; simpl; [intro H; discriminate H|].
    intros Hr HK HT Hlen. apply Hcho. exact (Hldc _ _ Hr HK HT Hlen).
  - intros m Hin. destruct (Hmsgc m Hin) as [[Xc [H1 H2]] H3]. split.
    + exists Xc. split; [exact (Hlp _ _ H1) | exact H2].
    + intros K HK HT Hlen. apply Hcho. exact (H3 K HK HT Hlen).
  - intros tc i e Hin. destruct (Hcom _ _ _ Hin) as [K (H1 & H2 & H3 & H4 & H5)].
    exists K. repeat split; auto.
  - intros n0 i e. upd_case n0 n; simpl; [|apply Hnc].
    intros H1 H2. destruct (Hnc _ _ _ H1 H2) as [tc [H3 H4]]. exists tc. split; [lia | exact H4].
  - intros n0. upd_case n0 n; simpl; apply Hcf.
Qed.

(* ---- Grant ---- *)

Lemma sinv_grant s v t c L :
  sinv s -> vinv V s -> linv s ->
  In (t, c, L) (started s) ->
  (cur (st s v) < t \/ (t = cur (st s v) /\ (vote (st s v) = 0 \/ vote (st s v) = c))) ->
  uptodate L (log (st s v)) ->
  sinv (do_grant v t c s).
Proof.
  intros Hs Hv Hl Hsta Hguard Hup.
  pose proof Hs as [Hat Hal Ham Hmi Hack Hvote Hsafe Hldc Hmsgc Hcom Hnc Hcf].
  assert (Hle : cur (st s v) <= t) by (destruct Hguard as [H|[H _]]; lia).
  assert (Hanti : forall tc k, choosable (do_grant v t c s) tc k -> choosable s tc k).
  { intros tc k. apply choosable_anti; unfold do_grant; simpl.
    - intros v0. upd_case v0 v; simpl; lia.
    - intros t0 v0 i Hin. left. exact Hin. }
  assert (Hcho : forall tc k, chosen s tc k -> chosen (do_grant v t c s) tc k).
  { intros tc k. apply chosen_mono. apply incl_refl. }
  assert (Hlp : forall t0 X, lpre s t0 X -> lpre (do_grant v t c s) t0 X).
  { intros t0 X. apply lpre_mono; apply incl_refl. }
  assert (Hholds : forall v0 K, holds s v0 K -> holds (do_grant v t c s) v0 K).
  { intros v0 K. unfold holds, do_grant; simpl. upd_case v0 v; simpl; auto. }
  constructor; unfold do_grant; simpl.
  - intros tc v0 i Hin. pose proof (Hat _ _ _ Hin). upd_case v0 v; simpl; lia.
  - intros tc v0 i Hin. destruct (Hal _ _ _ Hin) as [X [H1 H2]]. exists X. split; [exact (Hlp _ _ H1) | exact H2].
  - exact Ham.
  - intros l v0 j. upd_case l v; simpl; [|apply Hmi].
    destruct (N.ltb_spec (cur (st s v)) t) as [Hlt|Hge]; [intro H; discriminate H|].
    assert (t = cur (st s v)) as -> by lia. apply Hmi.
  - intros tc v0 i K Hin HK HT Hlen Hch. apply Hholds. exact (Hack _ _ _ _ Hin HK HT Hlen (Hanti _ _ Hch)).
  - intros u v0 c0 L0 tc i K [Heq|Hvo] Hsta0 Hin Hlt HK HT Hlen Hch.
    + inversion Heq; subst.
      assert (L0 = L) as -> by exact (vi2 _ _ Hv _ _ _ _ Hsta0 Hsta).
      pose proof (Hanti _ _ Hch) as Hch'.
      apply (uptodate_transfer s K (lastTerm K) (log (st s v0)) L); try assumption; try reflexivity.
      * apply holds_prefix. exact (Hack _ _ _ _ Hin HK eq_refl Hlen Hch').
      * exact (l_wfn _ Hl v0).
      * exact (l_wfs _ Hl _ _ _ Hsta).
    + exact (Hvote _ _ _ _ _ _ _ Hvo Hsta0 Hin Hlt HK HT Hlen (Hanti _ _ Hch)).
  - intros u n0 L0 tc K H1 H2 H3 H4 Hch. exact (Hsafe _ _ _ _ _ H1 H2 H3 H4 (Hanti _ _ Hch)).
  - intros l K. upd_case l v; simpl.
    + destruct (N.ltb_spec (cur (st s v)) t) as [Hlt|Hge]; [intro H; discriminate H|].
      assert (t = cur (st s v)) as -> by lia.
      intros Hr HK HT Hlen. apply Hcho. exact (Hldc _ _ Hr HK HT Hlen).
    + intros Hr HK HT Hlen. apply Hcho. exact (Hldc _ _ Hr HK HT Hlen).
  - intros m Hin. destruct (Hmsgc m Hin) as [[Xc [H1 H2]] H3]. split.
    + exists Xc. split; [exact (Hlp _ _ H1) | exact H2].
    + intros K HK HT Hlen. apply Hcho. exact (H3 K HK HT Hlen).
  - intros tc i e Hin. destruct (Hcom _ _ _ Hin) as [K (H1 & H2 & H3 & H4 & H5)].
    exists K. repeat split; auto.
  - intros n0 i e. upd_case n0 v; simpl; [|apply Hnc].
    intros H1 H2. destruct (Hnc _ _ _ H1 H2) as [tc [H3 H4]]. exists tc. split; [lia | exact H4].
  - intros n0. upd_case n0 v; simpl; apply Hcf.
Qed.

(* ---- Win ---- *)

Lemma sinv_win s c :
  sinv s -> vinv V s -> linv s -> role (st s c) = Candidate ->
  (2 * length (got (st s c)) > length V)%nat -> sinv (do_win c s).
Proof.
  intros Hs Hv Hl Hrole Hmaj.
  pose proof Hs as [Hat Hal Ham Hmi Hack Hvote Hsafe Hldc Hmsgc Hcom Hnc Hcf].
  pose proof (win_fresh V s c Hv Hrole Hmaj) as Hfresh.
  assert (Hanti : forall tc k, choosable (do_win c s) tc k -> choosable s tc k).
  { intros tc k. apply choosable_anti; unfold do_win; simpl.
    - intros v0. upd_case v0 c; simpl; lia.
    - intros t0 v0 i Hin. left. exact Hin. }
  assert (Hcho : forall tc k, chosen s tc k -> chosen (do_win c s) tc k).
  { intros tc k. apply chosen_mono. apply incl_refl. }
  assert (Hlp : forall t0 X, lpre s t0 X -> lpre (do_win c s) t0 X).
  { intros t0 X. apply lpre_mono; unfold do_win; simpl; [apply incl_tl|]; apply incl_refl. }
  assert (Hholds : forall v0 K, holds s v0 K -> holds (do_win c s) v0 K).
  { intros v0 K. unfold holds, do_win; simpl. upd_case v0 c; simpl; auto. }
  constructor; unfold do_win; simpl.
  - intros tc v0 i Hin. pose proof (Hat _ _ _ Hin). upd_case v0 c; simpl; lia.
  - intros tc v0 i Hin. destruct (Hal _ _ _ Hin) as [X [H1 H2]]. exists X. split; [exact (Hlp _ _ H1) | exact H2].
  - exact Ham.
  - intros l v0 j. upd_case l c; simpl; [intros _ []| apply Hmi].
  - intros tc v0 i K Hin HK HT Hlen Hch. apply Hholds. exact (Hack _ _ _ _ Hin HK HT Hlen (Hanti _ _ Hch)).
  - intros u v0 c0 L0 tc i K Hvo Hsta0 Hin Hlt HK HT Hlen Hch.
    exact (Hvote _ _ _ _ _ _ _ Hvo Hsta0 Hin Hlt HK HT Hlen (Hanti _ _ Hch)).
  - intros u n0 L0 tc K [Heq|Hin] Hlt HK HT Hch.
    + inversion Heq; subst. pose proof (Hanti _ _ Hch) as [Q [HQ HQv]].
      assert (Hr : role (st s n0) <> Follower) by (rewrite Hrole; discriminate).
      destruct (vd _ _ Hv _ Hr) as [Hd1 [Hd2 Hd3]].
      assert (HQ' : majority V (got (st s n0))) by (repeat split; assumption).
      destruct (two_majorities_meet V _ _ HQ HQ') as [v0 [Hv1 Hv2]].
      pose proof (Hd3 _ Hv2) as Hvo.
      destruct (va _ _ Hv _ _ _ Hvo) as [_ [Hcur _]].
      destruct (HQv _ Hv1) as [[i [Hi1 Hi2]]|Hbad]; [|lia].
      apply (Hvote _ _ _ _ _ _ _ Hvo (vj _ _ Hv _ Hrole) Hi1 Hlt HK eq_refl Hi2).
      exists Q. split; assumption.
    + exact (Hsafe _ _ _ _ _ Hin Hlt HK HT (Hanti _ _ Hch)).
  - intros l K. upd_case l c; simpl.
    + intros _ HK HT. exfalso. destruct (l_el _ Hl _ HK) as [n0 [L0 HL0]].
      rewrite HT in HL0. exact (Hfresh _ _ HL0).
    + intros Hr HK HT Hlen. apply Hcho. exact (Hldc _ _ Hr HK HT Hlen).
  - intros m Hin. destruct (Hmsgc m Hin) as [[Xc [H1 H2]] H3]. split.
    + exists Xc. split; [exact (Hlp _ _ H1) | exact H2].
    + intros K HK HT Hlen. apply Hcho. exact (H3 K HK HT Hlen).
  - intros tc i e Hin. destruct (Hcom _ _ _ Hin) as [K (H1 & H2 & H3 & H4 & H5)].
    exists K. repeat split; auto.
  - intros n0 i e. upd_case n0 c; simpl; apply Hnc.
  - intros n0. upd_case n0 c; simpl; apply Hcf.
Qed.

(* ---- ClientAppend ---- *)

Lemma sinv_client_append s l p :
  sinv s -> vinv V s -> linv s -> role (st s l) = Leader -> sinv (do_client_append l p s).
Proof.
  intros Hs Hv Hl Hrole.
  pose proof Hs as [Hat Hal Ham Hmi Hack Hvote Hsafe Hldc Hmsgc Hcom Hnc Hcf].
  set (K0 := log (st s l) ++ [(cur (st s l), p)]).
  assert (HlastK0 : lastTerm K0 = cur (st s l)) by (unfold K0; apply lastTerm_snoc).
  assert (HlenK0 : length K0 = S (length (log (st s l)))).
  { unfold K0. rewrite app_length. simpl. lia. }
  (* nothing in the leader's term is acknowledged beyond the leader's log *)
  assert (Hnoack : forall v i, In (cur (st s l), v, i) (acked s) -> (i < length K0)%nat).
  { intros v i Hin. destruct (Hal _ _ _ Hin) as [X [H1 H2]].
    pose proof (prefix_length _ _ (lpre_leader V s l X Hl Hv Hrole H1)). lia. }
  assert (Hanti : forall tc k, choosable (do_client_append l p s) tc k -> choosable s tc k).
  { intros tc k. apply choosable_anti; unfold do_client_append; simpl.
    - intros v0. upd_case v0 l; simpl; lia.
    - intros t0 v0 i Hin. left. exact Hin. }
  assert (Hcho : forall tc k, chosen s tc k -> chosen (do_client_append l p s) tc k).
  { intros tc k. apply chosen_mono. apply incl_refl. }
  assert (Hlp : forall t0 X, lpre s t0 X -> lpre (do_client_append l p s) t0 X).
  { intros t0 X. apply lpre_mono; unfold do_client_append; simpl; [|apply incl_tl]; apply incl_refl. }
  assert (Hholds : forall v0 K, holds s v0 K -> holds (do_client_append l p s) v0 K).
  { intros v0 K. unfold holds, do_client_append; simpl. upd_case v0 l; simpl; auto.
    rewrite firstn_app_le by apply (l_fl _ Hl). auto. }
  constructor; unfold do_client_append; fold K0; simpl.
  - intros tc v0 i Hin. pose proof (Hat _ _ _ Hin). upd_case v0 l; simpl; lia.
  - intros tc v0 i Hin. destruct (Hal _ _ _ Hin) as [X [H1 H2]]. exists X. split; [exact (Hlp _ _ H1) | exact H2].
  - exact Ham.
  - intros l0 v0 j. upd_case l0 l; simpl; apply Hmi.
  - intros tc v0 i K Hin [<-|HK] HT Hlen Hch.
    + exfalso. rewrite HlastK0 in HT. subst tc. pose proof (Hnoack _ _ Hin). lia.
    + apply Hholds. exact (Hack _ _ _ _ Hin HK HT Hlen (Hanti _ _ Hch)).
  - intros u v0 c0 L0 tc i K Hvo Hsta0 Hin Hlt [<-|HK] HT Hlen Hch.
    + exfalso. rewrite HlastK0 in HT. subst tc. pose proof (Hnoack _ _ Hin). lia.
    + exact (Hvote _ _ _ _ _ _ _ Hvo Hsta0 Hin Hlt HK HT Hlen (Hanti _ _ Hch)).
  - intros u n0 L0 tc K Hin Hlt [<-|HK] HT Hch.
    + exfalso. rewrite HlastK0 in HT. subst tc.
      destruct (Hanti _ _ Hch) as [Q [HQ HQv]].
      destruct (elected_quorum_cur V _ _ _ _ Hv Hin) as [Q' [HQ' HQv']].
      destruct (two_majorities_meet V _ _ HQ HQ') as [v0 [Hv1 Hv2]].
      destruct (HQv' _ Hv2) as [_ Hcur].
      destruct (HQv _ Hv1) as [[i [Hi1 Hi2]]|Hbad]; [|lia].
      pose proof (Hnoack _ _ Hi1). lia.
    + exact (Hsafe _ _ _ _ _ Hin Hlt HK HT (Hanti _ _ Hch)).
  - intros l0 K. upd_case l0 l; simpl.
    + intros _ [<-|HK] HT Hlen.
      * exfalso. pose proof (Hcf l). pose proof (l_fl _ Hl l). lia.
      * apply Hcho. exact (Hldc _ _ Hrole HK HT Hlen).
    + intros Hr [<-|HK] HT Hlen.
      * exfalso. apply Hne. apply (leader_unique V s); try assumption. congruence.
      * apply Hcho. exact (Hldc _ _ Hr HK HT Hlen).
  - intros m Hin. destruct (Hmsgc m Hin) as [[Xc [H1 H2]] H3]. split.
    + exists Xc. split; [exact (Hlp _ _ H1) | exact H2].
    + intros K [<-|HK] HT Hlen.
      * exfalso. rewrite HlastK0 in HT. rewrite <- HT in H1.
        pose proof (prefix_length _ _ (lpre_leader V s l Xc Hl Hv Hrole H1)). lia.
      * apply Hcho. exact (H3 K HK HT Hlen).
  - intros tc i e Hin. destruct (Hcom _ _ _ Hin) as [K (H1 & H2 & H3 & H4 & H5)].
    exists K. repeat split; auto.
  - intros n0 i e. upd_case n0 l; simpl; [|apply Hnc].
    intros H1 H2. pose proof (Hcf l). pose proof (l_fl _ Hl l).
    unfold K0 in H2. rewrite nth_error_app1 in H2 by lia. exact (Hnc _ _ _ H1 H2).
  - intros n0. upd_case n0 l; simpl; apply Hcf.
Qed.

(* ---- AdvanceCommit ---- *)

Lemma sinv_advance s l k Q :
  sinv s -> vinv V s -> linv s -> role (st s l) = Leader ->
  (commit (st s l) < k <= length (log (st s l)))%nat ->
  term_at (log (st s l)) k = cur (st s l) ->
  majority V Q ->
  (forall v, In v Q -> v = l \/ match_ge (matchIdx (st s l)) v k) ->
  sinv (do_advance l k s).
Proof.
  intros Hs Hv Hl Hrole Hk Hterm HQ HQv.
  pose proof Hs as [Hat Hal Ham Hmi Hack Hvote Hsafe Hldc Hmsgc Hcom Hnc Hcf].
  assert (Hanti : forall tc k0, choosable (do_advance l k s) tc k0 -> choosable s tc k0).
  { intros tc k0. apply choosable_anti; unfold do_advance; simpl.
    - intros v0. upd_case v0 l; simpl; lia.
    - intros t0 v0 i [Heq|Hin]; [right; inversion Heq; subst; lia | left; exact Hin]. }
  assert (Hcho : forall tc k0, chosen s tc k0 -> chosen (do_advance l k s) tc k0).
  { intros tc k0. apply chosen_mono. unfold do_advance; simpl. apply incl_tl, incl_refl. }
  assert (Hlp : forall t0 X, lpre s t0 X -> lpre (do_advance l k s) t0 X).
  { intros t0 X. apply lpre_mono; apply incl_refl. }
  assert (Hholds : forall v0 K, holds s v0 K -> holds (do_advance l k s) v0 K).
  { intros v0 K. unfold holds, do_advance; simpl. upd_case v0 l; simpl; auto.
    intro H. apply (prefix_trans _ _ _ H). apply prefix_firstn_le. lia. }
  assert (Hnew : forall k0, (k0 <= k)%nat -> chosen (do_advance l k s) (cur (st s l)) k0).
  { intros k0 Hk0. exists Q. split; [exact HQ|]. intros v0 Hv0.
    unfold ackd, do_advance; simpl. destruct (HQv _ Hv0) as [->|[j [Hj1 Hj2]]].
    - exists k. split; [left; reflexivity | exact Hk0].
    - exists j. split; [right; exact (Hmi _ _ _ Hrole Hj1) | lia]. }
  constructor; unfold do_advance; simpl.
  - intros tc v0 i [Heq|Hin].
    + inversion Heq; subst. rewrite upd_eq. simpl. lia.
    + pose proof (Hat _ _ _ Hin). upd_case v0 l; simpl; lia.
  - intros tc v0 i [Heq|Hin].
    + inversion Heq; subst. exists (firstn i (log (st s v0))). split.
      * apply Hlp. apply (lpre_prefix _ _ _ (log (st s v0))); [exact (l_ldl _ Hl _ Hrole) | apply firstn_prefix].
      * apply firstn_length_le. lia.
    + destruct (Hal _ _ _ Hin) as [X [H1 H2]]. exists X. split; [exact (Hlp _ _ H1) | exact H2].
  - intros a Hin. right. exact (Ham _ Hin).
  - intros l0 v0 j. upd_case l0 l; simpl; intros Hr Hin; right; exact (Hmi _ _ _ Hr Hin).
  - intros tc v0 i K [Heq|Hin] HK HT Hlen Hch.
    + injection Heq as E1 E2 E3. subst v0 i.
      assert (HT' : lastTerm K = cur (st s l)) by congruence.
      unfold holds. simpl. rewrite upd_eq. simpl.
      apply prefix_firstn_of; [|lia]. exact (l_ldc _ Hl _ _ Hrole HK HT').
    + apply Hholds. exact (Hack _ _ _ _ Hin HK HT Hlen (Hanti _ _ Hch)).
  - intros u v0 c0 L0 tc i K Hvo Hsta0 [Heq|Hin] Hlt HK HT Hlen Hch.
    + inversion Heq; subst. destruct (va _ _ Hv _ _ _ Hvo) as [_ [H _]]. lia.
    + exact (Hvote _ _ _ _ _ _ _ Hvo Hsta0 Hin Hlt HK HT Hlen (Hanti _ _ Hch)).
  - intros u n0 L0 tc K H1 H2 H3 H4 Hch. exact (Hsafe _ _ _ _ _ H1 H2 H3 H4 (Hanti _ _ Hch)).
  - intros l0 K. upd_case l0 l; simpl.
    + intros _ HK HT Hlen. apply Hnew. exact Hlen.
    + intros Hr HK HT Hlen. apply Hcho. exact (Hldc _ _ Hr HK HT Hlen).
  - intros m Hin. destruct (Hmsgc m Hin) as [[Xc [H1 H2]] H3]. split.
    + exists Xc. split; [exact (Hlp _ _ H1) | exact H2].
    + intros K HK HT Hlen. apply Hcho. exact (H3 K HK HT Hlen).
  - intros tc i e Hin. apply in_app_or in Hin. destruct Hin as [Hin|Hin].
    + apply in_tagged in Hin. destruct Hin as [-> [Hi He]].
      exists (firstn k (log (st s l))).
      split; [apply (l_wfn _ Hl l); lia|].
      split; [rewrite lastTerm_firstn by lia; exact Hterm|].
      split; [lia|]. split.
      * rewrite nth_error_firstn. destruct (Nat.ltb_spec (i - 1) k); [exact He | lia].
      * apply Hnew. rewrite firstn_length_le by lia. lia.
    + destruct (Hcom _ _ _ Hin) as [K (H1 & H2 & H3 & H4 & H5)].
      exists K. repeat split; auto.
  - intros n0 i e. upd_case n0 l; simpl.
    + intros H1 H2. exists (cur (st s l)). split; [lia|]. apply in_or_app. left.
      apply in_tagged. auto.
    + intros H1 H2. destruct (Hnc _ _ _ H1 H2) as [tc [H3 H4]]. exists tc. split; [exact H3|].
      apply in_or_app. right. exact H4.
  - intros n0. upd_case n0 l; simpl; [lia | apply Hcf].
Qed.

(* ---- Crash ---- *)

Lemma sinv_crash s n c :
  sinv s -> linv s -> (c <= commit (st s n))%nat -> sinv (do_crash n c s).
Proof.
  intros Hs Hl Hc.
  pose proof Hs as [Hat Hal Ham Hmi Hack Hvote Hsafe Hldc Hmsgc Hcom Hnc Hcf].
  assert (Hanti : forall tc k0, choosable (do_crash n c s) tc k0 -> choosable s tc k0).
  { intros tc k0. apply choosable_anti; unfold do_crash; simpl.
    - intros v0. upd_case v0 n; simpl; lia.
    - intros t0 v0 i Hin. left. exact Hin. }
  assert (Hcho : forall tc k0, chosen s tc k0 -> chosen (do_crash n c s) tc k0).
  { intros tc k0. apply chosen_mono. apply incl_refl. }
  assert (Hlp : forall t0 X, lpre s t0 X -> lpre (do_crash n c s) t0 X).
  { intros t0 X. apply lpre_mono; apply incl_refl. }
  assert (Hholds : forall v0 K, holds s v0 K -> holds (do_crash n c s) v0 K).
  { intros v0 K. unfold holds, do_crash; simpl. upd_case v0 n; simpl; auto.
    rewrite firstn_firstn, Nat.min_id. auto. }
  constructor; unfold do_crash; simpl.
  - intros tc v0 i Hin. pose proof (Hat _ _ _ Hin). upd_case v0 n; simpl; lia.
  - intros tc v0 i Hin. destruct (Hal _ _ _ Hin) as [X [H1 H2]]. exists X. split; [exact (Hlp _ _ H1) | exact H2].
  - exact Ham.
  - intros l0 v0 j. upd_case l0 n; simpl; [intro H; discriminate H | apply Hmi].
  - intros tc v0 i K Hin HK HT Hlen Hch. apply Hholds. exact (Hack _ _ _ _ Hin HK HT Hlen (Hanti _ _ Hch)).
  - intros u v0 c0 L0 tc i K Hvo Hsta0 Hin Hlt HK HT Hlen Hch.
    exact (Hvote _ _ _ _ _ _ _ Hvo Hsta0 Hin Hlt HK HT Hlen (Hanti _ _ Hch)).
  - intros u n0 L0 tc K H1 H2 H3 H4 Hch. exact (Hsafe _ _ _ _ _ H1 H2 H3 H4 (Hanti _ _ Hch)).
  - intros l0 K. upd_case l0 n; simpl; [intro H; discriminate H|].
    intros Hr HK HT Hlen. apply Hcho. exact (Hldc _ _ Hr HK HT Hlen).
  - intros m Hin. destruct (Hmsgc m Hin) as [[Xc [H1 H2]] H3]. split.
    + exists Xc. split; [exact (Hlp _ _ H1) | exact H2].
    + intros K HK HT Hlen. apply Hcho. exact (H3 K HK HT Hlen).
  - intros tc i e Hin. destruct (Hcom _ _ _ Hin) as [K (H1 & H2 & H3 & H4 & H5)].
    exists K. repeat split; auto.
  - intros n0 i e. upd_case n0 n; simpl; [|apply Hnc].
    intros H1 H2. pose proof (Hcf n) as Hc1. rewrite nth_error_firstn in H2.
    destruct (Nat.ltb_spec (i - 1) (flushed (st s n))) as [_|Hbad]; [|lia].
    apply Hnc; [lia | exact H2].
  - intros n0. upd_case n0 n; simpl; [|apply Hcf]. pose proof (Hcf n). lia.
Qed.

(* ---- RecvAppend ---- *)

(* an entry of the request's term in the log of a node other than the sender is
   on stable storage: unflushed entries were created by the node itself *)
Lemma durable_term s f m j e :
  linv s -> vinv V s -> In m (appends s) -> f <> rldr m ->
  nth_error (log (st s f)) j = Some e -> eterm e = rterm m ->
  (j < flushed (st s f))%nat.
Proof.
  intros Hl Hv Hin Hne He Ht.
  destruct (le_lt_dec (flushed (st s f)) j) as [Hle|Hlt]; [|exact Hlt].
  exfalso. destruct (l_unfl _ Hl _ _ _ He Hle) as [L HL].
  destruct (l_msg _ Hl _ Hin) as [[L0 HL0] _].
  rewrite Ht in HL. apply Hne.
  exact (proj1 (elected_unique V _ _ _ _ _ _ Hv HL HL0)).
Qed.

Lemma commit_of_cases lg c m :
  commit_of lg c m = c \/
  (commit_of lg c m = rprevIdx m /\ (0 < rprevIdx m)%nat /\ (rprevIdx m <= rcommit m)%nat /\
   rprevTerm m = rterm m /\ (c < rprevIdx m)%nat) \/
  (commit_of lg c m = last_idx m /\ changed_of lg m = true /\ (last_idx m <= rcommit m)%nat /\
   lastTerm (rents m) = rterm m /\ (c < last_idx m)%nat).
Proof.
  unfold commit_of, commit2_of, commit1_of.
  destruct (Nat.ltb 0 (rprevIdx m) && Nat.leb (rprevIdx m) (rcommit m) && (rprevTerm m =? rterm m)
            && Nat.ltb c (rprevIdx m)) eqn:E1.
  - apply andb_true_iff in E1. destruct E1 as [E1 A4].
    apply andb_true_iff in E1. destruct E1 as [E1 A3].
    apply andb_true_iff in E1. destruct E1 as [A1 A2].
    apply Nat.ltb_lt in A1. apply Nat.leb_le in A2. apply N.eqb_eq in A3. apply Nat.ltb_lt in A4.
    destruct (changed_of lg m && Nat.leb (last_idx m) (rcommit m) && (lastTerm (rents m) =? rterm m)
              && Nat.ltb (rprevIdx m) (last_idx m)) eqn:E2.
    + apply andb_true_iff in E2. destruct E2 as [E2 B4].
      apply andb_true_iff in E2. destruct E2 as [E2 B3].
      apply andb_true_iff in E2. destruct E2 as [B1 B2].
      apply Nat.leb_le in B2. apply N.eqb_eq in B3. apply Nat.ltb_lt in B4.
      right. right. repeat split; auto. lia.
    + right. left. repeat split; auto.
  - destruct (changed_of lg m && Nat.leb (last_idx m) (rcommit m) && (lastTerm (rents m) =? rterm m)
              && Nat.ltb c (last_idx m)) eqn:E2.
    + apply andb_true_iff in E2. destruct E2 as [E2 B4].
      apply andb_true_iff in E2. destruct E2 as [E2 B3].
      apply andb_true_iff in E2. destruct E2 as [B1 B2].
      apply Nat.leb_le in B2. apply N.eqb_eq in B3. apply Nat.ltb_lt in B4.
      right. right. repeat split; auto.
    + left. reflexivity.
Qed.

(* the committed prefix of f survives the merge of any acceptable request *)
Lemma recv_keeps_commit s f m :
  sinv s -> vinv V s -> linv s -> In m (appends s) ->
  cur (st s f) <= rterm m ->
  prev_ok (log (st s f)) (rprevIdx m) (rprevTerm m) = true ->
  prefix (firstn (commit (st s f)) (log (st s f))) (newlog_of (log (st s f)) m).
Proof.
  intros Hs Hv Hl Hin Hterm Hprev.
  pose proof Hs as [Hat Hal Ham Hmi Hack Hvote Hsafe Hldc Hmsgc Hcom Hnc Hcf].
  destruct (recv_log V s f m Hl Hv Hin Hprev) as [X (HX1 & HX2 & HX3 & HX4 & HX5 & HX6 & Hcase)].
  destruct (l_msg _ Hl _ Hin) as [[L0 HL0] _].
  destruct Hcase as [(_ & -> & _)|(Hnp & -> & _)]; [apply firstn_prefix|].
  pose proof (Hcf f) as Hc1. pose proof (l_fl _ Hl f) as Hc2.
  destruct (commit (st s f)) as [|j] eqn:Ec; [apply prefix_nil|].
  destruct (nth_error (log (st s f)) j) as [e|] eqn:Ee; [|apply nth_error_None in Ee; lia].
  destruct (Hnc f (S j) e) as [tc [Htc Hco]];
    [lia | simpl; rewrite Nat.sub_0_r; exact Ee |].
  destruct (Hcom _ _ _ Hco) as [K (HK & HT & _ & HKe & Hchosen)].
  simpl in HKe. rewrite Nat.sub_0_r in HKe.
  assert (HlenK : (j < length K)%nat) by (apply nth_error_Some; congruence).
  assert (Hf : firstn (S j) (log (st s f)) = firstn (S j) K).
  { apply (wf_match (created s)); try lia.
    - exact (l_keyed _ Hl).
    - exact (l_wfn _ Hl f).
    - exact (wf_created _ _ (l_closed _ Hl) HK).
    - simpl. rewrite Ee, HKe. reflexivity. }
  apply (change_keeps _ (log (st s f)) K X);
    [apply firstn_prefix | rewrite Hf; apply firstn_prefix | | exact Hnp].
  apply (recv_comparable s (rterm m) (rldr m) L0 X tc K Hl Hv Hs HL0 HX1 HK HT);
    [lia | apply chosen_choosable; exact Hchosen].
Qed.

Lemma commit_of_ge lg c m : (c <= commit_of lg c m)%nat.
Proof.
  destruct (commit_of_cases lg c m) as [E|[(E & _ & _ & _ & H)|(E & _ & _ & _ & H)]]; rewrite E; lia.
Qed.

Lemma sinv_recv_ok s f m :
  sinv s -> vinv V s -> linv s -> In m (appends s) -> f <> rldr m ->
  cur (st s f) <= rterm m ->
  prev_ok (log (st s f)) (rprevIdx m) (rprevTerm m) = true ->
  sinv (do_recv_ok f m s).
Proof.
  intros Hs Hv Hl Hin Hne Hterm Hprev.
  pose proof Hs as [Hat Hal Ham Hmi Hack Hvote Hsafe Hldc Hmsgc Hcom Hnc Hcf].
  destruct (recv_log V s f m Hl Hv Hin Hprev) as [X (HX1 & HX2 & HX3 & HX4 & HX5 & HX6 & Hcase)].
  destruct (l_msg _ Hl _ Hin) as [[L0 HL0] _].
  pose proof (elected_term_pos V _ _ _ _ Hv HL0) as Htmpos.
  pose proof (lpre_wf V _ _ _ Hl Hv HX1) as HwfX.
  destruct (Hmsgc m Hin) as [_ Hmc].
  assert (Hanti : forall tc k0, choosable (do_recv_ok f m s) tc k0 -> choosable s tc k0).
  { intros tc k0. apply choosable_anti; unfold do_recv_ok; simpl.
    - intros v0. upd_case v0 f; simpl; lia.
    - intros t0 v0 i [Heq|Hin0]; [right; inversion Heq; subst; lia | left; exact Hin0]. }
  assert (Hcho : forall tc k0, chosen s tc k0 -> chosen (do_recv_ok f m s) tc k0).
  { intros tc k0. apply chosen_mono. unfold do_recv_ok; simpl. apply incl_tl, incl_refl. }
  assert (Hlp : forall t0 Y, lpre s t0 Y -> lpre (do_recv_ok f m s) t0 Y).
  { intros t0 Y. apply lpre_mono; apply incl_refl. }
  (* a choosable prefix of a term <= the request's term is comparable with X *)
  assert (Hcomp : forall tc K, In K (created s) -> lastTerm K = tc -> tc <= rterm m ->
                    choosable s tc (length K) -> comparable K X).
  { intros tc K HK HT Hle Hch.
    exact (recv_comparable s (rterm m) (rldr m) L0 X tc K Hl Hv Hs HL0 HX1 HK HT Hle Hch). }
  (* ... and stays durably held by f if it was *)
  assert (Hdur : forall tc K, In K (created s) -> lastTerm K = tc -> tc <= rterm m ->
            choosable s tc (length K) -> holds s f K ->
            prefix K (firstn (if changed_of (log (st s f)) m
                              then length (newlog_of (log (st s f)) m) else flushed (st s f))
                             (newlog_of (log (st s f)) m))).
  { intros tc K HK HT Hle Hch Hh. destruct Hcase as [(_ & -> & ->)|(Hnp & -> & ->)].
    - exact Hh.
    - rewrite firstn_all.
      apply (change_keeps K (log (st s f)) K X);
        [exact (holds_prefix _ _ _ Hh) | apply prefix_refl | exact (Hcomp _ _ HK HT Hle Hch) | exact Hnp]. }
  (* what is acknowledged now is durably held *)
  assert (Hnewack : forall K, In K (created s) -> lastTerm K = rterm m ->
            (length K <= last_idx m)%nat ->
            prefix K (firstn (if changed_of (log (st s f)) m
                              then length (newlog_of (log (st s f)) m) else flushed (st s f))
                             (newlog_of (log (st s f)) m))).
  { intros K HK HT Hlen.
    assert (HKX : prefix K X).
    { apply comparable_length; [|lia]. apply (lpre_comparable V s (rterm m)); auto.
      rewrite <- HT. apply lpre_created. exact HK. }
    destruct Hcase as [(Hp & -> & ->)|(Hnp & -> & ->)].
    - apply prefix_firstn_of; [exact (prefix_trans _ _ _ HKX Hp)|].
      pose proof (created_nonempty _ _ Hl HK) as HKne.
      destruct (lastTerm_in K HKne) as [e [He1 He2]].
      pose proof (prefix_nth_error _ _ _ _ (prefix_trans _ _ _ HKX Hp) He1) as He3.
      pose proof (durable_term s f m _ e Hl Hv Hin Hne He3 (eq_trans He2 HT)) as Hd.
      assert (length K <> 0%nat) by (destruct K; [congruence | simpl; lia]). lia.
    - rewrite firstn_all. exact HKX. }
  (* the committed prefix of f survives the merge *)
  assert (Hckeep : prefix (firstn (commit (st s f)) (log (st s f))) (newlog_of (log (st s f)) m))
    by exact (recv_keeps_commit s f m Hs Hv Hl Hin Hterm Hprev).
  assert (Hcold : forall i, (1 <= i <= commit (st s f))%nat ->
            nth_error (newlog_of (log (st s f)) m) (i - 1) = nth_error (log (st s f)) (i - 1)).
  { intros i Hi. pose proof (Hcf f) as Hc1. pose proof (l_fl _ Hl f) as Hc2.
    pose proof (prefix_firstn_eq _ _ Hckeep) as E. rewrite firstn_length_le in E by lia.
    assert (E1 : nth_error (firstn (commit (st s f)) (newlog_of (log (st s f)) m)) (i - 1)
                 = nth_error (firstn (commit (st s f)) (log (st s f))) (i - 1)) by (rewrite E; reflexivity).
    rewrite !nth_error_firstn in E1.
    destruct (Nat.ltb_spec (i - 1) (commit (st s f))); [exact E1 | lia]. }
  assert (Hcoldlen : (commit (st s f) <= length (newlog_of (log (st s f)) m))%nat).
  { pose proof (Hcf f) as Hc1. pose proof (l_fl _ Hl f) as Hc2.
    pose proof (prefix_length _ _ Hckeep) as E. rewrite firstn_length_le in E by lia. exact E. }
  assert (Hcge : (commit (st s f) <= commit_of (log (st s f)) (commit (st s f)) m)%nat).
  { destruct (commit_of_cases (log (st s f)) (commit (st s f)) m) as [E|[(E & _ & _ & _ & H)|(E & _ & _ & _ & H)]];
      rewrite E; lia. }
  (* a newly learnt commit index is a chosen prefix of the request's term *)
  assert (Hcnew : (commit (st s f) < commit_of (log (st s f)) (commit (st s f)) m)%nat ->
            exists K, In K (created s) /\ lastTerm K = rterm m /\ chosen s (rterm m) (length K) /\
              (commit_of (log (st s f)) (commit (st s f)) m <= length K)%nat /\
              firstn (commit_of (log (st s f)) (commit (st s f)) m) (newlog_of (log (st s f)) m)
                = firstn (commit_of (log (st s f)) (commit (st s f)) m) K /\
              (commit_of (log (st s f)) (commit (st s f)) m <=
                 (if changed_of (log (st s f)) m
                  then length (newlog_of (log (st s f)) m) else flushed (st s f)))%nat).
  { intros Hlt.
    destruct (commit_of_cases (log (st s f)) (commit (st s f)) m)
      as [E|[(E & A1 & A2 & A3 & A4)|(E & B1 & B2 & B3 & B4)]]; [lia | |]; rewrite E.
    - (* prevIdx rule *)
      assert (HpiX : (rprevIdx m <= length X)%nat) by (rewrite HX2; unfold last_idx; lia).
      assert (HK : In (firstn (rprevIdx m) X) (created s)) by (apply HwfX; lia).
      assert (HT : lastTerm (firstn (rprevIdx m) X) = rterm m).
      { rewrite lastTerm_firstn by exact HpiX. rewrite HX5 by exact A1. exact A3. }
      assert (HlenK : length (firstn (rprevIdx m) X) = rprevIdx m) by (apply firstn_length_le; exact HpiX).
      exists (firstn (rprevIdx m) X).
      split; [exact HK|]. split; [exact HT|].
      split; [apply Hmc; [exact HK | exact HT | rewrite HlenK; exact A2]|].
      split; [rewrite HlenK; lia|].
      split.
      + rewrite firstn_firstn, Nat.min_id.
        destruct Hcase as [(_ & -> & _)|(_ & -> & _)]; [symmetry; exact HX3 | reflexivity].
      + destruct Hcase as [(Hp & -> & ->)|(_ & -> & ->)]; [|exact HpiX].
        (* unchanged log: the entry at prevIdx has the request's term, hence is flushed *)
        assert (Ht : term_at (log (st s f)) (rprevIdx m) = rterm m).
        { rewrite <- (lastTerm_firstn _ _ HX4), <- HX3. exact HT. }
        destruct (term_at_in (log (st s f)) (rprevIdx m)) as [e [He1 [He2 He3]]]; [rewrite Ht; lia|].
        pose proof (durable_term s f m _ e Hl Hv Hin Hne He1 (eq_trans He2 Ht)). lia.
    - (* last-index rule *)
      assert (Hents : rents m <> []) by (apply lastTerm_nonzero_nonempty; rewrite B3; lia).
      assert (HT : lastTerm X = rterm m) by (rewrite (HX6 Hents); exact B3).
      assert (HXne : X <> []) by (apply lastTerm_nonzero_nonempty; rewrite HT; lia).
      pose proof (wf_self _ _ HwfX HXne) as HK.
      destruct Hcase as [(_ & _ & Ech)|(_ & Enl & Ech)]; [congruence|]. rewrite Enl, Ech.
      exists X. split; [exact HK|]. split; [exact HT|].
      split; [apply Hmc; [exact HK | exact HT | rewrite HX2; exact B2]|].
      split; [lia|]. split; [reflexivity | lia]. }
  constructor; unfold do_recv_ok; simpl.
  - (* s_at *)
    intros tc v0 i [Heq|Hin0].
    + inversion Heq; subst. rewrite upd_eq. simpl. lia.
    + pose proof (Hat _ _ _ Hin0). upd_case v0 f; simpl; lia.
  - (* s_al *)
    intros tc v0 i [Heq|Hin0].
    + inversion Heq; subst. exists X. split; [exact (Hlp _ _ HX1) | exact HX2].
    + destruct (Hal _ _ _ Hin0) as [Y [H1 H2]]. exists Y. split; [exact (Hlp _ _ H1) | exact H2].
  - (* s_am *)
    intros a [<-|Hin0]; [left; reflexivity | right; exact (Ham _ Hin0)].
  - (* s_mi *)
    intros l0 v0 j. upd_case l0 f; simpl; [intro H; discriminate H|].
    intros Hr Hj. right. exact (Hmi _ _ _ Hr Hj).
  - (* s_ack *)
    intros tc v0 i K [Heq|Hin0] HK HT Hlen Hch.
    + injection Heq as E1 E2 E3. subst v0 i.
      assert (HT' : lastTerm K = rterm m) by congruence.
      unfold holds. simpl. rewrite upd_eq. simpl. exact (Hnewack K HK HT' Hlen).
    + pose proof (Hack _ _ _ _ Hin0 HK HT Hlen (Hanti _ _ Hch)) as Hh.
      unfold holds. simpl. upd_case v0 f; simpl; [|exact Hh].
      pose proof (Hat _ _ _ Hin0).
      apply (Hdur tc K HK HT); [lia | exact (Hanti _ _ Hch) | exact Hh].
  - (* s_vote *)
    intros u v0 c0 L1 tc i K Hvo Hsta0 [Heq|Hin0] Hlt HK HT Hlen Hch.
    + injection Heq as E1 E2 E3. subst v0. destruct (va _ _ Hv _ _ _ Hvo) as [_ [H _]]. lia.
    + exact (Hvote _ _ _ _ _ _ _ Hvo Hsta0 Hin0 Hlt HK HT Hlen (Hanti _ _ Hch)).
  - (* s_safe *)
    intros u n0 L1 tc K H1 H2 H3 H4 Hch. exact (Hsafe _ _ _ _ _ H1 H2 H3 H4 (Hanti _ _ Hch)).
  - (* s_ldc *)
    intros l0 K. upd_case l0 f; simpl; [intro H; discriminate H|].
    intros Hr HK HT Hlen. apply Hcho. exact (Hldc _ _ Hr HK HT Hlen).
  - (* s_msgc *)
    intros m0 Hin0. destruct (Hmsgc m0 Hin0) as [[Xc [H1 H2]] H3]. split.
    + exists Xc. split; [exact (Hlp _ _ H1) | exact H2].
    + intros K HK HT Hlen. apply Hcho. exact (H3 K HK HT Hlen).
  - (* s_com *)
    intros tc i e Hin0. apply in_app_or in Hin0. destruct Hin0 as [Hin0|Hin0].
    + destruct (Nat.ltb_spec (commit (st s f)) (commit_of (log (st s f)) (commit (st s f)) m)) as [Hlt|Hge];
        [|contradiction].
      apply in_tagged in Hin0. destruct Hin0 as [-> [Hi He]].
      destruct (Hcnew Hlt) as [K (HK & HT & Hchosen & HlenK & Hf & _)].
      exists K. split; [exact HK|]. split; [exact HT|]. split; [lia|]. split; [|apply Hcho; exact Hchosen].
      assert (E1 : nth_error (firstn (commit_of (log (st s f)) (commit (st s f)) m) (newlog_of (log (st s f)) m)) (i - 1)
                   = nth_error (firstn (commit_of (log (st s f)) (commit (st s f)) m) K) (i - 1))
        by (rewrite Hf; reflexivity).
      rewrite !nth_error_firstn in E1.
      destruct (Nat.ltb_spec (i - 1) (commit_of (log (st s f)) (commit (st s f)) m)); [|lia].
      rewrite <- E1. exact He.
    + destruct (Hcom _ _ _ Hin0) as [K (H1 & H2 & H3 & H4 & H5)].
      exists K. repeat split; auto.
  - (* s_nc *)
    intros n0 i e. upd_case n0 f; simpl.
    + intros H1 H2.
      destruct (Nat.ltb_spec (commit (st s f)) (commit_of (log (st s f)) (commit (st s f)) m)) as [Hlt|Hge].
      * exists (rterm m). split; [lia|]. apply in_or_app. left. apply in_tagged. auto.
      * assert (Hi : (1 <= i <= commit (st s f))%nat) by lia.
        rewrite (Hcold i Hi) in H2. destruct (Hnc _ _ _ Hi H2) as [tc [H3 H4]].
        exists tc. split; [lia|]. simpl. exact H4.
    + intros H1 H2. destruct (Hnc _ _ _ H1 H2) as [tc [H3 H4]]. exists tc. split; [exact H3|].
      apply in_or_app. right. exact H4.
  - (* s_cf *)
    intros n0. upd_case n0 f; simpl; [|apply Hcf].
    destruct (Nat.ltb_spec (commit (st s f)) (commit_of (log (st s f)) (commit (st s f)) m)) as [Hlt|Hge].
    + destruct (Hcnew Hlt) as [K (_ & _ & _ & _ & _ & H)]. exact H.
    + assert (E : commit_of (log (st s f)) (commit (st s f)) m = commit (st s f)) by lia.
      rewrite E. destruct (changed_of (log (st s f)) m); [exact Hcoldlen | apply Hcf].
Qed.

(* ---- Install ---- *)

Lemma prefixb_false X Y : prefixb X Y = false -> ~ prefix X Y.
Proof. intros E H. apply prefixb_true in H. congruence. Qed.

(* two choosable created logs are comparable (in particular a choosable one and a chosen one) *)
Lemma choosable_comparable s K1 K2 :
  linv s -> vinv V s -> sinv s -> In K1 (created s) -> In K2 (created s) ->
  choosable s (lastTerm K1) (length K1) -> choosable s (lastTerm K2) (length K2) ->
  comparable K1 K2.
Proof.
  intros Hl Hv Hs H1 H2 Hc1 Hc2.
  destruct (N.le_gt_cases (lastTerm K1) (lastTerm K2)) as [Hle|Hgt].
  - destruct (l_el _ Hl _ H2) as [n [L HL]].
    exact (recv_comparable s (lastTerm K2) n L K2 (lastTerm K1) K1 Hl Hv Hs HL
             (lpre_created _ _ H2) H1 eq_refl Hle Hc1).
  - assert (Hle : lastTerm K2 <= lastTerm K1) by lia.
    apply comparable_sym. destruct (l_el _ Hl _ H1) as [n [L HL]].
    exact (recv_comparable s (lastTerm K1) n L K1 (lastTerm K2) K2 Hl Hv Hs HL
             (lpre_created _ _ H1) H2 eq_refl Hle Hc2).
Qed.

(* the committed prefix of f survives the installation of a snapshot *)
Lemma install_keeps_commit s f K K2 :
  sinv s -> vinv V s -> linv s -> In K2 (created s) -> prefix K K2 ->
  chosen s (lastTerm K2) (length K2) ->
  prefix (firstn (commit (st s f)) (log (st s f)))
         (if prefixb K (log (st s f)) then log (st s f) else K).
Proof.
  intros Hs Hv Hl HK2 HKK2 Hch2.
  pose proof Hs as [Hat Hal Ham Hmi Hack Hvote Hsafe Hldc Hmsgc Hcom Hnc Hcf].
  destruct (prefixb K (log (st s f))) eqn:Esame; [apply firstn_prefix|].
  pose proof (prefixb_false _ _ Esame) as Hnp.
  pose proof (Hcf f) as Hc1. pose proof (l_fl _ Hl f) as Hc2.
  destruct (commit (st s f)) as [|j] eqn:Ec; [apply prefix_nil|].
  destruct (nth_error (log (st s f)) j) as [e|] eqn:Ee; [|apply nth_error_None in Ee; lia].
  destruct (Hnc f (S j) e) as [tc [Htc Hco]];
    [lia | simpl; rewrite Nat.sub_0_r; exact Ee |].
  destruct (Hcom _ _ _ Hco) as [Kc (HKc & HT & _ & HKe & Hchosen)].
  simpl in HKe. rewrite Nat.sub_0_r in HKe.
  assert (HlenK : (j < length Kc)%nat) by (apply nth_error_Some; congruence).
  assert (Hf : firstn (S j) (log (st s f)) = firstn (S j) Kc).
  { apply (wf_match (created s)); try lia.
    - exact (l_keyed _ Hl).
    - exact (l_wfn _ Hl f).
    - exact (wf_created _ _ (l_closed _ Hl) HKc).
    - simpl. rewrite Ee, HKe. reflexivity. }
  assert (Hcmp : comparable Kc K2).
  { apply (choosable_comparable s); try assumption.
    - rewrite HT. apply chosen_choosable. exact Hchosen.
    - apply chosen_choosable. exact Hch2. }
  apply (change_keeps _ (log (st s f)) Kc K);
    [apply firstn_prefix | rewrite Hf; apply firstn_prefix | | exact Hnp].
  destruct Hcmp as [H|H].
  - exact (prefix_comparable _ _ _ H HKK2).
  - right. exact (prefix_trans _ _ _ HKK2 H).
Qed.

Lemma sinv_install s f t l K K2 L0 c :
  sinv s -> vinv V s -> linv s ->
  cur (st s f) <= t -> In (t, l, L0) (elected s) -> lpre s t K ->
  In K2 (created s) -> prefix K K2 -> lastTerm K2 <= t ->
  chosen s (lastTerm K2) (length K2) ->
  (commit (st s f) <= c <= Nat.max (commit (st s f)) (length K))%nat ->
  sinv (do_install f t l K K2 c s).
Proof.
  intros Hs Hv Hl Hterm HL0 HKt HK2 HKK2 Hlt Hch2 Hcc.
  pose proof Hs as [Hat Hal Ham Hmi Hack Hvote Hsafe Hldc Hmsgc Hcom Hnc Hcf].
  assert (Hanti : forall tc k0, choosable (do_install f t l K K2 c s) tc k0 -> choosable s tc k0).
  { intros tc k0. apply choosable_anti; unfold do_install; simpl.
    - intros v0. upd_case v0 f; simpl; lia.
    - intros t0 v0 i [Heq|Hin0]; [right; injection Heq as E1 E2 E3; subst t0 v0 i; exact Hterm | left; exact Hin0]. }
  assert (Hcho : forall tc k0, chosen s tc k0 -> chosen (do_install f t l K K2 c s) tc k0).
  { intros tc k0. apply chosen_mono. unfold do_install; simpl. apply incl_tl, incl_refl. }
  assert (Hlp : forall t0 Y, lpre s t0 Y -> lpre (do_install f t l K K2 c s) t0 Y).
  { intros t0 Y. apply lpre_mono; apply incl_refl. }
  (* K is a durable prefix of the new log *)
  assert (HKnew : prefix K (firstn (if prefixb K (log (st s f))
                                    then Nat.max (flushed (st s f)) (length K) else length K)
                                   (if prefixb K (log (st s f)) then log (st s f) else K))).
  { destruct (prefixb K (log (st s f))) eqn:E.
    - apply prefix_firstn_of; [apply prefixb_true; exact E | lia].
    - rewrite firstn_all. apply prefix_refl. }
  assert (HKnl : prefix K (if prefixb K (log (st s f)) then log (st s f) else K))
    by exact (prefix_trans _ _ _ HKnew (firstn_prefix _ _)).
  (* a choosable prefix durably held by f stays so *)
  assert (Hdur : forall K', In K' (created s) -> choosable s (lastTerm K') (length K') ->
            holds s f K' ->
            prefix K' (firstn (if prefixb K (log (st s f))
                               then Nat.max (flushed (st s f)) (length K) else length K)
                              (if prefixb K (log (st s f)) then log (st s f) else K))).
  { intros K' HK' Hch' Hh. unfold holds in Hh. destruct (prefixb K (log (st s f))) eqn:E.
    - exact (prefix_trans _ _ _ Hh (prefix_firstn_le _ _ _ (Nat.le_max_l _ _))).
    - rewrite firstn_all. pose proof (prefix_trans _ _ _ Hh (firstn_prefix _ _)) as Hp.
      assert (Hcmp : comparable K' K2).
      { apply (choosable_comparable s); try assumption. apply chosen_choosable. exact Hch2. }
      destruct Hcmp as [H|H].
      + destruct (prefix_comparable _ _ _ H HKK2) as [H'|H']; [exact H'|].
        exfalso. apply (prefixb_false _ _ E). exact (prefix_trans _ _ _ H' Hp).
      + exfalso. apply (prefixb_false _ _ E). exact (prefix_trans _ _ _ (prefix_trans _ _ _ HKK2 H) Hp). }
  (* what is acknowledged now is durably held *)
  assert (Hnewack : forall K', In K' (created s) -> lastTerm K' = t -> (length K' <= length K)%nat ->
            prefix K' (firstn (if prefixb K (log (st s f))
                               then Nat.max (flushed (st s f)) (length K) else length K)
                              (if prefixb K (log (st s f)) then log (st s f) else K))).
  { intros K' HK' HT Hlen. apply (prefix_trans _ K); [|exact HKnew].
    apply comparable_length; [|exact Hlen]. apply (lpre_comparable V s t); auto.
    rewrite <- HT. apply lpre_created. exact HK'. }
  (* the committed prefix of f survives *)
  pose proof (install_keeps_commit s f K K2 Hs Hv Hl HK2 HKK2 Hch2) as Hckeep.
  assert (Hcold : forall i, (1 <= i <= commit (st s f))%nat ->
            nth_error (if prefixb K (log (st s f)) then log (st s f) else K) (i - 1)
            = nth_error (log (st s f)) (i - 1)).
  { intros i Hi. pose proof (Hcf f) as Hc1. pose proof (l_fl _ Hl f) as Hc2.
    pose proof (prefix_firstn_eq _ _ Hckeep) as E. rewrite firstn_length_le in E by lia.
    assert (E1 : nth_error (firstn (commit (st s f))
                              (if prefixb K (log (st s f)) then log (st s f) else K)) (i - 1)
                 = nth_error (firstn (commit (st s f)) (log (st s f))) (i - 1)) by (rewrite E; reflexivity).
    rewrite !nth_error_firstn in E1.
    destruct (Nat.ltb_spec (i - 1) (commit (st s f))); [exact E1 | lia]. }
  assert (Hcoldlen : (commit (st s f) <=
                        length (if prefixb K (log (st s f)) then log (st s f) else K))%nat).
  { pose proof (Hcf f) as Hc1. pose proof (l_fl _ Hl f) as Hc2.
    pose proof (prefix_length _ _ Hckeep) as E. rewrite firstn_length_le in E by lia. exact E. }
  constructor; unfold do_install; simpl.
  - (* s_at *)
    intros tc v0 i [Heq|Hin0].
    + injection Heq as E1 E2 E3. subst tc v0 i. rewrite upd_eq. simpl. lia.
    + pose proof (Hat _ _ _ Hin0). upd_case v0 f; simpl; lia.
  - (* s_al *)
    intros tc v0 i [Heq|Hin0].
    + injection Heq as E1 E2 E3. subst tc v0 i. exists K. split; [exact (Hlp _ _ HKt) | reflexivity].
    + destruct (Hal _ _ _ Hin0) as [Y [H1 H2]]. exists Y. split; [exact (Hlp _ _ H1) | exact H2].
  - (* s_am *)
    intros a [<-|Hin0]; [left; reflexivity | right; exact (Ham _ Hin0)].
  - (* s_mi *)
    intros l0 v0 j. upd_case l0 f; simpl; [intro H; discriminate H|].
    intros Hr Hj. right. exact (Hmi _ _ _ Hr Hj).
  - (* s_ack *)
    intros tc v0 i K' [Heq|Hin0] HK' HT Hlen Hch.
    + injection Heq as E1 E2 E3. subst tc v0 i.
      unfold holds. simpl. rewrite upd_eq. simpl. exact (Hnewack K' HK' HT Hlen).
    + pose proof (Hack _ _ _ _ Hin0 HK' HT Hlen (Hanti _ _ Hch)) as Hh.
      unfold holds. simpl. upd_case v0 f; simpl; [|exact Hh].
      apply (Hdur K' HK'); [rewrite HT; exact (Hanti _ _ Hch) | exact Hh].
  - (* s_vote *)
    intros u v0 c0 L1 tc i K' Hvo Hsta0 [Heq|Hin0] Hlt' HK' HT Hlen Hch.
    + injection Heq as E1 E2 E3. subst tc v0 i. destruct (va _ _ Hv _ _ _ Hvo) as [_ [H _]]. lia.
    + exact (Hvote _ _ _ _ _ _ _ Hvo Hsta0 Hin0 Hlt' HK' HT Hlen (Hanti _ _ Hch)).
  - (* s_safe *)
    intros u n0 L1 tc K' H1 H2 H3 H4 Hch. exact (Hsafe _ _ _ _ _ H1 H2 H3 H4 (Hanti _ _ Hch)).
  - (* s_ldc *)
    intros l0 K'. upd_case l0 f; simpl; [intro H; discriminate H|].
    intros Hr HK' HT Hlen. apply Hcho. exact (Hldc _ _ Hr HK' HT Hlen).
  - (* s_msgc *)
    intros m0 Hin0. destruct (Hmsgc m0 Hin0) as [[Xc [H1 H2]] H3]. split.
    + exists Xc. split; [exact (Hlp _ _ H1) | exact H2].
    + intros K' HK' HT Hlen. apply Hcho. exact (H3 K' HK' HT Hlen).
  - (* s_com *)
    intros tc i e Hin0. apply in_app_or in Hin0. destruct Hin0 as [Hin0|Hin0].
    + apply in_tagged in Hin0. destruct Hin0 as [-> [Hi He]].
      exists K2. split; [exact HK2|]. split; [reflexivity|]. split; [lia|].
      split; [exact (prefix_nth_error _ _ _ _ HKK2 He) | apply Hcho; exact Hch2].
    + destruct (Hcom _ _ _ Hin0) as [K' (H1 & H2 & H3 & H4 & H5)].
      exists K'. repeat split; auto.
  - (* s_nc *)
    intros n0 i e. upd_case n0 f; simpl.
    + intros H1 H2. destruct (le_lt_dec i (length K)) as [Hi|Hi].
      * exists (lastTerm K2). split; [exact Hlt|]. apply in_or_app. left. apply in_tagged.
        split; [reflexivity|]. split; [lia|].
        destruct (nth_error K (i - 1)) as [e'|] eqn:Ee; [|apply nth_error_None in Ee; lia].
        pose proof (prefix_nth_error _ _ _ _ HKnl Ee) as He'. congruence.
      * assert (Hi' : (1 <= i <= commit (st s f))%nat) by lia.
        rewrite (Hcold i Hi') in H2. destruct (Hnc _ _ _ Hi' H2) as [tc [H3 H4]].
        exists tc. split; [lia|]. apply in_or_app. right. exact H4.
    + intros H1 H2. destruct (Hnc _ _ _ H1 H2) as [tc [H3 H4]]. exists tc. split; [exact H3|].
      apply in_or_app. right. exact H4.
  - (* s_cf *)
    intros n0. upd_case n0 f; simpl; [|apply Hcf].
    pose proof (Hcf f) as Hc1. revert Hcoldlen.
    destruct (prefixb K (log (st s f))); intros Hcoldlen; lia.
Qed.

(* ---- all steps ---- *)

Lemma send_msgc_ok s l pi k c :
  sinv s -> linv s -> role (st s l) = Leader -> (c <= commit (st s l))%nat ->
  msgc_ok s (mkReq (cur (st s l)) l pi (term_at (log (st s l)) pi)
                   (firstn k (skipn pi (log (st s l)))) c).
Proof.
  intros Hs Hl Hrole Hc. split; simpl.
  - exists (firstn c (log (st s l))). split.
    + apply (lpre_prefix _ _ _ (log (st s l))); [exact (l_ldl _ Hl _ Hrole) | apply firstn_prefix].
    + apply firstn_length_le. pose proof (s_cf _ Hs l). pose proof (l_fl _ Hl l). lia.
  - intros K HK HT Hlen. apply (s_ldc _ Hs _ _ Hrole HK HT). lia.
Qed.

Ltac snode_obl :=
  repeat split; simpl; try reflexivity; try lia; try congruence; auto.

Lemma sinv_step s s' : sinv s -> vinv V s -> linv s -> step V s s' -> sinv s'.
Proof.
  intros Hs Hv Hl Hstep. destruct Hstep.
  - apply sinv_start; assumption.
  - eapply sinv_grant; eassumption.
  - (* bump *)
    apply (sinv_frame s); try exact Hs; unfold do_bump; simpl; try reflexivity; auto.
    intros n0. upd_case n0 n; simpl; snode_obl.
  - (* step down *)
    apply (sinv_frame s); try exact Hs; unfold do_follow; simpl; try reflexivity; auto.
    intros n0. upd_case n0 n; simpl; snode_obl.
  - (* count *)
    apply (sinv_frame s); try exact Hs; unfold do_count; simpl; try reflexivity; auto.
    intros n0. upd_case n0 c; simpl; snode_obl.
  - apply sinv_win; assumption.
  - apply sinv_client_append; assumption.
  - (* send *)
    apply (sinv_frame s); try exact Hs; unfold do_send_append; simpl; try reflexivity; auto.
    + intros m [<-|Hin]; [right; apply send_msgc_ok; assumption | left; exact Hin].
    + intros n0. snode_obl.
  - apply sinv_recv_ok; assumption.
  - (* recv ack *)
    apply (sinv_frame s); try exact Hs; unfold do_recv_ack; simpl; try reflexivity; auto.
    + intros a0 Hin. exact (remove1_incl _ _ _ _ Hin).
    + intros n0. upd_case n0 l; simpl; [|snode_obl].
      split; [reflexivity|]. split; [reflexivity|]. split; [reflexivity|]. split; [lia|].
      intros Hr. split; [exact Hr|]. split; [reflexivity|].
      intros v j [Heq|Hin]; [|left; exact Hin].
      right. inversion Heq; subst. rewrite <- H1. exact (s_am _ Hs _ H0).
  - eapply sinv_advance; eassumption.
  - apply sinv_crash; assumption.
  - (* lose grant *)
    apply (sinv_frame s); try exact Hs; unfold do_lose_grant; simpl; try reflexivity; auto.
    intros n0. snode_obl.
  - (* net *)
    apply (sinv_frame s); try exact Hs; unfold do_net_appends; simpl; try reflexivity; auto.
    intros n0. snode_obl.
  - (* drop ack *)
    apply (sinv_frame s); try exact Hs; unfold do_drop_ack; simpl; try reflexivity; auto.
    + intros a0 Hin. exact (remove1_incl _ _ _ _ Hin).
    + intros n0. snode_obl.
  - (* flush *)
    apply (sinv_frame s); try exact Hs; unfold do_flush; simpl; try reflexivity; auto.
    intros n0. upd_case n0 n; simpl; snode_obl.
  - (* install *)
    eapply sinv_install; eassumption.
  - (* truncated request: msgc_ok only reads the term and the announced commit index *)
    apply (sinv_frame s); try exact Hs; unfold do_trunc; simpl; try reflexivity; auto.
    + intros m0 [<-|Hin]; [right; exact (s_msgc _ Hs _ H) | left; exact Hin].
    + intros n0. snode_obl.
Qed.

Lemma reachable_all s : Reachable V s -> vinv V s /\ linv s /\ sinv s.
Proof.
  intros Hr. induction Hr as [|s s' _ [IHv [IHl IHs]] Hstep].
  - split; [apply vinv_init | split; [apply linv_init | apply sinv_init]].
  - split; [exact (vinv_step V _ _ IHv Hstep)|].
    split; [exact (linv_step V _ _ IHl IHv Hstep) | exact (sinv_step _ _ IHs IHv IHl Hstep)].
Qed.

End RaftSafe.
