(* Abs/Quorum.v  Majorities of a static voter list and their intersection.
   Standard library only.  No hypothesis on V itself is needed (in particular
   not NoDup V): a majority is a duplicate-free sub-list of V that is longer
   than half of V, and two such lists cannot be disjoint. *)
From Coq Require Import List NArith Arith Lia.
Import ListNotations.

Section Quorum.
Variable V : list N.

Definition majority (Q : list N) : Prop :=
  NoDup Q /\ incl Q V /\ 2 * length Q > length V.

(* the implementation's quorum size and the equivalence between the relational
   majority test and the "votesNeeded reached zero" counter test *)
Definition quorum : nat := length V / 2 + 1.

Lemma quorum_reached_iff (k : nat) : quorum - k = 0 <-> 2 * k > length V.
Proof.
  unfold quorum.
  pose proof (Nat.div_mod (length V) 2) as Hdm.
  pose proof (Nat.mod_upper_bound (length V) 2) as Hub.
  lia.
Qed.

Lemma disjoint_or_meet (Q1 Q2 : list N) :
  (forall v, In v Q1 -> ~ In v Q2) \/ (exists v, In v Q1 /\ In v Q2).
Proof.
  induction Q1 as [|a Q1 IH].
  - left. intros v Hv. inversion Hv.
  - destruct (in_dec N.eq_dec a Q2) as [Hin|Hnin].
    + right. exists a. split; [left; reflexivity | exact Hin].
    + destruct IH as [Hdis|[v [Hv1 Hv2]]].
      * left. intros v [Hv|Hv]; [subst v; exact Hnin | apply Hdis; exact Hv].
      * right. exists v. split; [right; exact Hv1 | exact Hv2].
Qed.

Lemma NoDup_app_disjoint (Q1 Q2 : list N) :
  NoDup Q1 -> NoDup Q2 -> (forall v, In v Q1 -> ~ In v Q2) -> NoDup (Q1 ++ Q2).
Proof.
  intros Hn1 Hn2 Hdis. induction Hn1 as [|a Q1 Ha Hn1 IH]; simpl.
  - exact Hn2.
  - constructor.
    + intro Hin. apply in_app_or in Hin. destruct Hin as [Hin|Hin].
      * exact (Ha Hin).
      * exact (Hdis a (or_introl eq_refl) Hin).
    + apply IH. intros v Hv. apply Hdis. right. exact Hv.
Qed.

Lemma two_majorities_meet (Q1 Q2 : list N) :
  majority Q1 -> majority Q2 -> exists v, In v Q1 /\ In v Q2.
Proof.
  intros [Hn1 [Hi1 Hl1]] [Hn2 [Hi2 Hl2]].
  destruct (disjoint_or_meet Q1 Q2) as [Hdis|Hmeet]; [|exact Hmeet].
  exfalso.
  assert (Hnd : NoDup (Q1 ++ Q2)) by (apply NoDup_app_disjoint; assumption).
  assert (Hincl : incl (Q1 ++ Q2) V) by (apply incl_app; assumption).
  pose proof (NoDup_incl_length Hnd Hincl) as Hlen.
  rewrite app_length in Hlen. lia.
Qed.

End Quorum.
