(* Abs/Exec.v  An executable, proved-sound checker that an observed cluster
   history is a run of the abstract protocol of Abs/Raft.v.

   The harness runs real nodes (simulated cluster: the harness is scheduler and
   network).  After every event it reports what kind of event it was (an
   election start, a vote request delivered with its answer, a vote answer
   delivered, an append request written by a leader, an append request
   delivered, an append request cut by the network after some of its entries
   were handled, a success answer delivered to the leader, a snapshot installed, a
   crash+restart, or anything else) together with the projection of EVERY node's state onto the
   abstract state (term, vote, role, log, durable prefix, commit index).

   [explain] executes the corresponding abstract steps (checking every guard
   with boolean tests) plus the always-enabled ones needed to reach the observed
   projection of the node that ran the event (adopt a higher term, step down,
   win with a counted majority, append own-term entries as leader, flush,
   advance the commit index over a majority of acknowledgements) and then
   compares all projections.  [explain_sound]: acceptance means the abstract
   state moved by steps of the relation [step], so every accepted history is a
   [Reachable] state of the model the safety theorems are about, and the
   observed projections ARE that state's.  No proofs of the protocol here. *)
From Coq Require Import List NArith Arith Lia Bool.
From Verif Require Import Abs.Quorum Abs.RaftBase Abs.Raft.
Import ListNotations.
Open Scope N_scope.

(* ---- boolean equalities ---- *)

Definition areq_eqb (a b : areq) : bool :=
  (rterm a =? rterm b) && (rldr a =? rldr b) && Nat.eqb (rprevIdx a) (rprevIdx b) &&
  (rprevTerm a =? rprevTerm b) && log_eqb (rents a) (rents b) && Nat.eqb (rcommit a) (rcommit b).

Lemma areq_eqb_eq a b : areq_eqb a b = true -> a = b.
Proof.
  destruct a as [a1 a2 a3 a4 a5 a6], b as [b1 b2 b3 b4 b5 b6]. unfold areq_eqb. simpl. intro H.
  rewrite !andb_true_iff in H. destruct H as [[[[[H1 H2] H3] H4] H5] H6].
  apply N.eqb_eq in H1. apply N.eqb_eq in H2. apply Nat.eqb_eq in H3. apply N.eqb_eq in H4.
  apply log_eqb_eq in H5. apply Nat.eqb_eq in H6. subst. reflexivity.
Qed.

Lemma aeqb_eq a b : aeqb a b = true -> a = b.
Proof.
  destruct a as [a1 a2 a3 a4], b as [b1 b2 b3 b4]. unfold aeqb. simpl. intro H.
  rewrite !andb_true_iff in H. destruct H as [[[H1 H2] H3] H4].
  apply N.eqb_eq in H1. apply N.eqb_eq in H2. apply N.eqb_eq in H3. apply Nat.eqb_eq in H4.
  subst. reflexivity.
Qed.

Lemma veqb_eq (a b : vrec) : veqb a b = true -> a = b.
Proof.
  destruct a as [[a1 a2] a3], b as [[b1 b2] b3]. unfold veqb. simpl. intro H.
  rewrite !andb_true_iff in H. destruct H as [[H1 H2] H3].
  apply N.eqb_eq in H1. apply N.eqb_eq in H2. apply N.eqb_eq in H3. subst. reflexivity.
Qed.

Lemma existsb_In {A} (eqb : A -> A -> bool) (Heq : forall a b, eqb a b = true -> a = b) x l :
  existsb (eqb x) l = true -> In x l.
Proof.
  intro H. apply existsb_exists in H. destruct H as [y [Hy E]]. apply Heq in E. subst. exact Hy.
Qed.

Definition role_eqb (a b : Role) : bool :=
  match a, b with
  | Follower, Follower | Candidate, Candidate | Leader, Leader => true
  | _, _ => false
  end.

Lemma role_eqb_eq a b : role_eqb a b = true -> a = b.
Proof. destruct a, b; simpl; intro H; try discriminate; reflexivity. Qed.

(* ---- boolean guards ---- *)

Definition uptodateb (Lc Lv : list entry) : bool :=
  (lastTerm Lv <? lastTerm Lc) || ((lastTerm Lc =? lastTerm Lv) && Nat.leb (length Lv) (length Lc)).

Lemma uptodateb_ok Lc Lv : uptodateb Lc Lv = true -> uptodate Lc Lv.
Proof.
  unfold uptodateb, uptodate. intro H. apply orb_prop in H. destruct H as [H|H].
  - left. apply N.ltb_lt. exact H.
  - apply andb_prop in H. destruct H as [H1 H2]. right. split; [apply N.eqb_eq; exact H1 | apply Nat.leb_le; exact H2].
Qed.

Definition match_geb (m : list (N * nat)) (v : N) (k : nat) : bool :=
  existsb (fun p => (fst p =? v) && Nat.leb k (snd p)) m.

Lemma match_geb_ok m v k : match_geb m v k = true -> match_ge m v k.
Proof.
  unfold match_geb, match_ge. intro H. apply existsb_exists in H. destruct H as [[v' j] [Hin H]].
  simpl in H. apply andb_prop in H. destruct H as [H1 H2]. apply N.eqb_eq in H1. apply Nat.leb_le in H2.
  subst. exists j. split; assumption.
Qed.

Definition lpreb (s : state) (t : N) (X : list entry) : bool :=
  existsb (fun r => (fst (fst r) =? t) && prefixb X (snd r)) (elected s) ||
  existsb (fun K => (lastTerm K =? t) && prefixb X K) (created s).

Lemma lpreb_ok s t X : lpreb s t X = true -> lpre s t X.
Proof.
  unfold lpreb, lpre. intro H. apply orb_prop in H. destruct H as [H|H]; apply existsb_exists in H.
  - destruct H as [[[t' n] L] [Hin H]]. simpl in H. apply andb_prop in H. destruct H as [H1 H2].
    apply N.eqb_eq in H1. subst t'. left. exists n, L. split; [exact Hin | apply prefixb_true; exact H2].
  - destruct H as [K [Hin H]]. apply andb_prop in H. destruct H as [H1 H2]. apply N.eqb_eq in H1.
    right. exists K. split; [exact Hin|]. split; [exact H1 | apply prefixb_true; exact H2].
Qed.

(* ---- observations ---- *)

Record obs := mkO {
  o_cur : N; o_vote : N; o_role : Role; o_log : list entry; o_flushed : nat; o_commit : nat
}.

Definition obs_matches (x : nstate) (o : obs) : bool :=
  (cur x =? o_cur o) && (vote x =? o_vote o) && role_eqb (role x) (o_role o) &&
  log_eqb (log x) (o_log o) && Nat.eqb (flushed x) (o_flushed o) && Nat.eqb (commit x) (o_commit o).

Lemma obs_matches_ok x o : obs_matches x o = true ->
  cur x = o_cur o /\ vote x = o_vote o /\ role x = o_role o /\ log x = o_log o /\
  flushed x = o_flushed o /\ commit x = o_commit o.
Proof.
  unfold obs_matches. intro H.
  rewrite !andb_true_iff in H. destruct H as [[[[[H1 H2] H3] H4] H5] H6].
  apply N.eqb_eq in H1. apply N.eqb_eq in H2. apply role_eqb_eq in H3. apply log_eqb_eq in H4.
  apply Nat.eqb_eq in H5. apply Nat.eqb_eq in H6. auto 10.
Qed.

Inductive aevent :=
| AStart (n : N)                           (* n started an election *)
| AVoteReq (v t c : N) (granted : bool)    (* v handled the vote request (t, c) *)
| AVoteRes (c v : N) (granted : bool)      (* candidate c handled v's answer to its request of its current term *)
| ASend (l : N) (m : areq)                 (* leader l wrote append request m *)
| ARecv (f : N) (m : areq)                 (* f handled append request m *)
| ARecvCut (f : N) (m : areq) (k : nat)    (* f handled the first k entries of request m, then the connection broke *)
| AAck (l f : N) (k : nat)                 (* leader l handled f's success answer to a request whose last index is k *)
| ACrash (n : N) (c : nat)                 (* n crashed and restarted with commit index c *)
| AInstall (f t l : N) (K : list entry) (c : nat)  (* f installed the snapshot of leader l (term t) standing for the log prefix K; its commit index is then c *)
| AOther (n : N).                          (* any other event at n *)

Definition ev_node (e : aevent) : N :=
  match e with
  | AStart n => n | AVoteReq v _ _ _ => v | AVoteRes c _ _ => c | ASend l _ => l
  | ARecv f _ => f | ARecvCut f _ _ => f | AAck l _ _ => l | ACrash n _ => n | AInstall f _ _ _ _ => f | AOther n => n
  end.

Inductive res := Ok (s : state) | Fail (code : nat).

Section Exec.
Variable V : list N.

Definition ackers (s : state) (tc : N) (k : nat) : list N :=
  filter (fun v => existsb (fun a => (fst (fst a) =? tc) && (snd (fst a) =? v) && Nat.leb k (snd a)) (acked s))
         (nodup N.eq_dec V).

Definition chosenb (s : state) (tc : N) (k : nat) : bool :=
  Nat.ltb (length V) (2 * length (ackers s tc k)).

Lemma chosenb_ok s tc k : chosenb s tc k = true -> chosen V s tc k.
Proof.
  unfold chosenb, chosen, ackers. intro H. apply Nat.ltb_lt in H.
  exists (filter (fun v => existsb (fun a => (fst (fst a) =? tc) && (snd (fst a) =? v) && Nat.leb k (snd a)) (acked s))
                 (nodup N.eq_dec V)).
  split.
  - split; [apply NoDup_filter; apply NoDup_nodup|]. split; [|lia].
    intros v Hv. apply filter_In in Hv. destruct Hv as [Hv _]. apply nodup_In in Hv. exact Hv.
  - intros v Hv. apply filter_In in Hv. destruct Hv as [_ Hv]. apply existsb_exists in Hv.
    destruct Hv as [[[tc' v'] i] [Hin Ha]]. simpl in Ha.
    rewrite !andb_true_iff in Ha. destruct Ha as [[H1 H2] H3].
    apply N.eqb_eq in H1. apply N.eqb_eq in H2. apply Nat.leb_le in H3. subst.
    exists i. split; assumption.
Qed.

(* ---- the step named by the event ---- *)

Definition main_step (s : state) (e : aevent) : res :=
  match e with
  | AStart n =>
      (* a leader told to time out now steps down first *)
      if (n =? 0) then Fail 10 else
      if role_eqb (role (st s n)) Leader then Ok (do_start n (do_follow n s)) else Ok (do_start n s)
  | AVoteReq v t c true =>
      if (c =? 0) then Fail 20 else
      match find (fun x => (fst (fst x) =? t) && (snd (fst x) =? c)) (started s) with
      | None => Fail 21
      | Some (_, _, L) =>
          let x := st s v in
          if negb ((cur x <? t) || ((t =? cur x) && ((vote x =? 0) || (vote x =? c)))) then Fail 22 else
          if negb (uptodateb L (log x)) then Fail 23 else Ok (do_grant v t c s)
      end
  | AVoteReq _ _ _ false => Ok s
  | AVoteRes c v true =>
      let x := st s c in
      if negb (role_eqb (role x) Candidate) then Fail 30 else
      if negb (existsb (N.eqb v) V) then Fail 31 else
      if negb (existsb (veqb (cur x, v, c)) (grants s)) then Fail 32 else
      if existsb (N.eqb v) (got x) then Fail 33 else Ok (do_count c v s)
  | AVoteRes _ _ false => Ok s
  | ASend l m =>
      let x := st s l in
      if negb (role_eqb (role x) Leader) then Fail 40 else
      if negb (Nat.leb (rprevIdx m) (length (log x))) then Fail 41 else
      if negb (Nat.leb (rcommit m) (commit x)) then Fail 42 else
      if negb (areq_eqb m (mkReq (cur x) l (rprevIdx m) (term_at (log x) (rprevIdx m))
                                 (firstn (length (rents m)) (skipn (rprevIdx m) (log x))) (rcommit m)))
      then Fail 43 else Ok (do_send_append l (rprevIdx m) (length (rents m)) (rcommit m) s)
  | ARecv f m =>
      if negb (existsb (areq_eqb m) (appends s)) then Fail 50 else
      if (f =? rldr m) then Fail 51 else Ok (do_recv_append f m s)
  | ARecvCut f m k =>
      (* the network delivered only the first k entries of a request of the pool *)
      if negb (existsb (areq_eqb m) (appends s)) then Fail 52 else
      if (f =? rldr m) then Fail 53 else Ok (do_recv_append f (trunc_req m k) (do_trunc m k s))
  | AAck l f k =>
      let x := st s l in
      let a := mkAck (cur x) f l k in
      if negb (role_eqb (role x) Leader) then Fail 60 else
      if negb (existsb (aeqb a) (acks s)) then Fail 61 else Ok (do_recv_ack l a s)
  | AInstall f t l K c =>
      let x := st s f in
      if (f =? l) then Fail 100 else
      if negb (Nat.leb (commit x) c && Nat.leb c (Nat.max (commit x) (length K))) then Fail 105 else
      if negb (cur x <=? t) then Fail 101 else
      match find (fun r => (fst (fst r) =? t) && (snd (fst r) =? l)) (elected s) with
      | None => Fail 102
      | Some _ =>
          if negb (lpreb s t K) then Fail 103 else
          match find (fun K2 => prefixb K K2 && (lastTerm K2 <=? t) && chosenb s (lastTerm K2) (length K2)) (created s) with
          | None => Fail 104
          | Some K2 => Ok (do_install f t l K K2 c s)
          end
      end
  | ACrash n c =>
      if negb (Nat.leb c (commit (st s n))) then Fail 95 else Ok (do_crash n c s)
  | AOther _ => Ok s
  end.

(* ---- always-enabled steps towards the observed projection of node n ---- *)

Definition rc_bump (s : state) (n : N) (o : obs) : res :=
  if cur (st s n) <? o_cur o then Ok (do_bump n (o_cur o) s) else Ok s.

Definition rc_win (s : state) (n : N) (o : obs) : res :=
  if role_eqb (role (st s n)) Candidate && role_eqb (o_role o) Leader then
    if Nat.ltb (length V) (2 * length (got (st s n))) then Ok (do_win n s) else Fail 70
  else Ok s.

Definition rc_follow (s : state) (n : N) (o : obs) : res :=
  if role_eqb (o_role o) Follower && negb (role_eqb (role (st s n)) Follower)
  then Ok (do_follow n s) else Ok s.

(* the leader appended the payloads ps, in order *)
Fixpoint appends_of (n : N) (ps : list N) (s : state) : state :=
  match ps with
  | [] => s
  | p :: r => appends_of n r (do_client_append n p s)
  end.

Definition rc_append (s : state) (n : N) (o : obs) : res :=
  let x := st s n in
  if role_eqb (role x) Leader && Nat.ltb (length (log x)) (length (o_log o))
  then Ok (appends_of n (map snd (skipn (length (log x)) (o_log o))) s)
  else Ok s.

Definition quorum_for (s : state) (n : N) (k : nat) : list N :=
  filter (fun v => (v =? n) || match_geb (matchIdx (st s n)) v k) (nodup N.eq_dec V).

Definition rc_advance (s : state) (n : N) (o : obs) : res :=
  let x := st s n in
  if role_eqb (role x) Leader && Nat.ltb (commit x) (o_commit o) then
    let k := o_commit o in
    if negb (Nat.leb k (length (log x))) then Fail 80 else
    if negb (term_at (log x) k =? cur x) then Fail 81 else
    if negb (Nat.ltb (length V) (2 * length (quorum_for s n k))) then Fail 82 else
    Ok (do_advance n k s)
  else Ok s.

Definition rc_flush (s : state) (n : N) (o : obs) : res :=
  let x := st s n in
  if Nat.ltb (flushed x) (o_flushed o) then
    if Nat.leb (o_flushed o) (length (log x)) then Ok (do_flush n (o_flushed o) s) else Fail 90
  else Ok s.

Definition rbind (r : res) (k : state -> res) : res :=
  match r with Ok s => k s | Fail c => Fail c end.

Definition reconcile (s : state) (n : N) (o : obs) : res :=
  rbind (rc_bump s n o) (fun s1 =>
  rbind (rc_win s1 n o) (fun s2 =>
  rbind (rc_follow s2 n o) (fun s3 =>
  rbind (rc_append s3 n o) (fun s4 =>
  rbind (rc_advance s4 n o) (fun s5 =>
  rc_flush s5 n o))))).

Definition check_obs (s : state) (os : list (N * obs)) : bool :=
  forallb (fun p => obs_matches (st s (fst p)) (snd p)) os.

Definition lookup_obs (n : N) (os : list (N * obs)) : option obs :=
  option_map snd (find (fun p => fst p =? n) os).

Definition explain (s : state) (e : aevent) (os : list (N * obs)) : res :=
  rbind (main_step s e) (fun s1 =>
  match lookup_obs (ev_node e) os with
  | None => Fail 1
  | Some o =>
      rbind (reconcile s1 (ev_node e) o) (fun s2 =>
      if check_obs s2 os then Ok s2 else Fail 2)
  end).

(* a whole history; on failure: the number of events accepted so far and the reason *)
Inductive rres := ROk (s : state) | RFail (k code : nat).

Fixpoint run_from (k : nat) (s : state) (tr : list (aevent * list (N * obs))) : rres :=
  match tr with
  | [] => ROk s
  | (e, os) :: r =>
      match explain s e os with
      | Ok s' => run_from (S k) s' r
      | Fail c => RFail k c
      end
  end.

Definition run (tr : list (aevent * list (N * obs))) : rres := run_from 0 init tr.

(* ================================================================ soundness *)

Lemma steps_one s s' : step V s s' -> steps V s s'.
Proof. intro H. eapply steps_step; [apply steps_refl | exact H]. Qed.

Lemma steps_trans s1 s2 s3 : steps V s1 s2 -> steps V s2 s3 -> steps V s1 s3.
Proof.
  intros H1 H2. induction H2 as [|s s' s'' _ IH Hst]; [exact H1|].
  eapply steps_step; [apply IH; exact H1 | exact Hst].
Qed.

Lemma main_step_sound s e s' : main_step s e = Ok s' -> steps V s s'.
Proof.
  destruct e as [n|v t c g|c v g|l m|f m|f m k|l f k|n c|f t l K c|n]; simpl.
  - destruct (N.eqb_spec n 0) as [|Hn]; [discriminate|].
    destruct (role_eqb (role (st s n)) Leader) eqn:Hr.
    + intro H; inversion H; subst.
      eapply steps_step; [apply steps_one; apply (SStepDown V s n)|].
      apply SStart; [exact Hn|]. unfold do_follow. simpl. rewrite upd_eq. simpl. discriminate.
    + intro H; inversion H; subst. apply steps_one. apply SStart; [exact Hn|].
      intro E. rewrite E in Hr. discriminate.
  - destruct g; [|intro H; inversion H; apply steps_refl].
    destruct (N.eqb_spec c 0) as [|Hc]; [discriminate|].
    destruct (find _ (started s)) as [[[t' c'] L]|] eqn:Hf; [|discriminate].
    apply find_some in Hf. destruct Hf as [Hin Hp]. simpl in Hp.
    apply andb_prop in Hp. destruct Hp as [Ht Hc']. apply N.eqb_eq in Ht. apply N.eqb_eq in Hc'. subst t' c'.
    destruct (negb _) eqn:G1; [discriminate|]. apply negb_false_iff in G1.
    destruct (negb (uptodateb _ _)) eqn:G2; [discriminate|]. apply negb_false_iff in G2.
    intro H; inversion H; subst. apply steps_one. apply (SGrant V s v t c L); [exact Hc | exact Hin | | apply uptodateb_ok; exact G2].
    apply orb_prop in G1. destruct G1 as [G1|G1]; [left; apply N.ltb_lt; exact G1|].
    apply andb_prop in G1. destruct G1 as [G1 G3]. apply N.eqb_eq in G1. right. split; [exact G1|].
    apply orb_prop in G3. destruct G3 as [G3|G3]; apply N.eqb_eq in G3; [left|right]; exact G3.
  - destruct g; [|intro H; inversion H; apply steps_refl].
    destruct (negb (role_eqb _ _)) eqn:G1; [discriminate|]. apply negb_false_iff in G1. apply role_eqb_eq in G1.
    destruct (negb (existsb (N.eqb v) V)) eqn:G2; [discriminate|]. apply negb_false_iff in G2.
    destruct (negb (existsb _ (grants s))) eqn:G3; [discriminate|]. apply negb_false_iff in G3.
    destruct (existsb (N.eqb v) (got (st s c))) eqn:G4; [discriminate|].
    intro H; inversion H; subst. apply steps_one. apply SCount.
    + exact G1.
    + apply (existsb_In N.eqb); [intros a b E; apply N.eqb_eq; exact E | exact G2].
    + apply (existsb_In veqb veqb_eq). exact G3.
    + intro Hin. assert (existsb (N.eqb v) (got (st s c)) = true); [|congruence].
      apply existsb_exists. exists v. split; [exact Hin | apply N.eqb_refl].
  - destruct (negb (role_eqb _ _)) eqn:G1; [discriminate|]. apply negb_false_iff in G1. apply role_eqb_eq in G1.
    destruct (negb (Nat.leb (rprevIdx m) _)) eqn:G2; [discriminate|]. apply negb_false_iff in G2. apply Nat.leb_le in G2.
    destruct (negb (Nat.leb (rcommit m) _)) eqn:G3; [discriminate|]. apply negb_false_iff in G3. apply Nat.leb_le in G3.
    destruct (negb (areq_eqb _ _)) eqn:G4; [discriminate|].
    intro H; inversion H; subst. apply steps_one. apply SSendAppend; assumption.
  - destruct (negb (existsb _ _)) eqn:G1; [discriminate|]. apply negb_false_iff in G1.
    apply (existsb_In areq_eqb areq_eqb_eq) in G1.
    destruct (N.eqb_spec f (rldr m)) as [|Hne]; [discriminate|].
    intro H; inversion H; subst.
    destruct (recv_append_refines V s f m G1 Hne) as [E|Hst]; [rewrite E; apply steps_refl | apply steps_one; exact Hst].
  - (* cut request: the network truncates (STrunc), then the truncated request is delivered *)
    destruct (negb (existsb _ _)) eqn:G1; [discriminate|]. apply negb_false_iff in G1.
    apply (existsb_In areq_eqb areq_eqb_eq) in G1.
    destruct (N.eqb_spec f (rldr m)) as [|Hne]; [discriminate|].
    intro H; inversion H; subst.
    assert (Hin : In (trunc_req m k) (appends (do_trunc m k s))) by (unfold do_trunc; simpl; left; reflexivity).
    assert (Hne' : f <> rldr (trunc_req m k)) by exact Hne.
    eapply steps_trans; [apply steps_one; apply STrunc; exact G1|].
    destruct (recv_append_refines V (do_trunc m k s) f (trunc_req m k) Hin Hne') as [E|Hst];
      [rewrite E; apply steps_refl | apply steps_one; exact Hst].
  - destruct (negb (role_eqb _ _)) eqn:G1; [discriminate|]. apply negb_false_iff in G1. apply role_eqb_eq in G1.
    destruct (negb (existsb _ _)) eqn:G2; [discriminate|]. apply negb_false_iff in G2.
    apply (existsb_In aeqb aeqb_eq) in G2.
    intro H; inversion H; subst. apply steps_one. apply SRecvAck; [exact G1 | exact G2 | reflexivity | reflexivity].
  - destruct (negb (Nat.leb c _)) eqn:G1; [discriminate|]. apply negb_false_iff in G1. apply Nat.leb_le in G1.
    intro H; inversion H; subst. apply steps_one. apply SCrash. exact G1.
  - destruct (N.eqb_spec f l) as [|Hne]; [discriminate|].
    destruct (negb (Nat.leb _ c && _)) eqn:G0; [discriminate|]. apply negb_false_iff in G0.
    apply andb_prop in G0. destruct G0 as [G01 G02]. apply Nat.leb_le in G01. apply Nat.leb_le in G02.
    destruct (negb (cur (st s f) <=? t)) eqn:G1; [discriminate|]. apply negb_false_iff in G1. apply N.leb_le in G1.
    destruct (find _ (elected s)) as [[[t' l'] L0]|] eqn:Hf; [|discriminate].
    apply find_some in Hf. destruct Hf as [Hin Hp]. simpl in Hp.
    apply andb_prop in Hp. destruct Hp as [Ht Hl]. apply N.eqb_eq in Ht. apply N.eqb_eq in Hl. subst t' l'.
    destruct (negb (lpreb s t K)) eqn:G2; [discriminate|]. apply negb_false_iff in G2. apply lpreb_ok in G2.
    destruct (find _ (created s)) as [K2|] eqn:Hf2; [|discriminate].
    apply find_some in Hf2. destruct Hf2 as [Hin2 Hp2].
    rewrite !andb_true_iff in Hp2. destruct Hp2 as [[P1 P2] P3].
    apply prefixb_true in P1. apply N.leb_le in P2. apply chosenb_ok in P3.
    intro H; inversion H; subst. apply steps_one. exact (SInstall V s f t l K K2 L0 c Hne G1 Hin G2 Hin2 P1 P2 P3 (conj G01 G02)).
  - intro H; inversion H; subst. apply steps_refl.
Qed.

Lemma appends_of_sound n : forall ps s, role (st s n) = Leader -> steps V s (appends_of n ps s).
Proof.
  induction ps as [|p r IH]; intros s Hr; simpl; [apply steps_refl|].
  eapply steps_trans; [apply steps_one; apply SClientAppend; exact Hr|].
  apply IH. unfold do_client_append. simpl. rewrite upd_eq. simpl. exact Hr.
Qed.

Lemma quorum_for_majority s n k :
  Nat.ltb (length V) (2 * length (quorum_for s n k)) = true ->
  majority V (quorum_for s n k) /\
  forall v, In v (quorum_for s n k) -> v = n \/ match_ge (matchIdx (st s n)) v k.
Proof.
  intro H. apply Nat.ltb_lt in H. unfold quorum_for in *. split.
  - split; [apply NoDup_filter; apply NoDup_nodup|]. split; [|lia].
    intros v Hv. apply filter_In in Hv. destruct Hv as [Hv _]. apply nodup_In in Hv. exact Hv.
  - intros v Hv. apply filter_In in Hv. destruct Hv as [_ Hv]. apply orb_prop in Hv.
    destruct Hv as [Hv|Hv]; [left; apply N.eqb_eq; exact Hv | right; apply match_geb_ok; exact Hv].
Qed.

Lemma reconcile_sound s n o s' : reconcile s n o = Ok s' -> steps V s s'.
Proof.
  unfold reconcile, rbind. intro H.
  destruct (rc_bump s n o) as [s1|] eqn:E1; [|discriminate].
  destruct (rc_win s1 n o) as [s2|] eqn:E2; [|discriminate].
  destruct (rc_follow s2 n o) as [s3|] eqn:E3; [|discriminate].
  destruct (rc_append s3 n o) as [s4|] eqn:E4; [|discriminate].
  destruct (rc_advance s4 n o) as [s5|] eqn:E5; [|discriminate].
  assert (S1 : steps V s s1).
  { unfold rc_bump in E1. destruct (N.ltb_spec (cur (st s n)) (o_cur o)) as [Hlt|_]; inversion E1; subst;
      [apply steps_one; apply SBump; exact Hlt | apply steps_refl]. }
  assert (S2 : steps V s1 s2).
  { unfold rc_win in E2. destruct (role_eqb (role (st s1 n)) Candidate && role_eqb (o_role o) Leader) eqn:G;
      [|inversion E2; subst; apply steps_refl].
    apply andb_prop in G. destruct G as [G _]. apply role_eqb_eq in G.
    destruct (Nat.ltb (length V) (2 * length (got (st s1 n)))) eqn:G2; [|discriminate].
    inversion E2; subst. apply steps_one. apply SWin; [exact G|]. apply Nat.ltb_lt in G2. lia. }
  assert (S3 : steps V s2 s3).
  { unfold rc_follow in E3. destruct (_ && _); inversion E3; subst; [apply steps_one; apply SStepDown | apply steps_refl]. }
  assert (S4 : steps V s3 s4).
  { unfold rc_append in E4. destruct (role_eqb (role (st s3 n)) Leader && _) eqn:G; inversion E4; subst; [|apply steps_refl].
    apply andb_prop in G. destruct G as [G _]. apply role_eqb_eq in G. apply appends_of_sound. exact G. }
  assert (S5 : steps V s4 s5).
  { unfold rc_advance in E5. destruct (role_eqb (role (st s4 n)) Leader && Nat.ltb (commit (st s4 n)) (o_commit o)) eqn:G;
      [|inversion E5; subst; apply steps_refl].
    apply andb_prop in G. destruct G as [G G']. apply role_eqb_eq in G. apply Nat.ltb_lt in G'.
    destruct (negb (Nat.leb _ _)) eqn:G2; [discriminate|]. apply negb_false_iff in G2. apply Nat.leb_le in G2.
    destruct (negb (_ =? _)) eqn:G3; [discriminate|]. apply negb_false_iff in G3. apply N.eqb_eq in G3.
    destruct (negb (Nat.ltb _ _)) eqn:G4; [discriminate|]. apply negb_false_iff in G4.
    destruct (quorum_for_majority _ _ _ G4) as [HQ HQv].
    inversion E5; subst. apply steps_one. apply (SAdvance V s4 n (o_commit o) (quorum_for s4 n (o_commit o))); auto. }
  assert (S6 : steps V s5 s').
  { unfold rc_flush in H. destruct (Nat.ltb (flushed (st s5 n)) (o_flushed o)) eqn:G; [|inversion H; subst; apply steps_refl].
    apply Nat.ltb_lt in G. destruct (Nat.leb (o_flushed o) (length (log (st s5 n)))) eqn:G2; [|discriminate].
    apply Nat.leb_le in G2. inversion H; subst. apply steps_one. apply SFlush. lia. }
  exact (steps_trans _ _ _ (steps_trans _ _ _ (steps_trans _ _ _ (steps_trans _ _ _ (steps_trans _ _ _ S1 S2) S3) S4) S5) S6).
Qed.

Theorem explain_sound s e os s' :
  explain s e os = Ok s' -> steps V s s' /\ check_obs s' os = true.
Proof.
  unfold explain, rbind. intro H.
  destruct (main_step s e) as [s1|] eqn:E1; [|discriminate].
  destruct (lookup_obs (ev_node e) os) as [o|]; [|discriminate].
  destruct (reconcile s1 (ev_node e) o) as [s2|] eqn:E2; [|discriminate].
  destruct (check_obs s2 os) eqn:E3; [|discriminate]. inversion H; subst.
  split; [|exact E3].
  exact (steps_trans _ _ _ (main_step_sound _ _ _ E1) (reconcile_sound _ _ _ _ E2)).
Qed.

(* what acceptance of a history means: the last observation is the projection of a state
   reachable through the observed history *)
Lemma run_from_sound tr : forall k s s', Reachable V s -> run_from k s tr = ROk s' ->
  Reachable V s' /\
  (forall e os, tr <> [] -> last tr (e, os) = (e, os) -> True) /\
  match tr with [] => True | _ => check_obs s' (snd (last tr (AOther 0, []))) = true end.
Proof.
  induction tr as [|[e os] r IH]; intros k s s' Hr H; simpl in H.
  - inversion H; subst. split; [exact Hr|]. split; [intros; exact I | exact I].
  - destruct (explain s e os) as [s1|] eqn:E; [|discriminate].
    destruct (explain_sound _ _ _ _ E) as [Hs Hc].
    pose proof (reachable_steps V _ _ Hr Hs) as Hr1.
    destruct (IH _ _ _ Hr1 H) as [Hr' [_ Hl]]. split; [exact Hr'|]. split; [intros; exact I|].
    destruct r as [|p r']; [|exact Hl].
    simpl in H. inversion H; subst. simpl. exact Hc.
Qed.

Theorem run_sound tr s : run tr = ROk s -> Reachable V s.
Proof. intro H. exact (proj1 (run_from_sound tr 0 init s (R_init V) H)). Qed.

(* prefixes of accepted histories are accepted, so [run_sound] and
   [run_last_obs] speak about every instant of an accepted history *)
Lemma run_from_app tr1 : forall tr2 k s s', run_from k s (tr1 ++ tr2) = ROk s' ->
  exists s1, run_from k s tr1 = ROk s1.
Proof.
  induction tr1 as [|[e os] r IH]; intros tr2 k s s' H; simpl in *.
  - exists s. reflexivity.
  - destruct (explain s e os) as [s1|]; [|discriminate]. exact (IH _ _ _ _ H).
Qed.

Theorem run_last_obs tr e os s :
  run (tr ++ [(e, os)]) = ROk s -> Reachable V s /\ check_obs s os = true.
Proof.
  intro H. destruct (run_from_sound (tr ++ [(e, os)]) 0 init s (R_init V) H) as [Hr [_ Hl]].
  split; [exact Hr|].
  destruct (tr ++ [(e, os)]) as [|p q] eqn:E; [destruct tr; discriminate|].
  rewrite <- E in Hl. rewrite last_last in Hl. exact Hl.
Qed.

End Exec.
