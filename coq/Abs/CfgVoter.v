(* Abs/CfgVoter.v  Non-voters hold no authority: a node campaigns, and becomes
   leader, only as a voter of the latest configuration of its own log, and is
   elected by a majority of the voters of that configuration. *)
From Coq Require Import List NArith Arith Lia Bool.
From Verif Require Import Abs.Quorum Abs.RaftBase Abs.CfgQuorum Abs.CfgBase Abs.CfgRaft
  Abs.CfgInvDefs Abs.CfgInvAll.
Import ListNotations.
Open Scope N_scope.

Section Voter.
Variable V0 : list N.

(* every vote request comes from a voter of the configuration of the log it carries *)
Lemma started_voter gb s : GReachable V0 gb s ->
  forall t c L, In (t, c, L) (started s) -> In c (cfg_of V0 L).
Proof.
  intro R. induction R as [|s s' _ IH Hs]; [intros t c L H; destruct H|].
  inversion Hs; subst; simpl; try exact IH.
  intros t c L [E|E]; [|exact (IH t c L E)].
  inversion E. subst. assumption.
Qed.

Hypothesis V0_nodup : NoDup V0.

(* [elected] records the log the candidate campaigned and won with, i.e. its
   log BEFORE the no-op of the new term *)
Theorem leader_was_voter s t n L :
  Reachable V0 s -> In (t, n, L) (elected s) -> In n (cfg_of V0 L).
Proof.
  intros R He. destruct (reachable_inv V0 V0_nodup s R) as [F _].
  destruct (f_elwon V0 s F t n L He) as [Hst _].
  exact (started_voter true s R t n L Hst).
Qed.

Theorem leader_elected_by_voters s t n L :
  Reachable V0 s -> In (t, n, L) (elected s) ->
  exists Q, majority (cfg_of V0 L) Q /\ forall v, In v Q -> In (t, v, n) (grants s).
Proof.
  intros R He. destruct (reachable_inv V0 V0_nodup s R) as [F _].
  destruct (f_elwon V0 s F t n L He) as [_ [Q [HQ Hg]]].
  exists Q. split; [exact HQ|]. intros v Hv. exact (proj1 (Hg v Hv)).
Qed.

Theorem one_vote_per_term s t v c c' :
  Reachable V0 s -> In (t, v, c) (grants s) -> In (t, v, c') (grants s) -> c = c'.
Proof.
  intros R H1 H2. destruct (reachable_inv V0 V0_nodup s R) as [F _].
  exact (f_one V0 s F t v c c' H1 H2).
Qed.

Theorem candidate_is_voter s n :
  Reachable V0 s -> role (st s n) = Candidate -> In n (cfg V0 s n).
Proof.
  intros R Hr. destruct (reachable_inv V0 V0_nodup s R) as [_ X].
  exact (started_voter true s R _ _ _ (v_cand s X n Hr)).
Qed.

End Voter.
