(* Abs/CfgInvDefs.v  Shared definitions for the invariants of Abs/CfgRaft.v,
   and the record [facts]: the state facts from which election safety and
   leader completeness follow by a purely "timeless" argument (Abs/CfgInvT.v). *)
From Coq Require Import List NArith Arith Lia Bool.
From Verif Require Import Abs.Quorum Abs.RaftBase Abs.CfgQuorum Abs.CfgBase Abs.CfgRaft.
Import ListNotations.
Open Scope N_scope.

Section Defs.
Variable V0 : list N.

(* every leader elected strictly between tc and u holds K *)
Definition hyp_lt (s : state) (tc u : N) (K : list entry) : Prop :=
  forall u' n' L', In (u', n', L') (elected s) -> tc < u' -> u' < u -> prefix K L'.

(* evidence carried by voter v for the log L of a candidate of term u: whatever
   v acknowledged in an earlier term tc is in L, unless a leader elected in
   between already lacked it *)
Definition ev (s : state) (u v : N) (L : list entry) : Prop :=
  forall tc i K, In (tc, v, i) (acks s) -> tc < u -> In K (created s) -> lastTerm K = tc ->
    (length K <= i)%nat -> hyp_lt s tc u K -> prefix K L.

(* candidate c of term u, campaigning with log L, holds a majority of the
   configuration of L, every vote carrying its evidence *)
Definition cwon (s : state) (u c : N) (L : list entry) : Prop :=
  In (u, c, L) (started s) /\
  exists Q, majority (cfg_of V0 L) Q /\
    forall v, In v Q -> In (u, v, c) (grants s) /\ ev s u v L.

(* what a quorum of L is good for *)
Definition good (s : state) (u : N) (L : list entry) : Prop :=
  forall tc k M, In (tc, k, M) (cmts s) -> tc < u ->
    near (cfg_of V0 M) (cfg_of V0 L) -> hyp_lt s tc u (firstn k M) -> prefix (firstn k M) L.

(* L holds everything committed in terms below u *)
Definition LCl (s : state) (u : N) (L : list entry) : Prop :=
  forall tc k M, In (tc, k, M) (cmts s) -> tc < u -> prefix (firstn k M) L.

Definition ackd (s : state) (t v : N) (k : nat) : Prop :=
  exists i, In (t, v, i) (acks s) /\ (k <= i)%nat.

Definition noop (t : N) : entry := (t, PData 0).

Record facts (s : state) : Prop := mkF {
  f_closed : closed (created s);
  f_chain : chain (created s);
  f_cmono : forall K, In K (created s) -> mono K;
  f_cel : forall K, In K (created s) ->
            exists n L, In (lastTerm K, n, L) (elected s) /\ prefix (L ++ [noop (lastTerm K)]) K;
  f_es : forall t n L n' L', In (t, n, L) (elected s) -> In (t, n', L') (elected s) ->
           n = n' /\ L = L';
  f_elwon : forall t n L, In (t, n, L) (elected s) -> cwon s t n L;
  f_st : forall u c L, In (u, c, L) (started s) ->
           wf (created s) L /\ mono L /\ lastTerm L < u;
  f_st_one : forall u c L L', In (u, c, L) (started s) -> In (u, c, L') (started s) -> L = L';
  f_one : forall t v c c', In (t, v, c) (grants s) -> In (t, v, c') (grants s) -> c = c';
  f_cmt : forall tc k M, In (tc, k, M) (cmts s) ->
            In M (created s) /\ lastTerm M = tc /\ term_at M k = tc /\
            (1 <= k <= length M)%nat /\
            exists Q, majority (cfg_of V0 M) Q /\ forall v, In v Q -> ackd s tc v k;
  f_cmt_mono : forall t k1 M1 k M, In (t, k1, M1) (cmts s) -> In (t, k, M) (cmts s) ->
                 (length M1 < length M)%nat -> (k1 < k)%nat;
  f_cfg : forall P t D, In (P ++ [(t, PCfg D)]) (created s) ->
            NoDup D /\ near (cfg_of V0 P) D /\
            exists k1 M1 n Lt, In (t, k1, M1) (cmts s) /\ prefix M1 P /\
              In (t, n, Lt) (elected s) /\ (length Lt + 1 <= k1)%nat /\
              (cfg_idx P <= k1)%nat
}.

(* the remaining state invariants *)
Record xinv (s : state) : Prop := mkX {
  (* votes and elections *)
  v_le : forall t v c, In (t, v, c) (grants s) -> t <= cur (st s v);
  v_cur : forall t v c, In (t, v, c) (grants s) -> cur (st s v) = t -> vote (st s v) = Some c;
  v_gst : forall t v c, In (t, v, c) (grants s) -> exists L, In (t, c, L) (started s);
  v_got : forall c v, In v (got (st s c)) -> In (cur (st s c), v, c) (grants s);
  v_st_le : forall t c L, In (t, c, L) (started s) -> t <= cur (st s c);
  v_cand : forall c, role (st s c) = Candidate -> In (cur (st s c), c, log (st s c)) (started s);
  v_erole : forall t n L, In (t, n, L) (elected s) -> cur (st s n) = t -> role (st s n) <> Candidate;
  v_msg : forall m, In m (appends s) -> exists L, In (rterm m, rldr m, L) (elected s);
  v_ldr : forall l, role (st s l) = Leader ->
            exists Lt, In (cur (st s l), l, Lt) (elected s) /\
                       prefix (Lt ++ [noop (cur (st s l))]) (log (st s l)) /\
                       startIdx (st s l) = S (length Lt);
  (* logs *)
  n_wf : forall n, wf (created s) (log (st s n));
  n_mono : forall n, mono (log (st s n));
  n_term : forall n, lastTerm (log (st s n)) <= cur (st s n);
  c_ldr : forall l K, role (st s l) = Leader -> In K (created s) ->
            lastTerm K = cur (st s l) -> prefix K (log (st s l));
  m_ok : forall m, In m (appends s) ->
           exists K, In K (created s) /\ lastTerm K = rterm m /\
             (rprevIdx m <= length K)%nat /\ rprevTerm m = term_at K (rprevIdx m) /\
             prefix (firstn (rprevIdx m) K ++ rents m) K;
  a_ok : forall t v i, In (t, v, i) (acks s) ->
           t <= cur (st s v) /\ exists K, In K (created s) /\ lastTerm K = t /\ (i <= length K)%nat;
  (* acknowledgements and votes carry prefixes *)
  s_mi : forall l v j, role (st s l) = Leader -> In (v, j) (matchIdx (st s l)) ->
           In (cur (st s l), v, j) (acks s);
  s_ack : forall tc v i K, In (tc, v, i) (acks s) -> In K (created s) -> lastTerm K = tc ->
            (length K <= i)%nat ->
            (forall u' n' L', In (u', n', L') (elected s) -> tc < u' -> u' <= cur (st s v) ->
                              prefix K L') ->
            prefix K (log (st s v));
  s_vote : forall u v c L tc i K,
             In (u, v, c) (grants s) -> In (u, c, L) (started s) ->
             In (tc, v, i) (acks s) -> tc < u -> In K (created s) -> lastTerm K = tc ->
             (length K <= i)%nat -> hyp_lt s tc u K ->
             (forall n' L', In (u, n', L') (elected s) -> prefix K L') ->
             prefix K L;
  (* commit bookkeeping *)
  k_lc : forall l k1 M1, role (st s l) = Leader -> In (cur (st s l), k1, M1) (cmts s) ->
           (k1 <= commit (st s l))%nat;
  k_lc2 : forall l, role (st s l) = Leader -> (startIdx (st s l) <= commit (st s l))%nat ->
            exists M1, In (cur (st s l), commit (st s l), M1) (cmts s) /\ prefix M1 (log (st s l));
  k_len : forall n, (commit (st s n) <= length (log (st s n)))%nat;
  k_com : forall t i e, In (t, i, e) (committed s) ->
            exists M, In (t, i, M) (cmts s) /\ nth_error M (i - 1) = Some e;
  k_nc : forall n, commit (st s n) = 0%nat \/
           exists t k M, In (t, k, M) (cmts s) /\ t <= cur (st s n) /\
             (commit (st s n) <= k)%nat /\
             firstn (commit (st s n)) (log (st s n)) = firstn (commit (st s n)) M;
  m_c : forall m, In m (appends s) -> rcommit m = 0%nat \/
          exists t k M K, In (t, k, M) (cmts s) /\ t <= rterm m /\ (rcommit m <= k)%nat /\
            In K (created s) /\ lastTerm K = rterm m /\ (rcommit m <= length K)%nat /\
            firstn (rcommit m) K = firstn (rcommit m) M
}.

Definition inv (s : state) : Prop := facts s /\ xinv s.

(* durability: what a node committed or acknowledged is in its flushed prefix *)
Record dinv (s : state) : Prop := mkD {
  d_fl : forall n, (flushed (st s n) <= length (log (st s n)))%nat;
  d_cf : forall n, (commit (st s n) <= flushed (st s n))%nat;
  d_ack : forall tc v i j, In (tc, v, i) (acks s) -> (j <= i)%nat ->
            (j <= length (log (st s v)))%nat -> term_at (log (st s v)) j = tc ->
            (j <= flushed (st s v))%nat;
  (* an unflushed entry was appended by the node itself, as leader of that term *)
  d_unfl : forall n j e, nth_error (log (st s n)) j = Some e ->
             (flushed (st s n) <= j)%nat -> exists L, In (eterm e, n, L) (elected s);
  (* the first log of a term: the election log plus the no-op *)
  d_elcr : forall t n L, In (t, n, L) (elected s) -> In (L ++ [noop t]) (created s)
}.

End Defs.
