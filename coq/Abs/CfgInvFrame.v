(* Abs/CfgInvFrame.v  Frame lemmas for the invariants of Abs/CfgRaft.v. *)
From Coq Require Import List NArith Arith Lia Bool.
From Verif Require Import Abs.Quorum Abs.RaftBase Abs.CfgQuorum Abs.CfgBase Abs.CfgRaft
  Abs.CfgInvDefs.
Import ListNotations.
Open Scope N_scope.

Ltac updc n m :=
  destruct (N.eq_dec m n) as [->|?];
  [rewrite ?upd_eq in * | rewrite ?upd_neq in * by assumption].

Section Frame.
Variable V0 : list N.

Lemma hyp_lt_anti s s' tc u K :
  incl (elected s) (elected s') -> hyp_lt s' tc u K -> hyp_lt s tc u K.
Proof. unfold hyp_lt. intros Hi H u' n' L' He. apply (H u' n' L'). apply Hi. exact He. Qed.

Lemma ev_mono s s' u v L :
  incl (elected s) (elected s') ->
  (forall tc i K, In (tc, v, i) (acks s') -> tc < u -> In K (created s') -> lastTerm K = tc ->
     (length K <= i)%nat -> In (tc, v, i) (acks s) /\ In K (created s)) ->
  ev s u v L -> ev s' u v L.
Proof.
  intros Hel Hold Hev tc i K Ha Ht HK Hl Hlen Hh.
  destruct (Hold tc i K Ha Ht HK Hl Hlen) as [Ha' HK'].
  apply (Hev tc i K Ha' Ht HK' Hl Hlen). apply (hyp_lt_anti s s' _ _ _ Hel Hh).
Qed.

Lemma cwon_mono s s' u c L :
  incl (started s) (started s') -> incl (grants s) (grants s') ->
  (forall v, In (u, v, c) (grants s) -> ev s u v L -> ev s' u v L) ->
  cwon V0 s u c L -> cwon V0 s' u c L.
Proof.
  intros Hst Hgr Hev [H1 [Q [HQ Hg]]]. split; [apply Hst; exact H1|].
  exists Q. split; [exact HQ|]. intros v Hv. destruct (Hg v Hv) as [Ha Hb].
  split; [apply Hgr; exact Ha | apply Hev; assumption].
Qed.

Lemma ackd_mono s s' t v k : incl (acks s) (acks s') -> ackd s t v k -> ackd s' t v k.
Proof. intros Hi [i [H1 H2]]. exists i. split; [apply Hi; exact H1 | exact H2]. Qed.

(* steps that leave created, elected and cmts alone *)
Lemma facts_frame s s' :
  facts V0 s ->
  created s' = created s -> elected s' = elected s -> cmts s' = cmts s ->
  incl (started s) (started s') -> incl (grants s) (grants s') -> incl (acks s) (acks s') ->
  (forall u c L, In (u, c, L) (started s') ->
     wf (created s) L /\ mono L /\ lastTerm L < u) ->
  (forall u c L L', In (u, c, L) (started s') -> In (u, c, L') (started s') -> L = L') ->
  (forall t v c c', In (t, v, c) (grants s') -> In (t, v, c') (grants s') -> c = c') ->
  (forall t n L v, In (t, n, L) (elected s) -> In (t, v, n) (grants s) ->
     ev s t v L -> ev s' t v L) ->
  facts V0 s'.
Proof.
  intros F Hcr Hel Hcm Hst Hgr Hak Hfst Hfone Hgone Hev.
  constructor; rewrite ?Hcr, ?Hel, ?Hcm.
  - exact (f_closed V0 s F).
  - exact (f_chain V0 s F).
  - exact (f_cmono V0 s F).
  - exact (f_cel V0 s F).
  - exact (f_es V0 s F).
  - intros t n L He. apply (cwon_mono s s' t n L Hst Hgr).
    + intros v Hv. apply (Hev t n L v He Hv).
    + exact (f_elwon V0 s F t n L He).
  - exact Hfst.
  - exact Hfone.
  - exact Hgone.
  - intros tc k M Hc. destruct (f_cmt V0 s F tc k M Hc) as [H1 [H2 [H3 [H4 [Q [HQ Ha]]]]]].
    split; [exact H1|]. split; [exact H2|]. split; [exact H3|]. split; [exact H4|].
    exists Q. split; [exact HQ|].
    intros v Hv. apply (ackd_mono s s' _ _ _ Hak). apply Ha. exact Hv.
  - exact (f_cmt_mono V0 s F).
  - exact (f_cfg V0 s F).
Qed.

End Frame.

(* try to close a goal that is literally one of the fields of [xinv s] *)
Ltac xfield X :=
  first [ exact (v_le _ X) | exact (v_cur _ X) | exact (v_gst _ X) | exact (v_got _ X)
        | exact (v_st_le _ X) | exact (v_cand _ X) | exact (v_erole _ X) | exact (v_msg _ X)
        | exact (v_ldr _ X) | exact (n_wf _ X) | exact (n_mono _ X) | exact (n_term _ X)
        | exact (c_ldr _ X) | exact (m_ok _ X) | exact (a_ok _ X) | exact (s_mi _ X)
        | exact (s_ack _ X) | exact (s_vote _ X) | exact (k_lc _ X) | exact (k_lc2 _ X)
        | exact (k_len _ X) | exact (k_com _ X) | exact (k_nc _ X) | exact (m_c _ X) ].

(* case analysis on every node-state lookup through [upd] *)
Ltac updall :=
  repeat match goal with
  | H : context [upd ?f ?l ?x ?l] |- _ => rewrite upd_eq in H
  | |- context [upd ?f ?l ?x ?l] => rewrite upd_eq
  | H : context [upd ?f ?l ?x ?n] |- _ =>
      destruct (N.eq_dec n l) as [->|?];
      [rewrite ?upd_eq in * | rewrite ?upd_neq in * by assumption]
  | |- context [upd ?f ?l ?x ?n] =>
      destruct (N.eq_dec n l) as [->|?];
      [rewrite ?upd_eq in * | rewrite ?upd_neq in * by assumption]
  end.

(* close a goal by one field of [xinv s] applied to hypotheses *)
Ltac xauto X :=
  simpl in *;
  first [ eapply (v_le _ X); eassumption | eapply (v_cur _ X); eassumption
        | eapply (v_gst _ X); eassumption | eapply (v_got _ X); eassumption
        | eapply (v_st_le _ X); eassumption | eapply (v_cand _ X); eassumption
        | eapply (v_erole _ X); eassumption | eapply (v_msg _ X); eassumption
        | eapply (v_ldr _ X); eassumption | eapply (n_wf _ X) | eapply (n_mono _ X)
        | eapply (n_term _ X) | eapply (c_ldr _ X); eassumption
        | eapply (m_ok _ X); eassumption | eapply (a_ok _ X); eassumption
        | eapply (s_mi _ X); eassumption | eapply (s_ack _ X); eassumption
        | eapply (s_vote _ X); eassumption | eapply (k_lc _ X); eassumption
        | eapply (k_lc2 _ X); eassumption | eapply (k_len _ X)
        | eapply (k_com _ X); eassumption | eapply (k_nc _ X)
        | eapply (m_c _ X); eassumption ].

(* numeric facts about the records in the context *)
Ltac xfacts X :=
  repeat match goal with
  | H : In (?t, ?v, ?c) (grants _) |- _ =>
      lazymatch goal with
      | _ : t <= cur (st _ v) |- _ => fail
      | _ => pose proof (v_le _ X t v c H)
      end
  | H : In (?t, ?c, ?L) (started _) |- _ =>
      lazymatch goal with
      | _ : t <= cur (st _ c) |- _ => fail
      | _ => pose proof (v_st_le _ X t c L H)
      end
  | H : In (?t, ?v, ?i) (acks _) |- _ =>
      lazymatch goal with
      | _ : t <= cur (st _ v) |- _ => fail
      | _ => pose proof (proj1 (a_ok _ X t v i H))
      end
  end.

Ltac indes :=
  repeat match goal with
  | H : (_, _, _) = (_, _, _) \/ In _ _ |- _ =>
      destruct H as [H|H]; [inversion H; clear H; subst|]
  end.

Ltac xstep X :=
  intros; simpl in *; indes; updall; try (xauto X);
  simpl in *; try discriminate; try congruence; xfacts X; try lia.
