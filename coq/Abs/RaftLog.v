(* Abs/RaftLog.v  Log layer of the model of Abs/Raft.v: the inductive invariant
   [linv] about the ghost family [created] and log matching.

   [created s] holds every log value a leader had right after appending an
   entry of its term.  It is closed under non-empty prefixes, and two members
   with the same last term are prefix-comparable (they are values of the log of
   the one leader of that term, which only appends).  Every log of a node, of a
   vote request and (through [lpre]) of an append request is [wf]: all its
   non-empty prefixes are in [created].  Log matching is then [wf_match]. *)
From Coq Require Import List NArith Arith Lia Bool.
From Verif Require Import Abs.Quorum Abs.RaftBase Abs.Raft Abs.RaftVotes.
Import ListNotations.
Open Scope N_scope.

Section RaftLog.
Variable V : list N.


Definition msg_ok (s : state) (m : areq) : Prop :=
  (exists L0, In (rterm m, rldr m, L0) (elected s)) /\
  exists P, length P = rprevIdx m /\ lastTerm P = rprevTerm m /\
            lpre s (rterm m) (P ++ rents m).

Record linv (s : state) : Prop := mkL {
  l_pos : forall K, In K (created s) -> lastTerm K <> 0;
  l_closed : closed (created s);
  l_keyed : keyed (created s);
  l_sorted : forall K, In K (created s) -> forall e, In e K -> eterm e <= lastTerm K;
  l_el : forall K, In K (created s) -> exists n L, In (lastTerm K, n, L) (elected s);
  l_cr1 : forall K n L, In K (created s) -> In (lastTerm K, n, L) (elected s) -> prefix L K;
  l_wfn : forall n, wf (created s) (log (st s n));
  l_wfs : forall t c L, In (t, c, L) (started s) -> wf (created s) L;
  l_tn : forall n e, In e (log (st s n)) -> eterm e <= cur (st s n);
  l_ts : forall t c L, In (t, c, L) (started s) -> forall e, In e L -> eterm e <= t;
  l_ldc : forall l K, role (st s l) = Leader -> In K (created s) ->
            lastTerm K = cur (st s l) -> prefix K (log (st s l));
  l_lde : forall l L, role (st s l) = Leader -> In (cur (st s l), l, L) (elected s) ->
            prefix L (log (st s l));
  l_ldl : forall l, role (st s l) = Leader -> lpre s (cur (st s l)) (log (st s l));
  l_fl : forall n, (flushed (st s n) <= length (log (st s n)))%nat;
  l_unfl : forall n j e, nth_error (log (st s n)) j = Some e -> (flushed (st s n) <= j)%nat ->
            exists L, In (eterm e, n, L) (elected s);
  l_msg : forall m, In m (appends s) -> msg_ok s m
}.

(* ---- lpre ---- *)

Lemma lpre_mono s s' t X :
  incl (elected s) (elected s') -> incl (created s) (created s') ->
  lpre s t X -> lpre s' t X.
Proof.
  intros He Hc [[n [L [H1 H2]]]|[K [H1 [H2 H3]]]].
  - left. exists n, L. split; [apply He; exact H1 | exact H2].
  - right. exists K. split; [apply Hc; exact H1 | split; assumption].
Qed.

Lemma lpre_prefix s t X Y : lpre s t Y -> prefix X Y -> lpre s t X.
Proof.
  intros [[n [L [H1 H2]]]|[K [H1 [H2 H3]]]] Hp.
  - left. exists n, L. split; [exact H1 | exact (prefix_trans _ _ _ Hp H2)].
  - right. exists K. split; [exact H1 | split; [exact H2 | exact (prefix_trans _ _ _ Hp H3)]].
Qed.

Lemma lpre_created s K : In K (created s) -> lpre s (lastTerm K) K.
Proof. intro H. right. exists K. split; [exact H | split; [reflexivity | apply prefix_refl]]. Qed.

Lemma lpre_wf s t X : linv s -> vinv V s -> lpre s t X -> wf (created s) X.
Proof.
  intros Hl Hv [[n [L [H1 H2]]]|[K [H1 [H2 H3]]]].
  - apply (wf_prefix _ _ L); [|exact H2]. exact (l_wfs _ Hl _ _ _ (vk _ _ Hv _ _ _ H1)).
  - apply (wf_prefix _ _ K); [|exact H3]. exact (wf_created _ _ (l_closed _ Hl) H1).
Qed.

Lemma lpre_terms s t X : linv s -> vinv V s -> lpre s t X -> forall e, In e X -> eterm e <= t.
Proof.
  intros Hl Hv [[n [L [H1 H2]]]|[K [H1 [H2 H3]]]] e He.
  - apply (l_ts _ Hl _ _ _ (vk _ _ Hv _ _ _ H1)). exact (prefix_incl _ _ H2 e He).
  - rewrite <- H2. apply (l_sorted _ Hl _ H1). exact (prefix_incl _ _ H3 e He).
Qed.

Lemma lpre_comparable s t X Y :
  linv s -> vinv V s -> lpre s t X -> lpre s t Y -> comparable X Y.
Proof.
  intros Hl Hv [[n [L [H1 H2]]]|[K [H1 [H2 H3]]]] [[n' [L' [H1' H2']]]|[K' [H1' [H2' H3']]]].
  - destruct (elected_unique V _ _ _ _ _ _ Hv H1 H1') as [_ <-].
    exact (prefix_comparable _ _ _ H2 H2').
  - subst t. pose proof (l_cr1 _ Hl _ _ _ H1' H1) as Hp.
    exact (prefix_comparable _ _ K' (prefix_trans _ _ _ H2 Hp) H3').
  - subst t. pose proof (l_cr1 _ Hl _ _ _ H1 H1') as Hp.
    exact (prefix_comparable _ _ K H3 (prefix_trans _ _ _ H2' Hp)).
  - assert (Hc : comparable K K') by (apply (l_keyed _ Hl); congruence).
    destruct Hc as [Hc|Hc].
    + exact (prefix_comparable _ _ K' (prefix_trans _ _ _ H3 Hc) H3').
    + exact (prefix_comparable _ _ K H3 (prefix_trans _ _ _ H3' Hc)).
Qed.

Lemma lpre_leader s l X :
  linv s -> vinv V s -> role (st s l) = Leader -> lpre s (cur (st s l)) X ->
  prefix X (log (st s l)).
Proof.
  intros Hl Hv Hr [[n [L [H1 H2]]]|[K [H1 [H2 H3]]]].
  - destruct (vf _ _ Hv _ Hr) as [L' HL'].
    destruct (elected_unique V _ _ _ _ _ _ Hv H1 HL') as [-> ->].
    exact (prefix_trans _ _ _ H2 (l_lde _ Hl _ _ Hr HL')).
  - exact (prefix_trans _ _ _ H3 (l_ldc _ Hl _ _ Hr H1 H2)).
Qed.

Lemma created_nonempty s K : linv s -> In K (created s) -> K <> [].
Proof. intros Hl HK. apply lastTerm_nonzero_nonempty. exact (l_pos _ Hl _ HK). Qed.

(* a non-empty log of a node is itself in [created] *)
Lemma wf_in_created s L : wf (created s) L -> L <> [] -> In L (created s).
Proof. apply wf_self. Qed.

(* two leaders in the same term are one node *)
Lemma leader_unique s l1 l2 :
  vinv V s -> role (st s l1) = Leader -> role (st s l2) = Leader ->
  cur (st s l1) = cur (st s l2) -> l1 = l2.
Proof.
  intros Hv H1 H2 Heq.
  destruct (vf _ _ Hv _ H1) as [L1 HL1]. destruct (vf _ _ Hv _ H2) as [L2 HL2].
  rewrite Heq in HL1. exact (proj1 (elected_unique V _ _ _ _ _ _ Hv HL1 HL2)).
Qed.

(* ---- init ---- *)

Lemma linv_init : linv init.
Proof.
  constructor; simpl; try (intros; contradiction).
  - intros K [].
  - intros K1 K2 [].
  - intros n. apply wf_nil.
  - intros l H. discriminate H.
  - intros n. lia.
  - intros n j e H. destruct j; discriminate H.
Qed.

(* ---- frame: steps that do not touch logs, created, elected ---- *)

Lemma linv_frame s s' :
  linv s ->
  created s' = created s -> elected s' = elected s ->
  (forall t c L, In (t, c, L) (started s') ->
     In (t, c, L) (started s) \/ exists n, L = log (st s n) /\ cur (st s n) <= t) ->
  (forall m, In m (appends s') -> In m (appends s) \/ msg_ok s m) ->
  (forall n, log (st s' n) = log (st s n) /\
             (flushed (st s n) <= flushed (st s' n) <= length (log (st s n)))%nat /\
             cur (st s n) <= cur (st s' n) /\
             (role (st s' n) = Leader -> role (st s n) = Leader /\ cur (st s' n) = cur (st s n))) ->
  linv s'.
Proof.
  intros [Hpos Hcl Hk Hso Hel Hcr1 Hwfn Hwfs Htn Hts Hldc Hlde Hldl Hfl Hunfl Hmsg]
         Ecr Eel Hsta Happ Hn.
  assert (Hlp : forall t X, lpre s t X -> lpre s' t X).
  { intros t X. apply lpre_mono; [rewrite Eel | rewrite Ecr]; apply incl_refl. }
  constructor; rewrite ?Ecr, ?Eel; try assumption.
  - intros n. destruct (Hn n) as (E1 & _). rewrite E1. apply Hwfn.
  - intros t c L Hin. destruct (Hsta _ _ _ Hin) as [H|[n [-> _]]]; [exact (Hwfs _ _ _ H) | apply Hwfn].
  - intros n e. destruct (Hn n) as (E1 & _ & E3 & _). rewrite E1. intro He.
    pose proof (Htn _ _ He). lia.
  - intros t c L Hin. destruct (Hsta _ _ _ Hin) as [H|[n [-> Hle]]]; [exact (Hts _ _ _ H)|].
    intros e He. pose proof (Htn _ _ He). lia.
  - intros l K Hr HK HT. destruct (Hn l) as (E1 & _ & _ & E4). destruct (E4 Hr) as [Hr' Ec].
    rewrite E1. apply Hldc; congruence.
  - intros l L Hr HL. destruct (Hn l) as (E1 & _ & _ & E4). destruct (E4 Hr) as [Hr' Ec].
    rewrite E1. apply Hlde; congruence.
  - intros l Hr. destruct (Hn l) as (E1 & _ & _ & E4). destruct (E4 Hr) as [Hr' Ec].
    rewrite E1, Ec. apply Hlp. apply Hldl. exact Hr'.
  - intros n. destruct (Hn n) as (E1 & E2 & _). rewrite E1. lia.
  - intros n j e. destruct (Hn n) as (E1 & E2 & _). rewrite E1. intros H1 H2.
    apply (Hunfl n j e H1). lia.
  - intros m Hin.
    assert (Hok : msg_ok s m) by (destruct (Happ _ Hin) as [H|H]; [exact (Hmsg m H) | exact H]).
    destruct Hok as [[L0 H0] [P [H1 [H2 H3]]]].
    split; [exists L0; rewrite Eel; exact H0|]. exists P. repeat split; auto.
Qed.

(* ---- Win ---- *)

Lemma linv_win s c :
  linv s -> vinv V s -> role (st s c) = Candidate ->
  (2 * length (got (st s c)) > length V)%nat -> linv (do_win c s).
Proof.
  intros Hl Hv Hrole Hmaj.
  pose proof (win_fresh V s c Hv Hrole Hmaj) as Hfresh.
  assert (Hnocr : forall K, In K (created s) -> lastTerm K <> cur (st s c)).
  { intros K HK E. destruct (l_el _ Hl _ HK) as [n [L HL]]. rewrite E in HL. exact (Hfresh _ _ HL). }
  destruct Hl as [Hpos Hcl Hk Hso Hel Hcr1 Hwfn Hwfs Htn Hts Hldc Hlde Hldl Hfl Hunfl Hmsg].
  assert (Hlp : forall t X, lpre s t X -> lpre (do_win c s) t X).
  { intros t X. apply lpre_mono; unfold do_win; simpl; [apply incl_tl|]; apply incl_refl. }
  constructor; unfold do_win; simpl; try assumption.
  - intros K HK. destruct (Hel K HK) as [n [L HL]]. exists n, L. right. exact HL.
  - intros K n L HK [Heq|Hin]; [|exact (Hcr1 _ _ _ HK Hin)].
    inversion Heq. exfalso. apply (Hnocr K HK). congruence.
  - intros n. upd_case n c; simpl; apply Hwfn.
  - intros n e. upd_case n c; simpl; apply Htn.
  - intros l K. upd_case l c; simpl.
    + intros _ HK E. exfalso. exact (Hnocr K HK E).
    + apply Hldc.
  - intros l L. upd_case l c; simpl.
    + intros _ [Heq|Hin]; [inversion Heq; apply prefix_refl|]. exfalso. exact (Hfresh _ _ Hin).
    + intros Hr [Heq|Hin]; [inversion Heq; congruence | exact (Hlde _ _ Hr Hin)].
  - intros l. upd_case l c; simpl.
    + intros _. left. exists c, (log (st s c)). split; [left; reflexivity | apply prefix_refl].
    + intros Hr. exact (Hlp _ _ (Hldl _ Hr)).
  - intros n. upd_case n c; simpl; apply Hfl.
  - intros n j e. upd_case n c; simpl; intros H1 H2;
      destruct (Hunfl _ _ _ H1 H2) as [L HL]; exists L; right; exact HL.
  - intros m Hin. destruct (Hmsg m Hin) as [[L0 H0] [P [H1 [H2 H3]]]].
    split; [exists L0; right; exact H0|]. exists P. split; [exact H1|]. split; [exact H2|]. exact (Hlp _ _ H3).
Qed.

(* ---- ClientAppend ---- *)

Lemma linv_client_append s l p :
  linv s -> vinv V s -> role (st s l) = Leader -> linv (do_client_append l p s).
Proof.
  intros Hl Hv Hrole.
  destruct (vf _ _ Hv _ Hrole) as [L0 HL0].
  pose proof Hl as [Hpos Hcl Hk Hso Hel Hcr1 Hwfn Hwfs Htn Hts Hldc Hlde Hldl Hfl Hunfl Hmsg].
  set (K0 := log (st s l) ++ [(cur (st s l), p)]).
  assert (HlastK0 : lastTerm K0 = cur (st s l)) by (unfold K0; apply lastTerm_snoc).
  assert (Hlp : forall t X, lpre s t X -> lpre (do_client_append l p s) t X).
  { intros t X. apply lpre_mono; unfold do_client_append; simpl; [|apply incl_tl]; apply incl_refl. }
  assert (HwfK0 : wf (K0 :: created s) K0).
  { intros i Hi. unfold K0 in *. rewrite app_length in Hi. simpl in Hi.
    destruct (le_lt_dec i (length (log (st s l)))) as [Hle|Hgt].
    - right. rewrite firstn_app_le by exact Hle. apply Hwfn. lia.
    - left. symmetry. apply firstn_all2. rewrite app_length. simpl. lia. }
  constructor; unfold do_client_append; fold K0; simpl.
  - intros K [<-|HK]; [|exact (Hpos K HK)]. rewrite HlastK0. pose proof (vh _ _ Hv l).  lia.
  - intros K [<-|HK] i Hi; [exact (HwfK0 i Hi)|]. right. exact (Hcl K HK i Hi).
  - intros K1 K2 [<-|H1] [<-|H2] E.
    + apply comparable_refl.
    + right. rewrite HlastK0 in E. apply (prefix_trans _ (log (st s l))); [|apply prefix_app].
      apply Hldc; [exact Hrole | exact H2 | symmetry; exact E].
    + left. rewrite HlastK0 in E. apply (prefix_trans _ (log (st s l))); [|apply prefix_app].
      apply Hldc; [exact Hrole | exact H1 | exact E].
    + exact (Hk _ _ H1 H2 E).
  - intros K [<-|HK] e He; [|exact (Hso K HK e He)].
    rewrite HlastK0. unfold K0 in He. apply in_app_or in He. destruct He as [He|[<-|[]]].
    + exact (Htn _ _ He).
    + simpl. lia.
  - intros K [<-|HK]; [|exact (Hel K HK)]. rewrite HlastK0. exists l, L0. exact HL0.
  - intros K n L [<-|HK] Hin; [|exact (Hcr1 _ _ _ HK Hin)].
    rewrite HlastK0 in Hin.
    destruct (elected_unique V _ _ _ _ _ _ Hv Hin HL0) as [-> ->].
    apply (prefix_trans _ (log (st s l))); [|apply prefix_app]. exact (Hlde _ _ Hrole HL0).
  - intros n. upd_case n l; simpl.
    + exact HwfK0.
    + apply (wf_mono (created s)); [apply incl_tl, incl_refl | apply Hwfn].
  - intros t c L Hin. apply (wf_mono (created s)); [apply incl_tl, incl_refl | exact (Hwfs _ _ _ Hin)].
  - intros n e. upd_case n l; simpl; [|apply Htn].
    intro He. apply in_app_or in He. destruct He as [He|[<-|[]]]; [exact (Htn _ _ He) | simpl; lia].
  - exact Hts.
  - intros l' K. upd_case l' l; simpl.
    + intros _ [<-|HK] E; [apply prefix_refl|].
      apply (prefix_trans _ (log (st s l))); [|apply prefix_app]. exact (Hldc _ _ Hrole HK E).
    + intros Hr [<-|HK] E; [|exact (Hldc _ _ Hr HK E)].
      exfalso. apply Hne. apply (leader_unique s); try assumption. congruence.
  - intros l' L. upd_case l' l; simpl.
    + intros _ Hin. apply (prefix_trans _ (log (st s l))); [|apply prefix_app]. exact (Hlde _ _ Hrole Hin).
    + apply Hlde.
  - intros l'. upd_case l' l; simpl.
    + intros _. right. exists K0. split; [left; reflexivity|]. split; [exact HlastK0 | apply prefix_refl].
    + intros Hr. exact (Hlp _ _ (Hldl _ Hr)).
  - intros n. upd_case n l; simpl; [|apply Hfl]. unfold K0. rewrite app_length. pose proof (Hfl l). lia.
  - intros n j e. upd_case n l; simpl; [|apply Hunfl].
    intros H1 H2. unfold K0 in H1. destruct (le_lt_dec (length (log (st s l))) j) as [Hge|Hlt].
    + rewrite nth_error_app2 in H1 by exact Hge.
      destruct (j - length (log (st s l)))%nat as [|k]; simpl in H1; [|destruct k; discriminate].
      inversion H1; subst. simpl. exists L0. exact HL0.
    + rewrite nth_error_app1 in H1 by exact Hlt. exact (Hunfl _ _ _ H1 H2).
  - intros m Hin. destruct (Hmsg m Hin) as [[L1 H0] [P [H1 [H2 H3]]]].
    split; [exists L1; exact H0|]. exists P. split; [exact H1|]. split; [exact H2|]. exact (Hlp _ _ H3).
Qed.

(* ---- SendAppend ---- *)

Lemma send_msg_ok s l pi k c :
  linv s -> vinv V s -> role (st s l) = Leader -> (pi <= length (log (st s l)))%nat ->
  msg_ok s (mkReq (cur (st s l)) l pi (term_at (log (st s l)) pi)
                  (firstn k (skipn pi (log (st s l)))) c).
Proof.
  intros Hl Hv Hrole Hpi. split; simpl.
  - exact (vf _ _ Hv _ Hrole).
  - exists (firstn pi (log (st s l))).
    split; [apply firstn_length_le; exact Hpi|].
    split; [apply lastTerm_firstn; exact Hpi|].
    apply (lpre_prefix _ _ _ (log (st s l))); [exact (l_ldl _ Hl _ Hrole)|].
    apply firstn_skipn_prefix.
Qed.

(* ---- a request cut by the network: lpre is closed under prefixes ---- *)

Lemma trunc_msg_ok s m k : msg_ok s m -> msg_ok s (trunc_req m k).
Proof.
  intros [Hel [P [HP1 [HP2 HP3]]]]. split; simpl.
  - exact Hel.
  - exists P. split; [exact HP1|]. split; [exact HP2|].
    apply (lpre_prefix _ _ _ (P ++ rents m)); [exact HP3|].
    apply prefix_app_cancel. apply firstn_prefix.
Qed.

(* ---- RecvAppend: what the merge does ---- *)

Lemma recv_log s f m :
  linv s -> vinv V s -> In m (appends s) ->
  prev_ok (log (st s f)) (rprevIdx m) (rprevTerm m) = true ->
  exists X, lpre s (rterm m) X /\ length X = last_idx m /\
    firstn (rprevIdx m) X = firstn (rprevIdx m) (log (st s f)) /\
    (rprevIdx m <= length (log (st s f)))%nat /\
    (0 < rprevIdx m -> term_at X (rprevIdx m) = rprevTerm m)%nat /\
    (rents m <> [] -> lastTerm X = lastTerm (rents m)) /\
    ((prefix X (log (st s f)) /\ newlog_of (log (st s f)) m = log (st s f) /\
      changed_of (log (st s f)) m = false) \/
     (~ prefix X (log (st s f)) /\ newlog_of (log (st s f)) m = X /\
      changed_of (log (st s f)) m = true)).
Proof.
  intros Hl Hv Hin Hprev.
  destruct (l_msg _ Hl _ Hin) as [_ [P [HP1 [HP2 HP3]]]].
  set (lg := log (st s f)) in *. set (pi := rprevIdx m) in *.
  pose proof (lpre_wf _ _ _ Hl Hv HP3) as HwfX.
  pose proof (l_wfn _ Hl f) as Hwflg. fold lg in Hwflg.
  assert (Hpi : (pi <= length lg)%nat /\ (0 < pi -> term_at lg pi = rprevTerm m)%nat).
  { unfold prev_ok in Hprev. apply orb_true_iff in Hprev. destruct Hprev as [H|H].
    - apply Nat.eqb_eq in H. split; [lia|]. intro H0. lia.
    - apply andb_true_iff in H. destruct H as [H1 H2].
      apply Nat.leb_le in H1. apply N.eqb_eq in H2. split; [exact H1 | intros _; exact H2]. }
  destruct Hpi as [Hpi1 Hpi2].
  assert (HtX : (0 < pi -> term_at (P ++ rents m) pi = rprevTerm m)%nat).
  { intros _. rewrite term_at_app_l by lia. rewrite <- HP1. exact HP2. }
  assert (HfX : firstn pi (P ++ rents m) = P).
  { rewrite firstn_app_le by lia. rewrite <- HP1. apply firstn_all. }
  assert (HfP : firstn pi lg = P).
  { destruct (Nat.eq_dec pi 0) as [E|E].
    - rewrite E. destruct P; [reflexivity | simpl in HP1; lia].
    - rewrite <- HfX.
      assert (G1 : (pi <= length (P ++ rents m))%nat) by (rewrite app_length; lia).
      assert (G2 : term_at lg pi = term_at (P ++ rents m) pi).
      { rewrite HtX by lia. apply Hpi2. lia. }
      apply (wf_match (created s) lg (P ++ rents m) pi (l_keyed _ Hl) Hwflg HwfX); [lia | exact Hpi1 | exact G1 | exact G2]. }
  assert (Elg : lg = P ++ skipn pi lg) by (rewrite <- HfP; symmetry; apply firstn_skipn).
  assert (Hag : agree (skipn pi lg) (rents m)).
  { intros k e x He Hx Ht. apply (wf_match_entry (created s) (P ++ rents m) lg (pi + k) e x).
    - exact (l_keyed _ Hl).
    - exact HwfX.
    - exact Hwflg.
    - rewrite nth_error_app2 by lia. replace (pi + k - length P)%nat with k by lia. exact He.
    - rewrite Elg. rewrite nth_error_app2 by lia. replace (pi + k - length P)%nat with k by lia. exact Hx.
    - exact Ht. }
  exists (P ++ rents m).
  split; [exact HP3|]. split; [unfold last_idx; rewrite app_length; fold pi; lia|].
  split; [rewrite HfX; symmetry; exact HfP|]. split; [exact Hpi1|]. split; [exact HtX|].
  split; [intro Hne; apply lastTerm_app; exact Hne|].
  unfold newlog_of, changed_of. fold pi. rewrite HfP.
  destruct (merge_spec _ _ Hag) as [[Hp [Hm Hc]]|[Hp [Hm Hc]]].
  - left. rewrite Hm, Hc. split; [|split; [symmetry; exact Elg | reflexivity]].
    rewrite Elg. apply prefix_app_cancel. exact Hp.
  - right. rewrite Hm, Hc. split; [|split; reflexivity].
    intro H. apply Hp. apply (prefix_app_cancel P). rewrite <- Elg. exact H.
Qed.

Lemma linv_recv_ok s f m :
  linv s -> vinv V s -> In m (appends s) -> cur (st s f) <= rterm m ->
  prev_ok (log (st s f)) (rprevIdx m) (rprevTerm m) = true ->
  linv (do_recv_ok f m s).
Proof.
  intros Hl Hv Hin Hterm Hprev.
  destruct (recv_log s f m Hl Hv Hin Hprev) as [X [HX1 [HX2 [_ [_ [_ [_ Hcase]]]]]]].
  pose proof (lpre_wf _ _ _ Hl Hv HX1) as HwfX.
  pose proof (lpre_terms _ _ _ Hl Hv HX1) as HtX.
  destruct Hl as [Hpos Hcl Hk Hso Hel Hcr1 Hwfn Hwfs Htn Hts Hldc Hlde Hldl Hfl Hunfl Hmsg].
  assert (Hlp : forall t Y, lpre s t Y -> lpre (do_recv_ok f m s) t Y).
  { intros t Y. apply lpre_mono; unfold do_recv_ok; simpl; apply incl_refl. }
  constructor; unfold do_recv_ok; simpl; try assumption.
  - intros n. upd_case n f; simpl; [|apply Hwfn].
    destruct Hcase as [(_ & -> & _)|(_ & -> & _)]; [apply Hwfn | exact HwfX].
  - intros n e. upd_case n f; simpl; [|apply Htn].
    destruct Hcase as [(_ & -> & _)|(_ & -> & _)].
    + intro He. pose proof (Htn _ _ He). lia.
    + apply HtX.
  - intros l K. upd_case l f; simpl; [intro H; discriminate H | apply Hldc].
  - intros l L. upd_case l f; simpl; [intro H; discriminate H | apply Hlde].
  - intros l. upd_case l f; simpl; [intro H; discriminate H|].
    intros Hr. exact (Hlp _ _ (Hldl _ Hr)).
  - intros n. upd_case n f; simpl; [|apply Hfl].
    destruct Hcase as [(_ & -> & ->)|(_ & -> & ->)]; [apply Hfl | lia].
  - intros n j e. upd_case n f; simpl; [|apply Hunfl].
    destruct Hcase as [(_ & -> & ->)|(_ & -> & ->)]; [apply Hunfl|].
    intros H1 H2. assert (j < length X)%nat by (apply nth_error_Some; congruence). lia.
Qed.

(* ---- Crash ---- *)

Lemma linv_crash s n c : linv s -> linv (do_crash n c s).
Proof.
  intros [Hpos Hcl Hk Hso Hel Hcr1 Hwfn Hwfs Htn Hts Hldc Hlde Hldl Hfl Hunfl Hmsg].
  assert (Hlp : forall t Y, lpre s t Y -> lpre (do_crash n c s) t Y).
  { intros t Y. apply lpre_mono; unfold do_crash; simpl; apply incl_refl. }
  constructor; unfold do_crash; simpl; try assumption.
  - intros n0. upd_case n0 n; simpl; [|apply Hwfn].
    apply (wf_prefix _ _ (log (st s n))); [apply Hwfn | apply firstn_prefix].
  - intros n0 e. upd_case n0 n; simpl; [|apply Htn]. intro He. apply Htn. exact (firstn_in _ _ _ He).
  - intros l K. upd_case l n; simpl; [intro H; discriminate H | apply Hldc].
  - intros l L. upd_case l n; simpl; [intro H; discriminate H | apply Hlde].
  - intros l. upd_case l n; simpl; [intro H; discriminate H|].
    intros Hr. exact (Hlp _ _ (Hldl _ Hr)).
  - intros n0. upd_case n0 n; simpl; [|apply Hfl].
    rewrite firstn_length_le by apply Hfl. lia.
  - intros n0 j e. upd_case n0 n; simpl; [|apply Hunfl].
    intros H1 H2. assert (j < length (firstn (flushed (st s n)) (log (st s n))))%nat
      by (apply nth_error_Some; congruence).
    rewrite firstn_length_le in H by apply Hfl. lia.
Qed.

(* ---- Install ---- *)

Lemma linv_install s f t l K K2 c :
  linv s -> cur (st s f) <= t -> In K2 (created s) -> prefix K K2 -> lastTerm K2 <= t ->
  linv (do_install f t l K K2 c s).
Proof.
  intros Hl Hterm HK2 HKK2 Hlt.
  assert (HwfK : wf (created s) K).
  { apply (wf_prefix _ _ K2); [|exact HKK2]. exact (wf_created _ _ (l_closed _ Hl) HK2). }
  assert (HtK : forall e, In e K -> eterm e <= t).
  { intros e He. pose proof (l_sorted _ Hl _ HK2 e (prefix_incl _ _ HKK2 e He)). lia. }
  destruct Hl as [Hpos Hcl Hk Hso Hel Hcr1 Hwfn Hwfs Htn Hts Hldc Hlde Hldl Hfl Hunfl Hmsg].
  assert (Hlp : forall t0 Y, lpre s t0 Y -> lpre (do_install f t l K K2 c s) t0 Y).
  { intros t0 Y. apply lpre_mono; unfold do_install; simpl; apply incl_refl. }
  constructor; unfold do_install; simpl; try assumption.
  - intros n. upd_case n f; simpl; [|apply Hwfn].
    destruct (prefixb K (log (st s f))); [apply Hwfn | exact HwfK].
  - intros n e. upd_case n f; simpl; [|apply Htn].
    destruct (prefixb K (log (st s f))).
    + intro He. pose proof (Htn _ _ He). lia.
    + apply HtK.
  - intros l0 K0. upd_case l0 f; simpl; [intro H; discriminate H | apply Hldc].
  - intros l0 L. upd_case l0 f; simpl; [intro H; discriminate H | apply Hlde].
  - intros l0. upd_case l0 f; simpl; [intro H; discriminate H|].
    intros Hr. exact (Hlp _ _ (Hldl _ Hr)).
  - intros n. upd_case n f; simpl; [|apply Hfl].
    destruct (prefixb K (log (st s f))) eqn:E; [|lia].
    apply prefixb_true in E. pose proof (prefix_length _ _ E). pose proof (Hfl f). lia.
  - intros n j e. upd_case n f; simpl; [|apply Hunfl].
    destruct (prefixb K (log (st s f))) eqn:E.
    + intros H1 H2. apply (Hunfl _ _ _ H1). lia.
    + intros H1 H2. assert (j < length K)%nat by (apply nth_error_Some; congruence). lia.
Qed.

(* ---- all steps ---- *)

Ltac node_obl := repeat split; simpl; try reflexivity; try lia; try congruence; auto.

Lemma linv_step s s' : linv s -> vinv V s -> step V s s' -> linv s'.
Proof.
  intros Hl Hv Hstep. destruct Hstep.
  - (* start *)
    apply (linv_frame s); [exact Hl | reflexivity | reflexivity | | |]; unfold do_start; simpl.
    + intros t c L [Heq|Hin]; [|left; exact Hin]. inversion Heq; subst.
      right. exists c. split; [reflexivity | lia].
    + intros m Hin. left. exact Hin.
    + intros n0. pose proof (l_fl _ Hl n0). upd_case n0 n; simpl; node_obl.
  - (* grant *)
    apply (linv_frame s); [exact Hl | reflexivity | reflexivity | | |]; unfold do_grant; simpl.
    + intros t0 c0 L0 Hin. left. exact Hin.
    + intros m Hin. left. exact Hin.
    + intros n0. pose proof (l_fl _ Hl n0). upd_case n0 v; simpl; [|node_obl].
      destruct (N.ltb_spec (cur (st s v)) t); node_obl.
  - (* bump *)
    apply (linv_frame s); [exact Hl | reflexivity | reflexivity | | |]; unfold do_bump; simpl.
    + intros t0 c0 L0 Hin. left. exact Hin.
    + intros m Hin. left. exact Hin.
    + intros n0. pose proof (l_fl _ Hl n0). upd_case n0 n; simpl; node_obl.
  - (* step down *)
    apply (linv_frame s); [exact Hl | reflexivity | reflexivity | | |]; unfold do_follow; simpl.
    + intros t0 c0 L0 Hin. left. exact Hin.
    + intros m Hin. left. exact Hin.
    + intros n0. pose proof (l_fl _ Hl n0). upd_case n0 n; simpl; node_obl.
  - (* count *)
    apply (linv_frame s); [exact Hl | reflexivity | reflexivity | | |]; unfold do_count; simpl.
    + intros t0 c0 L0 Hin. left. exact Hin.
    + intros m Hin. left. exact Hin.
    + intros n0. pose proof (l_fl _ Hl n0). upd_case n0 c; simpl; node_obl.
  - apply linv_win; assumption.
  - apply linv_client_append; assumption.
  - (* send *)
    apply (linv_frame s); [exact Hl | reflexivity | reflexivity | | |]; unfold do_send_append; simpl.
    + intros t0 c0 L0 Hin. left. exact Hin.
    + intros m [<-|Hin]; [right; apply send_msg_ok; assumption | left; exact Hin].
    + intros n0. pose proof (l_fl _ Hl n0). node_obl.
  - apply linv_recv_ok; assumption.
  - (* recv ack *)
    apply (linv_frame s); [exact Hl | reflexivity | reflexivity | | |]; unfold do_recv_ack; simpl.
    + intros t0 c0 L0 Hin. left. exact Hin.
    + intros m Hin. left. exact Hin.
    + intros n0. pose proof (l_fl _ Hl n0). upd_case n0 l; simpl; node_obl.
  - (* advance *)
    apply (linv_frame s); [exact Hl | reflexivity | reflexivity | | |]; unfold do_advance; simpl.
    + intros t0 c0 L0 Hin. left. exact Hin.
    + intros m Hin. left. exact Hin.
    + intros n0. pose proof (l_fl _ Hl n0). upd_case n0 l; simpl; node_obl.
  - apply linv_crash; assumption.
  - (* lose grant *)
    apply (linv_frame s); [exact Hl | reflexivity | reflexivity | | |]; unfold do_lose_grant; simpl.
    + intros t0 c0 L0 Hin. left. exact Hin.
    + intros m Hin. left. exact Hin.
    + intros n0. pose proof (l_fl _ Hl n0). node_obl.
  - (* net *)
    apply (linv_frame s); [exact Hl | reflexivity | reflexivity | | |]; unfold do_net_appends; simpl.
    + intros t0 c0 L0 Hin. left. exact Hin.
    + intros m Hin. left. apply H. exact Hin.
    + intros n0. pose proof (l_fl _ Hl n0). node_obl.
  - (* drop ack *)
    apply (linv_frame s); [exact Hl | reflexivity | reflexivity | | |]; unfold do_drop_ack; simpl.
    + intros t0 c0 L0 Hin. left. exact Hin.
    + intros m Hin. left. exact Hin.
    + intros n0. pose proof (l_fl _ Hl n0). node_obl.
  - (* flush *)
    apply (linv_frame s); [exact Hl | reflexivity | reflexivity | | |]; unfold do_flush; simpl.
    + intros t0 c0 L0 Hin. left. exact Hin.
    + intros m Hin. left. exact Hin.
    + intros n0. pose proof (l_fl _ Hl n0). upd_case n0 n; simpl; node_obl.
  - (* install *)
    apply linv_install; assumption.
  - (* truncated request *)
    apply (linv_frame s); [exact Hl | reflexivity | reflexivity | | |]; unfold do_trunc; simpl.
    + intros t0 c0 L0 Hin. left. exact Hin.
    + intros m0 [<-|Hin]; [right; apply trunc_msg_ok; exact (l_msg _ Hl _ H) | left; exact Hin].
    + intros n0. pose proof (l_fl _ Hl n0). node_obl.
Qed.

Lemma reachable_inv s : Reachable V s -> vinv V s /\ linv s.
Proof.
  intros Hr. induction Hr as [|s s' _ [IHv IHl] Hstep].
  - split; [apply vinv_init | apply linv_init].
  - split; [exact (vinv_step V _ _ IHv Hstep) | exact (linv_step _ _ IHl IHv Hstep)].
Qed.

(* ---- monotonicity of the ghost families ---- *)

Lemma step_created_mono s s' : step V s s' -> incl (created s) (created s').
Proof.
  intros Hstep. destruct Hstep; unfold_do; simpl; try apply incl_refl.
  apply incl_tl, incl_refl.
Qed.

Lemma steps_created_mono s s' : steps V s s' -> incl (created s) (created s').
Proof.
  intros Hs. induction Hs as [|s s' s'' _ IH Hst]; [apply incl_refl|].
  exact (incl_tran IH (step_created_mono _ _ Hst)).
Qed.

(* ---- log matching ---- *)

Definition matching (L1 L2 : list entry) : Prop :=
  forall j e1 e2, nth_error L1 j = Some e1 -> nth_error L2 j = Some e2 ->
    eterm e1 = eterm e2 -> e1 = e2 /\ firstn (S j) L1 = firstn (S j) L2.

Lemma wf_matching C L1 L2 : keyed C -> wf C L1 -> wf C L2 -> matching L1 L2.
Proof.
  intros Hk H1 H2 j e1 e2 Hn1 Hn2 Ht.
  split; [exact (wf_match_entry C L1 L2 j e1 e2 Hk H1 H2 Hn1 Hn2 Ht)|].
  assert (Hl1 : (j < length L1)%nat) by (apply nth_error_Some; congruence).
  assert (Hl2 : (j < length L2)%nat) by (apply nth_error_Some; congruence).
  apply (wf_match C); try assumption; try lia.
  simpl. rewrite Hn1, Hn2. exact Ht.
Qed.

Lemma log_matching_sec s n1 n2 :
  Reachable V s -> matching (log (st s n1)) (log (st s n2)).
Proof.
  intros Hr. destruct (reachable_inv _ Hr) as [_ Hl].
  exact (wf_matching _ _ _ (l_keyed _ Hl) (l_wfn _ Hl n1) (l_wfn _ Hl n2)).
Qed.

(* any two log values ever held, at any two instants *)
Lemma log_matching_history_sec s s' n1 n2 :
  Reachable V s -> steps V s s' -> matching (log (st s n1)) (log (st s' n2)).
Proof.
  intros Hr Hs. destruct (reachable_inv _ Hr) as [_ Hl].
  destruct (reachable_inv _ (reachable_steps V _ _ Hr Hs)) as [_ Hl'].
  apply (wf_matching (created s')); [exact (l_keyed _ Hl') | | exact (l_wfn _ Hl' n2)].
  apply (wf_mono (created s)); [exact (steps_created_mono _ _ Hs) | exact (l_wfn _ Hl n1)].
Qed.

(* the entries carried by an in-flight request match every log, above the
   request's anchor: entry k of the request sits at position prevIdx + k *)
Lemma request_matching_sec s m n k e1 e2 :
  Reachable V s -> In m (appends s) ->
  nth_error (rents m) k = Some e1 -> nth_error (log (st s n)) (rprevIdx m + k) = Some e2 ->
  eterm e1 = eterm e2 -> e1 = e2.
Proof.
  intros Hr Hin H1 H2 Ht. destruct (reachable_inv _ Hr) as [Hv Hl].
  destruct (l_msg _ Hl _ Hin) as [_ [P [HP1 [_ HP3]]]].
  apply (wf_match_entry (created s) (P ++ rents m) (log (st s n)) (rprevIdx m + k) e1 e2);
    try assumption.
  - exact (l_keyed _ Hl).
  - exact (lpre_wf _ _ _ Hl Hv HP3).
  - exact (l_wfn _ Hl n).
  - rewrite nth_error_app2 by lia. replace (rprevIdx m + k - length P)%nat with k by lia. exact H1.
Qed.

(* a node that stays Leader in the same term only appends *)
Lemma leader_append_only_sec s s' n :
  step V s s' -> role (st s n) = Leader -> role (st s' n) = Leader ->
  cur (st s' n) = cur (st s n) -> prefix (log (st s n)) (log (st s' n)).
Proof.
  intros Hstep.
  destruct Hstep; unfold_do; simpl;
    try (match goal with |- context [upd _ ?x _ n] => upd_case n x end); simpl; intros;
    try apply prefix_refl; try apply prefix_app; try discriminate.
Qed.

End RaftLog.

(* ---- closed statements, in the form published by Props/C04.v ---- *)

Theorem log_matching : forall V s n1 n2, Reachable V s ->
  forall j e1 e2,
    nth_error (log (st s n1)) j = Some e1 -> nth_error (log (st s n2)) j = Some e2 ->
    eterm e1 = eterm e2 ->
    e1 = e2 /\ firstn (S j) (log (st s n1)) = firstn (S j) (log (st s n2)).
Proof. intros V s n1 n2 Hr. exact (log_matching_sec V s n1 n2 Hr). Qed.

Theorem log_matching_history : forall V s s' n1 n2, Reachable V s -> steps V s s' ->
  forall j e1 e2,
    nth_error (log (st s n1)) j = Some e1 -> nth_error (log (st s' n2)) j = Some e2 ->
    eterm e1 = eterm e2 ->
    e1 = e2 /\ firstn (S j) (log (st s n1)) = firstn (S j) (log (st s' n2)).
Proof. intros V s s' n1 n2 Hr Hs. exact (log_matching_history_sec V s s' n1 n2 Hr Hs). Qed.

Theorem request_matching : forall V s m n k e1 e2, Reachable V s -> In m (appends s) ->
  nth_error (rents m) k = Some e1 -> nth_error (log (st s n)) (rprevIdx m + k) = Some e2 ->
  eterm e1 = eterm e2 -> e1 = e2.
Proof. exact request_matching_sec. Qed.

Theorem leader_append_only : forall V s s' n, step V s s' ->
  role (st s n) = Leader -> role (st s' n) = Leader -> cur (st s' n) = cur (st s n) ->
  exists tail, log (st s' n) = log (st s n) ++ tail.
Proof. intros V s s' n H1 H2 H3 H4. exact (leader_append_only_sec V s s' n H1 H2 H3 H4). Qed.
