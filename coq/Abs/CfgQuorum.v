(* Abs/CfgQuorum.v  Majorities of two voter lists that are at most one voter
   apart meet.  Standard library + Abs/Quorum.v only. *)
From Coq Require Import List NArith Arith Lia Bool.
From Verif Require Import Abs.Quorum.
Import ListNotations.

(* D' is D with at most one voter added, or with at most one voter removed
   (both lists are duplicate-free where it matters, see [near_meet]). *)
Definition near (D D' : list N) : Prop :=
  (incl D D' /\ length D' <= length D + 1) \/
  (incl D' D /\ length D <= length D' + 1).

Lemma near_refl D : near D D.
Proof. left. split; [apply incl_refl | lia]. Qed.

Lemma near_sym D D' : near D D' -> near D' D.
Proof. intros [H|H]; [right | left]; exact H. Qed.

Lemma sub_majorities_meet D D' Q1 Q2 :
  NoDup D' -> incl D D' -> length D' <= length D + 1 ->
  majority D Q1 -> majority D' Q2 -> exists v, In v Q1 /\ In v Q2.
Proof.
  intros Hnd Hi Hl [Hn1 [Hi1 Hl1]] [Hn2 [Hi2 Hl2]].
  destruct (disjoint_or_meet Q1 Q2) as [Hdis|Hmeet]; [|exact Hmeet].
  exfalso.
  assert (Hnd' : NoDup (Q1 ++ Q2)) by (apply NoDup_app_disjoint; assumption).
  assert (Hincl : incl (Q1 ++ Q2) D').
  { apply incl_app; [|exact Hi2]. intros v Hv. apply Hi, Hi1, Hv. }
  pose proof (NoDup_incl_length Hnd' Hincl) as Hlen.
  rewrite app_length in Hlen. lia.
Qed.

Theorem adjacent_majorities_meet D D' Q1 Q2 :
  NoDup D -> NoDup D' -> near D D' ->
  majority D Q1 -> majority D' Q2 -> exists v, In v Q1 /\ In v Q2.
Proof.
  intros HnD HnD' [[Hi Hl]|[Hi Hl]] H1 H2.
  - exact (sub_majorities_meet D D' Q1 Q2 HnD' Hi Hl H1 H2).
  - destruct (sub_majorities_meet D' D Q2 Q1 HnD Hi Hl H2 H1) as [v [Ha Hb]].
    exists v. split; assumption.
Qed.

(* computable test used by the reconfiguration guard *)
Definition subsetb (A B : list N) : bool :=
  forallb (fun a => existsb (N.eqb a) B) A.

Lemma subsetb_incl A B : subsetb A B = true -> incl A B.
Proof.
  unfold subsetb. rewrite forallb_forall. intros H a Ha.
  specialize (H a Ha). apply existsb_exists in H. destruct H as [b [Hb He]].
  apply N.eqb_eq in He. subst. exact Hb.
Qed.

Definition nearb (D D' : list N) : bool :=
  (subsetb D D' && (length D' <=? length D + 1)) ||
  (subsetb D' D && (length D <=? length D' + 1)).

Lemma nearb_near D D' : nearb D D' = true -> near D D'.
Proof.
  unfold nearb. rewrite orb_true_iff, !andb_true_iff, !Nat.leb_le.
  intros [[H1 H2]|[H1 H2]]; [left | right]; (split; [apply subsetb_incl; exact H1 | exact H2]).
Qed.
