(* Abs/CfgInvStepD.v  Invariant preservation: a leader appends (client entry or
   configuration change). *)
From Coq Require Import List NArith Arith Lia Bool.
From Verif Require Import Abs.Quorum Abs.RaftBase Abs.CfgQuorum Abs.CfgBase Abs.CfgRaft
  Abs.CfgInvDefs Abs.CfgInvT Abs.CfgInvFrame Abs.CfgInvStepA Abs.CfgInvStepC.
Import ListNotations.
Open Scope N_scope.

Section StepD.
Variable V0 : list N.

Definition cfg_cond (s : state) (l : N) (p : payload) : Prop :=
  forall D, p = PCfg D ->
    NoDup D /\ near (cfg V0 s l) D /\
    (cfg_idx (log (st s l)) <= commit (st s l))%nat /\
    (startIdx (st s l) <= commit (st s l))%nat.

(* an acknowledged index of the leader's term lies inside the leader's log *)
Lemma ack_in_ldr s l v i :
  xinv s -> role (st s l) = Leader -> In (cur (st s l), v, i) (acks s) ->
  (i <= length (log (st s l)))%nat.
Proof.
  intros X Hr Ha. destruct (a_ok s X _ _ _ Ha) as [_ [K [HK [Hl Hi]]]].
  pose proof (prefix_length _ _ (c_ldr s X l K Hr HK Hl)). lia.
Qed.

Lemma facts_append s l p :
  inv V0 s -> role (st s l) = Leader -> cfg_cond s l p -> facts V0 (do_append l p s).
Proof.
  intros [F X] Hr Hcond.
  destruct (v_ldr s X l Hr) as [Lt [He [HpL Hs]]].
  set (t := cur (st s l)) in *. set (Ll := log (st s l)) in *.
  assert (HlK1 : lastTerm (Ll ++ [(t, p)]) = t) by apply lastTerm_snoc.
  assert (Hold : forall K, In K (created s) -> lastTerm K = t -> prefix K (Ll ++ [(t, p)])).
  { intros K HK Hl. apply (prefix_trans _ Ll); [apply (c_ldr s X l K Hr HK Hl) | apply prefix_app]. }
  constructor; simpl; fold t Ll.
  - apply (closed_snoc V0); assumption.
  - intros K1 K2 [<-|H1] [<-|H2] Hl.
    + apply comparable_refl.
    + right. apply Hold; [exact H2 | congruence].
    + left. apply Hold; [exact H1 | congruence].
    + apply (f_chain V0 s F); assumption.
  - intros K [<-|HK]; [|apply (f_cmono V0 s F K HK)].
    apply mono_snoc; [apply (n_mono s X) | apply (n_term s X)].
  - intros K [<-|HK]; [|apply (f_cel V0 s F K HK)].
    rewrite HlK1. exists l, Lt. split; [exact He|].
    apply (prefix_trans _ Ll); [exact HpL | apply prefix_app].
  - exact (f_es V0 s F).
  - intros t0 n L H. apply (cwon_mono V0 s); simpl; try apply incl_refl; [|exact (f_elwon V0 s F t0 n L H)].
    intros v Hv. apply ev_mono; [apply incl_refl|].
    intros tc i K Ha Ht [HK|HK] Hl Hlen; simpl in *; [|split; assumption].
    exfalso. assert (E : tc = t) by (rewrite <- Hl, <- HK; exact HlK1). rewrite E in Ha.
    pose proof (ack_in_ldr s l v i X Hr Ha) as Hi.
    rewrite <- HK, app_length in Hlen. simpl in Hlen. unfold Ll in *. lia.
  - intros u0 c0 L H. destruct (f_st V0 s F _ _ _ H) as [H1 H2].
    split; [apply (wf_mono (created s)); [apply incl_tl, incl_refl | exact H1] | exact H2].
  - exact (f_st_one V0 s F).
  - exact (f_one V0 s F).
  - intros tc k M Hc. destruct (f_cmt V0 s F tc k M Hc) as [H1 H2].
    split; [right; exact H1 | exact H2].
  - exact (f_cmt_mono V0 s F).
  - intros P t' D [H|H]; [|exact (f_cfg V0 s F P t' D H)].
    apply app_inj_tail in H. destruct H as [HP H]. inversion H. subst t' P.
    destruct (Hcond D H2) as [Hnd [Hnear [Hci Hsi]]].
    split; [exact Hnd|]. split; [exact Hnear|].
    destruct (k_lc2 s X l Hr Hsi) as [M1 [Hc1 Hp1]].
    exists (commit (st s l)), M1, l, Lt. repeat split; try assumption. lia.
Qed.

Lemma xinv_append s l p :
  inv V0 s -> role (st s l) = Leader -> xinv (do_append l p s).
Proof.
  intros [F X] Hr.
  destruct (v_ldr s X l Hr) as [Lt [He [HpL Hs]]].
  assert (HlK1 : lastTerm (log (st s l) ++ [(cur (st s l), p)]) = cur (st s l))
    by apply lastTerm_snoc.
  assert (Hnew : forall tc v i K, In (tc, v, i) (acks s) ->
            log (st s l) ++ [(cur (st s l), p)] = K -> lastTerm K = tc ->
            (length K <= i)%nat -> False).
  { intros tc v i K Ha HK Hl Hlen. subst K. rewrite HlK1 in Hl. subst tc.
    pose proof (ack_in_ldr s l v i X Hr Ha). rewrite app_length in Hlen. simpl in Hlen. lia. }
  constructor; simpl; try xfield X; xstep X.
  - exists Lt. split; [exact He|]. split; [|exact Hs].
    apply (prefix_trans _ (log (st s l))); [exact HpL | apply prefix_app].
  - apply wf_created; [apply (closed_snoc V0); assumption | left; reflexivity].
  - apply (wf_mono (created s)); [apply incl_tl, incl_refl | apply (n_wf s X)].
  - apply mono_snoc; [apply (n_mono s X) | apply (n_term s X)].
  - match goal with H : _ \/ In K (created s) |- _ => destruct H as [<-|HK] end; [apply prefix_refl|].
    apply (prefix_trans _ (log (st s l))); [xauto X | apply prefix_app].
  - match goal with H : _ \/ In K (created s) |- _ => destruct H as [<-|HK] end; [|xauto X].
    exfalso. match goal with H : role (st s l0) = Leader |- _ => destruct (v_ldr s X l0 H) as [Lt0 [He0 _]] end.
    match goal with H : lastTerm _ = cur (st s l0) |- _ => rewrite HlK1 in H; rewrite <- H in He0 end.
    destruct (f_es V0 s F _ _ _ _ _ He He0). congruence.
  - destruct (m_ok s X m H) as [K [H1 H2]]. exists K. split; [right; exact H1 | exact H2].
  - destruct (a_ok s X _ _ _ H) as [H1 [K [H2 H3]]]. split; [exact H1|]. exists K. split; [right; exact H2 | exact H3].
  - destruct (a_ok s X _ _ _ H) as [H1 [K [H2 H3]]]. split; [exact H1|]. exists K. split; [right; exact H2 | exact H3].
  - match goal with H : _ \/ In K (created s) |- _ => destruct H as [HK|HK] end;
      [exfalso; eapply Hnew; eassumption|].
    apply (prefix_trans _ (log (st s l))); [xauto X | apply prefix_app].
  - match goal with H : _ \/ In K (created s) |- _ => destruct H as [HK|HK] end;
      [exfalso; eapply Hnew; eassumption | xauto X].
  - match goal with H : _ \/ In K (created s) |- _ => destruct H as [HK|HK] end;
      [exfalso; eapply Hnew; eassumption | xauto X].
  - match goal with H : (startIdx _ <= _)%nat |- _ => destruct (k_lc2 s X l Hr H) as [M1 [H1 H2]] end.
    exists M1. split; [exact H1|]. apply (prefix_trans _ (log (st s l))); [exact H2 | apply prefix_app].
  - pose proof (k_len s X l). rewrite app_length. simpl. lia.
  - destruct (k_nc s X l) as [H0|[t [k [M [H1 [H2 [H3 H4]]]]]]]; [left; exact H0|].
    right. exists t, k, M. repeat split; try assumption.
    rewrite firstn_app_le by (apply (k_len s X)). exact H4.
  - destruct (m_c s X m H) as [H0|[t [k [M [K [H1 [H2 [H3 [H4 H5]]]]]]]]]; [left; exact H0|].
    right. exists t, k, M, K. split; [exact H1|]. split; [exact H2|]. split; [exact H3|].
    split; [right; exact H4 | exact H5].
Qed.

Lemma inv_client s l x :
  inv V0 s -> role (st s l) = Leader -> inv V0 (do_append l (PData x) s).
Proof.
  intros I Hr. split; [apply facts_append; try assumption | apply xinv_append; assumption].
  intros D HD. discriminate.
Qed.

Lemma inv_reconfig s l D :
  inv V0 s -> role (st s l) = Leader ->
  (cfg_idx (log (st s l)) <= commit (st s l))%nat ->
  (startIdx (st s l) <= commit (st s l))%nat ->
  NoDup D -> near (cfg V0 s l) D ->
  inv V0 (do_append l (PCfg D) s).
Proof.
  intros I Hr H1 H2 H3 H4. split; [apply facts_append; try assumption | apply xinv_append; assumption].
  intros D' HD. inversion HD. subst D'. repeat split; assumption.
Qed.

End StepD.
