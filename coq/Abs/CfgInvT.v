(* Abs/CfgInvT.v  From the state facts [facts] to leader completeness (for every
   candidate holding a majority of its own configuration) and election safety.
   No induction over runs here: strong induction on the later term. *)
From Coq Require Import List NArith Arith Lia Bool.
From Verif Require Import Abs.Quorum Abs.RaftBase Abs.CfgQuorum Abs.CfgBase Abs.CfgRaft
  Abs.CfgInvDefs.
Import ListNotations.
Open Scope N_scope.

Section T.
Variable V0 : list N.
Hypothesis V0_nodup : NoDup V0.
Variable s : state.
Hypothesis F : facts V0 s.

Notation Cr := (created s).

(* a created log extends the election log of its term plus the no-op *)
Lemma created_ext K t n Lt :
  In K Cr -> lastTerm K = t -> In (t, n, Lt) (elected s) -> prefix (Lt ++ [noop t]) K.
Proof.
  intros HK Ht He. destruct (f_cel V0 s F K HK) as [n' [L' [He' Hp]]].
  rewrite Ht in *. destruct (f_es V0 s F _ _ _ _ _ He He') as [_ ->]. exact Hp.
Qed.

Lemma wf_pre_created X i : wf Cr X -> (0 < i <= length X)%nat -> In (firstn i X) Cr.
Proof. intros H Hi. apply H. exact Hi. Qed.

Lemma created_wf K : In K Cr -> wf Cr K.
Proof. apply wf_created. exact (f_closed V0 s F). Qed.

(* configurations of well-formed logs are duplicate-free *)
Lemma cfg_nodup X : wf Cr X -> NoDup (cfg_of V0 X).
Proof.
  intro H. destruct (cfg_idx X) as [|j] eqn:E.
  - rewrite cfg_of_none by exact E. exact V0_nodup.
  - destruct (cfg_idx_split V0 X j E) as [t [D [Hn [Hf Hc]]]]. rewrite Hc.
    assert (HK : In (firstn (S j) X) Cr).
    { apply H. pose proof (cfg_idx_le X). lia. }
    rewrite Hf in HK. destruct (f_cfg V0 s F _ _ _ HK) as [Hnd _]. exact Hnd.
Qed.

Lemma elected_started t n L : In (t, n, L) (elected s) -> In (t, n, L) (started s).
Proof. intro H. destruct (f_elwon V0 s F _ _ _ H) as [H1 _]. exact H1. Qed.

Lemma elected_wf t n L : In (t, n, L) (elected s) -> wf Cr L /\ mono L /\ lastTerm L < t.
Proof. intro H. apply (f_st V0 s F t n L). apply elected_started. exact H. Qed.

(* leader completeness for the leader elected in term u *)
Definition LC (u : N) : Prop := forall n L, In (u, n, L) (elected s) -> LCl s u L.

(* a majority with evidence: if the configurations of M and L are equal or
   adjacent, the quorums meet and the common voter carries the prefix *)
Lemma cwon_good u c L : cwon V0 s u c L -> good V0 s u L.
Proof.
  intros [Hst [QL [HQL HgL]]] tc k M Hc Htu Hnear Hhyp.
  destruct (f_cmt V0 s F _ _ _ Hc) as [HM [HlM [Htk [Hk [QM [HQM HaM]]]]]].
  destruct (f_st V0 s F _ _ _ Hst) as [HwL [HmL HlL]].
  assert (Hn1 : NoDup (cfg_of V0 M)) by (apply cfg_nodup, created_wf, HM).
  assert (Hn2 : NoDup (cfg_of V0 L)) by (apply cfg_nodup, HwL).
  destruct (adjacent_majorities_meet _ _ _ _ Hn1 Hn2 Hnear HQM HQL) as [v [Hv1 Hv2]].
  destruct (HaM v Hv1) as [i [Hack Hki]].
  destruct (HgL v Hv2) as [_ Hev].
  apply (Hev tc i (firstn k M)); try assumption.
  - apply (f_closed V0 s F M HM). lia.
  - rewrite lastTerm_firstn by lia. exact Htk.
  - rewrite firstn_length_le' by lia. exact Hki.
Qed.

Definition earlier (tc : N) (k : nat) (L : list entry) : Prop :=
  forall t' k' M', In (t', k', M') (cmts s) -> (t' < tc \/ (t' = tc /\ (k' < k)%nat)) ->
    prefix (firstn k' M') L.

(* Step 1: an anchor.  A prefix (firstn g M) of M that L contains, whose last
   configuration is either that of M, or the one just before that of M. *)
Lemma anchor tc k M L :
  In (tc, k, M) (cmts s) -> earlier tc k L ->
  exists g, prefix (firstn g M) L /\ (g <= length M)%nat /\
    (cfg_idx M = cfg_idx (firstn g M) \/
     exists jy ty Dy ny Ly,
       cfg_idx M = S jy /\ (g <= jy)%nat /\
       cfg_idx (firstn jy M) = cfg_idx (firstn g M) /\
       nth_error M jy = Some (ty, PCfg Dy) /\ near (cfg_of V0 (firstn jy M)) Dy /\
       In (ty, ny, Ly) (elected s) /\ (length Ly + 1 <= g)%nat).
Proof.
  intros Hc IH2.
  destruct (f_cmt V0 s F _ _ _ Hc) as [HM [HlM [Htk [Hk _]]]].
  destruct (cfg_idx M) as [|jy] eqn:E.
  - exists 0%nat. split; [apply prefix_nil|]. split; [lia|]. left. reflexivity.
  - destruct (cfg_idx_split V0 M jy E) as [ty [Dy [Hn [Hf _]]]].
    pose proof (cfg_idx_le M) as Hle.
    assert (HK : In (firstn jy M ++ [(ty, PCfg Dy)]) Cr).
    { rewrite <- Hf. apply (f_closed V0 s F M HM). lia. }
    destruct (f_cfg V0 s F _ _ _ HK) as [_ [Hnear [k1 [M1 [ny [Ly [Hc1 [Hp1 [He [Hs1 Hi1]]]]]]]]]].
    destruct (f_cmt V0 s F _ _ _ Hc1) as [_ [_ [_ [Hk1 _]]]].
    pose proof (prefix_length _ _ Hp1) as Hl1. rewrite firstn_length_le' in Hl1 by lia.
    assert (Hty : ty <= tc).
    { rewrite <- HlM. apply (mono_last M jy (ty, PCfg Dy) (f_cmono V0 s F M HM) Hn). }
    assert (Hlex : ty < tc \/ (ty = tc /\ (k1 < k)%nat)).
    { destruct (N.eq_dec ty tc) as [->|Hne]; [right | left; lia].
      split; [reflexivity|]. apply (f_cmt_mono V0 s F tc k1 M1 k M Hc1 Hc). lia. }
    pose proof (IH2 _ _ _ Hc1 Hlex) as HpL.
    assert (Hfe : firstn k1 M1 = firstn k1 M).
    { rewrite (prefix_firstn_firstn _ _ k1 Hp1) by lia.
      rewrite firstn_firstn. f_equal. lia. }
    rewrite Hfe in HpL.
    exists k1. split; [exact HpL|]. split; [lia|]. right.
    exists jy, ty, Dy, ny, Ly. repeat split; try assumption; try lia.
    symmetry. apply cfg_idx_prefix; [apply prefix_firstn_le; lia|].
    rewrite firstn_length_le' by lia. exact Hi1.
Qed.

(* L contains a log created in a term strictly between tc and u *)
Lemma direct_hi u tc k M X L :
  (forall u', u' < u -> LC u') -> In (tc, k, M) (cmts s) ->
  In X Cr -> tc < lastTerm X -> lastTerm X < u -> prefix X L -> prefix (firstn k M) L.
Proof.
  intros IHu Hc HX H1 H2 HXL.
  destruct (f_cel V0 s F X HX) as [n [Lx [He Hp]]].
  apply (prefix_trans _ Lx); [|apply (prefix_trans _ X); [|exact HXL]].
  - apply (IHu _ H2 n Lx He tc k M Hc H1).
  - apply (prefix_trans _ (Lx ++ [noop (lastTerm X)])); [apply prefix_app | exact Hp].
Qed.

(* L contains a log created in term tc that is not inside M *)
Lemma direct_eq tc k M X L :
  In (tc, k, M) (cmts s) -> In X Cr -> lastTerm X = tc -> ~ prefix X M -> prefix X L ->
  prefix (firstn k M) L.
Proof.
  intros Hc HX Ht Hn HXL.
  destruct (f_cmt V0 s F _ _ _ Hc) as [HM [HlM _]].
  assert (Hcmp : comparable X M) by (apply (f_chain V0 s F); [assumption..|congruence]).
  destruct Hcmp as [Hp|Hp]; [contradiction|].
  apply (prefix_trans _ M); [apply firstn_prefix|]. apply (prefix_trans _ X); assumption.
Qed.

Definition anch (M : list entry) (g : nat) : Prop :=
  cfg_idx M = cfg_idx (firstn g M) \/
  exists jy ty Dy ny Ly,
    cfg_idx M = S jy /\ (g <= jy)%nat /\
    cfg_idx (firstn jy M) = cfg_idx (firstn g M) /\
    nth_error M jy = Some (ty, PCfg Dy) /\ near (cfg_of V0 (firstn jy M)) Dy /\
    In (ty, ny, Ly) (elected s) /\ (length Ly + 1 <= g)%nat.

(* the configuration of M is equal or adjacent to that of the anchor *)
Lemma anch_near M g : (g <= length M)%nat -> anch M g ->
  near (cfg_of V0 (firstn g M)) (cfg_of V0 M).
Proof.
  intros Hg [H|[jy [ty [Dy [ny [Ly [H1 [H2 [H3 [H4 [H5 _]]]]]]]]]]].
  - rewrite (cfg_of_prefix V0 (firstn g M) M); [apply near_refl | apply firstn_prefix |].
    rewrite firstn_length_le' by exact Hg. rewrite H. apply (Nat.le_trans _ _ _ (cfg_idx_le _)).
    rewrite firstn_length_le' by exact Hg. lia.
  - assert (HM : cfg_of V0 M = Dy) by (unfold cfg_of; rewrite H1, H4; reflexivity).
    rewrite HM.
    assert (Hjy : (jy < length M)%nat) by (apply nth_error_Some; congruence).
    rewrite (cfg_of_prefix V0 (firstn g M) (firstn jy M)); [exact H5 | apply prefix_firstn_le; lia |].
    rewrite H3. apply (Nat.le_trans _ _ _ (cfg_idx_le _)). lia.
Qed.

(* Case: the last configuration of L lies inside the anchor *)
Lemma case_inside M g L :
  (g <= length M)%nat -> prefix (firstn g M) L -> anch M g ->
  cfg_idx L = cfg_idx (firstn g M) -> near (cfg_of V0 M) (cfg_of V0 L).
Proof.
  intros Hg HP Ha He. apply near_sym.
  rewrite <- (cfg_of_prefix V0 (firstn g M) L HP).
  - apply anch_near; assumption.
  - rewrite He. apply cfg_idx_le.
Qed.

(* Case: the last configuration entry of L is also an entry of M *)
Lemma case_in_M M g L jx :
  (g <= length M)%nat -> anch M g -> cfg_idx L = S jx ->
  (cfg_idx (firstn g M) < S jx)%nat -> prefix (firstn (S jx) L) M ->
  cfg_of V0 L = cfg_of V0 M.
Proof.
  intros Hg Ha HjL Hlt HXM.
  destruct (cfg_idx_at L jx HjL) as [e [He Hc]].
  assert (HlL : (jx < length L)%nat) by (apply nth_error_Some; congruence).
  assert (HeM : nth_error M jx = Some e).
  { rewrite <- (prefix_nth _ _ jx HXM) by (rewrite firstn_length_le' by lia; lia).
    rewrite nth_error_firstn. destruct (Nat.ltb_spec jx (S jx)); [exact He | lia]. }
  pose proof (cfg_idx_after M jx e HeM Hc) as HjM.
  destruct Ha as [H|[jy [ty [Dy [ny [Ly [H1 [H2 [H3 [H4 _]]]]]]]]]]; [lia|].
  assert (Hjy : (jy < length M)%nat) by (apply nth_error_Some; congruence).
  destruct (Nat.eq_dec jx jy) as [->|Hne].
  - apply (cfg_of_same V0 L M jy HjL H1). congruence.
  - exfalso. assert (Hin : (jx < cfg_idx (firstn jy M))%nat).
    { apply (cfg_idx_inside (firstn jy M) M jx e (firstn_prefix _ _) HeM Hc).
      rewrite firstn_length_le' by lia. lia. }
    lia.
Qed.

(* Case: the last configuration entry x of L (term tx < tc) is not in M.
   Set-up: the commit that preceded x is contained in M. *)
Lemma low_setup u tc k M L g jx tx Dx :
  (forall u', u' < u -> LC u') -> In (tc, k, M) (cmts s) -> tc < u ->
  (g <= length M)%nat -> prefix (firstn g M) L -> wf Cr L ->
  nth_error L jx = Some (tx, PCfg Dx) ->
  ~ prefix (firstn (S jx) L) M -> tx < tc ->
  (g <= jx)%nat /\ near (cfg_of V0 (firstn jx L)) Dx /\
  exists k2 nx Lx, (k2 <= jx)%nat /\ prefix (firstn k2 L) M /\
    (cfg_idx (firstn jx L) <= k2)%nat /\
    In (tx, nx, Lx) (elected s) /\ (length Lx + 1 <= k2)%nat /\
    prefix (Lx ++ [noop tx]) (firstn (S jx) L).
Proof.
  intros IHu Hc Htu Hg HP HwL Hx HnXM Htx.
  assert (HlL : (jx < length L)%nat) by (apply nth_error_Some; congruence).
  assert (Hgj : (g <= jx)%nat).
  { destruct (Nat.le_gt_cases g jx); [assumption|]. exfalso. apply HnXM.
    apply (firstn_is_prefix_of M L g (S jx) HP Hg). lia. }
  assert (HX : In (firstn (S jx) L) Cr) by (apply HwL; lia).
  rewrite (firstn_S_snoc L jx _ Hx) in HX.
  destruct (f_cfg V0 s F _ _ _ HX) as [_ [Hnear [k2 [M2 [nx [Lx [Hc2 [Hp2 [He [Hs2 Hi2]]]]]]]]]].
  destruct (f_cmt V0 s F _ _ _ Hc2) as [_ [_ [_ [Hk2 _]]]].
  pose proof (prefix_length _ _ Hp2) as Hl2. rewrite firstn_length_le' in Hl2 by lia.
  destruct (f_cmt V0 s F _ _ _ Hc) as [HM [HlM _]].
  destruct (f_cel V0 s F M HM) as [nt [Lt [Het HpM]]]. rewrite HlM in *.
  split; [exact Hgj|]. split; [exact Hnear|].
  exists k2, nx, Lx. split; [lia|]. split.
  - assert (Hfe : firstn k2 M2 = firstn k2 L).
    { rewrite (prefix_firstn_firstn _ _ k2 Hp2) by lia. rewrite firstn_firstn. f_equal. lia. }
    rewrite <- Hfe. apply (prefix_trans _ Lt).
    + apply (IHu tc Htu nt Lt Het tx k2 M2 Hc2 Htx).
    + apply (prefix_trans _ (Lt ++ [noop tc])); [apply prefix_app | exact HpM].
  - split; [exact Hi2|]. split; [exact He|]. split; [exact Hs2|].
    rewrite (firstn_S_snoc L jx _ Hx).
    apply (created_ext _ tx nx Lx HX); [apply lastTerm_snoc | exact He].
Qed.

(* two different configuration entries x (in L) and y (in M) on top of the same
   configuration, each preceded by a commit of its own term that the other log
   contains: impossible *)
Lemma two_children M L g jx jy tx ty Dx Dy nx Lx ny Ly k2 :
  In M Cr -> wf Cr L -> mono L ->
  (g <= length M)%nat -> prefix (firstn g M) L -> (g <= jx)%nat ->
  nth_error L jx = Some (tx, PCfg Dx) -> nth_error M jy = Some (ty, PCfg Dy) ->
  ~ prefix (firstn (S jx) L) M ->
  (k2 <= jx)%nat -> prefix (firstn k2 L) M ->
  In (tx, nx, Lx) (elected s) -> (length Lx + 1 <= k2)%nat ->
  prefix (Lx ++ [noop tx]) (firstn (S jx) L) ->
  In (ty, ny, Ly) (elected s) -> (length Ly + 1 <= g)%nat ->
  cfg_idx (firstn jx L) = cfg_idx (firstn jy M) ->
  cfg_idx (firstn k2 L) = cfg_idx (firstn jx L) -> False.
Proof.
  intros HM HwL HmL Hg HP Hgj Hx Hy HnXM Hk2 HB2 Hex Hs2 HpX Hey Hsy Hjw HA1.
  assert (HlL : (jx < length L)%nat) by (apply nth_error_Some; congruence).
  assert (HlM : (jy < length M)%nat) by (apply nth_error_Some; congruence).
  assert (HY : In (firstn (S jy) M) Cr) by (apply (f_closed V0 s F M HM); lia).
  assert (HX : In (firstn (S jx) L) Cr) by (apply HwL; lia).
  assert (HlY : lastTerm (firstn (S jy) M) = ty).
  { rewrite (firstn_S_snoc M jy _ Hy). apply lastTerm_snoc. }
  assert (HlX : lastTerm (firstn (S jx) L) = tx).
  { rewrite (firstn_S_snoc L jx _ Hx). apply lastTerm_snoc. }
  pose proof (created_ext _ ty ny Ly HY HlY Hey) as HpY.
  (* the no-op of ty sits at position |Ly| of M and of L *)
  assert (HnM : nth_error M (length Ly) = Some (noop ty)).
  { rewrite <- (prefix_nth _ _ (length Ly) (prefix_trans _ _ _ HpY (firstn_prefix _ _))).
    - apply nth_error_snoc.
    - rewrite app_length. simpl. lia. }
  assert (HnL : nth_error L (length Ly) = Some (noop ty)).
  { rewrite (nth_shared M L g (length Ly) HP Hg) by lia. exact HnM. }
  (* the no-op of tx sits at position |Lx| of L and of M *)
  assert (HnL' : nth_error L (length Lx) = Some (noop tx)).
  { rewrite <- (prefix_nth _ _ (length Lx) (prefix_trans _ _ _ HpX (firstn_prefix _ _))).
    - apply nth_error_snoc.
    - rewrite app_length. simpl. lia. }
  assert (HnM' : nth_error M (length Lx) = Some (noop tx)).
  { rewrite <- (prefix_nth _ _ (length Lx) HB2) by (rewrite firstn_length_le' by lia; lia).
    rewrite nth_error_firstn. destruct (Nat.ltb_spec (length Lx) k2); [exact HnL' | lia]. }
  pose proof (cfg_idx_le (firstn jy M)) as Hcy. rewrite firstn_length_le' in Hcy by lia.
  destruct (N.lt_trichotomy tx ty) as [Hlt|[Heq|Hgt]].
  - pose proof (HmL (length Ly) jx _ _ ltac:(lia) HnL Hx) as Hm. simpl in Hm. lia.
  - assert (Hcmp : comparable (firstn (S jx) L) (firstn (S jy) M)).
    { apply (f_chain V0 s F); [assumption..|congruence]. }
    destruct Hcmp as [Hp|Hp].
    + apply HnXM. apply (prefix_trans _ _ _ Hp). apply firstn_prefix.
    + pose proof (prefix_length _ _ Hp) as Hl. rewrite !firstn_length_le' in Hl by lia.
      destruct (Nat.eq_dec jy jx) as [->|Hne].
      * apply HnXM. rewrite <- (prefix_same_length _ _ Hp) by (rewrite !firstn_length_le' by lia; lia).
        apply firstn_prefix.
      * assert (HyL : nth_error L jy = Some (ty, PCfg Dy)).
        { rewrite <- (prefix_nth _ _ jy (prefix_trans _ _ _ Hp (firstn_prefix _ _)))
            by (rewrite firstn_length_le' by lia; lia).
          rewrite nth_error_firstn. destruct (Nat.ltb_spec jy (S jy)); [exact Hy | lia]. }
        assert (Hin : (jy < cfg_idx (firstn jx L))%nat).
        { apply (cfg_idx_inside (firstn jx L) L jy _ (firstn_prefix _ _) HyL eq_refl).
          rewrite firstn_length_le' by lia. lia. }
        lia.
  - assert (Hjy : (jy < length Lx)%nat).
    { destruct (Nat.le_gt_cases (length Lx) jy) as [Hle|]; [|assumption]. exfalso.
      pose proof (f_cmono V0 s F M HM (length Lx) jy _ _ Hle HnM' Hy) as Hm. simpl in Hm. lia. }
    assert (Hin : (jy < cfg_idx (firstn k2 L))%nat).
    { apply (cfg_idx_inside (firstn k2 L) M jy _ HB2 Hy eq_refl).
      rewrite firstn_length_le' by lia. lia. }
    lia.
Qed.

Lemma case_low u tc k M L g jx tx Dx :
  (forall u', u' < u -> LC u') -> In (tc, k, M) (cmts s) -> tc < u ->
  (g <= length M)%nat -> prefix (firstn g M) L -> anch M g -> wf Cr L -> mono L ->
  nth_error L jx = Some (tx, PCfg Dx) -> (cfg_idx (firstn g M) < S jx)%nat ->
  ~ prefix (firstn (S jx) L) M -> tx < tc -> near (cfg_of V0 M) Dx.
Proof.
  intros IHu Hc Htu Hg HP Ha HwL HmL Hx Hlt HnXM Htx.
  destruct (low_setup u tc k M L g jx tx Dx IHu Hc Htu Hg HP HwL Hx HnXM Htx)
    as [Hgj [Hnear [k2 [nx [Lx [Hk2 [HB2 [Hi2 [Hex [Hs2 HpX]]]]]]]]]].
  assert (HlL : (jx < length L)%nat) by (apply nth_error_Some; congruence).
  destruct (f_cmt V0 s F _ _ _ Hc) as [HM _].
  assert (A1 : cfg_idx (firstn k2 L) = cfg_idx (firstn jx L)).
  { apply cfg_idx_prefix; [apply prefix_firstn_le; lia|]. rewrite firstn_length_le' by lia. exact Hi2. }
  assert (A2 : cfg_of V0 (firstn k2 L) = cfg_of V0 (firstn jx L)).
  { apply cfg_of_prefix; [apply prefix_firstn_le; lia|]. rewrite firstn_length_le' by lia. exact Hi2. }
  assert (A3 : (cfg_idx (firstn g M) <= cfg_idx (firstn jx L))%nat).
  { apply cfg_idx_prefix_le. apply prefix_firstn_of; [exact HP|].
    rewrite firstn_length_le' by lia. exact Hgj. }
  assert (A4 : (cfg_idx (firstn jx L) <= cfg_idx M)%nat).
  { rewrite <- A1. apply cfg_idx_prefix_le. exact HB2. }
  assert (Hsame : (cfg_idx M <= k2)%nat -> near (cfg_of V0 M) Dx).
  { intro Hle. rewrite <- (cfg_of_prefix V0 (firstn k2 L) M HB2).
    - rewrite A2. exact Hnear.
    - rewrite firstn_length_le' by lia. exact Hle. }
  destruct Ha as [H|[jy [ty [Dy [ny [Ly [H1 [H2 [H3 [H4 [_ [Hey Hsy]]]]]]]]]]]].
  - apply Hsame. lia.
  - destruct (Nat.eq_dec (cfg_idx (firstn jx L)) (S jy)) as [He|Hne]; [apply Hsame; lia|].
    exfalso.
    assert (HlM : (jy < length M)%nat) by (apply nth_error_Some; congruence).
    assert (A5 : (cfg_idx (firstn jx L) <= cfg_idx (firstn jy M))%nat).
    { destruct (cfg_idx (firstn jx L)) as [|j'] eqn:E; [lia|].
      destruct (cfg_idx_at _ j' A1) as [e [He Hce]].
      assert (Hj' : (j' < k2)%nat).
      { assert (j' < length (firstn k2 L))%nat by (apply nth_error_Some; congruence).
        rewrite firstn_length_le' in H by lia. exact H. }
      assert (HeM : nth_error M j' = Some e).
      { rewrite <- (prefix_nth _ _ j' HB2) by (rewrite firstn_length_le' by lia; lia). exact He. }
      apply (cfg_idx_inside (firstn jy M) M j' e (firstn_prefix _ _) HeM Hce).
      rewrite firstn_length_le' by lia. lia. }
    apply (two_children M L g jx jy tx ty Dx Dy nx Lx ny Ly k2); try assumption. lia.
Qed.

Lemma T2_core u tc k M c L :
  (forall u', u' < u -> LC u') -> In (tc, k, M) (cmts s) -> tc < u ->
  In (u, c, L) (started s) -> good V0 s u L -> earlier tc k L -> prefix (firstn k M) L.
Proof.
  intros IHu Hc Htu Hst Hgood IH2.
  destruct (anchor tc k M L Hc IH2) as [g [HP [Hg Ha]]]. fold (anch M g) in Ha.
  destruct (f_st V0 s F _ _ _ Hst) as [HwL [HmL HlL]].
  assert (Hinter : near (cfg_of V0 M) (cfg_of V0 L) -> prefix (firstn k M) L).
  { intro Hnear. apply (Hgood tc k M Hc Htu Hnear).
    intros u' n' L' He H1 H2. apply (IHu u' H2 n' L' He tc k M Hc H1). }
  pose proof (cfg_idx_prefix_le _ _ HP) as Hle.
  destruct (Nat.eq_dec (cfg_idx L) (cfg_idx (firstn g M))) as [He|Hne].
  - apply Hinter. apply (case_inside M g L); assumption.
  - destruct (cfg_idx L) as [|jx] eqn:E; [lia|].
    destruct (cfg_idx_split V0 L jx E) as [tx [Dx [Hx [Hf HcL]]]].
    assert (HlL' : (jx < length L)%nat) by (apply nth_error_Some; congruence).
    destruct (eprefix_dec (firstn (S jx) L) M) as [HXM|HnXM].
    + apply Hinter.
      rewrite (case_in_M M g L jx Hg Ha E ltac:(lia) HXM). apply near_refl.
    + assert (HX : In (firstn (S jx) L) Cr) by (apply HwL; lia).
      assert (HlX : lastTerm (firstn (S jx) L) = tx) by (rewrite Hf; apply lastTerm_snoc).
      assert (Htxu : tx < u).
      { pose proof (mono_last L jx _ HmL Hx) as Hm. simpl in Hm. lia. }
      destruct (N.lt_trichotomy tx tc) as [Hlt|[Heq|Hgt]].
      * apply Hinter. rewrite HcL.
        apply (case_low u tc k M L g jx tx Dx); try assumption. lia.
      * apply (direct_eq tc k M (firstn (S jx) L) L Hc HX); try assumption; [congruence|].
        apply firstn_prefix.
      * apply (direct_hi u tc k M (firstn (S jx) L) L IHu Hc HX); try (rewrite HlX; assumption).
        apply firstn_prefix.
Qed.

(* a candidate whose quorum is good holds everything committed earlier *)
Lemma T2gen u c L :
  (forall u', u' < u -> LC u') -> In (u, c, L) (started s) -> good V0 s u L -> LCl s u L.
Proof.
  intros IHu Hst Hgood tc k M Hc Htu. revert k M Hc.
  induction tc as [tc IHt] using (well_founded_induction N.lt_wf_0).
  intro k. induction k as [k IHk] using lt_wf_ind. intros M Hc.
  apply (T2_core u tc k M c L IHu Hc Htu Hst Hgood).
  intros t' k' M' Hc' [Hlt|[-> Hlt]].
  - apply (IHt t' Hlt); [lia | exact Hc'].
  - apply (IHk k' Hlt). exact Hc'.
Qed.

(* Leader completeness *)
Theorem T2 : forall u, LC u.
Proof.
  intro u. induction u as [u IHu] using (well_founded_induction N.lt_wf_0).
  intros n L He. pose proof (f_elwon V0 s F _ _ _ He) as Hw.
  apply (T2gen u n L IHu); [destruct Hw as [H _]; exact H | apply (cwon_good u n L Hw)].
Qed.

(* two winning candidates of one term: if the last configuration entry of L1 is
   (term, index)-below that of L2, the configurations are adjacent *)
Lemma near_lex u c1 L1 c2 L2 j2 t2 D2 :
  In (u, c1, L1) (started s) -> LCl s u L1 -> In (u, c2, L2) (started s) ->
  cfg_idx L2 = S j2 -> nth_error L2 j2 = Some (t2, PCfg D2) ->
  (forall j1 t1 D1, cfg_idx L1 = S j1 -> nth_error L1 j1 = Some (t1, PCfg D1) ->
     t1 < t2 \/ (t1 = t2 /\ (j1 < j2)%nat)) ->
  near (cfg_of V0 L1) (cfg_of V0 L2).
Proof.
  intros Hst1 HLC1 Hst2 E2 Hx2 Hlex.
  destruct (f_st V0 s F _ _ _ Hst1) as [HwL1 [HmL1 HlL1]].
  destruct (f_st V0 s F _ _ _ Hst2) as [HwL2 [HmL2 HlL2]].
  assert (Hl2 : (j2 < length L2)%nat) by (apply nth_error_Some; congruence).
  assert (HX2 : In (firstn (S j2) L2) Cr) by (apply HwL2; lia).
  assert (HlX2 : lastTerm (firstn (S j2) L2) = t2).
  { rewrite (firstn_S_snoc L2 j2 _ Hx2). apply lastTerm_snoc. }
  assert (HX2' := HX2). rewrite (firstn_S_snoc L2 j2 _ Hx2) in HX2'.
  destruct (f_cfg V0 s F _ _ _ HX2') as [_ [Hnear [k1 [M1 [n2 [Lt2 [Hc1 [Hp1 [He2 [Hs1 Hi1]]]]]]]]]].
  destruct (f_cmt V0 s F _ _ _ Hc1) as [_ [_ [_ [Hk1 _]]]].
  pose proof (prefix_length _ _ Hp1) as Hlen1. rewrite firstn_length_le' in Hlen1 by lia.
  assert (Ht2u : t2 < u).
  { pose proof (mono_last L2 j2 _ HmL2 Hx2) as Hm. simpl in Hm. lia. }
  pose proof (HLC1 t2 k1 M1 Hc1 Ht2u) as HG.
  assert (Hfe : firstn k1 M1 = firstn k1 L2).
  { rewrite (prefix_firstn_firstn _ _ k1 Hp1) by lia. rewrite firstn_firstn. f_equal. lia. }
  rewrite Hfe in HG.
  assert (HcL2 : cfg_of V0 L2 = D2) by (unfold cfg_of; rewrite E2, Hx2; reflexivity).
  assert (A1 : cfg_idx (firstn k1 L2) = cfg_idx (firstn j2 L2)).
  { apply cfg_idx_prefix; [apply prefix_firstn_le; lia|]. rewrite firstn_length_le' by lia. exact Hi1. }
  assert (A2 : cfg_of V0 (firstn k1 L2) = cfg_of V0 (firstn j2 L2)).
  { apply cfg_of_prefix; [apply prefix_firstn_le; lia|]. rewrite firstn_length_le' by lia. exact Hi1. }
  pose proof (cfg_idx_prefix_le _ _ HG) as Hle.
  destruct (Nat.eq_dec (cfg_idx L1) (cfg_idx (firstn k1 L2))) as [He|Hne].
  - rewrite HcL2. rewrite <- (cfg_of_prefix V0 (firstn k1 L2) L1 HG).
    + rewrite A2. exact Hnear.
    + rewrite He. apply cfg_idx_le.
  - exfalso. destruct (cfg_idx L1) as [|j1] eqn:E1; [lia|].
    destruct (cfg_idx_split V0 L1 j1 E1) as [t1 [D1 [Hx1 _]]].
    assert (Hl1 : (j1 < length L1)%nat) by (apply nth_error_Some; congruence).
    assert (Hin : (j1 < j2)%nat -> nth_error L2 j1 = Some (t1, PCfg D1) -> False).
    { intros Hlt Hy.
      pose proof (cfg_idx_inside (firstn j2 L2) L2 j1 _ (firstn_prefix _ _) Hy eq_refl) as Hi.
      rewrite firstn_length_le' in Hi by lia. specialize (Hi Hlt). lia. }
    destruct (Hlex j1 t1 D1 eq_refl Hx1) as [Hlt|[-> Hlt]].
    + pose proof (created_ext _ t2 n2 Lt2 HX2 HlX2 He2) as HpY.
      assert (HnL2 : nth_error L2 (length Lt2) = Some (noop t2)).
      { rewrite <- (prefix_nth _ _ (length Lt2) (prefix_trans _ _ _ HpY (firstn_prefix _ _))).
        - apply nth_error_snoc.
        - rewrite app_length. simpl. lia. }
      assert (HnL1 : nth_error L1 (length Lt2) = Some (noop t2)).
      { rewrite (nth_shared L2 L1 k1 (length Lt2) HG) by lia. exact HnL2. }
      assert (Hj : (j1 < length Lt2)%nat).
      { destruct (Nat.le_gt_cases (length Lt2) j1) as [Hge|]; [|assumption]. exfalso.
        pose proof (HmL1 (length Lt2) j1 _ _ Hge HnL1 Hx1) as Hm. simpl in Hm. lia. }
      apply Hin; [lia|]. rewrite <- (nth_shared L2 L1 k1 j1 HG) by lia. exact Hx1.
    + assert (HX1 : In (firstn (S j1) L1) Cr) by (apply HwL1; lia).
      assert (HlX1 : lastTerm (firstn (S j1) L1) = t2).
      { rewrite (firstn_S_snoc L1 j1 _ Hx1). apply lastTerm_snoc. }
      assert (Hcmp : comparable (firstn (S j1) L1) (firstn (S j2) L2)).
      { apply (f_chain V0 s F); [assumption..|congruence]. }
      assert (Hp : prefix (firstn (S j1) L1) (firstn (S j2) L2)).
      { apply comparable_length; [exact Hcmp|]. rewrite !firstn_length_le' by lia. lia. }
      apply (Hin Hlt).
      rewrite <- (prefix_nth _ _ j1 (prefix_trans _ _ _ Hp (firstn_prefix _ _)))
        by (rewrite firstn_length_le' by lia; lia).
      rewrite nth_error_firstn. destruct (Nat.ltb_spec j1 (S j1)); [exact Hx1 | lia].
Qed.

Lemma won_near u c1 L1 c2 L2 :
  In (u, c1, L1) (started s) -> LCl s u L1 -> In (u, c2, L2) (started s) -> LCl s u L2 ->
  near (cfg_of V0 L1) (cfg_of V0 L2).
Proof.
  intros Hst1 H1 Hst2 H2.
  destruct (cfg_idx L1) as [|j1] eqn:E1; destruct (cfg_idx L2) as [|j2] eqn:E2.
  - rewrite !cfg_of_none by assumption. apply near_refl.
  - destruct (cfg_idx_split V0 L2 j2 E2) as [t2 [D2 [Hx2 _]]].
    apply (near_lex u c1 L1 c2 L2 j2 t2 D2 Hst1 H1 Hst2 E2 Hx2). intros j1 t1 D1 H. congruence.
  - destruct (cfg_idx_split V0 L1 j1 E1) as [t1 [D1 [Hx1 _]]]. apply near_sym.
    apply (near_lex u c2 L2 c1 L1 j1 t1 D1 Hst2 H2 Hst1 E1 Hx1). intros j2 t2 D2 H. congruence.
  - destruct (cfg_idx_split V0 L1 j1 E1) as [t1 [D1 [Hx1 _]]].
    destruct (cfg_idx_split V0 L2 j2 E2) as [t2 [D2 [Hx2 _]]].
    assert (Hlt12 : t1 < t2 \/ (t1 = t2 /\ (j1 < j2)%nat) ->
                    near (cfg_of V0 L1) (cfg_of V0 L2)).
    { intro H. apply (near_lex u c1 L1 c2 L2 j2 t2 D2 Hst1 H1 Hst2 E2 Hx2).
      intros j t D Hj Hn. assert (j = j1) by congruence. subst j.
      rewrite Hx1 in Hn. inversion Hn. subst. exact H. }
    assert (Hlt21 : t2 < t1 \/ (t2 = t1 /\ (j2 < j1)%nat) ->
                    near (cfg_of V0 L1) (cfg_of V0 L2)).
    { intro H. apply near_sym. apply (near_lex u c2 L2 c1 L1 j1 t1 D1 Hst2 H2 Hst1 E1 Hx1).
      intros j t D Hj Hn. assert (j = j2) by congruence. subst j.
      rewrite Hx2 in Hn. inversion Hn. subst. exact H. }
    destruct (N.lt_trichotomy t1 t2) as [H|[H|H]]; [apply Hlt12; left; exact H | | apply Hlt21; left; exact H].
    destruct (Nat.lt_trichotomy j1 j2) as [Hj|[Hj|Hj]];
      [apply Hlt12; right; split; assumption | | apply Hlt21; right; split; [congruence | assumption]].
    subst t2 j2.
    destruct (f_st V0 s F _ _ _ Hst1) as [HwL1 _].
    destruct (f_st V0 s F _ _ _ Hst2) as [HwL2 _].
    assert (Hl1 : (j1 < length L1)%nat) by (apply nth_error_Some; congruence).
    assert (Hl2 : (j1 < length L2)%nat) by (apply nth_error_Some; congruence).
    assert (Hm : firstn (S j1) L1 = firstn (S j1) L2).
    { apply (wf_match Cr L1 L2 (S j1) (f_chain V0 s F) HwL1 HwL2); try lia.
      simpl. rewrite Hx1, Hx2. reflexivity. }
    rewrite (firstn_S_snoc L1 j1 _ Hx1), (firstn_S_snoc L2 j1 _ Hx2) in Hm.
    apply app_inj_tail in Hm. destruct Hm as [_ Hm].
    rewrite (cfg_of_same V0 L1 L2 j1 E1 E2) by congruence. apply near_refl.
Qed.

(* two candidates of one term that hold everything committed earlier and a
   majority of votes each are the same candidate *)
Theorem T1gen u c1 L1 c2 L2 Q1 Q2 :
  In (u, c1, L1) (started s) -> LCl s u L1 -> In (u, c2, L2) (started s) -> LCl s u L2 ->
  majority (cfg_of V0 L1) Q1 -> (forall v, In v Q1 -> In (u, v, c1) (grants s)) ->
  majority (cfg_of V0 L2) Q2 -> (forall v, In v Q2 -> In (u, v, c2) (grants s)) ->
  c1 = c2 /\ L1 = L2.
Proof.
  intros Hst1 H1 Hst2 H2 HQ1 Hg1 HQ2 Hg2.
  pose proof (won_near u c1 L1 c2 L2 Hst1 H1 Hst2 H2) as Hnear.
  destruct (f_st V0 s F _ _ _ Hst1) as [HwL1 _]. destruct (f_st V0 s F _ _ _ Hst2) as [HwL2 _].
  destruct (adjacent_majorities_meet _ _ _ _ (cfg_nodup L1 HwL1) (cfg_nodup L2 HwL2) Hnear HQ1 HQ2)
    as [v [Hv1 Hv2]].
  assert (c1 = c2) by (apply (f_one V0 s F u v); [apply Hg1 | apply Hg2]; assumption).
  subst c2. split; [reflexivity|]. apply (f_st_one V0 s F u c1); assumption.
Qed.

(* committed prefixes form a chain *)
Lemma cmts_lt t1 k1 M1 t2 k2 M2 :
  In (t1, k1, M1) (cmts s) -> In (t2, k2, M2) (cmts s) -> t1 < t2 ->
  prefix (firstn k1 M1) (firstn k2 M2).
Proof.
  intros H1 H2 Hlt.
  destruct (f_cmt V0 s F _ _ _ H2) as [HM2 [HlM2 [Htk2 [Hk2 _]]]].
  destruct (f_cel V0 s F M2 HM2) as [n [Lt [He Hp]]]. rewrite HlM2 in *.
  pose proof (T2 t2 n Lt He t1 k1 M1 H1 Hlt) as HP.
  destruct (elected_wf _ _ _ He) as [_ [HmLt HlLt]].
  assert (HpLt : prefix Lt M2).
  { apply (prefix_trans _ (Lt ++ [noop t2])); [apply prefix_app | exact Hp]. }
  assert (Hk : (length Lt < k2)%nat).
  { destruct (Nat.le_gt_cases k2 (length Lt)) as [Hle|]; [|assumption]. exfalso.
    rewrite <- (term_at_prefix Lt M2 k2 HpLt Hle) in Htk2.
    destruct k2 as [|j]; [lia|]. simpl in Htk2.
    destruct (nth_error Lt j) as [e|] eqn:E.
    - pose proof (mono_last Lt j e HmLt E). lia.
    - apply nth_error_None in E. lia. }
  apply (prefix_trans _ Lt); [exact HP|].
  apply prefix_firstn_of; [exact HpLt | lia].
Qed.

Lemma cmts_chain t1 k1 M1 t2 k2 M2 :
  In (t1, k1, M1) (cmts s) -> In (t2, k2, M2) (cmts s) ->
  comparable (firstn k1 M1) (firstn k2 M2).
Proof.
  intros H1 H2. destruct (N.lt_trichotomy t1 t2) as [H|[H|H]].
  - left. apply (cmts_lt t1 k1 M1 t2 k2 M2); assumption.
  - subst t2.
    destruct (f_cmt V0 s F _ _ _ H1) as [HM1 [HlM1 _]].
    destruct (f_cmt V0 s F _ _ _ H2) as [HM2 [HlM2 _]].
    assert (Hc : comparable M1 M2) by (apply (f_chain V0 s F); [assumption..|congruence]).
    destruct (Nat.le_ge_cases k1 k2) as [Hle|Hle].
    + left. destruct Hc as [Hp|Hp].
      * apply (prefix_trans _ (firstn k1 M2)); [|apply prefix_firstn_le; exact Hle].
        apply prefix_firstn_both. exact Hp.
      * apply (prefix_trans _ (firstn k1 M2)); [|apply prefix_firstn_le; exact Hle].
        pose proof (prefix_firstn_both M2 M1 k1 Hp) as Hq.
        destruct (Nat.le_gt_cases k1 (length M2)).
        -- rewrite <- (prefix_firstn_firstn M2 M1 k1 Hp) by lia. apply prefix_refl.
        -- destruct (f_cmt V0 s F _ _ _ H2) as [_ [_ [_ [Hk2 _]]]]. lia.
    + right. destruct Hc as [Hp|Hp].
      * apply (prefix_trans _ (firstn k2 M1)); [|apply prefix_firstn_le; exact Hle].
        destruct (f_cmt V0 s F _ _ _ H1) as [_ [_ [_ [Hk1 _]]]].
        destruct (Nat.le_gt_cases k2 (length M1)).
        -- rewrite <- (prefix_firstn_firstn M1 M2 k2 Hp) by lia. apply prefix_refl.
        -- lia.
      * apply (prefix_trans _ (firstn k2 M1)); [|apply prefix_firstn_le; exact Hle].
        apply prefix_firstn_both. exact Hp.
  - right. apply (cmts_lt t2 k2 M2 t1 k1 M1); assumption.
Qed.

End T.
