(* Abs/CfgDurable.v  Durability on a majority under membership changes: for
   every commit a leader ever performed, in every later reachable state a
   majority of the configuration that was in force for that leader holds the
   committed prefix in its durable log prefix. *)
From Coq Require Import List NArith Arith Lia Bool.
From Verif Require Import Abs.Quorum Abs.RaftBase Abs.CfgQuorum Abs.CfgBase Abs.CfgRaft
  Abs.CfgInvDefs Abs.CfgInvT Abs.CfgInvAll.
Import ListNotations.
Open Scope N_scope.

Section Durable.
Variable V0 : list N.
Hypothesis V0_nodup : NoDup V0.

(* a node that acknowledged index k (or more) in the term of a commit record
   still holds the committed prefix, durably *)
Lemma acker_holds s tc k M v :
  inv V0 s -> dinv s -> In (tc, k, M) (cmts s) -> ackd s tc v k ->
  (k <= flushed (st s v))%nat /\ firstn k (log (st s v)) = firstn k M.
Proof.
  intros [F X] D Hc [i [Ha Hki]].
  destruct (f_cmt V0 s F _ _ _ Hc) as [HM [HlM [HtM [Hk _]]]].
  assert (HK : In (firstn k M) (created s)) by (apply (f_closed V0 s F M HM); lia).
  assert (HlK : lastTerm (firstn k M) = tc) by (rewrite lastTerm_firstn by lia; exact HtM).
  assert (Hlen : length (firstn k M) = k) by (apply firstn_length_le'; lia).
  assert (HP : prefix (firstn k M) (log (st s v))).
  { apply (s_ack s X tc v i (firstn k M) Ha HK HlK); [lia|].
    intros u' n' L' He Hlt _. exact (T2 V0 V0_nodup s F u' n' L' He tc k M Hc Hlt). }
  pose proof (prefix_length _ _ HP) as HlP. rewrite Hlen in HlP.
  split.
  - apply (d_ack s D tc v i k Ha Hki HlP).
    rewrite <- (term_at_prefix _ _ k HP) by lia.
    rewrite term_at_firstn by lia. exact HtM.
  - rewrite <- (prefix_firstn_firstn _ _ k HP) by lia.
    rewrite firstn_firstn. f_equal. lia.
Qed.

Theorem committed_durable_on_majority s tc k M :
  Reachable V0 s -> In (tc, k, M) (cmts s) ->
  exists Q, majority (cfg_of V0 M) Q /\
    forall v, In v Q ->
      (k <= flushed (st s v))%nat /\ firstn k (log (st s v)) = firstn k M.
Proof.
  intros R Hc. destruct (reachable_inv2 V0 V0_nodup s R) as [I D].
  destruct (f_cmt V0 s (proj1 I) _ _ _ Hc) as [_ [_ [_ [_ [Q [HQ Hack]]]]]].
  exists Q. split; [exact HQ|]. intros v Hv.
  exact (acker_holds s tc k M v I D Hc (Hack v Hv)).
Qed.

(* the same for the ghost [committed]: M is the committing leader's log at the
   commit, cfg_of V0 M the configuration then in force for it *)
Theorem committed_entry_durable s t i e :
  Reachable V0 s -> In (t, i, e) (committed s) ->
  exists M Q, In (t, i, M) (cmts s) /\ nth_error M (i - 1) = Some e /\
    majority (cfg_of V0 M) Q /\
    forall v, In v Q ->
      (i <= flushed (st s v))%nat /\ nth_error (log (st s v)) (i - 1) = Some e.
Proof.
  intros R Hc. destruct (reachable_inv2 V0 V0_nodup s R) as [[F X] D].
  destruct (k_com s X t i e Hc) as [M [HcM Hn]].
  destruct (f_cmt V0 s F _ _ _ HcM) as [_ [_ [_ [Hi _]]]].
  destruct (committed_durable_on_majority s t i M R HcM) as [Q [HQ Hall]].
  exists M, Q. split; [exact HcM|]. split; [exact Hn|]. split; [exact HQ|].
  intros v Hv. destruct (Hall v Hv) as [Hf He]. split; [exact Hf|].
  assert (H1 : nth_error (firstn i (log (st s v))) (i - 1) = nth_error (firstn i M) (i - 1))
    by (rewrite He; reflexivity).
  rewrite !nth_error_firstn in H1.
  destruct (Nat.ltb_spec (i - 1) i); [|lia]. rewrite H1. exact Hn.
Qed.

End Durable.
