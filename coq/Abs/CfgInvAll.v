(* Abs/CfgInvAll.v  The invariant holds in every reachable state; safety theorems. *)
From Coq Require Import List NArith Arith Lia Bool.
From Verif Require Import Abs.Quorum Abs.RaftBase Abs.CfgQuorum Abs.CfgBase Abs.CfgRaft
  Abs.CfgInvDefs Abs.CfgInvT Abs.CfgInvFrame Abs.CfgInvStepA Abs.CfgInvStepB Abs.CfgInvStepC
  Abs.CfgInvStepD Abs.CfgInvStepE Abs.CfgInvStepF.
Import ListNotations.
Open Scope N_scope.

Section All.
Variable V0 : list N.
Hypothesis V0_nodup : NoDup V0.

Lemma inv_step s s' : inv V0 s -> step V0 s s' -> inv V0 s'.
Proof.
  intros I Hs. unfold step in Hs. inversion Hs; subst.
  - apply inv_start; assumption.
  - eapply inv_grant; eassumption.
  - apply inv_stepdown; assumption.
  - apply inv_count; assumption.
  - apply inv_win; assumption.
  - apply inv_client; assumption.
  - apply inv_reconfig; auto.
  - apply inv_send; assumption.
  - apply inv_recv; assumption.
  - apply inv_ack; assumption.
  - eapply inv_commit; eassumption.
Qed.

Theorem reachable_inv s : Reachable V0 s -> inv V0 s.
Proof.
  intro H. unfold Reachable in H. induction H as [|s s' _ IH Hs].
  - apply inv_init.
  - exact (inv_step s s' IH Hs).
Qed.

Theorem election_safety s t n L n' L' :
  Reachable V0 s -> In (t, n, L) (elected s) -> In (t, n', L') (elected s) -> n = n'.
Proof.
  intros R H1 H2. destruct (reachable_inv s R) as [F _].
  destruct (f_es V0 s F t n L n' L' H1 H2) as [H _]. exact H.
Qed.

Theorem log_matching s n m i :
  Reachable V0 s -> (0 < i)%nat -> (i <= length (log (st s n)))%nat ->
  (i <= length (log (st s m)))%nat ->
  term_at (log (st s n)) i = term_at (log (st s m)) i ->
  firstn i (log (st s n)) = firstn i (log (st s m)).
Proof.
  intros R H0 H1 H2 Ht. destruct (reachable_inv s R) as [F X].
  apply (wf_match (created s)); try assumption.
  - exact (f_chain V0 s F).
  - apply (n_wf s X).
  - apply (n_wf s X).
Qed.

Theorem leader_completeness s t i e u l L :
  Reachable V0 s -> In (t, i, e) (committed s) -> In (u, l, L) (elected s) -> t < u ->
  nth_error L (i - 1) = Some e.
Proof.
  intros R Hc He Htu. destruct (reachable_inv s R) as [F X].
  destruct (k_com s X t i e Hc) as [M [HcM Hn]].
  destruct (f_cmt V0 s F _ _ _ HcM) as [_ [_ [_ [Hi _]]]].
  pose proof (T2 V0 V0_nodup s F u l L He t i M HcM Htu) as HP.
  rewrite <- (prefix_nth _ _ (i - 1) HP) by (rewrite firstn_length_le' by lia; lia).
  rewrite nth_error_firstn. destruct (Nat.ltb_spec (i - 1) i); [exact Hn | lia].
Qed.

(* an index at or below a node's commit index holds the entry of a commit record *)
Lemma commit_entry s n i :
  inv V0 s -> (1 <= i <= commit (st s n))%nat ->
  exists t k M, In (t, k, M) (cmts s) /\ (i <= k)%nat /\
    nth_error (log (st s n)) (i - 1) = nth_error (firstn k M) (i - 1).
Proof.
  intros [F X] Hi. destruct (k_nc s X n) as [H0|[t [k [M [Hc [_ [Hk Hfe]]]]]]]; [lia|].
  exists t, k, M. split; [exact Hc|]. split; [lia|].
  assert (H1 : nth_error (firstn (commit (st s n)) (log (st s n))) (i - 1) =
               nth_error (firstn (commit (st s n)) M) (i - 1)) by (rewrite Hfe; reflexivity).
  rewrite !nth_error_firstn in *.
  destruct (Nat.ltb_spec (i - 1) (commit (st s n))); [|lia].
  destruct (Nat.ltb_spec (i - 1) k); [exact H1 | lia].
Qed.

Theorem state_machine_safety s n m i :
  Reachable V0 s -> (1 <= i)%nat -> (i <= commit (st s n))%nat -> (i <= commit (st s m))%nat ->
  exists e, nth_error (log (st s n)) (i - 1) = Some e /\
            nth_error (log (st s m)) (i - 1) = Some e.
Proof.
  intros R H1 Hn Hm. pose proof (reachable_inv s R) as I.
  destruct (commit_entry s n i I ltac:(lia)) as [t1 [k1 [M1 [Hc1 [Hk1 He1]]]]].
  destruct (commit_entry s m i I ltac:(lia)) as [t2 [k2 [M2 [Hc2 [Hk2 He2]]]]].
  destruct I as [F X].
  destruct (f_cmt V0 s F _ _ _ Hc1) as [_ [_ [_ [Hl1 _]]]].
  destruct (f_cmt V0 s F _ _ _ Hc2) as [_ [_ [_ [Hl2 _]]]].
  assert (Heq : nth_error (firstn k1 M1) (i - 1) = nth_error (firstn k2 M2) (i - 1)).
  { destruct (cmts_chain V0 V0_nodup s F _ _ _ _ _ _ Hc1 Hc2) as [Hp|Hp].
    - apply (prefix_nth _ _ _ Hp). rewrite firstn_length_le' by lia. lia.
    - symmetry. apply (prefix_nth _ _ _ Hp). rewrite firstn_length_le' by lia. lia. }
  pose proof (k_len s X n) as Hln.
  destruct (nth_error (log (st s n)) (i - 1)) as [e|] eqn:E.
  - exists e. split; [reflexivity|]. rewrite He2, <- Heq, <- He1. reflexivity.
  - apply nth_error_None in E. lia.
Qed.

End All.
