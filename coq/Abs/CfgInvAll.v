(* Abs/CfgInvAll.v  The invariant holds in every reachable state; safety theorems. *)
From Coq Require Import List NArith Arith Lia Bool.
From Verif Require Import Abs.Quorum Abs.RaftBase Abs.CfgQuorum Abs.CfgBase Abs.CfgRaft
  Abs.CfgInvDefs Abs.CfgInvT Abs.CfgInvFrame Abs.CfgInvStepA Abs.CfgInvStepB Abs.CfgInvStepC
  Abs.CfgInvStepD Abs.CfgInvStepE Abs.CfgInvStepF Abs.CfgInvStepG Abs.CfgInvStepH.
Import ListNotations.
Open Scope N_scope.

Section All.
Variable V0 : list N.
Hypothesis V0_nodup : NoDup V0.

Lemma inv_step s s' : inv V0 s -> dinv s -> step V0 s s' -> inv V0 s'.
Proof.
  intros I D Hs. unfold step in Hs. inversion Hs; subst.
  - apply inv_start; assumption.
  - eapply inv_grant; eassumption.
  - apply inv_stepdown; assumption.
  - apply inv_count; assumption.
  - apply inv_win; assumption.
  - apply inv_client; assumption.
  - apply inv_reconfig; auto.
  - apply inv_send; assumption.
  - apply inv_recv; assumption.
  - apply inv_ack; assumption.
  - eapply inv_commit; eassumption.
  - apply inv_flush; assumption.
  - apply inv_crash; assumption.
  - split; [apply facts_install; assumption|].
    eapply (xinv_install V0 V0_nodup); eassumption.
  - apply (inv_trunc V0); assumption.
Qed.

Lemma dinv_step s s' : inv V0 s -> dinv s -> step V0 s s' -> dinv s'.
Proof.
  intros I D Hs. pose proof (inv_step s s' I D Hs) as I'.
  unfold step in Hs. inversion Hs; subst.
  - apply dinv_start; assumption.
  - apply dinv_grant; assumption.
  - apply dinv_stepdown; assumption.
  - apply dinv_count; assumption.
  - apply (dinv_win V0 V0_nodup); assumption.
  - apply (dinv_append V0); assumption.
  - apply (dinv_append V0); assumption.
  - apply dinv_send; assumption.
  - apply (dinv_recv V0); try assumption. exact (proj2 I').
  - apply dinv_ack; assumption.
  - apply dinv_commit; [assumption | lia].
  - apply dinv_flush; assumption.
  - apply dinv_crash; assumption.
  - apply dinv_install; [assumption | exact (proj2 I') | lia].
  - apply dinv_trunc; assumption.
Qed.

Theorem reachable_inv2 s : Reachable V0 s -> inv V0 s /\ dinv s.
Proof.
  intro H. unfold Reachable in H. induction H as [|s s' _ [IH ID] Hs].
  - split; [apply inv_init | apply dinv_init].
  - split; [exact (inv_step s s' IH ID Hs) | exact (dinv_step s s' IH ID Hs)].
Qed.

Theorem reachable_inv s : Reachable V0 s -> inv V0 s.
Proof. intro H. exact (proj1 (reachable_inv2 s H)). Qed.

Theorem election_safety s t n L n' L' :
  Reachable V0 s -> In (t, n, L) (elected s) -> In (t, n', L') (elected s) -> n = n'.
Proof.
  intros R H1 H2. destruct (reachable_inv s R) as [F _].
  destruct (f_es V0 s F t n L n' L' H1 H2) as [H _]. exact H.
Qed.

Theorem log_matching s n m i :
  Reachable V0 s -> (0 < i)%nat -> (i <= length (log (st s n)))%nat ->
  (i <= length (log (st s m)))%nat ->
  term_at (log (st s n)) i = term_at (log (st s m)) i ->
  firstn i (log (st s n)) = firstn i (log (st s m)).
Proof.
  intros R H0 H1 H2 Ht. destruct (reachable_inv s R) as [F X].
  apply (wf_match (created s)); try assumption.
  - exact (f_chain V0 s F).
  - apply (n_wf s X).
  - apply (n_wf s X).
Qed.

Theorem leader_completeness s t i e u l L :
  Reachable V0 s -> In (t, i, e) (committed s) -> In (u, l, L) (elected s) -> t < u ->
  nth_error L (i - 1) = Some e.
Proof.
  intros R Hc He Htu. destruct (reachable_inv s R) as [F X].
  destruct (k_com s X t i e Hc) as [M [HcM Hn]].
  destruct (f_cmt V0 s F _ _ _ HcM) as [_ [_ [_ [Hi _]]]].
  pose proof (T2 V0 V0_nodup s F u l L He t i M HcM Htu) as HP.
  rewrite <- (prefix_nth _ _ (i - 1) HP) by (rewrite firstn_length_le' by lia; lia).
  rewrite nth_error_firstn. destruct (Nat.ltb_spec (i - 1) i); [exact Hn | lia].
Qed.

(* an index at or below a node's commit index holds the entry of a commit record *)
Lemma commit_entry s n i :
  inv V0 s -> (1 <= i <= commit (st s n))%nat ->
  exists t k M, In (t, k, M) (cmts s) /\ (i <= k)%nat /\
    nth_error (log (st s n)) (i - 1) = nth_error (firstn k M) (i - 1).
Proof.
  intros [F X] Hi. destruct (k_nc s X n) as [H0|[t [k [M [Hc [_ [Hk Hfe]]]]]]]; [lia|].
  exists t, k, M. split; [exact Hc|]. split; [lia|].
  assert (H1 : nth_error (firstn (commit (st s n)) (log (st s n))) (i - 1) =
               nth_error (firstn (commit (st s n)) M) (i - 1)) by (rewrite Hfe; reflexivity).
  rewrite !nth_error_firstn in *.
  destruct (Nat.ltb_spec (i - 1) (commit (st s n))); [|lia].
  destruct (Nat.ltb_spec (i - 1) k); [exact H1 | lia].
Qed.

Theorem state_machine_safety s n m i :
  Reachable V0 s -> (1 <= i)%nat -> (i <= commit (st s n))%nat -> (i <= commit (st s m))%nat ->
  exists e, nth_error (log (st s n)) (i - 1) = Some e /\
            nth_error (log (st s m)) (i - 1) = Some e.
Proof.
  intros R H1 Hn Hm. pose proof (reachable_inv s R) as I.
  destruct (commit_entry s n i I ltac:(lia)) as [t1 [k1 [M1 [Hc1 [Hk1 He1]]]]].
  destruct (commit_entry s m i I ltac:(lia)) as [t2 [k2 [M2 [Hc2 [Hk2 He2]]]]].
  destruct I as [F X].
  destruct (f_cmt V0 s F _ _ _ Hc1) as [_ [_ [_ [Hl1 _]]]].
  destruct (f_cmt V0 s F _ _ _ Hc2) as [_ [_ [_ [Hl2 _]]]].
  assert (Heq : nth_error (firstn k1 M1) (i - 1) = nth_error (firstn k2 M2) (i - 1)).
  { destruct (cmts_chain V0 V0_nodup s F _ _ _ _ _ _ Hc1 Hc2) as [Hp|Hp].
    - apply (prefix_nth _ _ _ Hp). rewrite firstn_length_le' by lia. lia.
    - symmetry. apply (prefix_nth _ _ _ Hp). rewrite firstn_length_le' by lia. lia. }
  pose proof (k_len s X n) as Hln.
  destruct (nth_error (log (st s n)) (i - 1)) as [e|] eqn:E.
  - exists e. split; [reflexivity|]. rewrite He2, <- Heq, <- He1. reflexivity.
  - apply nth_error_None in E. lia.
Qed.

(* the commit index never exceeds the durable prefix *)
Theorem commit_le_flushed s n :
  Reachable V0 s -> (commit (st s n) <= flushed (st s n) <= length (log (st s n)))%nat.
Proof.
  intro R. destruct (reachable_inv2 s R) as [_ D].
  split; [apply (d_cf s D) | apply (d_fl s D)].
Qed.

(* reflexive-transitive closure of the step relation (crashes included) *)
Inductive steps : state -> state -> Prop :=
| steps_refl s : steps s s
| steps_cons s s1 s' : step V0 s s1 -> steps s1 s' -> steps s s'.

Lemma steps_reachable s s' : Reachable V0 s -> steps s s' -> Reachable V0 s'.
Proof.
  intros R H. induction H as [|s s1 s' Hs _ IH]; [exact R|].
  apply IH. exact (GR_step V0 true s s1 R Hs).
Qed.

Lemma committed_step s s' x : step V0 s s' -> In x (committed s) -> In x (committed s').
Proof.
  intros Hs Hx. unfold step in Hs. inversion Hs; subst; simpl; try exact Hx.
  destruct (nth_error (log (st s l)) (k - 1)); [right|]; exact Hx.
Qed.

Theorem committed_survives s s' t i e :
  Reachable V0 s -> steps s s' -> In (t, i, e) (committed s) ->
  Reachable V0 s' /\ In (t, i, e) (committed s').
Proof.
  intros R H Hc. split; [exact (steps_reachable s s' R H)|].
  clear R. induction H as [|s s1 s' Hs _ IH]; [exact Hc|].
  apply IH. exact (committed_step s s1 _ Hs Hc).
Qed.

End All.
