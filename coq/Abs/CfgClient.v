(* Abs/CfgClient.v  A client payload submitted at most once takes effect at
   most once, at one position: over runs of actions (Abs/CfgRun.v), if at most
   one action [AClient _ x] occurs (x <> 0; PData 0 is the no-op), then all
   occurrences of [PData x] in all logs are at one index, with one term. *)
From Coq Require Import List NArith Arith Lia Bool.
From Verif Require Import Abs.Quorum Abs.RaftBase Abs.CfgQuorum Abs.CfgBase Abs.CfgRaft
  Abs.CfgRun Abs.CfgInvDefs Abs.CfgInvAll.
Import ListNotations.
Open Scope N_scope.

Definition is_client (x : N) (a : action) : bool :=
  match a with AClient _ y => y =? x | _ => false end.

Fixpoint client_count (x : N) (acts : list action) : nat :=
  match acts with
  | [] => 0%nat
  | a :: r => ((if is_client x a then 1 else 0) + client_count x r)%nat
  end.

(* the entry an action makes a leader append *)
Definition new_entry (a : action) (s : state) : option (N * entry) :=
  match a with
  | AWin c => Some (c, (cur (st s c), PData 0))
  | AClient l y => Some (l, (cur (st s l), PData y))
  | AReconfig l D => Some (l, (cur (st s l), PCfg D))
  | _ => None
  end.

Lemma apply_created a s :
  created (apply a s) =
  match new_entry a s with
  | Some (l, e) => (log (st s l) ++ [e]) :: created s
  | None => created s
  end.
Proof. destruct a; reflexivity. Qed.

(* some created log holds PData x at index i with term t *)
Definition occ (x : N) (s : state) (i : nat) (t : N) : Prop :=
  exists K, In K (created s) /\ nth_error K i = Some (t, PData x).

Definition none_occ (x : N) (s : state) : Prop := forall i t, ~ occ x s i t.
Definition one_occ (x : N) (s : state) : Prop :=
  forall i t j t', occ x s i t -> occ x s j t' -> i = j /\ t = t'.

Section Client.
Variable V0 : list N.
Hypothesis V0_nodup : NoDup V0.

(* an entry of a node's log is an entry of a created log *)
Lemma log_occ x s n i t :
  inv V0 s -> nth_error (log (st s n)) i = Some (t, PData x) -> occ x s i t.
Proof.
  intros [_ X] H. exists (firstn (S i) (log (st s n))). split.
  - apply (n_wf s X n). split; [lia|].
    assert (Hn : nth_error (log (st s n)) i <> None) by congruence.
    apply nth_error_Some in Hn. lia.
  - rewrite nth_error_firstn. destruct (Nat.ltb_spec i (S i)); [exact H | lia].
Qed.

(* occurrences after an action: old ones, or the appended entry *)
Lemma occ_apply x a s i t :
  inv V0 s -> occ x (apply a s) i t ->
  occ x s i t \/
  exists l, new_entry a s = Some (l, (t, PData x)) /\ i = length (log (st s l)).
Proof.
  intros I [K [HK Hn]]. rewrite apply_created in HK.
  destruct (new_entry a s) as [[l e]|] eqn:E; [|left; exists K; split; assumption].
  destruct HK as [<-|HK]; [|left; exists K; split; assumption].
  destruct (Nat.lt_ge_cases i (length (log (st s l)))) as [Hi|Hi].
  - rewrite nth_error_app1 in Hn by exact Hi. left. exact (log_occ x s l i t I Hn).
  - right. exists l.
    assert (Hs : nth_error (log (st s l) ++ [e]) i <> None) by congruence.
    apply nth_error_Some in Hs. rewrite app_length in Hs. simpl in Hs.
    assert (i = length (log (st s l))) as -> by lia.
    rewrite nth_error_snoc in Hn. inversion Hn. subst e. split; reflexivity.
Qed.

Lemma new_entry_other x a s l t :
  is_client x a = false -> x <> 0 -> new_entry a s <> Some (l, (t, PData x)).
Proof.
  intros Hc Hx H. destruct a; simpl in *; try discriminate.
  - inversion H. congruence.
  - inversion H. subst. rewrite N.eqb_refl in Hc. discriminate.
Qed.

(* an action that is not a submission of x adds no occurrence *)
Lemma occ_other x a s i t :
  inv V0 s -> is_client x a = false -> x <> 0 -> occ x (apply a s) i t -> occ x s i t.
Proof.
  intros I Hc Hx Ho. destruct (occ_apply x a s i t I Ho) as [H|[l [H _]]]; [exact H|].
  exfalso. exact (new_entry_other x a s l t Hc Hx H).
Qed.

Lemma none_occ_other x a s :
  inv V0 s -> is_client x a = false -> x <> 0 -> none_occ x s -> none_occ x (apply a s).
Proof. intros I Hc Hx Z i t Ho. exact (Z i t (occ_other x a s i t I Hc Hx Ho)). Qed.

Lemma one_occ_other x a s :
  inv V0 s -> is_client x a = false -> x <> 0 -> one_occ x s -> one_occ x (apply a s).
Proof.
  intros I Hc Hx P i t j t' H1 H2.
  exact (P i t j t' (occ_other x a s i t I Hc Hx H1) (occ_other x a s j t' I Hc Hx H2)).
Qed.

(* the one submission: a single position *)
Lemma one_occ_client x a s :
  inv V0 s -> is_client x a = true -> none_occ x s -> one_occ x (apply a s).
Proof.
  intros I Hc Z i t j t' H1 H2.
  destruct (occ_apply x a s i t I H1) as [H|[l [E1 ->]]]; [destruct (Z i t H)|].
  destruct (occ_apply x a s j t' I H2) as [H|[l' [E2 ->]]]; [destruct (Z j t' H)|].
  rewrite E1 in E2. inversion E2. subst. split; reflexivity.
Qed.

Lemma step_reachable a s :
  Reachable V0 s -> guardb V0 true a s = true -> Reachable V0 (apply a s).
Proof. intros R G. exact (gsteps_reachable V0 true s _ R (guardb_sound V0 true a s G)). Qed.

Lemma run_none x acts : forall s0 s,
  Reachable V0 s0 -> none_occ x s0 -> run V0 true acts s0 = Some s -> x <> 0 ->
  client_count x acts = 0%nat -> none_occ x s.
Proof.
  induction acts as [|a r IH]; simpl; intros s0 s R Z H Hx Hc.
  - inversion H. subst. exact Z.
  - destruct (guardb V0 true a s0) eqn:G; [|discriminate].
    destruct (is_client x a) eqn:E; [simpl in Hc; lia|].
    apply (IH (apply a s0) s (step_reachable a s0 R G)); try assumption.
    apply none_occ_other; try assumption. exact (reachable_inv V0 V0_nodup s0 R).
Qed.

Lemma run_one x acts : forall s0 s,
  Reachable V0 s0 -> one_occ x s0 -> run V0 true acts s0 = Some s -> x <> 0 ->
  client_count x acts = 0%nat -> one_occ x s.
Proof.
  induction acts as [|a r IH]; simpl; intros s0 s R P H Hx Hc.
  - inversion H. subst. exact P.
  - destruct (guardb V0 true a s0) eqn:G; [|discriminate].
    destruct (is_client x a) eqn:E; [simpl in Hc; lia|].
    apply (IH (apply a s0) s (step_reachable a s0 R G)); try assumption.
    apply one_occ_other; try assumption. exact (reachable_inv V0 V0_nodup s0 R).
Qed.

Lemma run_at_most_one x acts : forall s0 s,
  Reachable V0 s0 -> none_occ x s0 -> run V0 true acts s0 = Some s -> x <> 0 ->
  (client_count x acts <= 1)%nat -> one_occ x s.
Proof.
  induction acts as [|a r IH]; simpl; intros s0 s R Z H Hx Hc.
  - inversion H. subst. intros i t j t' H1. destruct (Z i t H1).
  - destruct (guardb V0 true a s0) eqn:G; [|discriminate].
    pose proof (reachable_inv V0 V0_nodup s0 R) as I.
    pose proof (step_reachable a s0 R G) as R'.
    destruct (is_client x a) eqn:E.
    + apply (run_one x r (apply a s0) s R'); try assumption; [|simpl in Hc; lia].
      apply one_occ_client; assumption.
    + apply (IH (apply a s0) s R'); try assumption.
      apply none_occ_other; assumption.
Qed.

Lemma none_occ_init x : none_occ x init.
Proof. intros i t [K [H _]]. exact H. Qed.

Theorem client_entry_one_position acts s x :
  run V0 true acts init = Some s -> x <> 0 -> (client_count x acts <= 1)%nat ->
  forall n m i j t t',
    nth_error (log (st s n)) i = Some (t, PData x) ->
    nth_error (log (st s m)) j = Some (t', PData x) -> i = j /\ t = t'.
Proof.
  intros H Hx Hc n m i j t t' H1 H2.
  pose proof (run_sound V0 true acts init s (GR_init V0 true) H) as R.
  pose proof (reachable_inv V0 V0_nodup s R) as I.
  apply (run_at_most_one x acts init s (GR_init V0 true) (none_occ_init x) H Hx Hc).
  - exact (log_occ x s n i t I H1).
  - exact (log_occ x s m j t' I H2).
Qed.

Theorem client_entry_at_most_once acts s x :
  run V0 true acts init = Some s -> x <> 0 -> (client_count x acts <= 1)%nat ->
  forall n i j t t',
    nth_error (log (st s n)) i = Some (t, PData x) ->
    nth_error (log (st s n)) j = Some (t', PData x) -> i = j /\ t = t'.
Proof. intros H Hx Hc n. exact (client_entry_one_position acts s x H Hx Hc n n). Qed.

Theorem client_entry_never_submitted acts s x :
  run V0 true acts init = Some s -> x <> 0 -> client_count x acts = 0%nat ->
  forall n i t, nth_error (log (st s n)) i <> Some (t, PData x).
Proof.
  intros H Hx Hc n i t H1.
  pose proof (run_sound V0 true acts init s (GR_init V0 true) H) as R.
  pose proof (reachable_inv V0 V0_nodup s R) as I.
  exact (run_none x acts init s (GR_init V0 true) (none_occ_init x) H Hx Hc i t
           (log_occ x s n i t I H1)).
Qed.

End Client.
