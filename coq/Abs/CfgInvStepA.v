(* Abs/CfgInvStepA.v  Invariant preservation: init, send, ack, count, stepdown. *)
From Coq Require Import List NArith Arith Lia Bool.
From Verif Require Import Abs.Quorum Abs.RaftBase Abs.CfgQuorum Abs.CfgBase Abs.CfgRaft
  Abs.CfgInvDefs Abs.CfgInvFrame.
Import ListNotations.
Open Scope N_scope.

Section StepA.
Variable V0 : list N.

Lemma facts_init : facts V0 init.
Proof.
  constructor; simpl; try (intros; contradiction).
  - intros K H. contradiction.
  - intros K1 K2 H. contradiction.
Qed.

Lemma xinv_init : xinv init.
Proof.
  constructor; simpl; try (intros; contradiction); try (intros; discriminate).
  - intros n. apply wf_nil.
  - intros n. apply mono_nil.
  - intros n. lia.
  - intros n. left. reflexivity.
Qed.

Lemma inv_init : inv V0 init.
Proof. split; [exact facts_init | exact xinv_init]. Qed.

(* steps that change no ghost list at all *)
Lemma facts_same s s' :
  facts V0 s -> created s' = created s -> elected s' = elected s -> cmts s' = cmts s ->
  started s' = started s -> grants s' = grants s -> acks s' = acks s -> facts V0 s'.
Proof.
  intros F Hcr Hel Hcm Hst Hgr Hak.
  apply (facts_frame V0 s s' F Hcr Hel Hcm); rewrite ?Hst, ?Hgr, ?Hak; try apply incl_refl.
  - exact (f_st V0 s F).
  - exact (f_st_one V0 s F).
  - exact (f_one V0 s F).
  - intros t n L v _ _ Hev. apply (ev_mono s s' t v L); [rewrite Hel; apply incl_refl | | exact Hev].
    intros tc i K Ha _ HK _ _. rewrite Hak in Ha. rewrite Hcr in HK. split; assumption.
Qed.

Lemma ldr_log s l : xinv s -> role (st s l) = Leader ->
  In (log (st s l)) (created s) /\ lastTerm (log (st s l)) = cur (st s l) /\
  log (st s l) <> [].
Proof.
  intros X Hr. destruct (v_ldr s X l Hr) as [Lt [He [Hp Hs]]].
  assert (Hne : log (st s l) <> []).
  { intro E. rewrite E in Hp. apply prefix_nil_inv in Hp. destruct Lt; discriminate. }
  split; [apply wf_self; [apply (n_wf s X) | exact Hne]|]. split; [|exact Hne].
  apply N.le_antisymm; [apply (n_term s X)|].
  assert (Hn : nth_error (log (st s l)) (length Lt) = Some (noop (cur (st s l)))).
  { rewrite <- (prefix_nth _ _ (length Lt) Hp) by (rewrite app_length; simpl; lia).
    apply nth_error_snoc. }
  apply (mono_last _ _ _ (n_mono s X l) Hn).
Qed.

Lemma inv_send s l pi k c :
  inv V0 s -> role (st s l) = Leader -> (pi <= length (log (st s l)))%nat ->
  (c <= commit (st s l))%nat -> inv V0 (do_send l pi k c s).
Proof.
  intros [F X] Hr Hpi Hc. split; [apply (facts_same s); auto|].
  destruct (v_ldr s X l Hr) as [Lt [He [Hp Hs]]].
  destruct (ldr_log s l X Hr) as [HK [HlT Hne]].
  constructor; simpl; try xfield X.
  - intros m [<-|Hm]; [simpl; exists Lt; exact He | exact (v_msg s X m Hm)].
  - intros m [<-|Hm]; [simpl | exact (m_ok s X m Hm)].
    exists (log (st s l)). repeat split; try assumption. apply firstn_skipn_prefix.
  - intros m [<-|Hm]; [simpl | exact (m_c s X m Hm)].
    destruct (k_nc s X l) as [H0|[t [k' [M [H1 [H2 [H3 H4]]]]]]]; [left; lia|].
    right. exists t, k', M, (log (st s l)). repeat split; try assumption; try lia.
    + pose proof (k_len s X l). lia.
    + assert (Hf : forall Y : list entry, firstn c Y = firstn c (firstn (commit (st s l)) Y)).
      { intro Y. rewrite firstn_firstn. f_equal. lia. }
      rewrite (Hf (log (st s l))), (Hf M), H4. reflexivity.
Qed.

Lemma inv_ack s l v i :
  inv V0 s -> role (st s l) = Leader -> In (cur (st s l), v, i) (acks s) ->
  inv V0 (do_ack l v i s).
Proof.
  intros [F X] Hr Hin. split; [apply (facts_same s); auto|].
  constructor; simpl; try xfield X; intros; updall; try (xauto X).
  simpl in *. destruct H0 as [H0|H0]; [inversion H0; subst; exact Hin | xauto X].
Qed.

Lemma inv_count s c v :
  inv V0 s -> role (st s c) = Candidate -> In (cur (st s c), v, c) (grants s) ->
  inv V0 (do_count c v s).
Proof.
  intros [F X] Hr Hin. split; [apply (facts_same s); auto|].
  constructor; simpl; try xfield X; intros; updall; try (xauto X).
  simpl in *. match goal with H : _ \/ _ |- _ => destruct H as [<-|H] end; [exact Hin | xauto X].
Qed.

Lemma el_le s t n L : facts V0 s -> xinv s -> In (t, n, L) (elected s) -> t <= cur (st s n).
Proof.
  intros F X H. destruct (f_elwon V0 s F t n L H) as [Hst _]. exact (v_st_le s X t n L Hst).
Qed.

Lemma inv_stepdown s n t :
  inv V0 s -> cur (st s n) < t -> inv V0 (do_stepdown n t s).
Proof.
  intros [F X] Hlt. split; [apply (facts_same s); auto|].
  constructor; simpl; try xfield X; intros; updall; try (xauto X);
    simpl in *; try discriminate; try congruence; xfacts X; try lia.
  - pose proof (n_term s X n). lia.
  - match goal with H : In (_, n, _) (acks s) |- _ => destruct (a_ok s X _ _ _ H) as [_ HK] end.
    split; [lia | exact HK].
  - match goal with H : In (_, n, _) (acks s) |- _ => eapply (s_ack s X _ _ _ _ H); try eassumption end.
    intros u' n' L' He Hlo Hhi.
    match goal with H : forall u' n' L', In _ (elected s) -> _ |- _ => eapply H; try eassumption end. lia.
  - destruct (k_nc s X n) as [H0|[t0 [k [M [H1 [H2 H3]]]]]]; [left; exact H0|].
    right. exists t0, k, M. split; [exact H1|]. split; [lia | exact H3].
Qed.

End StepA.
