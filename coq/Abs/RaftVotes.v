(* Abs/RaftVotes.v  Vote layer of the model of Abs/Raft.v: the inductive
   invariant [vinv] (adapted from Abs/Votes.v to the richer state and step
   relation) and election safety, including uniqueness of the log recorded at
   the election. *)
From Coq Require Import List NArith Arith Lia Bool.
From Verif Require Import Abs.Quorum Abs.RaftBase Abs.Raft.
Import ListNotations.
Open Scope N_scope.

(* case split on a looked-up node against the updated one *)
Ltac upd_case m n :=
  let Hne := fresh "Hne" in
  destruct (N.eq_dec m n) as [->|Hne];
  [ rewrite ?upd_eq in * | rewrite ?(upd_neq _ _ _ _ Hne) in * ].

Ltac unfold_do :=
  unfold do_start, do_grant, do_bump, do_follow, do_count, do_win, do_client_append,
         do_send_append, do_recv_ok, do_recv_ack, do_advance, do_crash, do_lose_grant,
         do_net_appends, do_drop_ack, do_flush, do_install, do_trunc in *.

Section RaftVotes.
Variable V : list N.

Record vinv (s : state) : Prop := mkV {
  va : forall t v c, In (t, v, c) (votes s) ->
         c <> 0 /\ t <= cur (st s v) /\ (t = cur (st s v) -> vote (st s v) = c);
  vb : forall t v c1 c2, In (t, v, c1) (votes s) -> In (t, v, c2) (votes s) -> c1 = c2;
  vc : forall g, In g (grants s) -> In g (votes s);
  vd : forall n, role (st s n) <> Follower ->
         NoDup (got (st s n)) /\ incl (got (st s n)) V /\
         forall v, In v (got (st s n)) -> In (cur (st s n), v, n) (votes s);
  ve : forall t n L, In (t, n, L) (elected s) ->
         exists Q, majority V Q /\ forall v, In v Q -> In (t, v, n) (votes s);
  vf : forall n, role (st s n) = Leader -> exists L, In (cur (st s n), n, L) (elected s);
  vg : forall t n L, In (t, n, L) (elected s) ->
         t < cur (st s n) \/ (t = cur (st s n) /\ role (st s n) <> Candidate);
  vh : forall n, 1 <= cur (st s n);
  vi : forall t c L, In (t, c, L) (started s) -> t <= cur (st s c) /\ 1 < t;
  vi2 : forall t c L1 L2, In (t, c, L1) (started s) -> In (t, c, L2) (started s) -> L1 = L2;
  vj : forall c, role (st s c) = Candidate -> In (cur (st s c), c, log (st s c)) (started s);
  vk : forall t n L, In (t, n, L) (elected s) -> In (t, n, L) (started s);
  vl : forall t v c, In (t, v, c) (votes s) -> exists L, In (t, c, L) (started s)
}.

Lemma vinv_init : vinv init.
Proof.
  constructor; simpl.
  - intros t v c [].
  - intros t v c1 c2 [].
  - intros g [].
  - intros n H. exfalso. apply H. reflexivity.
  - intros t n L [].
  - intros n H. discriminate H.
  - intros t n L [].
  - intros n. lia.
  - intros t c L [].
  - intros t c L1 L2 [].
  - intros c H. discriminate H.
  - intros t n L [].
  - intros t v c [].
Qed.

(* steps that leave (cur, vote, role, got) of every node and the vote ghosts alone *)
Lemma vinv_frame s s' :
  vinv s ->
  (forall n, cur (st s' n) = cur (st s n) /\ vote (st s' n) = vote (st s n) /\
             role (st s' n) = role (st s n) /\ got (st s' n) = got (st s n)) ->
  (forall n, role (st s n) = Candidate -> log (st s' n) = log (st s n)) ->
  incl (grants s') (grants s) -> votes s' = votes s -> started s' = started s ->
  elected s' = elected s -> vinv s'.
Proof.
  intros [Ha Hb Hc Hd He Hf Hg Hh Hi Hi2 Hj Hk Hl] Hn Hlog Hgr Hvo Hsta Hel.
  constructor; rewrite ?Hvo, ?Hsta, ?Hel.
  - intros t v c Hin. destruct (Hn v) as (E1 & E2 & E3 & E4). rewrite E1, E2. exact (Ha _ _ _ Hin).
  - exact Hb.
  - intros g Hin. apply Hc. apply Hgr. exact Hin.
  - intros n. destruct (Hn n) as (E1 & E2 & E3 & E4). rewrite E1, E3, E4. apply Hd.
  - exact He.
  - intros n. destruct (Hn n) as (E1 & E2 & E3 & E4). rewrite E1, E3. apply Hf.
  - intros t n L Hin. destruct (Hn n) as (E1 & E2 & E3 & E4). rewrite E1, E3. exact (Hg _ _ _ Hin).
  - intros n. destruct (Hn n) as (E1 & _). rewrite E1. apply Hh.
  - intros t c L Hin. destruct (Hn c) as (E1 & _). rewrite E1. exact (Hi _ _ _ Hin).
  - exact Hi2.
  - intros c. destruct (Hn c) as (E1 & E2 & E3 & E4). rewrite E1, E3. intros Hr.
    rewrite (Hlog _ Hr). exact (Hj _ Hr).
  - exact Hk.
  - exact Hl.
Qed.

(* node n moves to Follower with a term that does not decrease (vote kept if the
   term is kept); nothing else changes in the vote layer *)
Lemma vinv_demote s s' n :
  vinv s ->
  (forall m, m <> n -> st s' m = st s m) ->
  cur (st s n) <= cur (st s' n) ->
  (cur (st s' n) = cur (st s n) -> vote (st s' n) = vote (st s n)) ->
  role (st s' n) = Follower ->
  incl (grants s') (grants s) -> votes s' = votes s -> started s' = started s ->
  elected s' = elected s -> vinv s'.
Proof.
  intros [Ha Hb Hc Hd He Hf Hg Hh Hi Hi2 Hj Hk Hl] Hoth Hcur Hvote Hrole Hgr Hvo Hsta Hel.
  constructor; rewrite ?Hvo, ?Hsta, ?Hel.
  - intros t v c Hin. destruct (Ha _ _ _ Hin) as (H1 & H2 & H3).
    destruct (N.eq_dec v n) as [->|Hne]; [|rewrite (Hoth _ Hne); auto].
    split; [exact H1|]. split; [lia|]. intros Ht.
    assert (E : cur (st s' n) = cur (st s n)) by lia.
    rewrite (Hvote E). apply H3. lia.
  - exact Hb.
  - intros g Hin. apply Hc. apply Hgr. exact Hin.
  - intros m. destruct (N.eq_dec m n) as [->|Hne]; [|rewrite (Hoth _ Hne); apply Hd].
    rewrite Hrole. intros H. exfalso. apply H. reflexivity.
  - exact He.
  - intros m. destruct (N.eq_dec m n) as [->|Hne]; [|rewrite (Hoth _ Hne); apply Hf].
    rewrite Hrole. intro H. discriminate H.
  - intros t m L Hin. pose proof (Hg _ _ _ Hin) as H.
    destruct (N.eq_dec m n) as [->|Hne]; [|rewrite (Hoth _ Hne); exact H].
    rewrite Hrole. destruct H as [H|[H _]].
    + left. lia.
    + destruct (N.eq_dec (cur (st s' n)) (cur (st s n))) as [E|E].
      * right. split; [lia | discriminate].
      * left. lia.
  - intros m. destruct (N.eq_dec m n) as [->|Hne]; [|rewrite (Hoth _ Hne); apply Hh].
    pose proof (Hh n). lia.
  - intros t c L Hin. destruct (Hi _ _ _ Hin) as [H1 H2].
    destruct (N.eq_dec c n) as [->|Hne]; [|rewrite (Hoth _ Hne); auto].
    split; lia.
  - exact Hi2.
  - intros c. destruct (N.eq_dec c n) as [->|Hne]; [|rewrite (Hoth _ Hne); apply Hj].
    rewrite Hrole. intro H. discriminate H.
  - exact Hk.
  - exact Hl.
Qed.

Lemma vinv_start s n :
  vinv s -> n <> 0 -> role (st s n) <> Leader -> vinv (do_start n s).
Proof.
  intros [Ha Hb Hc Hd He Hf Hg Hh Hi Hi2 Hj Hk Hl] Hn0 Hrole.
  assert (Hfresh : forall c, ~ In (cur (st s n) + 1, n, c) (votes s)).
  { intros c Hin. destruct (Ha _ _ _ Hin) as [_ [Hle _]]. lia. }
  assert (Hfresh2 : forall L, ~ In (cur (st s n) + 1, n, L) (started s)).
  { intros L Hin. destruct (Hi _ _ _ Hin) as [Hle _]. lia. }
  constructor; unfold do_start; simpl.
  - intros t v c [Heq|Hin].
    + inversion Heq; subst. rewrite upd_eq. simpl. repeat split; auto. lia.
    + destruct (Ha _ _ _ Hin) as [H1 [H2 H3]].
      upd_case v n; simpl.
      * repeat split; auto; try lia.
      * auto.
  - intros t v c1 c2 [Heq1|Hin1] [Heq2|Hin2].
    + congruence.
    + inversion Heq1; subst. exfalso. exact (Hfresh _ Hin2).
    + inversion Heq2; subst. exfalso. exact (Hfresh _ Hin1).
    + exact (Hb _ _ _ _ Hin1 Hin2).
  - intros g [Heq|Hin]; [left; exact Heq | right; exact (Hc _ Hin)].
  - intros m. upd_case m n; simpl.
    + intros _. split; [constructor|]. split; [apply incl_nil_l|]. intros v [].
    + intros Hr. destruct (Hd _ Hr) as [H1 [H2 H3]]. repeat split; auto.
  - intros t m L Hin. destruct (He _ _ _ Hin) as [Q [HQ HQv]].
    exists Q. split; [exact HQ|]. intros v Hv. right. exact (HQv _ Hv).
  - intros m. upd_case m n; simpl.
    + intro H; discriminate H.
    + apply Hf.
  - intros t m L Hin. pose proof (Hg _ _ _ Hin) as H. upd_case m n; simpl; [|exact H].
    left. lia.
  - intros m. upd_case m n; simpl; [|apply Hh]. pose proof (Hh n). lia.
  - intros t c L [Heq|Hin].
    + inversion Heq; subst. rewrite upd_eq. simpl. pose proof (Hh c). lia.
    + destruct (Hi _ _ _ Hin) as [H1 H2]. upd_case c n; simpl; [lia | auto].
  - intros t c L1 L2 [Heq1|Hin1] [Heq2|Hin2].
    + congruence.
    + inversion Heq1; subst. exfalso. exact (Hfresh2 _ Hin2).
    + inversion Heq2; subst. exfalso. exact (Hfresh2 _ Hin1).
    + exact (Hi2 _ _ _ _ Hin1 Hin2).
  - intros c. upd_case c n; simpl.
    + intros _. left. reflexivity.
    + intros Hr. right. exact (Hj _ Hr).
  - intros t m L Hin. right. exact (Hk _ _ _ Hin).
  - intros t v c [Heq|Hin].
    + inversion Heq; subst. eexists. left. reflexivity.
    + destruct (Hl _ _ _ Hin) as [L HL]. exists L. right. exact HL.
Qed.

Lemma vinv_grant s v t c L :
  vinv s -> c <> 0 -> In (t, c, L) (started s) ->
  (cur (st s v) < t \/ (t = cur (st s v) /\ (vote (st s v) = 0 \/ vote (st s v) = c))) ->
  vinv (do_grant v t c s).
Proof.
  intros [Ha Hb Hc Hd He Hf Hg Hh Hi Hi2 Hj Hk Hl] Hc0 Hsta Hguard.
  assert (Hsame : forall c', In (t, v, c') (votes s) -> c' = c).
  { intros c' Hin. destruct (Ha _ _ _ Hin) as [H1 [H2 H3]].
    destruct Hguard as [Hlt|[Heq [Hv|Hv]]].
    - lia.
    - exfalso. apply H1. rewrite <- (H3 Heq). exact Hv.
    - rewrite <- (H3 Heq). exact Hv. }
  assert (Hle : cur (st s v) <= t) by (destruct Hguard as [Hlt|[Heq _]]; lia).
  constructor; unfold do_grant; simpl.
  - intros t0 v0 c0 [Heq|Hin].
    + inversion Heq; subst. rewrite upd_eq. simpl. repeat split; auto. lia.
    + destruct (Ha _ _ _ Hin) as [H1 [H2 H3]].
      upd_case v0 v; simpl.
      * split; [exact H1|]. split; [lia|]. intros Ht. subst t0.
        symmetry. apply Hsame. exact Hin.
      * auto.
  - intros t0 v0 c1 c2 [Heq1|Hin1] [Heq2|Hin2].
    + congruence.
    + inversion Heq1; subst. symmetry. apply Hsame. exact Hin2.
    + inversion Heq2; subst. apply Hsame. exact Hin1.
    + exact (Hb _ _ _ _ Hin1 Hin2).
  - intros g [Heq|Hin]; [left; exact Heq | right; exact (Hc _ Hin)].
  - intros m. upd_case m v; simpl.
    + destruct (N.ltb_spec (cur (st s v)) t) as [Hlt|Hge].
      * intros H. exfalso. apply H. reflexivity.
      * intros Hr. assert (t = cur (st s v)) as -> by lia.
        destruct (Hd _ Hr) as [H1 [H2 H3]]. repeat split; auto.
    + intros Hr. destruct (Hd _ Hr) as [H1 [H2 H3]]. repeat split; auto.
  - intros t0 m L0 Hin. destruct (He _ _ _ Hin) as [Q [HQ HQv]].
    exists Q. split; [exact HQ|]. intros v0 Hv. right. exact (HQv _ Hv).
  - intros m. upd_case m v; simpl.
    + destruct (N.ltb_spec (cur (st s v)) t) as [Hlt|Hge].
      * intro H; discriminate H.
      * intros Hr. assert (t = cur (st s v)) as -> by lia. exact (Hf _ Hr).
    + apply Hf.
  - intros t0 m L0 Hin. pose proof (Hg _ _ _ Hin) as H. upd_case m v; simpl; [|exact H].
    destruct (N.ltb_spec (cur (st s v)) t) as [Hlt|Hge].
    + left. lia.
    + assert (t = cur (st s v)) as -> by lia. exact H.
  - intros m. upd_case m v; simpl; [|apply Hh]. pose proof (Hh v). lia.
  - intros t0 c0 L0 Hin. destruct (Hi _ _ _ Hin) as [H1 H2].
    upd_case c0 v; simpl; [lia | auto].
  - exact Hi2.
  - intros c0. upd_case c0 v; simpl; [|apply Hj].
    destruct (N.ltb_spec (cur (st s v)) t) as [Hlt|Hge].
    + intro H; discriminate H.
    + assert (t = cur (st s v)) as -> by lia. apply Hj.
  - exact Hk.
  - intros t0 v0 c0 [Heq|Hin].
    + inversion Heq; subst. exists L. exact Hsta.
    + exact (Hl _ _ _ Hin).
Qed.

Lemma vinv_count s c v :
  vinv s -> role (st s c) = Candidate -> In v V ->
  In (cur (st s c), v, c) (grants s) -> ~ In v (got (st s c)) ->
  vinv (do_count c v s).
Proof.
  intros [Ha Hb Hc Hd He Hf Hg Hh Hi Hi2 Hj Hk Hl] Hrole HvV Hin Hnew.
  constructor; unfold do_count; simpl; auto.
  - intros t v0 c0 Hin0. destruct (Ha _ _ _ Hin0) as [H1 [H2 H3]].
    upd_case v0 c; simpl; auto.
  - intros g Hg0. apply Hc. exact (remove1_incl _ _ _ _ Hg0).
  - intros m. upd_case m c; simpl.
    + intros _.
      assert (Hr : role (st s c) <> Follower) by (rewrite Hrole; discriminate).
      destruct (Hd _ Hr) as [H1 [H2 H3]].
      split; [constructor; assumption|].
      split; [apply incl_cons; assumption|].
      intros v0 [Heq|Hv0]; [subst v0; apply Hc; exact Hin | exact (H3 _ Hv0)].
    + apply Hd.
  - intros m. upd_case m c; simpl.
    + intro H; discriminate H.
    + apply Hf.
  - intros t m L Hin0. pose proof (Hg _ _ _ Hin0) as H. upd_case m c; simpl; [|exact H].
    destruct H as [H|[H1 H2]]; [left; exact H|]. exfalso. apply H2. exact Hrole.
  - intros m. upd_case m c; simpl; apply Hh.
  - intros t c0 L Hin0. destruct (Hi _ _ _ Hin0) as [H1 H2]. upd_case c0 c; simpl; auto.
  - intros c0. upd_case c0 c; simpl; [|apply Hj]. intros _. exact (Hj _ Hrole).
Qed.

(* nobody was elected yet in the term of a candidate that has a majority *)
Lemma win_fresh s c :
  vinv s -> role (st s c) = Candidate -> (2 * length (got (st s c)) > length V)%nat ->
  forall n L, ~ In (cur (st s c), n, L) (elected s).
Proof.
  intros Hv Hrole Hmaj n L Hin.
  assert (Hr : role (st s c) <> Follower) by (rewrite Hrole; discriminate).
  destruct (vd _ Hv _ Hr) as [Hd1 [Hd2 Hd3]].
  destruct (ve _ Hv _ _ _ Hin) as [Q [HQ HQv]].
  assert (HQ' : majority V (got (st s c))) by (repeat split; assumption).
  destruct (two_majorities_meet V _ _ HQ HQ') as [v [Hv1 Hv2]].
  assert (n = c) as -> by exact (vb _ Hv _ _ _ _ (HQv _ Hv1) (Hd3 _ Hv2)).
  destruct (vg _ Hv _ _ _ Hin) as [H|[_ H]]; [lia | exact (H Hrole)].
Qed.

Lemma vinv_win s c :
  vinv s -> role (st s c) = Candidate ->
  (2 * length (got (st s c)) > length V)%nat -> vinv (do_win c s).
Proof.
  intros Hv Hrole Hmaj. pose proof Hv as [Ha Hb Hc Hd He Hf Hg Hh Hi Hi2 Hj Hk Hl].
  assert (Hr : role (st s c) <> Follower) by (rewrite Hrole; discriminate).
  destruct (Hd _ Hr) as [Hd1 [Hd2 Hd3]].
  constructor; unfold do_win; simpl; auto.
  - intros t v c0 Hin0. destruct (Ha _ _ _ Hin0) as [H1 [H2 H3]].
    upd_case v c; simpl; auto.
  - intros m. upd_case m c; simpl.
    + intros _. repeat split; auto.
    + apply Hd.
  - intros t m L [Heq|Hin].
    + inversion Heq; subst. exists (got (st s m)). split; [|exact Hd3].
      repeat split; assumption.
    + exact (He _ _ _ Hin).
  - intros m. upd_case m c; simpl.
    + intros _. eexists. left. reflexivity.
    + intros Hm. destruct (Hf _ Hm) as [L HL]. exists L. right. exact HL.
  - intros t m L [Heq|Hin].
    + inversion Heq; subst. rewrite upd_eq. simpl. right. split; [reflexivity | discriminate].
    + pose proof (Hg _ _ _ Hin) as H. upd_case m c; simpl; [|exact H].
      destruct H as [H|[H1 H2]]; [left; exact H|]. exfalso. apply H2. exact Hrole.
  - intros m. upd_case m c; simpl; apply Hh.
  - intros t c0 L Hin0. destruct (Hi _ _ _ Hin0) as [H1 H2]. upd_case c0 c; simpl; auto.
  - intros c0. upd_case c0 c; simpl; [|apply Hj]. intro H; discriminate H.
  - intros t m L [Heq|Hin].
    + inversion Heq; subst. exact (Hj _ Hrole).
    + exact (Hk _ _ _ Hin).
Qed.

Lemma vinv_install s f t l K K2 c :
  vinv s -> cur (st s f) <= t -> vinv (do_install f t l K K2 c s).
Proof.
  intros Hv Hterm.
  apply (vinv_demote s _ f Hv); unfold do_install; simpl;
    try reflexivity; try apply incl_refl.
  - intros m0 Hne. apply upd_neq. exact Hne.
  - rewrite upd_eq. simpl. exact Hterm.
  - rewrite upd_eq. simpl. intros E.
    destruct (N.ltb_spec (cur (st s f)) t) as [Hlt|_]; [lia | reflexivity].
  - rewrite upd_eq. reflexivity.
Qed.

Lemma vinv_step s s' : vinv s -> step V s s' -> vinv s'.
Proof.
  intros Hv Hstep. destruct Hstep.
  - apply vinv_start; assumption.
  - eapply vinv_grant; eassumption.
  - (* bump *)
    apply (vinv_demote s _ n Hv); unfold do_bump; simpl;
      try reflexivity; try apply incl_refl.
    + intros m Hne. apply upd_neq. exact Hne.
    + rewrite upd_eq. simpl. lia.
    + rewrite upd_eq. simpl. lia.
    + rewrite upd_eq. reflexivity.
  - (* step down *)
    apply (vinv_demote s _ n Hv); unfold do_follow; simpl;
      try reflexivity; try apply incl_refl.
    + intros m Hne. apply upd_neq. exact Hne.
    + rewrite upd_eq. simpl. lia.
    + rewrite upd_eq. reflexivity.
    + rewrite upd_eq. reflexivity.
  - apply vinv_count; assumption.
  - apply vinv_win; assumption.
  - (* client append *)
    apply (vinv_frame s _ Hv); unfold do_client_append; simpl;
      try reflexivity; try apply incl_refl.
    + intros n. upd_case n l; simpl; auto.
    + intros n Hr. upd_case n l; simpl; [|reflexivity]. congruence.
  - (* send *)
    apply (vinv_frame s _ Hv); unfold do_send_append; simpl;
      try reflexivity; try apply incl_refl; auto.
  - (* recv append *)
    apply (vinv_demote s _ f Hv); unfold do_recv_ok; simpl;
      try reflexivity; try apply incl_refl.
    + intros m0 Hne. apply upd_neq. exact Hne.
    + rewrite upd_eq. simpl. assumption.
    + rewrite upd_eq. simpl. intros E.
      destruct (N.ltb_spec (cur (st s f)) (rterm m)) as [Hlt|_]; [lia | reflexivity].
    + rewrite upd_eq. reflexivity.
  - (* recv ack *)
    apply (vinv_frame s _ Hv); unfold do_recv_ack; simpl;
      try reflexivity; try apply incl_refl.
    + intros n. upd_case n l; simpl; auto.
    + intros n Hr. upd_case n l; simpl; reflexivity.
  - (* advance *)
    apply (vinv_frame s _ Hv); unfold do_advance; simpl;
      try reflexivity; try apply incl_refl.
    + intros n. upd_case n l; simpl; auto.
    + intros n Hr. upd_case n l; simpl; reflexivity.
  - (* crash *)
    apply (vinv_demote s _ n Hv); unfold do_crash; simpl;
      try reflexivity; try apply incl_refl.
    + intros m Hne. apply upd_neq. exact Hne.
    + rewrite upd_eq. simpl. lia.
    + rewrite upd_eq. reflexivity.
    + rewrite upd_eq. reflexivity.
  - (* lose grant *)
    apply (vinv_frame s _ Hv); unfold do_lose_grant; simpl;
      try reflexivity; auto.
    intros x Hx. exact (remove1_incl _ _ _ _ Hx).
  - apply (vinv_frame s _ Hv); unfold do_net_appends; simpl;
      try reflexivity; try apply incl_refl; auto.
  - apply (vinv_frame s _ Hv); unfold do_drop_ack; simpl;
      try reflexivity; try apply incl_refl; auto.
  - (* flush *)
    apply (vinv_frame s _ Hv); unfold do_flush; simpl;
      try reflexivity; try apply incl_refl.
    + intros n0. upd_case n0 n; simpl; auto.
    + intros n0 Hr. upd_case n0 n; simpl; reflexivity.
  - (* install *)
    apply vinv_install; assumption.
  - (* truncated request *)
    apply (vinv_frame s _ Hv); unfold do_trunc; simpl;
      try reflexivity; try apply incl_refl; auto.
Qed.

Lemma reachable_vinv s : Reachable V s -> vinv s.
Proof.
  intros Hr. induction Hr as [|s s' _ IH Hstep].
  - exact vinv_init.
  - exact (vinv_step _ _ IH Hstep).
Qed.

(* ---- consequences ---- *)

Lemma elected_unique s t n1 L1 n2 L2 :
  vinv s -> In (t, n1, L1) (elected s) -> In (t, n2, L2) (elected s) -> n1 = n2 /\ L1 = L2.
Proof.
  intros Hv H1 H2.
  destruct (ve _ Hv _ _ _ H1) as [Q1 [HQ1 Hv1]].
  destruct (ve _ Hv _ _ _ H2) as [Q2 [HQ2 Hv2]].
  destruct (two_majorities_meet V Q1 Q2 HQ1 HQ2) as [v [Hin1 Hin2]].
  assert (n1 = n2) as -> by exact (vb _ Hv _ _ _ _ (Hv1 _ Hin1) (Hv2 _ Hin2)).
  split; [reflexivity|].
  exact (vi2 _ Hv _ _ _ _ (vk _ Hv _ _ _ H1) (vk _ Hv _ _ _ H2)).
Qed.

(* the voters of an election have all reached its term *)
Lemma elected_quorum_cur s t n L :
  vinv s -> In (t, n, L) (elected s) ->
  exists Q, majority V Q /\ forall v, In v Q -> In (t, v, n) (votes s) /\ t <= cur (st s v).
Proof.
  intros Hv Hin. destruct (ve _ Hv _ _ _ Hin) as [Q [HQ HQv]].
  exists Q. split; [exact HQ|]. intros v Hvq. split; [exact (HQv _ Hvq)|].
  destruct (va _ Hv _ _ _ (HQv _ Hvq)) as [_ [H _]]. exact H.
Qed.

Lemma elected_term_pos s t n L : vinv s -> In (t, n, L) (elected s) -> 1 < t.
Proof. intros Hv Hin. exact (proj2 (vi _ Hv _ _ _ (vk _ Hv _ _ _ Hin))). Qed.

End RaftVotes.
