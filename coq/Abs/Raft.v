(* Abs/Raft.v  RaftAbs with logs: the relational model.

   Vote layer as in Abs/Votes.v (plus the "candidate's log is at least as up to
   date" guard of Grant), and on top of it: logs, durable prefix [flushed],
   commit index, AppendEntries requests/acknowledgements, leader commit,
   flushing, snapshot installation, crash/restart losing the unflushed tail.

   Node ids are N (0 = none), V is the static voter list, an entry is
   (term, payload), a log is a list of entries, index = position from 1.
   The log of a node is its LOGICAL log: log compaction (dropping a prefix that a
   snapshot covers) is invisible here; a snapshot that a node installs is the
   prefix of the leader's logical log it stands for (step SInstall).

   In flight:
     grants   vote-granted replies            (consumed at most once, may be lost)
     appends  AppendEntries requests          (NOT consumed by delivery: may be delivered
                                               any number of times, to any node but the
                                               sender, arbitrarily late; SNet replaces the
                                               pool by any list drawn from it: loss,
                                               duplication, reordering; requests may also
                                               be TRUNCATED by the network: STrunc adds to
                                               the pool a copy of a request of the pool
                                               that carries any prefix of its entries, so
                                               any prefix of the entries of a request in
                                               the pool may be delivered: a follower that
                                               consumed k whole entries before the
                                               connection broke handled them exactly as a
                                               request carrying only them)
     acks     successful AppendEntries / InstallSnapshot replies
                                              (consumed at most once, may be lost)
   Vote requests are the ghost [started]: a request (t, c, log of c when it
   started the election of t) stays deliverable for ever.  A request may announce
   any commit index up to the leader's (replication threads work on a lagging copy).

   Ghost histories (never read by a guard, except [started] as the pool of vote
   requests, and [created]/[acked]/[elected] in the guard of SInstall, which says
   "the snapshot is a committed prefix of its leader's log"): votes, elected
   (term, node, log at election), created (every log value a leader had right
   after appending an entry), acked (t, v, i): "v answered success to the leader of
   t for the prefix up to i", committed (t, i, e): "index i with entry e was marked
   committed in term t" (by the leader of t, by a follower processing a request of
   term t, or by installing a snapshot).

   Every step is guard + state transformer do_xxx, so concrete runs evaluate. *)
From Coq Require Import List NArith Arith Lia Bool.
From Verif Require Import Abs.Quorum Abs.RaftBase.
Import ListNotations.
Open Scope N_scope.

Inductive Role := Follower | Candidate | Leader.

Record nstate := mkN {
  cur      : N;             (* current term, persisted *)
  vote     : N;             (* voted-for in cur, 0 = none, persisted *)
  role     : Role;
  got      : list N;        (* voters counted in this election *)
  log      : list entry;
  flushed  : nat;           (* length of the durable prefix of log *)
  commit   : nat;           (* commit index, volatile *)
  matchIdx : list (N * nat) (* leader: acknowledgements received (follower, index) *)
}.

Definition vrec := (N * N * N)%type.   (* (term, voter, candidate) *)

Record areq := mkReq {
  rterm : N; rldr : N; rprevIdx : nat; rprevTerm : N; rents : list entry; rcommit : nat
}.

Record aack := mkAck { aterm : N; afrom : N; ato : N; amatch : nat }.

Record state := mkS {
  st        : N -> nstate;
  grants    : list vrec;
  appends   : list areq;
  acks      : list aack;
  votes     : list vrec;                      (* ghost *)
  started   : list (N * N * list entry);      (* ghost / vote requests *)
  elected   : list (N * N * list entry);      (* ghost *)
  created   : list (list entry);              (* ghost *)
  acked     : list (N * N * nat);             (* ghost *)
  committed : list (N * nat * entry)          (* ghost *)
}.

(* ---- function update, without functional extensionality ---- *)

Definition upd (f : N -> nstate) (n : N) (x : nstate) : N -> nstate :=
  fun m => if N.eqb m n then x else f m.

Lemma upd_eq f n x : upd f n x n = x.
Proof. unfold upd. rewrite N.eqb_refl. reflexivity. Qed.

Lemma upd_neq f n x m : m <> n -> upd f n x m = f m.
Proof.
  intro Hne. unfold upd. destruct (N.eqb_spec m n) as [Heq|_]; [contradiction|reflexivity].
Qed.

(* ---- removing one occurrence of an in-flight reply ---- *)

Section Remove1.
Context {A : Type} (eqb : A -> A -> bool).
Fixpoint remove1 (g : A) (l : list A) : list A :=
  match l with
  | [] => []
  | x :: r => if eqb g x then r else x :: remove1 g r
  end.
Lemma remove1_incl g l x : In x (remove1 g l) -> In x l.
Proof.
  induction l as [|y r IH]; simpl; [tauto|].
  destruct (eqb g y); simpl; [tauto|]. intros [H|H]; [left; exact H | right; exact (IH H)].
Qed.
End Remove1.

Definition veqb (a b : vrec) : bool :=
  (fst (fst a) =? fst (fst b)) && (snd (fst a) =? snd (fst b)) && (snd a =? snd b).

Definition aeqb (a b : aack) : bool :=
  (aterm a =? aterm b) && (afrom a =? afrom b) && (ato a =? ato b) && Nat.eqb (amatch a) (amatch b).

(* ---- the decision functions of the handlers ---- *)

(* candidate log Lc is at least as up to date as voter log Lv *)
Definition uptodate (Lc Lv : list entry) : Prop :=
  lastTerm Lv < lastTerm Lc \/ (lastTerm Lc = lastTerm Lv /\ (length Lv <= length Lc)%nat).

(* the follower has an entry at prevIdx with term prevTerm (or prevIdx = 0) *)
Definition prev_ok (lg : list entry) (pi : nat) (pt : N) : bool :=
  Nat.eqb pi 0 || (Nat.leb pi (length lg) && (term_at lg pi =? pt)).

(* leader: some acknowledgement of v reaches index k *)
Definition match_ge (m : list (N * nat)) (v : N) (k : nat) : Prop :=
  exists j, In (v, j) m /\ (k <= j)%nat.

(* ---- initial state and state transformers ---- *)

Definition init : state :=
  mkS (fun _ => mkN 1 0 Follower [] [] 0 0 []) [] [] [] [] [] [] [] [] [].

(* election timeout: new term, self-vote queued like any granted reply; the vote
   request (term, candidate, candidate's log) becomes deliverable *)
Definition do_start (n : N) (s : state) : state :=
  let x := st s n in
  mkS (upd (st s) n (mkN (cur x + 1) n Candidate [] (log x) (flushed x) (commit x) (matchIdx x)))
      ((cur x + 1, n, n) :: grants s) (appends s) (acks s)
      ((cur x + 1, n, n) :: votes s)
      ((cur x + 1, n, log x) :: started s)
      (elected s) (created s) (acked s) (committed s).

Definition do_grant (v t c : N) (s : state) : state :=
  let x := st s v in
  mkS (upd (st s) v
         (mkN t c (if cur x <? t then Follower else role x)
                  (if cur x <? t then [] else got x)
                  (log x) (flushed x) (commit x) (matchIdx x)))
      ((t, v, c) :: grants s) (appends s) (acks s)
      ((t, v, c) :: votes s)
      (started s) (elected s) (created s) (acked s) (committed s).

(* setTerm: a higher term seen in any message *)
Definition do_bump (n t : N) (s : state) : state :=
  let x := st s n in
  mkS (upd (st s) n (mkN t 0 Follower [] (log x) (flushed x) (commit x) (matchIdx x)))
      (grants s) (appends s) (acks s) (votes s) (started s) (elected s) (created s)
      (acked s) (committed s).

(* step down without term change *)
Definition do_follow (n : N) (s : state) : state :=
  let x := st s n in
  mkS (upd (st s) n (mkN (cur x) (vote x) Follower [] (log x) (flushed x) (commit x) (matchIdx x)))
      (grants s) (appends s) (acks s) (votes s) (started s) (elected s) (created s)
      (acked s) (committed s).

Definition do_count (c v : N) (s : state) : state :=
  let x := st s c in
  mkS (upd (st s) c (mkN (cur x) (vote x) Candidate (v :: got x) (log x) (flushed x) (commit x) (matchIdx x)))
      (remove1 veqb (cur x, v, c) (grants s)) (appends s) (acks s)
      (votes s) (started s) (elected s) (created s) (acked s) (committed s).

Definition do_win (c : N) (s : state) : state :=
  let x := st s c in
  mkS (upd (st s) c (mkN (cur x) (vote x) Leader (got x) (log x) (flushed x) (commit x) []))
      (grants s) (appends s) (acks s) (votes s) (started s)
      ((cur x, c, log x) :: elected s)
      (created s) (acked s) (committed s).

(* the leader appends an entry of its term (client command, or the no-op it
   appends right after winning); not flushed *)
Definition do_client_append (l p : N) (s : state) : state :=
  let x := st s l in
  mkS (upd (st s) l (mkN (cur x) (vote x) (role x) (got x) (log x ++ [(cur x, p)])
                         (flushed x) (commit x) (matchIdx x)))
      (grants s) (appends s) (acks s) (votes s) (started s) (elected s)
      ((log x ++ [(cur x, p)]) :: created s)
      (acked s) (committed s).

(* the leader sends the k entries after prevIdx = pi, announcing commit index c
   (its own, or an older one: the replication thread works on a snapshot of the
   leader's state that may lag behind) *)
Definition do_send_append (l : N) (pi k c : nat) (s : state) : state :=
  let x := st s l in
  mkS (st s) (grants s)
      (mkReq (cur x) l pi (term_at (log x) pi) (firstn k (skipn pi (log x))) c :: appends s)
      (acks s) (votes s) (started s) (elected s) (created s) (acked s) (committed s).

(* successful AppendEntries at f: term adopted, entries merged, flush if the log
   changed, follower commit rule, success reply *)
Definition newlog_of (lg : list entry) (m : areq) : list entry :=
  firstn (rprevIdx m) lg ++ merge (skipn (rprevIdx m) lg) (rents m).
Definition changed_of (lg : list entry) (m : areq) : bool :=
  merge_changed (skipn (rprevIdx m) lg) (rents m).
Definition last_idx (m : areq) : nat := (rprevIdx m + length (rents m))%nat.
(* canCommit(prevIdx, prevTerm), evaluated before the entries are consumed *)
Definition commit1_of (c : nat) (m : areq) : nat :=
  if Nat.ltb 0 (rprevIdx m) && Nat.leb (rprevIdx m) (rcommit m) && (rprevTerm m =? rterm m)
     && Nat.ltb c (rprevIdx m)
  then rprevIdx m else c.
(* canCommit(last index, last term of the request), only after a log change + flush *)
Definition commit2_of (c1 : nat) (ch : bool) (m : areq) : nat :=
  if ch && Nat.leb (last_idx m) (rcommit m) && (lastTerm (rents m) =? rterm m)
     && Nat.ltb c1 (last_idx m)
  then last_idx m else c1.
Definition commit_of (lg : list entry) (c : nat) (m : areq) : nat :=
  commit2_of (commit1_of c m) (changed_of lg m) m.

Definition do_recv_ok (f : N) (m : areq) (s : state) : state :=
  let x := st s f in
  mkS (upd (st s) f
         (mkN (rterm m) (if cur x <? rterm m then 0 else vote x) Follower []
              (newlog_of (log x) m)
              (if changed_of (log x) m then length (newlog_of (log x) m) else flushed x)
              (commit_of (log x) (commit x) m) (matchIdx x)))
      (grants s) (appends s)
      (mkAck (rterm m) f (rldr m) (last_idx m) :: acks s)
      (votes s) (started s) (elected s) (created s)
      ((rterm m, f, last_idx m) :: acked s)
      ((if Nat.ltb (commit x) (commit_of (log x) (commit x) m)
        then tagged (rterm m) (commit_of (log x) (commit x) m) (newlog_of (log x) m) else [])
       ++ committed s).

Arguments newlog_of : simpl never.
Arguments changed_of : simpl never.
Arguments commit_of : simpl never.
Arguments last_idx : simpl never.

Definition do_recv_ack (l : N) (a : aack) (s : state) : state :=
  let x := st s l in
  mkS (upd (st s) l (mkN (cur x) (vote x) (role x) (got x) (log x) (flushed x) (commit x)
                         ((afrom a, amatch a) :: matchIdx x)))
      (grants s) (appends s) (remove1 aeqb a (acks s))
      (votes s) (started s) (elected s) (created s) (acked s) (committed s).

(* the leader flushes up to k, then exposes commit index k *)
Definition do_advance (l : N) (k : nat) (s : state) : state :=
  let x := st s l in
  mkS (upd (st s) l (mkN (cur x) (vote x) (role x) (got x) (log x)
                         (Nat.max (flushed x) k) k (matchIdx x)))
      (grants s) (appends s) (acks s) (votes s) (started s) (elected s) (created s)
      ((cur x, l, k) :: acked s)
      (tagged (cur x) k (log x) ++ committed s).

(* crash + restart: the unflushed tail is lost, volatile state reset; the commit index restarts
   at c (0, or the index of the node's snapshot: some index it knew committed) *)
Definition do_crash (n : N) (c : nat) (s : state) : state :=
  let x := st s n in
  mkS (upd (st s) n (mkN (cur x) (vote x) Follower [] (firstn (flushed x) (log x))
                         (flushed x) c []))
      (grants s) (appends s) (acks s) (votes s) (started s) (elected s) (created s)
      (acked s) (committed s).

(* X is a prefix of a log that the leader of term t held while leading *)
Definition lpre (s : state) (t : N) (X : list entry) : Prop :=
  (exists n L, In (t, n, L) (elected s) /\ prefix X L) \/
  (exists K, In K (created s) /\ lastTerm K = t /\ prefix X K).

(* v acknowledged index k (or more) to the leader of tc *)
Definition ackd (s : state) (tc v : N) (k : nat) : Prop :=
  exists i, In (tc, v, i) (acked s) /\ (k <= i)%nat.

(* Snapshot installation.  The leader l of term t sends its state machine up to index |K|; K is the
   prefix of its log that the snapshot stands for (the log itself may have been compacted: the
   abstract log keeps the compacted prefix).  K2 is a log created by some leader, acknowledged by a
   majority, that extends K: everything in K is committed.  The follower keeps its own log when K is
   a prefix of it and replaces it by K otherwise; everything up to |K| is durable and committed
   (the follower's commit index c moves anywhere between its old value and |K|: it jumps to |K| when
   the log is replaced and stays when the follower keeps its log); the answer acknowledges |K|. *)
Definition do_install (f t l : N) (K K2 : list entry) (c : nat) (s : state) : state :=
  let x := st s f in
  let same := prefixb K (log x) in
  mkS (upd (st s) f
         (mkN t (if cur x <? t then 0 else vote x) Follower []
              (if same then log x else K)
              (if same then Nat.max (flushed x) (length K) else length K)
              c (matchIdx x)))
      (grants s) (appends s)
      (mkAck t f l (length K) :: acks s)
      (votes s) (started s) (elected s) (created s)
      ((t, f, length K) :: acked s)
      (tagged (lastTerm K2) (length K) K ++ committed s).

(* a node makes more of its log durable (segment roll-over, explicit flush) *)
Definition do_flush (n : N) (k : nat) (s : state) : state :=
  let x := st s n in
  mkS (upd (st s) n (mkN (cur x) (vote x) (role x) (got x) (log x) k (commit x) (matchIdx x)))
      (grants s) (appends s) (acks s) (votes s) (started s) (elected s) (created s)
      (acked s) (committed s).

Definition do_lose_grant (g : vrec) (s : state) : state :=
  mkS (st s) (remove1 veqb g (grants s)) (appends s) (acks s) (votes s) (started s)
      (elected s) (created s) (acked s) (committed s).

Definition do_net_appends (l' : list areq) (s : state) : state :=
  mkS (st s) (grants s) l' (acks s) (votes s) (started s)
      (elected s) (created s) (acked s) (committed s).

(* the network cuts request m after k whole entries: the follower sees the request with only the
   first k entries (same header, same announced commit index) *)
Definition trunc_req (m : areq) (k : nat) : areq :=
  mkReq (rterm m) (rldr m) (rprevIdx m) (rprevTerm m) (firstn k (rents m)) (rcommit m).

Definition do_trunc (m : areq) (k : nat) (s : state) : state :=
  mkS (st s) (grants s) (trunc_req m k :: appends s) (acks s) (votes s) (started s)
      (elected s) (created s) (acked s) (committed s).

Definition do_drop_ack (a : aack) (s : state) : state :=
  mkS (st s) (grants s) (appends s) (remove1 aeqb a (acks s)) (votes s) (started s)
      (elected s) (created s) (acked s) (committed s).

(* the whole AppendEntries handler, as one function (see recv_append_refines) *)
Definition do_recv_append (f : N) (m : areq) (s : state) : state :=
  let x := st s f in
  if rterm m <? cur x then s                                   (* stale term: rejected *)
  else if prev_ok (log x) (rprevIdx m) (rprevTerm m) then do_recv_ok f m s
  else if cur x <? rterm m then do_bump f (rterm m) s           (* prev mismatch: rejected *)
  else do_follow f s.

Section Raft.
Variable V : list N.

(* a majority of the voters acknowledged index k (or more) to the leader of tc *)
Definition chosen (s : state) (tc : N) (k : nat) : Prop :=
  exists Q, majority V Q /\ forall v, In v Q -> ackd s tc v k.

Inductive step (s : state) : state -> Prop :=
| SStart : forall n,
    n <> 0 ->
    role (st s n) <> Leader ->
    step s (do_start n s)
| SGrant : forall v t c L,
    c <> 0 ->
    In (t, c, L) (started s) ->
    (cur (st s v) < t \/ (t = cur (st s v) /\ (vote (st s v) = 0 \/ vote (st s v) = c))) ->
    uptodate L (log (st s v)) ->
    step s (do_grant v t c s)
| SBump : forall n t,
    cur (st s n) < t ->
    step s (do_bump n t s)
| SStepDown : forall n,
    step s (do_follow n s)
| SCount : forall c v,
    role (st s c) = Candidate ->
    In v V ->
    In (cur (st s c), v, c) (grants s) ->
    ~ In v (got (st s c)) ->
    step s (do_count c v s)
| SWin : forall c,
    role (st s c) = Candidate ->
    (2 * length (got (st s c)) > length V)%nat ->
    step s (do_win c s)
| SClientAppend : forall l p,
    role (st s l) = Leader ->
    step s (do_client_append l p s)
| SSendAppend : forall l pi k c,
    role (st s l) = Leader ->
    (pi <= length (log (st s l)))%nat ->
    (c <= commit (st s l))%nat ->
    step s (do_send_append l pi k c s)
| SRecvAppend : forall f m,
    In m (appends s) ->
    f <> rldr m ->
    cur (st s f) <= rterm m ->
    prev_ok (log (st s f)) (rprevIdx m) (rprevTerm m) = true ->
    step s (do_recv_ok f m s)
| SRecvAck : forall l a,
    role (st s l) = Leader ->
    In a (acks s) ->
    aterm a = cur (st s l) ->
    ato a = l ->
    step s (do_recv_ack l a s)
| SAdvance : forall l k Q,
    role (st s l) = Leader ->
    (commit (st s l) < k <= length (log (st s l)))%nat ->
    term_at (log (st s l)) k = cur (st s l) ->
    majority V Q ->
    (forall v, In v Q -> v = l \/ match_ge (matchIdx (st s l)) v k) ->
    step s (do_advance l k s)
| SCrash : forall n c,
    (c <= commit (st s n))%nat ->
    step s (do_crash n c s)
| SLoseGrant : forall g,
    step s (do_lose_grant g s)
| SNet : forall l',
    incl l' (appends s) ->
    step s (do_net_appends l' s)
| SDropAck : forall a,
    step s (do_drop_ack a s)
| SFlush : forall n k,
    (flushed (st s n) <= k <= length (log (st s n)))%nat ->
    step s (do_flush n k s)
| SInstall : forall f t l K K2 L0 c,
    f <> l ->
    cur (st s f) <= t ->
    In (t, l, L0) (elected s) ->
    lpre s t K ->
    In K2 (created s) ->
    prefix K K2 ->
    lastTerm K2 <= t ->
    chosen s (lastTerm K2) (length K2) ->
    (commit (st s f) <= c <= Nat.max (commit (st s f)) (length K))%nat ->
    step s (do_install f t l K K2 c s)
| STrunc : forall m k,
    In m (appends s) ->
    step s (do_trunc m k s).

Inductive Reachable : state -> Prop :=
| R_init : Reachable init
| R_step : forall s s', Reachable s -> step s s' -> Reachable s'.

(* zero or more steps *)
Inductive steps : state -> state -> Prop :=
| steps_refl : forall s, steps s s
| steps_step : forall s s' s'', steps s s' -> step s' s'' -> steps s s''.

Lemma reachable_steps s s' : Reachable s -> steps s s' -> Reachable s'.
Proof.
  intros Hr Hs. induction Hs as [|s s' s'' _ IH Hst]; [exact Hr|].
  exact (R_step _ _ (IH Hr) Hst).
Qed.

(* the one-function handler is covered by the relation: every delivery of a
   request to a node other than its sender is a step of the model or leaves the
   state unchanged (stale term) *)
Lemma recv_append_refines s f m :
  In m (appends s) -> f <> rldr m ->
  do_recv_append f m s = s \/ step s (do_recv_append f m s).
Proof.
  intros Hin Hne. unfold do_recv_append.
  destruct (N.ltb_spec (rterm m) (cur (st s f))) as [Hlt|Hge]; [left; reflexivity|].
  right. destruct (prev_ok (log (st s f)) (rprevIdx m) (rprevTerm m)) eqn:Hp.
  - apply SRecvAppend; assumption.
  - destruct (N.ltb_spec (cur (st s f)) (rterm m)) as [Hlt|Hge'].
    + apply SBump. exact Hlt.
    + apply SStepDown.
Qed.

End Raft.
