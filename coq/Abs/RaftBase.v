(* Abs/RaftBase.v  List toolkit for the log layer of RaftAbs (Abs/Raft.v).

   - prefix / comparable on lists
   - entries, [term_at], [lastTerm]
   - the follower's merge of request entries into its log ([merge]) and its
     characterisation: under log matching the result is either the old log
     (request already contained) or prefix ++ request entries
   - families of "created" logs: [closed], [keyed], [wf] and the list-level
     log-matching lemma [wf_match]
   - [tagged]: the (term, index, entry) records of a committed prefix

   Standard library only. *)
From Coq Require Import List NArith Arith Lia Bool.
Import ListNotations.

(* ------------------------------------------------------------------ *)
(* prefix                                                               *)
(* ------------------------------------------------------------------ *)
Section Prefix.
Context {A : Type}.

Definition prefix (X Y : list A) : Prop := exists Z, Y = X ++ Z.
Definition comparable (X Y : list A) : Prop := prefix X Y \/ prefix Y X.

Lemma prefix_refl X : prefix X X.
Proof. exists []. symmetry. apply app_nil_r. Qed.

Lemma prefix_nil X : prefix [] X.
Proof. exists X. reflexivity. Qed.

Lemma prefix_app X Y : prefix X (X ++ Y).
Proof. exists Y. reflexivity. Qed.

Lemma prefix_trans X Y Z : prefix X Y -> prefix Y Z -> prefix X Z.
Proof. intros [a ->] [b ->]. exists (a ++ b). symmetry. apply app_assoc. Qed.

Lemma prefix_length X Y : prefix X Y -> length X <= length Y.
Proof. intros [Z ->]. rewrite app_length. lia. Qed.

Lemma prefix_firstn_eq X Y : prefix X Y -> firstn (length X) Y = X.
Proof.
  intros [Z ->]. rewrite firstn_app, Nat.sub_diag, firstn_all. simpl. apply app_nil_r.
Qed.

Lemma firstn_prefix i (Y : list A) : prefix (firstn i Y) Y.
Proof. exists (skipn i Y). symmetry. apply firstn_skipn. Qed.

Lemma prefix_iff X Y : prefix X Y <-> firstn (length X) Y = X.
Proof.
  split; [apply prefix_firstn_eq|]. intros H. rewrite <- H. apply firstn_prefix.
Qed.

Lemma prefix_nil_inv X : prefix X [] -> X = [].
Proof. intros [Z H]. symmetry in H. apply app_eq_nil in H. tauto. Qed.

Lemma prefix_same_length X Y : prefix X Y -> length Y <= length X -> X = Y.
Proof.
  intros [Z ->] H. rewrite app_length in H. destruct Z; [symmetry; apply app_nil_r|].
  simpl in H. lia.
Qed.

Lemma prefix_antisym X Y : prefix X Y -> prefix Y X -> X = Y.
Proof. intros H1 H2. apply prefix_same_length; [exact H1|]. apply prefix_length. exact H2. Qed.

Lemma prefix_common X Y Z :
  prefix X Z -> prefix Y Z -> length X <= length Y -> prefix X Y.
Proof.
  intros HX HY Hl. apply prefix_iff.
  rewrite <- (prefix_firstn_eq _ _ HY) at 1.
  rewrite firstn_firstn, Nat.min_l by exact Hl.
  apply prefix_firstn_eq. exact HX.
Qed.

Lemma prefix_comparable X Y Z : prefix X Z -> prefix Y Z -> comparable X Y.
Proof.
  intros HX HY. destruct (le_ge_dec (length X) (length Y)) as [H|H].
  - left. exact (prefix_common _ _ _ HX HY H).
  - right. apply (prefix_common _ _ _ HY HX). lia.
Qed.

Lemma comparable_sym X Y : comparable X Y -> comparable Y X.
Proof. intros [H|H]; [right|left]; exact H. Qed.

Lemma comparable_refl X : comparable X X.
Proof. left. apply prefix_refl. Qed.

Lemma comparable_length X Y : comparable X Y -> length X <= length Y -> prefix X Y.
Proof.
  intros [H|H] Hl; [exact H|].
  rewrite (prefix_same_length _ _ H Hl). apply prefix_refl.
Qed.

Lemma prefix_nth_error X Y i e :
  prefix X Y -> nth_error X i = Some e -> nth_error Y i = Some e.
Proof.
  intros [Z ->] H. rewrite nth_error_app1; [exact H|].
  apply nth_error_Some. rewrite H. discriminate.
Qed.

Lemma prefix_firstn_le (L : list A) i j : i <= j -> prefix (firstn i L) (firstn j L).
Proof.
  intros Hij. replace (firstn i L) with (firstn i (firstn j L)).
  - apply firstn_prefix.
  - rewrite firstn_firstn, Nat.min_l by exact Hij. reflexivity.
Qed.

Lemma prefix_firstn_of X Y k : prefix X Y -> length X <= k -> prefix X (firstn k Y).
Proof.
  intros [Z ->] Hk. rewrite firstn_app. rewrite firstn_all2 by exact Hk. apply prefix_app.
Qed.

Lemma prefix_firstn_firstn X Y i : prefix X Y -> i <= length X -> firstn i X = firstn i Y.
Proof.
  intros [Z ->] Hi. rewrite firstn_app.
  replace (i - length X) with 0 by lia. simpl. symmetry. apply app_nil_r.
Qed.

Lemma prefix_app_cancel P X Y : prefix (P ++ X) (P ++ Y) <-> prefix X Y.
Proof.
  split.
  - intros [Z H]. rewrite <- app_assoc in H. apply app_inv_head in H. exists Z. exact H.
  - intros [Z ->]. exists Z. apply app_assoc.
Qed.

Lemma prefix_snoc_inv X Y a : prefix X (Y ++ [a]) -> prefix X Y \/ X = Y ++ [a].
Proof.
  intros H. destruct (le_lt_dec (length X) (length Y)) as [Hl|Hl].
  - left. apply (prefix_common _ _ (Y ++ [a])); [exact H | apply prefix_app | exact Hl].
  - right. apply prefix_same_length; [exact H|]. rewrite app_length. simpl. lia.
Qed.

(* the log-change lemma: if the new log X replaces [old] only when X is not
   already contained in it, any prefix C of [old] that is comparable with X
   through a common extension K survives *)
Lemma change_keeps C old K X :
  prefix C old -> prefix C K -> comparable K X -> ~ prefix X old -> prefix C X.
Proof.
  intros HCo HCK [HKX|HXK] Hn.
  - exact (prefix_trans _ _ _ HCK HKX).
  - destruct (prefix_comparable _ _ _ HCK HXK) as [H|H]; [exact H|].
    exfalso. apply Hn. exact (prefix_trans _ _ _ H HCo).
Qed.

Lemma firstn_app_le (X Y : list A) i : i <= length X -> firstn i (X ++ Y) = firstn i X.
Proof.
  intros Hi. rewrite firstn_app. replace (i - length X) with 0 by lia.
  simpl. apply app_nil_r.
Qed.

Lemma firstn_length_le' (L : list A) i : i <= length L -> length (firstn i L) = i.
Proof. apply firstn_length_le. Qed.

Lemma nth_error_firstn (L : list A) : forall n i,
  nth_error (firstn n L) i = if i <? n then nth_error L i else None.
Proof.
  induction L as [|x L IH]; intros n i.
  - rewrite firstn_nil. destruct (i <? n); destruct i; reflexivity.
  - destruct n as [|n]; simpl.
    + destruct i; reflexivity.
    + destruct i as [|i]; simpl; [reflexivity|]. rewrite IH.
      change (S i <? S n) with (i <? n). reflexivity.
Qed.

End Prefix.

(* ------------------------------------------------------------------ *)
(* entries and terms                                                    *)
(* ------------------------------------------------------------------ *)
Definition entry := (N * N)%type.            (* (term, payload) *)
Definition eterm (e : entry) : N := fst e.

Definition entry_eq_dec (a b : entry) : {a = b} + {a <> b}.
Proof. decide equality; apply N.eq_dec. Defined.

Definition log_eq_dec (a b : list entry) : {a = b} + {a <> b} := list_eq_dec entry_eq_dec a b.

Lemma prefix_dec (X Y : list entry) : {prefix X Y} + {~ prefix X Y}.
Proof.
  destruct (log_eq_dec (firstn (length X) Y) X) as [H|H].
  - left. apply prefix_iff. exact H.
  - right. intro Hp. apply H. apply prefix_iff. exact Hp.
Qed.

(* term of the entry at (1-based) index i; 0 when there is none *)
Definition term_at (L : list entry) (i : nat) : N :=
  match i with
  | O => 0%N
  | S j => match nth_error L j with Some e => eterm e | None => 0%N end
  end.

Definition lastTerm (L : list entry) : N := term_at L (length L).

Lemma term_at_nth L i e : nth_error L i = Some e -> term_at L (S i) = eterm e.
Proof. intro H. simpl. rewrite H. reflexivity. Qed.

Lemma lastTerm_snoc L e : lastTerm (L ++ [e]) = eterm e.
Proof.
  unfold lastTerm. rewrite app_length. simpl. rewrite Nat.add_1_r. simpl.
  rewrite nth_error_app2 by lia. rewrite Nat.sub_diag. reflexivity.
Qed.

Lemma lastTerm_nil : lastTerm [] = 0%N.
Proof. reflexivity. Qed.

Lemma term_at_prefix X Y i : prefix X Y -> i <= length X -> term_at X i = term_at Y i.
Proof.
  intros [Z ->] Hi. destruct i as [|j]; [reflexivity|]. simpl.
  rewrite nth_error_app1 by lia. reflexivity.
Qed.

Lemma lastTerm_prefix X Y : prefix X Y -> lastTerm X = term_at Y (length X).
Proof. intro H. unfold lastTerm. apply term_at_prefix; [exact H | lia]. Qed.

Lemma lastTerm_firstn L i : i <= length L -> lastTerm (firstn i L) = term_at L i.
Proof.
  intros Hi. rewrite (lastTerm_prefix _ L (firstn_prefix i L)).
  rewrite firstn_length_le by exact Hi. reflexivity.
Qed.

Lemma term_at_app_l X Y i : i <= length X -> term_at (X ++ Y) i = term_at X i.
Proof. intro H. symmetry. apply term_at_prefix; [apply prefix_app | exact H]. Qed.

Lemma term_at_in L i : term_at L i <> 0%N -> exists e, nth_error L (i - 1) = Some e /\ eterm e = term_at L i /\ 0 < i <= length L.
Proof.
  destruct i as [|j]; simpl; [intro H; congruence|].
  rewrite Nat.sub_0_r. destruct (nth_error L j) as [e|] eqn:E; [|intro H; congruence].
  intros _. exists e. split; [reflexivity|]. split; [reflexivity|].
  assert (j < length L) by (apply nth_error_Some; congruence). lia.
Qed.

Lemma nth_error_last_snoc (L : list entry) e : nth_error (L ++ [e]) (length L) = Some e.
Proof. rewrite nth_error_app2 by lia. rewrite Nat.sub_diag. reflexivity. Qed.

(* last entry of a non-empty list *)
Lemma nonempty_last (L : list entry) : L <> [] -> exists L' e, L = L' ++ [e].
Proof.
  intro H. destruct (exists_last H) as [L' [e ->]]. exists L', e. reflexivity.
Qed.

Lemma lastTerm_in L : L <> [] -> exists e, nth_error L (length L - 1) = Some e /\ eterm e = lastTerm L.
Proof.
  intro H. destruct (nonempty_last L H) as [L' [e ->]]. exists e.
  rewrite app_length. simpl. replace (length L' + 1 - 1) with (length L') by lia.
  split; [apply nth_error_last_snoc | symmetry; apply lastTerm_snoc].
Qed.


Lemma prefix_incl {A} (X Y : list A) : prefix X Y -> incl X Y.
Proof. intros [Z ->] a Ha. apply in_or_app. left. exact Ha. Qed.

Lemma firstn_skipn_prefix {A} (L : list A) i k : prefix (firstn i L ++ firstn k (skipn i L)) L.
Proof.
  rewrite <- (firstn_skipn i L) at 3. apply prefix_app_cancel. apply firstn_prefix.
Qed.

Lemma firstn_in {A} (L : list A) i a : In a (firstn i L) -> In a L.
Proof. intro H. exact (prefix_incl _ _ (firstn_prefix i L) a H). Qed.

Lemma lastTerm_app P es : es <> [] -> lastTerm (P ++ es) = lastTerm es.
Proof.
  intros H. destruct (nonempty_last es H) as [es' [e ->]].
  rewrite app_assoc, !lastTerm_snoc. reflexivity.
Qed.

Lemma lastTerm_nonzero_nonempty L : lastTerm L <> 0%N -> L <> [].
Proof. intros H ->. apply H. reflexivity. Qed.

(* the last entry of a non-empty prefix K of L bounds lastTerm K by any bound on L *)
Lemma lastTerm_prefix_le K L b :
  prefix K L -> (forall e, In e L -> (eterm e <= b)%N) -> (lastTerm K <= b)%N.
Proof.
  intros Hp Hb. destruct K as [|a K'] eqn:E; [unfold lastTerm; simpl; lia|].
  rewrite <- E in *. assert (Hne : K <> []) by (rewrite E; discriminate).
  destruct (lastTerm_in K Hne) as [e [He1 He2]]. rewrite <- He2. apply Hb.
  apply (prefix_incl _ _ Hp). eapply nth_error_In. exact He1.
Qed.

(* boolean equality of logs, boolean prefix test (executable guards) *)
Definition entry_eqb (a b : entry) : bool := (fst a =? fst b)%N && (snd a =? snd b)%N.

Lemma entry_eqb_eq a b : entry_eqb a b = true -> a = b.
Proof.
  destruct a as [a1 a2], b as [b1 b2]. unfold entry_eqb. simpl. intro H.
  apply andb_prop in H. destruct H as [H1 H2].
  apply N.eqb_eq in H1. apply N.eqb_eq in H2. subst. reflexivity.
Qed.

Lemma entry_eqb_refl a : entry_eqb a a = true.
Proof. destruct a. unfold entry_eqb. simpl. rewrite !N.eqb_refl. reflexivity. Qed.

Fixpoint log_eqb (a b : list entry) : bool :=
  match a, b with
  | [], [] => true
  | x :: a', y :: b' => entry_eqb x y && log_eqb a' b'
  | _, _ => false
  end.

Lemma log_eqb_eq a : forall b, log_eqb a b = true -> a = b.
Proof.
  induction a as [|x a IH]; intros [|y b] H; simpl in H; try discriminate; [reflexivity|].
  apply andb_prop in H. destruct H as [H1 H2].
  apply entry_eqb_eq in H1. apply IH in H2. subst. reflexivity.
Qed.

Lemma log_eqb_refl a : log_eqb a a = true.
Proof. induction a as [|x a IH]; simpl; [reflexivity|]. rewrite entry_eqb_refl, IH. reflexivity. Qed.

Definition prefixb (X Y : list entry) : bool := log_eqb (firstn (length X) Y) X.

Lemma prefixb_true X Y : prefixb X Y = true <-> prefix X Y.
Proof.
  unfold prefixb. split.
  - intro H. apply log_eqb_eq in H. apply prefix_iff. exact H.
  - intro H. apply prefix_iff in H. rewrite H. apply log_eqb_refl.
Qed.

(* ------------------------------------------------------------------ *)
(* merge of request entries into the follower's log tail                *)
(* ------------------------------------------------------------------ *)
Fixpoint merge (tl es : list entry) {struct es} : list entry :=
  match es with
  | [] => tl
  | e :: es' =>
      match tl with
      | [] => es
      | x :: tl' => if N.eqb (eterm e) (eterm x) then x :: merge tl' es' else es
      end
  end.

(* did merge truncate and/or append anything? *)
Fixpoint merge_changed (tl es : list entry) {struct es} : bool :=
  match es with
  | [] => false
  | e :: es' =>
      match tl with
      | [] => true
      | x :: tl' => if N.eqb (eterm e) (eterm x) then merge_changed tl' es' else true
      end
  end.

Definition agree (tl es : list entry) : Prop :=
  forall k e x, nth_error es k = Some e -> nth_error tl k = Some x -> eterm e = eterm x -> e = x.

Lemma merge_spec tl es :
  agree tl es ->
  (prefix es tl /\ merge tl es = tl /\ merge_changed tl es = false) \/
  (~ prefix es tl /\ merge tl es = es /\ merge_changed tl es = true).
Proof.
  revert tl. induction es as [|e es IH]; intros tl Hag; simpl.
  - left. split; [apply prefix_nil|]. split; reflexivity.
  - destruct tl as [|x tl].
    + right. split; [|split; reflexivity]. intros H. apply prefix_nil_inv in H. discriminate.
    + destruct (N.eqb_spec (eterm e) (eterm x)) as [Heq|Hne].
      * assert (e = x) as -> by (apply (Hag 0 e x); simpl; auto).
        assert (Hag' : agree tl es).
        { intros k a b Ha Hb. apply (Hag (S k)); simpl; assumption. }
        destruct (IH tl Hag') as [[Hp [Hm Hc]]|[Hp [Hm Hc]]].
        -- left. split; [|split; [rewrite Hm; reflexivity | exact Hc]].
           apply (prefix_app_cancel [x]). exact Hp.
        -- right. split; [|split; [rewrite Hm; reflexivity | exact Hc]].
           intro H. apply Hp. apply (prefix_app_cancel [x]). exact H.
      * right. split; [|split; reflexivity].
        intros [Z H]. simpl in H. inversion H. subst. apply Hne. reflexivity.
Qed.

(* ------------------------------------------------------------------ *)
(* families of created logs                                             *)
(* ------------------------------------------------------------------ *)
Section Families.
Variable C : list (list entry).

Definition closed : Prop :=
  forall K, In K C -> forall i, 0 < i <= length K -> In (firstn i K) C.
Definition keyed : Prop :=
  forall K1 K2, In K1 C -> In K2 C -> lastTerm K1 = lastTerm K2 -> comparable K1 K2.
Definition wf (L : list entry) : Prop :=
  forall i, 0 < i <= length L -> In (firstn i L) C.

Lemma wf_nil : wf [].
Proof. intros i Hi. simpl in Hi. lia. Qed.

Lemma wf_prefix X Y : wf Y -> prefix X Y -> wf X.
Proof.
  intros HY HXY i Hi. rewrite (prefix_firstn_firstn _ _ i HXY) by lia.
  apply HY. pose proof (prefix_length _ _ HXY). lia.
Qed.

Lemma wf_created K : closed -> In K C -> wf K.
Proof. intros Hc HK i Hi. exact (Hc K HK i Hi). Qed.

Lemma wf_self L : wf L -> L <> [] -> In L C.
Proof.
  intros Hw Hne. rewrite <- (firstn_all L). apply Hw.
  destruct L; [congruence|]. simpl. lia.
Qed.

Lemma wf_match L1 L2 i :
  keyed -> wf L1 -> wf L2 -> 0 < i -> i <= length L1 -> i <= length L2 ->
  term_at L1 i = term_at L2 i -> firstn i L1 = firstn i L2.
Proof.
  intros Hk H1 H2 Hi0 Hi1 Hi2 Ht.
  assert (Hc : comparable (firstn i L1) (firstn i L2)).
  { apply Hk; [apply H1; lia | apply H2; lia|].
    rewrite !lastTerm_firstn by assumption. exact Ht. }
  apply prefix_same_length.
  - apply comparable_length; [exact Hc|]. rewrite !firstn_length_le by assumption. lia.
  - rewrite !firstn_length_le by assumption. lia.
Qed.

(* same term at the same index: same entry *)
Lemma wf_match_entry L1 L2 j e1 e2 :
  keyed -> wf L1 -> wf L2 ->
  nth_error L1 j = Some e1 -> nth_error L2 j = Some e2 -> eterm e1 = eterm e2 -> e1 = e2.
Proof.
  intros Hk H1 H2 Hn1 Hn2 Ht.
  assert (Hl1 : j < length L1) by (apply nth_error_Some; congruence).
  assert (Hl2 : j < length L2) by (apply nth_error_Some; congruence).
  assert (Hf : firstn (S j) L1 = firstn (S j) L2).
  { apply wf_match; try assumption; try lia. simpl. rewrite Hn1, Hn2. exact Ht. }
  assert (H : nth_error (firstn (S j) L1) j = nth_error (firstn (S j) L2) j) by (rewrite Hf; reflexivity).
  rewrite !nth_error_firstn in H.
  destruct (Nat.ltb_spec j (S j)) as [_|Hbad]; [|lia].
  congruence.
Qed.

End Families.

Lemma wf_mono C C' L : incl C C' -> wf C L -> wf C' L.
Proof. intros Hi Hw i H. apply Hi. apply Hw. exact H. Qed.

(* ------------------------------------------------------------------ *)
(* records of a committed prefix                                        *)
(* ------------------------------------------------------------------ *)
Definition tagged (t : N) (c : nat) (L : list entry) : list (N * nat * entry) :=
  map (fun p => (t, fst p, snd p)) (combine (seq 1 c) (firstn c L)).

Lemma in_combine_seq (L : list entry) : forall a c i e,
  In (i, e) (combine (seq a c) L) <-> (a <= i < a + c /\ nth_error L (i - a) = Some e).
Proof.
  induction L as [|x L IH]; intros a c i e.
  - destruct c; simpl; split; try tauto.
    + intros [_ H]. destruct (i - a); discriminate.
    + intros [_ H]. destruct (i - a); discriminate.
  - destruct c as [|c]; simpl.
    + split; [tauto | intros [H _]; lia].
    + rewrite IH. split.
      * intros [H|[H1 H2]].
        -- inversion H; subst. rewrite Nat.sub_diag. simpl. split; [lia | reflexivity].
        -- split; [lia|]. replace (i - a) with (S (i - S a)) by lia. simpl. exact H2.
      * intros [H1 H2]. destruct (Nat.eq_dec i a) as [->|Hne].
        -- left. rewrite Nat.sub_diag in H2. simpl in H2. congruence.
        -- right. split; [lia|]. replace (i - a) with (S (i - S a)) in H2 by lia.
           simpl in H2. exact H2.
Qed.

Lemma in_tagged t c L t' i e :
  In (t', i, e) (tagged t c L) <-> (t' = t /\ 1 <= i <= c /\ nth_error L (i - 1) = Some e).
Proof.
  unfold tagged. rewrite in_map_iff. split.
  - intros [[i0 e0] [Heq Hin]]. simpl in Heq. inversion Heq; subst.
    apply in_combine_seq in Hin. destruct Hin as [H1 H2].
    rewrite nth_error_firstn in H2.
    destruct (Nat.ltb_spec (i - 1) c) as [_|Hbad]; [|discriminate].
    split; [reflexivity|]. split; [lia | exact H2].
  - intros [-> [H1 H2]]. exists (i, e). split; [reflexivity|].
    apply in_combine_seq. split; [lia|].
    rewrite nth_error_firstn.
    destruct (Nat.ltb_spec (i - 1) c) as [_|Hbad]; [exact H2 | lia].
Qed.
