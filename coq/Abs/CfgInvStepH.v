(* Abs/CfgInvStepH.v  Invariant preservation: snapshot installation. *)
From Coq Require Import List NArith Arith Lia Bool.
From Verif Require Import Abs.Quorum Abs.RaftBase Abs.CfgQuorum Abs.CfgBase Abs.CfgRaft
  Abs.CfgInvDefs Abs.CfgInvT Abs.CfgInvFrame Abs.CfgInvStepA Abs.CfgInvStepE.
Import ListNotations.
Open Scope N_scope.

Section StepH.
Variable V0 : list N.
Hypothesis V0_nodup : NoDup V0.

(* the snapshot is a prefix of a log created in the term of the sender *)
Lemma install_lineage s t l L0 tc k M (K : list entry) :
  inv V0 s -> dinv s -> In (t, l, L0) (elected s) -> In (tc, k, M) (cmts s) -> tc <= t ->
  (length K <= k)%nat -> K = firstn (length K) M ->
  exists K0, In K0 (created s) /\ lastTerm K0 = t /\ prefix K K0.
Proof.
  intros [F X] D He Hc Htc Hk HK.
  destruct (f_cmt V0 s F _ _ _ Hc) as [HM [HlM _]].
  destruct (N.eq_dec tc t) as [Heq|Hne].
  - exists M. split; [exact HM|]. split; [congruence|]. rewrite HK. apply firstn_prefix.
  - exists (L0 ++ [noop t]). split; [exact (d_elcr s D t l L0 He)|].
    split; [apply lastTerm_snoc|].
    pose proof (T2 V0 V0_nodup s F t l L0 He tc k M Hc ltac:(lia)) as HP.
    apply (prefix_trans _ L0); [|apply prefix_app].
    apply (prefix_trans _ (firstn k M)); [|exact HP].
    rewrite HK. apply prefix_firstn_le. exact Hk.
Qed.

(* X' is a prefix of a log K0 created in term t; the node keeps its log if X'
   is a prefix of it and takes X' otherwise: the committed prefix survives *)
Lemma gen_committed_kept s f t l Lt K0 (X' lg' : list entry) :
  inv V0 s -> In (t, l, Lt) (elected s) -> cur (st s f) <= t ->
  In K0 (created s) -> lastTerm K0 = t -> prefix X' K0 ->
  (lg' = log (st s f) /\ prefix X' (log (st s f))) \/ (lg' = X' /\ ~ prefix X' (log (st s f))) ->
  prefix (firstn (commit (st s f)) (log (st s f))) lg'.
Proof.
  intros [F X] He Hcur HK0 HlK0 HX' Hcase.
  destruct (k_nc s X f) as [H0|[tn [kn [Mn [Hc [Htn [Hcn Hfe]]]]]]].
  { rewrite H0. apply prefix_nil. }
  apply (keep_prefix _ (log (st s f)) X' lg'); [apply firstn_prefix | | exact Hcase].
  rewrite Hfe.
  assert (HCM : prefix (firstn (commit (st s f)) Mn) (firstn kn Mn)) by (apply prefix_firstn_le; exact Hcn).
  destruct (f_cmt V0 s F _ _ _ Hc) as [HMn [HlMn _]].
  destruct (N.eq_dec tn t) as [Heq|Hne].
  - assert (Hcmp : comparable Mn K0) by (apply (f_chain V0 s F); [assumption..|congruence]).
    destruct Hcmp as [Hp|Hp].
    + apply (prefix_comparable _ _ K0); [|exact HX'].
      apply (prefix_trans _ Mn); [apply firstn_prefix | exact Hp].
    + apply (prefix_comparable _ _ Mn); [apply firstn_prefix|].
      apply (prefix_trans _ K0); assumption.
  - pose proof (T2 V0 V0_nodup s F _ _ _ He tn kn Mn Hc ltac:(lia)) as HP.
    pose proof (created_ext V0 s F K0 _ _ Lt HK0 HlK0 He) as Hext.
    apply (prefix_comparable _ _ K0); [|exact HX'].
    apply (prefix_trans _ (firstn kn Mn)); [exact HCM|]. apply (prefix_trans _ Lt); [exact HP|].
    apply (prefix_trans _ (Lt ++ [noop t])); [apply prefix_app | exact Hext].
Qed.

(* ... and so does what the node acknowledged earlier *)
Lemma gen_ack_kept s f t l Lt K0 (X' lg' : list entry) tc i K :
  inv V0 s -> In (t, l, Lt) (elected s) -> cur (st s f) <= t ->
  In K0 (created s) -> lastTerm K0 = t -> prefix X' K0 ->
  (lg' = log (st s f) /\ prefix X' (log (st s f))) \/ (lg' = X' /\ ~ prefix X' (log (st s f))) ->
  In (tc, f, i) (acks s) -> In K (created s) -> lastTerm K = tc -> (length K <= i)%nat ->
  (forall u' n' L', In (u', n', L') (elected s) -> tc < u' -> u' <= t -> prefix K L') ->
  prefix K lg'.
Proof.
  intros [F X] He Hcur HK0 HlK0 HX' Hcase Ha HK HlK Hlen Hhyp.
  destruct (a_ok s X _ _ _ Ha) as [Htc _].
  apply (keep_prefix K (log (st s f)) X' lg'); [| | exact Hcase].
  - apply (s_ack s X tc f i K Ha HK HlK Hlen). intros u' n' L' He' H1 H2.
    apply (Hhyp u' n' L' He' H1). lia.
  - destruct (N.eq_dec tc t) as [Heq|Hne].
    + apply (same_term_comparable V0 s K K0 X' F HK HK0); [congruence | exact HX'].
    + pose proof (created_ext V0 s F K0 _ _ Lt HK0 HlK0 He) as Hext.
      apply (prefix_comparable _ _ K0); [|exact HX'].
      apply (prefix_trans _ Lt); [apply (Hhyp _ _ _ He); lia|].
      apply (prefix_trans _ (Lt ++ [noop t])); [apply prefix_app | exact Hext].
Qed.

Lemma facts_install s f t l K c :
  inv V0 s -> cur (st s f) <= t -> facts V0 (do_install f t l K c s).
Proof.
  intros [F X] Hcur.
  apply (facts_frame V0 s _ F); simpl; try reflexivity; try apply incl_refl;
    try (apply incl_tl, incl_refl).
  - exact (f_st V0 s F).
  - exact (f_st_one V0 s F).
  - exact (f_one V0 s F).
  - intros t0 n L v He Hv. apply ev_mono; [apply incl_refl|].
    intros tc i K' [Ha|Ha] Ht HK Hl Hlen; simpl in *; [|split; assumption].
    exfalso. inversion Ha. subst tc v i. pose proof (v_le s X _ _ _ Hv). lia.
Qed.

Lemma xinv_install s f t l K L0 tc k M c :
  inv V0 s -> dinv s -> f <> l -> cur (st s f) <= t -> In (t, l, L0) (elected s) ->
  In (tc, k, M) (cmts s) -> tc <= t -> (length K <= k)%nat -> K = firstn (length K) M ->
  (c <= Nat.max (commit (st s f)) (length K))%nat ->
  xinv (do_install f t l K c s).
Proof.
  intros I D Hfl Hcur He Hc Htc Hk HKM Hcc.
  destruct (install_lineage s t l L0 tc k M K I D He Hc Htc Hk HKM) as [K0 [HK0 [HlK0 HX']]].
  unfold do_install. cbv zeta.
  set (c' := Nat.max (commit (st s f)) c).
  assert (Hcc' : (commit (st s f) <= c' <= Nat.max (commit (st s f)) (length K))%nat)
    by (unfold c'; lia).
  clearbody c'. clear Hcc c. rename c' into c. rename Hcc' into Hcc.
  set (lg' := if lprefixb K (log (st s f)) then log (st s f) else K).
  set (fl' := if lprefixb K (log (st s f)) then Nat.max (flushed (st s f)) (length K) else length K).
  assert (Hcase : (lg' = log (st s f) /\ prefix K (log (st s f))) \/
                  (lg' = K /\ ~ prefix K (log (st s f)))).
  { unfold lg'. destruct (lprefixb K (log (st s f))) eqn:E.
    - left. split; [reflexivity | apply lprefixb_true; exact E].
    - right. split; [reflexivity | apply lprefixb_false; exact E]. }
  clearbody lg' fl'.
  pose proof (gen_committed_kept s f t l L0 K0 K lg' I He Hcur HK0 HlK0 HX' Hcase) as HCk.
  pose proof (fun tc i K' => gen_ack_kept s f t l L0 K0 K lg' tc i K' I He Hcur HK0 HlK0 HX' Hcase) as HAk.
  destruct I as [F X].
  assert (HXl : prefix K lg').
  { destruct Hcase as [[-> H]|[-> _]]; [exact H | apply prefix_refl]. }
  assert (Hwf' : wf (created s) lg').
  { destruct Hcase as [[-> _]|[-> _]]; [apply (n_wf s X)|].
    apply (wf_prefix _ K K0); [apply (created_wf V0 s F); exact HK0 | exact HX']. }
  assert (Hmono' : mono lg').
  { destruct Hcase as [[-> _]|[-> _]]; [apply (n_mono s X)|].
    apply (mono_prefix K K0 HX'). apply (f_cmono V0 s F K0 HK0). }
  assert (HlT' : lastTerm lg' <= t).
  { destruct Hcase as [[-> _]|[-> _]]; [pose proof (n_term s X f); lia|].
    destruct K as [|x K'']; [rewrite lastTerm_nil; lia|]. rewrite <- HlK0.
    apply lastTerm_le_prefix; [exact HX' | apply (f_cmono V0 s F K0 HK0) | discriminate]. }
  clear Hcase.
  pose proof (prefix_length _ _ HCk) as Hl1. rewrite firstn_length_le' in Hl1 by (apply (k_len s X)).
  pose proof (prefix_length _ _ HXl) as Hl2.
  constructor; simpl; try xfield X; xstep X.
  - assert (E : cur (st s f) = t0) by lia.
    destruct (N.ltb_spec (cur (st s f)) t); [lia|]. apply (v_cur s X t0 f c0 H E).
  - exact Hwf'.
  - exact Hmono'.
  - split; [reflexivity|]. exists K0. split; [exact HK0|]. split; [reflexivity|].
    apply (prefix_length _ _ HX').
  - match goal with H : In (_, f, _) (acks s) |- _ => destruct (a_ok s X _ _ _ H) as [_ HK] end.
    split; [lia | exact HK].
  - right. xauto X.
  - apply (prefix_trans _ K); [|exact HXl].
    apply comparable_length; [|assumption].
    apply (same_term_comparable V0 s K1 K0 K F); try assumption. congruence.
  - eapply HAk; eassumption.
  - destruct (Nat.le_gt_cases c (commit (st s f))) as [Hle|Hgt].
    + assert (c = commit (st s f)) as -> by lia.
      destruct (k_nc s X f) as [H0|[t1 [k1 [M1 [H1 [H2 [H3 H4]]]]]]]; [left; exact H0|].
      right. exists t1, k1, M1. split; [exact H1|]. split; [lia|]. split; [exact H3|].
      rewrite <- H4.
      rewrite <- (prefix_firstn_firstn _ lg' (commit (st s f)) HCk)
        by (rewrite firstn_length_le' by (apply (k_len s X)); lia).
      rewrite firstn_firstn. f_equal. lia.
    + right. exists tc, k, M. split; [exact Hc|]. split; [exact Htc|]. split; [lia|].
      rewrite <- (prefix_firstn_firstn K lg' c HXl) by lia.
      rewrite HKM at 1. rewrite firstn_firstn. f_equal. lia.
Qed.

Lemma dinv_install s f t l K c :
  dinv s -> xinv (do_install f t l K c s) ->
  (c <= Nat.max (commit (st s f)) (length K))%nat -> dinv (do_install f t l K c s).
Proof.
  intros D X' Hcc. pose proof (k_len _ X' f) as Hk. revert Hk.
  pose proof (d_fl s D f) as Hfl. pose proof (d_cf s D f) as Hcf.
  unfold do_install. cbv zeta. simpl. rewrite upd_eq. simpl. intro Hk.
  destruct (lprefixb K (log (st s f))) eqn:E.
  - pose proof (prefix_length _ _ (lprefixb_true _ _ E)) as Hl.
    constructor; simpl; intros; updall; simpl in *;
      try (eapply (d_elcr s D); eassumption); try apply (d_fl s D); try apply (d_cf s D); try lia.
    + destruct H as [H|H]; [inversion H; subst; lia|].
      pose proof (d_ack s D tc f i j H H0 H1 H2). lia.
    + destruct H as [H|H]; [inversion H; subst; congruence|].
      exact (d_ack s D tc v i j H H0 H1 H2).
    + apply (d_unfl s D f j e H). lia.
    + exact (d_unfl s D n j e H H0).
  - constructor; simpl; intros; updall; simpl in *;
      try (eapply (d_elcr s D); eassumption); try apply (d_fl s D); try apply (d_cf s D); try lia.
    + destruct H as [H|H]; [inversion H; subst; congruence|].
      exact (d_ack s D tc v i j H H0 H1 H2).
    + exfalso. assert (Hn : nth_error K j <> None) by congruence.
      apply nth_error_Some in Hn. lia.
    + exact (d_unfl s D n j e H H0).
Qed.

End StepH.
