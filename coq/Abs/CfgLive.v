(* Abs/CfgLive.v  Possibility of progress for Abs/CfgRaft.v: from every reachable
   state, a voter n of the latest configuration of its own log, together with a
   majority Q of that configuration whose logs are no more up to date than
   n's, can elect n and commit a new client entry (no reconfiguration used). *)
From Coq Require Import List NArith Arith Lia Bool.
From Verif Require Import Abs.Quorum Abs.RaftBase Abs.CfgQuorum Abs.CfgBase Abs.CfgRaft
  Abs.CfgInvDefs Abs.CfgInvAll.
Import ListNotations.
Open Scope N_scope.

(* [uptodate] is a total preorder *)
Lemma uptodate_total A B : uptodate A B \/ uptodate B A.
Proof. unfold uptodate. lia. Qed.

Lemma uptodate_trans A B C : uptodate A B -> uptodate B C -> uptodate A C.
Proof. unfold uptodate. lia. Qed.

Lemma uptodate_refl A : uptodate A A.
Proof. unfold uptodate. lia. Qed.

Lemma max_uptodate (f : N -> list entry) : forall Q, Q <> [] ->
  exists c, In c Q /\ forall v, In v Q -> uptodate (f c) (f v).
Proof.
  induction Q as [|a Q IH]; intros Hne; [congruence|].
  destruct Q as [|b Q'].
  - exists a. split; [left; reflexivity|]. intros v [<-|[]]. apply uptodate_refl.
  - destruct IH as [c [Hc Hup]]; [discriminate|].
    destruct (uptodate_total (f a) (f c)) as [H|H].
    + exists a. split; [left; reflexivity|]. intros v [<-|Hv]; [apply uptodate_refl|].
      exact (uptodate_trans _ _ _ H (Hup v Hv)).
    + exists c. split; [right; exact Hc|]. intros v [<-|Hv]; [exact H | exact (Hup v Hv)].
Qed.

Lemma cur_bound (s : state) : forall Q, exists M, forall v, In v Q -> cur (st s v) <= M.
Proof.
  induction Q as [|a Q [M HM]].
  - exists 0. intros v [].
  - exists (N.max M (cur (st s a))). intros v [<-|Hv]; [lia|]. pose proof (HM v Hv). lia.
Qed.

Lemma NoDup_remove_N (x : N) l : NoDup l -> NoDup (remove N.eq_dec x l).
Proof.
  induction 1 as [|a l Ha _ IH]; simpl; [constructor|].
  destruct (N.eq_dec x a); [exact IH|]. constructor; [|exact IH].
  intro H. apply in_remove in H. exact (Ha (proj1 H)).
Qed.

(* data entries do not change the configuration *)
Lemma cfg_of_data V0 L t x : cfg_of V0 (L ++ [(t, PData x)]) = cfg_of V0 L.
Proof. rewrite cfg_of_snoc. reflexivity. Qed.

Lemma gsteps_trans V0 gb s1 s2 s3 :
  gsteps V0 gb s1 s2 -> gsteps V0 gb s2 s3 -> gsteps V0 gb s1 s3.
Proof.
  intros H1 H2. induction H1 as [|s s1 s' Hs _ IH]; [exact H2|].
  exact (gs_cons V0 gb s s1 s3 Hs (IH H2)).
Qed.

Lemma gsteps_snoc V0 gb s1 s2 s3 :
  gsteps V0 gb s1 s2 -> gstep V0 gb s2 s3 -> gsteps V0 gb s1 s3.
Proof. intros H1 H2. exact (gsteps_trans V0 gb _ _ _ H1 (gsteps_one V0 gb _ _ H2)). Qed.

Section Live.
Variable V0 : list N.

Notation gs := (gsteps V0 true).

(* ---- phase 1: n moves to a term above M and asks for votes ---- *)
Lemma start_phase s n M :
  In n (cfg V0 s n) -> cur (st s n) <= M ->
  exists s2, gs s s2 /\
    st s2 n = mkN (M + 1 + 1) (Some n) Candidate [] (log (st s n)) (flushed (st s n))
                  (commit (st s n)) [] 0 /\
    (forall v, v <> n -> st s2 v = st s v) /\
    In (M + 1 + 1, n, n) (grants s2) /\
    In (M + 1 + 1, n, log (st s n)) (started s2) /\
    elected s2 = elected s /\ committed s2 = committed s.
Proof.
  intros Hn HM. exists (do_start n (do_stepdown n (M + 1) s)).
  split; [|split; [|split; [|split; [|split; [|split]]]]].
  - eapply gs_cons; [apply (SStepdown V0 true s n (M + 1)); lia|].
    apply gsteps_one. apply SStart. unfold cfg, do_stepdown. cbn [st]. rewrite upd_eq.
    cbn [log]. exact Hn.
  - unfold do_start, do_stepdown. cbn [st]. rewrite !upd_eq. reflexivity.
  - intros v Hv. unfold do_start, do_stepdown. cbn [st]. rewrite !upd_neq by exact Hv. reflexivity.
  - unfold do_start, do_stepdown. cbn [st grants]. rewrite !upd_eq. left. reflexivity.
  - unfold do_start, do_stepdown. cbn [st started]. rewrite !upd_eq. left. reflexivity.
  - reflexivity.
  - reflexivity.
Qed.

(* ---- phase 2: every node of l grants its vote of term T to c ---- *)
Lemma grant_phase c T Lc :
  forall l s1, NoDup l ->
  In (T, c, Lc) (started s1) ->
  (forall v, In v l -> cur (st s1 v) < T /\ uptodate Lc (log (st s1 v))) ->
  exists s2, gs s1 s2 /\
    (forall v, ~ In v l -> st s2 v = st s1 v) /\
    (forall v, In v l -> cur (st s2 v) = T) /\
    (forall v, In v l -> In (T, v, c) (grants s2)) /\
    incl (grants s1) (grants s2) /\
    started s2 = started s1 /\ elected s2 = elected s1 /\ committed s2 = committed s1.
Proof.
  induction l as [|a l IH]; intros s1 Hnd Hst Hpre.
  - exists s1. split; [apply gs_refl|]. split; [reflexivity|].
    split; [intros v []|]. split; [intros v []|]. split; [apply incl_refl|].
    repeat split.
  - inversion Hnd as [|a' l' Ha Hnd']; subst a' l'.
    destruct (IH s1 Hnd' Hst (fun v Hv => Hpre v (or_intror Hv)))
      as [s2 [Hsteps [Hfr [Hv2 [Hg2 [Hgi [Hst2 [He2 Hc2]]]]]]]].
    destruct (Hpre a (or_introl eq_refl)) as [Hcur Hup].
    exists (do_grant a T c s2). split; [|split; [|split; [|split; [|split; [|split; [|split]]]]]].
    + eapply gsteps_snoc; [exact Hsteps|]. apply SGrant with (L := Lc).
      * rewrite Hst2. exact Hst.
      * rewrite (Hfr a Ha). lia.
      * rewrite (Hfr a Ha). lia.
      * rewrite (Hfr a Ha). exact Hup.
    + intros v Hv. unfold do_grant. cbn [st].
      rewrite upd_neq by (intro E; apply Hv; left; symmetry; exact E).
      apply Hfr. intro H. apply Hv. right. exact H.
    + intros v [<-|Hv]; unfold do_grant; cbn [st].
      * rewrite upd_eq. reflexivity.
      * rewrite upd_neq by (intro E; subst v; exact (Ha Hv)). exact (Hv2 v Hv).
    + intros v [<-|Hv]; unfold do_grant; cbn [grants]; [left; reflexivity|].
      right. exact (Hg2 v Hv).
    + unfold do_grant; cbn [grants]. apply incl_tl. exact Hgi.
    + exact Hst2.
    + exact He2.
    + exact Hc2.
Qed.

(* ---- phase 3: candidate c counts the granted votes of the nodes of l ---- *)
Lemma count_phase c T :
  forall l s1, NoDup l -> incl l (cfg V0 s1 c) ->
  role (st s1 c) = Candidate -> cur (st s1 c) = T ->
  (forall v, In v l -> In (T, v, c) (grants s1)) ->
  (forall v, In v l -> ~ In v (got (st s1 c))) ->
  exists s2, gs s1 s2 /\
    (forall v, v <> c -> st s2 v = st s1 v) /\
    st s2 c = mkN T (vote (st s1 c)) Candidate (l ++ got (st s1 c)) (log (st s1 c))
                  (flushed (st s1 c)) (commit (st s1 c)) (matchIdx (st s1 c))
                  (startIdx (st s1 c)) /\
    grants s2 = grants s1 /\ elected s2 = elected s1 /\ committed s2 = committed s1.
Proof.
  induction l as [|a l IH]; intros s1 Hnd Hincl Hrole HT Hgr Hgot.
  - exists s1. split; [apply gs_refl|]. split; [reflexivity|].
    split; [|split; [|split]; reflexivity].
    destruct (st s1 c); simpl in *; subst; reflexivity.
  - inversion Hnd as [|a' l' Ha Hnd']; subst a' l'.
    destruct (IH s1 Hnd' (fun v Hv => Hincl v (or_intror Hv)) Hrole HT
                 (fun v Hv => Hgr v (or_intror Hv)) (fun v Hv => Hgot v (or_intror Hv)))
      as [s2 [Hsteps [Hfr [Hc2 [Hg2 [He2 Hm2]]]]]].
    exists (do_count c a s2). split; [|split; [|split; [|split; [|split]]]].
    + eapply gsteps_snoc; [exact Hsteps|]. apply SCount.
      * rewrite Hc2. reflexivity.
      * rewrite Hc2, Hg2. cbn [cur]. apply Hgr. left. reflexivity.
      * unfold cfg. rewrite Hc2. cbn [log]. apply Hincl. left. reflexivity.
      * rewrite Hc2. cbn [got]. intro H. apply in_app_or in H. destruct H as [H|H].
        -- exact (Ha H).
        -- exact (Hgot a (or_introl eq_refl) H).
    + intros v Hv. unfold do_count. cbn [st]. rewrite upd_neq by exact Hv. exact (Hfr v Hv).
    + unfold do_count. cbn [st]. rewrite upd_eq, Hc2. reflexivity.
    + exact Hg2.
    + exact He2.
    + exact Hm2.
Qed.

(* ---- phase 4: c wins, appends its no-op and the client entry x ---- *)
Lemma lead_phase s1 c T x vo Q L fl cm mi si :
  st s1 c = mkN T vo Candidate Q L fl cm mi si -> majority (cfg_of V0 L) Q ->
  exists s2, gs s1 s2 /\
    (forall v, v <> c -> st s2 v = st s1 v) /\
    st s2 c = mkN T vo Leader Q ((L ++ [(T, PData 0)]) ++ [(T, PData x)]) fl cm []
                  (length (L ++ [(T, PData 0)])) /\
    elected s2 = (T, c, L) :: elected s1 /\ committed s2 = committed s1.
Proof.
  intros Hc Hmaj. exists (do_append c (PData x) (do_win c s1)).
  split; [|split; [|split; [|split]]].
  - eapply gs_cons; [apply (SWin V0 true s1 c)|].
    + rewrite Hc. reflexivity.
    + unfold cfg. rewrite Hc. cbn [log got]. exact Hmaj.
    + apply gsteps_one. apply SClient. unfold do_win. cbn [st]. rewrite upd_eq. reflexivity.
  - intros v Hv. unfold do_append, do_win. cbn [st]. rewrite !upd_neq by exact Hv. reflexivity.
  - unfold do_append, do_win. cbn [st]. rewrite !upd_eq. rewrite Hc. reflexivity.
  - unfold do_append, do_win. cbn [st elected]. rewrite Hc. reflexivity.
  - reflexivity.
Qed.

(* ---- phase 5: the leader c of term T sends its whole log L to every node of l ---- *)
Lemma repl_phase c T L :
  forall l s1, NoDup l -> ~ In c l ->
  role (st s1 c) = Leader -> cur (st s1 c) = T -> log (st s1 c) = L ->
  (forall v, In v l -> cur (st s1 v) <= T) ->
  exists s2, gs s1 s2 /\
    (forall v, ~ In v l -> st s2 v = st s1 v) /\
    (forall v, In v l -> In (T, v, length L) (acks s2)) /\
    incl (acks s1) (acks s2) /\
    elected s2 = elected s1 /\ committed s2 = committed s1.
Proof.
  induction l as [|a l IH]; intros s1 Hnd Hcl Hrole HT HL Hpre.
  - exists s1. split; [apply gs_refl|]. split; [reflexivity|].
    split; [intros v []|]. split; [apply incl_refl|]. split; reflexivity.
  - inversion Hnd as [|a' l' Ha Hnd']; subst a' l'.
    assert (Hcl' : ~ In c l) by (intro H; apply Hcl; right; exact H).
    assert (Hca : c <> a) by (intro E; apply Hcl; left; symmetry; exact E).
    destruct (IH s1 Hnd' Hcl' Hrole HT HL (fun v Hv => Hpre v (or_intror Hv)))
      as [s2 [Hsteps [Hfr [Hak [Hai [He2 Hm2]]]]]].
    pose proof (Hpre a (or_introl eq_refl)) as Hcur.
    pose proof (Hfr c Hcl') as Hc2. pose proof (Hfr a Ha) as Ha2.
    set (m0 := mkReq T c 0 0 L 0).
    set (s3 := do_send c 0 (length L) 0 s2).
    assert (Hm0 : In m0 (appends s3)).
    { unfold s3, do_send. cbn [appends]. left. rewrite Hc2, HT, HL.
      cbn [skipn term_at]. rewrite firstn_all. reflexivity. }
    assert (Hst3 : st s3 = st s2) by reflexivity.
    exists (do_recv a m0 s3). split; [|split; [|split; [|split; [|split]]]].
    + eapply gsteps_snoc; [eapply gsteps_snoc; [exact Hsteps|]|].
      * apply (SSend V0 true s2 c 0 (length L) 0); [rewrite Hc2; exact Hrole | lia | lia].
      * apply SRecv.
        -- exact Hm0.
        -- rewrite Hst3, Ha2. exact Hcur.
        -- exact Hca.
        -- reflexivity.
    + intros v Hv. unfold do_recv. cbn [st].
      rewrite upd_neq by (intro E; apply Hv; left; symmetry; exact E).
      rewrite Hst3. apply Hfr. intro H. apply Hv. right. exact H.
    + intros v [<-|Hv]; unfold do_recv; cbn [acks]; [left; reflexivity|].
      right. exact (Hak v Hv).
    + unfold do_recv; cbn [acks]. apply incl_tl. exact Hai.
    + exact He2.
    + exact Hm2.
Qed.

(* ---- phase 6: the leader c reads the acknowledgements of the nodes of l ---- *)
Lemma ack_phase c T k :
  forall l s1,
  role (st s1 c) = Leader -> cur (st s1 c) = T ->
  (forall v, In v l -> In (T, v, k) (acks s1)) ->
  exists s2, gs s1 s2 /\
    (forall v, v <> c -> st s2 v = st s1 v) /\
    st s2 c = mkN T (vote (st s1 c)) Leader (got (st s1 c)) (log (st s1 c))
                  (flushed (st s1 c)) (commit (st s1 c))
                  (map (fun v => (v, k)) l ++ matchIdx (st s1 c)) (startIdx (st s1 c)) /\
    acks s2 = acks s1 /\ elected s2 = elected s1 /\ committed s2 = committed s1.
Proof.
  induction l as [|a l IH]; intros s1 Hrole HT Hak.
  - exists s1. split; [apply gs_refl|]. split; [reflexivity|].
    split; [|split; [|split]; reflexivity].
    destruct (st s1 c); simpl in *; subst; reflexivity.
  - destruct (IH s1 Hrole HT (fun v Hv => Hak v (or_intror Hv)))
      as [s2 [Hsteps [Hfr [Hc2 [Ha2 [He2 Hm2]]]]]].
    exists (do_ack c a k s2). split; [|split; [|split; [|split; [|split]]]].
    + eapply gsteps_snoc; [exact Hsteps|]. apply SAck.
      * rewrite Hc2. reflexivity.
      * rewrite Hc2, Ha2. cbn [cur]. apply Hak. left. reflexivity.
    + intros v Hv. unfold do_ack. cbn [st]. rewrite upd_neq by exact Hv. exact (Hfr v Hv).
    + unfold do_ack. cbn [st]. rewrite upd_eq, Hc2. reflexivity.
    + exact Ha2.
    + exact He2.
    + exact Hm2.
Qed.

(* ---- phase 7: the leader commits the client entry with quorum Q ---- *)
Lemma commit_phase s1 c T x vo g Q L fl cm mi si :
  let L' := (L ++ [(T, PData 0)]) ++ [(T, PData x)] in
  st s1 c = mkN T vo Leader g L' fl cm mi si -> (cm <= length L)%nat ->
  majority (cfg_of V0 L) Q ->
  (forall v, In v Q -> v = c \/ In (v, length L') mi) ->
  exists s2, gs s1 s2 /\ role (st s2 c) = Leader /\ cur (st s2 c) = T /\
    committed s2 = (T, length L', (T, PData x)) :: committed s1 /\
    elected s2 = elected s1.
Proof.
  intros L' Hc Hcm Hmaj Hmi. exists (do_commit c (length L') s1).
  assert (HlenL' : length L' = S (length (L ++ [(T, PData 0)]))).
  { unfold L'. rewrite (app_length (L ++ _)). simpl. lia. }
  split; [|split; [|split; [|split]]].
  - apply gsteps_one. apply (SCommit V0 true s1 c (length L') Q).
    + rewrite Hc. reflexivity.
    + rewrite Hc. change (cm < length L' <= length L')%nat. rewrite app_length in HlenL'. lia.
    + rewrite Hc. cbn [log cur]. change (lastTerm L' = T). unfold L'.
      rewrite lastTerm_snoc. reflexivity.
    + unfold cfg. rewrite Hc. cbn [log]. unfold L'. rewrite !cfg_of_data. exact Hmaj.
    + intros v Hv. destruct (Hmi v Hv) as [E|Hin]; [left; exact E|right].
      rewrite Hc. cbn [matchIdx]. exists (length L'). split; [exact Hin | lia].
  - unfold do_commit. cbn [st]. rewrite upd_eq, Hc. reflexivity.
  - unfold do_commit. cbn [st]. rewrite upd_eq, Hc. reflexivity.
  - unfold do_commit. cbn [committed]. rewrite Hc. cbn [log cur].
    rewrite HlenL'. replace (S (length (L ++ [(T, PData 0)])) - 1)%nat
      with (length (L ++ [(T, PData 0)])) by lia.
    unfold L'. rewrite nth_error_snoc. reflexivity.
  - reflexivity.
Qed.

Hypothesis V0_nodup : NoDup V0.

(* a term in which n wins later, and which n had not reached in s, has no commit in s *)
Lemma fresh_term s s' n T L k e :
  Reachable V0 s -> Reachable V0 s' -> incl (elected s) (elected s') ->
  In (T, n, L) (elected s') -> cur (st s n) < T -> ~ In (T, k, e) (committed s).
Proof.
  intros R R' Hincl He Hlt Hc.
  destruct (reachable_inv V0 V0_nodup s R) as [F X].
  destruct (reachable_inv V0 V0_nodup s' R') as [F' _].
  destruct (k_com s X T k e Hc) as [M [HcM _]].
  destruct (f_cmt V0 s F _ _ _ HcM) as [HM [HlT _]].
  destruct (f_cel V0 s F M HM) as [n' [L0 [He0 _]]]. rewrite HlT in He0.
  destruct (f_es V0 s' F' T n L n' L0 He (Hincl _ He0)) as [En _]. subst n'.
  destruct (f_elwon V0 s F T n L0 He0) as [Hst _].
  pose proof (v_st_le s X T n L0 Hst). lia.
Qed.

Theorem cfg_progress_possible_sec s n Q x :
  Reachable V0 s -> In n (cfg V0 s n) -> majority (cfg V0 s n) Q -> In n Q ->
  (forall v, In v Q -> uptodate (log (st s n)) (log (st s v))) ->
  exists s', gs s s' /\ role (st s' n) = Leader /\
    exists t k, In (t, k, (t, PData x)) (committed s') /\
      ~ In (t, k, (t, PData x)) (committed s) /\ cur (st s' n) = t.
Proof.
  intros R Hn Hmaj HnQ Hup.
  pose proof Hmaj as [Hnd [Hincl _]].
  destruct (reachable_inv V0 V0_nodup s R) as [_ X].
  destruct (cur_bound s Q) as [M HM].
  set (L := log (st s n)) in *. set (T := M + 1 + 1).
  set (l := remove N.eq_dec n Q).
  assert (Hl_nd : NoDup l) by (apply NoDup_remove_N; exact Hnd).
  assert (Hl_n : ~ In n l) by (apply remove_In).
  assert (Hl_Q : forall v, In v l -> In v Q /\ v <> n) by (intros v Hv; apply (in_remove _ _ _ _ Hv)).
  assert (HQ_l : forall v, In v Q -> v = n \/ In v l).
  { intros v Hv. destruct (N.eq_dec v n) as [E|E]; [left; exact E|right].
    apply in_in_remove; assumption. }
  (* 1: start *)
  destruct (start_phase s n M Hn (HM n HnQ)) as [s2 [G2 [Hn2 [Hfr2 [Hg2 [Hst2 [He2 Hc2]]]]]]].
  fold L T in Hn2, Hst2, Hg2.
  (* 2: grants *)
  destruct (grant_phase n T L l s2 Hl_nd Hst2) as [s3 [G3 [Hfr3 [Hcur3 [Hg3 [Hgi3 [_ [He3 Hc3]]]]]]]].
  { intros v Hv. destruct (Hl_Q v Hv) as [HvQ Hvn]. rewrite (Hfr2 v Hvn).
    split; [pose proof (HM v HvQ); unfold T; lia | exact (Hup v HvQ)]. }
  assert (Hn3 : st s3 n = mkN T (Some n) Candidate [] L (flushed (st s n)) (commit (st s n)) [] 0).
  { rewrite (Hfr3 n Hl_n). exact Hn2. }
  (* 3: count *)
  destruct (count_phase n T Q s3 Hnd) as [s4 [G4 [Hfr4 [Hn4 [_ [He4 Hc4]]]]]].
  { unfold cfg. rewrite Hn3. exact Hincl. }
  { rewrite Hn3. reflexivity. }
  { rewrite Hn3. reflexivity. }
  { intros v Hv. destruct (HQ_l v Hv) as [->|Hvl]; [apply Hgi3; exact Hg2 | exact (Hg3 v Hvl)]. }
  { intros v _. rewrite Hn3. intros []. }
  rewrite Hn3 in Hn4. cbn [vote got log flushed commit matchIdx startIdx] in Hn4.
  rewrite app_nil_r in Hn4.
  (* 4: win, client entry *)
  destruct (lead_phase s4 n T x _ _ _ _ _ _ _ Hn4 Hmaj) as [s5 [G5 [Hfr5 [Hn5 [He5 Hc5]]]]].
  set (L' := (L ++ [(T, PData 0)]) ++ [(T, PData x)]) in *.
  (* 5: replication *)
  destruct (repl_phase n T L' l s5 Hl_nd Hl_n) as [s6 [G6 [Hfr6 [Hak6 [_ [He6 Hc6]]]]]].
  { rewrite Hn5. reflexivity. }
  { rewrite Hn5. reflexivity. }
  { rewrite Hn5. reflexivity. }
  { intros v Hv. destruct (Hl_Q v Hv) as [_ Hvn].
    rewrite (Hfr5 v Hvn), (Hfr4 v Hvn), (Hcur3 v Hv). lia. }
  pose proof (Hfr6 n Hl_n) as Hn6. rewrite Hn5 in Hn6.
  (* 6: acknowledgements *)
  destruct (ack_phase n T (length L') l s6) as [s7 [G7 [_ [Hn7 [_ [He7 Hc7]]]]]].
  { rewrite Hn6. reflexivity. }
  { rewrite Hn6. reflexivity. }
  { exact Hak6. }
  rewrite Hn6 in Hn7. cbn [vote got log flushed commit matchIdx startIdx] in Hn7.
  (* 7: commit *)
  destruct (commit_phase s7 n T x _ _ Q L _ _ _ _ Hn7 (k_len s X n) Hmaj)
    as [s8 [G8 [Hr8 [Hcu8 [Hc8 He8]]]]].
  { intros v Hv. destruct (HQ_l v Hv) as [E|Hvl]; [left; exact E|right].
    apply in_or_app. left. apply in_map_iff. exists v. split; [reflexivity | exact Hvl]. }
  fold L' in Hc8.
  assert (G : gs s s8).
  { repeat (eapply gsteps_trans; [eassumption|]). apply gs_refl. }
  exists s8. split; [exact G|]. split; [exact Hr8|].
  exists T, (length L'). split; [rewrite Hc8; left; reflexivity|]. split; [|exact Hcu8].
  apply (fresh_term s s8 n T L); [exact R | exact (gsteps_reachable V0 true s s8 R G) | | |].
  - rewrite He8, He7, He6, He5, He4, He3, He2. apply incl_tl, incl_refl.
  - rewrite He8, He7, He6, He5. left. reflexivity.
  - pose proof (HM n HnQ). unfold T. lia.
Qed.

End Live.

Theorem cfg_progress_possible : forall V0, NoDup V0 -> forall s n Q x, Reachable V0 s ->
  In n (cfg V0 s n) -> majority (cfg V0 s n) Q -> In n Q ->
  (forall v, In v Q -> uptodate (log (st s n)) (log (st s v))) ->
  exists s', gsteps V0 true s s' /\ role (st s' n) = Leader /\
    exists t k, In (t, k, (t, PData x)) (committed s') /\
      ~ In (t, k, (t, PData x)) (committed s) /\ cur (st s' n) = t.
Proof. intros V0 H s n Q x. apply cfg_progress_possible_sec. exact H. Qed.

(* the hypothesis on n is satisfiable: a most up-to-date member exists *)
Theorem cfg_progress_possible_exists_candidate : forall (s : state) (Q : list N), Q <> [] ->
  exists n, In n Q /\ forall v, In v Q -> uptodate (log (st s n)) (log (st s v)).
Proof. intros s Q H. exact (max_uptodate (fun v => log (st s v)) Q H). Qed.
