(* Abs/CfgInvStepB.v  Invariant preservation: start, grant. *)
From Coq Require Import List NArith Arith Lia Bool.
From Verif Require Import Abs.Quorum Abs.RaftBase Abs.CfgQuorum Abs.CfgBase Abs.CfgRaft
  Abs.CfgInvDefs Abs.CfgInvFrame Abs.CfgInvStepA.
Import ListNotations.
Open Scope N_scope.

Section StepB.
Variable V0 : list N.

Lemma ev_same_acks s s' u v L :
  created s' = created s -> elected s' = elected s -> acks s' = acks s ->
  ev s u v L -> ev s' u v L.
Proof.
  intros Hcr Hel Hak. apply ev_mono; [rewrite Hel; apply incl_refl|].
  intros tc i K Ha _ HK _ _. rewrite Hak in Ha. rewrite Hcr in HK. split; assumption.
Qed.

Lemma facts_start s n : inv V0 s -> facts V0 (do_start n s).
Proof.
  intros [F X].
  apply (facts_frame V0 s _ F); simpl; try reflexivity; try apply incl_refl;
    try (apply incl_tl, incl_refl).
  - intros u c L [H|H]; [inversion H; subst | exact (f_st V0 s F u c L H)].
    split; [apply (n_wf s X)|]. split; [apply (n_mono s X)|]. pose proof (n_term s X c). lia.
  - intros u c L L' [H|H] [H'|H']; try (inversion H; subst); try (inversion H'; subst);
      try reflexivity; xfacts X; try lia.
    exact (f_st_one V0 s F u c L L' H H').
  - intros t v c c' [H|H] [H'|H']; try (inversion H; subst); try (inversion H'; subst);
      try reflexivity; xfacts X; try lia.
    exact (f_one V0 s F t v c c' H H').
  - intros t n' L v _ _. apply ev_same_acks; reflexivity.
Qed.

Lemma xinv_start s n : inv V0 s -> xinv (do_start n s).
Proof.
  intros [F X].
  constructor; simpl; try xfield X; xstep X.
  - eexists. left. reflexivity.
  - match goal with H : In _ (grants s) |- _ => destruct (v_gst s X _ _ _ H) as [L HL] end.
    exists L. right. exact HL.
  - right. xauto X.
  - left. reflexivity.
  - right. xauto X.
  - match goal with H : In (_, n, _) (elected s) |- _ => pose proof (el_le V0 s _ _ _ F X H) end. lia.
  - pose proof (n_term s X n). lia.
  - match goal with H : In (_, n, _) (acks s) |- _ => destruct (a_ok s X _ _ _ H) as [_ HK] end.
    split; [lia | exact HK].
  - match goal with H : In (_, n, _) (acks s) |- _ => eapply (s_ack s X _ _ _ _ H); try eassumption end.
    intros u' n' L' He Hlo Hhi.
    match goal with H : forall u' n' L', In _ (elected s) -> _ |- _ => eapply H; try eassumption end. lia.
  - match goal with H : In (_, v, _) (acks s) |- _ => eapply (s_ack s X _ _ _ _ H); try eassumption end.
    reflexivity.
    intros u' n' L' He Hlo Hhi.
    match goal with H : hyp_lt _ _ _ _ |- _ => apply (H u' n' L' He Hlo) end. lia.
  - match goal with H : In (_, v, c) (grants s) |- _ => destruct (v_gst s X _ _ _ H) as [L' HL] end.
    pose proof (v_st_le s X _ _ _ HL). lia.
  - destruct (k_nc s X n) as [H0|[t0 [k [M [H1 [H2 H3]]]]]]; [left; exact H0|].
    right. exists t0, k, M. split; [exact H1|]. split; [lia | exact H3].
Qed.

(* the heart of the vote layer: what an acknowledger still holds when it grants
   is in the candidate's log *)
Lemma grant_vote s v t c L tc i K :
  facts V0 s -> xinv s -> In (t, c, L) (started s) -> cur (st s v) <= t ->
  uptodate L (log (st s v)) -> In (tc, v, i) (acks s) -> tc < t ->
  In K (created s) -> lastTerm K = tc -> (length K <= i)%nat ->
  hyp_lt s tc t K -> (forall n' L', In (t, n', L') (elected s) -> prefix K L') ->
  prefix K L.
Proof.
  intros F X Hst Hcur Hup Hack Htc HK HlK Hlen Hhyp Hhyp_t.
  assert (HKv : prefix K (log (st s v))).
  { apply (s_ack s X tc v i K Hack HK HlK Hlen). intros u' n' L' He Hlo Hhi.
    destruct (N.eq_dec u' t) as [->|Hne]; [apply (Hhyp_t n' L' He)|].
    apply (Hhyp u' n' L' He Hlo). lia. }
  assert (HKne : K <> []).
  { destruct (f_cel V0 s F K HK) as [n0 [L0 [_ Hp]]]. intro E. rewrite E in Hp.
    apply prefix_nil_inv in Hp. destruct L0; discriminate. }
  pose proof (lastTerm_le_prefix K _ HKv (n_mono s X v) HKne) as Hge. rewrite HlK in Hge.
  destruct (f_st V0 s F _ _ _ Hst) as [HwL [HmL HlL]].
  assert (Hhi : tc < lastTerm L -> prefix K L).
  { intro Hlt. assert (HLne : L <> []) by (apply lastTerm_nonzero_ne; lia).
    pose proof (wf_self _ L HwL HLne) as HLc.
    destruct (f_cel V0 s F L HLc) as [n0 [L0 [He Hp]]].
    apply (prefix_trans _ L0); [apply (Hhyp _ n0 L0 He Hlt HlL)|].
    apply (prefix_trans _ (L0 ++ [noop (lastTerm L)])); [apply prefix_app | exact Hp]. }
  destruct Hup as [Hup|[Heq Hl]]; [apply Hhi; lia|].
  destruct (N.eq_dec (lastTerm L) tc) as [He|Hne]; [|apply Hhi; lia].
  assert (Hvne : log (st s v) <> []).
  { intro E. rewrite E in HKv. apply prefix_nil_inv in HKv. contradiction. }
  assert (HLne : L <> []).
  { intro E. subst L. destruct (log (st s v)); [congruence | simpl in Hl; lia]. }
  assert (Hcmp : comparable (log (st s v)) L).
  { apply (f_chain V0 s F); [apply wf_self; [apply (n_wf s X) | exact Hvne] |
                             apply wf_self; assumption | congruence]. }
  apply (prefix_trans _ (log (st s v))); [exact HKv|].
  apply comparable_length; assumption.
Qed.

Lemma facts_grant s v t c L :
  inv V0 s -> In (t, c, L) (started s) -> cur (st s v) <= t ->
  (cur (st s v) = t -> vote (st s v) = None \/ vote (st s v) = Some c) ->
  facts V0 (do_grant v t c s).
Proof.
  intros [F X] Hst Hcur Hvote.
  apply (facts_frame V0 s _ F); simpl; try reflexivity; try apply incl_refl;
    try (apply incl_tl, incl_refl).
  - exact (f_st V0 s F).
  - exact (f_st_one V0 s F).
  - intros t0 v0 c0 c' [H|H] [H'|H']; try (inversion H; subst); try (inversion H'; subst);
      try reflexivity; xfacts X.
    + assert (Hc : cur (st s v0) = t0) by lia.
      pose proof (v_cur s X _ _ _ H' Hc) as Hv. destruct (Hvote Hc); congruence.
    + assert (Hc : cur (st s v0) = t0) by lia.
      pose proof (v_cur s X _ _ _ H Hc) as Hv. destruct (Hvote Hc); congruence.
    + exact (f_one V0 s F t0 v0 c0 c' H H').
  - intros t0 n' L0 v0 _ _. apply ev_same_acks; reflexivity.
Qed.

Lemma xinv_grant s v t c L :
  inv V0 s -> In (t, c, L) (started s) -> cur (st s v) <= t ->
  (cur (st s v) = t -> vote (st s v) = None \/ vote (st s v) = Some c) ->
  uptodate L (log (st s v)) -> xinv (do_grant v t c s).
Proof.
  intros [F X] Hst Hcur Hvote Hup. unfold do_grant.
  destruct (N.ltb_spec (cur (st s v)) t) as [Hlt|Hge].
  - constructor; simpl; try xfield X; xstep X.
    + eexists. exact Hst.
    + right. xauto X.
    + match goal with |- lastTerm (log (st s ?n)) <= _ => pose proof (n_term s X n) end. lia.
    + match goal with H : In _ (acks s) |- _ => destruct (a_ok s X _ _ _ H) as [_ HK] end.
      split; [lia | exact HK].
    + match goal with H : In _ (acks s) |- _ => eapply (s_ack s X _ _ _ _ H); try eassumption end.
      intros u' n' L' He Hlo Hhi.
      match goal with H : forall u' n' L', In _ (elected s) -> _ |- _ => eapply H; try eassumption end. lia.
    + match goal with H : In (_, _, ?L0) (started s) |- prefix _ ?L0 =>
        rewrite (f_st_one V0 s F _ _ _ _ H Hst) end.
      eapply grant_vote; try eassumption. reflexivity.
    + match goal with |- commit (st s ?n) = 0%nat \/ _ =>
        destruct (k_nc s X n) as [H0|[t1 [k [M [H1 [H2 H3]]]]]] end; [left; exact H0|].
      right. exists t1, k, M. split; [exact H1|]. split; [lia | exact H3].
  - assert (Heq : cur (st s v) = t) by lia. clear Hge Hcur. subst t.
    specialize (Hvote eq_refl).
    constructor; simpl; try xfield X; xstep X.
    + match goal with H : In _ (grants s) |- _ => pose proof (v_cur s X _ _ _ H H0) as Hv end.
      destruct Hvote; congruence.
    + eexists. exact Hst.
    + right. xauto X.
    + right. xauto X.
    + match goal with H : In (_, _, ?L0) (started s) |- prefix _ ?L0 =>
        rewrite (f_st_one V0 s F _ _ _ _ H Hst) end.
      eapply grant_vote; try eassumption; try reflexivity.
Qed.


Lemma inv_start s n : inv V0 s -> inv V0 (do_start n s).
Proof. intro I. split; [apply facts_start | apply xinv_start]; exact I. Qed.

Lemma inv_grant s v t c L :
  inv V0 s -> In (t, c, L) (started s) -> cur (st s v) <= t ->
  (cur (st s v) = t -> vote (st s v) = None \/ vote (st s v) = Some c) ->
  uptodate L (log (st s v)) -> inv V0 (do_grant v t c s).
Proof.
  intros I H1 H2 H3 H4.
  split; [apply (facts_grant s v t c L) | apply (xinv_grant s v t c L)]; assumption.
Qed.

End StepB.
