(* C02 / C03 / C04  node-level rules behind the cluster-level theorems of Props/C02.v, C03.v, C04.v
   (abstract protocol).  Proofs in Node/LogFacts.v *)
From Coq Require Import List NArith ZArith Bool.
From Verif Require Import Base.Bytes Codec.Messages Node.Types Node.Handlers Node.Leader Node.Snap Node.Step Node.Run Node.LogFacts.
Import ListNotations.
Open Scope N_scope.

(* C02: a vote is newly cast only for a candidate whose log is at least as up to date *)
Theorem new_vote_requires_uptodate_log :
  forall s q s', on_vote_request s q = Done (success, s') ->
    (st_term s < vq_term q \/ st_voted s <> vq_src q) -> log_more_uptodate s q = false.
Proof. exact LogFacts.new_vote_requires_uptodate_log. Qed.
Print Assumptions new_vote_requires_uptodate_log.

(* C02/C04: a follower removes entries only from the first index at which the request's entry has
   another term than its own, and everything before that index is kept as it was *)
Theorem truncate_only_at_first_conflict :
  forall s es index term sync s' i t sy failed,
    consume_entries s es index term sync = Done (s', i, t, sy, failed) -> LogFacts.log_indexed s ->
    st_lastidx s = log_lastindex s -> st_snapidx s <= st_lastidx s -> st_logprev s <= st_snapidx s ->
    forall j e, log_get s j = Some e ->
      log_get s' j = Some e \/
      exists ne me, In ne es /\ st_snapidx s < e_index ne /\ e_index ne <= j /\
                    log_get s (e_index ne) = Some me /\ e_term me <> e_term ne.
Proof. exact LogFacts.truncate_only_at_first_conflict. Qed.
Print Assumptions truncate_only_at_first_conflict.

(* C04: after a successful append request the follower holds every entry of the request that lies
   above its snapshot, exactly as sent (index, term, type, payload) *)
Theorem follower_holds_request_entries :
  forall s es index term sync s' i t sy,
    consume_entries s es index term sync = Done (s', i, t, sy, false) -> LogFacts.log_indexed s ->
    st_lastidx s = log_lastindex s -> st_snapidx s <= st_lastidx s -> st_logprev s <= st_snapidx s ->
    LogFacts.consecutive es ->
    (forall e, In e es -> st_snapidx s < e_index e -> e_index e <= st_lastidx s ->
        forall me, log_get s (e_index e) = Some me -> e_term me = e_term e -> me = e) ->
    forall e, In e es -> st_snapidx s < e_index e -> log_get s' (e_index e) = Some e.
Proof. exact LogFacts.follower_holds_request_entries. Qed.
Print Assumptions follower_holds_request_entries.

(* C04: a leader never removes or rewrites entries of its own log: every leader event leaves the old
   log as a prefix of the new one (compaction of a snapshotted prefix happens in the snapshot step) *)
Theorem leader_log_append_only :
  forall opt s e s', leader_event opt s e = Done s' -> st_logprev s' = st_logprev s ->
    exists suffix, st_log s' = st_log s ++ suffix.
Proof. exact LogFacts.leader_log_append_only. Qed.
Print Assumptions leader_log_append_only.

(* C04: the request a replication writes is a faithful slice of the leader's log: consecutive
   entries right after prevLogIndex, with prevLogTerm the term of the entry at prevLogIndex (or the
   snapshot's term, or 0 at the very beginning) *)
Theorem append_request_is_log_slice :
  forall s id b s' out q l, st_ldr s = Some l -> flr_send s id b = Done (s', out) -> LogFacts.log_indexed s ->
    In (MAppend id q) (lo_msgs out) ->
    aq_term q = st_term s /\ aq_src q = st_nid s /\
    aq_entries q = firstn (length (aq_entries q)) (skipn (N.to_nat (aq_previdx q - st_logprev s)) (st_log s)) /\
    (aq_previdx q = 0 /\ aq_prevterm q = 0 \/
     aq_previdx q = st_snapidx s /\ aq_prevterm q = st_snapterm s \/
     exists pe, log_get s (aq_previdx q) = Some pe /\ aq_prevterm q = e_term pe).
Proof. exact LogFacts.append_request_is_log_slice. Qed.
Print Assumptions append_request_is_log_slice.

(* C03: entries a leader hands to the state machine from its queue sit at consecutive positions right
   after the state machine's index: each committed update is applied once, in order *)
Theorem queue_applied_in_order :
  forall s q out s', apply_queue s q [] = Done (s', out) ->
    st_fsmidx s' = st_fsmidx s + N.of_nat (length (filter (fun ne => is_log_entry (ne_typ ne)) q)) /\
    LogFacts.positions_from (st_fsmidx s + 1) q.
Proof. exact LogFacts.queue_applied_in_order. Qed.
Print Assumptions queue_applied_in_order.

(* C02: the follower's commit index only moves to an index whose entry it holds and that carries the
   leader's current term in the request *)
Theorem follower_commit_covered :
  forall sor s q s', on_append_request sor s q = Done (success, s') -> st_commit s < st_commit s' ->
    st_commit s' <= aq_commit q /\
    (st_commit s' = aq_previdx q /\ aq_prevterm q = aq_term q \/
     exists e, In e (aq_entries q) /\ e_index e = st_commit s' /\ e_term e = aq_term q).
Proof. exact LogFacts.follower_commit_covered. Qed.
Print Assumptions follower_commit_covered.
