(* C14  Segmented log is crash consistent.
   Statements only; proofs live in SegLog/CrashProofs.v.  Model and assumptions: SegLog/Crash.v. *)
From Coq Require Import List NArith ZArith.
From Verif Require Import Base.Bytes SegLog.Log SegLog.Spec SegLog.Crash SegLog.CrashProofs.
Import ListNotations.
Open Scope N_scope.

(* For every operation sequence [ops] from a fresh log, every next operation [o], every number
   [k] of primitives of [o] already issued when the crash happens (before/after each flush, header
   update, file creation, sizing and removal), both crash models, and every choice of which header
   page reached the disk and of what lies beyond the stable data: *)

(* reopening succeeds and yields a well-formed (contiguous) chain of segments *)
Theorem recovery_succeeds :
  forall segsize ops o k m choice,
    let r := rrun (init_rstate segsize) ops in
    exists L, recover segsize (image_of m (crash_disk r o k) choice) = Some L /\ wf_log L.
Proof. exact CrashProofs.recovery_succeeds. Qed.
Print Assumptions recovery_succeeds.

(* every recovered entry is intact and was really appended at that index: it is the entry the log
   held there before the interrupted operation, or the one the operation was writing *)
Theorem recovered_entries_intact :
  forall segsize ops o k m choice L i b,
    let r := rrun (init_rstate segsize) ops in
    recover segsize (image_of m (crash_disk r o k) choice) = Some L ->
    a_get (abs L) i = Some b ->
    a_get (abs (r_log r)) i = Some b \/ a_get (abs (step (r_log r) o)) i = Some b.
Proof. exact CrashProofs.recovered_entries_intact. Qed.
Print Assumptions recovered_entries_intact.

(* every entry covered by the last completed commit survives, unless the interrupted operation
   removes it *)
Theorem committed_entries_survive :
  forall segsize ops o k m choice L i b,
    let r := rrun (init_rstate segsize) ops in
    recover segsize (image_of m (crash_disk r o k) choice) = Some L ->
    i <= CrashProofs.flushed_index (r_log r) ->
    a_get (abs (r_log r)) i = Some b -> a_get (abs (step (r_log r) o)) i = Some b ->
    a_get (abs L) i = Some b.
Proof. exact CrashProofs.committed_entries_survive. Qed.
Print Assumptions committed_entries_survive.

(* between operations nothing that a completed operation removed comes back, and nothing
   never appended appears: what is recovered is part of the current sequence *)
Theorem boundary_recovery :
  forall segsize ops m choice L i b,
    let r := rrun (init_rstate segsize) ops in
    recover segsize (image_of m (r_disk r) choice) = Some L ->
    a_get (abs L) i = Some b -> a_get (abs (r_log r)) i = Some b.
Proof. exact CrashProofs.boundary_recovery. Qed.
Print Assumptions boundary_recovery.

(* the recovery of the code before the repair (a 0-byte segment file made Open fail) is refuted *)
Theorem recovery_before_fix_refuted :
  exists segsize ops o k m choice,
    recover_before_fix segsize (image_of m (crash_disk (rrun (init_rstate segsize) ops) o k) choice) = None.
Proof. exact CrashProofs.recovery_before_fix_refuted. Qed.
Print Assumptions recovery_before_fix_refuted.

Example crash_example :
  exists L, recover 1024 (image_of PowerLoss
      (crash_disk (rrun (init_rstate 1024) [OAppend (repeat 7 600); OCommit; OAppend (repeat 8 600)]) (OAppend [1;2;3]) 0)
      (fun _ => (true, [[9;9]]))) = Some L /\ a_get (abs L) 1 = Some (repeat 7 600).
Proof. exact CrashProofs.crash_example. Qed.
Print Assumptions crash_example.
