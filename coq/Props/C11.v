(* C11  Non-voters and removed nodes hold no authority.  Statements; proofs in Node/AuthFacts.v *)
From Coq Require Import List NArith ZArith Bool.
From Verif Require Import Base.Bytes Codec.Messages Node.Types Node.Handlers Node.Leader Node.Snap Node.Step Node.Run Node.AuthFacts.
Import ListNotations.
Open Scope N_scope.

(* an election is only ever started by a voter of the node's own latest configuration *)
Theorem start_election_requires_voter :
  forall s s', start_election s = Done s' -> is_voter (st_latest s) (st_nid s) = true.
Proof. exact AuthFacts.start_election_requires_voter. Qed.
Print Assumptions start_election_requires_voter.

(* election time-out at a node that is not a voter (or not part of the cluster, or not bootstrapped):
   it stays follower and only notes that the election was aborted *)
Theorem timeout_at_nonvoter_aborts :
  forall s, st_role s = Follower -> is_voter (st_latest s) (st_nid s) = false ->
    st_role (follower_on_timeout s) = Follower /\ st_aborted (follower_on_timeout s) = true /\
    st_term (follower_on_timeout s) = st_term s.
Proof. exact AuthFacts.timeout_at_nonvoter_aborts. Qed.
Print Assumptions timeout_at_nonvoter_aborts.

(* even when told to time out now *)
Theorem timeout_now_refused_by_nonvoter :
  forall s, is_voter (st_latest s) (st_nid s) = false -> on_timeout_now_request s = (nonVoter, s).
Proof. exact AuthFacts.timeout_now_refused_by_nonvoter. Qed.
Print Assumptions timeout_now_refused_by_nonvoter.

(* whatever the event, a node that becomes candidate or leader in a step is a voter of its latest
   configuration at that moment (time-out, timeout-now, bootstrap, vote results).
   REPAIRED (second alternative added): a candidate that wins runs leader.init inside the same step, and
   init may itself append a configuration in which the new leader is no voter; that configuration then
   sits at an index above everything the node held before the step, the node was a voter of the
   configuration it was elected under, and it leads only until the new one commits (below).
   The statement as first written is refuted in AuthFacts.Refutations (a sole voter with a pending
   demotion: a configuration Config.validate rejects). *)
Theorem new_candidate_or_leader_is_voter :
  forall opt s ev o s', model_event opt s ev = Done (o, s') ->
    (st_role s' = Candidate \/ st_role s' = Leader) ->
    (st_role s <> st_role s' \/ st_term s <> st_term s') ->
    (st_role s = Candidate -> is_voter (st_latest s) (st_nid s) = true) ->
    is_voter (st_latest s') (st_nid s') = true \/
    (st_role s = Candidate /\ st_role s' = Leader /\ st_nid s' = st_nid s /\
     is_voter (st_latest s) (st_nid s) = true /\ st_lastidx s < c_index (st_latest s')).
Proof. exact AuthFacts.new_candidate_or_leader_is_voter. Qed.
Print Assumptions new_candidate_or_leader_is_voter.

(* acknowledgements of non-voters never count: the commit point computed by the leader depends
   only on the match indices of the voters of the latest configuration (and on its own log iff it
   is a voter).
   REPAIRED ([NoDup] added): node ids are distinct in every configuration the codec produces (Go: a map);
   with a repeated id [is_voter] sees the first node only (refuted without it in AuthFacts.Refutations;
   AuthFacts.majority_match_ext is the form that needs no such hypothesis). *)
Theorem nonvoter_acks_do_not_count :
  forall s l l',
    NoDup (map n_id (c_nodes (st_latest s))) ->
    ld_numvoters l = ld_numvoters l' -> ld_voter l = ld_voter l' ->
    (forall id, is_voter (st_latest s) id = true -> id <> st_nid s ->
        option_map rp_match (find_repl id (ld_repls l)) = option_map rp_match (find_repl id (ld_repls l'))) ->
    majority_match s l = majority_match s l'.
Proof. exact AuthFacts.nonvoter_acks_do_not_count. Qed.
Print Assumptions nonvoter_acks_do_not_count.

(* a non-voter is promoted only when its current round is complete: it has matched the round's last
   index, and (it has everything or the round was fast enough) *)
Theorem promote_only_after_round :
  forall opt fuel s tid c id s' out rp,
    check_config_action opt fuel s tid c id = Done (s', out) ->
    st_ldr s <> None -> find_repl id (match st_ldr s with Some l => ld_repls l | None => [] end) = Some rp ->
    next_action (cfg_node0 c id) = ActPromote ->
    st_lastidx s < st_lastidx s' ->
    (match rp_round rp with
     | Some r => rd_finished r = true \/ rd_last r <= rp_match rp
     | None => st_lastidx s <= rp_match rp
     end) /\ (st_lastidx s <= rp_match rp \/ o_slow opt = false).
Proof. exact AuthFacts.promote_only_after_round. Qed.
Print Assumptions promote_only_after_round.

(* a leader that is no voter of the configuration it has just committed stops leading *)
Theorem demoted_leader_steps_down_on_commit :
  forall sor s index s' committed,
    raft_set_commit_index sor s index = (s', committed) -> committed = true ->
    st_role s = Leader -> is_voter (st_latest s') (st_nid s') = false -> st_role s' = Follower /\ st_leader s' = 0.
Proof. exact AuthFacts.demoted_leader_steps_down_on_commit. Qed.
Print Assumptions demoted_leader_steps_down_on_commit.

(* a node shuts itself down only when the configuration that removes it is committed *)
Theorem shutdown_only_after_removal_committed :
  forall sor s index s' committed,
    raft_set_commit_index sor s index = (s', committed) -> st_closed s = false -> st_closed s' = true ->
    committed = true /\ cfg_node (st_latest s') (st_nid s') = None /\ c_index (st_latest s') <= index /\
    configs_committed s' = true.
Proof. exact AuthFacts.shutdown_only_after_removal_committed. Qed.
Print Assumptions shutdown_only_after_removal_committed.
