(* C10  A node restarts consistently after a crash at any point.  Statements; proofs in Node/RestartFacts.v.
   Crash model: the process dies between two storage operations; completed file operations survive;
   the log keeps what its segment headers cover ([keep] >= st_flushed, see Handlers.restart).  The
   segment-file level (every primitive of every log operation, kill and power loss) is C14. *)
From Coq Require Import List NArith ZArith Bool.
From Verif Require Import Base.Bytes Codec.Messages Node.Types Node.Handlers Node.Leader Node.Snap Node.Step Node.Run Node.RestartFacts.
Import ListNotations.
Open Scope N_scope.

(* the node starts with exactly the term and vote it had persisted *)
Theorem restart_keeps_term_vote :
  forall s keep s', restart s keep = Done s' -> st_term s' = st_term s /\ st_voted s' = st_voted s.
Proof. exact RestartFacts.restart_keeps_term_vote. Qed.
Print Assumptions restart_keeps_term_vote.

(* every entry it had acknowledged as stored (flushed) is still there, unless the log was behind
   an installed snapshot - or, after a crash inside Log.Reset, no longer connected to it
   ([st_logprev s <= st_snapidx s] fails) - and had to be reset to it.
   REPAIRED STATEMENT: the side condition is on what SURVIVED the crash, [st_snapidx s <= keep]
   (implied by st_snapidx s <= st_flushed s, since restart requires st_flushed s <= keep); the
   first draft had [st_snapidx s <= log_lastindex s], which is refuted by
   RestartFacts.restart_keeps_flushed_entries_original_refuted (entries 1..3, flushed 1,
   snapshot at 3, keep 1: the log is reset to the snapshot and the covered entry 1 is dropped). *)
Theorem restart_keeps_flushed_entries :
  forall s keep s' i, restart s keep = Done s' -> i <= st_flushed s -> st_snapidx s <= keep ->
    st_logprev s <= st_snapidx s ->
    st_flushed s <= log_lastindex s -> log_get s' i = log_get s i.
Proof. exact RestartFacts.restart_keeps_flushed_entries. Qed.
Print Assumptions restart_keeps_flushed_entries.

Theorem restart_keeps_flushed_entries_original_refuted :
  exists s keep s' i, restart s keep = Done s' /\ i <= st_flushed s /\ st_snapidx s <= log_lastindex s /\
    st_flushed s <= log_lastindex s /\ log_get s' i <> log_get s i.
Proof. exact RestartFacts.restart_keeps_flushed_entries_original_refuted. Qed.
Print Assumptions restart_keeps_flushed_entries_original_refuted.

(* the log is contiguous with the latest snapshot after every restart, whatever the crash left -
   a log that ends before the snapshot, a log that starts after it, any log at all:
   first index - 1 <= snapshot index <= last index *)
Theorem restart_log_contiguous_with_snapshot :
  forall s keep s', restart s keep = Done s' -> RestartFacts.log_indexed s ->
    st_logprev s' <= st_snapidx s' /\ st_snapidx s' <= st_lastidx s' /\ st_lastidx s' = N.max (log_lastindex s') (st_snapidx s').
Proof. exact RestartFacts.restart_log_contiguous_with_snapshot. Qed.
Print Assumptions restart_log_contiguous_with_snapshot.

(* crash points INSIDE snapshot installation: after the term was raised, after the snapshot was
   published (log not yet reset), after the log was reset (state machine not yet restored): the
   restart of each of these intermediate states is contiguous *)
Theorem install_crash_points_restart_contiguous :
  forall s q cs keep s', In cs (RestartFacts.install_crash_states s q) -> RestartFacts.log_indexed s ->
    st_logprev s <= st_snapidx s -> restart cs keep = Done s' ->
    st_logprev s' <= st_snapidx s' /\ st_snapidx s' <= st_lastidx s'.
Proof. exact RestartFacts.install_crash_points_restart_contiguous. Qed.
Print Assumptions install_crash_points_restart_contiguous.

(* before the repair (known_findings.json D9) the middle crash point was not contiguous *)
Theorem install_crash_before_fix_refuted :
  exists s q cs keep s', In cs (RestartFacts.install_crash_states s q) /\ RestartFacts.log_indexed s /\
    st_logprev s <= st_snapidx s /\ RestartFacts.restart_before_fix cs keep = Done s' /\ st_lastidx s' < st_snapidx s'.
Proof. exact RestartFacts.install_crash_before_fix_refuted. Qed.
Print Assumptions install_crash_before_fix_refuted.

(* a crash inside Log.Reset (which removes the oldest segment files first) leaves a log that starts
   AFTER the published snapshot; before the repair recorded as D19 in known_findings.json the restart
   kept that log: first index - 1 > snapshot index *)
Theorem reset_crash_before_fix2_refuted :
  exists cs keep s', RestartFacts.log_indexed cs /\ st_snapidx cs < st_logprev cs /\
    RestartFacts.restart_before_fix2 cs keep = Done s' /\ st_snapidx s' < st_logprev s'.
Proof. exact RestartFacts.reset_crash_before_fix2_refuted. Qed.
Print Assumptions reset_crash_before_fix2_refuted.

(* a restarted node starts as a follower that knows no leader, with the configuration of the newest
   configuration entry above its snapshot (else the snapshot's) *)
Theorem restart_role_and_config :
  forall s keep s', restart s keep = Done s' ->
    st_role s' = Follower /\ st_leader s' = 0 /\ st_ldr s' = None /\ st_commit s' = st_snapidx s' /\ st_fsmidx s' = st_snapidx s'.
Proof. exact RestartFacts.restart_role_and_config. Qed.
Print Assumptions restart_role_and_config.
