(* C17 (availability half, abstract protocol)  The protocol never paints itself into a corner.
   Statement only; the proof (an explicit witness run: election of the member of Q with the most
   up-to-date log in a fresh term, replication of a new entry, acknowledgements, commit, heartbeat)
   is in Abs/RaftLive.v, over the model of Abs/Raft.v (static voters V; crashes, restarts, lost /
   duplicated / reordered messages, deposed leaders, snapshot installations may all have happened
   before: s is ANY reachable state).

   This is a possibility statement (some continuation exists in which only the members of Q take
   steps), not a bound in time: real time, randomised time-outs and fair scheduling are outside any
   executable model, so "within a bounded number of election time-outs" stays PARTIAL. *)
From Coq Require Import List NArith Lia.
From Verif Require Import Abs.Quorum Abs.RaftBase Abs.Raft Abs.RaftLive Abs.RaftRun.
Import ListNotations.
Open Scope N_scope.

(* whatever happened before, any majority Q of healthy voters can elect one of its members in a term
   above all of theirs and commit a new entry p on every member of Q, durably, on top of the log of a
   member of Q (so nothing that member held is lost) *)
Theorem progress_possible : forall V Q s p,
  majority V Q -> ~ In 0 Q -> Reachable V s ->
  exists s' l, steps V s s' /\ In l Q /\ role (st s' l) = Leader /\
    (forall v, In v Q -> cur (st s v) < cur (st s' l)) /\
    (exists c, In c Q /\ log (st s' l) = log (st s c) ++ [(cur (st s' l), p)]) /\
    (forall v, In v Q ->
       cur (st s' v) = cur (st s' l) /\ log (st s' v) = log (st s' l) /\
       commit (st s' v) = length (log (st s' l)) /\ flushed (st s' v) = length (log (st s' l))).
Proof. exact RaftLive.progress_possible. Qed.
Print Assumptions progress_possible.

Theorem progress_possible_all : forall V s (p : N),
  NoDup V -> V <> [] -> ~ In 0 V -> Reachable V s ->
  exists s' l, steps V s s' /\ In l V /\ role (st s' l) = Leader /\
    forall v, In v V -> log (st s' v) = log (st s' l) /\ commit (st s' v) = length (log (st s' l)).
Proof. exact RaftLive.progress_possible_all. Qed.
Print Assumptions progress_possible_all.

(* non-vacuity: the premises hold of the crashed 3-voter run of Abs/RaftRun.v with Q = {2, 3} *)
Example premises_satisfiable :
  majority V3 [2; 3] /\ ~ In 0 [2; 3] /\ Reachable V3 run_crashed.
Proof.
  split; [|split; [|exact reachable_run_crashed]].
  - split; [repeat constructor; simpl; intuition discriminate|]. split; [|simpl; lia].
    intros v Hv. simpl in *. intuition.
  - simpl. intuition discriminate.
Qed.
