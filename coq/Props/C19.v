(* C19  A node's observable state is ordered and never regresses.
   Statements only; proofs live in Node/InfoInv.v.
   The fields are those Raft.info() reports: Term, Committed (commitIndex),
   LastApplied (fsm.index), SnapshotIndex, FirstLogIndex-1 (log.PrevIndex), LastLogIndex, Configs. *)
From Coq Require Import List NArith ZArith.
From Verif Require Import Base.Bytes Codec.Messages Node.Types Node.Handlers Node.Leader Node.Snap Node.Step Node.Run Node.InfoInv.
Import ListNotations.
Open Scope N_scope.

(* what every status report satisfies *)
Definition info_ordered (s : nstate) : Prop :=
  st_fsmidx s <= st_commit s /\ st_commit s <= st_lastidx s /\
  st_logprev s <= st_snapidx s /\ st_snapidx s <= st_lastidx s /\
  c_index (st_committed s) <= c_index (st_latest s).

(* the latest configuration is the newest configuration entry of log-or-snapshot *)
Definition latest_is_newest (s : nstate) : Prop := st_latest s = InfoInv.newest_config s.

(* The only thing assumed of the environment ([InfoInv.env_ok] = [InfoInvDefs.env_ok], stated in
   Node/InfoInvDefs.v in full): the entries of an append request are numbered consecutively and do
   not contradict the receiver's log at an index that the receiver already knows committed (commit
   index or committed configuration); a snapshot offered for installation does not contradict such
   an index either and carries the configuration in force at its index ([X1],[X2]); the
   configuration handed to Bootstrap survives its own encoding ([X3]); no snapshot is requested
   while the committed configuration is newer than the applied index ([X4]); and the match index a
   replication reports to its leader is an index of the leader's log.  Stale, duplicated, reordered
   requests with any prev/commit coordinates, votes, time-outs, tasks, snapshots, restarts, and
   every oracle value the model accepts are all allowed. *)

Theorem inv_initial : forall cid nid, InfoInv.node_inv (fresh_node cid nid).
Proof. exact InfoInv.inv_initial. Qed.
Print Assumptions inv_initial.

Theorem inv_step :
  forall opt s ev o s', InfoInv.node_inv s -> InfoInv.env_ok s ev ->
    model_event opt s ev = Done (o, s') -> InfoInv.node_inv s'.
Proof. exact InfoInv.inv_step. Qed.
Print Assumptions inv_step.

Theorem inv_ordered : forall s, InfoInv.node_inv s -> info_ordered s /\ latest_is_newest s.
Proof. exact InfoInv.inv_ordered. Qed.
Print Assumptions inv_ordered.

(* hence every state of every history in which the environment behaves is ordered *)
Theorem info_ordered_always :
  forall cid nid tr s, InfoInv.nrun_ok (fresh_node cid nid) tr s -> info_ordered s /\ latest_is_newest s.
Proof. exact InfoInv.info_ordered_always. Qed.
Print Assumptions info_ordered_always.

(* between two reports of one incarnation nothing goes backwards *)
Theorem info_monotone :
  forall opt s ev o s', InfoInv.node_inv s -> InfoInv.env_ok s ev -> (forall k, ev <> ERestart k) ->
    model_event opt s ev = Done (o, s') ->
    st_term s <= st_term s' /\ st_commit s <= st_commit s' /\ st_fsmidx s <= st_fsmidx s' /\ st_snapidx s <= st_snapidx s'.
Proof. exact InfoInv.info_monotone. Qed.
Print Assumptions info_monotone.

(* non-vacuity: a bootstrapped follower that accepted two entries and committed one *)
Example inv_example : exists s, InfoInv.node_inv s /\ st_commit s = 2 /\ st_lastidx s = 3.
Proof. exact InfoInv.inv_example. Qed.
Print Assumptions inv_example.

(* and such a state ends a history in which the environment behaves: bootstrap, then two append requests *)
Example run_example :
  exists tr s, InfoInv.nrun_ok (fresh_node 7 1) tr s /\ st_commit s = 2 /\ st_lastidx s = 3.
Proof. exact InfoInv.run_example. Qed.
Print Assumptions run_example.
