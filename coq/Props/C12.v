(* C12  Snapshots are labelled with the right index, term and membership.
   Statements; proofs in Node/SnapFacts.v *)
From Coq Require Import List NArith ZArith Bool.
From Verif Require Import Base.Bytes Codec.Messages Node.Types Node.Handlers Node.Leader Node.Snap Node.Step Node.Run Node.SnapFacts.
Import ListNotations.
Open Scope N_scope.

(* what the snapshot task captures is the state machine's position and the committed
   configuration at the same instant (the request is enqueued by the main loop) *)
Theorem snapshot_captures_fsm_position_and_committed_config :
  forall s tid th s' out rq, on_take_snapshot s tid th = Done (s', out) -> st_snapbusy s = false ->
    st_snapreq s' = Some rq ->
    sr_index rq = st_fsmidx s /\ sr_term rq = st_fsmterm s /\ sr_config rq = st_committed s /\ sr_tid rq = tid.
Proof. exact SnapFacts.snapshot_captures_fsm_position_and_committed_config. Qed.
Print Assumptions snapshot_captures_fsm_position_and_committed_config.

(* the goroutine publishes exactly that label, and only if it is newer than the current snapshot *)
Theorem published_label_is_the_captured_one :
  forall s s' rq, snapshot_run s = Done s' -> st_snapreq s = Some rq -> sr_done rq = SnapPending ->
    (st_snapidx s < sr_index rq ->
       st_snapidx s' = sr_index rq /\ st_snapterm s' = sr_term rq /\ st_snapcfg s' = sr_config rq) /\
    (sr_index rq <= st_snapidx s ->
       st_snapidx s' = st_snapidx s /\ st_snapterm s' = st_snapterm s /\ st_snapcfg s' = st_snapcfg s).
Proof. exact SnapFacts.published_label_is_the_captured_one. Qed.
Print Assumptions published_label_is_the_captured_one.

(* the committed configuration IS the configuration in force at the commit index whenever the
   bookkeeping invariant holds, so the label's membership is the one in force at the label's index *)
Theorem label_config_in_force :
  forall s tid th s' out rq,
    SnapFacts.config_bookkeeping s -> st_fsmidx s = st_commit s ->
    on_take_snapshot s tid th = Done (s', out) -> st_snapbusy s = false -> st_snapreq s' = Some rq ->
    sr_config rq = SnapFacts.config_at s (sr_index rq).
Proof. exact SnapFacts.label_config_in_force. Qed.
Print Assumptions label_config_in_force.

(* after a restart the membership is the newest configuration entry above the snapshot, else the
   snapshot's label *)
Theorem membership_after_restart :
  forall s keep s', restart s keep = Done s' ->
    st_latest s' = SnapFacts.newest_config_above_snapshot s' /\
    (st_committed s' = st_snapcfg s' \/ exists e, In e (st_log s') /\ e_typ e = entryConfig /\ config_of_entry e = Some (st_committed s')).
Proof. exact SnapFacts.membership_after_restart. Qed.
Print Assumptions membership_after_restart.

(* installing a snapshot that replaces the log adopts the label's membership as latest and
   committed configuration; installing one the log already covers leaves the membership alone *)
Theorem install_adopts_label :
  forall s q np s', on_install_snap_request s q np = Done (success, s') -> st_term s <= sq_term q ->
    st_snapidx s < sq_lastidx q ->
    st_snapidx s' = sq_lastidx q /\ st_snapterm s' = sq_lastterm q /\ st_snapcfg s' = sq_config q /\
    ((st_log s' = [] /\ st_latest s' = sq_config q /\ st_committed s' = sq_config q /\ st_commit s' = sq_lastidx q)
     \/ (st_latest s' = st_latest s /\ st_committed s' = st_committed s /\ st_commit s' = st_commit s)).
Proof. exact SnapFacts.install_adopts_label. Qed.
Print Assumptions install_adopts_label.
