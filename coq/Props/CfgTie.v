(* Props/CfgTie.v  Observed histories and the abstract protocol with membership changes.
   Statements only.  [run_hist V0 h] (Abs/CfgExec.v) replays a history observed on real nodes
   against Abs/CfgRaft.v: each item is the list of abstract actions an observed event amounts to
   (checked with the boolean guards of Abs/CfgRun.v) and what some nodes look like afterwards
   (same term, same log, observed commit index not ahead, observed Leader/Candidate role matched,
   same durable prefix after the abstract nodes caught up by implicit flushes: a real node may
   have flushed more than the abstract one has to, never less -- code 5).
   An accepted history ends in a reachable abstract state, so the safety theorems of
   Props/C08_abs.v hold of the observations.  Proofs: Abs/CfgExec.v, Abs/CfgExecThms.v,
   Abs/CfgExecSample.v. *)
From Coq Require Import List NArith Lia.
From Verif Require Import Abs.CfgBase Abs.CfgRaft Abs.CfgRun Abs.CfgExec Abs.CfgExecThms
  Abs.CfgExecSample Abs.CfgClient Abs.CfgExecClient.
Import ListNotations.
Open Scope N_scope.

Theorem cfg_run_hist_reachable : forall V0 h s,
  run_hist V0 h = HOk s -> Reachable V0 s.
Proof. exact run_hist_reachable. Qed.
Print Assumptions cfg_run_hist_reachable.

Theorem cfg_run_hist_prefix : forall V0 h1 h2 s,
  run_hist V0 (h1 ++ h2) = HOk s -> exists s1, run_hist V0 h1 = HOk s1.
Proof. exact run_hist_prefix. Qed.
Print Assumptions cfg_run_hist_prefix.

Theorem cfg_run_hist_last_obs : forall V0 h acts os s,
  run_hist V0 (h ++ [(acts, os)]) = HOk s -> forall p, In p os -> obs_okb s p = 0%nat.
Proof. exact run_hist_last_obs. Qed.
Print Assumptions cfg_run_hist_last_obs.

(* what code 0 means *)
Theorem cfg_obs_ok_meaning : forall s n o, obs_okb s (n, o) = 0%nat ->
  cur (st s n) = o_cur o /\ log (st s n) = o_log o /\
  (o_commit o <= commit (st s n))%nat /\
  (o_role o = Leader -> role (st s n) = Leader) /\
  (o_role o = Candidate -> role (st s n) = Candidate) /\
  flushed (st s n) = o_flushed o.
Proof. exact obs_okb_ok. Qed.
Print Assumptions cfg_obs_ok_meaning.

Theorem cfg_observed_state_machine_safety : forall V0, NoDup V0 -> forall h acts os s,
  run_hist V0 (h ++ [(acts, os)]) = HOk s -> forall n o m o' i,
  In (n, o) os -> In (m, o') os ->
  (1 <= i)%nat -> (i <= o_commit o)%nat -> (i <= o_commit o')%nat ->
  exists e, nth_error (o_log o) (i - 1) = Some e /\ nth_error (o_log o') (i - 1) = Some e.
Proof. exact observed_cfg_state_machine_safety. Qed.
Print Assumptions cfg_observed_state_machine_safety.

Theorem cfg_observed_one_leader_per_term : forall V0, NoDup V0 -> forall h acts os s,
  run_hist V0 (h ++ [(acts, os)]) = HOk s -> forall n o m o',
  In (n, o) os -> In (m, o') os ->
  o_role o = Leader -> o_role o' = Leader -> o_cur o = o_cur o' -> n = m.
Proof. exact observed_cfg_one_leader_per_term. Qed.
Print Assumptions cfg_observed_one_leader_per_term.

Theorem cfg_observed_log_matching : forall V0, NoDup V0 -> forall h acts os s,
  run_hist V0 (h ++ [(acts, os)]) = HOk s -> forall n o m o' i,
  In (n, o) os -> In (m, o') os ->
  (0 < i)%nat -> (i <= length (o_log o))%nat -> (i <= length (o_log o'))%nat ->
  term_at (o_log o) i = term_at (o_log o') i ->
  firstn i (o_log o) = firstn i (o_log o').
Proof. exact observed_cfg_log_matching. Qed.
Print Assumptions cfg_observed_log_matching.

(* what a node reports as committed is within what it reports as durable *)
Theorem cfg_observed_commit_durable : forall V0, NoDup V0 -> forall h acts os s,
  run_hist V0 (h ++ [(acts, os)]) = HOk s -> forall n o,
  In (n, o) os -> (o_commit o <= o_flushed o)%nat.
Proof.
  intros V0 HV h acts os s Hr n o Hin.
  exact (proj1 (observed_cfg_commit_durable V0 HV h acts os s Hr n o Hin)).
Qed.
Print Assumptions cfg_observed_commit_durable.

Example cfg_sample_history_accepted :
  exists s, run_hist [1; 2; 3] sample_cfg_history = HOk s.
Proof. exact sample_cfg_history_accepted. Qed.
Print Assumptions cfg_sample_history_accepted.

(* node 2 observed with a log that differs: item 6, code 2 (log) *)
Example cfg_sample_bad_log_rejected :
  run_hist [1; 2; 3] sample_cfg_bad_log = HFail 6 2.
Proof. exact sample_cfg_bad_log_rejected. Qed.
Print Assumptions cfg_sample_bad_log_rejected.

(* a second leader observed in term 1: item 4, second observation, code 4 (role) *)
Example cfg_sample_two_leaders_rejected :
  run_hist [1; 2; 3] sample_cfg_two_leaders = HFail 4 14.
Proof. exact sample_cfg_two_leaders_rejected. Qed.
Print Assumptions cfg_sample_two_leaders_rejected.

(* a second winner in term 1: item 4, first action refused *)
Example cfg_sample_second_winner_rejected :
  run_hist [1; 2; 3] sample_cfg_second_winner = HFail 4 1000.
Proof. exact sample_cfg_second_winner_rejected. Qed.
Print Assumptions cfg_sample_second_winner_rejected.

(* a follower that acknowledged without flushing: item 6, code 5 (durable prefix) *)
Example cfg_sample_not_flushed_rejected :
  run_hist [1; 2; 3] sample_cfg_not_flushed = HFail 6 5.
Proof. exact sample_cfg_not_flushed_rejected. Qed.
Print Assumptions cfg_sample_not_flushed_rejected.

(* a crashed node that still has its unflushed entry: item 11, code 2 (log) *)
Example cfg_sample_crash_keeps_rejected :
  run_hist [1; 2; 3] sample_cfg_crash_keeps = HFail 11 2.
Proof. exact sample_cfg_crash_keeps_rejected. Qed.
Print Assumptions cfg_sample_crash_keeps_rejected.

(* a deposed leader with an unflushed entry receives a heartbeat that changes nothing:
   it flushes nothing, and the history is accepted *)
Example cfg_sample_heartbeat_no_flush_accepted :
  explain_all [1; 2; 3] sample_cfg_heartbeat_no_flush = [].
Proof. exact sample_cfg_heartbeat_no_flush_accepted. Qed.
Print Assumptions cfg_sample_heartbeat_no_flush_accepted.

(* a lagging follower installs the committed prefix as a snapshot, the leader reads the
   acknowledgement and continues *)
Example cfg_sample_install_accepted : explain_all [1; 2; 3] sample_cfg_install = [].
Proof. exact sample_cfg_install_accepted. Qed.
Print Assumptions cfg_sample_install_accepted.

(* a snapshot whose content was never committed: item 10, first action refused *)
Example cfg_sample_install_uncommitted_rejected :
  run_hist [1; 2; 3] sample_cfg_install_uncommitted = HFail 10 1000.
Proof. exact sample_cfg_install_uncommitted_rejected. Qed.
Print Assumptions cfg_sample_install_uncommitted_rejected.

(* a request cut by the network after one whole entry, then delivered again in full *)
Example cfg_sample_cut_accepted : explain_all [1; 2; 3] sample_cfg_cut = [].
Proof. exact sample_cfg_cut_accepted. Qed.
Print Assumptions cfg_sample_cut_accepted.

(* a snapshot installed with a commit index below the abstract one: accepted, the abstract
   commit index keeps the higher value *)
Example cfg_sample_install_behind_accepted :
  explain_all [1; 2; 3] sample_cfg_install_behind = [].
Proof. exact sample_cfg_install_behind_accepted. Qed.
Print Assumptions cfg_sample_install_behind_accepted.

(* an accepted history is a run of actions (Abs/CfgRun.v): its own actions
   ([hist_actions h] = concat (map fst h)) plus an AFlush for every implicit catch-up flush *)
Theorem cfg_run_hist_as_run : forall V0 h s,
  run_hist V0 h = HOk s ->
  exists acts, run V0 true acts init = Some s /\
    forall x, client_count x acts = client_count x (hist_actions h).
Proof. exact run_hist_as_run. Qed.
Print Assumptions cfg_run_hist_as_run.

(* C07 on observations: a client payload x <> 0 accepted at most once in the history occurs
   at most once in an observed log (n = m) and at one position and term in all observed logs *)
Theorem cfg_observed_client_entry_one_position : forall V0, NoDup V0 ->
  forall h acts os s x n o m o' i j t t',
  run_hist V0 (h ++ [(acts, os)]) = HOk s -> x <> 0 ->
  (client_count x (hist_actions (h ++ [(acts, os)])) <= 1)%nat ->
  In (n, o) os -> In (m, o') os ->
  nth_error (o_log o) i = Some (t, PData x) ->
  nth_error (o_log o') j = Some (t', PData x) -> i = j /\ t = t'.
Proof. exact observed_client_entry_one_position. Qed.
Print Assumptions cfg_observed_client_entry_one_position.

Theorem cfg_observed_client_entry_never_submitted : forall V0, NoDup V0 ->
  forall h acts os s x n o i t,
  run_hist V0 (h ++ [(acts, os)]) = HOk s -> x <> 0 ->
  client_count x (hist_actions (h ++ [(acts, os)])) = 0%nat ->
  In (n, o) os -> nth_error (o_log o) i <> Some (t, PData x).
Proof. exact observed_client_entry_never_submitted. Qed.
Print Assumptions cfg_observed_client_entry_never_submitted.
