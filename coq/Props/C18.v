(* C18  Wire and on-disk encodings round-trip and stay framed.
   Statements only; proofs live in Codec/*Proofs.v. *)
From Coq Require Import List NArith.
From Verif Require Import Base.Bytes Codec.Parser Codec.ParserLemmas Codec.Messages Codec.TaskSpec Codec.MessagesProofs
  Codec.ValueFile Codec.ValueFileProofs.
Import ListNotations.
Open Scope N_scope.

(* every message / entry / Node / Config / snapshot label / Replication / Info:
   decode (encode v ++ tl) = v and leaves exactly tl (pipelined streams stay framed) *)
Theorem msg_roundtrip_framed :
  forall m tl, wf_msg m -> dec_msg (kind_of m) (enc_msg m ++ tl) = Some (m, tl).
Proof. exact MessagesProofs.msg_roundtrip. Qed.
Print Assumptions msg_roundtrip_framed.

(* any proper prefix of any encoding is an error, never a value *)
Theorem msg_truncation_is_error :
  forall m c', wf_msg m -> pprefix c' (enc_msg m) -> dec_msg (kind_of m) c' = None.
Proof. exact MessagesProofs.msg_truncation. Qed.
Print Assumptions msg_truncation_is_error.

(* on arbitrary input (not only encodings) every decoder is prefix-closed:
   whatever it accepts it accepts because of an exact chunk, leaves the rest
   untouched, and rejects every truncation of that chunk *)
Theorem msg_decoders_strict : forall k, strict (dec_msg k).
Proof. exact MessagesProofs.dec_msg_strict. Qed.
Print Assumptions msg_decoders_strict.

(* admin task responses: result values come back exactly; NotLeaderError
   (leader hint and lost flag), the plainError sentinels and ErrNotCommitReady
   (temporaryError) come back equal; InProgressError comes back as an
   InProgressError (kind); anything else degrades to a bare error string *)
(* norm_taskres, typ_ok, wf_taskres: see Codec/TaskSpec.v *)
Theorem taskres_roundtrip_framed :
  forall t r tl, wf_taskres r -> typ_ok t r ->
    dec_taskres t (enc_taskres r ++ tl) = Some (norm_taskres r, tl).
Proof. exact MessagesProofs.taskres_roundtrip. Qed.
Print Assumptions taskres_roundtrip_framed.

Theorem taskres_truncation_is_error :
  forall t r c', wf_taskres r -> typ_ok t r -> pprefix c' (enc_taskres r) -> dec_taskres t c' = None.
Proof. exact MessagesProofs.taskres_truncation. Qed.
Print Assumptions taskres_truncation_is_error.

(* the error kinds a client must be able to tell apart survive *)
Theorem task_error_kinds_recognised :
  (forall n l, norm_taskres (TRErr (TENotLeader n l)) = TRErr (TENotLeader n l)) /\
  (forall s, norm_taskres (TRErr (TEPlain s)) = TRErr (TEPlain s)) /\
  (forall s, norm_taskres (TRErr (TETemporary s)) = TRErr (TETemporary s)) /\
  (forall s, exists s', norm_taskres (TRErr (TEInProgress s)) = TRErr (TEInProgress s')) /\
  (forall r, (forall e, r <> TRErr e) -> norm_taskres r = r).
Proof.
  repeat split; try reflexivity.
  - intro s. eexists. reflexivity.
  - intros r H. destruct r as [e| | | |]; try reflexivity. exfalso. now apply (H e).
Qed.
Print Assumptions task_error_kinds_recognised.

(* persisted identity / term / vote: every pair of 64-bit values reads back
   exactly (value.go after the repair; see value_roundtrip_signed_refuted) *)
Theorem value_roundtrip :
  forall v1 v2 ext, v1 < two64 -> v2 < two64 ->
    open_value (value_file v1 v2 ext) ext = Some (v1, v2).
Proof. exact ValueFileProofs.value_roundtrip. Qed.
Print Assumptions value_roundtrip.

(* the signed parse the code used before the repair does NOT have this
   property: the witness is the replay of the finding *)
Theorem value_roundtrip_signed_refuted :
  exists v1 v2 ext, v1 < two64 /\ v2 < two64 /\
    open_value_signed (value_file v1 v2 ext) ext <> Some (v1, v2).
Proof. exact ValueFileProofs.value_roundtrip_signed_refuted. Qed.
Print Assumptions value_roundtrip_signed_refuted.

(* non-vacuity: concrete non-trivial values meet the hypotheses *)
Example wf_example_installsnap :
  wf_msg (MInstallSnapReq 7 2 100 6
            (mkConfig [mkNode 1 [77;49;58;56] true [] 0; mkNode 2 [77;50;58;56] false [120] 1] 90 5) 4096).
Proof. exact MessagesProofs.wf_example_installsnap. Qed.
Example value_example : open_value (value_file 18446744073709551615 9223372036854775808 [46;116]) [46;116]
                        = Some (18446744073709551615, 9223372036854775808).
Proof. vm_compute. reflexivity. Qed.
