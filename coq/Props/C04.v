(* C04  Log matching.
   Statements only; the model (step relation, Reachable) is Abs/Raft.v, the
   proofs are in Abs/RaftLog.v (invariant [linv]) on top of Abs/RaftVotes.v.

   The model covers every cluster size (V is any voter list), every
   interleaving, loss / arbitrary delay / duplication / reordering of append
   requests (also after their sender was deposed), stale leaders, step-downs,
   crash + restart losing the unflushed log tail; nothing is bounded.
   Positions are 0-based here: position j is log index j+1. *)
From Coq Require Import List NArith Lia.
From Verif Require Import Abs.Quorum Abs.RaftBase Abs.Raft Abs.RaftLog Abs.RaftRun.
Import ListNotations.
Open Scope N_scope.

(* two logs of the same reachable state that hold entries of the same term at
   one index hold the same entry there and agree on everything before it *)
Theorem log_matching :
  forall V s n1 n2, Reachable V s ->
    forall j e1 e2,
      nth_error (log (st s n1)) j = Some e1 -> nth_error (log (st s n2)) j = Some e2 ->
      eterm e1 = eterm e2 ->
      e1 = e2 /\ firstn (S j) (log (st s n1)) = firstn (S j) (log (st s n2)).
Proof. exact RaftLog.log_matching. Qed.
Print Assumptions log_matching.

(* the same for any two log values ever held, at any two instants of a run *)
Theorem log_matching_history :
  forall V s s' n1 n2, Reachable V s -> steps V s s' ->
    forall j e1 e2,
      nth_error (log (st s n1)) j = Some e1 -> nth_error (log (st s' n2)) j = Some e2 ->
      eterm e1 = eterm e2 ->
      e1 = e2 /\ firstn (S j) (log (st s n1)) = firstn (S j) (log (st s' n2)).
Proof. exact RaftLog.log_matching_history. Qed.
Print Assumptions log_matching_history.

(* entries travelling in an append request agree with every log entry of the
   same term at the same index (entry k of the request has index prevIdx+k+1) *)
Theorem request_matching :
  forall V s m n k e1 e2, Reachable V s -> In m (appends s) ->
    nth_error (rents m) k = Some e1 ->
    nth_error (log (st s n)) (rprevIdx m + k) = Some e2 ->
    eterm e1 = eterm e2 -> e1 = e2.
Proof. exact RaftLog.request_matching. Qed.
Print Assumptions request_matching.

(* a step that leaves n Leader in the same term only extends its log at the tail *)
Theorem leader_append_only :
  forall V s s' n, step V s s' ->
    role (st s n) = Leader -> role (st s' n) = Leader -> cur (st s' n) = cur (st s n) ->
    exists tail, log (st s' n) = log (st s n) ++ tail.
Proof. exact RaftLog.leader_append_only. Qed.
Print Assumptions leader_append_only.

(* non-vacuity: a 3-voter run in which node 1 is elected in term 2, replicates
   and commits one entry; later it appends a second entry and loses it in a crash *)
Example hypotheses_satisfiable :
  NoDup V3 /\ Reachable V3 run_committed /\ Reachable V3 run_crashed /\
  steps V3 run_committed run_crashed /\
  role (st run_committed 1) = Leader /\ cur (st run_committed 1) = 2 /\
  log (st run_committed 1) = [(2, 0)] /\ log (st run_committed 2) = [(2, 0)] /\
  commit (st run_committed 1) = 1%nat /\
  log (st (do_client_append 1 7 run_followers) 1) = [(2, 0); (2, 7)] /\
  log (st run_crashed 1) = [(2, 0)].
Proof.
  split; [exact (proj1 run_facts)|]. split; [exact reachable_run_committed|].
  split; [exact reachable_run_crashed|].
  split; [exact steps_committed_crashed|].
  vm_compute. repeat split; reflexivity.
Qed.
Print Assumptions hypotheses_satisfiable.
