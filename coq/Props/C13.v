(* C13  Segmented log behaves as an abstract sequence.
   Statements only; proofs live in SegLog/Refine.v. *)
From Coq Require Import List NArith ZArith.
From Verif Require Import Base.Bytes SegLog.Log SegLog.Spec SegLog.Refine.
Import ListNotations.
Open Scope N_scope.

(* every operation sequence from a fresh log (any segment size) keeps the
   segment chain well formed, and every single operation moves the abstract
   sequence exactly as the specification allows *)
Theorem log_refines_seq :
  forall segsize ops, wf_log (run (open_log segsize) ops) /\
    forall o, astep (abs (run (open_log segsize) ops)) o (abs (step (run (open_log segsize) ops) o)).
Proof. exact Refine.log_refines_seq. Qed.
Print Assumptions log_refines_seq.

(* Append either appends exactly b at the next index or refuses and changes
   nothing; it refuses only an entry that does not fit an EMPTY last segment *)
Theorem append_outcome :
  forall l b, wf_log l ->
    match l_append l b with
    | (Ok _, l') => abs l' = mkALog (a_prev (abs l)) (a_ents (abs l) ++ [b])
    | (ErrExceeds, l') => l' = l /\ exists s, last_seg l = Some s /\ s_ents s = [] /\ (s_avail s < Z.of_N (blen b))%Z
    | _ => False
    end.
Proof. exact Refine.append_outcome. Qed.
Print Assumptions append_outcome.

(* reads of the log itself: Prev/Last/Count/Contains/Get agree with the sequence *)
Theorem reads_agree :
  forall l, wf_log l ->
    l_prev l = Ok (a_prev (abs l)) /\ l_last l = Ok (a_last (abs l)) /\
    h_count (handle_of l) = Ok (a_last (abs l) - a_prev (abs l)) /\
    (forall i, h_contains (handle_of l) i = Ok (a_contains (abs l) i)) /\
    (forall i, h_get (handle_of l) i =
       if a_last (abs l) <? i then Panic
       else match a_get (abs l) i with Some b => Ok b | None => ErrNotFound end).
Proof. exact Refine.reads_agree. Qed.
Print Assumptions reads_agree.

(* multi-entry reads spanning segments concatenate to exactly the entries asked for *)
Theorem getn_concat :
  forall l i n, wf_log l -> 1 <= n -> a_prev (abs l) < i -> i + n - 1 <= a_last (abs l) -> i + n < two64 ->
    exists bufs, h_getn (handle_of l) i n = Ok bufs /\ concat bufs = concat (a_getn (abs l) i n).
Proof. exact Refine.getn_concat. Qed.
Print Assumptions getn_concat.

(* front removal removes whole segments only, and exactly up to CanLTE *)
Theorem removelte_whole_segments :
  forall l i, wf_log l ->
    (exists front, l_segs (l_commit l) = front ++ l_segs (l_removelte l i)) /\
    l_canlte l i = Ok (a_prev (abs (l_removelte l i))).
Proof. exact Refine.removelte_whole_segments. Qed.
Print Assumptions removelte_whole_segments.

(* a view keeps returning the same bytes for its range while the writer appends *)
Theorem view_stable_under_append :
  forall l p q v bs, wf_log l -> l_viewat l p q = Ok (Some v) ->
    let l' := run l (map OAppend bs) in
    (forall i, p < i -> i <= q -> h_get (view_handle l' v) i = h_get (view_handle l v) i) /\
    (forall i n, 1 <= n -> p < i -> i + n - 1 <= q -> i + n < two64 ->
        h_getn (view_handle l' v) i n = h_getn (view_handle l v) i n).
Proof. exact Refine.view_stable_under_append. Qed.
Print Assumptions view_stable_under_append.

(* and what a view reads is what the log itself holds at those indices *)
Theorem view_reads_log :
  forall l p q v i, wf_log l -> l_viewat l p q = Ok (Some v) -> p < i -> i <= q ->
    h_get (view_handle l v) i = h_get (handle_of l) i.
Proof. exact Refine.view_reads_log. Qed.
Print Assumptions view_reads_log.

(* non-vacuity: a log with two segments and a view across them *)
Example wf_example :
  let l := run (open_log 1024) [OAppend (repeat 7 600); OAppend (repeat 8 600); OAppend [1;2;3]] in
  wf_log l /\ length (l_segs l) = 2%nat /\ exists v, l_viewat l 0 3 = Ok (Some v).
Proof. exact Refine.wf_example. Qed.
