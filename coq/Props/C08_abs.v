(* C08 (abstract protocol)  Safety of Raft WITH single-voter membership changes carried in the log.
   Statements only.  Model: Abs/CfgRaft.v (a node always acts on the last configuration entry of its
   own log, committed or not; V0 is the bootstrap voter list; a leader appends a configuration only
   when the previous one is committed, when it has committed an entry of its own term, and when the
   new voter list differs from the current one by at most one voter; messages may be lost,
   duplicated, reordered, delayed; every node has a durable log prefix, leaders append without
   flushing and flush before committing, followers flush before acknowledging, any node may crash
   and restart at any time losing its unflushed tail and volatile state; a follower may install a
   snapshot standing for a committed prefix of a leader's logical log, step SInstall).  Proofs: Abs/CfgQuorum.v (adjacent majorities meet),
   Abs/CfgInvT.v (from the state facts to leader completeness and election safety), the
   preservation lemmas Abs/CfgInvStep*.v, Abs/CfgInvAll.v.  Concrete runs: Abs/CfgExample.v,
   Abs/CfgRefute.v (the variant without the "committed in its own term" guard is unsafe). *)
From Coq Require Import List NArith Lia.
From Verif Require Import Abs.Quorum Abs.CfgQuorum Abs.CfgBase Abs.CfgRaft Abs.CfgRun
  Abs.CfgInvAll Abs.CfgDurable Abs.CfgExample Abs.CfgRefute.
Import ListNotations.
Open Scope N_scope.

Theorem adjacent_majorities_meet : forall D D' Q1 Q2,
  NoDup D -> NoDup D' -> near D D' -> majority D Q1 -> majority D' Q2 ->
  exists v, In v Q1 /\ In v Q2.
Proof. exact CfgQuorum.adjacent_majorities_meet. Qed.
Print Assumptions adjacent_majorities_meet.

Theorem cfg_election_safety : forall V0, NoDup V0 -> forall s t n L n' L',
  Reachable V0 s ->
  In (t, n, L) (elected s) -> In (t, n', L') (elected s) -> n = n'.
Proof. exact election_safety. Qed.
Print Assumptions cfg_election_safety.

Theorem cfg_log_matching : forall V0, NoDup V0 -> forall s n m i,
  Reachable V0 s ->
  (0 < i)%nat -> (i <= length (log (st s n)))%nat -> (i <= length (log (st s m)))%nat ->
  term_at (log (st s n)) i = term_at (log (st s m)) i ->
  firstn i (log (st s n)) = firstn i (log (st s m)).
Proof. exact log_matching. Qed.
Print Assumptions cfg_log_matching.

Theorem cfg_leader_completeness : forall V0, NoDup V0 -> forall s t i e u l L,
  Reachable V0 s ->
  In (t, i, e) (committed s) -> In (u, l, L) (elected s) -> t < u ->
  nth_error L (i - 1) = Some e.
Proof. exact leader_completeness. Qed.
Print Assumptions cfg_leader_completeness.

Theorem cfg_state_machine_safety : forall V0, NoDup V0 -> forall s n m i,
  Reachable V0 s ->
  (1 <= i)%nat -> (i <= commit (st s n))%nat -> (i <= commit (st s m))%nat ->
  exists e, nth_error (log (st s n)) (i - 1) = Some e /\
            nth_error (log (st s m)) (i - 1) = Some e.
Proof. exact state_machine_safety. Qed.
Print Assumptions cfg_state_machine_safety.

(* durability: the commit index never exceeds the durable prefix *)
Theorem cfg_commit_le_flushed : forall V0, NoDup V0 -> forall s n,
  Reachable V0 s ->
  (commit (st s n) <= flushed (st s n) <= length (log (st s n)))%nat.
Proof. exact commit_le_flushed. Qed.
Print Assumptions cfg_commit_le_flushed.

(* whatever happens after a commit (crashes and restarts included, [steps] is the reflexive-
   transitive closure of the step relation), the committed record stays committed and every
   leader elected later holds the entry *)
Theorem cfg_committed_survives_crash : forall V0, NoDup V0 -> forall s s' t i e,
  Reachable V0 s -> steps V0 s s' -> In (t, i, e) (committed s) ->
  In (t, i, e) (committed s') /\
  forall u l L, In (u, l, L) (elected s') -> t < u -> nth_error L (i - 1) = Some e.
Proof.
  intros V0 HV s s' t i e R H Hc.
  destruct (committed_survives V0 s s' t i e R H Hc) as [R' Hc'].
  split; [exact Hc'|]. intros u l L He Htu.
  exact (leader_completeness V0 HV s' t i e u l L R' Hc' He Htu).
Qed.
Print Assumptions cfg_committed_survives_crash.

(* durability on a majority under membership changes (C06).  A record (tc, k, M) of [cmts] is
   filed by the leader's commit step: term, new commit index, the leader's whole log then;
   cfg_of V0 M is the configuration in force for that leader at that moment.  In every reachable
   state since (crashes, truncations, reconfigurations, installations included) a majority Q of
   THAT configuration (majority D Q includes incl Q D: voters only; the leader is in Q only if it
   is a voter) holds the committed prefix inside its durable prefix *)
Theorem cfg_committed_durable_on_majority : forall V0, NoDup V0 -> forall s tc k M,
  Reachable V0 s -> In (tc, k, M) (cmts s) ->
  exists Q, majority (cfg_of V0 M) Q /\
    forall v, In v Q ->
      (k <= flushed (st s v))%nat /\ firstn k (log (st s v)) = firstn k M.
Proof. exact committed_durable_on_majority. Qed.
Print Assumptions cfg_committed_durable_on_majority.

(* the same for the ghost [committed]; M is the committing leader's log at that commit *)
Theorem cfg_committed_entry_durable : forall V0, NoDup V0 -> forall s t i e,
  Reachable V0 s -> In (t, i, e) (committed s) ->
  exists M Q, In (t, i, M) (cmts s) /\ nth_error M (i - 1) = Some e /\
    majority (cfg_of V0 M) Q /\
    forall v, In v Q ->
      (i <= flushed (st s v))%nat /\ nth_error (log (st s v)) (i - 1) = Some e.
Proof. exact committed_entry_durable. Qed.
Print Assumptions cfg_committed_entry_durable.

(* a concrete run, V0 = [1;2;3]: leader 1 commits a configuration adding 4 (index 2), then one
   removing itself (index 3), then a data entry under [2;3;4] without counting itself (index 4);
   follower 2 crashes and recovers its commit index from a heartbeat; leader 1 appends an entry
   (1, PData 8) that it never flushes and crashes: that entry is lost, the committed ones stay *)
Example cfg_run_reachable : Reachable V3 final.
Proof. exact final_reachable. Qed.
Print Assumptions cfg_run_reachable.

Example cfg_run_facts :
  In (1, 2%nat, (1, PCfg [1; 2; 3; 4])) (committed final) /\
  In (1, 3%nat, (1, PCfg [2; 3; 4])) (committed final) /\
  In (1, 4%nat, (1, PData 7)) (committed final) /\ role (st final 1) = Follower /\
  cfg V3 final 1 = [2; 3; 4] /\ commit (st final 1) = 2%nat /\
  commit (st final 2) = 4%nat /\
  log (st final 4) = [(1, PData 0); (1, PCfg [1; 2; 3; 4]); (1, PCfg [2; 3; 4]); (1, PData 7)] /\
  log (st final 1) = [(1, PData 0); (1, PCfg [1; 2; 3; 4]); (1, PCfg [2; 3; 4]); (1, PData 7)] /\
  flushed (st final 1) = 4%nat /\
  log (st final 2) = [(1, PData 0); (1, PCfg [1; 2; 3; 4]); (1, PCfg [2; 3; 4]); (1, PData 7)] /\
  flushed (st final 2) = 4%nat.
Proof. exact final_facts. Qed.
Print Assumptions cfg_run_facts.

(* without guard (b) ("the leader has committed an entry of its own term") the classic
   single-server-change scenario breaks state-machine safety and leader completeness *)
Theorem cfg_no_guard_b_unsafe :
  exists s, GReachable [1; 2; 3; 4] false s /\
    (exists n m i e1 e2, (i <= commit (st s n))%nat /\ (i <= commit (st s m))%nat /\
       nth_error (log (st s n)) (i - 1) = Some e1 /\
       nth_error (log (st s m)) (i - 1) = Some e2 /\ e1 <> e2) /\
    (exists t i e u l L, In (t, i, e) (committed s) /\ In (u, l, L) (elected s) /\
       t < u /\ nth_error L (i - 1) <> Some e).
Proof. exact no_guard_b_unsafe. Qed.
Print Assumptions cfg_no_guard_b_unsafe.
