(* C20  Cluster/node identity isolation and storage exclusivity.  Statements; proofs in Ident/Ident.v *)
From Coq Require Import List NArith Bool.
From Verif Require Import Ident.Ident.
Import ListNotations.
Open Scope N_scope.

(* For every history of dials (the adversary chooses which listener answers at each address:
   configuration or resolver mix-ups, clusters sharing addresses), handshakes, sends and
   closes: every vote/append/installSnap/timeoutNow request that reaches a listener's handlers
   arrived on a connection whose listener is exactly the (cluster, node) the dialer intended *)
Theorem foreign_requests_never_processed :
  forall es c, In c (w_processed (crun es)) ->
    i_cid (c_listener c) = i_cid (c_dialer c) /\ i_nid (c_listener c) = c_target c.
Proof. intros es c H. exact (proj2 (crun_ok es) c H). Qed.
Print Assumptions foreign_requests_never_processed.

(* and a dialer only ever keeps (pools, sends on) connections to the peer it intended *)
Theorem dialer_never_sends_to_wrong_peer :
  forall es c, In c (w_conns (crun es)) -> c_phase c = Verified ->
    i_cid (c_listener c) = i_cid (c_dialer c) /\ i_nid (c_listener c) = c_target c.
Proof. intros es c H V. exact (proj1 (crun_ok es) c H V). Qed.
Print Assumptions dialer_never_sends_to_wrong_peer.

(* while somebody holds the storage directory, every other attempt is refused *)
Theorem lock_exclusive :
  forall s p, l_holder s <> None ->
    l_holder (lstep s (TryLock p)) = l_holder s /\ l_granted (lstep s (TryLock p)) = l_granted s ++ [(p, false)].
Proof. exact lock_exclusive_step. Qed.
Print Assumptions lock_exclusive.

(* an identity, once set, cannot be changed; the only successful SetIdentity is the one that repeats it *)
Theorem identity_immutable :
  forall stored cid nid, i_cid stored <> 0 -> i_nid stored <> 0 ->
    snd (set_identity stored cid nid) = stored /\ (fst (set_identity stored cid nid) = SetOk -> stored = mkId cid nid).
Proof. exact Ident.identity_immutable. Qed.
Print Assumptions identity_immutable.

Example mixup_example :
  let es := [Dial (mkId 1 1) 2 (mkId 2 2); Handshake 0; Send 0; Dial (mkId 1 1) 2 (mkId 1 2); Handshake 1; Send 1] in
  length (w_processed (crun es)) = 1%nat.
Proof. reflexivity. Qed.

(* ---- the connection pool pairs replies with requests (Ident/Pool.v) ----
   For every sequence of requests through one pool, whatever the peer does (answers in time,
   answers after the caller's deadline, breaks the connection): a reply that doRPC hands to its
   caller is the reply to the request that very call wrote.  (A connection on which a request
   failed is closed, never pooled: pooled connections have nothing outstanding.)  Election safety
   leans on this: a candidate counts a granted vote for the round in which it reads it. *)
From Verif Require Import Ident.Pool.
Theorem pool_replies_paired :
  forall es tag o res r, In (PRpc tag o, res) (prun pinit es) -> pr_reply res = Some r -> r = tag.
Proof. exact replies_paired. Qed.
Print Assumptions pool_replies_paired.

Example pool_run_example :
  map (fun x => pr_reply (snd x)) (prun pinit [PRpc 1 PAnswered; PRpc 2 PLate; PRpc 3 PAnswered; PRpc 4 PBroken; PRpc 5 PAnswered])
  = [Some 1; None; Some 3; None; Some 5].
Proof. reflexivity. Qed.
