(* Props/AbsLink.v  The node model's follower handlers (Node/Handlers.v: on_append_request,
   on_vote_request) and the follower steps of the abstract protocol (Abs/CfgRaft.v: do_recv,
   SRecv's prev_ok, SGrant's guard).  Statements only; proofs in Node/AbsLink.v.
   [pay] is any map from node entries to abstract payloads; [abs_log pay s] is the node's log with
   every entry turned into (term, pay entry).  Uncompacted logs only (st_logprev = st_snapidx = 0);
   [wf_log]: entries numbered 1.., st_lastidx = length, st_lastterm = last term, flushed <= last. *)
From Coq Require Import List NArith Lia.
From Verif Require Import Base.Bytes Codec.Messages Node.Types Node.Handlers Node.InfoInvDefs Node.AbsLink.
From Verif Require Abs.CfgBase Abs.CfgRaft.
Import ListNotations.
Open Scope N_scope.

(* A: an accepted request makes the node's log the abstract merge *)
Theorem link_append_request_refines_recv_log : forall pay sor s q s',
  wf_log s -> st_logprev s = 0 -> st_snapidx s = 0 ->
  consec (aq_previdx q) (aq_entries q) ->
  on_append_request sor s q = Done (success, s') ->
  abs_log pay s' = CfgBase.recv_log (abs_log pay s) (N.to_nat (aq_previdx q))
                                    (map (abs_entry pay) (aq_entries q)) /\
  st_term s <= aq_term q /\ st_term s' = aq_term q /\
  CfgRaft.prev_ok (abs_log pay s) (N.to_nat (aq_previdx q)) (aq_prevterm q) = true /\
  wf_log s' /\ st_logprev s' = 0 /\ st_snapidx s' = 0.
Proof. exact append_request_refines_recv_log. Qed.
Print Assumptions link_append_request_refines_recv_log.

(* B: the flush rule of do_recv *)
Theorem link_append_request_flush_rule : forall pay sor s q s',
  wf_log s -> st_logprev s = 0 -> st_snapidx s = 0 ->
  consec (aq_previdx q) (aq_entries q) ->
  on_append_request sor s q = Done (success, s') ->
  N.to_nat (st_flushed s') =
    if CfgRaft.log_eqb (abs_log pay s') (abs_log pay s) then N.to_nat (st_flushed s)
    else length (abs_log pay s').
Proof. exact append_request_flush_rule. Qed.
Print Assumptions link_append_request_flush_rule.

Theorem link_append_request_flush_exact : forall pay sor s q s',
  wf_log s -> st_logprev s = 0 -> st_snapidx s = 0 ->
  consec (aq_previdx q) (aq_entries q) ->
  on_append_request sor s q = Done (success, s') ->
  (st_log s' = st_log s /\ st_flushed s' = st_flushed s) \/
  (abs_log pay s' <> abs_log pay s /\ st_flushed s' = st_lastidx s' /\
   st_lastidx s' = aq_previdx q + N.of_nat (length (aq_entries q))).
Proof. exact append_request_flush_exact. Qed.
Print Assumptions link_append_request_flush_exact.

(* C: the node's new commit index is the old one, the request's previous index, or its last index *)
Theorem link_append_request_commit_exact : forall pay sor s q s',
  wf_log s -> st_logprev s = 0 -> st_snapidx s = 0 ->
  consec (aq_previdx q) (aq_entries q) ->
  on_append_request sor s q = Done (success, s') ->
  st_commit s' = st_commit s \/
  (st_commit s' = aq_previdx q /\ st_commit s < aq_previdx q /\ aq_previdx q <= aq_commit q /\
   aq_prevterm q = aq_term q /\ aq_previdx q <= st_lastidx s) \/
  (st_commit s' = aq_previdx q + N.of_nat (length (aq_entries q)) /\
   st_commit s' <= aq_commit q /\ abs_log pay s' <> abs_log pay s).
Proof. exact append_request_commit_exact. Qed.
Print Assumptions link_append_request_commit_exact.

(* C without the flushed bound *)
Theorem link_append_request_commit_le_leader : forall sor s q s',
  wf_log s -> st_logprev s = 0 -> st_snapidx s = 0 ->
  consec (aq_previdx q) (aq_entries q) ->
  on_append_request sor s q = Done (success, s') ->
  let last := (N.to_nat (aq_previdx q) + length (aq_entries q))%nat in
  (N.to_nat (st_commit s') <=
   Nat.max (N.to_nat (st_commit s)) (Nat.min (N.to_nat (aq_commit q)) last))%nat.
Proof. exact (append_request_commit_le_leader (fun _ => CfgBase.PData 0)). Qed.
Print Assumptions link_append_request_commit_le_leader.

(* C: never ahead of do_recv's commit index, if what the follower holds of the leader's term is flushed *)
Theorem link_append_request_commit_rule : forall sor s q s',
  wf_log s -> st_logprev s = 0 -> st_snapidx s = 0 ->
  consec (aq_previdx q) (aq_entries q) ->
  (aq_prevterm q = aq_term q -> aq_previdx q <= st_lastidx s -> aq_previdx q <= st_flushed s) ->
  on_append_request sor s q = Done (success, s') ->
  let last := (N.to_nat (aq_previdx q) + length (aq_entries q))%nat in
  (N.to_nat (st_commit s') <=
   Nat.max (N.to_nat (st_commit s))
           (Nat.min (Nat.min (N.to_nat (aq_commit q)) last) (N.to_nat (st_flushed s'))))%nat.
Proof. exact (append_request_commit_rule (fun _ => CfgBase.PData 0)). Qed.
Print Assumptions link_append_request_commit_rule.

(* that hypothesis does not follow from wf_log *)
Theorem link_commit_may_pass_flushed :
  wf_log cx_s /\ st_logprev cx_s = 0 /\ st_snapidx cx_s = 0 /\
  consec (aq_previdx cx_q) (aq_entries cx_q) /\
  exists s', on_append_request false cx_s cx_q = Done (success, s') /\
             st_commit s' = 1 /\ st_flushed s' = 0 /\ st_log s' = st_log cx_s.
Proof. exact commit_may_pass_flushed. Qed.
Print Assumptions link_commit_may_pass_flushed.

(* D: a rejected request changes no log field, and (other than a stale term) it is rejected exactly
   where the abstract guard prev_ok fails *)
Theorem link_append_reject_changes_no_log : forall pay sor s q code s',
  wf_log s -> st_logprev s = 0 -> st_snapidx s = 0 ->
  on_append_request sor s q = Done (code, s') ->
  code = staleTerm \/ code = prevEntryNotFound \/ code = prevTermMismatch ->
  st_log s' = st_log s /\ st_flushed s' = st_flushed s /\ st_lastidx s' = st_lastidx s /\
  st_lastterm s' = st_lastterm s /\ st_commit s' = st_commit s /\
  st_term s' = N.max (st_term s) (aq_term q) /\
  (code = staleTerm -> aq_term q < st_term s) /\
  (code <> staleTerm -> st_term s <= aq_term q /\
     CfgRaft.prev_ok (abs_log pay s) (N.to_nat (aq_previdx q)) (aq_prevterm q) = false).
Proof. exact append_reject_changes_no_log. Qed.
Print Assumptions link_append_reject_changes_no_log.

(* E: a granted vote satisfies SGrant's guard (no hypothesis on the state) *)
Theorem link_vote_request_refines_grant : forall s q s',
  on_vote_request s q = Done (success, s') ->
  st_term s <= vq_term q /\
  (st_term s = vq_term q -> st_voted s = 0 \/ st_voted s = vq_src q) /\
  st_term s' = vq_term q /\ st_voted s' = vq_src q /\ KL s' = KL s /\ st_commit s' = st_commit s /\
  ((st_term s = vq_term q /\ st_voted s = vq_src q /\ vq_src q <> 0 /\ s' = s) \/
   ((st_term s < vq_term q \/ st_voted s = 0) /\
    (st_lastterm s < vq_lastterm q \/ (vq_lastterm q = st_lastterm s /\ st_lastidx s <= vq_lastidx q)))).
Proof. exact vote_request_refines_grant. Qed.
Print Assumptions link_vote_request_refines_grant.

Theorem link_vote_grant_uptodate : forall pay s q s' (Lc : list CfgBase.entry),
  wf_log s -> on_vote_request s q = Done (success, s') ->
  st_term s < vq_term q \/ st_voted s = 0 ->
  CfgBase.lastTerm Lc = vq_lastterm q -> N.of_nat (length Lc) = vq_lastidx q ->
  CfgRaft.uptodate Lc (abs_log pay s).
Proof. exact vote_grant_uptodate. Qed.
Print Assumptions link_vote_grant_uptodate.
