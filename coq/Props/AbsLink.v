(* Props/AbsLink.v  The node model's follower handlers (Node/Handlers.v: on_append_request,
   on_vote_request) and the follower steps of the abstract protocol (Abs/CfgRaft.v: do_recv,
   SRecv's prev_ok, SGrant's guard).  Statements only; proofs in Node/AbsLink.v.
   [pay] is any map from node entries to abstract payloads; [abs_log pay s] is the node's log with
   every entry turned into (term, pay entry).  Uncompacted logs only (st_logprev = st_snapidx = 0);
   [wf_log]: entries numbered 1.., st_lastidx = length, st_lastterm = last term, flushed <= last. *)
From Coq Require Import List NArith Lia.
From Verif Require Import Base.Bytes Codec.Messages Node.Types Node.Handlers Node.InfoInvDefs Node.AbsLink.
From Verif Require Abs.CfgBase Abs.CfgRaft.
Import ListNotations.
Open Scope N_scope.

(* A: an accepted request makes the node's log the abstract merge *)
Theorem link_append_request_refines_recv_log : forall pay sor s q s',
  wf_log s -> st_logprev s = 0 -> st_snapidx s = 0 ->
  consec (aq_previdx q) (aq_entries q) ->
  on_append_request sor s q = Done (success, s') ->
  abs_log pay s' = CfgBase.recv_log (abs_log pay s) (N.to_nat (aq_previdx q))
                                    (map (abs_entry pay) (aq_entries q)) /\
  st_term s <= aq_term q /\ st_term s' = aq_term q /\
  CfgRaft.prev_ok (abs_log pay s) (N.to_nat (aq_previdx q)) (aq_prevterm q) = true /\
  wf_log s' /\ st_logprev s' = 0 /\ st_snapidx s' = 0.
Proof. exact append_request_refines_recv_log. Qed.
Print Assumptions link_append_request_refines_recv_log.

(* B: the flush rule of do_recv *)
Theorem link_append_request_flush_rule : forall pay sor s q s',
  wf_log s -> st_logprev s = 0 -> st_snapidx s = 0 ->
  consec (aq_previdx q) (aq_entries q) ->
  on_append_request sor s q = Done (success, s') ->
  N.to_nat (st_flushed s') =
    if CfgRaft.log_eqb (abs_log pay s') (abs_log pay s) then N.to_nat (st_flushed s)
    else length (abs_log pay s').
Proof. exact append_request_flush_rule. Qed.
Print Assumptions link_append_request_flush_rule.

Theorem link_append_request_flush_exact : forall pay sor s q s',
  wf_log s -> st_logprev s = 0 -> st_snapidx s = 0 ->
  consec (aq_previdx q) (aq_entries q) ->
  on_append_request sor s q = Done (success, s') ->
  (st_log s' = st_log s /\ st_flushed s' = st_flushed s) \/
  (abs_log pay s' <> abs_log pay s /\ st_flushed s' = st_lastidx s' /\
   st_lastidx s' = aq_previdx q + N.of_nat (length (aq_entries q))).
Proof. exact append_request_flush_exact. Qed.
Print Assumptions link_append_request_flush_exact.

(* C: the node's new commit index is the old one, the request's previous index, or its last index *)
Theorem link_append_request_commit_exact : forall pay sor s q s',
  wf_log s -> st_logprev s = 0 -> st_snapidx s = 0 ->
  consec (aq_previdx q) (aq_entries q) ->
  on_append_request sor s q = Done (success, s') ->
  st_commit s' = st_commit s \/
  (st_commit s' = aq_previdx q /\ st_commit s < aq_previdx q /\ aq_previdx q <= aq_commit q /\
   aq_prevterm q = aq_term q /\ aq_previdx q <= st_lastidx s) \/
  (st_commit s' = aq_previdx q + N.of_nat (length (aq_entries q)) /\
   st_commit s' <= aq_commit q /\ abs_log pay s' <> abs_log pay s).
Proof. exact append_request_commit_exact. Qed.
Print Assumptions link_append_request_commit_exact.

(* C without the flushed bound *)
Theorem link_append_request_commit_le_leader : forall sor s q s',
  wf_log s -> st_logprev s = 0 -> st_snapidx s = 0 ->
  consec (aq_previdx q) (aq_entries q) ->
  on_append_request sor s q = Done (success, s') ->
  let last := (N.to_nat (aq_previdx q) + length (aq_entries q))%nat in
  (N.to_nat (st_commit s') <=
   Nat.max (N.to_nat (st_commit s)) (Nat.min (N.to_nat (aq_commit q)) last))%nat.
Proof. exact (append_request_commit_le_leader (fun _ => CfgBase.PData 0)). Qed.
Print Assumptions link_append_request_commit_le_leader.

(* C: never ahead of do_recv's commit index, if what the follower holds of the leader's term is flushed *)
Theorem link_append_request_commit_rule : forall sor s q s',
  wf_log s -> st_logprev s = 0 -> st_snapidx s = 0 ->
  consec (aq_previdx q) (aq_entries q) ->
  (aq_prevterm q = aq_term q -> aq_previdx q <= st_lastidx s -> aq_previdx q <= st_flushed s) ->
  on_append_request sor s q = Done (success, s') ->
  let last := (N.to_nat (aq_previdx q) + length (aq_entries q))%nat in
  (N.to_nat (st_commit s') <=
   Nat.max (N.to_nat (st_commit s))
           (Nat.min (Nat.min (N.to_nat (aq_commit q)) last) (N.to_nat (st_flushed s'))))%nat.
Proof. exact (append_request_commit_rule (fun _ => CfgBase.PData 0)). Qed.
Print Assumptions link_append_request_commit_rule.

(* that hypothesis does not follow from wf_log *)
Theorem link_commit_may_pass_flushed :
  wf_log cx_s /\ st_logprev cx_s = 0 /\ st_snapidx cx_s = 0 /\
  consec (aq_previdx cx_q) (aq_entries cx_q) /\
  exists s', on_append_request false cx_s cx_q = Done (success, s') /\
             st_commit s' = 1 /\ st_flushed s' = 0 /\ st_log s' = st_log cx_s.
Proof. exact commit_may_pass_flushed. Qed.
Print Assumptions link_commit_may_pass_flushed.

(* D: a rejected request changes no log field, and (other than a stale term) it is rejected exactly
   where the abstract guard prev_ok fails *)
Theorem link_append_reject_changes_no_log : forall pay sor s q code s',
  wf_log s -> st_logprev s = 0 -> st_snapidx s = 0 ->
  on_append_request sor s q = Done (code, s') ->
  code = staleTerm \/ code = prevEntryNotFound \/ code = prevTermMismatch ->
  st_log s' = st_log s /\ st_flushed s' = st_flushed s /\ st_lastidx s' = st_lastidx s /\
  st_lastterm s' = st_lastterm s /\ st_commit s' = st_commit s /\
  st_term s' = N.max (st_term s) (aq_term q) /\
  (code = staleTerm -> aq_term q < st_term s) /\
  (code <> staleTerm -> st_term s <= aq_term q /\
     CfgRaft.prev_ok (abs_log pay s) (N.to_nat (aq_previdx q)) (aq_prevterm q) = false).
Proof. exact append_reject_changes_no_log. Qed.
Print Assumptions link_append_reject_changes_no_log.

(* E: a granted vote satisfies SGrant's guard (no hypothesis on the state) *)
Theorem link_vote_request_refines_grant : forall s q s',
  on_vote_request s q = Done (success, s') ->
  st_term s <= vq_term q /\
  (st_term s = vq_term q -> st_voted s = 0 \/ st_voted s = vq_src q) /\
  st_term s' = vq_term q /\ st_voted s' = vq_src q /\ KL s' = KL s /\ st_commit s' = st_commit s /\
  ((st_term s = vq_term q /\ st_voted s = vq_src q /\ vq_src q <> 0 /\ s' = s) \/
   ((st_term s < vq_term q \/ st_voted s = 0) /\
    (st_lastterm s < vq_lastterm q \/ (vq_lastterm q = st_lastterm s /\ st_lastidx s <= vq_lastidx q)))).
Proof. exact vote_request_refines_grant. Qed.
Print Assumptions link_vote_request_refines_grant.

Theorem link_vote_grant_uptodate : forall pay s q s' (Lc : list CfgBase.entry),
  wf_log s -> on_vote_request s q = Done (success, s') ->
  st_term s < vq_term q \/ st_voted s = 0 ->
  CfgBase.lastTerm Lc = vq_lastterm q -> N.of_nat (length Lc) = vq_lastidx q ->
  CfgRaft.uptodate Lc (abs_log pay s).
Proof. exact vote_grant_uptodate. Qed.
Print Assumptions link_vote_grant_uptodate.

(* ================================================================ the leader side (Node/AbsLinkLeader.v) *)
From Verif Require Import Node.Leader Node.Snap Node.Step Node.Run Node.AbsLinkLeader.
From Verif Require Abs.Quorum Abs.CfgQuorum.

(* L1: guard of SCommit.  [k] is the index onMajorityCommit hands to leader.setCommitIndex *)
Theorem link_leader_commit_refines_SCommit : forall opt fuel s s' out l,
  st_ldr s = Some l -> node_inv s ->
  ld_numvoters l = num_voters (st_latest s) -> ld_voter l = is_voter (st_latest s) (st_nid s) ->
  NoDup (map n_id (c_nodes (st_latest s))) -> 1 <= num_voters (st_latest s) ->
  on_majority_commit opt fuel s = Done (s', out) -> st_commit s < st_commit s' ->
  exists k Q,
    majority_match s l = Done k /\
    st_commit s < k /\ k <= st_lastidx s /\ ld_start l <= k /\
    Quorum.majority (voters_of (st_latest s)) Q /\
    (forall v, In v Q ->
       (v = st_nid s /\ In (st_nid s) (voters_of (st_latest s))) \/
       (exists rp, In rp (ld_repls l) /\ rp_id rp = v /\ k <= rp_match rp)) /\
    k <= st_flushed s'.
Proof. exact leader_commit_refines_SCommit. Qed.
Print Assumptions link_leader_commit_refines_SCommit.

Theorem link_leader_commit_own_term : forall s l k e,
  core s ->
  (forall e, In e (st_log s) -> ld_start l <= e_index e -> e_term e = st_term s) ->
  ld_start l <= k -> log_get s k = Some e -> e_index e = k /\ e_term e = st_term s.
Proof. exact leader_commit_own_term. Qed.
Print Assumptions link_leader_commit_own_term.

(* bridge from Node/ConfigFacts.adjacent to Abs/CfgQuorum.near *)
Theorem link_adjacent_near : forall c c',
  ConfigFacts.adjacent c c' -> NoDup (voters_of c) -> NoDup (voters_of c') ->
  CfgQuorum.near (voters_of c) (voters_of c').
Proof. exact adjacent_near. Qed.
Print Assumptions link_adjacent_near.

Theorem link_derived_config_near : forall c id v a,
  NoDup (map n_id (c_nodes c)) ->
  let c1 := cfg_set_node c (with_voter_action (cfg_node0 c id) v a) in
  let c2 := cfg_del_node c id in
  NoDup (voters_of c) /\
  (NoDup (map n_id (c_nodes c1)) /\ NoDup (voters_of c1) /\ CfgQuorum.near (voters_of c) (voters_of c1)) /\
  (NoDup (map n_id (c_nodes c2)) /\ NoDup (voters_of c2) /\ CfgQuorum.near (voters_of c) (voters_of c2)).
Proof. exact derived_config_near. Qed.
Print Assumptions link_derived_config_near.

(* L2: guards of SReconfig for the entry checkConfigAction appends (configuration c', derived from c) *)
Theorem link_reconfig_refines_SReconfig : forall opt fuel s tid c id s' out l,
  st_ldr s = Some l -> NoDup (map n_id (c_nodes c)) ->
  check_config_action opt fuel s tid c id = Done (s', out) -> st_lastidx s < st_lastidx s' ->
  exists f s1 c',
    do_change_config opt f s1 tid c' = Done (s', out) /\
    st_lastidx s1 = st_lastidx s /\ st_latest s1 = st_latest s /\ st_commit s1 = st_commit s /\
    configs_committed s = true /\ ld_start l <= st_commit s /\ ld_tr_active l = false /\
    NoDup (voters_of c) /\ NoDup (voters_of c') /\ CfgQuorum.near (voters_of c) (voters_of c').
Proof. exact reconfig_refines_SReconfig. Qed.
Print Assumptions link_reconfig_refines_SReconfig.

Theorem link_reconfig_refines_SReconfig_latest : forall opt fuel s tid id s' out l,
  st_ldr s = Some l -> NoDup (map n_id (c_nodes (st_latest s))) ->
  (configs_committed s = true -> c_index (st_latest s) < ld_start l \/ c_index (st_latest s) <= st_commit s) ->
  check_config_action opt fuel s tid (st_latest s) id = Done (s', out) -> st_lastidx s < st_lastidx s' ->
  exists f s1 c',
    do_change_config opt f s1 tid c' = Done (s', out) /\
    c_index (st_latest s) <= st_commit s /\ ld_start l <= st_commit s /\
    NoDup (voters_of (st_latest s)) /\ NoDup (voters_of c') /\
    CfgQuorum.near (voters_of (st_latest s)) (voters_of c').
Proof. exact reconfig_refines_SReconfig_latest. Qed.
Print Assumptions link_reconfig_refines_SReconfig_latest.

(* L2 for a configuration submitted by the user *)
Theorem link_user_reconfig_refines_SReconfig : forall opt s tid c s' out l,
  st_ldr s = Some l -> tid <> 0 ->
  NoDup (map n_id (c_nodes c)) -> NoDup (map n_id (c_nodes (st_latest s))) ->
  on_change_config opt s tid c = Done (s', out) -> st_lastidx s < st_lastidx s' ->
  configs_committed s = true /\ ld_start l <= st_commit s /\
  NoDup (voters_of (st_latest s)) /\ NoDup (voters_of c) /\
  CfgQuorum.near (voters_of (st_latest s)) (voters_of c).
Proof. exact user_reconfig_refines_SReconfig. Qed.
Print Assumptions link_user_reconfig_refines_SReconfig.

(* ================================================================ compacted logs (Node/AbsLinkCompact.v) *)
(* p = st_logprev; G = the p entries compaction removed (any list of that length);
   abs_logical pay G s = G ++ abstraction of the physical log;
   wf_log_at p s: st_logprev = p, k-th physical entry has index p+1+k, st_lastidx = p + length,
   st_lastterm = last physical entry's term if there is one, flushed <= last, p <= snapidx <= last;
   req_agrees: wherever the snapshot covers the request (indices <= st_snapidx, which the node skips
   without looking), the request's terms are those of the logical log, and prev_ok holds if the
   request's previous index is covered. *)
From Verif Require Import Node.AbsLinkCompact.

Theorem link_req_agrees_intro : forall pay p G, length G = N.to_nat p -> forall s q,
  wf_log_at p s -> consec (aq_previdx q) (aq_entries q) ->
  (forall e, In e (aq_entries q) -> e_index e <= st_snapidx s ->
     CfgBase.term_at (abs_logical pay G s) (N.to_nat (e_index e)) = e_term e) ->
  (aq_previdx q <= st_snapidx s -> aq_previdx q = 0 \/
     CfgBase.term_at (abs_logical pay G s) (N.to_nat (aq_previdx q)) = aq_prevterm q) ->
  req_agrees pay G s q.
Proof. exact req_agrees_intro. Qed.
Print Assumptions link_req_agrees_intro.

(* A' *)
Theorem link_append_request_refines_recv_log_compacted : forall pay p G, length G = N.to_nat p ->
  forall sor s q s',
  wf_log_at p s -> consec (aq_previdx q) (aq_entries q) -> req_agrees pay G s q ->
  on_append_request sor s q = Done (success, s') ->
  abs_logical pay G s' = CfgBase.recv_log (abs_logical pay G s) (N.to_nat (aq_previdx q))
                                          (map (abs_entry pay) (aq_entries q)) /\
  st_term s <= aq_term q /\ st_term s' = aq_term q /\
  CfgRaft.prev_ok (abs_logical pay G s) (N.to_nat (aq_previdx q)) (aq_prevterm q) = true /\
  wf_log_at p s' /\ st_logprev s' = p /\ st_snapidx s' = st_snapidx s.
Proof. exact append_request_refines_recv_log_compacted. Qed.
Print Assumptions link_append_request_refines_recv_log_compacted.

(* B' *)
Theorem link_append_request_flush_rule_compacted : forall pay p G, length G = N.to_nat p ->
  forall sor s q s',
  wf_log_at p s -> consec (aq_previdx q) (aq_entries q) -> req_agrees pay G s q ->
  on_append_request sor s q = Done (success, s') ->
  N.to_nat (st_flushed s') =
    if CfgRaft.log_eqb (abs_logical pay G s') (abs_logical pay G s) then N.to_nat (st_flushed s)
    else length (abs_logical pay G s').
Proof. exact append_request_flush_rule_compacted. Qed.
Print Assumptions link_append_request_flush_rule_compacted.

Theorem link_append_request_flush_exact_compacted : forall pay p G, length G = N.to_nat p ->
  forall sor s q s',
  wf_log_at p s -> consec (aq_previdx q) (aq_entries q) -> req_agrees pay G s q ->
  on_append_request sor s q = Done (success, s') ->
  (st_log s' = st_log s /\ st_flushed s' = st_flushed s) \/
  (abs_logical pay G s' <> abs_logical pay G s /\ st_flushed s' = st_lastidx s' /\
   st_lastidx s' = aq_previdx q + N.of_nat (length (aq_entries q))).
Proof. exact append_request_flush_exact_compacted. Qed.
Print Assumptions link_append_request_flush_exact_compacted.

(* C', exact form *)
Theorem link_append_request_commit_exact_compacted : forall pay p G, length G = N.to_nat p ->
  forall sor s q s',
  wf_log_at p s -> consec (aq_previdx q) (aq_entries q) -> req_agrees pay G s q ->
  on_append_request sor s q = Done (success, s') ->
  st_commit s' = st_commit s \/
  (st_commit s' = aq_previdx q /\ st_commit s < aq_previdx q /\ aq_previdx q <= aq_commit q /\
   aq_prevterm q = aq_term q /\ aq_previdx q <= st_lastidx s) \/
  (st_commit s' = aq_previdx q + N.of_nat (length (aq_entries q)) /\
   st_commit s' <= aq_commit q /\ abs_logical pay G s' <> abs_logical pay G s).
Proof. exact append_request_commit_exact_compacted. Qed.
Print Assumptions link_append_request_commit_exact_compacted.

(* D' *)
Theorem link_append_reject_changes_no_log_compacted : forall pay p G, length G = N.to_nat p ->
  forall sor s q code s',
  wf_log_at p s ->
  on_append_request sor s q = Done (code, s') ->
  code = staleTerm \/ code = prevEntryNotFound \/ code = prevTermMismatch ->
  st_logprev s' = st_logprev s /\ st_log s' = st_log s /\ st_flushed s' = st_flushed s /\
  st_lastidx s' = st_lastidx s /\ st_lastterm s' = st_lastterm s /\ st_snapidx s' = st_snapidx s /\
  st_commit s' = st_commit s /\ st_term s' = N.max (st_term s) (aq_term q) /\
  (code = staleTerm -> aq_term q < st_term s) /\
  (code <> staleTerm -> st_term s <= aq_term q /\ st_snapidx s < aq_previdx q /\
     CfgRaft.prev_ok (abs_logical pay G s) (N.to_nat (aq_previdx q)) (aq_prevterm q) = false).
Proof. exact append_reject_changes_no_log_compacted. Qed.
Print Assumptions link_append_reject_changes_no_log_compacted.

(* the hypotheses are satisfiable, with entries skipped under the snapshot *)
Theorem link_compacted_sample :
  wf_log_at 1 Sample.s0 /\ consec (aq_previdx Sample.q0) (aq_entries Sample.q0) /\
  req_agrees Sample.pay0 Sample.G0 Sample.s0 Sample.q0 /\
  exists s', on_append_request false Sample.s0 Sample.q0 = Done (success, s') /\
             abs_logical Sample.pay0 Sample.G0 s' =
               [(1, CfgBase.PData 0); (1, CfgBase.PData 0); (1, CfgBase.PData 0)] /\
             st_flushed s' = 3.
Proof. exact Sample.compacted_sample. Qed.
Print Assumptions link_compacted_sample.
